(** C04, clause 5: "... and marks the row it left as soft-wrapped".

    [C04_wrapmark]               after the deferred wrap the row the cursor left is soft-wrapped, for every
                                 reachable state outside the class [kf1_C04];
    [C04_wrapmark_known_finding] KF-C04-1, a concrete reachable witness: the wrap happens on a bottom margin above
                                 the last screen row and the row left is NOT marked ([Buffer::scroll_up] clears the
                                 mark of the last row of the range it scrolls when that row is not the last screen row);
    [C04_wrapmark_kf_exact]      in the WHOLE class [kf1_C04] the mark is lost (the class is exact);
    [kf1_C04_class]              the class in words.

    Method: [C04_print] (Proofs/SpecPrint.v) reduces [execute t (Print c)] to the view-level specification
    [spec_print]; the statement is then a fact about lists ([spec_scroll_up], [upd_row]). *)

From Coq Require Import Lia ZArith ZifyBool ZifyNat ZifyN List.
From Avt Require Import Oracles.Step Oracles.C04Wrap Proofs.Inv Proofs.VisEq Proofs.ListLemmas Proofs.BufRow
     Proofs.BufScroll Proofs.TermEasy Proofs.SpecScroll Proofs.SpecPrint Proofs.InvStep Proofs.DumpMargins.
From Avt Require Proofs.ListLemmasS.
Import ListNotations.
Ltac Zify.zify_post_hook ::= Z.div_mod_to_equations.

Local Ltac len :=
  repeat (rewrite ?app_length, ?firstn_length, ?skipn_length, ?repeat_length, ?map_length,
                  ?upd_length, ?upd_row_length); try lia.

Lemma Ok_inj {A} (a b : A) : Ok a = Ok b -> a = b.
Proof. intros H. inversion H. reflexivity. Qed.

(** * 1. a terminal's active buffer as scrollback ++ view *)

Definition Scr (s : term) (sb v : list line) : Prop :=
  lines (buf s) = sb ++ v /\ length v = brows (buf s).

Lemma Scr_view s sb v : Scr s sb v -> tview s = v /\ tsb s = sb.
Proof.
  intros [Hl Hv]. split.
  - exact (dec_view (buf s) sb v Hl Hv).
  - exact (dec_sb (buf s) sb v Hl Hv).
Qed.

Lemma Scr_TInv t : TInv t -> Scr t (tsb t) (tview t).
Proof. intros HT. exact (term_decomp t (TInv_BGeom t HT)). Qed.

Lemma Scr_set_screen s sb v : length v = brows (buf s) -> Scr (set_screen s sb v) sb v.
Proof. intros H. split; [reflexivity|exact H]. Qed.

Lemma Scr_set_cursor s sb v c r p : Scr s sb v -> Scr (set_cursor s c r p) sb v.
Proof. intros H. exact H. Qed.

Lemma Scr_set_view s sb v v' : Scr s sb v -> length v' = length v -> Scr (set_view s v') sb v'.
Proof.
  intros H Hlen. destruct (Scr_view s sb v H) as [_ Es]. unfold set_view. rewrite Es.
  apply Scr_set_screen. destruct H as [_ H]. lia.
Qed.

(** what the statement looks at depends on lines and height of the active buffer only *)
Lemma vis_norm_screen a b :
  vis_norm a = vis_norm b -> tview a = tview b /\ tsb a = tsb b /\ cur_row a = cur_row b.
Proof.
  intros H.
  assert (El : lines (buf (vis_norm a)) = lines (buf (vis_norm b))) by (rewrite H; reflexivity).
  assert (Er : brows (buf (vis_norm a)) = brows (buf (vis_norm b))) by (rewrite H; reflexivity).
  assert (Ec : cur_row (vis_norm a) = cur_row (vis_norm b)) by (rewrite H; reflexivity).
  change (lines (buf a) = lines (buf b)) in El. change (brows (buf a) = brows (buf b)) in Er.
  change (cur_row a = cur_row b) in Ec.
  unfold tview, tsb, view, sb_len. rewrite El, Er. repeat split. exact Ec.
Qed.

(** * 2. stage 2 of PRINT (write the cell) keeps every wrap mark *)

Definition wr (s : term) (loc : left_loc) : option bool := option_map wrapped (line_at s loc).

Lemma spec_write_Scr s sb v cl :
  Scr s sb v ->
  exists g, (forall l, wrapped (g l) = wrapped l)
            /\ Scr (spec_write s cl) sb (upd_row (cur_row s) g v).
Proof.
  intros H. destruct (Scr_view s sb v H) as [Ev _]. unfold spec_write. rewrite Ev.
  destruct (cols s <=? cur_col s + 1).
  - exists (set_cell (cols s - 1) cl). split; [reflexivity|].
    assert (H2 : Scr (set_view s (upd_row (cur_row s) (set_cell (cols s - 1) cl) v)) sb
                     (upd_row (cur_row s) (set_cell (cols s - 1) cl) v))
      by (apply (Scr_set_view s sb v); [exact H|apply upd_row_length]).
    destruct (awm s); [apply Scr_set_cursor|]; exact H2.
  - exists ((if ins s then insert_cell else set_cell) (cur_col s) cl).
    split; [intros l; destruct (ins s); reflexivity|].
    apply Scr_set_cursor. apply (Scr_set_view s sb v); [exact H|apply upd_row_length].
Qed.

Lemma cur_row_write s cl : cur_row (spec_write s cl) = cur_row s.
Proof.
  unfold spec_write. destruct (cols s <=? cur_col s + 1); [destruct (awm s)|]; reflexivity.
Qed.

Lemma wrapped_upd_row r g (v : list line) i :
  (forall l, wrapped (g l) = wrapped l) ->
  option_map wrapped (nth_error (upd_row r g v) i) = option_map wrapped (nth_error v i).
Proof.
  intros Hg. unfold upd_row. destruct (Nat.eq_dec r i) as [->|Hne].
  - rewrite nth_error_upd_same. destruct (nth_error v i); [cbn [option_map]; rewrite Hg|]; reflexivity.
  - rewrite nth_error_upd_other by exact Hne. reflexivity.
Qed.

Lemma wr_write s sb v cl loc : Scr s sb v -> wr (spec_write s cl) loc = wr s loc.
Proof.
  intros H. destruct (spec_write_Scr s sb v cl H) as (g & Hg & H').
  destruct (Scr_view _ _ _ H) as [Ev Es]. destruct (Scr_view _ _ _ H') as [Ev' Es'].
  unfold wr. destruct loc; cbn [line_at]; try reflexivity.
  - rewrite Ev', Ev. apply wrapped_upd_row. exact Hg.
  - rewrite Es', Es. reflexivity.
Qed.

(** * 3. the scroll of the region [a .. r], seen from row [r] *)

Lemma up_v2_at a r (v : list line) :
  a <= r -> r < length v ->
  nth_error (up_v2 a (r + 1) v) r
  = option_map (fun l => if r + 1 <? length v then unwrap l else l) (nth_error v r).
Proof.
  intros Har Hr. unfold up_v2, upd_row.
  assert (E1 : nth_error (if r + 1 <? length v then upd (r + 1 - 1) unwrap v else v) r
               = option_map (fun l => if r + 1 <? length v then unwrap l else l) (nth_error v r)).
  { destruct (r + 1 <? length v).
    - replace (r + 1 - 1) with r by lia. apply nth_error_upd_same.
    - destruct (nth_error v r); reflexivity. }
  destruct (0 <? a) eqn:Ea; [|exact E1].
  rewrite nth_error_upd_other by lia. exact E1.
Qed.

(** the row left moves up by one inside the region *)
Lemma scroll_left_view a r p nc (v : list line) :
  a < r -> r < length v ->
  nth_error (fst (spec_scroll_up a (r + 1) 1 p nc v)) (r - 1) = nth_error (up_v2 a (r + 1) v) r.
Proof.
  intros Har Hr. rewrite spec_scroll_up_eq. cbv zeta. cbn [fst].
  replace (Nat.min 1 (r + 1 - a)) with 1 by lia.
  set (v2 := up_v2 a (r + 1) v).
  assert (L2 : length v2 = length v) by apply up_v2_length.
  rewrite nth_error_app2 by (len).
  rewrite firstn_length, L2. replace (r - 1 - Nat.min a (length v)) with (r - 1 - a) by lia.
  rewrite nth_error_app1 by (len).
  rewrite nth_error_firstn_lt by lia.
  rewrite nth_error_skipn_add. f_equal. lia.
Qed.

(** a one-row region at the top of the screen: the row left is pushed to the scrollback *)
Lemma scroll_left_pushed p nc (v : list line) x :
  nth_error (up_v2 0 1 v) 0 = Some x ->
  snd (spec_scroll_up 0 1 1 p nc v) = [x].
Proof.
  intros E. rewrite spec_scroll_up_eq. cbv zeta. cbn [snd Nat.eqb Nat.sub Nat.min].
  destruct (up_v2 0 1 v) as [|y w]; [discriminate|].
  cbn [nth_error] in E. injection E as ->. reflexivity.
Qed.

(** * 4. stage 1 of PRINT (the deferred wrap), seen from the row left *)

Section Wrap.
  Variable t : term.
  Hypothesis HT : TInv t.
  Hypothesis Hdue : awm t && pend t = true.
  Variable l : line.
  Hypothesis Hl : nth_error (tview t) (cur_row t) = Some l.

  Let Hlen : length (tview t) = rows t := tview_length t HT.
  Let Hrows : brows (buf t) = rows t := ti_brows t HT.

  (** no scroll: the row stays, marked *)
  Lemma wrap_plain :
    cur_row t <> bot t -> cur_row t < rows t - 1 ->
    exists sb v, Scr (spec_wrap t) sb v /\ wr (spec_wrap t) (InView (cur_row t)) = Some true.
  Proof.
    intros Hne Hlt. unfold spec_wrap. rewrite Hdue.
    replace (cur_row t =? bot t) with false by lia.
    replace (cur_row t <? rows t - 1) with true by lia.
    assert (H : Scr (set_view t (upd_row (cur_row t) mark_wrapped (tview t))) (tsb t)
                    (upd_row (cur_row t) mark_wrapped (tview t)))
      by (apply (Scr_set_view t _ (tview t)); [apply Scr_TInv; exact HT|apply upd_row_length]).
    eexists _, _. split; [apply Scr_set_cursor; exact H|].
    unfold wr. cbn [line_at].
    change (tview (set_cursor ?s _ _ _)) with (tview s).
    rewrite (proj1 (Scr_view _ _ _ H)). unfold upd_row. rewrite nth_error_upd_same, Hl. reflexivity.
  Qed.

  (** last row, below the region: nothing but the cursor column changes *)
  Lemma wrap_stays :
    cur_row t <> bot t -> ~ cur_row t < rows t - 1 ->
    spec_wrap t = set_cursor t 0 (cur_row t) false.
  Proof.
    intros Hne Hge. unfold spec_wrap. rewrite Hdue.
    replace (cur_row t =? bot t) with false by lia.
    replace (cur_row t <? rows t - 1) with false by lia. reflexivity.
  Qed.

  (** scroll: the row left (if it survives) is marked iff the bottom margin is the last screen row *)
  Lemma wrap_scroll :
    cur_row t = bot t ->
    exists sb v, Scr (spec_wrap t) sb v
      /\ (top t < bot t \/ top t = 0 ->
          wr (spec_wrap t) (wrap_left t) = Some (negb (bot t <? rows t - 1))).
  Proof.
    intros Hb. pose proof (ti_margins t HT) as [Hm1 Hm2].
    unfold spec_wrap. rewrite Hdue. replace (cur_row t =? bot t) with true by lia.
    set (v1 := upd_row (cur_row t) mark_wrapped (tview t)).
    assert (Lv1 : length v1 = rows t) by (unfold v1; rewrite upd_row_length; exact Hlen).
    assert (H0 : Scr (set_view t v1) (tsb t) v1)
      by (apply (Scr_set_view t _ (tview t)); [apply Scr_TInv; exact HT|unfold v1; apply upd_row_length]).
    destruct (Scr_view _ _ _ H0) as [Ev0 Es0].
    rewrite apply_scroll_up_eq, Ev0, Es0.
    change (tpen (set_view t v1)) with (tpen t). change (cols (set_view t v1)) with (cols t).
    set (S := spec_scroll_up (top t) (bot t + 1) 1 (tpen t) (cols t) v1).
    assert (H1 : Scr (set_screen (set_view t v1) (tsb t ++ snd S) (fst S)) (tsb t ++ snd S) (fst S)).
    { apply Scr_set_screen. unfold S. rewrite spec_up_fst_length by lia.
      change (brows (buf (set_view t v1))) with (brows (buf t)). lia. }
    eexists _, _. split; [apply Scr_set_cursor; exact H1|].
    intros Hcase. unfold wr.
    assert (E1 : nth_error v1 (bot t) = Some (mark_wrapped l)).
    { unfold v1, upd_row. rewrite Hb, nth_error_upd_same. rewrite <- Hb, Hl. reflexivity. }
    assert (E2 : nth_error (up_v2 (top t) (bot t + 1) v1) (bot t)
                 = Some (if bot t + 1 <? rows t then unwrap (mark_wrapped l) else mark_wrapped l)).
    { rewrite up_v2_at by lia. rewrite E1, Lv1. reflexivity. }
    assert (Ew : wrapped (if bot t + 1 <? rows t then unwrap (mark_wrapped l) else mark_wrapped l)
                 = negb (bot t <? rows t - 1)).
    { destruct (Nat.ltb_spec (bot t + 1) (rows t)) as [Hlt|Hge].
      - replace (bot t <? rows t - 1) with true by lia. reflexivity.
      - replace (bot t <? rows t - 1) with false by lia. reflexivity. }
    unfold wrap_left. replace (cur_row t =? bot t) with true by lia. rewrite Hb.
    destruct (Nat.ltb_spec (top t) (bot t)) as [Hlt|Hge].
    - (* moved up by one inside the region *)
      cbn [line_at]. change (tview (set_cursor ?s _ _ _)) with (tview s).
      rewrite (proj1 (Scr_view _ _ _ H1)). unfold S.
      rewrite scroll_left_view by lia. rewrite E2. cbn [option_map]. rewrite Ew. reflexivity.
    - (* one-row region: top = bot = 0, pushed to the scrollback *)
      assert (Et : top t = 0) by lia. assert (Eb : bot t = 0) by lia.
      rewrite Et. cbn [Nat.eqb line_at].
      change (tsb (set_cursor ?s _ _ _)) with (tsb s).
      rewrite (proj2 (Scr_view _ _ _ H1)). unfold S.
      rewrite Et, Eb in E2 |- *. cbn [Nat.add] in E2 |- *.
      rewrite (scroll_left_pushed _ _ _ _ E2).
      rewrite ListLemmasS.last_opt_snoc. cbn [option_map].
      rewrite Eb in Ew. cbn [Nat.add] in Ew. rewrite Ew. reflexivity.
  Qed.
End Wrap.

(** * 5. the theorems *)

Lemma print_screen t c t' :
  TInv t -> execute t (Print c) = Ok t' ->
  tview t' = tview (spec_print t c) /\ tsb t' = tsb (spec_print t c)
  /\ cur_row t' = cur_row (spec_print t c).
Proof.
  intros HT Hx. destruct (C04_print t c HT) as (t'' & Hx' & Hn & _).
  rewrite Hx in Hx'. apply Ok_inj in Hx'. subst t''.
  destruct (vis_norm_screen _ _ Hn) as (E1 & E2 & E3). repeat split; symmetry; assumption.
Qed.

Lemma wr_post t c t' loc :
  TInv t -> execute t (Print c) = Ok t' -> wr t' loc = wr (spec_print t c) loc.
Proof.
  intros HT Hx. destruct (print_screen t c t' HT Hx) as (E1 & E2 & _).
  unfold wr. destruct loc; cbn [line_at]; rewrite ?E1, ?E2; reflexivity.
Qed.

Lemma cur_row_in_view t : TInv t -> exists l, nth_error (tview t) (cur_row t) = Some l.
Proof.
  intros HT. destruct (nth_error (tview t) (cur_row t)) as [l|] eqn:E; [exists l; reflexivity|].
  apply nth_error_None in E. rewrite (tview_length t HT) in E. pose proof (ti_row t HT). lia.
Qed.

Lemma wrap_due_inv t f : wrap_due t f = true -> exists c, f = Print c /\ awm t && pend t = true.
Proof.
  intros H. destruct f; try discriminate H. eexists. split; [reflexivity|exact H].
Qed.

(** the class of KF-C04-1 in words *)
Lemma kf1_C04_class : forall p t f,
  kf1_C04 (mkVt p t) f = true
  <-> (exists c, f = Print c) /\ awm t = true /\ pend t = true /\ cur_row t = bot t
      /\ bot t < rows t - 1 /\ (top t = 0 \/ top t < bot t).
Proof.
  intros p t f. unfold kf1_C04, wrap_due. cbn [vterm]. split.
  - intros H. destruct f; try discriminate H.
    split; [eexists; reflexivity|].
    destruct (awm t), (pend t); try discriminate H. cbn [andb] in H.
    repeat split; lia.
  - intros ((c & ->) & -> & -> & H1 & H2 & H3). cbn [andb]. lia.
Qed.

Print Assumptions kf1_C04_class.

(** On every REACHABLE state the last conjunct is redundant: the margins satisfy [MarginsInv] ([top < bot], or the
    full screen; Proofs/DumpMargins.v, preserved along every history), so the class is exactly "printable, auto-wrap
    on, wrap pending, cursor on the bottom margin, bottom margin above the last screen row".  ([TInv] alone allows a
    one-row region [top = bot > 0], which DECSTBM never sets: there the row left is scrolled out of existence and
    the statement has nothing to claim - [wrap_left = Discarded].) *)
Lemma kf1_C04_class_reachable : forall p t f,
  MarginsInv t ->
  (kf1_C04 (mkVt p t) f = true
   <-> (exists c, f = Print c) /\ awm t = true /\ pend t = true /\ cur_row t = bot t /\ bot t < rows t - 1).
Proof.
  intros p t f HM. rewrite kf1_C04_class. unfold MarginsInv in HM.
  split.
  - intros (H1 & H2 & H3 & H4 & H5 & _). auto.
  - intros (H1 & H2 & H3 & H4 & H5). repeat split; try assumption. lia.
Qed.
Print Assumptions kf1_C04_class_reachable.

(** Clause 5 at full strength outside the known-finding class: [TInv] is the only hypothesis on the
    state (every reachable state satisfies it), [kf1_C04 = false] excludes exactly KF-C04-1. *)
Theorem C04_wrapmark : forall p p' t f t',
  TInv t -> execute t f = Ok t' ->
  kf1_C04 (mkVt p t) f = false ->
  holds_C04_wrapmark (mkVt p t) f (mkVt p' t') = true.
Proof.
  intros p p' t f t' HT Hx Hkf. unfold holds_C04_wrapmark. rewrite Hkf. cbn [vterm negb].
  rewrite Bool.andb_true_r.
  destruct (wrap_due t f) eqn:Hd; [|reflexivity].
  apply wrap_due_inv in Hd as (c & -> & Hd).
  destruct (cur_row_in_view t HT) as (l & Hl).
  pose proof (ti_margins t HT) as [Hm1 Hm2]. pose proof (ti_row t HT) as Hrow.
  assert (Hkf' : (cur_row t =? bot t) && (bot t <? rows t - 1)
                 && ((top t =? 0) || (top t <? bot t)) = false).
  { unfold kf1_C04, wrap_due in Hkf. cbn [vterm] in Hkf. rewrite Hd in Hkf. exact Hkf. }
  destruct (Nat.eq_dec (cur_row t) (bot t)) as [Hb|Hb].
  - (* the region scrolls *)
    destruct (wrap_scroll t HT Hd l Hl Hb) as (sb & v & HS & Hw).
    destruct (wrap_left t) eqn:Eloc.
    + assert (Hcase : top t < bot t \/ top t = 0).
      { unfold wrap_left in Eloc. replace (cur_row t =? bot t) with true in Eloc by lia.
        destruct (Nat.ltb_spec (top t) (cur_row t)); [left; lia|].
        destruct (Nat.eqb_spec (top t) 0); [right; assumption|discriminate Eloc]. }
      specialize (Hw Hcase).
      pose proof (wr_post t c t' (InView i) HT Hx) as E.
      rewrite spec_print_eq, (wr_write _ sb v _ _ HS), Hw in E.
      replace (bot t <? rows t - 1) with false in E by lia.
      unfold wr in E. destruct (line_at t' (InView i)) as [l'|]; [|discriminate E].
      cbn in E. injection E as E. exact E.
    + assert (Hcase : top t < bot t \/ top t = 0).
      { unfold wrap_left in Eloc. replace (cur_row t =? bot t) with true in Eloc by lia.
        destruct (Nat.ltb_spec (top t) (cur_row t)); [left; lia|].
        destruct (Nat.eqb_spec (top t) 0); [right; assumption|discriminate Eloc]. }
      specialize (Hw Hcase).
      pose proof (wr_post t c t' InScrollback HT Hx) as E.
      rewrite spec_print_eq, (wr_write _ sb v _ _ HS), Hw in E.
      replace (bot t <? rows t - 1) with false in E by lia.
      unfold wr in E. destruct (line_at t' InScrollback) as [l'|]; [|discriminate E].
      cbn in E. injection E as E. exact E.
    + reflexivity.
    + exfalso. unfold wrap_left in Eloc. replace (cur_row t =? bot t) with true in Eloc by lia.
      destruct (top t <? cur_row t); [discriminate|]. destruct (top t =? 0); discriminate.
  - destruct (Nat.ltb_spec (cur_row t) (rows t - 1)) as [Hlt|Hge].
    + (* no scroll *)
      destruct (wrap_plain t HT Hd l Hl Hb Hlt) as (sb & v & HS & Hw).
      unfold wrap_left. replace (cur_row t =? bot t) with false by lia.
      replace (cur_row t <? rows t - 1) with true by lia.
      pose proof (wr_post t c t' (InView (cur_row t)) HT Hx) as E.
      rewrite spec_print_eq, (wr_write _ sb v _ _ HS), Hw in E.
      unfold wr in E. destruct (line_at t' (InView (cur_row t))) as [l'|]; [|discriminate E].
      cbn in E. injection E as E. exact E.
    + (* last row below the region *)
      unfold wrap_left. replace (cur_row t =? bot t) with false by lia.
      replace (cur_row t <? rows t - 1) with false by lia.
      destruct (print_screen t c t' HT Hx) as (E1 & _ & E3).
      rewrite spec_print_eq in E1, E3.
      pose proof (wrap_stays t HT Hd Hb ltac:(lia)) as Ews. rewrite Ews in E1. rewrite Ews in E3. clear Ews.
      rewrite cur_row_write in E3. change (cur_row (set_cursor t 0 (cur_row t) false)) with (cur_row t) in E3.
      rewrite E3, Nat.eqb_refl. cbn [andb]. rewrite Hl.
      assert (HS : Scr (set_cursor t 0 (cur_row t) false) (tsb t) (tview t))
        by (apply Scr_set_cursor, Scr_TInv; exact HT).
      destruct (spec_write_Scr _ _ _ (mkCell (spec_translate (spec_active_cs t) c) (tpen t)) HS)
        as (g & Hg & HS').
      rewrite E1, (proj1 (Scr_view _ _ _ HS')).
      change (cur_row (set_cursor t 0 (cur_row t) false)) with (cur_row t).
      unfold upd_row. rewrite nth_error_upd_same, Hl. cbn [option_map]. rewrite Hg.
      apply Bool.eqb_reflx.
Qed.
Print Assumptions C04_wrapmark.

(** In the WHOLE class [kf1_C04] the row left is NOT marked afterwards: the class is exact. *)
Theorem C04_wrapmark_kf_exact : forall p p' t f t',
  TInv t -> execute t f = Ok t' ->
  kf1_C04 (mkVt p t) f = true ->
  wrapmark_lost (mkVt p t) f (mkVt p' t') = true.
Proof.
  intros p p' t f t' HT Hx Hkf. unfold wrapmark_lost. rewrite Hkf. cbn [vterm andb].
  apply kf1_C04_class in Hkf as ((c & ->) & Ha & Hp & Hb & Hlt & Hcase).
  assert (Hd : awm t && pend t = true) by (rewrite Ha, Hp; reflexivity).
  destruct (cur_row_in_view t HT) as (l & Hl).
  destruct (wrap_scroll t HT Hd l Hl Hb) as (sb & v & HS & Hw).
  specialize (Hw ltac:(lia)).
  pose proof (wr_post t c t' (wrap_left t) HT Hx) as E.
  rewrite spec_print_eq, (wr_write _ sb v _ _ HS), Hw in E.
  replace (bot t <? rows t - 1) with true in E by lia.
  unfold wr in E. destruct (line_at t' (wrap_left t)) as [l'|]; [|discriminate E].
  cbn in E. injection E as E. rewrite E. reflexivity.
Qed.
Print Assumptions C04_wrapmark_kf_exact.

(** KF-C04-1, a reachable witness: a fresh 4x4 terminal, [CSI 1;2 r] (region = rows 0..1), [CSI 2 H] (cursor to
    row 1, the bottom margin), "abcde".  The fifth character wraps on the bottom margin, which lies above the last
    screen row: the row "abcd" (moved up to row 0 of the view; the blank row 0 went to the scrollback) is not
    soft-wrapped, although "e" continues its logical line. *)
Definition kf_pre : res vt :=
  x <- feed_str (vt_new 4 4 None) [27; 91; 49; 59; 50; 114; 27; 91; 50; 72; 97; 98; 99; 100]%N ;; Ok (fst x).
Definition kf_post : res vt := v <- kf_pre ;; vt_feed v 101%N.

Example C04_wrapmark_known_finding :
  exists pre post,
    kf_pre = Ok pre /\ vt_feed pre 101%N = Ok post
    /\ execute (vterm pre) (Print 101%N) = Ok (vterm post)
    /\ cur_row (vterm pre) = 1 /\ bot (vterm pre) = 1 /\ rows (vterm pre) = 4
    /\ kf1_C04 pre (Print 101%N) = true
    /\ wrapmark_lost pre (Print 101%N) post = true
    /\ holds_C04_wrapmark pre (Print 101%N) post = true   (* vacuously: the class is excluded *)
    /\ wrap_left (vterm pre) = InView 0
    /\ map line_text (lines (buf (vterm post))) = [[32; 32; 32; 32]; [97; 98; 99; 100]; [101; 32; 32; 32];
                                                  [32; 32; 32; 32]; [32; 32; 32; 32]]%N
    /\ map wrapped (lines (buf (vterm post))) = [false; false; false; false; false]
    /\ vt_text post = [[]; [97; 98; 99; 100]; [101]; []; []]%N.  (* one logical line "abcde" comes out as two *)
Proof.
  destruct kf_pre as [pre|] eqn:E1; [|vm_compute in E1; discriminate E1].
  destruct (vt_feed pre 101%N) as [post|] eqn:E2;
    [|vm_compute in E1; apply Ok_inj in E1; subst pre; vm_compute in E2; discriminate E2].
  exists pre, post. split; [reflexivity|]. split; [exact E2|].
  vm_compute in E1. apply Ok_inj in E1. subst pre.
  vm_compute in E2. apply Ok_inj in E2. subst post.
  vm_compute. repeat split; reflexivity.
Qed.

Print Assumptions C04_wrapmark_known_finding.

(** non-vacuity of [C04_wrapmark]: the same input with the full-screen region (no [CSI 1;2 r]) on the last row:
    the wrap scrolls the screen and the row left - now row 2 of the view - IS marked *)
Example C04_wrapmark_example :
  match feed_str (vt_new 4 4 None) [27; 91; 52; 72; 97; 98; 99; 100]%N with
  | Ok (pre, _) =>
    match vt_feed pre 101%N with
    | Ok post =>
      kf1_C04 pre (Print 101%N) = false /\ wrap_left (vterm pre) = InView 2
      /\ holds_C04_wrapmark pre (Print 101%N) post = true
      /\ map wrapped (lines (buf (vterm post))) = [false; false; false; true; false]
    | _ => False
    end
  | _ => False
  end.
Proof. vm_compute. repeat split; reflexivity. Qed.

(** ... and for a one-row screen the row left is the last scrollback line *)
Example C04_wrapmark_example_scrollback :
  match feed_str (vt_new 4 1 None) [97; 98; 99; 100]%N with
  | Ok (pre, _) =>
    match vt_feed pre 101%N with
    | Ok post =>
      kf1_C04 pre (Print 101%N) = false /\ wrap_left (vterm pre) = InScrollback
      /\ holds_C04_wrapmark pre (Print 101%N) post = true
      /\ map wrapped (lines (buf (vterm post))) = [true; false]
    | _ => False
    end
  | _ => False
  end.
Proof. vm_compute. repeat split; reflexivity. Qed.

(** ... and on the last screen row BELOW the region there is no next row: the cursor returns to column 0 of the same
    row ("e" overwrites "a") and the row's mark is unchanged *)
Example C04_wrapmark_example_stays :
  match feed_str (vt_new 4 4 None) [27; 91; 49; 59; 50; 114; 27; 91; 52; 72; 97; 98; 99; 100]%N with
  | Ok (pre, _) =>
    match vt_feed pre 101%N with
    | Ok post =>
      kf1_C04 pre (Print 101%N) = false /\ wrap_left (vterm pre) = Stays
      /\ holds_C04_wrapmark pre (Print 101%N) post = true
      /\ map line_text (lines (buf (vterm post))) = [[32; 32; 32; 32]; [32; 32; 32; 32]; [32; 32; 32; 32];
                                                    [101; 98; 99; 100]]%N
    | _ => False
    end
  | _ => False
  end.
Proof. vm_compute. repeat split; reflexivity. Qed.

(** * C01: [TextCollector] is total on every history *)

From Avt Require Import Gen.RestFns Gen.AccFns Proofs.RestTie Proofs.AccTie.

(** [TextCollector::feed_str]: returns normally for every input, from every reachable [Vt] and every state of the
    unwrapper; the [Vt] inside stays reachable-shaped *)
Theorem C01_collector_feed_str : forall v st s,
  Inv v ->
  exists v' st' out, g_collector_feed_str feed_str (v, st) s = Ok ((v', st'), out) /\ Inv v'.
Proof.
  intros v st s HI. rewrite tie_collector_feed_str_model.
  destruct (feed_str_Inv v s HI) as (v' & o & E & HI'). rewrite E. cbn [bind].
  unfold collector_step. cbn [fst snd]. eexists _, _, _. split; [reflexivity|exact HI'].
Qed.
Print Assumptions C01_collector_feed_str.

(** [TextCollector::resize(cols, rows)] for sizes >= 1x1 (the property's range; [Vt::resize] itself is only
    claimed total there) *)
Theorem C01_collector_resize : forall v st c r,
  Inv v -> (1 <= c)%N -> (1 <= r)%N ->
  exists v' st' out,
    g_collector_resize (fun v c r => stepM v (Resize c r)) (v, st) c r = Ok ((v', st'), out) /\ Inv v'.
Proof.
  intros v st c r HI Hc Hr. rewrite tie_collector_resize_model.
  destruct (stepM_Inv v (Resize (N.to_nat c) (N.to_nat r)) HI) as (v' & o & E & HI').
  { cbn [op_ok]. lia. }
  rewrite E. cbn [bind]. unfold collector_step. cbn [fst snd].
  eexists _, _, _. split; [reflexivity|exact HI'].
Qed.
Print Assumptions C01_collector_resize.

(** [TextCollector::flush]: the loop that strips trailing empty lines terminates within the fuel that
    [tie_collector_flush] prescribes (any [fuel > length lines + 1]); no invariant is needed at all *)
Definition collector_fuel (tc : vt * list N) : nat := length (lines (buf (vterm (fst tc)))) + 2.

Theorem C01_collector_flush : forall v st fuel,
  length (lines (buf (vterm v))) + 1 < fuel ->
  exists out, g_collector_flush fuel (v, st) = Ok out.
Proof. intros v st fuel Hf. eexists. apply tie_collector_flush. exact Hf. Qed.
Print Assumptions C01_collector_flush.

Theorem C01_collector_total : forall v st,
  Inv v ->
  (forall s, exists v' st' out, g_collector_feed_str feed_str (v, st) s = Ok ((v', st'), out) /\ Inv v')
  /\ (forall c r, (1 <= c)%N -> (1 <= r)%N ->
      exists v' st' out,
        g_collector_resize (fun v c r => stepM v (Resize c r)) (v, st) c r = Ok ((v', st'), out) /\ Inv v')
  /\ (exists out, g_collector_flush (collector_fuel (v, st)) (v, st) = Ok out).
Proof.
  intros v st HI. split; [|split].
  - intros s. apply C01_collector_feed_str. exact HI.
  - intros c r Hc Hr. apply C01_collector_resize; assumption.
  - apply C01_collector_flush. unfold collector_fuel. cbn [fst]. lia.
Qed.
Print Assumptions C01_collector_total.

(** whole sessions: [TextCollector::new(vt)], any sequence of [feed_str] / [resize] calls, then [flush] *)
Inductive ccall := CFeedStr (s : list N) | CResize (c r : N).

Definition ccall_ok (k : ccall) : Prop :=
  match k with CResize c r => (1 <= c)%N /\ (1 <= r)%N | CFeedStr _ => True end.

Definition collector_call (tc : vt * list N) (k : ccall) : res ((vt * list N) * list (list N)) :=
  match k with
  | CFeedStr s => g_collector_feed_str feed_str tc s
  | CResize c r => g_collector_resize (fun v c r => stepM v (Resize c r)) tc c r
  end.

Fixpoint collector_run (tc : vt * list N) (ks : list ccall) : res ((vt * list N) * list (list (list N))) :=
  match ks with
  | [] => Ok (tc, [])
  | k :: r =>
    '(tc1, o) <- collector_call tc k ;;
    '(tc2, os) <- collector_run tc1 r ;;
    Ok (tc2, o :: os)
  end.

Definition collector_session (v : vt) (ks : list ccall) : res (list (list (list N)) * list (list N)) :=
  tc <- g_collector_new v ;;
  '(tc, os) <- collector_run tc ks ;;
  fin <- g_collector_flush (collector_fuel tc) tc ;;
  Ok (os, fin).

Lemma collector_run_total : forall ks v st,
  Inv v -> Forall ccall_ok ks ->
  exists v' st' os, collector_run (v, st) ks = Ok ((v', st'), os) /\ Inv v'.
Proof.
  induction ks as [|k ks IH]; intros v st HI HF; cbn [collector_run].
  - eexists _, _, _. split; [reflexivity|exact HI].
  - inversion HF as [|k0 ks0 Hk HF']; subst.
    assert (Hc : exists v1 st1 o, collector_call (v, st) k = Ok ((v1, st1), o) /\ Inv v1).
    { destruct k as [s|c r]; cbn [collector_call].
      - apply C01_collector_feed_str; exact HI.
      - destruct Hk as [Hc Hr]. apply C01_collector_resize; assumption. }
    destruct Hc as (v1 & st1 & o & E1 & HI1). rewrite E1. cbn [bind].
    destruct (IH v1 st1 HI1 HF') as (v2 & st2 & os & E2 & HI2). rewrite E2. cbn [bind].
    eexists _, _, _. split; [reflexivity|exact HI2].
Qed.

Theorem C01_collector_session : forall c r l ks,
  1 <= c -> 1 <= r -> Forall ccall_ok ks ->
  exists os fin, collector_session (vt_new c r l) ks = Ok (os, fin).
Proof.
  intros c r l ks Hc Hr HF. unfold collector_session. rewrite tie_collector_new. cbn [bind].
  destruct (collector_run_total ks (vt_new c r l) [] (vt_new_Inv c r l Hc Hr) HF)
    as (v' & st' & os & E & _).
  rewrite E. cbn [bind].
  destruct (C01_collector_flush v' st' (collector_fuel (v', st'))) as (fin & Ef).
  { unfold collector_fuel. cbn [fst]. lia. }
  rewrite Ef. cbn [bind]. eexists _, _. reflexivity.
Qed.
Print Assumptions C01_collector_session.

(** non-vacuity: a session with a resize in the middle; limit 0, so lines are drained as they scroll off *)
Example C01_collector_session_example :
  collector_session (vt_new 4 2 (Some 0%N))
    [CFeedStr [97; 98; 13; 10; 99; 100; 101; 102; 103; 104; 13; 10]%N; CResize 3 2; CFeedStr [120; 13; 10; 121]%N]
  = Ok ([[[97; 98]]; []; [[99; 100; 101; 102; 103; 104]]]%N, [[120]; [121]]%N).
Proof. vm_compute. reflexivity. Qed.
