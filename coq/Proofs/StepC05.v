(** C05 (cursor movement) holds for every model step from every state satisfying [TInv]. *)

From Coq Require Import Lia ZArith ZifyBool ZifyNat ZifyN.
From Avt Require Import Oracles.Step Proofs.Inv Proofs.TermEasy Proofs.Tabs Proofs.VisEq.
Ltac Zify.zify_post_hook ::= Z.div_mod_to_equations.

Lemma nth_error_default {A} (l : list A) n d :
  match nth_error l n with Some c => c | None => d end = nth n l d.
Proof. revert n; induction l as [|x l IH]; intros [|n]; cbn; auto. Qed.

Lemma n1_ge n : 1 <= n1 n.
Proof. unfold n1. destruct (N.eqb_spec n 0); lia. Qed.

Lemma to_col_clamp t x :
  1 <= cols t -> move_cursor_to_col t x = set_cursor t (Nat.min x (cols t - 1)) (cur_row t) false.
Proof.
  intros Hc. unfold move_cursor_to_col. destruct (Nat.leb_spec (cols t) x).
  - replace (Nat.min x (cols t - 1)) with (cols t - 1) by lia. destruct t; reflexivity.
  - replace (Nat.min x (cols t - 1)) with x by lia. destruct t; reflexivity.
Qed.

Lemma next_tab_spec t n :
  TInv t -> 1 <= n ->
  move_cursor_to_next_tab t n = Ok (set_cursor t (spec_next_tab t n) (cur_row t) false).
Proof.
  intros HT Hn. unfold move_cursor_to_next_tab, spec_next_tab.
  rewrite (tabs_after_spec _ _ _ (proj1 (ti_tabs t HT)) Hn). cbn [bind].
  rewrite nth_error_default, (to_col_clamp _ _ (ti_cols t HT)). reflexivity.
Qed.

Lemma prev_tab_spec t n :
  TInv t -> 1 <= n ->
  move_cursor_to_prev_tab t n = Ok (set_cursor t (spec_prev_tab t n) (cur_row t) false).
Proof.
  intros HT Hn. unfold move_cursor_to_prev_tab, spec_prev_tab.
  rewrite (tabs_before_spec _ _ _ (proj1 (ti_tabs t HT)) Hn). cbn [bind].
  rewrite nth_error_default, (to_col_clamp _ _ (ti_cols t HT)). reflexivity.
Qed.

(** the specification is the model, for every C05 command *)
Theorem spec_cursor_refines_all t f e :
  TInv t -> spec_cursor t f = Some e -> execute t f = Ok e.
Proof.
  intros HT Hs. destruct (is_tab_fn f) eqn:Et.
  - destruct f; try discriminate Et; cbn [spec_cursor] in Hs; injection Hs as <-; cbn [execute];
      rewrite ?as_usize_n1.
    + apply prev_tab_spec; [exact HT|apply n1_ge].
    + apply next_tab_spec; [exact HT|apply n1_ge].
    + apply next_tab_spec; [exact HT|lia].
  - exact (spec_cursor_refines t f e (TInv_TScal t HT) Et Hs).
Qed.

Theorem C05_holds : forall p p' t f t',
  TInv t -> execute t f = Ok t' -> holds_C05 (mkVt p t) f (mkVt p' t') = true.
Proof.
  intros p p' t f t' HT H. unfold holds_C05. cbn [vterm].
  destruct (spec_cursor t f) as [e|] eqn:Es; [|reflexivity].
  pose proof (spec_cursor_refines_all t f e HT Es) as He. rewrite H in He. injection He as ->.
  apply visible_eqb_refl.
Qed.

Print Assumptions C05_holds.
