(** C12 / C14 audit gaps (see AUDIT.md, sections C12 and C14).

    1. [C12_perchar_lines], [C12_perchar_unlimited] (section 7): unlimited scrollback, any
       start state satisfying the invariant, per-character
       [Vt::feed] against any chunking into [feed_str] calls: the same [lines()] whenever the
       FINAL state shows the primary screen - and, on the alternate screen, the same lines of
       the parked primary (the full [holds_C12]).  The known finding KF-C12-1 is excluded by
       the hypothesis "the final state shows the primary screen" alone: what happened on the
       alternate screen in between is irrelevant (the alternate buffer is rebuilt on entry
       and is not part of [lines()] after the return).  [C12_perchar_lines_alt_refuted] shows
       that the hypothesis cannot be dropped.
    2. Sessions over [op] lists ([Feed c] = [Vt::feed], [Flush] = [feed_str ""]; a
       [feed_str s] call is [map Feed s ++ [Flush]]): [run_ops], [ops_reference],
       [C12_ops_unlimited], and C14 for such sessions: [C14_ops] (the limited run and the
       unlimited run may even be cut differently), [C14_ops_same], [C14_ops_holds].
    3. [parked_ok] DISCHARGED (AUDIT C12 gap 2): [C12_sessions_any], [C12_perchar_any],
       [C12_ops_any] (every limit, every start state satisfying [TInv] - also those reached by
       a resize while the alternate screen shows), [C12_perchar_lines],
       [C12_perchar_unlimited], [C12_ops_unlimited].  No counterexample exists: the
       lazy re-wrap of the parked primary happens at the same character in every chunking and
       reads the same buffer, because no control function other than the return to the
       primary screen and RIS reads the parked buffer ([so_execute]). *)

From Avt Require Import Proofs.Inv Proofs.VisEq Proofs.ListLemmas Proofs.BufRow Proofs.BufScroll
  Proofs.Resize Proofs.ParamDT Spec.Eqb Oracles.Rel Proofs.ParamChop Proofs.ChunkSessions
  Proofs.Collector Proofs.CollectorChunks Proofs.Frames.
Require Import Lia ZArith ZifyBool ZifyNat.
Import ListNotations.

(** * 0. sessions over [op] lists *)

Definition is_resize (o : op) : bool := match o with Resize _ _ => true | _ => false end.

(** the session contains no [Vt::resize] call *)
Definition no_resize (ops : list op) : Prop := forallb (fun o => negb (is_resize o)) ops = true.

(** the characters fed by the session, in order *)
Fixpoint feeds (ops : list op) : list N :=
  match ops with
  | [] => []
  | Feed c :: r => c :: feeds r
  | _ :: r => feeds r
  end.

(** [runM] that also collects what every call hands back *)
Fixpoint run_ops (v : vt) (ops : list op) : res (vt * list out) :=
  match ops with
  | [] => Ok (v, [])
  | o :: r =>
    x <- stepM v o ;;
    y <- run_ops (fst x) r ;;
    Ok (fst y, snd x :: snd y)
  end.

Lemma run_ops_runM : forall ops v, runM v ops = fmap fst (run_ops v ops).
Proof.
  induction ops as [|o ops IH]; intros v; cbn [runM run_ops fmap fst]; [reflexivity|].
  destruct (stepM v o) as [[v1 o1]|e]; cbn [bind fst snd fmap]; [|reflexivity].
  rewrite IH. destruct (run_ops v1 ops) as [[v2 os]|e]; reflexivity.
Qed.

Lemma run_ops_app : forall a b v,
  run_ops v (a ++ b)
  = (x <- run_ops v a ;; y <- run_ops (fst x) b ;; Ok (fst y, snd x ++ snd y)).
Proof.
  induction a as [|o a IH]; intros b v; cbn [app run_ops bind fst snd].
  - destruct (run_ops v b) as [[v2 os]|e]; reflexivity.
  - destruct (stepM v o) as [[v1 o1]|e]; cbn [bind fst snd]; [|reflexivity].
    rewrite IH. destruct (run_ops v1 a) as [[v2 os]|e]; cbn [bind fst snd]; [|reflexivity].
    destruct (run_ops v2 b) as [[v3 os']|e]; reflexivity.
Qed.

(** a [feed_str s] call as a list of operations *)
Definition str_ops (s : list N) : list op := map Feed s ++ [Flush].

Definition session_ops (ss : list (list N)) : list op := concat (map str_ops ss).

Lemma run_ops_feeds : forall s v,
  run_ops v (map Feed s) = (u <- feed_chars v s ;; Ok (u, repeat no_out (length s))).
Proof.
  induction s as [|c s IH]; intros v; cbn [map run_ops feed_chars bind length repeat]; [reflexivity|].
  cbn [stepM]. destruct (vt_feed v c) as [v1|e]; cbn [bind fst snd]; [|reflexivity].
  rewrite IH. destruct (feed_chars v1 s) as [u|e]; reflexivity.
Qed.

Lemma drained_no_out n : concat (map o_drained (repeat no_out n)) = [].
Proof. induction n as [|n IH]; cbn [repeat map concat no_out o_drained app]; [reflexivity|exact IH]. Qed.

Lemma run_ops_str v s v' o :
  feed_str v s = Ok (v', o) ->
  exists outs, run_ops v (str_ops s) = Ok (v', outs) /\ concat (map o_drained outs) = o_drained o.
Proof.
  intros E. apply feed_str_inv in E. destruct E as (u & Fu & Gu).
  unfold str_ops. rewrite run_ops_app, run_ops_feeds, Fu. cbn [bind fst snd run_ops stepM].
  rewrite Gu. cbn [bind fst snd].
  eexists. split; [reflexivity|].
  rewrite map_app, concat_app, drained_no_out. cbn [map concat app]. apply app_nil_r.
Qed.

Lemma feeds_app : forall a b, feeds (a ++ b) = feeds a ++ feeds b.
Proof.
  induction a as [|o a IH]; intros b; cbn [app feeds]; [reflexivity|].
  destruct o; cbn [app]; rewrite IH; reflexivity.
Qed.

Lemma feeds_map_Feed : forall s, feeds (map Feed s) = s.
Proof. induction s as [|c s IH]; cbn [map feeds]; [reflexivity|rewrite IH; reflexivity]. Qed.

Lemma feeds_str s : feeds (str_ops s) = s.
Proof. unfold str_ops. rewrite feeds_app, feeds_map_Feed. cbn [feeds]. apply app_nil_r. Qed.

Lemma feeds_session : forall ss, feeds (session_ops ss) = concat ss.
Proof.
  induction ss as [|s ss IH]; cbn [session_ops map concat]; [reflexivity|].
  rewrite feeds_app, feeds_str. unfold session_ops in IH. rewrite IH. reflexivity.
Qed.

Lemma no_resize_app a b : no_resize a -> no_resize b -> no_resize (a ++ b).
Proof. unfold no_resize. intros Ha Hb. rewrite forallb_app, Ha, Hb. reflexivity. Qed.

Lemma no_resize_str s : no_resize (str_ops s).
Proof.
  unfold str_ops. apply no_resize_app; [|reflexivity].
  unfold no_resize. induction s as [|c s IH]; cbn [map forallb is_resize negb andb]; [reflexivity|exact IH].
Qed.

Lemma no_resize_session : forall ss, no_resize (session_ops ss).
Proof.
  induction ss as [|s ss IH]; cbn [session_ops map concat]; [reflexivity|].
  apply no_resize_app; [apply no_resize_str|exact IH].
Qed.

(** every [run_session] is a [run_ops]: the theorems below about [op] lists contain the ones
    about [feed_str] sessions *)
Theorem session_as_ops : forall ss v v' outs,
  run_session v ss = Ok (v', outs) ->
  exists outs', run_ops v (session_ops ss) = Ok (v', outs')
                /\ concat (map o_drained outs') = concat (map o_drained outs).
Proof.
  induction ss as [|s ss IH]; intros v v' outs E; cbn [run_session session_ops map concat] in *.
  - injection E as <- <-. exists []. split; reflexivity.
  - destruct (feed_str v s) as [[v1 o1]|e] eqn:F; cbn [bind fst snd] in E; [|discriminate].
    destruct (run_session v1 ss) as [[v2 os]|e] eqn:R; cbn [bind fst snd] in E; [|discriminate].
    injection E as <- <-.
    destruct (run_ops_str _ _ _ _ F) as (outs1 & R1 & D1).
    destruct (IH _ _ _ R) as (outs2 & R2 & D2).
    exists (outs1 ++ outs2). rewrite run_ops_app, R1. cbn [bind fst snd].
    unfold session_ops in R2. rewrite R2. cbn [bind fst snd]. split; [reflexivity|].
    rewrite map_app, concat_app, D1, D2. reflexivity.
Qed.

(** * 1. a flush of the right-hand terminal only, with the prefixes made explicit *)

Lemma flush_right_explicit cl L1 L2 Dp Da a b :
  Rx false cl L1 L2 Dp Da a b ->
  Rx false cl L1 L2
     (match active a with
      | Primary => Dp ++ firstn (gc_excess (buf b)) (lines (buf b))
      | Alternate => Dp
      end)
     (match active a with
      | Primary => Da
      | Alternate => Da ++ firstn (gc_excess (buf b)) (lines (buf b))
      end) a (flushed b).
Proof.
  intros H. pose proof (x_buf _ _ _ _ _ _ _ _ H) as Hb.
  pose proof (gc_excess_le (buf b)) as Hle.
  pose proof (RBg_gc_r _ _ _ _ _ _ _ _ Hb Hle) as Hb'.
  unfold flushed. constructor; psimpl; try apply H; try (intros E; discriminate).
  - destruct (active a); cbn [Dsel] in *; exact Hb'.
  - pose proof (x_other _ _ _ _ _ _ _ _ H) as Ho.
    destruct (active a); [intros E; discriminate|exact Ho].
  - rewrite dirty_clear_len. apply H.
Qed.

(** * 2. a session of operations against its flush-free reference run *)

Lemma ops_reference L1 L2 ops : forall Dp Da u v v' outs,
  Rvx false false L1 L2 Dp Da u v -> no_resize ops ->
  run_ops v ops = Ok (v', outs) ->
  exists u' Dp' Da',
    feed_chars u (feeds ops) = Ok u'
    /\ Rvx false false L1 L2 Dp' Da' u' v'
    /\ (ris_free u (feeds ops) -> Dp' = Dp ++ concat (map o_drained outs))
    /\ (L2 = None -> concat (map o_drained outs) = [])
    /\ (L2 = None -> Dp = [] -> Dp' = []).
Proof.
  induction ops as [|o ops IH]; intros Dp Da u v v' outs H HN E; cbn [run_ops feeds] in *.
  - injection E as <- <-. exists u, Dp, Da. cbn [feed_chars map concat].
    split; [reflexivity|]. split; [exact H|]. split; [intros _; symmetry; apply app_nil_r|].
    split; [reflexivity|auto].
  - unfold no_resize in HN. cbn [forallb] in HN. apply andb_prop in HN. destruct HN as [HN1 HN].
    destruct (stepM v o) as [[v1 o1]|e] eqn:S; cbn [bind fst snd] in E; [|discriminate].
    destruct (run_ops v1 ops) as [[v2 os]|e] eqn:R; cbn [bind fst snd] in E; [|discriminate].
    injection E as <- <-.
    destruct o as [c| |cc rr]; [| |discriminate HN1].
    + (* Feed c *)
      cbn [stepM] in S.
      destruct (vt_feed v c) as [w|e] eqn:F; cbn [bind] in S; [|discriminate].
      injection S as <- <-.
      destruct (rres_ok_inv_r _ _ _ _ (vt_feed_Rx _ _ _ _ _ _ _ _ c H) F)
        as (u1 & Fu & (Da1 & _ & H1)).
      destruct (IH _ _ _ _ _ _ H1 HN R) as (u' & Dp' & Da' & Fu' & H' & HR & HD & HE).
      exists u', Dp', Da'. cbn [feed_chars]. rewrite Fu. cbn [bind].
      split; [exact Fu'|]. split; [exact H'|]. split; [|split].
      * cbn [ris_free]. intros [Hc HF]. rewrite Hc in HR.
        cbn [map concat no_out o_drained app]. apply HR. apply HF. exact Fu.
      * intros EL. cbn [map concat no_out o_drained app]. apply HD. exact EL.
      * intros EL ED. apply HE; [exact EL|]. rewrite ED. destruct (ris_at u c); reflexivity.
    + (* Flush *)
      cbn [stepM] in S. apply vt_flush_inv in S. destruct S as (Pw & Tw & Dw).
      destruct H as [Hp Hx].
      pose proof (flush_right_explicit _ _ _ _ _ _ _ Hx) as Hx2. rewrite <- Tw in Hx2.
      pose proof (x_active _ _ _ _ _ _ _ _ Hx) as HA.
      assert (ED : o_drained o1
                   = match active (vterm u) with
                     | Primary => firstn (gc_excess (buf (vterm v))) (lines (buf (vterm v)))
                     | Alternate => []
                     end) by (rewrite HA; exact Dw).
      assert (H1 : Rvx false false L1 L2 (Dp ++ o_drained o1)
                     (match active (vterm u) with
                      | Primary => Da
                      | Alternate => Da ++ firstn (gc_excess (buf (vterm v))) (lines (buf (vterm v)))
                      end) u v1).
      { split; [congruence|]. rewrite ED.
        destruct (active (vterm u)); [exact Hx2|rewrite app_nil_r; exact Hx2]. }
      assert (EN : L2 = None -> o_drained o1 = []).
      { intros EL. rewrite ED. destruct (active (vterm u)) eqn:EA; [|reflexivity].
        pose proof (x_buf _ _ _ _ _ _ _ _ Hx) as Hb. rewrite EA in Hb. cbn [lim_sel] in Hb.
        rewrite gc_excess_unlimited; [reflexivity|].
        rewrite (g_l2 _ _ _ _ _ _ _ _ Hb), (x_sl2 _ _ _ _ _ _ _ _ Hx), EL. reflexivity. }
      destruct (IH _ _ _ _ _ _ H1 HN R) as (u' & Dp' & Da' & Fu' & H' & HR & HD & HE).
      exists u', Dp', Da'. split; [exact Fu'|]. split; [exact H'|]. split; [|split].
      * intros HF. cbn [map concat]. rewrite app_assoc. apply HR. exact HF.
      * intros EL. cbn [map concat]. rewrite (EN EL), (HD EL). reflexivity.
      * intros EL E0. apply HE; [exact EL|]. rewrite E0, (EN EL). reflexivity.
Qed.

(** * 3. C12: per-character feeding and [lines()] - the relational core and the computed
      checks for [C12_perchar_lines] (section 7) *)

(** one-sided form of [Robs_common]: a state and a reference related with an EMPTY primary
    prefix are observationally equal, including the lines of the primary buffer *)
Lemma Rx_Robs Da u v : Rx false false None None [] Da u v -> Robs u v.
Proof.
  intros H.
  pose proof (Rx_Rvis _ _ _ _ _ H) as [Hs (Hv & Hbc & Hbr) Ho].
  constructor; try assumption.
  - intros EA. pose proof (x_other _ _ _ _ _ _ _ _ H) as O. rewrite EA in O.
    destruct O as [A1 A2 A3 A4 A5 A6 A7 A8 A9]. cbn [app] in A1.
    constructor; try congruence. intros _.
    rewrite A7, A8, (x_sl1 _ _ _ _ _ _ _ _ H), (x_sl2 _ _ _ _ _ _ _ _ H). reflexivity.
  - intros EA. pose proof (g_lines _ _ _ _ _ _ _ _ (x_buf _ _ _ _ _ _ _ _ H)) as L.
    rewrite EA in L. cbn [Dsel app] in L. exact L.
Qed.

Local Open Scope N_scope.

(** ESC [ ? 1 0 4 9 h / l *)
Definition alt_on : list N := [27; 91; 63; 49; 48; 52; 57; 104].
Definition alt_off : list N := [27; 91; 63; 49; 48; 52; 57; 108].
Definition crlf : list N := [13; 10].

(** scroll three rows off the primary screen, enter the alternate screen, scroll three rows
    off it, leave, print *)
Definition chk_text : list N :=
  [97] ++ crlf ++ [98] ++ crlf ++ [99] ++ crlf ++ [100] ++ crlf ++ alt_on
  ++ [65] ++ crlf ++ [66] ++ crlf ++ [67] ++ crlf ++ [68] ++ crlf ++ alt_off ++ [101].

Definition chk_chunks : list (list N) :=
  [firstn 5 chk_text; firstn 20 (skipn 5 chk_text); skipn 25 chk_text].

(** non-vacuity: the hypotheses are met, the alternate screen was scrolled in between, and
    the common [lines()] has rows above the view *)
Example C12_perchar_lines_nonvacuous :
  match feed_chars (vt_new 4 2 None) chk_text, run_session (vt_new 4 2 None) chk_chunks with
  | Ok u, Ok (v, _) =>
    concat chk_chunks = chk_text /\ active (vterm u) = Primary
    /\ length (lines (buf (vterm u))) = 5%nat
    /\ lines (buf (vterm u)) = lines (buf (vterm v)) /\ holds_C12 u v = true
  | _, _ => False
  end.
Proof. vm_compute. repeat split. Qed.

(** the hypothesis "final screen is primary" cannot be dropped (KF-C12-1): stopping the same
    text before [alt_off], the per-character run still carries the rows scrolled off the
    alternate screen, the [feed_str] run has dropped them *)
Definition chk_text_alt : list N := firstn 32 chk_text.

Example C12_perchar_lines_alt_refuted :
  match feed_chars (vt_new 4 2 None) chk_text_alt, feed_str (vt_new 4 2 None) chk_text_alt with
  | Ok u, Ok (v, _) =>
    active (vterm u) = Alternate
    /\ length (lines (buf (vterm u))) = 6%nat /\ length (lines (buf (vterm v))) = 2%nat
    /\ known_C12 u = true /\ holds_C12 u v = true
  | _, _ => False
  end.
Proof. vm_compute. repeat split. Qed.

Local Close Scope N_scope.

(** * 4. C14 for sessions of operations *)

(** AUDIT C14 gaps 1 and 2.  For every size and every limit [L] (also [None]): a session of
    [Vt::feed] characters and flushes ([feed_str] calls are [map Feed s ++ [Flush]]) run with
    limit [L], and a session carrying the SAME TEXT - cut and interleaved in any other way -
    run with unlimited scrollback: the lines handed out by the flushes of the limited run,
    followed by its final [lines()], are exactly the [lines()] of the unlimited run.
    Hypotheses: no RIS in the text (it discards the scrollback), no [Vt::resize] (re-wrapping
    depends on the rows still held), final screen primary ([lines()] of the alternate screen
    is not a history).  A final flush is NOT needed. *)
Theorem C14_ops : forall c r L opsI opsL vI outsI vL outsL,
  no_resize opsI -> no_resize opsL -> feeds opsI = feeds opsL ->
  pris_free init_parser (feeds opsL) ->
  run_ops (vt_new c r None) opsI = Ok (vI, outsI) ->
  run_ops (vt_new c r L) opsL = Ok (vL, outsL) ->
  active (vterm vL) = Primary ->
  concat (map o_drained outsL) ++ lines (buf (vterm vL)) = lines (buf (vterm vI)).
Proof.
  intros c r L opsI opsL vI outsI vL outsL NI NL EF HR EI EL HA.
  assert (HI : Rvx false false None None [] [] (vt_new c r None) (vt_new c r None))
    by (split; [reflexivity|apply Rx_new2]).
  assert (HL : Rvx false false None L [] [] (vt_new c r None) (vt_new c r L))
    by (split; [reflexivity|apply Rx_new2]).
  destruct (ops_reference _ _ _ _ _ _ _ _ _ HI NI EI) as (u1 & Dp1 & Da1 & F1 & [P1 X1] & _ & _ & D1).
  destruct (ops_reference _ _ _ _ _ _ _ _ _ HL NL EL) as (u2 & Dp2 & Da2 & F2 & [P2 X2] & D2 & _ & _).
  rewrite EF, F2 in F1. injection F1 as ->.
  rewrite (D1 eq_refl eq_refl) in X1.
  rewrite D2 in X2 by (apply pris_ris_free; exact HR). cbn [app] in X2.
  pose proof (x_active _ _ _ _ _ _ _ _ X2) as A2. rewrite HA in A2.
  pose proof (g_lines _ _ _ _ _ _ _ _ (x_buf _ _ _ _ _ _ _ _ X1)) as G1.
  pose proof (g_lines _ _ _ _ _ _ _ _ (x_buf _ _ _ _ _ _ _ _ X2)) as G2.
  rewrite A2 in G1, G2. cbn [Dsel app] in G1, G2. congruence.
Qed.

Print Assumptions C14_ops.

(** the special case asked for: the same session with both limits *)
Corollary C14_ops_same : forall c r L ops vI outsI vL outsL,
  no_resize ops -> pris_free init_parser (feeds ops) ->
  run_ops (vt_new c r None) ops = Ok (vI, outsI) ->
  run_ops (vt_new c r L) ops = Ok (vL, outsL) ->
  active (vterm vL) = Primary ->
  concat (map o_drained outsL) ++ lines (buf (vterm vL)) = lines (buf (vterm vI)).
Proof. intros c r L ops vI outsI vL outsL N HR. exact (C14_ops c r L ops ops vI outsI vL outsL N N eq_refl HR). Qed.

Print Assumptions C14_ops_same.

(** the executable statement *)
Corollary C14_ops_holds : forall c r L opsI opsL vI outsI vL outsL,
  no_resize opsI -> no_resize opsL -> feeds opsI = feeds opsL ->
  pris_free init_parser (feeds opsL) ->
  run_ops (vt_new c r None) opsI = Ok (vI, outsI) ->
  run_ops (vt_new c r L) opsL = Ok (vL, outsL) ->
  active (vterm vL) = Primary ->
  holds_C14 (concat (map o_drained outsL)) (lines (buf (vterm vL))) (lines (buf (vterm vI))) = true.
Proof.
  intros c r L opsI opsL vI outsI vL outsL NI NL EF HR EI EL HA. unfold holds_C14.
  rewrite (C14_ops _ _ _ _ _ _ _ _ _ NI NL EF HR EI EL HA). apply lines_eqb_refl.
Qed.

Print Assumptions C14_ops_holds.

(** the unlimited run hands out nothing, and the two runs show the same screen *)
Theorem C14_ops_unlimited_never_drains : forall c r ops v outs,
  no_resize ops -> run_ops (vt_new c r None) ops = Ok (v, outs) ->
  concat (map o_drained outs) = [].
Proof.
  intros c r ops v outs N E.
  assert (HI : Rvx false false None None [] [] (vt_new c r None) (vt_new c r None))
    by (split; [reflexivity|apply Rx_new2]).
  destruct (ops_reference _ _ _ _ _ _ _ _ _ HI N E) as (u1 & Dp1 & Da1 & _ & _ & _ & D & _).
  exact (D eq_refl).
Qed.

Print Assumptions C14_ops_unlimited_never_drains.

Theorem C14_ops_active : forall c r L1 L2 ops1 ops2 v1 outs1 v2 outs2,
  no_resize ops1 -> no_resize ops2 -> feeds ops1 = feeds ops2 ->
  run_ops (vt_new c r L1) ops1 = Ok (v1, outs1) ->
  run_ops (vt_new c r L2) ops2 = Ok (v2, outs2) ->
  active (vterm v1) = active (vterm v2).
Proof.
  intros c r L1 L2 ops1 ops2 v1 outs1 v2 outs2 N1 N2 EF E1 E2.
  assert (H1 : Rvx false false None L1 [] [] (vt_new c r None) (vt_new c r L1))
    by (split; [reflexivity|apply Rx_new2]).
  assert (H2 : Rvx false false None L2 [] [] (vt_new c r None) (vt_new c r L2))
    by (split; [reflexivity|apply Rx_new2]).
  destruct (ops_reference _ _ _ _ _ _ _ _ _ H1 N1 E1) as (u1 & Dp1 & Da1 & F1 & [P1 X1] & _).
  destruct (ops_reference _ _ _ _ _ _ _ _ _ H2 N2 E2) as (u2 & Dp2 & Da2 & F2 & [P2 X2] & _).
  rewrite EF, F2 in F1. injection F1 as ->.
  rewrite <- (x_active _ _ _ _ _ _ _ _ X1). exact (x_active _ _ _ _ _ _ _ _ X2).
Qed.

Print Assumptions C14_ops_active.

Local Open Scope N_scope.

(** non-vacuity: limit 1 on a 4 x 2 screen; the limited session mixes [Vt::feed] and flushes,
    the unlimited one feeds per character and never flushes; four lines are handed out (by two of the five flushes) *)
Definition chk_opsL : list op :=
  map Feed ([97] ++ crlf ++ [98]) ++ [Flush] ++ map Feed (crlf ++ [99] ++ crlf) ++ [Flush; Flush]
  ++ map Feed ([100] ++ crlf ++ alt_on ++ [65] ++ crlf ++ [66] ++ crlf ++ [67]) ++ [Flush]
  ++ map Feed (alt_off ++ crlf ++ [101] ++ crlf) ++ [Flush] ++ map Feed [102].

Definition chk_opsI : list op := map Feed (feeds chk_opsL).

Example C14_ops_nonvacuous :
  match run_ops (vt_new 4 2 None) chk_opsI, run_ops (vt_new 4 2 (Some 1)) chk_opsL with
  | Ok (vI, outsI), Ok (vL, outsL) =>
    feeds chk_opsI = feeds chk_opsL /\ active (vterm vL) = Primary
    /\ length (concat (map o_drained outsL)) = 4%nat
    /\ length (lines (buf (vterm vL))) = 3%nat
    /\ concat (map o_drained outsL) ++ lines (buf (vterm vL)) = lines (buf (vterm vI))
  | _, _ => False
  end.
Proof. vm_compute. repeat split. Qed.

Local Close Scope N_scope.

(** * 5. no control function reads the parked buffer (except the return to the primary
      screen and RIS) *)

(** replace the parked buffer *)
Definition so (X : buffer) (t : term) : term := t <| other := X |>.

Lemma so_id t : so (other t) t = t.
Proof. destruct t; reflexivity. Qed.

Lemma so_so X Y t : so X (so Y t) = so X t.
Proof. destruct t; reflexivity. Qed.

Lemma other_so X t : other (so X t) = X.
Proof. reflexivity. Qed.

Ltac pso :=
  cbn [cols rows buf other active sb_limit cur_col cur_row cur_vis tpen cs0 cs1 acs tabs ins
       org awm nlm ckm pend top bot sctx asctx dirty xtw set so
       sc_col sc_row sc_pen sc_origin sc_awm].

Ltac okeq := apply (f_equal (@Ok term)).

Ltac pso_in H :=
  cbn [cols rows buf other active sb_limit cur_col cur_row cur_vis tpen cs0 cs1 acs tabs ins
       org awm nlm ckm pend top bot sctx asctx dirty xtw set so
       sc_col sc_row sc_pen sc_origin sc_awm] in H.

Ltac ifs := repeat match goal with |- context [if ?c then _ else _] => destruct c end.

(** close a goal about pure record updates *)
Ltac fin t := unfold so; psimpl; ifs; destruct t; reflexivity.

(** the first call of a [bind] chain commutes by lemma [L] *)
Ltac stp L :=
  rewrite L;
  match goal with
  | |- context [bind (fmap _ ?m) _] => destruct m; cbn [bind fmap]; [|reflexivity]
  end.

(** [print] in three steps: the deferred wrap, the cell, the dirty mark *)
Definition print_wrap (t : term) : res term :=
  if awm t && pend t then
    let t := do_move_cursor_to_col t 0 in
    if cur_row t =? bot t then
      t <- on_buf t (fun b => buf_wrap b (cur_row t)) ;;
      scroll_up_in_region t 1
    else if cur_row t <? rows t - 1 then
      t <- on_buf t (fun b => buf_wrap b (cur_row t)) ;;
      Ok (do_move_cursor_to_row t (cur_row t + 1))
    else Ok t
  else Ok t.

Definition print_put (t : term) (cl : cell) : res term :=
  let next_col := cur_col t + 1 in
  if cols t <=? next_col then
    t <- on_buf t (fun b => buf_print b (cols t - 1) (cur_row t) cl) ;;
    if awm t then Ok (do_move_cursor_to_col t (cols t) <| pend := true |>) else Ok t
  else
    t <- (if ins t then on_buf t (fun b => buf_insert b (cur_col t) (cur_row t) 1 cl)
          else on_buf t (fun b => buf_print b (cur_col t) (cur_row t) cl)) ;;
    Ok (do_move_cursor_to_col t next_col).

Lemma print_eq t c :
  print t c = (cs <- active_cs t ;; c <- translate cs c ;;
               t1 <- print_wrap t ;; t2 <- print_put t1 (mkCell c (tpen t)) ;;
               mark t2 (cur_row t2)).
Proof. reflexivity. Qed.

Section OtherParam.
Variable X : buffer.
Notation S := (so X).

(** ** pure functions *)

Lemma so_do_col t c : do_move_cursor_to_col (S t) c = S (do_move_cursor_to_col t c).
Proof. unfold do_move_cursor_to_col. fin t. Qed.

Lemma so_do_row t r : do_move_cursor_to_row (S t) r = S (do_move_cursor_to_row t r).
Proof. unfold do_move_cursor_to_row. fin t. Qed.

Lemma so_to_col t c : move_cursor_to_col (S t) c = S (move_cursor_to_col t c).
Proof. unfold move_cursor_to_col, do_move_cursor_to_col. fin t. Qed.

Lemma so_to_row t r : move_cursor_to_row (S t) r = S (move_cursor_to_row t r).
Proof.
  unfold move_cursor_to_row, actual_top_margin, actual_bottom_margin, do_move_cursor_to_row.
  cbv zeta. fin t.
Qed.

Lemma so_rel_col t z : move_cursor_to_rel_col (S t) z = S (move_cursor_to_rel_col t z).
Proof. unfold move_cursor_to_rel_col, do_move_cursor_to_col. cbv zeta. fin t. Qed.

Lemma so_home t : move_cursor_home (S t) = S (move_cursor_home t).
Proof.
  unfold move_cursor_home, actual_top_margin, do_move_cursor_to_row, do_move_cursor_to_col.
  cbv zeta. fin t.
Qed.

Lemma so_down t n : cursor_down (S t) n = S (cursor_down t n).
Proof. unfold cursor_down, do_move_cursor_to_row. cbv zeta. fin t. Qed.

Lemma so_up t n : cursor_up (S t) n = S (cursor_up t n).
Proof. unfold cursor_up, do_move_cursor_to_row. cbv zeta. fin t. Qed.

Lemma so_bs t : bs (S t) = S (bs t).
Proof. unfold bs. pso. destruct (pend t); apply so_rel_col. Qed.

Lemma so_cub t n : cub (S t) n = S (cub t n).
Proof. unfold cub. cbv zeta. pso. apply so_rel_col. Qed.

Lemma so_cup t r c : cup (S t) r c = S (cup t r c).
Proof. unfold cup. cbv zeta. rewrite so_to_col. apply so_to_row. Qed.

Lemma so_set_tab t : set_tab (S t) = S (set_tab t).
Proof. unfold set_tab. fin t. Qed.

Lemma so_clear_tab t : clear_tab (S t) = S (clear_tab t).
Proof. unfold clear_tab. fin t. Qed.

Lemma so_clear_all t : clear_all_tabs (S t) = S (clear_all_tabs t).
Proof. unfold clear_all_tabs. fin t. Qed.

Lemma so_ctc t op : ctc (S t) op = S (ctc t op).
Proof. destruct op; cbn [ctc]; [apply so_set_tab|apply so_clear_tab|apply so_clear_all]. Qed.

Lemma so_tbc t s : tbc (S t) s = S (tbc t s).
Proof. destruct s; cbn [tbc]; [apply so_clear_tab|apply so_clear_all]. Qed.

Lemma so_save t : save_cursor (S t) = S (save_cursor t).
Proof. unfold save_cursor, save_cursor_gen. destruct t; reflexivity. Qed.

Lemma so_restore t : restore_cursor (S t) = S (restore_cursor t).
Proof. unfold restore_cursor, restore_cursor_gen. destruct t; reflexivity. Qed.

Lemma so_soft t : soft_reset_gen (S t) = S (soft_reset_gen t).
Proof. unfold soft_reset_gen. destruct t; reflexivity. Qed.

Lemma so_hard t : hard_reset_gen (S t) = hard_reset_gen t.
Proof. unfold hard_reset_gen. destruct t; reflexivity. Qed.

Lemma so_decstbm t tp bt : decstbm (S t) tp bt = S (decstbm t tp bt).
Proof.
  unfold decstbm. cbv zeta. pso.
  destruct ((as_usize tp 1 - 1 <? as_usize bt (rows t) - 1) && (as_usize bt (rows t) - 1 <? rows t)).
  - rewrite <- so_home. f_equal; destruct t; reflexivity.
  - apply so_home.
Qed.

Lemma so_sm ms : forall t, fold_left sm_one ms (S t) = S (fold_left sm_one ms t).
Proof.
  induction ms as [|m ms IH]; intros t; cbn [fold_left]; [reflexivity|].
  rewrite <- IH. f_equal; destruct m; destruct t; reflexivity.
Qed.

Lemma so_rm ms : forall t, fold_left rm_one ms (S t) = S (fold_left rm_one ms t).
Proof.
  induction ms as [|m ms IH]; intros t; cbn [fold_left]; [reflexivity|].
  rewrite <- IH. f_equal; destruct m; destruct t; reflexivity.
Qed.

Lemma so_sgr t ops : sgr (S t) ops = S (sgr t ops).
Proof. unfold sgr. fin t. Qed.

(** ** monadic functions *)

Lemma so_on_buf t g : on_buf (S t) g = fmap S (on_buf t g).
Proof.
  unfold on_buf. pso. destruct (g (buf t)); cbn [bind fmap]; [|reflexivity].
  f_equal; destruct t; reflexivity.
Qed.

Lemma so_mark t n : mark (S t) n = fmap S (mark t n).
Proof.
  unfold mark. pso. destruct (dirty_add (dirty t) n); cbn [bind fmap]; [|reflexivity].
  f_equal; destruct t; reflexivity.
Qed.

Lemma so_mark_range t a z : mark_range (S t) a z = fmap S (mark_range t a z).
Proof.
  unfold mark_range. pso. destruct (dirty_extend (dirty t) a z); cbn [bind fmap]; [|reflexivity].
  f_equal; destruct t; reflexivity.
Qed.

Lemma so_next_tab t n : move_cursor_to_next_tab (S t) n = fmap S (move_cursor_to_next_tab t n).
Proof.
  unfold move_cursor_to_next_tab. pso.
  destruct (tabs_after (tabs t) (cur_col t) n); cbn [bind fmap]; [|reflexivity].
  okeq. apply so_to_col.
Qed.

Lemma so_prev_tab t n : move_cursor_to_prev_tab (S t) n = fmap S (move_cursor_to_prev_tab t n).
Proof.
  unfold move_cursor_to_prev_tab. pso.
  destruct (tabs_before (tabs t) (cur_col t) n); cbn [bind fmap]; [|reflexivity].
  okeq. apply so_to_col.
Qed.

Lemma so_scroll_up t n : scroll_up_in_region (S t) n = fmap S (scroll_up_in_region t n).
Proof. unfold scroll_up_in_region. pso. stp so_on_buf. apply so_mark_range. Qed.

Lemma so_scroll_down t n : scroll_down_in_region (S t) n = fmap S (scroll_down_in_region t n).
Proof. unfold scroll_down_in_region. pso. stp so_on_buf. apply so_mark_range. Qed.

Lemma so_down_scroll t :
  move_cursor_down_with_scroll (S t) = fmap S (move_cursor_down_with_scroll t).
Proof.
  unfold move_cursor_down_with_scroll. pso.
  destruct (cur_row t =? bot t); [apply so_scroll_up|].
  destruct (cur_row t <? rows t - 1); cbn [fmap]; [|reflexivity].
  okeq. apply so_do_row.
Qed.

Lemma so_lf t : lf (S t) = fmap S (lf t).
Proof.
  unfold lf. stp so_down_scroll. pso. okeq.
  match goal with |- context [nlm ?x] => destruct (nlm x) end; [apply so_do_col|reflexivity].
Qed.

Lemma so_nel t : nel (S t) = fmap S (nel t).
Proof. unfold nel. stp so_down_scroll. okeq. apply so_do_col. Qed.

Lemma so_ri t : ri (S t) = fmap S (ri t).
Proof.
  unfold ri. pso. destruct (cur_row t =? top t); [apply so_scroll_down|].
  destruct (0 <? cur_row t); cbn [fmap]; [|reflexivity]. okeq. apply so_do_row.
Qed.

Lemma so_print_wrap t : print_wrap (S t) = fmap S (print_wrap t).
Proof.
  unfold print_wrap. cbv zeta. rewrite !so_do_col. pso.
  destruct (awm t && pend t); [|reflexivity].
  destruct (cur_row (do_move_cursor_to_col t 0) =? bot (do_move_cursor_to_col t 0)).
  - stp so_on_buf. apply so_scroll_up.
  - destruct (cur_row (do_move_cursor_to_col t 0) <? rows (do_move_cursor_to_col t 0) - 1);
      [|reflexivity].
    stp so_on_buf. pso. okeq. apply so_do_row.
Qed.

Lemma so_print_put t cl : print_put (S t) cl = fmap S (print_put t cl).
Proof.
  unfold print_put. cbv zeta. pso. destruct (cols t <=? cur_col t + 1).
  - stp so_on_buf. pso.
    match goal with |- context [awm ?x] => destruct (awm x) end; cbn [fmap]; [|reflexivity].
    okeq. rewrite so_do_col. match goal with |- context [S ?x] => destruct x end. reflexivity.
  - destruct (ins t); stp so_on_buf; okeq; apply so_do_col.
Qed.

Lemma so_print t c : print (S t) c = fmap S (print t c).
Proof.
  rewrite !print_eq. unfold active_cs. pso. fold (active_cs t).
  destruct (active_cs t) as [cs|e]; cbn [bind fmap]; [|reflexivity].
  destruct (translate cs c) as [c'|e]; cbn [bind fmap]; [|reflexivity].
  stp so_print_wrap. stp so_print_put. pso. apply so_mark.
Qed.

Lemma so_print_n n c : forall t, print_n n (S t) c = fmap S (print_n n t c).
Proof.
  induction n as [|n IH]; intros t; cbn [print_n]; [reflexivity|].
  stp so_print. apply IH.
Qed.

Lemma so_rep t n : rep (S t) n = fmap S (rep t n).
Proof.
  unfold rep. pso. destruct (0 <? cur_col t); [|reflexivity].
  destruct (get_row (buf t) (cur_row t)) as [l|e]; cbn [bind fmap]; [|reflexivity].
  destruct (nth_error (cells l) (cur_col t - 1)); [apply so_print_n|reflexivity].
Qed.

Lemma so_decaln_rows n : forall t row, decaln_rows (S t) n row = fmap S (decaln_rows t n row).
Proof.
  induction n as [|n IH]; intros t row; cbn [decaln_rows]; [reflexivity|].
  pso. stp so_on_buf. stp so_mark. apply IH.
Qed.

Lemma so_decaln t : decaln (S t) = fmap S (decaln t).
Proof. unfold decaln. pso. apply so_decaln_rows. Qed.

Lemma so_ich t n : ich (S t) n = fmap S (ich t n).
Proof. unfold ich. pso. stp so_on_buf. pso. apply so_mark. Qed.

Lemma so_ech t n : ech (S t) n = fmap S (ech t n).
Proof. unfold ech. pso. stp so_on_buf. pso. apply so_mark. Qed.

Lemma so_dch t n : dch (S t) n = fmap S (dch t n).
Proof.
  unfold dch. cbv zeta. pso.
  destruct (cols t <=? cur_col t).
  - rewrite so_to_col. pso. stp so_on_buf. pso. apply so_mark.
  - pso. stp so_on_buf. pso. apply so_mark.
Qed.

Lemma so_el t s : el (S t) s = fmap S (el t s).
Proof. unfold el. cbv zeta. pso. stp so_on_buf. pso. apply so_mark. Qed.

Lemma so_ed t s : ed (S t) s = fmap S (ed t s).
Proof.
  unfold ed. destruct s; pso; try reflexivity; stp so_on_buf; pso; apply so_mark_range.
Qed.

Lemma so_il t n : il (S t) n = fmap S (il t n).
Proof.
  unfold il, il_dl_range. pso. destruct (cur_row t <=? bot t); stp so_on_buf; apply so_mark_range.
Qed.

Lemma so_dl t n : dl (S t) n = fmap S (dl t n).
Proof.
  unfold dl, il_dl_range. pso. destruct (cur_row t <=? bot t); stp so_on_buf; apply so_mark_range.
Qed.

Lemma so_reflow_head t : reflow_head (S t) = fmap S (reflow_head t).
Proof.
  unfold reflow_head. cbv zeta. pso.
  destruct (negb (cols t =? bcols (buf t))); pso;
    (destruct (buf_resize (buf t) (cols t) (rows t) (cur_col t) (cur_row t)) as [[b [c r]]|e];
     cbn [bind fmap]; [|reflexivity]);
    pso; unfold mark_range; pso;
    (match goal with |- context [dirty_extend ?d ?x ?y] => destruct (dirty_extend d x y) end;
     cbn [bind fmap]; [|reflexivity]);
    okeq; destruct t; reflexivity.
Qed.

Lemma so_reflow t : reflow (S t) = fmap S (reflow t).
Proof.
  rewrite !reflow_split. stp so_reflow_head. okeq. rewrite !rtail_clamp. pso.
  match goal with |- context [S ?x] => destruct x end. reflexivity.
Qed.

Lemma so_term_resize t c r : term_resize (S t) c r = fmap S (term_resize t c r).
Proof.
  rewrite !term_resize_eq. pso. rewrite <- so_reflow. f_equal; destruct t; reflexivity.
Qed.

Lemma so_xtwinops t op : xtwinops (S t) op = fmap S (xtwinops t op).
Proof.
  unfold xtwinops. pso. destruct (xtw t); [|reflexivity]. destruct op. apply so_term_resize.
Qed.

(** entering the alternate screen while it is showing is a no-op *)
Lemma so_switch_alt t :
  active t = Alternate -> switch_to_alternate_buffer (S t) = fmap S (switch_to_alternate_buffer t).
Proof. intros E. unfold switch_to_alternate_buffer. pso. rewrite E. reflexivity. Qed.

Lemma so_decset_one t m :
  active t = Alternate -> decset_one (S t) m = fmap S (decset_one t m).
Proof.
  intros E. destruct m; cbn [decset_one fmap].
  - okeq. destruct t; reflexivity.
  - okeq. rewrite <- so_home. f_equal; destruct t; reflexivity.
  - okeq. destruct t; reflexivity.
  - okeq. destruct t; reflexivity.
  - stp (so_switch_alt t E). apply so_reflow.
  - okeq. apply so_save.
  - rewrite so_save. assert (E' : active (save_cursor t) = Alternate) by (rewrite <- E; destruct t; reflexivity).
    stp (so_switch_alt _ E'). apply so_reflow.
Qed.

Lemma decset_one_active t m t' :
  active t = Alternate -> decset_one t m = Ok t' -> active t' = Alternate.
Proof.
  intros E H.
  assert (HR : forall a a', reflow a = Ok a' -> active a' = active a).
  { intros a a' Ha. apply reflow_keepR in Ha. unfold keepR in Ha. injection Ha; intros; assumption. }
  revert H. destruct m; cbn [decset_one]; intros H;
    try (injection H as <-; rewrite <- E; destruct t; reflexivity).
  - apply bind_ok in H as (t1 & H1 & H). rewrite (HR _ _ H).
    apply switch_alt_inv in H1 as [[_ ->]|[H1 _]]; [exact E|congruence].
  - apply bind_ok in H as (t1 & H1 & H). rewrite (HR _ _ H).
    assert (E' : active (save_cursor t) = Alternate) by (rewrite <- E; destruct t; reflexivity).
    apply switch_alt_inv in H1 as [[_ ->]|[H1 _]]; [exact E'|congruence].
Qed.

Lemma so_decset ms : forall t,
  active t = Alternate -> foldM decset_one ms (S t) = fmap S (foldM decset_one ms t).
Proof.
  induction ms as [|m ms IH]; intros t E; cbn [foldM]; [reflexivity|].
  rewrite (so_decset_one t m E).
  destruct (decset_one t m) as [t1|e] eqn:D; cbn [bind fmap]; [|reflexivity].
  apply IH. exact (decset_one_active _ _ _ E D).
Qed.

(** resetting a mode other than the two alternate-screen modes *)
Definition leaves_alt (m : dec_mode) : bool :=
  match m with AltScreenBuffer | SaveCursorAltScreenBuffer => true | _ => false end.

Lemma so_decrst_one t m :
  leaves_alt m = false -> decrst_one (S t) m = fmap S (decrst_one t m).
Proof.
  intros E. destruct m; try discriminate E; cbn [decrst_one fmap].
  - okeq. destruct t; reflexivity.
  - okeq. rewrite <- so_home. f_equal; destruct t; reflexivity.
  - okeq. destruct t; reflexivity.
  - okeq. destruct t; reflexivity.
  - okeq. apply so_restore.
Qed.

(** ** [execute] *)

(** the functions that never read the parked buffer while the alternate screen shows *)
Definition parks (f : func) : bool :=
  match f with Decrst _ | Ris => false | _ => true end.

Theorem so_execute t f :
  parks f = true -> active t = Alternate -> execute (S t) f = fmap S (execute t f).
Proof.
  intros Hf E. destruct f; try discriminate Hf; cbn [execute fmap].
  - okeq. apply so_bs.
  - apply so_prev_tab.
  - okeq. apply so_to_col.
  - apply so_next_tab.
  - okeq. rewrite so_down. apply so_do_col.
  - okeq. rewrite so_up. apply so_do_col.
  - okeq. apply so_do_col.
  - okeq. apply so_ctc.
  - okeq. apply so_cub.
  - okeq. apply so_down.
  - okeq. apply so_rel_col.
  - okeq. apply so_cup.
  - okeq. apply so_up.
  - apply so_dch.
  - apply so_decaln.
  - okeq. apply so_restore.
  - okeq. apply so_save.
  - apply so_decset. exact E.
  - okeq. apply so_decstbm.
  - okeq. apply so_soft.
  - apply so_dl.
  - apply so_ech.
  - apply so_ed.
  - apply so_el.
  - okeq. destruct t; reflexivity.
  - okeq. destruct t; reflexivity.
  - apply so_next_tab.
  - okeq. apply so_set_tab.
  - apply so_ich.
  - apply so_il.
  - apply so_lf.
  - apply so_nel.
  - apply so_print.
  - apply so_rep.
  - apply so_ri.
  - okeq. apply so_rm.
  - okeq. apply so_restore.
  - okeq. apply so_save.
  - apply so_scroll_down.
  - okeq. apply so_sgr.
  - okeq. destruct t; reflexivity.
  - okeq. apply so_sm.
  - okeq. destruct t; reflexivity.
  - apply so_scroll_up.
  - okeq. apply so_tbc.
  - okeq. apply so_to_row.
  - okeq. apply so_down.
  - apply so_xtwinops.
Qed.

End OtherParam.

Print Assumptions so_execute.

(** consequences: the parked buffer and the active screen are preserved *)
Lemma execute_other_alt t f t' :
  parks f = true -> active t = Alternate -> execute t f = Ok t' -> other t' = other t.
Proof.
  intros Hf E H. pose proof (so_execute (other t) t f Hf E) as P.
  rewrite so_id, H in P. cbn [fmap] in P. injection P as P. rewrite P. reflexivity.
Qed.

Lemma execute_active_alt t f t' :
  parks f = true -> xtw t = false -> active t = Alternate -> execute t f = Ok t' ->
  active t' = Alternate.
Proof.
  intros Hf Hx E H. pose proof (saved_frame t f t' H) as F.
  destruct f; try discriminate Hf; try (destruct F as (_ & _ & ->); exact E); clear F;
    revert H; cbn [execute]; intros H.
  - injection H as <-. rewrite <- E. destruct t; reflexivity.
  - apply (foldM_inv decset_one (fun a => active a = Alternate)) with (l := ms) (a := t); auto.
    intros a x a' Hx' Ha. exact (decset_one_active _ _ _ Ha Hx').
  - injection H as <-. rewrite <- E. destruct t; reflexivity.
  - injection H as <-. rewrite <- E. destruct t; reflexivity.
  - unfold xtwinops in H. rewrite Hx in H. injection H as <-. exact E.
Qed.

Lemma decrst_one_active t m t' :
  leaves_alt m = false -> decrst_one t m = Ok t' -> active t' = active t.
Proof.
  intros Hm. destruct m; try discriminate Hm; cbn [decrst_one]; intros H; injection H as <-;
    destruct t; reflexivity.
Qed.

(** * 6. start states with a stale parked primary ([parked_ok] discharged) *)

Lemma buf_resize_geom b nc nr cc cr b' p :
  buf_resize b nc nr cc cr = Ok (b', p) -> bcols b' = nc /\ brows b' = nr /\ blimit b' = blimit b.
Proof.
  rewrite buf_resize_eq. intros H.
  apply bind_ok in H as ([lc lr] & _ & H).
  apply bind_ok in H as ([[[ls1 cc1] cr1] or1] & _ & H).
  apply bind_ok in H as ([ls2 cr2] & _ & H).
  injection H as <- <-. repeat split.
Qed.

Lemma reflow_facts t t' :
  reflow t = Ok t' ->
  active t' = active t /\ cols t' = cols t /\ rows t' = rows t /\ sb_limit t' = sb_limit t
  /\ xtw t' = xtw t /\ bcols (buf t') = cols t /\ brows (buf t') = rows t
  /\ blimit (buf t') = blimit (buf t).
Proof.
  intros H. pose proof (reflow_keepR _ _ H) as K. unfold keepR in K.
  injection K as K1 K2 K3 K4 K5 K6 K7 K8 K9 K10 K11 K12 K13 K14 K15 K16 K17 K18 K19 K20.
  apply reflow_inv in H as (b & c & r & d & Hb & ->). rewrite reflowed_buf in *.
  destruct (buf_resize_geom _ _ _ _ _ _ _ Hb) as (G1 & G2 & G3).
  repeat split; assumption.
Qed.

Section StaleParked.
Variable L : option N.

(** the alternate screen shows, both parked primaries are THE SAME buffer (of any geometry),
    and with the parked buffer replaced by a well-shaped one the terminals are related *)
Definition Stale (Da : list line) (a b : term) : Prop :=
  active a = Alternate /\ other a = other b /\ blimit (other a) = limit_of L
  /\ exists Q, Rx false false L L [] Da (so Q a) (so Q b).

Definition Rpost0 (a b : term) : Prop := exists Da, Rx false false L L [] Da a b.

(** a step that does not read the parked buffer *)
Lemma Stale_step_gen (F : term -> res term) Da a b :
  (forall X t, active t = Alternate -> F (so X t) = fmap (so X) (F t)) ->
  (forall t t', active t = Alternate -> xtw t = false -> F t = Ok t' -> active t' = Alternate) ->
  (forall Da a b, Rx false false L L [] Da a b -> rres Rpost0 (F a) (F b)) ->
  Stale Da a b -> rres (fun a' b' => exists Da', Stale Da' a' b') (F a) (F b).
Proof.
  intros HP HA HR (EA & EO & EL & Q & H).
  pose proof (x_active _ _ _ _ _ _ _ _ H) as EB. pso_in EB. rewrite EA in EB. symmetry in EB.
  pose proof (x_xtw0 _ _ _ _ _ _ _ _ H) as XA. pso_in XA.
  pose proof (x_xtw _ _ _ _ _ _ _ _ H) as XB. pso_in XB. rewrite XA in XB. symmetry in XB.
  pose proof (HR _ _ _ H) as R. rewrite (HP Q a EA), (HP Q b EB) in R.
  pose proof (HP (other a) a EA) as PA. rewrite so_id in PA.
  pose proof (HP (other b) b EB) as PB. rewrite so_id in PB.
  destruct (F a) as [a'|e] eqn:FA; destruct (F b) as [b'|e'] eqn:FB; cbn [fmap] in *;
    inversion R as [x y (Da' & Hxy) Ex Ey|s Ex Ey]; subst; constructor.
  injection PA as PA. injection PB as PB.
  assert (OA : other a' = other a) by (rewrite PA; reflexivity).
  assert (OB : other b' = other b) by (rewrite PB; reflexivity).
  exists Da'. split; [exact (HA _ _ EA XA FA)|]. split; [congruence|]. split; [congruence|].
  exists Q. exact Hxy.
Qed.

Lemma Stale_execute Da a b f :
  parks f = true -> Stale Da a b ->
  rres (fun a' b' => exists Da', Stale Da' a' b') (execute a f) (execute b f).
Proof.
  intros Hf. apply (Stale_step_gen (fun t => execute t f)).
  - intros X t E. apply so_execute; assumption.
  - intros t t' E Hx H. exact (execute_active_alt _ _ _ Hf Hx E H).
  - intros Da0 a0 b0 H. pose proof (execute_Rx _ _ _ _ _ _ _ _ f H) as R.
    eapply rres_impl; [|exact R]. intros x y (Da' & _ & Hxy). exists Da'.
    destruct (is_ris f); exact Hxy.
Qed.

Lemma Stale_decrst_keep Da a b m :
  leaves_alt m = false -> Stale Da a b ->
  rres (fun a' b' => exists Da', Stale Da' a' b') (decrst_one a m) (decrst_one b m).
Proof.
  intros Hm. apply (Stale_step_gen (fun t => decrst_one t m)).
  - intros X t _. apply so_decrst_one; assumption.
  - intros t t' E _ H. rewrite (decrst_one_active _ _ _ Hm H). exact E.
  - intros Da0 a0 b0 H. pose proof (decrst_one_R _ _ _ _ _ _ _ _ m H) as R.
    eapply rres_impl; [|exact R]. intros x y (Da' & _ & Hxy). exists Da'. exact Hxy.
Qed.

Lemma Stale_ris Da a b :
  Stale Da a b -> Rx false false L L [] [] (hard_reset_gen a) (hard_reset_gen b).
Proof.
  intros (_ & _ & _ & Q & H). rewrite <- (so_hard Q a), <- (so_hard Q b).
  eapply hard_R; exact H.
Qed.

(** from "equal up to flags" to the prefix relation, on the primary screen *)
Lemma Rdt_Rx_primary Da a b Y :
  Rdtg true a (so Y b) -> active a = Primary ->
  bcols (buf a) = cols a -> brows (buf a) = rows a -> blimit (buf a) = limit_of L ->
  sb_limit a = L -> xtw a = false ->
  Rx false false L L [] Da a b.
Proof.
  intros H EA Hc Hr Hl Hs Hx.
  destruct H as [R1 R2 R3 R4 R5 R6 R7 R8 R9 R10 R11 R12 R13 R14 R15 R16 R17 R18 R19 R20 R21 R22
                 R23 R24 R25 R26].
  pso_in R1. pso_in R2. pso_in R3. pso_in R5. pso_in R6. pso_in R7. pso_in R8. pso_in R9.
  pso_in R10. pso_in R11. pso_in R12. pso_in R13. pso_in R14. pso_in R15. pso_in R16. pso_in R17.
  pso_in R18. pso_in R19. pso_in R20. pso_in R21. pso_in R22. pso_in R23. pso_in R24. pso_in R25.
  pso_in R26. specialize (R6 eq_refl).
  destruct R3 as [B1 B2 B3 B4]. specialize (B4 eq_refl).
  constructor; try assumption.
  - rewrite EA. cbn [lim_sel Dsel]. constructor.
    + exact B1.
    + cbn [length]. apply Nat.le_0_l.
    + exact Hc.
    + exact Hr.
    + rewrite <- B2. exact Hc.
    + rewrite <- B3. exact Hr.
    + rewrite Hs. exact Hl.
    + rewrite <- B4, <- R6, Hs. exact Hl.
    + intros E; discriminate.
  - rewrite EA. intros E; discriminate.
  - rewrite <- R6. exact Hs.
  - intros E; discriminate.
Qed.

Lemma switch_prim_setbuf Y t :
  active t = Alternate ->
  switch_to_primary_buffer (t <| buf := Y |>) = fmap (so Y) (switch_to_primary_buffer t).
Proof.
  intros E. unfold switch_to_primary_buffer. psimpl. rewrite E. psimpl.
  unfold mark_range. psimpl.
  destruct (dirty_extend (dirty t) 0 (rows t)); cbn [bind fmap]; [|reflexivity].
  okeq. destruct t; reflexivity.
Qed.

Lemma decrst_one_setbuf Y t m :
  leaves_alt m = true -> active t = Alternate ->
  decrst_one (t <| buf := Y |>) m = fmap (so Y) (decrst_one t m).
Proof.
  intros Hm E. destruct m; try discriminate Hm; cbn [decrst_one].
  - stp (switch_prim_setbuf Y t E). apply so_reflow.
  - stp (switch_prim_setbuf Y t E). rewrite so_restore. apply so_reflow.
Qed.

Lemma decrst_one_exit_facts t m t' :
  leaves_alt m = true -> active t = Alternate -> decrst_one t m = Ok t' ->
  active t' = Primary /\ bcols (buf t') = cols t' /\ brows (buf t') = rows t'
  /\ blimit (buf t') = blimit (other t) /\ sb_limit t' = sb_limit t /\ xtw t' = xtw t.
Proof.
  intros Hm E. destruct m; try discriminate Hm; cbn [decrst_one]; intros H;
    apply bind_ok in H as (t1 & H1 & H);
    (apply switch_prim_inv in H1 as [[H1 _]|[_ [d ->]]]; [congruence|]);
    apply reflow_facts in H as (F1 & F2 & F3 & F4 & F5 & F6 & F7 & F8);
    rewrite F1, F2, F3, F4, F5, F6, F7, F8; destruct t; repeat split.
Qed.

(** leaving the alternate screen: the parked primary is re-wrapped - at the same moment and
    from the same buffer in both runs *)
Lemma Stale_exit Da a b m :
  leaves_alt m = true -> Stale Da a b ->
  rres (fun a' b' => Rx false false L L [] Da a' b') (decrst_one a m) (decrst_one b m).
Proof.
  intros Hm (EA & EO & EL & Q & H).
  pose proof (x_active _ _ _ _ _ _ _ _ H) as EB. pso_in EB. rewrite EA in EB. symmetry in EB.
  pose proof (Rx_scal _ _ _ _ _ _ _ eq_refl H) as HS. unfold scal in HS. pso_in HS.
  injection HS as E1 E2 E3 E4 E5 E6 E7 E8 E9 E10 E11 E12 E13 E14 E15 E16 E17 E18 E19 E20 E21 E22 E23.
  pose proof (x_dirty_len _ _ _ _ _ _ _ _ H) as HD. pso_in HD.
  assert (HR : Rdtg true a (b <| buf := buf a |>)).
  { constructor; psimpl; try assumption; try apply RB_refl; try (intros _; assumption).
    rewrite EO. apply RB_refl. }
  assert (R : rres (Rdtg true) (decrst_one a m) (fmap (so (buf a)) (decrst_one b m))).
  { rewrite <- (decrst_one_setbuf (buf a) b m Hm EB). exact (ParamDT.decrst_one_R true _ _ m HR). }
  destruct (decrst_one a m) as [a'|e] eqn:FA; destruct (decrst_one b m) as [b'|e'] eqn:FB;
    cbn [fmap] in R; inversion R as [x y Hxy Ex Ey|s Ex Ey]; subst; constructor.
  destruct (decrst_one_exit_facts _ _ _ Hm EA FA) as (G1 & G2 & G3 & G4 & G5 & G6).
  pose proof (x_sl1 _ _ _ _ _ _ _ _ H) as S1. pso_in S1.
  pose proof (x_xtw0 _ _ _ _ _ _ _ _ H) as X0. pso_in X0.
  eapply Rdt_Rx_primary; try eassumption; congruence.
Qed.

(** the invariant across a control function: stale, or related with an empty primary prefix *)
Definition RI (Da : list line) (a b : term) : Prop :=
  Stale Da a b \/ Rx false false L L [] Da a b.

Definition RIpost (a b : term) : Prop := exists Da, RI Da a b.

Lemma decrst_one_RI Da a b m : RI Da a b -> rres RIpost (decrst_one a m) (decrst_one b m).
Proof.
  intros [H|H].
  - destruct (leaves_alt m) eqn:Hm.
    + eapply rres_impl; [|apply (Stale_exit _ _ _ _ Hm H)].
      intros x y Hxy. exists Da. right. exact Hxy.
    + eapply rres_impl; [|apply (Stale_decrst_keep _ _ _ _ Hm H)].
      intros x y (Da' & Hxy). exists Da'. left. exact Hxy.
  - pose proof (decrst_one_R _ _ _ _ _ _ _ _ m H) as R.
    eapply rres_impl; [|exact R]. intros x y (Da' & _ & Hxy). exists Da'. right. exact Hxy.
Qed.

Lemma decrst_RI ms : forall Da a b,
  RI Da a b -> rres RIpost (foldM decrst_one ms a) (foldM decrst_one ms b).
Proof.
  induction ms as [|m ms IH]; intros Da a b H; cbn [foldM]; [constructor; exists Da; exact H|].
  apply (rres_bind RIpost); [apply (decrst_one_RI _ _ _ _ H)|].
  intros x y (Da' & Hxy). apply (IH _ _ _ Hxy).
Qed.

Lemma execute_RI Da a b f : RI Da a b -> rres RIpost (execute a f) (execute b f).
Proof.
  intros [H|H].
  - destruct (parks f) eqn:Hf.
    + eapply rres_impl; [|apply (Stale_execute _ _ _ _ Hf H)].
      intros x y (Da' & Hxy). exists Da'. left. exact Hxy.
    + destruct f; try discriminate Hf; cbn [execute].
      * apply (decrst_RI _ Da). left. exact H.
      * constructor. exists []. right. exact (Stale_ris _ _ _ H).
  - pose proof (execute_Rx _ _ _ _ _ _ _ _ f H) as R.
    eapply rres_impl; [|exact R]. intros x y (Da' & _ & Hxy). exists Da'. right.
    destruct (is_ris f); exact Hxy.
Qed.

(** ** the level of [vt] *)

Definition RS (Dp Da : list line) (a b : term) : Prop :=
  Rx false false L L Dp Da a b \/ (Dp = [] /\ Stale Da a b).

Definition RvS (Dp Da : list line) (u v : vt) : Prop :=
  vparser u = vparser v /\ RS Dp Da (vterm u) (vterm v).

Definition RvSpost (Dp : list line) (u v : vt) : Prop :=
  exists Dp' Da', (Dp = [] -> Dp' = []) /\ RvS Dp' Da' u v.

Lemma vt_feed_RS Dp Da u v c :
  RvS Dp Da u v -> rres (RvSpost Dp) (vt_feed u c) (vt_feed v c).
Proof.
  intros [Hp [H|[ED H]]].
  - pose proof (vt_feed_Rx _ _ _ _ _ _ _ _ c (conj Hp H)) as R.
    eapply rres_impl; [|exact R]. intros x y (Da' & _ & [Pxy Hxy]).
    exists (if ris_at u c then [] else Dp), Da'. split.
    + intros E. rewrite E. destruct (ris_at u c); reflexivity.
    + split; [exact Pxy|left; exact Hxy].
  - unfold vt_feed. rewrite <- Hp.
    destruct (feedM (vparser u) c) as [[p [f|]]|s]; cbn [bind]; [| |constructor].
    + apply (rres_bind RIpost); [apply (execute_RI Da); left; exact H|].
      intros x y (Da' & Hxy). constructor. exists [], Da'. split; [reflexivity|].
      split; [reflexivity|]. destruct Hxy as [Hxy|Hxy]; [right; split; [reflexivity|exact Hxy]|left; exact Hxy].
    + constructor. exists Dp, Da. split; [auto|]. split; [reflexivity|]. right. split; assumption.
Qed.

Lemma feed_chars_RS s : forall Dp Da u v,
  RvS Dp Da u v -> rres (RvSpost Dp) (feed_chars u s) (feed_chars v s).
Proof.
  induction s as [|c s IH]; intros Dp Da u v H; cbn [feed_chars].
  - constructor. exists Dp, Da. split; [auto|exact H].
  - eapply rres_bind; [apply (vt_feed_RS Dp Da); exact H|].
    intros x y (Dp1 & Da1 & HD1 & Hxy).
    eapply rres_impl; [|apply (IH _ _ _ _ Hxy)].
    intros x' y' (Dp2 & Da2 & HD2 & Hxy'). exists Dp2, Da2. split; [auto|exact Hxy'].
Qed.

Lemma flushed_so Q t : flushed (so Q t) = so Q (flushed t).
Proof. unfold flushed. destruct t; reflexivity. Qed.

Lemma flush_RS Dp Da a b :
  RS Dp Da a b -> exists Dp' Da', (L = None -> Dp = [] -> Dp' = []) /\ RS Dp' Da' a (flushed b).
Proof.
  intros [H|[ED (EA & EO & EL & Q & H)]].
  - destruct (flush_right_any _ _ _ _ _ _ _ H) as (Dp' & Da' & HD & H').
    exists Dp', Da'. split; [exact HD|left; exact H'].
  - pose proof (flush_right_explicit _ _ _ _ _ _ _ H) as H'. pso_in H'. rewrite EA in H'.
    rewrite flushed_so in H'.
    eexists [], _. split; [auto|]. right. split; [reflexivity|].
    split; [exact EA|]. split; [exact EO|]. split; [exact EL|]. exists Q. exact H'.
Qed.

End StaleParked.

(** ** sessions of operations against the flush-free reference run, from any start state *)

Lemma ops_reference_S L ops : forall Dp Da u v v' outs,
  RvS L Dp Da u v -> no_resize ops -> run_ops v ops = Ok (v', outs) ->
  exists u' Dp' Da',
    feed_chars u (feeds ops) = Ok u' /\ RvS L Dp' Da' u' v' /\ (L = None -> Dp = [] -> Dp' = []).
Proof.
  induction ops as [|o ops IH]; intros Dp Da u v v' outs H HN E; cbn [run_ops feeds] in *.
  - injection E as <- <-. exists u, Dp, Da. cbn [feed_chars]. split; [reflexivity|]. split; [exact H|auto].
  - unfold no_resize in HN. cbn [forallb] in HN. apply andb_prop in HN. destruct HN as [HN1 HN].
    destruct (stepM v o) as [[v1 o1]|e] eqn:S; cbn [bind fst snd] in E; [|discriminate].
    destruct (run_ops v1 ops) as [[v2 os]|e] eqn:R; cbn [bind fst snd] in E; [|discriminate].
    injection E as <- <-.
    destruct o as [c| |cc rr]; [| |discriminate HN1].
    + cbn [stepM] in S.
      destruct (vt_feed v c) as [w|e] eqn:F; cbn [bind] in S; [|discriminate].
      injection S as <- <-.
      destruct (rres_ok_inv_r _ _ _ _ (vt_feed_RS _ _ _ _ _ c H) F)
        as (u1 & Fu & (Dp1 & Da1 & HD1 & H1)).
      destruct (IH _ _ _ _ _ _ H1 HN R) as (u' & Dp' & Da' & Fu' & H' & HE).
      exists u', Dp', Da'. cbn [feed_chars]. rewrite Fu. cbn [bind].
      split; [exact Fu'|]. split; [exact H'|]. intros EL ED. apply HE; [exact EL|]. apply HD1. exact ED.
    + cbn [stepM] in S. apply vt_flush_inv in S. destruct S as (Pw & Tw & _).
      destruct H as [Hp Hx].
      destruct (flush_RS _ _ _ _ _ Hx) as (Dp2 & Da2 & HD2 & Hx2). rewrite <- Tw in Hx2.
      assert (H1 : RvS L Dp2 Da2 u v1) by (split; [congruence|exact Hx2]).
      destruct (IH _ _ _ _ _ _ H1 HN R) as (u' & Dp' & Da' & Fu' & H' & HE).
      exists u', Dp', Da'. split; [exact Fu'|]. split; [exact H'|].
      intros EL ED. apply HE; [exact EL|]. apply HD2; assumption.
Qed.

(** every state satisfying the invariant is related to itself - also with a stale parked
    primary (reached by a resize while the alternate screen shows) *)
Lemma RS_refl t : TInv t -> RS (sb_limit t) [] [] t t.
Proof.
  intros HT. destruct (active t) eqn:EA.
  - left. apply Rx_refl; [exact HT|]. intros E. congruence.
  - right. split; [reflexivity|]. split; [exact EA|]. split; [reflexivity|].
    pose proof (ti_limit _ HT) as HL. rewrite EA in HL. destruct HL as [HL1 HL2].
    split; [exact HL2|].
    exists (mkBuffer [] (cols t) (rows t) (limit_of (sb_limit t)) false).
    constructor; pso; try reflexivity; try apply leq_refl.
    + rewrite EA. cbn [lim_sel Dsel]. constructor; try reflexivity; try apply leq_refl.
      * cbn [length]. apply Nat.le_0_l.
      * apply HT.
      * apply HT.
      * apply HT.
      * apply HT.
      * exact HL1.
      * exact HL1.
    + rewrite EA. constructor; try reflexivity; try apply leq_refl; try (cbn [length]; apply Nat.le_0_l).
    + apply HT.
Qed.

Lemma RS_Rvis L Dp Da u v : RS L Dp Da u v -> Rvis u v.
Proof.
  intros [H|[_ (EA & EO & EL & Q & H)]]; [exact (Rx_Rvis _ _ _ _ _ H)|].
  destruct (Rx_Rvis _ _ _ _ _ H) as [HS HB _]. unfold scal in HS. pso_in HS. pso_in HB.
  constructor; [exact HS|exact HB|]. intros _. rewrite EO. repeat split.
Qed.

Lemma RS_Robs Da u v : RS None [] Da u v -> Robs u v.
Proof.
  intros [H|[_ (EA & EO & EL & Q & H)]]; [exact (Rx_Robs _ _ _ H)|].
  destruct (Rx_Robs _ _ _ H) as [HS H1 H2 H3 _ _]. unfold scal in HS. pso_in HS.
  pso_in H1. pso_in H2. pso_in H3.
  constructor; try assumption.
  - intros _. rewrite EO. apply RB_refl.
  - intros E. congruence.
Qed.

Lemma Robs_common2 u a b : Robs u a -> Robs u b -> Robs a b.
Proof.
  intros [S1 C1 R1 V1 O1 L1] [S2 C2 R2 V2 O2 L2].
  assert (EA : active u = active a) by (unfold scal in S1; injection S1; intros; assumption).
  constructor; try congruence.
  - intros E. rewrite <- EA in E. eapply RB_trans; [apply RB_sym; apply O1; exact E|apply O2; exact E].
  - intros E. rewrite <- EA in E. rewrite <- (L1 E). apply L2. exact E.
Qed.

Lemma RS_limit L Dp Da u v : RS L Dp Da u v -> sb_limit u = L /\ sb_limit v = L.
Proof.
  intros [H|[_ (_ & _ & _ & Q & H)]].
  - split; [exact (x_sl1 _ _ _ _ _ _ _ _ H)|exact (x_sl2 _ _ _ _ _ _ _ _ H)].
  - pose proof (x_sl1 _ _ _ _ _ _ _ _ H) as S1. pose proof (x_sl2 _ _ _ _ _ _ _ _ H) as S2.
    pso_in S1. pso_in S2. split; assumption.
Qed.

(** the reference run of a session of operations from ANY state satisfying the invariant *)
Lemma ops_reference_any v0 ops v o :
  TInv (vterm v0) -> no_resize ops -> run_ops v0 ops = Ok (v, o) ->
  exists u Dp Da,
    feed_chars v0 (feeds ops) = Ok u
    /\ RvS (sb_limit (vterm v0)) Dp Da u v
    /\ (sb_limit (vterm v0) = None -> Dp = []).
Proof.
  intros HT HN E.
  assert (HV : RvS (sb_limit (vterm v0)) [] [] v0 v0) by (split; [reflexivity|exact (RS_refl _ HT)]).
  destruct (ops_reference_S _ _ _ _ _ _ _ _ HV HN E) as (u & Dp & Da & F & H & HD).
  exists u, Dp, Da. split; [exact F|]. split; [exact H|]. intros EL. apply HD; [exact EL|reflexivity].
Qed.

(** * 7. C12 without [parked_ok] *)

(** EVERY scrollback limit, EVERY start state satisfying the invariant (also those reached by a
    resize while the alternate screen shows): any two ways of interleaving the same characters
    ([Vt::feed]) with flushes ([feed_str] boundaries) end with equal parsers and the same
    visible state.  The lazy re-wrap of the parked primary happens at the same character in
    both runs and reads the same parked buffer. *)
Theorem C12_ops_any : forall v0 ops1 ops2 v1 o1 v2 o2,
  TInv (vterm v0) -> no_resize ops1 -> no_resize ops2 -> feeds ops1 = feeds ops2 ->
  run_ops v0 ops1 = Ok (v1, o1) -> run_ops v0 ops2 = Ok (v2, o2) ->
  vparser v1 = vparser v2 /\ Rvis (vterm v1) (vterm v2).
Proof.
  intros v0 ops1 ops2 v1 o1 v2 o2 HT N1 N2 EF E1 E2.
  destruct (ops_reference_any _ _ _ _ HT N1 E1) as (u1 & Dp1 & Da1 & F1 & [P1 X1] & _).
  destruct (ops_reference_any _ _ _ _ HT N2 E2) as (u2 & Dp2 & Da2 & F2 & [P2 X2] & _).
  rewrite EF, F2 in F1. injection F1 as ->.
  split; [congruence|]. eapply Rvis_common; eapply RS_Rvis; eassumption.
Qed.

Print Assumptions C12_ops_any.

Theorem C12_sessions_any : forall v ss1 ss2 v1 o1 v2 o2,
  TInv (vterm v) -> concat ss1 = concat ss2 ->
  run_session v ss1 = Ok (v1, o1) -> run_session v ss2 = Ok (v2, o2) ->
  vparser v1 = vparser v2 /\ Rvis (vterm v1) (vterm v2).
Proof.
  intros v ss1 ss2 v1 o1 v2 o2 HT EC E1 E2.
  destruct (session_as_ops _ _ _ _ E1) as (q1 & R1 & _).
  destruct (session_as_ops _ _ _ _ E2) as (q2 & R2 & _).
  apply (C12_ops_any v (session_ops ss1) (session_ops ss2) v1 q1 v2 q2 HT); try assumption;
    try apply no_resize_session.
  rewrite !feeds_session. exact EC.
Qed.

Print Assumptions C12_sessions_any.

Theorem C12_perchar_any : forall v0 s ss u v o,
  TInv (vterm v0) ->
  feed_chars v0 s = Ok u -> run_session v0 ss = Ok (v, o) -> concat ss = s ->
  vparser u = vparser v /\ Rvis (vterm u) (vterm v).
Proof.
  intros v0 s ss u v o HT F E EC.
  destruct (session_as_ops _ _ _ _ E) as (q & R & _).
  destruct (ops_reference_any _ _ _ _ HT (no_resize_session ss) R) as (u' & Dp & Da & F' & [P X] & _).
  rewrite feeds_session, EC, F in F'. injection F' as <-.
  split; [exact P|exact (RS_Rvis _ _ _ _ _ X)].
Qed.

Print Assumptions C12_perchar_any.

(** unlimited scrollback: the full executable statement [holds_C12] (screen, cursor, modes,
    parser; on the primary screen the same [lines()]; on the alternate screen the same lines
    of the parked primary) between the per-character run and every chunking - on BOTH
    screens.  What [holds_C12] does not compare, and what is false (KF-C12-1), is [lines()]
    of the alternate buffer itself. *)
Theorem C12_perchar_unlimited : forall v0 s ss u v o,
  TInv (vterm v0) -> sb_limit (vterm v0) = None ->
  feed_chars v0 s = Ok u -> run_session v0 ss = Ok (v, o) -> concat ss = s ->
  holds_C12 u v = true.
Proof.
  intros v0 s ss u v o HT HL F E EC.
  destruct (session_as_ops _ _ _ _ E) as (q & R & _).
  destruct (ops_reference_any _ _ _ _ HT (no_resize_session ss) R) as (u' & Dp & Da & F' & [P X] & HD).
  rewrite feeds_session, EC, F in F'. injection F' as <-.
  rewrite (HD HL) in X. rewrite HL in X.
  apply Robs_holds_C12; [exact P|exact (RS_Robs _ _ _ X)|exact (proj1 (RS_limit _ _ _ _ _ X))].
Qed.

Print Assumptions C12_perchar_unlimited.

(** AUDIT C12 gap 1.  Unlimited scrollback, ANY start state satisfying the invariant: feeding
    the characters one at a time with [Vt::feed] (no end-of-call work at all) and feeding the
    same text by ANY chunking into [feed_str] calls give the same [lines()], whenever the
    final state shows the primary screen.  RIS is allowed, and so is any amount of scrolling
    on the alternate screen in between: KF-C12-1 is excluded by [active (vterm u) = Primary]
    alone ([C12_perchar_lines_alt_refuted]: it cannot be dropped). *)
Theorem C12_perchar_lines : forall v0 s ss u v o,
  TInv (vterm v0) -> sb_limit (vterm v0) = None ->
  feed_chars v0 s = Ok u -> run_session v0 ss = Ok (v, o) -> concat ss = s ->
  active (vterm u) = Primary ->
  lines (buf (vterm u)) = lines (buf (vterm v)).
Proof.
  intros v0 s ss u v o HT HL F E EC HA.
  destruct (session_as_ops _ _ _ _ E) as (q & R & _).
  destruct (ops_reference_any _ _ _ _ HT (no_resize_session ss) R) as (u' & Dp & Da & F' & [P X] & HD).
  rewrite feeds_session, EC, F in F'. injection F' as <-.
  rewrite (HD HL) in X. rewrite HL in X.
  exact (o_lines _ _ (RS_Robs _ _ _ X) HA).
Qed.

Print Assumptions C12_perchar_lines.

Theorem C12_ops_unlimited : forall v0 ops1 ops2 v1 o1 v2 o2,
  TInv (vterm v0) -> sb_limit (vterm v0) = None ->
  no_resize ops1 -> no_resize ops2 -> feeds ops1 = feeds ops2 ->
  run_ops v0 ops1 = Ok (v1, o1) -> run_ops v0 ops2 = Ok (v2, o2) ->
  holds_C12 v1 v2 = true.
Proof.
  intros v0 ops1 ops2 v1 o1 v2 o2 HT HL N1 N2 EF E1 E2.
  destruct (ops_reference_any _ _ _ _ HT N1 E1) as (u1 & Dp1 & Da1 & F1 & [P1 X1] & D1).
  destruct (ops_reference_any _ _ _ _ HT N2 E2) as (u2 & Dp2 & Da2 & F2 & [P2 X2] & D2).
  rewrite EF, F2 in F1. injection F1 as ->.
  rewrite (D1 HL) in X1. rewrite (D2 HL) in X2. rewrite HL in X1, X2.
  apply Robs_holds_C12.
  - congruence.
  - eapply Robs_common2; eapply RS_Robs; eassumption.
  - exact (proj2 (RS_limit _ _ _ _ _ X1)).
Qed.

Print Assumptions C12_ops_unlimited.

Local Open Scope N_scope.

(** non-vacuity: a start state reached by a resize (6 x 3 -> 4 x 2) while the alternate screen
    shows; its parked primary still has the old geometry, [parked_ok] FAILS; the text leaves the
    alternate screen (the parked primary is re-wrapped to 4 columns on the way); limit 1 *)
Definition stale_start (l : option N) : res vt :=
  x <- feed_str (vt_new 6 3 l)
         ([97; 98; 99; 100; 101; 102; 103; 104] ++ crlf ++ [105] ++ crlf ++ [106] ++ crlf
          ++ [107] ++ alt_on ++ [65]) ;;
  y <- stepM (fst x) (Resize 4 2) ;; Ok (fst y).

Definition stale_text : list N :=
  [66] ++ crlf ++ [67] ++ crlf ++ [68] ++ alt_off ++ [108] ++ crlf ++ [109].

Definition stale_chunks : list (list N) :=
  [firstn 3 stale_text; firstn 10 (skipn 3 stale_text); skipn 13 stale_text].

Example C12_sessions_any_nonvacuous :
  match stale_start (Some 1) with
  | Ok v0 =>
    active (vterm v0) = Alternate
    /\ bcols (other (vterm v0)) = 6%nat /\ cols (vterm v0) = 4%nat   (* not [parked_ok] *)
    /\ concat stale_chunks = stale_text
    /\ match feed_chars v0 stale_text, run_session v0 stale_chunks, run_session v0 [stale_text] with
       | Ok u, Ok (v1, _), Ok (v2, _) =>
         active (vterm v1) = Primary /\ bcols (buf (vterm v1)) = 4%nat
         /\ obs_eqb_term (vterm u) (vterm v1) = true /\ obs_eqb_term (vterm v1) (vterm v2) = true
         /\ vparser v1 = vparser v2
       | _, _, _ => False
       end
  | _ => False
  end.
Proof. vm_compute. repeat split. Qed.

Example C12_perchar_lines_stale_nonvacuous :
  match stale_start None with
  | Ok v0 =>
    active (vterm v0) = Alternate /\ bcols (other (vterm v0)) = 6%nat /\ cols (vterm v0) = 4%nat
    /\ match feed_chars v0 stale_text, run_session v0 stale_chunks with
       | Ok u, Ok (v1, _) =>
         active (vterm u) = Primary /\ length (lines (buf (vterm u))) = 6%nat
         /\ lines (buf (vterm u)) = lines (buf (vterm v1)) /\ holds_C12 u v1 = true
       | _, _ => False
       end
  | _ => False
  end.
Proof. vm_compute. repeat split. Qed.

Local Close Scope N_scope.
