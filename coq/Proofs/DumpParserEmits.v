(** Property C11, parser level: a compositional packaging of the results of DumpParser*.v.
    [emits s fs]: from any parser in ground state satisfying [PInv], the characters [s] are
    consumed without panic, the functions [fs] are dispatched in this order, and the parser is
    back in ground state (with [PInv]).  Closed under concatenation, so the output of
    [Terminal::dump] can be read off piece by piece. *)

From Avt Require Import Model.Parser Model.Dump Spec.Williams Proofs.Inv Proofs.ParserTable
  Proofs.ParserInv Proofs.ParserSim Proofs.DumpParser Proofs.DumpParserSgr Proofs.DumpParserPen.
Require Import Lia ZArith ZifyBool ZifyNat ZifyN.
Local Open Scope N_scope.

Definition emits (s : list N) (fs : list func) : Prop :=
  forall p, PInv p -> pst p = Ground ->
  exists p', runP p s = Ok (p', fs) /\ pst p' = Ground /\ PInv p'.

Lemma runP_app : forall p a b p1 f1 p2 f2,
  PInv p -> runP p a = Ok (p1, f1) -> runP p1 b = Ok (p2, f2) ->
  runP p (a ++ b) = Ok (p2, f1 ++ f2).
Proof.
  intros p a b p1 f1 p2 f2 HP R1 R2.
  rewrite runP_char in R1 by exact HP. injection R1 as <- <-.
  rewrite runP_char in R2 by (now apply run_step_inv). injection R2 as <- <-.
  rewrite runP_char by exact HP. now rewrite run_step_app, run_emit_app.
Qed.
Print Assumptions runP_app.

Lemma emits_nil : emits [] [].
Proof. intros p HP HG. exists p. auto. Qed.

Lemma emits_app a b fa fb : emits a fa -> emits b fb -> emits (a ++ b) (fa ++ fb).
Proof.
  intros Ha Hb p HP HG. destruct (Ha p HP HG) as (p1 & R1 & G1 & I1).
  destruct (Hb p1 I1 G1) as (p2 & R2 & G2 & I2). exists p2.
  split; [now apply (runP_app p a b p1 fa p2 fb)|auto].
Qed.

Lemma emits_cons_app c a fc fa : emits [c] fc -> emits a fa -> emits (c :: a) (fc ++ fa).
Proof. intros Hc Ha. now apply (emits_app [c] a). Qed.

Lemma emits_concat : forall (l : list (list N * list func)),
  Forall (fun x => emits (fst x) (snd x)) l ->
  emits (concat (map fst l)) (concat (map snd l)).
Proof.
  induction 1 as [|x l Hx Hl IH]; cbn [map concat]; [apply emits_nil|now apply emits_app].
Qed.

Lemma emits_flat_map {A} (g : A -> list N) (h : A -> list func) (l : list A) :
  (forall x, In x l -> emits (g x) (h x)) -> emits (flat_map g l) (flat_map h l).
Proof.
  induction l as [|x l IH]; intros H; cbn [flat_map]; [apply emits_nil|].
  apply emits_app; [apply H; now left|]. apply IH. intros y Hy. apply H. now right.
Qed.

(** ** the atoms *)

Lemma emits_print c : 32 <= c <= 127 \/ 160 <= c -> emits [c] [Print c].
Proof.
  intros Hc p HP HG. destruct (run_print p c HP HG Hc) as (p' & R & _ & H). exists p'. auto.
Qed.

Lemma emits_print_repeat c n : 32 <= c <= 127 \/ 160 <= c -> emits (repeat c n) (repeat (Print c) n).
Proof.
  intros Hc. induction n as [|n IH]; cbn [repeat]; [apply emits_nil|].
  apply (emits_cons_app c (repeat c n) [Print c]); [now apply emits_print|exact IH].
Qed.

Lemma emits_cr : emits [13] [Cr]. Proof. intros p HP HG. now apply run_cr. Qed.
Lemma emits_lf : emits [10] [Lf]. Proof. intros p HP HG. now apply run_lf. Qed.
Lemma emits_so : emits [14] [So]. Proof. intros p HP HG. now apply run_so. Qed.
Lemma emits_crlf : emits [13; 10] [Cr; Lf].
Proof. apply (emits_app [13] [10] [Cr] [Lf]); [apply emits_cr|apply emits_lf]. Qed.

Lemma emits_decsc : emits [27; 55] [Decsc]. Proof. intros p HP HG. now apply run_decsc. Qed.
Lemma emits_g0_drawing : emits [27; 40; 48] [Gzd4 CsDrawing]. Proof. intros p HP HG. now apply run_g0_drawing. Qed.
Lemma emits_g1_drawing : emits [27; 41; 48] [G1d4 CsDrawing]. Proof. intros p HP HG. now apply run_g1_drawing. Qed.

Lemma emits_ctc_clear_all : emits [155; 53; 87] [Ctc CtcClearAll]. Proof. intros p HP HG. now apply run_ctc_clear_all. Qed.
Lemma emits_ctc_set : emits [27; 91; 87] [Ctc CtcSet]. Proof. intros p HP HG. now apply run_ctc_set. Qed.
Lemma emits_sgr_reset : emits [27; 91; 109] [Sgr [Reset]]. Proof. intros p HP HG. now apply run_sgr_reset. Qed.
Lemma emits_scorc : emits [155; 117] [Scorc]. Proof. intros p HP HG. now apply run_scorc. Qed.
Lemma emits_cup_home : emits [155; 49; 59; 49; 72] [Cup 1 1]. Proof. intros p HP HG. now apply run_cup_home. Qed.

Lemma emits_decset_origin : emits [155; 63; 54; 104] [Decset [Origin]]. Proof. intros p HP HG. now apply run_decset_origin. Qed.
Lemma emits_decrst_origin : emits [155; 63; 54; 108] [Decrst [Origin]]. Proof. intros p HP HG. now apply run_decrst_origin. Qed.
Lemma emits_decset_awm : emits [155; 63; 55; 104] [Decset [AutoWrap]]. Proof. intros p HP HG. now apply run_decset_awm. Qed.
Lemma emits_decrst_awm : emits [155; 63; 55; 108] [Decrst [AutoWrap]]. Proof. intros p HP HG. now apply run_decrst_awm. Qed.
Lemma emits_decrst_cursor : emits [155; 63; 50; 53; 108] [Decrst [TextCursorEnable]]. Proof. intros p HP HG. now apply run_decrst_cursor. Qed.
Lemma emits_decset_ckm : emits [155; 63; 49; 104] [Decset [CursorKeys]]. Proof. intros p HP HG. now apply run_decset_ckm. Qed.
Lemma emits_decset_alt : emits [155; 63; 49; 48; 52; 55; 104] [Decset [AltScreenBuffer]]. Proof. intros p HP HG. now apply run_decset_alt. Qed.
Lemma emits_decrst_alt : emits [155; 63; 49; 48; 52; 55; 108] [Decrst [AltScreenBuffer]]. Proof. intros p HP HG. now apply run_decrst_alt. Qed.
Lemma emits_sm_insert : emits [155; 52; 104] [Sm [Insert]]. Proof. intros p HP HG. now apply run_sm_insert. Qed.
Lemma emits_sm_newline : emits [155; 50; 48; 104] [Sm [NewLine]]. Proof. intros p HP HG. now apply run_sm_newline. Qed.

Lemma emits_cup r c : r < 65536 -> c < 65536 ->
  emits (155 :: show_N r ++ [59] ++ show_N c ++ [72]) [Cup r c].
Proof. intros Hr Hc p HP HG. now apply run_cup. Qed.

Lemma emits_decstbm t b : t < 65536 -> b < 65536 ->
  emits (155 :: show_N t ++ [59] ++ show_N b ++ [114]) [Decstbm t b].
Proof. intros Ht Hb p HP HG. now apply run_decstbm. Qed.

Lemma emits_rep7 n : n < 65536 -> emits (27 :: 91 :: show_N n ++ [98]) [Rep n].
Proof. intros Hn p HP HG. now apply run_rep7. Qed.
Lemma emits_rep n : n < 65536 -> emits (155 :: show_N n ++ [98]) [Rep n].
Proof. intros Hn p HP HG. now apply run_rep. Qed.
Lemma emits_cha n : n < 65536 -> emits (155 :: show_N n ++ [96]) [Cha n].
Proof. intros Hn p HP HG. now apply run_cha. Qed.
Lemma emits_cuu n : n < 65536 -> emits (155 :: show_N n ++ [65]) [Cuu n].
Proof. intros Hn p HP HG. now apply run_cuu. Qed.
Lemma emits_cud n : n < 65536 -> emits (155 :: show_N n ++ [66]) [Cud n].
Proof. intros Hn p HP HG. now apply run_cud. Qed.
Lemma emits_cuf n : n < 65536 -> emits (155 :: show_N n ++ [67]) [Cuf n].
Proof. intros Hn p HP HG. now apply run_cuf. Qed.
Lemma emits_cub n : n < 65536 -> emits (155 :: show_N n ++ [68]) [Cub n].
Proof. intros Hn p HP HG. now apply run_cub. Qed.

Lemma emits_pen_dump pn : pen_colors_ok pn -> emits (pen_dump pn) [Sgr (pen_ops pn)].
Proof. intros HC p HP HG. now apply run_pen_dump_ops. Qed.

(** [Buffer::rep_encode_cell_text]'s flush of [count] copies of a printable character *)
Lemma emits_rep_flush c count :
  32 <= c <= 127 \/ 160 <= c -> N.of_nat count <= 65536 ->
  emits (rep_flush c count)
        (if (5 <? count)%nat then [Print c; Rep (N.of_nat (count - 1))] else repeat (Print c) count).
Proof.
  intros Hc Hn. unfold rep_flush. destruct (5 <? count)%nat eqn:E.
  - apply (emits_cons_app c _ [Print c] [Rep (N.of_nat (count - 1))]); [now apply emits_print|].
    cbn [app]. unfold show_nat. apply emits_rep7. apply Nat.ltb_lt in E. lia.
  - now apply emits_print_repeat.
Qed.
Print Assumptions emits_rep_flush.
Print Assumptions emits_pen_dump.
