(** The tie between the public constructors / accessors of the model (Model/Vt.v [vt_new], [vt_size], [vt_view],
    [vt_lines], [vt_line], [vt_text], [vt_cursor], [vt_ckm]; Gen/Resets.v [term_new_gen], [default_ctx]; Model/Parser.v
    [init_parser]; Model/Prims.v [buffer_new], [viewM], [get_row], [cell_is_default], [default_cell], [llen];
    Model/Dump.v [line_text], [term_text], [unwrap_all]) and the Gallina regenerated from the Rust source on every run
    (Gen/AccFns.v, by translate/acc2coq.py): one theorem [tie_T_f] per regenerated function [g_T_f].

    - [g .. = Ok (model ..)]   for the functions that cannot panic;
    - [g .. =~ modelM ..]      ([=~] of Proofs/BufTie.v: equality up to the panic SITE) where both can panic
                               ([Vt::view], [Vt::line(n)]: the model functions [viewM], [get_row] are partial too);
    - [g .. =~ okM c (model ..)]  where the model function is TOTAL and Rust panics unless [c]:
        [Terminal::new] / [Builder::build] / [Vt::new]: [1 <= rows] (the struct literal computes [rows - 1]; overflow
        panic in a debug build, [bottom_margin = usize::MAX] in a release build); [term_new_gen] uses the truncated
        subtraction.  Example [terminal_new_rows0].
    - [tie_cell_is_default] needs [attrs (cpen c) < 32]: Rust tests the five attribute bits one by one
      ([Pen::is_default], Gen/DumpFns.v [g_pen_is_default]), the model compares the whole pen with [default_pen];
      they differ on the three unused bits of the [u8] (never set by the crate: Proofs/PenInv.v [pen_wf]).
      Example [cell_is_default_bit5].
    No model counterpart exists for [Cell::width] (stated against [unwrap_or] of the abstracted [char::width] of the
    crate unicode_width), [Cell::new] / [from], the [Cursor] struct and its conversions ([vt_cursor] is a triple:
    [cursor_of]), [Builder] (a record of Gen/AccFns.v), [Param::new], [TextCollector::new / feed_str / resize]: the last
    two are stated, for ANY implementation of [Vt::feed_str] / [Vt::resize], against the composition with
    [unwrap_all] over the drained lines that Proofs/Collector.v [collect] uses, and instantiated with the model's
    [feed_str] / [stepM _ (Resize ..)].
    An edit of one of the Rust functions changes Gen/AccFns.v and breaks the corresponding proof here
    (tools/acctie_selftest.sh). *)

From Coq Require Import Lia ZArith ZifyBool ZifyNat ZifyN.
From Avt Require Import Model.Vt Proofs.ListLemmas Gen.BufFns Proofs.BufTie Gen.RestFns Proofs.ParserFnsTie Proofs.RestTie.
From Avt Require Import Gen.DumpFns Proofs.DumpTie.
From Avt Require Import Gen.AccFns.

Local Arguments Nat.sub : simpl never.
Local Arguments Nat.add : simpl never.
Local Arguments Nat.leb : simpl never.
Local Arguments Nat.ltb : simpl never.
Local Arguments Nat.eqb : simpl never.
Local Arguments N.to_nat : simpl never.
Local Arguments N.of_nat : simpl never.

(** * cell.rs *)

Theorem tie_cell_new c p : g_cell_new c p = Ok (mkCell c p).
Proof. reflexivity. Qed.
Print Assumptions tie_cell_new.

Theorem tie_cell_blank p : g_cell_blank p = Ok (blank_cell p).
Proof. reflexivity. Qed.
Print Assumptions tie_cell_blank.

Theorem tie_cell_is_default c : (attrs (cpen c) < 32)%N -> g_cell_is_default c = Ok (cell_is_default c).
Proof.
  intros H. unfold g_cell_is_default, cell_is_default. rewrite (tie_pen_is_default _ H). reflexivity.
Qed.
Print Assumptions tie_cell_is_default.

(** the side condition is needed: bit 5 of [attrs] is invisible to Rust's [Pen::is_default] *)
Example cell_is_default_bit5 :
  let c := mkCell 32 (mkPen None None Normal 32) in (g_cell_is_default c, cell_is_default c) = (Ok true, false).
Proof. vm_compute. reflexivity. Qed.

Theorem tie_cell_char c : g_cell_char c = Ok (ch c).
Proof. reflexivity. Qed.
Print Assumptions tie_cell_char.

Theorem tie_cell_pen c : g_cell_pen c = Ok (cpen c).
Proof. reflexivity. Qed.
Print Assumptions tie_cell_pen.

(** [char::width] (crate unicode_width) is a parameter; [Cell::width] is its value or 0 *)
Theorem tie_cell_width (width : N -> option nat) c :
  g_cell_width width c = Ok (match width (ch c) with Some n => n | None => 0 end).
Proof. reflexivity. Qed.
Print Assumptions tie_cell_width.

Theorem tie_cell_default : g_cell_default = Ok default_cell.
Proof. reflexivity. Qed.
Print Assumptions tie_cell_default.

Theorem tie_cell_from c : g_cell_from c = Ok (mkCell c default_pen).
Proof. unfold g_cell_from. rewrite tie_cell_new. reflexivity. Qed.
Print Assumptions tie_cell_from.

(** * line.rs *)

Theorem tie_line_is_empty l : g_line_is_empty l = Ok (llen l =? 0).
Proof. reflexivity. Qed.
Print Assumptions tie_line_is_empty.

Theorem tie_line_cells l : g_line_cells l = Ok (cells l).
Proof. reflexivity. Qed.
Print Assumptions tie_line_cells.

Lemma mapM_ok {A B} (F : A -> res B) (f : A -> B) : (forall x, F x = Ok (f x)) -> forall l, mapM F l = Ok (map f l).
Proof.
  intros HF. induction l as [|x r IH]; cbn [mapM map]; [reflexivity|]. rewrite HF, IH. reflexivity.
Qed.

Theorem tie_line_chars l : g_line_chars l = Ok (line_text l).
Proof.
  unfold g_line_chars, line_text. rewrite (mapM_ok g_cell_char ch) by (intros; apply tie_cell_char). reflexivity.
Qed.
Print Assumptions tie_line_chars.

Theorem tie_line_text l : g_line_text l = Ok (line_text l).
Proof. unfold g_line_text. rewrite tie_line_chars. reflexivity. Qed.
Print Assumptions tie_line_text.

(** * buffer.rs *)

Theorem tie_buffer_lines b : g_buffer_lines b = Ok (lines b).
Proof. reflexivity. Qed.
Print Assumptions tie_buffer_lines.

(** * parser.rs *)

Theorem tie_param_new n : g_param_new n = Ok (mkParam 0 (n :: repeat 0%N (Consts.MAX_PARAM_LEN - 1))).
Proof. reflexivity. Qed.
Print Assumptions tie_param_new.

Theorem tie_param_default : g_param_default = Ok default_param.
Proof. unfold g_param_default. rewrite tie_param_new. reflexivity. Qed.
Print Assumptions tie_param_default.

Theorem tie_parser_new : g_parser_new = Ok init_parser.
Proof. unfold g_parser_new. rewrite tie_param_default. reflexivity. Qed.
Print Assumptions tie_parser_new.

(** * terminal/cursor.rs *)

(** the model's [vt_cursor] is the triple (col, row, visible) *)
Definition cursor_of (x : nat * nat * bool) : cursor := mkCursor (fst (fst x)) (snd (fst x)) (snd x).

Theorem tie_cursor_default : g_cursor_default = Ok (cursor_of (0, 0, true)).
Proof. reflexivity. Qed.
Print Assumptions tie_cursor_default.

Theorem tie_cursor_option_from c :
  g_cursor_option_from c = Ok (if cu_visible c then Some (cu_col c, cu_row c) else None).
Proof. unfold g_cursor_option_from. destruct (cu_visible c); reflexivity. Qed.
Print Assumptions tie_cursor_option_from.

Theorem tie_cursor_eq c x y : g_cursor_eq c x y = Ok ((x =? cu_col c) && (y =? cu_row c)).
Proof. reflexivity. Qed.
Print Assumptions tie_cursor_eq.

(** * terminal.rs *)

Theorem tie_savedctx_default : g_savedctx_default = Ok default_ctx.
Proof. reflexivity. Qed.
Print Assumptions tie_savedctx_default.

Lemma limit_roundtrip (l : option N) : option_map N.of_nat (option_map N.to_nat l) = l.
Proof. destruct l; cbn [option_map]; rewrite ?N2Nat.id; reflexivity. Qed.

Lemma limit_roundtrip' (l : option nat) : option_map N.to_nat (option_map N.of_nat l) = l.
Proof. destruct l; cbn [option_map]; rewrite ?Nat2N.id; reflexivity. Qed.

(** [Terminal::new((cols, rows), limit)]: field by field the model's [term_new_gen] (Gen/Resets.v), provided
    [1 <= rows] ([bottom_margin: (rows - 1)]) *)
Theorem tie_terminal_new c r l :
  g_terminal_new c r (option_map N.to_nat l) =~ okM (1 <=? r) (term_new_gen c r l).
Proof.
  unfold g_terminal_new, okM.
  rewrite tie_buffer_new. cbn [bind].
  change (Some 0) with (option_map N.to_nat (Some 0%N)). rewrite tie_buffer_new. cbn [bind].
  rewrite tie_dirty_new, tie_tabs_new. cbn [bind].
  rewrite tie_cursor_default, tie_savedctx_default. cbn [bind cursor_of fst snd cu_col cu_row cu_visible].
  destruct (1 <=? r); cbn [guard bind same]; [|exact I].
  rewrite limit_roundtrip. reflexivity.
Qed.
Print Assumptions tie_terminal_new.

(** the side condition is needed: Rust panics (debug build) on [rows = 0], the model's constructor is total *)
Example terminal_new_rows0 :
  g_terminal_new 3 0 None = Panic 321 /\ bot (term_new_gen 3 0 None) = 0.
Proof. vm_compute. split; reflexivity. Qed.

Theorem tie_terminal_default : g_terminal_default = Ok (term_new_gen 80 24 None).
Proof.
  unfold g_terminal_default. cbn [fst snd].
  pose proof (tie_terminal_new 80 24 None) as H. cbn [option_map] in H.
  destruct (g_terminal_new 80 24 None) as [t|s]; cbn [bind].
  - change (t = term_new_gen 80 24 None) in H. subst. reflexivity.
  - change False in H. contradiction.
Qed.
Print Assumptions tie_terminal_default.

Theorem tie_terminal_cursor t : g_terminal_cursor t = Ok (cursor_of (cur_col t, cur_row t, cur_vis t)).
Proof. reflexivity. Qed.
Print Assumptions tie_terminal_cursor.

Theorem tie_terminal_view t : g_terminal_view t =~ viewM (buf t).
Proof.
  unfold g_terminal_view. pose proof (tie_buffer_view (buf t)) as H.
  destruct (g_buffer_view (buf t)), (viewM (buf t)); cbn in *; auto.
Qed.
Print Assumptions tie_terminal_view.

Theorem tie_terminal_lines t : g_terminal_lines t = Ok (lines (buf t)).
Proof. unfold g_terminal_lines. rewrite tie_buffer_lines. reflexivity. Qed.
Print Assumptions tie_terminal_lines.

(** [Terminal::line(n)] = [&self.buffer[n]] = [&self.view()[n]]: panics unless [n < rows] (and the buffer is well
    formed: [rows <= lines.len()]), exactly like the model's [get_row] *)
Theorem tie_terminal_line t n : g_terminal_line t n =~ get_row (buf t) n.
Proof.
  unfold g_terminal_line, get_row, view_ok, sb_len.
  set (ls := lines (buf t)). set (rs := brows (buf t)).
  destruct (rs <=? length ls) eqn:E1; cbn [guard bind andb]; [|exact I].
  assert (length ls - rs <=? length ls = true) as -> by lia. cbn [guard bind].
  assert ((n <? length ls - (length ls - rs)) = (n <? rs)) as -> by lia.
  destruct (n <? rs) eqn:E2; cbn [guard bind]; [|exact I].
  unfold nthM. destruct (nth_error ls (length ls - rs + n)); cbn; auto.
Qed.
Print Assumptions tie_terminal_line.

Theorem tie_terminal_text t : g_terminal_text t = Ok (term_text t).
Proof.
  unfold g_terminal_text, term_text. cbn zeta. rewrite tie_primary_buffer, tie_buffer_text. reflexivity.
Qed.
Print Assumptions tie_terminal_text.

Theorem tie_terminal_cursor_keys_app_mode t : g_terminal_cursor_keys_app_mode t = Ok (ckm t).
Proof. unfold g_terminal_cursor_keys_app_mode. destruct (ckm t); reflexivity. Qed.
Print Assumptions tie_terminal_cursor_keys_app_mode.

(** * vt.rs *)

Theorem tie_builder_default : g_builder_default = Ok (mkBuilder (80, 24) None).
Proof. reflexivity. Qed.
Print Assumptions tie_builder_default.

Theorem tie_builder_size b c r : g_builder_size b c r = Ok (mkBuilder (c, r) (b_scrollback_limit b)).
Proof. reflexivity. Qed.
Print Assumptions tie_builder_size.

Theorem tie_builder_scrollback_limit b n : g_builder_scrollback_limit b n = Ok (mkBuilder (b_size b) (Some n)).
Proof. reflexivity. Qed.
Print Assumptions tie_builder_scrollback_limit.

Theorem tie_builder_build b :
  g_builder_build b =~ okM (1 <=? snd (b_size b))
                           (vt_new (fst (b_size b)) (snd (b_size b)) (option_map N.of_nat (b_scrollback_limit b))).
Proof.
  unfold g_builder_build, vt_new. rewrite tie_parser_new. cbn [bind].
  pose proof (tie_terminal_new (fst (b_size b)) (snd (b_size b)) (option_map N.of_nat (b_scrollback_limit b))) as H.
  rewrite limit_roundtrip' in H. unfold okM in *.
  destruct (g_terminal_new _ _ _) as [t|s], (1 <=? snd (b_size b)); cbn in *; subst; auto.
Qed.
Print Assumptions tie_builder_build.

Theorem tie_vt_builder : g_vt_builder = Ok (mkBuilder (80, 24) None).
Proof. unfold g_vt_builder. rewrite tie_builder_default. reflexivity. Qed.
Print Assumptions tie_vt_builder.

(** [Vt::new(cols, rows)] = the builder's default with the size replaced, no scrollback limit *)
Theorem tie_vt_new c r : g_vt_new c r =~ okM (1 <=? r) (vt_new c r None).
Proof.
  unfold g_vt_new. rewrite tie_vt_builder. cbn [bind]. rewrite tie_builder_size. cbn [bind b_scrollback_limit].
  pose proof (tie_builder_build (mkBuilder (c, r) None)) as H. cbn [b_size b_scrollback_limit fst snd option_map] in H.
  destruct (g_builder_build _) as [v|s]; cbn [bind]; exact H.
Qed.
Print Assumptions tie_vt_new.

Theorem tie_vt_size v : g_vt_size v = Ok (vt_size v).
Proof. reflexivity. Qed.
Print Assumptions tie_vt_size.

Theorem tie_vt_view v : g_vt_view v =~ vt_view v.
Proof.
  unfold g_vt_view, vt_view. pose proof (tie_terminal_view (vterm v)) as H.
  destruct (g_terminal_view (vterm v)), (viewM (buf (vterm v))); cbn in *; auto.
Qed.
Print Assumptions tie_vt_view.

Theorem tie_vt_lines v : g_vt_lines v = Ok (vt_lines v).
Proof. unfold g_vt_lines, vt_lines. rewrite tie_terminal_lines. reflexivity. Qed.
Print Assumptions tie_vt_lines.

Theorem tie_vt_line v n : g_vt_line v n =~ vt_line v n.
Proof.
  unfold g_vt_line, vt_line. pose proof (tie_terminal_line (vterm v) n) as H.
  destruct (g_terminal_line (vterm v) n), (get_row (buf (vterm v)) n); cbn in *; auto.
Qed.
Print Assumptions tie_vt_line.

(** [Vt::line(n)] panics for [n >= rows] (no side condition: so does the model's [vt_line]) *)
Example vt_line_out_of_range :
  (g_vt_line (vt_new 2 2 None) 1, g_vt_line (vt_new 2 2 None) 2, vt_line (vt_new 2 2 None) 2)
  = (Ok (blank_line 2 default_pen), Panic 326, Panic 32).
Proof. vm_compute. reflexivity. Qed.

Theorem tie_vt_text v : g_vt_text v = Ok (vt_text v).
Proof. unfold g_vt_text, vt_text. rewrite tie_terminal_text. reflexivity. Qed.
Print Assumptions tie_vt_text.

(** [Vt::cursor] returns the [Cursor] struct as stored: no clamping of a wrap-pending column ([col = cols] is visible
    to the caller after a print in the last column) *)
Theorem tie_vt_cursor v : g_vt_cursor v = Ok (cursor_of (vt_cursor v)).
Proof. unfold g_vt_cursor, vt_cursor. rewrite tie_terminal_cursor. reflexivity. Qed.
Print Assumptions tie_vt_cursor.

Theorem tie_vt_cursor_key_app_mode v : g_vt_cursor_key_app_mode v = Ok (vt_ckm v).
Proof.
  unfold g_vt_cursor_key_app_mode, vt_ckm. rewrite tie_terminal_cursor_keys_app_mode. reflexivity.
Qed.
Print Assumptions tie_vt_cursor_key_app_mode.

(** * util.rs *)

Theorem tie_unwrapper_new : g_unwrapper_new = Ok [].
Proof. reflexivity. Qed.
Print Assumptions tie_unwrapper_new.

Theorem tie_collector_new v : g_collector_new v = Ok (v, []).
Proof. unfold g_collector_new. rewrite tie_unwrapper_new. reflexivity. Qed.
Print Assumptions tie_collector_new.

(** pushing the drained lines through the unwrapper field of the collector *)
Lemma collector_push_all {V} (F : V * list N -> line -> res ((V * list N) * option (list N))) :
  (forall v st l, F (v, st) l = Ok ((v, fst (unwrap_push st l)), snd (unwrap_push st l))) ->
  forall ls v st, filter_mapM F ls (v, st) = Ok ((v, fst (unwrap_all st ls)), snd (unwrap_all st ls)).
Proof.
  intros HF. induction ls as [|l r IH]; intros v st; cbn [filter_mapM unwrap_all]; [reflexivity|].
  rewrite HF. cbn [bind]. destruct (unwrap_push st l) as [st' o]. cbn [fst snd].
  rewrite IH. cbn [bind]. destruct (unwrap_all st' r) as [st'' out]. reflexivity.
Qed.

(** what [TextCollector::feed_str] / [resize] do with the [Changes] of the [Vt] call: the new collector and the
    completed logical lines (the iterator, consumed completely) *)
Definition collector_step (st : list N) (x : vt * out) : (vt * list N) * list (list N) :=
  ((fst x, fst (unwrap_all st (o_drained (snd x)))), snd (unwrap_all st (o_drained (snd x)))).

Theorem tie_collector_feed_str (vt_feed_str : vt -> list N -> res (vt * out)) v st s :
  g_collector_feed_str vt_feed_str (v, st) s = (x <- vt_feed_str v s ;; Ok (collector_step st x)).
Proof.
  unfold g_collector_feed_str, collector_step. cbn [fst snd].
  destruct (vt_feed_str v s) as [[v' o]|site]; cbn [bind fst snd]; [|reflexivity].
  rewrite collector_push_all
    by (intros; cbn beta; cbn [fst snd]; rewrite tie_unwrapper_push; cbn [bind]; destruct (unwrap_push _ _); reflexivity).
  reflexivity.
Qed.
Print Assumptions tie_collector_feed_str.

Theorem tie_collector_resize (vt_resize : vt -> nat -> nat -> res (vt * out)) v st c r :
  g_collector_resize vt_resize (v, st) c r = (x <- vt_resize v (N.to_nat c) (N.to_nat r) ;; Ok (collector_step st x)).
Proof.
  unfold g_collector_resize, collector_step. cbn [fst snd].
  destruct (vt_resize v (N.to_nat c) (N.to_nat r)) as [[v' o]|site]; cbn [bind fst snd]; [|reflexivity].
  rewrite collector_push_all
    by (intros; cbn beta; cbn [fst snd]; rewrite tie_unwrapper_push; cbn [bind]; destruct (unwrap_push _ _); reflexivity).
  reflexivity.
Qed.
Print Assumptions tie_collector_resize.

(** with the model's [Vt::feed_str] / [Vt::resize] *)
Corollary tie_collector_feed_str_model v st s :
  g_collector_feed_str feed_str (v, st) s = (x <- feed_str v s ;; Ok (collector_step st x)).
Proof. apply tie_collector_feed_str. Qed.
Print Assumptions tie_collector_feed_str_model.

Corollary tie_collector_resize_model v st c r :
  g_collector_resize (fun v c r => stepM v (Resize c r)) (v, st) c r
  = (x <- stepM v (Resize (N.to_nat c) (N.to_nat r)) ;; Ok (collector_step st x)).
Proof. apply tie_collector_resize. Qed.
Print Assumptions tie_collector_resize_model.

(** a session of the collector on the constructors of this file: [Vt::builder().size(4, 2).scrollback_limit(0).build()],
    [TextCollector::new], [feed_str "ab\r\ncdefgh\r\nx"], then [flush] (Gen/RestFns.v) *)
Example collector_session :
  (b <- g_vt_builder ;; b <- g_builder_size b 4 2 ;; b <- g_builder_scrollback_limit b 0 ;; v <- g_builder_build b ;;
   tc <- g_collector_new v ;;
   '(tc, l1) <- g_collector_feed_str feed_str tc [97; 98; 13; 10; 99; 100; 101; 102; 103; 104; 13; 10; 120]%N ;;
   l2 <- g_collector_flush 20 tc ;; Ok (l1, l2))
  = Ok ([[97; 98]]%N, [[99; 100; 101; 102; 103; 104]; [120]]%N).
Proof. vm_compute. reflexivity. Qed.
