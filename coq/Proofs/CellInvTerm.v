(** Cell-wise invariants at the terminal level, generic in the predicates.

    [Cc] is a predicate on characters, [Pp] one on pens, [Q] one on cells such that a cell
    built from a good character and a good pen is good.  [GInv t] says: the current pen and
    the pens of both saved contexts satisfy [Pp], all cells of both buffers satisfy [Q].
    [execute] preserves [GInv] for every function whose payload is good ([fokG]); no other
    invariant of the terminal is needed (all statements are about successful runs). *)

From Avt Require Import Model.Vt Oracles.Step Proofs.ListLemmas Proofs.Frames Proofs.CellInv.
From Coq Require Import Lia.

Section TermQ.
  Variable Q : cell -> Prop.
  Variable Cc : N -> Prop.
  Variable Pp : pen -> Prop.
  Variable OpOk : sgr_op -> Prop.
  Hypothesis Q_mk : forall c p, Cc c -> Pp p -> Q (mkCell c p).
  Hypothesis Q_ch : forall c, Q c -> Cc (ch c).
  Hypothesis Cc_32 : Cc 32%N.
  Hypothesis Cc_69 : Cc 69%N.
  Hypothesis Cc_translate : forall cs c c', Cc c -> translate cs c = Ok c' -> Cc c'.
  Hypothesis Pp_default : Pp default_pen.
  Hypothesis Pp_sgr : forall p op, Pp p -> OpOk op -> Pp (sgr_one p op).

  Definition GInv (t : term) : Prop :=
    Pp (tpen t) /\ lsQ Q (lines (buf t)) /\ lsQ Q (lines (other t))
    /\ Pp (sc_pen (sctx t)) /\ Pp (sc_pen (asctx t)).

  Definition fokG (f : func) : Prop :=
    match f with
    | Sgr ops => Forall OpOk ops
    | Print c => Cc c
    | _ => True
    end.

  Lemma Q_blank p : Pp p -> Q (blank_cell p).
  Proof. intros H. apply Q_mk; [exact Cc_32|exact H]. Qed.

  Lemma Q_default : Q default_cell.
  Proof. apply Q_blank, Pp_default. Qed.

  (** the part of the state [GInv] looks at *)
  Definition pv (t : term) :=
    (tpen t, lines (buf t), lines (other t), sc_pen (sctx t), sc_pen (asctx t)).

  Lemma GInv_pv t t' : pv t' = pv t -> GInv t -> GInv t'.
  Proof.
    unfold pv, GInv. intros E. injection E as -> -> -> -> ->. auto.
  Qed.

  Lemma pv_tfr t t' : tfr t t' -> buf t' = buf t -> pv t' = pv t.
  Proof.
    intros F B. unfold pv.
    rewrite (tfr_tpen _ _ F), (tfr_other _ _ F), (tfr_sctx _ _ F), (tfr_asctx _ _ F), B.
    reflexivity.
  Qed.

  Lemma GInv_tfr t t' : tfr t t' -> lsQ Q (lines (buf t')) -> GInv t -> GInv t'.
  Proof.
    intros F B (H1 & H2 & H3 & H4 & H5). unfold GInv.
    rewrite (tfr_tpen _ _ F), (tfr_other _ _ F), (tfr_sctx _ _ F), (tfr_asctx _ _ F).
    repeat split; assumption.
  Qed.

  Lemma GInv_cfr t t' : cfr t t' -> GInv t -> GInv t'.
  Proof. intros (F & B & _). apply GInv_pv. apply pv_tfr; assumption. Qed.

  Lemma G_buf t : GInv t -> lsQ Q (lines (buf t)).
  Proof. intros H; apply H. Qed.

  Lemma G_pen t : GInv t -> Pp (tpen t).
  Proof. intros H; apply H. Qed.

  Lemma G_blank t : GInv t -> Q (blank_cell (tpen t)).
  Proof. intros H. apply Q_blank, G_pen, H. Qed.

  Lemma G_on_buf t f t' :
    GInv t -> on_buf t f = Ok t' ->
    (forall b', f (buf t) = Ok b' -> lsQ Q (lines b')) -> GInv t'.
  Proof.
    intros G E Hf. pose proof (tfr_on_buf _ _ _ E) as F.
    apply on_buf_inv in E as (b & Eb & ->).
    apply (GInv_tfr _ _ F); [|exact G].
    replace (buf (t <| buf := b |>)) with b by (destruct t; reflexivity). exact (Hf _ Eb).
  Qed.

  Lemma G_mark t n t' : GInv t -> mark t n = Ok t' -> GInv t'.
  Proof.
    intros G E. apply (GInv_pv t); [|exact G].
    apply pv_tfr; [exact (tfr_mark _ _ _ E)|exact (buf_mark _ _ _ E)].
  Qed.

  Lemma G_mark_range t a z t' : GInv t -> mark_range t a z = Ok t' -> GInv t'.
  Proof.
    intros G E. apply (GInv_pv t); [|exact G].
    apply pv_tfr; [exact (tfr_mark_range _ _ _ _ E)|exact (buf_mark_range _ _ _ _ E)].
  Qed.

  (** on_buf followed by a mark *)
  Lemma G_on_buf_mark t f n t' :
    GInv t -> (t1 <- on_buf t f ;; mark t1 (n t1)) = Ok t' ->
    (forall b', f (buf t) = Ok b' -> lsQ Q (lines b')) -> GInv t'.
  Proof.
    intros G E Hf. apply bind_ok in E as (t1 & E1 & E).
    eapply G_mark; [|exact E]. eapply G_on_buf; eassumption.
  Qed.

  Lemma G_on_buf_mark_range t f a z t' :
    GInv t -> (t1 <- on_buf t f ;; mark_range t1 (a t1) (z t1)) = Ok t' ->
    (forall b', f (buf t) = Ok b' -> lsQ Q (lines b')) -> GInv t'.
  Proof.
    intros G E Hf. apply bind_ok in E as (t1 & E1 & E).
    eapply G_mark_range; [|exact E]. eapply G_on_buf; eassumption.
  Qed.

  Lemma G_scroll_up t n t' : GInv t -> scroll_up_in_region t n = Ok t' -> GInv t'.
  Proof.
    intros G E. unfold scroll_up_in_region in E.
    apply (G_on_buf_mark_range t _ (fun _ => top t) (fun _ => bot t + 1) _ G E).
    intros b'. apply buf_scroll_up_Q; [exact (G_blank _ G)|exact (G_buf _ G)].
  Qed.

  Lemma G_scroll_down t n t' : GInv t -> scroll_down_in_region t n = Ok t' -> GInv t'.
  Proof.
    intros G E. unfold scroll_down_in_region in E.
    apply (G_on_buf_mark_range t _ (fun _ => top t) (fun _ => bot t + 1) _ G E).
    intros b'. apply buf_scroll_down_Q; [exact (G_blank _ G)|exact (G_buf _ G)].
  Qed.

  Lemma G_down_with_scroll t t' : GInv t -> move_cursor_down_with_scroll t = Ok t' -> GInv t'.
  Proof.
    intros G E. unfold move_cursor_down_with_scroll in E.
    destruct (cur_row t =? bot t); [exact (G_scroll_up _ _ _ G E)|].
    destruct (cur_row t <? rows t - 1); apply Ok_inj in E; subst t'; [|exact G].
    exact (GInv_cfr _ _ (cfr_row _ _) G).
  Qed.

  Lemma G_col t c : GInv t -> GInv (do_move_cursor_to_col t c).
  Proof. apply GInv_cfr, cfr_col. Qed.

  Lemma G_row t r : GInv t -> GInv (do_move_cursor_to_row t r).
  Proof. apply GInv_cfr, cfr_row. Qed.

  Lemma G_set_pend t b : GInv t -> GInv (t <| pend := b |>).
  Proof. apply GInv_pv. destruct t; reflexivity. Qed.

  Lemma G_wrap t r t' : GInv t -> on_buf t (fun b => buf_wrap b r) = Ok t' -> GInv t'.
  Proof.
    intros G E. eapply G_on_buf; [exact G|exact E|]. intros b'. apply buf_wrap_Q, G_buf, G.
  Qed.

  Lemma G_print_cell t col row cl t' :
    GInv t -> Q cl -> on_buf t (fun b => buf_print b col row cl) = Ok t' -> GInv t'.
  Proof.
    intros G Hc E. eapply G_on_buf; [exact G|exact E|]. intros b'.
    apply buf_print_Q; [exact Hc|exact (G_buf _ G)].
  Qed.

  Lemma G_insert_cell t col row n cl t' :
    GInv t -> Q cl -> on_buf t (fun b => buf_insert b col row n cl) = Ok t' -> GInv t'.
  Proof.
    intros G Hc E. eapply G_on_buf; [exact G|exact E|]. intros b'.
    apply buf_insert_Q; [exact Hc|exact (G_buf _ G)].
  Qed.

  Lemma G_print t c t' : GInv t -> Cc c -> print t c = Ok t' -> GInv t'.
  Proof.
    intros G Hc E. unfold print in E.
    apply bind_ok in E as (cs & _ & E). apply bind_ok in E as (c' & Et & E).
    assert (Hcl : Q (mkCell c' (tpen t))).
    { apply Q_mk; [exact (Cc_translate _ _ _ Hc Et)|exact (G_pen _ G)]. }
    set (cl := mkCell c' (tpen t)) in *. clearbody cl.
    apply bind_ok in E as (t1 & E1 & E). apply bind_ok in E as (t2 & E2 & E).
    assert (G1 : GInv t1).
    { destruct (awm t && pend t); [|apply Ok_inj in E1; subst t1; exact G].
      pose proof (G_col t 0 G) as G0. set (t0 := do_move_cursor_to_col t 0) in *. clearbody t0.
      destruct (cur_row t0 =? bot t0).
      - apply bind_ok in E1 as (ta & Ea & E1).
        exact (G_scroll_up _ _ _ (G_wrap _ _ _ G0 Ea) E1).
      - destruct (cur_row t0 <? rows t0 - 1).
        + apply bind_ok in E1 as (ta & Ea & E1). apply Ok_inj in E1. subst t1.
          apply G_row. exact (G_wrap _ _ _ G0 Ea).
        + apply Ok_inj in E1. subst t1. exact G0. }
    assert (G2 : GInv t2).
    { destruct (cols t1 <=? cur_col t1 + 1).
      - apply bind_ok in E2 as (ta & Ea & E2).
        pose proof (G_print_cell _ _ _ _ _ G1 Hcl Ea) as Ga.
        destruct (awm ta); apply Ok_inj in E2; subst t2; [|exact Ga].
        apply G_set_pend, G_col, Ga.
      - apply bind_ok in E2 as (ta & Ea & E2). apply Ok_inj in E2. subst t2. apply G_col.
        destruct (ins t1); [exact (G_insert_cell _ _ _ _ _ _ G1 Hcl Ea)
                           |exact (G_print_cell _ _ _ _ _ G1 Hcl Ea)]. }
    exact (G_mark _ _ _ G2 E).
  Qed.

  Lemma G_print_n n : forall t c t', GInv t -> Cc c -> print_n n t c = Ok t' -> GInv t'.
  Proof.
    induction n as [|n IH]; intros t c t' G Hc E; cbn [print_n] in E.
    - apply Ok_inj in E. subst t'. exact G.
    - apply bind_ok in E as (t1 & E1 & E). exact (IH _ _ _ (G_print _ _ _ G Hc E1) Hc E).
  Qed.

  Lemma G_rep t n t' : GInv t -> rep t n = Ok t' -> GInv t'.
  Proof.
    intros G E. unfold rep in E.
    destruct (0 <? cur_col t); [|apply Ok_inj in E; subst t'; exact G].
    apply bind_ok in E as (l & El & E).
    destruct (nth_error (cells l) (cur_col t - 1)) as [c|] eqn:En; [|discriminate].
    refine (G_print_n _ _ _ _ G _ E). apply Q_ch.
    eapply Forall_nth_error; [|exact En]. exact (get_row_Q Q _ _ _ (G_buf _ G) El).
  Qed.

  Lemma G_decaln_rows n : forall t row t', GInv t -> decaln_rows t n row = Ok t' -> GInv t'.
  Proof.
    induction n as [|n IH]; intros t row t' G E; cbn [decaln_rows] in E.
    - apply Ok_inj in E. subst t'. exact G.
    - apply bind_ok in E as (t1 & E1 & E). apply bind_ok in E as (t2 & E2 & E).
      refine (IH _ _ _ (G_mark _ _ _ _ E2) E).
      eapply G_on_buf; [exact G|exact E1|]. intros b'.
      apply decaln_cols_Q; [|exact (G_buf _ G)]. apply Q_mk; [exact Cc_69|exact Pp_default].
  Qed.

  Lemma G_erase t m n t' :
    GInv t ->
    (t1 <- on_buf t (fun b => buf_erase b (cur_col t) (cur_row t) m (tpen t)) ;; mark t1 (n t1)) = Ok t' ->
    GInv t'.
  Proof.
    intros G E. apply (G_on_buf_mark t _ n _ G E).
    intros b'. apply buf_erase_Q; [exact (G_blank _ G)|exact (G_buf _ G)].
  Qed.

  Lemma G_erase_range t m a z t' :
    GInv t ->
    (t1 <- on_buf t (fun b => buf_erase b (cur_col t) (cur_row t) m (tpen t)) ;;
     mark_range t1 (a t1) (z t1)) = Ok t' ->
    GInv t'.
  Proof.
    intros G E. apply (G_on_buf_mark_range t _ a z _ G E).
    intros b'. apply buf_erase_Q; [exact (G_blank _ G)|exact (G_buf _ G)].
  Qed.

  (** * buffer switches, reflow, resize *)

  Lemma G_save t : GInv t -> GInv (save_cursor t).
  Proof.
    intros (H1 & H2 & H3 & H4 & H5). unfold GInv.
    replace (tpen (save_cursor t)) with (tpen t) by (destruct t; reflexivity).
    replace (buf (save_cursor t)) with (buf t) by (destruct t; reflexivity).
    replace (other (save_cursor t)) with (other t) by (destruct t; reflexivity).
    replace (sc_pen (sctx (save_cursor t))) with (tpen t) by (destruct t; reflexivity).
    replace (asctx (save_cursor t)) with (asctx t) by (destruct t; reflexivity).
    repeat split; assumption.
  Qed.

  Lemma G_restore t : GInv t -> GInv (restore_cursor t).
  Proof.
    intros (H1 & H2 & H3 & H4 & H5). unfold GInv.
    replace (tpen (restore_cursor t)) with (sc_pen (sctx t)) by (destruct t; reflexivity).
    replace (buf (restore_cursor t)) with (buf t) by (destruct t; reflexivity).
    replace (other (restore_cursor t)) with (other t) by (destruct t; reflexivity).
    replace (sctx (restore_cursor t)) with (sctx t) by (destruct t; reflexivity).
    replace (asctx (restore_cursor t)) with (asctx t) by (destruct t; reflexivity).
    repeat split; assumption.
  Qed.

  Lemma G_to_alt t d : GInv t -> GInv (to_alt t d).
  Proof.
    intros (H1 & H2 & H3 & H4 & H5). unfold GInv.
    replace (tpen (to_alt t d)) with (tpen t) by (destruct t; reflexivity).
    replace (buf (to_alt t d)) with (buffer_new (cols t) (rows t) (Some 0%N) (Some (tpen t)))
      by (destruct t; reflexivity).
    replace (other (to_alt t d)) with (buf t) by (destruct t; reflexivity).
    replace (sctx (to_alt t d)) with (asctx t) by (destruct t; reflexivity).
    replace (asctx (to_alt t d)) with (sctx t) by (destruct t; reflexivity).
    repeat split; try assumption. apply buffer_new_Q. apply Q_blank. exact H1.
  Qed.

  Lemma G_to_prim t d : GInv t -> GInv (to_prim t d).
  Proof.
    intros (H1 & H2 & H3 & H4 & H5). unfold GInv.
    replace (tpen (to_prim t d)) with (tpen t) by (destruct t; reflexivity).
    replace (buf (to_prim t d)) with (other t) by (destruct t; reflexivity).
    replace (other (to_prim t d)) with (buf t) by (destruct t; reflexivity).
    replace (sctx (to_prim t d)) with (asctx t) by (destruct t; reflexivity).
    replace (asctx (to_prim t d)) with (sctx t) by (destruct t; reflexivity).
    repeat split; assumption.
  Qed.

  Lemma G_switch_alt t t' : GInv t -> switch_to_alternate_buffer t = Ok t' -> GInv t'.
  Proof.
    intros G E. apply switch_alt_inv in E as [[_ ->]|[_ [d ->]]]; [exact G|apply G_to_alt, G].
  Qed.

  Lemma G_switch_prim t t' : GInv t -> switch_to_primary_buffer t = Ok t' -> GInv t'.
  Proof.
    intros G E. apply switch_prim_inv in E as [[_ ->]|[_ [d ->]]]; [exact G|apply G_to_prim, G].
  Qed.

  Lemma G_reflow t t' : GInv t -> reflow t = Ok t' -> GInv t'.
  Proof.
    intros G E.
    apply reflow_inv in E as (b & c & r & d & Eb & ->).
    destruct G as (H1 & H2 & H3 & H4 & H5). unfold GInv.
    rewrite reflowed_buf, reflowed_sctx.
    replace (tpen (reflowed t b c r d)) with (tpen t) by (destruct t; reflexivity).
    replace (other (reflowed t b c r d)) with (other t) by (destruct t; reflexivity).
    replace (asctx (reflowed t b c r d)) with (asctx t) by (destruct t; reflexivity).
    replace (sc_pen (clamp_ctx (sctx t) (cols t) (rows t))) with (sc_pen (sctx t))
      by (destruct (sctx t); reflexivity).
    repeat split; try assumption.
    eapply buf_resize_Q; [exact Q_default|exact H2|exact Eb].
  Qed.

  Theorem G_term_resize t c r t' : GInv t -> term_resize t c r = Ok t' -> GInv t'.
  Proof.
    intros G E. rewrite term_resize_eq in E. refine (G_reflow _ _ _ E).
    revert G. apply GInv_pv. destruct t; reflexivity.
  Qed.

  Lemma G_home t : GInv t -> GInv (move_cursor_home t).
  Proof. apply GInv_cfr, cfr_home. Qed.

  Lemma G_decset_one t m t' : GInv t -> decset_one t m = Ok t' -> GInv t'.
  Proof.
    intros G E. revert E. destruct m; cbn [decset_one]; intros E.
    - apply Ok_inj in E. subst t'. revert G. apply GInv_pv. destruct t; reflexivity.
    - apply Ok_inj in E. subst t'. apply G_home. revert G. apply GInv_pv. destruct t; reflexivity.
    - apply Ok_inj in E. subst t'. revert G. apply GInv_pv. destruct t; reflexivity.
    - apply Ok_inj in E. subst t'. revert G. apply GInv_pv. destruct t; reflexivity.
    - apply bind_ok in E as (t1 & E1 & E). exact (G_reflow _ _ (G_switch_alt _ _ G E1) E).
    - apply Ok_inj in E. subst t'. apply G_save, G.
    - apply bind_ok in E as (t1 & E1 & E).
      exact (G_reflow _ _ (G_switch_alt _ _ (G_save _ G) E1) E).
  Qed.

  Lemma G_decrst_one t m t' : GInv t -> decrst_one t m = Ok t' -> GInv t'.
  Proof.
    intros G E. revert E. destruct m; cbn [decrst_one]; intros E.
    - apply Ok_inj in E. subst t'. revert G. apply GInv_pv. destruct t; reflexivity.
    - apply Ok_inj in E. subst t'. apply G_home. revert G. apply GInv_pv. destruct t; reflexivity.
    - apply Ok_inj in E. subst t'. revert G. apply GInv_pv. destruct t; reflexivity.
    - apply Ok_inj in E. subst t'. revert G. apply GInv_pv. destruct t; reflexivity.
    - apply bind_ok in E as (t1 & E1 & E). exact (G_reflow _ _ (G_switch_prim _ _ G E1) E).
    - apply Ok_inj in E. subst t'. apply G_restore, G.
    - apply bind_ok in E as (t1 & E1 & E).
      exact (G_reflow _ _ (G_restore _ (G_switch_prim _ _ G E1)) E).
  Qed.

  Lemma G_soft_reset t : GInv t -> GInv (soft_reset_gen t).
  Proof.
    intros (H1 & H2 & H3 & H4 & H5). unfold GInv.
    replace (tpen (soft_reset_gen t)) with default_pen by (destruct t; reflexivity).
    replace (buf (soft_reset_gen t)) with (buf t) by (destruct t; reflexivity).
    replace (other (soft_reset_gen t)) with (other t) by (destruct t; reflexivity).
    replace (sctx (soft_reset_gen t)) with default_ctx by (destruct t; reflexivity).
    replace (asctx (soft_reset_gen t)) with (asctx t) by (destruct t; reflexivity).
    repeat split; assumption.
  Qed.

  Lemma G_hard_reset t : GInv (hard_reset_gen t).
  Proof.
    unfold GInv.
    replace (tpen (hard_reset_gen t)) with default_pen by (destruct t; reflexivity).
    replace (buf (hard_reset_gen t)) with (buffer_new (cols t) (rows t) (sb_limit t) None)
      by (destruct t; reflexivity).
    replace (other (hard_reset_gen t)) with (buffer_new (cols t) (rows t) (Some 0%N) None)
      by (destruct t; reflexivity).
    replace (sctx (hard_reset_gen t)) with default_ctx by (destruct t; reflexivity).
    replace (asctx (hard_reset_gen t)) with default_ctx by (destruct t; reflexivity).
    repeat split; try exact Pp_default; apply buffer_new_Q; exact Q_default.
  Qed.

  Theorem G_term_new c r l : GInv (term_new_gen c r l).
  Proof.
    unfold GInv, term_new_gen. cbn [tpen buf other sctx asctx sc_pen default_ctx].
    repeat split; try exact Pp_default; apply buffer_new_Q; exact Q_default.
  Qed.

  Lemma G_sgr t ops : GInv t -> Forall OpOk ops -> GInv (sgr t ops).
  Proof.
    intros (H1 & H2 & H3 & H4 & H5) Ho. unfold GInv.
    replace (tpen (sgr t ops)) with (fold_left sgr_one ops (tpen t)) by (destruct t; reflexivity).
    replace (buf (sgr t ops)) with (buf t) by (destruct t; reflexivity).
    replace (other (sgr t ops)) with (other t) by (destruct t; reflexivity).
    replace (sctx (sgr t ops)) with (sctx t) by (destruct t; reflexivity).
    replace (asctx (sgr t ops)) with (asctx t) by (destruct t; reflexivity).
    repeat split; try assumption.
    clear H2 H3 H4 H5. revert H1. generalize (tpen t). induction Ho as [|op ops Hop Ho IH]; intros p Hp.
    - exact Hp.
    - cbn [fold_left]. apply IH. apply Pp_sgr; assumption.
  Qed.

  Lemma G_xtwinops t op t' : GInv t -> xtwinops t op = Ok t' -> GInv t'.
  Proof.
    intros G E. unfold xtwinops in E. destruct (xtw t); [|apply Ok_inj in E; subst t'; exact G].
    destruct op as [c r]. exact (G_term_resize _ _ _ _ G E).
  Qed.

  (** * [execute] *)

  Theorem G_execute t f t' : GInv t -> fokG f -> execute t f = Ok t' -> GInv t'.
  Proof.
    intros G Hf E. destruct (is_cursor_fn f) eqn:Ecf.
    { exact (GInv_cfr _ _ (exec_cursor_cfr _ _ _ Ecf E) G). }
    destruct f; try discriminate Ecf; clear Ecf; cbn [execute] in E; cbn [fokG] in Hf.
    - (* Ctc *) apply Ok_inj in E. subst t'. revert G. apply GInv_pv.
      destruct op; cbn [ctc]; unfold set_tab, clear_tab, clear_all_tabs;
        repeat match goal with |- context [if ?c then _ else _] => destruct c end;
        destruct t; reflexivity.
    - (* Dch *) unfold dch in E.
      set (t0 := if cols t <=? cur_col t then move_cursor_to_col t (cols t - 1) else t) in *.
      assert (G0 : GInv t0).
      { subst t0. destruct (cols t <=? cur_col t); [exact (GInv_cfr _ _ (cfr_to_col _ _) G)|exact G]. }
      clearbody t0. apply (G_on_buf_mark t0 _ (fun t1 => cur_row t1) _ G0 E).
      intros b'. apply buf_delete_Q; [exact (G_blank _ G0)|exact (G_buf _ G0)].
    - (* Decaln *) exact (G_decaln_rows _ _ _ _ G E).
    - (* Decrc *) apply Ok_inj in E. subst t'. apply G_restore, G.
    - (* Decrst *) revert E G. apply (foldM_inv decrst_one GInv).
      intros a x a' Ex Ga. exact (G_decrst_one _ _ _ Ga Ex).
    - (* Decsc *) apply Ok_inj in E. subst t'. apply G_save, G.
    - (* Decset *) revert E G. apply (foldM_inv decset_one GInv).
      intros a x a' Ex Ga. exact (G_decset_one _ _ _ Ga Ex).
    - (* Decstbm *) apply Ok_inj in E. subst t'. unfold decstbm. cbv zeta.
      apply G_home.
      match goal with |- GInv (if ?c then _ else _) => destruct c end; [|exact G].
      revert G. apply GInv_pv. destruct t; reflexivity.
    - (* Decstr *) apply Ok_inj in E. subst t'. apply G_soft_reset, G.
    - (* Dl *) unfold dl in E. destruct (il_dl_range t) as [a z].
      apply (G_on_buf_mark_range t _ (fun _ => a) (fun _ => z) _ G E).
      intros b'. apply buf_scroll_up_Q; [exact (G_blank _ G)|exact (G_buf _ G)].
    - (* Ech *) exact (G_erase t _ (fun t1 => cur_row t1) _ G E).
    - (* Ed *) unfold ed in E. destruct s.
      + exact (G_erase_range t _ (fun t1 => cur_row t1) (fun t1 => rows t1) _ G E).
      + exact (G_erase_range t _ (fun t1 => 0) (fun t1 => cur_row t1 + 1) _ G E).
      + exact (G_erase_range t _ (fun t1 => 0) (fun t1 => rows t1) _ G E).
      + apply Ok_inj in E. subst t'. exact G.
    - (* El *) unfold el in E. exact (G_erase t _ (fun t1 => cur_row t1) _ G E).
    - (* G1d4 *) apply Ok_inj in E. subst t'. revert G. apply GInv_pv. destruct t; reflexivity.
    - (* Gzd4 *) apply Ok_inj in E. subst t'. revert G. apply GInv_pv. destruct t; reflexivity.
    - (* Hts *) apply Ok_inj in E. subst t'. revert G. apply GInv_pv. unfold set_tab.
      match goal with |- context [if ?c then _ else _] => destruct c end; destruct t; reflexivity.
    - (* Ich *) unfold ich in E. apply (G_on_buf_mark t _ (fun t1 => cur_row t1) _ G E).
      intros b'. apply buf_insert_Q; [exact (G_blank _ G)|exact (G_buf _ G)].
    - (* Il *) unfold il in E. destruct (il_dl_range t) as [a z].
      apply (G_on_buf_mark_range t _ (fun _ => a) (fun _ => z) _ G E).
      intros b'. apply buf_scroll_down_Q; [exact (G_blank _ G)|exact (G_buf _ G)].
    - (* Lf *) unfold lf in E. apply bind_ok in E as (t1 & E1 & E). apply Ok_inj in E. subst t'.
      pose proof (G_down_with_scroll _ _ G E1) as G1. destruct (nlm t1); [apply G_col|]; exact G1.
    - (* Nel *) unfold nel in E. apply bind_ok in E as (t1 & E1 & E). apply Ok_inj in E. subst t'.
      apply G_col. exact (G_down_with_scroll _ _ G E1).
    - (* Print *) exact (G_print _ _ _ G Hf E).
    - (* Rep *) exact (G_rep _ _ _ G E).
    - (* Ri *) unfold ri in E. destruct (cur_row t =? top t); [exact (G_scroll_down _ _ _ G E)|].
      destruct (0 <? cur_row t); apply Ok_inj in E; subst t'; [apply G_row|]; exact G.
    - (* Ris *) apply Ok_inj in E. subst t'. apply G_hard_reset.
    - (* Rm *) apply Ok_inj in E. subst t'. destruct (rm_fold ms t) as (a & b & ->).
      revert G. apply GInv_pv. destruct t; reflexivity.
    - (* Scorc *) apply Ok_inj in E. subst t'. apply G_restore, G.
    - (* Scosc *) apply Ok_inj in E. subst t'. apply G_save, G.
    - (* Sd *) exact (G_scroll_down _ _ _ G E).
    - (* Sgr *) apply Ok_inj in E. subst t'. apply G_sgr; assumption.
    - (* Si *) apply Ok_inj in E. subst t'. revert G. apply GInv_pv. destruct t; reflexivity.
    - (* Sm *) apply Ok_inj in E. subst t'. destruct (sm_fold ms t) as (a & b & ->).
      revert G. apply GInv_pv. destruct t; reflexivity.
    - (* So *) apply Ok_inj in E. subst t'. revert G. apply GInv_pv. destruct t; reflexivity.
    - (* Su *) exact (G_scroll_up _ _ _ G E).
    - (* Tbc *) apply Ok_inj in E. subst t'. revert G. apply GInv_pv.
      destruct s; cbn [tbc]; unfold clear_tab, clear_all_tabs; destruct t; reflexivity.
    - (* Xtwinops *) exact (G_xtwinops _ _ _ G E).
  Qed.

  (** * [changes], [term_gc] *)

  Theorem G_changes t : GInv t -> GInv (fst (changes t)).
  Proof. apply GInv_pv. destruct t; reflexivity. Qed.

  Theorem G_term_gc t t' dr : GInv t -> term_gc t = Ok (t', dr) -> GInv t' /\ lsQ Q dr.
  Proof.
    intros G E. unfold term_gc in E. apply bind_ok in E as ([b d] & Eb & E).
    pose proof (buf_gc_Q Q _ _ _ (G_buf _ G) Eb) as [Hb Hd].
    assert (G' : GInv (t <| buf := b |>)).
    { apply (GInv_tfr t); [apply tfr_set_buf| |exact G].
      replace (buf (t <| buf := b |>)) with b by (destruct t; reflexivity). exact Hb. }
    destruct (active (t <| buf := b |>)); apply Ok_inj in E; injection E as <- <-.
    - split; [exact G'|exact Hd].
    - split; [exact G'|constructor].
  Qed.

  (** * Vt level, given that the function emitted by the parser is good *)

  Theorem G_vt_flush v v' o : GInv (vterm v) -> vt_flush v = Ok (v', o) ->
    GInv (vterm v') /\ lsQ Q (o_drained o).
  Proof.
    intros G E. unfold vt_flush in E.
    pose proof (G_changes _ G) as Gc. destruct (changes (vterm v)) as [t ls]. cbn [fst] in Gc.
    apply bind_ok in E as ([t1 dr] & E1 & E). apply Ok_inj in E. injection E as <- <-.
    pose proof (G_term_gc _ _ _ Gc E1) as [G1 Hd].
    replace (vterm (v <| vterm := t1 |>)) with t1 by (destruct v; reflexivity).
    split; [exact G1|exact Hd].
  Qed.
End TermQ.
