(** C04: printing.  Charset translation, PRINT and REP refine [spec_translate], [spec_print]
    and [spec_rep] of [Spec/Screen.v]; both preserve the terminal invariant. *)

From Coq Require Import Lia ZArith ZifyBool ZifyNat ZifyN.
From Avt Require Import Oracles.Step Proofs.Inv Proofs.VisEq Proofs.ListLemmas Proofs.ListLemmasS
     Proofs.BufRow Proofs.BufScroll Proofs.TermEasy Proofs.SpecScroll Proofs.SpecEdit.
Ltac Zify.zify_post_hook ::= Z.div_mod_to_equations.

(** * 1. charset translation *)

Lemma gfx_tables_agree : SPECIAL_GFX_CHARS = vt100_glyphs.
Proof. reflexivity. Qed.

Theorem C04_translate : forall cs c, translate cs c = Ok (spec_translate cs c).
Proof.
  intros cs c. destruct cs; [reflexivity|].
  unfold translate, spec_translate, GFX_LO, GFX_HI_EXCL, GFX_OFF.
  destruct ((96 <=? c)%N && (c <? 127)%N) eqn:E.
  - replace ((96 <=? c)%N && (c <=? 126)%N) with true by lia.
    replace (96 <=? c)%N with true by lia. cbn [guard bind].
    rewrite gfx_tables_agree.
    rewrite (nth_error_nth' vt100_glyphs c); [reflexivity|].
    change (length vt100_glyphs) with 31. lia.
  - replace ((96 <=? c)%N && (c <=? 126)%N) with false by lia. reflexivity.
Qed.
Print Assumptions C04_translate.

Lemma active_cs_spec t : acs t <= 1 -> active_cs t = Ok (spec_active_cs t).
Proof.
  intros H. unfold active_cs, spec_active_cs. destruct (acs t) as [|[|k]]; try reflexivity. lia.
Qed.

(** * 2. list / buffer lemmas: [last_not_wrapped] through row updates and the wrap-then-scroll *)

Lemma lnw_upd_gen (g : line -> line) l i :
  last_not_wrapped l ->
  (i + 1 < length l \/ (forall x, wrapped x = false -> wrapped (g x) = false)) ->
  last_not_wrapped (upd_row i g l).
Proof.
  intros H Hor. unfold upd_row.
  destruct (Nat.lt_ge_cases i (length l)) as [Hi|Hi].
  - destruct (upd_split l i g Hi) as (X & y & D & -> & HX & HD & ->).
    apply lnw_app_ne; [discriminate|]. apply lnw_app_ne in H; [|discriminate].
    destruct D as [|d D].
    + destruct Hor as [Hlt|Hg].
      * rewrite app_length in Hlt. cbn [length] in *. lia.
      * unfold last_not_wrapped in *. cbn [last_opt] in *. apply Hg; exact H.
    + exact H.
  - rewrite upd_ge by exact Hi. exact H.
Qed.

Lemma spec_up_lnw' a z n p nc v :
  a < z -> z <= length v -> 1 <= n -> (z = length v \/ last_not_wrapped v) ->
  last_not_wrapped (fst (spec_scroll_up a z n p nc v)).
Proof.
  intros Haz Hz Hn [Hzl|Hl]; [|apply spec_up_lnw; [lia|exact Hz|exact Hl]].
  rewrite spec_scroll_up_eq. cbv zeta. cbn [fst].
  pose proof (up_v2_length a z v) as Hlen. set (v2 := up_v2 a z v) in *.
  rewrite (skipn_all2 (n := z) v2) by lia. rewrite app_nil_r, !app_assoc.
  apply lnw_app_ne.
  - apply length_pos_ne. rewrite repeat_length. lia.
  - unfold last_not_wrapped. rewrite last_opt_repeat by lia. reflexivity.
Qed.

Lemma bset_lnw b v :
  BGeom b -> length v = brows b -> last_not_wrapped v -> last_not_wrapped (lines (bset b v)).
Proof.
  intros (_ & Hr & _) Hv H. rewrite bset_lines. apply lnw_app_ne; [|exact H].
  apply length_pos_ne. lia.
Qed.

Lemma view_lnw b : BInv b -> last_not_wrapped (view b).
Proof.
  intros [HG H]. rewrite (lines_split b HG) in H. apply lnw_app_ne in H; [exact H|].
  apply length_pos_ne. rewrite (view_length b HG). apply HG.
Qed.

(** a row update that keeps widths and [wrapped] keeps the buffer invariant *)
Lemma bset_upd_row_BInv b r g :
  BInv b ->
  (forall l, LineInv (bcols b) l -> LineInv (bcols b) (g l)) ->
  (forall l, wrapped (g l) = wrapped l) ->
  BInv (bset b (upd_row r g (view b))).
Proof.
  intros HB Hg Hw. pose proof HB as [HG HL]. split.
  - apply bset_upd_row_BGeom; assumption.
  - apply bset_lnw; [exact HG|rewrite upd_row_length; apply view_length; exact HG|].
    apply lnw_upd_gen; [apply view_lnw; exact HB|]. right. intros x Hx. rewrite Hw. exact Hx.
Qed.

(** * 3. rebuilding the invariant after a change of buffer, cursor and dirty flags *)

Lemma TInv_upd t t' :
  TInv t ->
  t' = t <| buf := buf t' |> <| cur_col := cur_col t' |> <| cur_row := cur_row t' |>
         <| pend := pend t' |> <| dirty := dirty t' |> ->
  BInv (buf t') -> bcols (buf t') = cols t -> brows (buf t') = rows t ->
  blimit (buf t') = blimit (buf t) ->
  cur_row t' < rows t -> cur_col t' <= cols t -> (pend t' = true <-> cur_col t' = cols t) ->
  length (dirty t') = rows t ->
  TInv t'.
Proof.
  intros HT E HB Hc Hr Hl Hrow Hcol Hp Hd.
  set (b := buf t') in *. set (c := cur_col t') in *. set (r := cur_row t') in *.
  set (p := pend t') in *. set (d := dirty t') in *. clearbody b c r p d. subst t'.
  destruct HT. constructor; cbn; try assumption.
  - rewrite Hl. destruct (active t); assumption.
Qed.

(** * 4. the two stages of PRINT, on the specification side *)

(** stage 1: the deferred wrap *)
Definition spec_wrap (t : term) : term :=
  let row := cur_row t in
  if awm t && pend t then
    if row =? bot t then
      set_cursor (apply_scroll_up (set_view t (upd_row row mark_wrapped (tview t)))
                                  (top t) (bot t + 1) 1) 0 row false
    else if row <? rows t - 1 then
      set_cursor (set_view t (upd_row row mark_wrapped (tview t))) 0 (row + 1) false
    else set_cursor t 0 row false
  else t.

(** stage 2: write the cell and advance *)
Definition spec_write (t1 : term) (cl : cell) : term :=
  let col := cur_col t1 in
  let row := cur_row t1 in
  if cols t1 <=? col + 1 then
    let t2 := set_view t1 (upd_row row (set_cell (cols t1 - 1) cl) (tview t1)) in
    if awm t1 then set_cursor t2 (cols t1) row true else t2
  else
    let t2 := set_view t1 (upd_row row ((if ins t1 then insert_cell else set_cell) col cl) (tview t1)) in
    set_cursor t2 (col + 1) row false.

Lemma spec_print_glyph_eq t g :
  spec_print_glyph t g = spec_write (spec_wrap t) (mkCell g (tpen t)).
Proof.
  unfold spec_print_glyph, spec_write, spec_wrap.
  destruct (awm t && pend t); [|reflexivity].
  destruct (cur_row t =? bot t); [reflexivity|].
  destruct (cur_row t <? rows t - 1); reflexivity.
Qed.

Lemma spec_wrap_norm a : vis_norm (spec_wrap a) = vis_norm (spec_wrap (vis_norm a)).
Proof.
  unfold spec_wrap.
  change (awm (vis_norm a)) with (awm a). change (pend (vis_norm a)) with (pend a).
  change (cur_row (vis_norm a)) with (cur_row a). change (bot (vis_norm a)) with (bot a).
  change (rows (vis_norm a)) with (rows a).
  destruct (awm a && pend a); [|reflexivity].
  destruct (cur_row a =? bot a); [reflexivity|].
  destruct (cur_row a <? rows a - 1); reflexivity.
Qed.

Lemma spec_write_norm a cl : vis_norm (spec_write a cl) = vis_norm (spec_write (vis_norm a) cl).
Proof.
  unfold spec_write.
  change (awm (vis_norm a)) with (awm a). change (ins (vis_norm a)) with (ins a).
  change (cur_row (vis_norm a)) with (cur_row a). change (cur_col (vis_norm a)) with (cur_col a).
  change (cols (vis_norm a)) with (cols a).
  destruct (cols a <=? cur_col a + 1).
  - destruct (awm a); reflexivity.
  - destruct (ins a); reflexivity.
Qed.

Lemma spec_write_resp a b cl : vis_norm a = vis_norm b -> vis_norm (spec_write a cl) = vis_norm (spec_write b cl).
Proof. intros H. rewrite (spec_write_norm a), (spec_write_norm b), H. reflexivity. Qed.

Lemma spec_wrap_resp a b : vis_norm a = vis_norm b -> vis_norm (spec_wrap a) = vis_norm (spec_wrap b).
Proof. intros H. rewrite (spec_wrap_norm a), (spec_wrap_norm b), H. reflexivity. Qed.

Lemma spec_print_eq t c :
  spec_print t c = spec_write (spec_wrap t) (mkCell (spec_translate (spec_active_cs t) c) (tpen t)).
Proof. unfold spec_print. apply spec_print_glyph_eq. Qed.

(** [spec_print] never reads the dirty flags or the lazy-trim flags *)
Lemma spec_print_resp a b c :
  vis_norm a = vis_norm b -> vis_norm (spec_print a c) = vis_norm (spec_print b c).
Proof.
  intros H. rewrite !spec_print_eq.
  assert (E1 : spec_active_cs a = spec_active_cs b).
  { change (spec_active_cs a) with (spec_active_cs (vis_norm a)). rewrite H. reflexivity. }
  assert (E2 : tpen a = tpen b).
  { change (tpen a) with (tpen (vis_norm a)). rewrite H. reflexivity. }
  rewrite E1, E2. apply spec_write_resp. apply spec_wrap_resp. exact H.
Qed.

(** * 5. the two stages of PRINT, on the model side *)

Definition wrap_m (t : term) : res term :=
  if awm t && pend t then
    let t := do_move_cursor_to_col t 0 in
    if cur_row t =? bot t then
      t <- on_buf t (fun b => buf_wrap b (cur_row t)) ;;
      scroll_up_in_region t 1
    else if cur_row t <? rows t - 1 then
      t <- on_buf t (fun b => buf_wrap b (cur_row t)) ;;
      Ok (do_move_cursor_to_row t (cur_row t + 1))
    else Ok t
  else Ok t.

Definition write_m (t : term) (cl : cell) : res term :=
  let next_col := cur_col t + 1 in
  if cols t <=? next_col then
    t <- on_buf t (fun b => buf_print b (cols t - 1) (cur_row t) cl) ;;
    if awm t then Ok (do_move_cursor_to_col t (cols t) <| pend := true |>) else Ok t
  else
    t <- (if ins t then on_buf t (fun b => buf_insert b (cur_col t) (cur_row t) 1 cl)
          else on_buf t (fun b => buf_print b (cur_col t) (cur_row t) cl)) ;;
    Ok (do_move_cursor_to_col t next_col).

Lemma print_eq t c :
  print t c = (cs <- active_cs t ;; c' <- translate cs c ;; t1 <- wrap_m t ;;
               t2 <- write_m t1 (mkCell c' (tpen t)) ;; mark t2 (cur_row t2)).
Proof. reflexivity. Qed.

(** the buffer left by a region scroll *)
Lemma after_up_buf s a z n :
  BGeom (buf s) -> bcols (buf s) = cols s -> a < z -> z <= brows (buf s) ->
  buf_scroll_up (buf s) a z n (tpen s) = Ok (buf (after_up s a z n)).
Proof.
  intros HG Hc Haz Hz. destruct (term_decomp s HG) as [Hl Hv].
  rewrite (buf_scroll_up_eq (buf s) (tsb s) (tview s) a z n (tpen s) Hl Hv Haz Hz).
  unfold after_up. rewrite apply_scroll_up_eq, Hc. unfold set_screen. rewrite <- app_assoc.
  reflexivity.
Qed.

Lemma after_up_buf_BInv s a z n :
  BGeom (buf s) -> bcols (buf s) = cols s -> a < z -> z <= brows (buf s) -> 1 <= n ->
  (z = brows (buf s) \/ last_not_wrapped (tview s)) ->
  BInv (buf (after_up s a z n)).
Proof.
  intros HG Hc Haz Hz Hn Hor.
  destruct (buf_scroll_up_spec (buf s) a z n (tpen s) HG Haz Hz)
    as (b' & E & El & _ & _ & _ & _ & HG').
  assert (Eb : buf (after_up s a z n) = b').
  { pose proof (after_up_buf s a z n HG Hc Haz Hz) as E2. rewrite E in E2.
    injection E2 as E2. symmetry. exact E2. }
  rewrite Eb. split; [exact HG'|]. rewrite El.
  assert (Hv : length (view (buf s)) = brows (buf s)) by (apply view_length; exact HG).
  rewrite app_assoc. apply lnw_app_ne.
  - apply length_pos_ne. rewrite spec_up_fst_length by lia. lia.
  - apply spec_up_lnw'; try lia. destruct Hor as [Hor|Hor]; [left; lia|right; exact Hor].
Qed.

Section Print.
  Variable t : term.
  Hypothesis HT : TInv t.

  Let HG : BGeom (buf t) := TInv_BGeom t HT.
  Let Hc : bcols (buf t) = cols t := ti_bcols t HT.
  Let Hr : brows (buf t) = rows t := ti_brows t HT.

  Lemma tview_length : length (tview t) = rows t.
  Proof. unfold tview. rewrite (view_length _ HG). exact Hr. Qed.

  Lemma tview_Forall : Forall (LineInv (cols t)) (tview t).
  Proof. rewrite <- Hc. apply view_Forall; exact HG. Qed.

  (** the shape of every intermediate and final state of PRINT: the view changed by one row
      update, cursor and flags moved *)
  Lemma row_update_TInv g c r p d :
    (forall l, LineInv (cols t) l -> LineInv (cols t) (g l)) ->
    (cur_row t + 1 < rows t \/ forall l, wrapped l = false -> wrapped (g l) = false) ->
    r < rows t -> c <= cols t -> (p = true <-> c = cols t) -> length d = rows t ->
    TInv ((set_view t (upd_row (cur_row t) g (tview t)))
            <| cur_col := c |> <| cur_row := r |> <| pend := p |> <| dirty := d |>).
  Proof.
    intros Hg Hw Hrow Hcol Hp Hd.
    apply (TInv_upd t _ HT); try assumption; try reflexivity.
    - change (BInv (bset (buf t) (upd_row (cur_row t) g (view (buf t))))).
      split.
      + apply bset_upd_row_BGeom; [exact HG|]. rewrite Hc. exact Hg.
      + apply bset_lnw; [exact HG|rewrite upd_row_length; apply view_length; exact HG|].
        apply lnw_upd_gen; [apply view_lnw; apply (ti_buf t HT)|].
        destruct Hw as [Hw|Hw]; [left|right; exact Hw].
        rewrite (view_length _ HG), Hr. exact Hw.
  Qed.

  Lemma on_buf_wrap (t0 : term) :
    buf t0 = buf t -> cur_row t0 = cur_row t ->
    on_buf t0 (fun b => buf_wrap b (cur_row t0))
    = Ok (set_view t0 (upd_row (cur_row t) mark_wrapped (tview t))).
  Proof.
    intros Eb Er. unfold on_buf. rewrite Eb, Er.
    rewrite (proj1 (buf_wrap_spec (buf t) (cur_row t) HG ltac:(rewrite Hr; apply (ti_row t HT)))).
    cbn [bind]. rewrite set_view_bset, Eb. reflexivity.
  Qed.

  Lemma wrap_m_spec :
    exists t1, wrap_m t = Ok t1 /\ vis_norm t1 = vis_norm (spec_wrap t) /\ TInv t1.
  Proof.
    pose proof (ti_row t HT) as Hrow. pose proof (ti_cols t HT) as Hcols.
    pose proof (ti_margins t HT) as Hmar. pose proof (ti_dirty t HT) as Hd.
    unfold wrap_m, spec_wrap.
    destruct (awm t && pend t) eqn:Ew; [|exists t; split; [reflexivity|split; [reflexivity|exact HT]]].
    cbv zeta. set (t0 := do_move_cursor_to_col t 0).
    change (cur_row t0) with (cur_row t). change (bot t0) with (bot t). change (rows t0) with (rows t).
    set (v1 := upd_row (cur_row t) mark_wrapped (tview t)).
    assert (Hv1 : length v1 = rows t) by (unfold v1; rewrite upd_row_length; apply tview_length).
    assert (Hw : on_buf t0 (fun b => buf_wrap b (cur_row t)) = Ok (set_view t0 v1))
      by (apply (on_buf_wrap t0); reflexivity).
    destruct (Nat.eqb_spec (cur_row t) (bot t)) as [Eb|Eb].
    - (* on the bottom margin: wrap, then scroll the region *)
      rewrite Hw. cbn [bind]. set (s := set_view t0 v1).
      assert (HGs : BGeom (buf s)).
      { change (buf s) with (bset (buf t) (upd_row (cur_row t) mark_wrapped (view (buf t)))).
        apply buf_wrap_spec; [exact HG|rewrite Hr; exact Hrow]. }
      assert (Hvs : tview s = v1).
      { change (tview s) with (view (bset (buf t) v1)). apply (bset_view (buf t) v1 HG). lia. }
      unfold scroll_up_in_region.
      rewrite (scroll_up_core s (top s) (bot s + 1) 1 HGs Hc Hr Hd)
        by (change (top s) with (top t); change (bot s) with (bot t); change (rows s) with (rows t); lia).
      change (top s) with (top t). change (bot s) with (bot t).
      eexists. split; [reflexivity|]. split; [reflexivity|].
      apply (TInv_upd t _ HT); try reflexivity.
      + apply after_up_buf_BInv; try assumption;
          change (brows (buf s)) with (brows (buf t)); try lia.
        rewrite Hvs. destruct (Nat.eq_dec (bot t + 1) (rows t)) as [Ez|Ez]; [left; lia|right].
        unfold v1. apply lnw_upd_gen; [apply view_lnw; apply (ti_buf t HT)|].
        left. rewrite tview_length. lia.
      + exact Hc.
      + exact Hr.
      + exact Hrow.
      + change (0 <= cols t). lia.
      + change (false = true <-> 0 = cols t). split; [discriminate|lia].
      + change (length (fill_range (top t) (bot t + 1) true (dirty t)) = rows t).
        rewrite fill_range_length; lia.
    - destruct (Nat.ltb_spec (cur_row t) (rows t - 1)) as [Hlt|Hge].
      + (* above the last row: wrap and move down *)
        rewrite Hw. cbn [bind].
        eexists. split; [reflexivity|]. split; [reflexivity|].
        change (TInv ((set_view t (upd_row (cur_row t) mark_wrapped (tview t)))
                        <| cur_col := 0 |> <| cur_row := cur_row t + 1 |> <| pend := false |>
                        <| dirty := dirty t |>)).
        apply row_update_TInv.
        * intros l Hl. apply mark_wrapped_LineInv; exact Hl.
        * left; lia.
        * lia.
        * lia.
        * split; [discriminate|lia].
        * exact Hd.
      + (* on the last row, below the region: column 0 only *)
        eexists. split; [reflexivity|]. split; [reflexivity|].
        apply (TInv_upd t _ HT); try reflexivity; try assumption.
        * apply (ti_buf t HT).
        * change (0 <= cols t). lia.
        * change (false = true <-> 0 = cols t). split; [discriminate|lia].
  Qed.
End Print.

Lemma insert_cell_LineInv c col x l : LineInv c l -> col < c -> LineInv c (insert_cell col x l).
Proof.
  intros Hl Hcol. rewrite <- (insert_cells_one c col x l Hl).
  apply insert_cells_LineInv; [exact Hl|lia|lia].
Qed.

Section Write.
  Variable t : term.
  Hypothesis HT : TInv t.
  Variable cl : cell.

  Let HG : BGeom (buf t) := TInv_BGeom t HT.
  Let Hc : bcols (buf t) = cols t := ti_bcols t HT.
  Let Hr : brows (buf t) = rows t := ti_brows t HT.

  Lemma on_buf_print col :
    col < cols t ->
    on_buf t (fun b => buf_print b col (cur_row t) cl)
    = Ok (set_view t (upd_row (cur_row t) (set_cell col cl) (tview t))).
  Proof.
    intros Hcol. apply on_buf_set_view. apply buf_print_spec; [exact HG| |].
    - rewrite Hr. apply (ti_row t HT).
    - rewrite Hc. exact Hcol.
  Qed.

  Lemma on_buf_insert_one :
    cur_col t + 1 < cols t ->
    on_buf t (fun b => buf_insert b (cur_col t) (cur_row t) 1 cl)
    = Ok (set_view t (upd_row (cur_row t) (insert_cell (cur_col t) cl) (tview t))).
  Proof.
    intros Hcol. rewrite (on_buf_insert t HT 1 cl). f_equal. f_equal.
    apply (upd_row_ext_inv (cols t)); [apply (tview_Forall t HT)|].
    intros l Hl. replace (Nat.min 1 (cols t - cur_col t)) with 1 by lia.
    apply (insert_cells_one (cols t) (cur_col t) cl l Hl).
  Qed.

  Lemma write_m_spec :
    exists t3, (t2 <- write_m t cl ;; mark t2 (cur_row t2)) = Ok t3
      /\ vis_norm t3 = vis_norm (spec_write t cl) /\ TInv t3.
  Proof.
    pose proof (ti_row t HT) as Hrow. pose proof (ti_cols t HT) as Hcols.
    pose proof (ti_col t HT) as Hcol. pose proof (ti_dirty t HT) as Hd.
    pose proof (ti_pend t HT) as Hpend.
    assert (Hdl : length (upd (cur_row t) (fun _ => true) (dirty t)) = rows t)
      by (rewrite upd_length; exact Hd).
    unfold write_m, spec_write. cbv zeta.
    destruct (Nat.leb_spec (cols t) (cur_col t + 1)) as [Hle|Hlt].
    - (* last column *)
      rewrite on_buf_print by lia. cbn [bind].
      set (s := set_view t (upd_row (cur_row t) (set_cell (cols t - 1) cl) (tview t))).
      change (awm s) with (awm t). destruct (awm t) eqn:Ea; cbn [bind].
      + rewrite mark_ok by (change (cur_row t < length (dirty t)); lia).
        eexists. split; [reflexivity|]. split; [reflexivity|].
        change (TInv (s <| cur_col := cols t |> <| cur_row := cur_row t |> <| pend := true |>
                        <| dirty := upd (cur_row t) (fun _ => true) (dirty t) |>)).
        apply (row_update_TInv t HT).
        * intros l Hl. apply set_cell_LineInv; exact Hl.
        * right. intros l Hl. exact Hl.
        * exact Hrow.
        * lia.
        * split; reflexivity.
        * exact Hdl.
      + rewrite mark_ok by (change (cur_row t < length (dirty t)); lia).
        eexists. split; [reflexivity|]. split; [reflexivity|].
        change (TInv (s <| cur_col := cur_col t |> <| cur_row := cur_row t |> <| pend := pend t |>
                        <| dirty := upd (cur_row t) (fun _ => true) (dirty t) |>)).
        apply (row_update_TInv t HT).
        * intros l Hl. apply set_cell_LineInv; exact Hl.
        * right. intros l Hl. exact Hl.
        * exact Hrow.
        * exact Hcol.
        * exact Hpend.
        * exact Hdl.
    - (* a normal column *)
      destruct (ins t) eqn:Ei.
      + rewrite on_buf_insert_one by lia. cbn [bind].
        rewrite mark_ok by (change (cur_row t < length (dirty t)); lia).
        eexists. split; [reflexivity|]. split; [reflexivity|].
        change (TInv ((set_view t (upd_row (cur_row t) (insert_cell (cur_col t) cl) (tview t)))
                        <| cur_col := cur_col t + 1 |> <| cur_row := cur_row t |> <| pend := false |>
                        <| dirty := upd (cur_row t) (fun _ => true) (dirty t) |>)).
        apply (row_update_TInv t HT).
        * intros l Hl. apply insert_cell_LineInv; [exact Hl|lia].
        * right. intros l Hl. exact Hl.
        * exact Hrow.
        * lia.
        * split; [discriminate|lia].
        * exact Hdl.
      + rewrite on_buf_print by lia. cbn [bind].
        rewrite mark_ok by (change (cur_row t < length (dirty t)); lia).
        eexists. split; [reflexivity|]. split; [reflexivity|].
        change (TInv ((set_view t (upd_row (cur_row t) (set_cell (cur_col t) cl) (tview t)))
                        <| cur_col := cur_col t + 1 |> <| cur_row := cur_row t |> <| pend := false |>
                        <| dirty := upd (cur_row t) (fun _ => true) (dirty t) |>)).
        apply (row_update_TInv t HT).
        * intros l Hl. apply set_cell_LineInv; exact Hl.
        * right. intros l Hl. exact Hl.
        * exact Hrow.
        * lia.
        * split; [discriminate|lia].
        * exact Hdl.
  Qed.
End Write.

(** * 6. PRINT *)

Theorem C04_print : forall t c,
  TInv t ->
  exists t', execute t (Print c) = Ok t' /\ vis_norm (spec_print t c) = vis_norm t' /\ TInv t'.
Proof.
  intros t c HT. cbn [execute]. rewrite print_eq.
  rewrite (active_cs_spec t (ti_acs t HT)). cbn [bind].
  rewrite C04_translate. cbn [bind].
  destruct (wrap_m_spec t HT) as (t1 & E1 & N1 & HT1). rewrite E1. cbn [bind].
  destruct (write_m_spec t1 HT1 (mkCell (spec_translate (spec_active_cs t) c) (tpen t)))
    as (t3 & E3 & N3 & HT3).
  exists t3. split; [exact E3|]. split; [|exact HT3].
  rewrite spec_print_eq, N3. apply spec_write_resp. symmetry. exact N1.
Qed.
Print Assumptions C04_print.

(** * 7. REP *)

Lemma iter_succ_r {A} (f : A -> A) k x : Nat.iter (S k) f x = Nat.iter k f (f x).
Proof.
  induction k as [|k IH]; [reflexivity|].
  change (Nat.iter (S (S k)) f x) with (f (Nat.iter (S k) f x)). rewrite IH. reflexivity.
Qed.

Lemma print_n_spec c k : forall a t,
  TInv t -> vis_norm a = vis_norm t ->
  exists t', print_n k t c = Ok t'
    /\ vis_norm (Nat.iter k (fun x => spec_print x c) a) = vis_norm t' /\ TInv t'.
Proof.
  induction k as [|k IH]; intros a t HT Ha.
  - exists t. split; [reflexivity|]. split; [exact Ha|exact HT].
  - cbn [print_n]. destruct (C04_print t c HT) as (t1 & E1 & N1 & HT1).
    cbn [execute] in E1. rewrite E1. cbn [bind].
    rewrite iter_succ_r.
    apply (IH (spec_print a c) t1 HT1).
    rewrite <- N1. apply spec_print_resp. exact Ha.
Qed.

Theorem C04_rep : forall t n,
  TInv t ->
  exists t', execute t (Rep n) = Ok t' /\ vis_norm (spec_rep t n) = vis_norm t' /\ TInv t'.
Proof.
  intros t n HT. cbn [execute]. unfold rep, spec_rep.
  destruct (Nat.ltb_spec 0 (cur_col t)) as [Hpos|Hz].
  - pose proof (TInv_BGeom t HT) as HG. pose proof (ti_col t HT) as Hcol.
    rewrite (get_row_spec (buf t) (cur_row t) HG) by (rewrite (ti_brows t HT); apply (ti_row t HT)).
    cbn [bind].
    assert (Hl : LineInv (cols t) (row_at (view (buf t)) (cur_row t))).
    { rewrite <- (ti_bcols t HT). apply view_row_LineInv; [exact HG|].
      rewrite (ti_brows t HT). apply (ti_row t HT). }
    rewrite (nth_error_nth_lt _ _ default_cell) by (rewrite Hl; lia).
    apply (print_n_spec _ (n1 n) t t HT). reflexivity.
  - exists t. split; [reflexivity|]. split; [reflexivity|exact HT].
Qed.
Print Assumptions C04_rep.

(** * 8. the executable statement *)

Corollary C04_holds : forall p p' t f t',
  TInv t -> execute t f = Ok t' -> holds_C04 (mkVt p t) f (mkVt p' t') = true.
Proof.
  intros p p' t f t' HT Hx. unfold holds_C04. cbn [vterm].
  destruct f; try reflexivity; cbn [execute] in Hx.
  - (* G1d4 *) injection Hx as <-. apply visible_eqb_refl.
  - (* Gzd4 *) injection Hx as <-. apply visible_eqb_refl.
  - (* Print *)
    destruct (C04_print t c HT) as (t'' & Hx' & Hn & _). cbn [execute] in Hx'.
    rewrite Hx in Hx'. injection Hx' as <-. apply visible_eqb_norm; exact Hn.
  - (* Rep *)
    destruct (C04_rep t n HT) as (t'' & Hx' & Hn & _). cbn [execute] in Hx'.
    rewrite Hx in Hx'. injection Hx' as <-. apply visible_eqb_norm; exact Hn.
  - (* Si *) injection Hx as <-. apply visible_eqb_refl.
  - (* So *) injection Hx as <-. apply visible_eqb_refl.
Qed.
Print Assumptions C04_holds.
