(** Reflow (line.rs [Line::trim/expand/contract/extend], [Reflow::next], [reflow()]):
    the loop always terminates within its fuel, never panics, emits rows of exactly
    the requested width (so the [assert!] in [reflow()] cannot fire) and keeps
    "the last row is not soft-wrapped".

    Main results: [reflow_total] (needs only [1 <= c]) and [reflow_ok]. *)

From Avt Require Import Proofs.Inv.
Require Import Lia ZArith ZifyBool ZifyNat.
Import ListNotations.

(** * Small list facts *)

Lemma take_while_length {A} (f : A -> bool) (l : list A) :
  length (take_while f l) <= length l.
Proof.
  induction l as [|x r IH]; cbn [take_while length]; [lia|].
  destruct (f x); cbn [length]; lia.
Qed.

Lemma last_opt_snoc {A} (l : list A) (x : A) : last_opt (l ++ [x]) = Some x.
Proof.
  induction l as [|a r IH]; [reflexivity|].
  cbn [app last_opt]. destruct (r ++ [x]) as [|b r'] eqn:E.
  - destruct r; discriminate E.
  - exact IH.
Qed.

Lemma last_opt_nth {A} (l : list A) : last_opt l = nth_error l (length l - 1).
Proof.
  induction l as [|a r IH]; [reflexivity|].
  destruct r as [|b r']; [reflexivity|].
  change (last_opt (a :: b :: r')) with (last_opt (b :: r')).
  rewrite IH. cbn [length]. replace (S (S (length r')) - 1) with (S (S (length r') - 1)) by lia.
  reflexivity.
Qed.

(** * [last_not_wrapped] *)

Lemma lnw_nil : last_not_wrapped [] <-> True.
Proof. reflexivity. Qed.

Lemma lnw_one x : last_not_wrapped [x] <-> wrapped x = false.
Proof. reflexivity. Qed.

Lemma lnw_cons_cons x y r : last_not_wrapped (x :: y :: r) <-> last_not_wrapped (y :: r).
Proof. reflexivity. Qed.

Lemma lnw_tail l it :
  last_not_wrapped (l :: it) -> last_not_wrapped it /\ (it = [] -> wrapped l = false).
Proof.
  destruct it as [|y r]; intros H.
  - split; [exact I|]. intros _. exact H.
  - split; [exact H|]. discriminate.
Qed.

(** only the soft-wrap flag of the head matters *)
Lemma lnw_head l l' it :
  wrapped l' = wrapped l -> last_not_wrapped (l :: it) -> last_not_wrapped (l' :: it).
Proof.
  intros E H. destruct it as [|y r].
  - apply lnw_one. rewrite E. exact H.
  - exact H.
Qed.

Lemma lnw_snoc l x : wrapped x = false -> last_not_wrapped (l ++ [x]).
Proof. intros H. unfold last_not_wrapped. rewrite last_opt_snoc. exact H. Qed.

Lemma lnw_app_repeat ls x n :
  last_not_wrapped ls -> wrapped x = false -> last_not_wrapped (ls ++ repeat x n).
Proof.
  intros H Hx. destruct n as [|n].
  - cbn [repeat]. rewrite app_nil_r. exact H.
  - cbn [repeat]. rewrite repeat_cons, app_assoc. apply lnw_snoc. exact Hx.
Qed.

(** the row at the last index is the last row *)
Lemma lnw_nth_last ls l :
  last_not_wrapped ls -> nth_error ls (length ls - 1) = Some l -> wrapped l = false.
Proof.
  unfold last_not_wrapped. rewrite last_opt_nth. intros H E. rewrite E in H. exact H.
Qed.

Definition lnw_hd (acc : list line) : Prop :=
  match acc with [] => True | x :: _ => wrapped x = false end.

Lemma lnw_rev acc : lnw_hd acc -> last_not_wrapped (rev acc).
Proof.
  destruct acc as [|x r]; intros H; [exact I|].
  cbn [rev]. apply lnw_snoc. exact H.
Qed.

(** * Record plumbing for [line] *)

Lemma llen_set_cells l cs : llen (l <| cells := cs |>) = length cs.
Proof. destruct l; reflexivity. Qed.

Lemma wrapped_set_cells l cs : wrapped (l <| cells := cs |>) = wrapped l.
Proof. destruct l; reflexivity. Qed.

Lemma llen_set_wrapped l w : llen (l <| wrapped := w |>) = llen l.
Proof. destruct l; reflexivity. Qed.

Lemma wrapped_set_wrapped l w : wrapped (l <| wrapped := w |>) = w.
Proof. destruct l; reflexivity. Qed.

Lemma llen_mk cs w : llen (mkLine cs w) = length cs.
Proof. reflexivity. Qed.

Lemma LineInv_llen c l : LineInv c l <-> llen l = c.
Proof. reflexivity. Qed.

Lemma LineInv_set_wrapped c l w : LineInv c l -> LineInv c (l <| wrapped := w |>).
Proof. unfold LineInv. destruct l; exact (fun H => H). Qed.

Lemma LineInv_blank n p : LineInv n (blank_line n p).
Proof. unfold LineInv, blank_line. cbn [cells]. apply repeat_length. Qed.

Lemma wrapped_blank n p : wrapped (blank_line n p) = false.
Proof. reflexivity. Qed.

(** * 1. Line primitives *)

Lemma trailers_le l : trailers l <= llen l.
Proof.
  unfold trailers, llen. etransitivity; [apply take_while_length|].
  rewrite rev_length. lia.
Qed.

(** [Line::trim] *)
Lemma llen_trim l : llen (line_trim l) = llen l - trailers l.
Proof.
  unfold line_trim. rewrite llen_set_cells, firstn_length.
  pose proof (trailers_le l) as H. unfold llen in *. lia.
Qed.

Lemma llen_trim_le l : llen (line_trim l) <= llen l.
Proof. rewrite llen_trim. lia. Qed.

Lemma wrapped_trim l : wrapped (line_trim l) = wrapped l.
Proof. unfold line_trim. apply wrapped_set_cells. Qed.

(** [Line::expand] *)
Lemma llen_expand len p l : llen (line_expand len p l) = Nat.max len (llen l).
Proof.
  unfold line_expand. rewrite llen_set_cells, app_length, repeat_length.
  unfold llen. lia.
Qed.

Lemma llen_expand_le len p l : llen l <= len -> llen (line_expand len p l) = len.
Proof. intros H. rewrite llen_expand. lia. Qed.

Lemma wrapped_expand len p l : wrapped (line_expand len p l) = wrapped l.
Proof. unfold line_expand. apply wrapped_set_cells. Qed.

Lemma line_expandM_ok len p l :
  llen l <= len -> line_expandM len p l = Ok (line_expand len p l).
Proof.
  intros H. unfold line_expandM, line_expand_ok.
  replace (llen l <=? len) with true by (symmetry; apply Nat.leb_le; exact H).
  reflexivity.
Qed.

(** [Line::contract(len)]: the first component has [min len (llen l)] cells (so exactly
    [len] when the line is longer than [len]); when a rest is split off, it is non-empty,
    strictly shorter than the input by at least [len], inherits the wrap flag, and the
    first part is marked wrapped. *)
Lemma line_contract_spec len l :
  let '(l', r) := line_contract len l in
  llen l' = Nat.min len (llen l) /\
  match r with
  | None => wrapped l' = wrapped l
  | Some x => wrapped l' = true /\ 1 <= llen x /\ llen x + len <= llen l
              /\ wrapped x = wrapped l
  end.
Proof.
  unfold line_contract.
  set (l1 := if wrapped l then l else _).
  assert (H1 : llen l1 <= llen l /\ Nat.min len (llen l) <= llen l1 /\ wrapped l1 = wrapped l).
  { unfold l1. destruct (wrapped l) eqn:W.
    - repeat split; [lia|lia|exact W].
    - rewrite llen_set_cells, wrapped_set_cells, firstn_length.
      pose proof (trailers_le l) as T. unfold llen in *. repeat split; [lia|lia|exact W]. }
  clearbody l1. destruct H1 as (Ha & Hb & Hw).
  destruct (len <? llen l1) eqn:E.
  - apply Nat.ltb_lt in E.
    set (rest0 := mkLine (skipn len (cells l1)) (wrapped l1)).
    set (l2 := l1 <| cells := firstn len (cells l1) |>).
    assert (H2 : llen l2 = len /\ wrapped l2 = wrapped l).
    { unfold l2. rewrite llen_set_cells, wrapped_set_cells, firstn_length.
      unfold llen in *. split; [lia|exact Hw]. }
    assert (H0 : llen rest0 + len <= llen l /\ wrapped rest0 = wrapped l).
    { unfold rest0, llen. cbn [cells wrapped]. rewrite skipn_length.
      unfold llen in *. split; [lia|exact Hw]. }
    clearbody rest0 l2. destruct H2 as (H2a & H2w). destruct H0 as (H0a & H0w).
    set (rest := if wrapped l2 then rest0 else line_trim rest0).
    assert (Hr : llen rest <= llen rest0 /\ wrapped rest = wrapped l).
    { unfold rest. destruct (wrapped l2).
      - split; [lia|exact H0w].
      - rewrite wrapped_trim. split; [apply llen_trim_le|exact H0w]. }
    clearbody rest. destruct Hr as (Hra & Hrw).
    destruct (cells rest) as [|x xs] eqn:C.
    + split; [lia|exact H2w].
    + rewrite llen_set_wrapped, wrapped_set_wrapped. split; [lia|].
      assert (1 <= llen rest) by (unfold llen; rewrite C; cbn [length]; lia).
      repeat split; [lia|lia|exact Hrw].
  - apply Nat.ltb_ge in E. split; [lia|exact Hw].
Qed.

Lemma line_contract_fst_len len l :
  len < llen l -> llen (fst (line_contract len l)) = len.
Proof.
  intros H. pose proof (line_contract_spec len l) as S.
  destruct (line_contract len l) as [l' r]. cbn [fst]. destruct S as (S & _). lia.
Qed.

Lemma line_contract_rest len l l' x :
  line_contract len l = (l', Some x) ->
  1 <= llen x /\ llen x + len <= llen l /\ wrapped x = wrapped l /\ wrapped l' = true.
Proof.
  intros E. pose proof (line_contract_spec len l) as S. rewrite E in S.
  destruct S as (_ & A & B & C & D). auto.
Qed.

(** [Line::extend(other, len)]: never panics when [llen l <= len]; a [(true, _)] result
    has exactly [len] cells. *)
Lemma line_extend_spec l o len :
  llen l <= len ->
  exists l' b r, line_extend l o len = Ok (l', (b, r)) /\
    (b = true -> llen l' = len) /\
    llen l' <= len /\
    match b, r with
    | true, Some x => llen x <= llen o /\ wrapped x = wrapped o
    | true, None => wrapped l' = false
    | false, None => llen l' <= llen l + llen o /\ wrapped o = true
    | false, Some _ => False
    end.
Proof.
  intros Hle. unfold line_extend.
  replace (llen l <=? len) with true by (symmetry; apply Nat.leb_le; exact Hle).
  cbn [negb].
  destruct (len - llen l =? 0) eqn:E0.
  { apply Nat.eqb_eq in E0. exists l, true, (Some o). split; [reflexivity|].
    repeat split; lia. }
  apply Nat.eqb_neq in E0.
  destruct (wrapped l) eqn:Wl; cbn [negb].
  2: { exists (line_expand len default_pen l), true, (Some o). split; [reflexivity|].
       rewrite llen_expand_le by exact Hle. repeat split; lia. }
  set (o' := if wrapped o then o else line_trim o).
  assert (Ho : llen o' <= llen o /\ wrapped o' = wrapped o).
  { unfold o'. destruct (wrapped o) eqn:Wo.
    - split; [lia|exact Wo].
    - rewrite wrapped_trim. split; [apply llen_trim_le|exact Wo]. }
  clearbody o'. destruct Ho as (Hol & How).
  destruct (len - llen l <? llen o') eqn:E1.
  { apply Nat.ltb_lt in E1.
    eexists _, true, (Some _). split; [reflexivity|].
    rewrite llen_set_cells, app_length, firstn_length.
    rewrite llen_mk, firstn_length. cbn [wrapped].
    unfold llen in *. repeat split; try lia; exact How. }
  apply Nat.ltb_ge in E1.
  destruct (wrapped o') eqn:Wo'; cbn [negb].
  - eexists _, false, None. split; [reflexivity|].
    rewrite llen_set_cells, app_length. unfold llen in *.
    repeat split; try lia; congruence.
  - set (l'' := (l <| cells := cells l ++ cells o' |>) <| wrapped := false |>).
    assert (Hl : llen l'' = llen l + llen o' /\ wrapped l'' = false).
    { unfold l''. rewrite llen_set_wrapped, llen_set_cells, app_length, wrapped_set_wrapped.
      split; reflexivity. }
    clearbody l''. destruct Hl as (Hl1 & Hl2).
    destruct (llen l'' <? len) eqn:E2.
    + eexists _, true, None. split; [reflexivity|].
      rewrite llen_expand_le by lia. rewrite wrapped_expand. repeat split; try lia; exact Hl2.
    + apply Nat.ltb_ge in E2. eexists _, true, None. split; [reflexivity|].
      repeat split; try lia; exact Hl2.
Qed.

Lemma line_extend_no_panic l o len :
  llen l <= len -> exists x, line_extend l o len = Ok x.
Proof.
  intros H. destruct (line_extend_spec l o len H) as (l' & b & r & E & _). eauto.
Qed.

Lemma line_extend_true_len l o len l' r :
  line_extend l o len = Ok (l', (true, r)) -> llen l' = len.
Proof.
  intros E. assert (Hle : llen l <= len).
  { unfold line_extend in E. destruct (llen l <=? len) eqn:L; [apply Nat.leb_le; exact L|].
    discriminate E. }
  destruct (line_extend_spec l o len Hle) as (l2 & b & r2 & E2 & Hb & _).
  rewrite E in E2. injection E2 as -> <- _. apply Hb. reflexivity.
Qed.

(** * 2. The reflow loop *)

(** one iteration of [Reflow::next], as a function of the current line [l] and the
    remaining input [it]: new [rest], new iterator, emitted row (if any) *)
Definition rstep (c : nat) (l : line) (it : list line)
  : res (option line * list line * option line) :=
  match Nat.compare c (llen l) with
  | Lt => let '(l', r) := line_contract c l in Ok (r, it, Some l')
  | Eq => Ok (None, it, Some l)
  | Gt =>
    match it with
    | next :: it' =>
      x <- line_extend l next c ;;
      match x with
      | (l', (true, r)) => Ok (r, it', Some l')
      | (l', (false, _)) => Ok (Some l', it', None)
      end
    | [] =>
      l' <- line_expandM c default_pen l ;;
      Ok (None, [], Some (l' <| wrapped := false |>))
    end
  end.

(** the lines still to be processed *)
Definition pend (rest : option line) (iter : list line) : list line :=
  match rest with Some l => l :: iter | None => iter end.

Definition push (e : option line) (acc : list line) : list line :=
  match e with Some x => x :: acc | None => acc end.

Lemma reflow_go_S f c rest iter acc :
  reflow_go (S f) c rest iter acc =
  match pend rest iter with
  | [] => Ok (rev acc)
  | l :: it =>
    x <- rstep c l it ;;
    let '(r, it', e) := x in reflow_go f c r it' (push e acc)
  end.
Proof.
  assert (G : forall l it,
    match Nat.compare c (llen l) with
    | Lt => let '(l', r) := line_contract c l in reflow_go f c r it (l' :: acc)
    | Eq => reflow_go f c None it (l :: acc)
    | Gt =>
      match it with
      | next :: it' =>
        x <- line_extend l next c ;;
        match x with
        | (l', (true, r)) => reflow_go f c r it' (l' :: acc)
        | (l', (false, _)) => reflow_go f c (Some l') it' acc
        end
      | [] =>
        l' <- line_expandM c default_pen l ;;
        reflow_go f c None [] ((l' <| wrapped := false |>) :: acc)
      end
    end =
    (x <- rstep c l it ;; let '(r, it', e) := x in reflow_go f c r it' (push e acc))).
  { intros l it. unfold rstep. destruct (Nat.compare c (llen l)).
    - reflexivity.
    - destruct (line_contract c l) as [l' r]. reflexivity.
    - destruct it as [|next it'].
      + destruct (line_expandM c default_pen l); reflexivity.
      + destruct (line_extend l next c) as [[l' [[|] r]]|s]; reflexivity. }
  destruct rest as [l|]; [|destruct iter as [|l it]]; cbn [pend]; cbn [reflow_go].
  - apply G.
  - reflexivity.
  - apply G.
Qed.

(** the termination measure *)
Definition mu (rest : option line) (iter : list line) : nat :=
  total_cells iter + 2 * length iter + match rest with Some l => S (llen l) | None => 0 end.

Lemma total_cells_cons l it : total_cells (l :: it) = llen l + total_cells it.
Proof. reflexivity. Qed.

Lemma mu_pend rest iter l it :
  pend rest iter = l :: it -> S (llen l) + total_cells it + 2 * length it <= mu rest iter.
Proof.
  unfold mu, pend. destruct rest as [l0|]; intros E.
  - injection E as -> ->. lia.
  - subst iter. rewrite total_cells_cons. cbn [length]. lia.
Qed.

(** everything about one iteration: it never panics, the measure strictly decreases,
    an emitted row has exactly [c] cells, something is emitted unless work remains, and
    "last pending line is not wrapped" is preserved, with the last emitted row not wrapped. *)
Lemma rstep_spec c l it :
  1 <= c ->
  exists r it' e, rstep c l it = Ok (r, it', e) /\
    mu r it' < S (llen l) + total_cells it + 2 * length it /\
    (forall x, e = Some x -> llen x = c) /\
    (e = None -> pend r it' <> []) /\
    (last_not_wrapped (l :: it) ->
       last_not_wrapped (pend r it') /\
       (pend r it' = [] -> exists x, e = Some x /\ wrapped x = false)).
Proof.
  intros Hc. unfold rstep.
  destruct (Nat.compare_spec c (llen l)) as [Heq|Hlt|Hgt].
  - (* Eq *)
    exists None, it, (Some l). split; [reflexivity|]. unfold mu, pend.
    split; [lia|]. split; [intros x [= <-]; lia|]. split; [discriminate|].
    intros L. apply lnw_tail in L. destruct L as (L1 & L2).
    split; [exact L1|]. intros ->. eauto.
  - (* Lt: contract *)
    pose proof (line_contract_spec c l) as S.
    destruct (line_contract c l) as [l' r]. destruct S as (S1 & S2).
    exists r, it, (Some l'). split; [reflexivity|].
    split; [|split; [intros x [= <-]; lia|split; [discriminate|]]].
    + unfold mu. destruct r as [x|]; [destruct S2 as (_ & A & B & _)|]; lia.
    + intros L. destruct r as [x|]; cbn [pend].
      * destruct S2 as (_ & _ & _ & W). split; [|discriminate].
        eapply lnw_head; [exact W|exact L].
      * apply lnw_tail in L. destruct L as (L1 & L2). split; [exact L1|].
        intros ->. exists l'. split; [reflexivity|]. rewrite S2. apply L2. reflexivity.
  - (* Gt *)
    destruct it as [|next it'].
    + (* end of input: final expand *)
      rewrite line_expandM_ok by lia. cbn [bind].
      eexists None, [], (Some _). split; [reflexivity|]. unfold mu, pend. cbn [total_cells fold_right length].
      split; [lia|]. split; [|split; [discriminate|]].
      * intros x [= <-]. rewrite llen_set_wrapped. apply llen_expand_le. lia.
      * intros _. split; [exact I|]. intros _. eexists. split; [reflexivity|].
        apply wrapped_set_wrapped.
    + destruct (line_extend_spec l next c) as (l' & b & r & E & Hb & Hle & Hm); [lia|].
      rewrite E. cbn [bind]. rewrite total_cells_cons. cbn [length].
      destruct b.
      * (* a full row is emitted *)
        exists r, it', (Some l'). split; [reflexivity|].
        split; [|split; [intros x [= <-]; apply Hb; reflexivity|split; [discriminate|]]].
        -- unfold mu. destruct r as [x|]; [destruct Hm as (A & _)|]; lia.
        -- intros L. apply lnw_cons_cons in L. destruct r as [x|]; cbn [pend].
           ++ destruct Hm as (_ & W). split; [|discriminate].
              eapply lnw_head; [exact W|exact L].
           ++ apply lnw_tail in L. destruct L as (L1 & _). split; [exact L1|].
              intros _. exists l'. split; [reflexivity|exact Hm].
      * (* the next line was swallowed completely and was itself wrapped *)
        destruct r as [x|]; [contradiction|]. destruct Hm as (A & W).
        exists (Some l'), it', None. split; [reflexivity|].
        split; [unfold mu; lia|]. split; [discriminate|]. split; [discriminate|].
        intros L. apply lnw_cons_cons in L. cbn [pend]. split; [|discriminate].
        destruct it' as [|y r'].
        -- apply lnw_one in L. congruence.
        -- exact L.
Qed.

Lemma reflow_go_spec c :
  1 <= c -> forall fuel rest iter acc,
  mu rest iter < fuel ->
  exists out, reflow_go fuel c rest iter acc = Ok out /\
    (Forall (LineInv c) acc -> Forall (LineInv c) out) /\
    (pend rest iter <> [] \/ acc <> [] -> out <> []) /\
    (last_not_wrapped (pend rest iter) -> (pend rest iter = [] -> lnw_hd acc) ->
     last_not_wrapped out).
Proof.
  intros Hc. induction fuel as [|f IH]; intros rest iter acc Hmu; [lia|].
  rewrite reflow_go_S. destruct (pend rest iter) as [|l it] eqn:P.
  - exists (rev acc). split; [reflexivity|]. split; [|split].
    + intros H. apply Forall_rev. exact H.
    + intros [H|H]; [congruence|]. destruct acc; [congruence|]. cbn [rev].
      intros E. apply app_eq_nil in E. destruct E as (_ & E). discriminate E.
    + intros _ H. apply lnw_rev. apply H. reflexivity.
  - apply mu_pend in P.
    destruct (rstep_spec c l it Hc) as (r & it' & e & E & Hm & Hw & Hne & Hl).
    rewrite E. cbn [bind].
    destruct (IH r it' (push e acc)) as (out & Eo & O1 & O2 & O3); [lia|].
    exists out. split; [exact Eo|]. split; [|split].
    + intros H. apply O1. destruct e as [x|]; cbn [push]; [|exact H].
      constructor; [apply LineInv_llen; apply Hw; reflexivity|exact H].
    + intros _. apply O2. destruct e as [x|]; cbn [push].
      * right. discriminate.
      * left. apply Hne. reflexivity.
    + intros L _. destruct (Hl L) as (L1 & L2). apply O3; [exact L1|].
      intros Pn. destruct (L2 Pn) as (x & -> & W). exact W.
Qed.

(** [reflow()] is total for every input as soon as the target width is positive: the
    fuel suffices, no slice/underflow panic, and the width [assert!] (site 26) holds.
    No hypothesis on the input lines is needed for this. *)
Theorem reflow_total : forall ls c,
  1 <= c ->
  exists out, reflowM ls c = Ok out /\ Forall (LineInv c) out /\
    (ls <> [] -> out <> []) /\ (last_not_wrapped ls -> last_not_wrapped out).
Proof.
  intros ls c Hc. unfold reflowM.
  destruct (reflow_go_spec c Hc (reflow_fuel ls) None ls []) as (out & E & O1 & O2 & O3).
  { unfold mu, reflow_fuel. lia. }
  rewrite E. cbn [bind]. specialize (O1 (Forall_nil _)).
  assert (F : forallb (fun l => llen l =? c) out = true).
  { apply forallb_forall. intros x Hx. apply Nat.eqb_eq.
    rewrite Forall_forall in O1. apply O1. exact Hx. }
  rewrite F. exists out. split; [reflexivity|]. split; [exact O1|]. split.
  - intros H. apply O2. left. exact H.
  - intros L. apply O3; [exact L|]. intros _. exact I.
Qed.

Print Assumptions reflow_total.

Theorem reflow_ok : forall ls c c0,
  1 <= c -> Forall (LineInv c0) ls -> 1 <= c0 -> last_not_wrapped ls ->
  exists out, reflowM ls c = Ok out /\ Forall (LineInv c) out /\ last_not_wrapped out
    /\ (ls <> [] -> out <> []).
Proof.
  intros ls c c0 Hc _ _ L. destruct (reflow_total ls c Hc) as (out & E & F & N & W).
  exists out. auto.
Qed.

Print Assumptions reflow_ok.
