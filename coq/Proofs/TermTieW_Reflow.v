(** reflow (leaf of Proofs/TermTieW.v; see Proofs/TermTieW_Core.v for the method) *)
From Coq Require Import Lia ZArith ZifyBool ZifyNat ZifyN.
From Avt Require Import Oracles.Step Proofs.Inv Proofs.TermEasy Gen.TermFns Proofs.TermTie_Core Proofs.InvStep
  Proofs.TermTieW_Core.
Ltac Zify.zify_post_hook ::= Z.div_mod_to_equations.
Local Open Scope Z_scope.

Lemma w_reflow_eq t : ZW t -> w_reflow Om (zabs t) (wabs t) = wres (reflow t).
Proof. intros H. w_tie t H. Qed.

