(** Property C11, terminal level: the pure segments of the script written by [Terminal::dump]
    (everything except the buffer replays, the screen switches and the re-printed cell).
    For each segment: the functions it makes the parser emit ([emits_*]) and what these
    functions do to an arbitrary record ([pure_*]). *)

From Coq Require Import Lia ZArith ZifyBool ZifyNat ZifyN String.
From Avt Require Import Model.Vt Spec.Screen Oracles.Rel Proofs.Inv Proofs.Tabs Proofs.Frames
  Proofs.PenInv Proofs.DumpParserSgr Proofs.DumpParserPen Proofs.DumpParserEmits
  Proofs.DumpScriptBase Proofs.DumpScriptExec.
Ltac Zify.zify_post_hook ::= Z.div_mod_to_equations.
Local Open Scope nat_scope.

Notation dp_ops := Proofs.DumpParserPen.pen_ops.

(** * pens *)

Lemma pen_wf_colors p : pen_wf p -> pen_colors_ok p.
Proof.
  intros [[Hf Hb] _]. split.
  - destruct (foreground p) as [[i|r g b]|]; cbn in *; auto.
  - destruct (background p) as [[i|r g b]|]; cbn in *; auto.
Qed.

Lemma emits_pen p : pen_wf p -> emits (pen_dump p) [Sgr (dp_ops p)].
Proof. intros H. apply emits_pen_dump, pen_wf_colors, H. Qed.

Lemma pure_pen E p : pen_wf p -> execute E (Sgr (dp_ops p)) = Ok (E <| tpen := p |>).
Proof. intros [_ H]. rewrite x_sgr, pen_ops_rebuild by exact H. reflexivity. Qed.

(** * s2: tab stops *)

Definition fs_tabs (l : list nat) : list func :=
  Ctc CtcClearAll :: flat_map (fun tb => [Cha (N.of_nat (tb + 1)); Ctc CtcSet]) l.

Definition txt_tabs (l : list nat) : list N :=
  CSI :: str "5W" ++ flat_map (fun tb => CSI :: show_nat (tb + 1) ++ [96; ESC; 91; 87]%N) l.

Lemma emits_tabs l : Forall (fun tb => (N.of_nat (tb + 1) < 65536)%N) l -> emits (txt_tabs l) (fs_tabs l).
Proof.
  intros H. unfold txt_tabs, fs_tabs.
  apply (emits_app [155; 53; 87]%N _ [Ctc CtcClearAll]); [apply emits_ctc_clear_all|].
  apply emits_flat_map. intros tb Hin. rewrite Forall_forall in H. specialize (H tb Hin).
  replace (CSI :: show_nat (tb + 1) ++ [96; ESC; 91; 87]%N)
    with ((155%N :: show_N (N.of_nat (tb + 1)) ++ [96%N]) ++ [27; 91; 87]%N)
    by (cbn [app]; rewrite <- app_assoc; reflexivity).
  apply (emits_app _ _ [Cha (N.of_nat (tb + 1))] [Ctc CtcSet]); [apply emits_cha; exact H|apply emits_ctc_set].
Qed.

Lemma pure_tabs_go : forall l acc E,
  tabs E = acc -> sorted_lt (acc ++ l) -> Forall (fun s => 0 < s < cols E) l ->
  exists x z,
    foldM execute (flat_map (fun tb => [Cha (N.of_nat (tb + 1)); Ctc CtcSet]) l) E
    = Ok (E <| tabs := acc ++ l |> <| cur_col := x |> <| pend := z |>).
Proof.
  induction l as [|tb l IH]; intros acc E Ht Hs Hb.
  - exists (cur_col E), (pend E). cbn [flat_map foldM]. rewrite app_nil_r, <- Ht. destruct E; reflexivity.
  - inversion Hb as [|? ? Htb Hb']; subst.
    cbn [flat_map app foldM]. rewrite x_cha. cbn [bind].
    replace (Nat.min tb (cols E - 1)) with tb by lia.
    rewrite x_ctc_set by (rsimp; lia). cbn [bind]. rsimp.
    assert (Hlt : Forall (fun x => x < tb) (tabs E)).
    { apply sorted_lt_snoc_lt. apply (sorted_lt_app_l _ l). rewrite <- app_assoc. exact Hs. }
    rewrite (tabs_set_snoc tb _ Hlt).
    assert (Hs' : sorted_lt ((tabs E ++ [tb]) ++ l)) by (rewrite <- app_assoc; exact Hs).
    match goal with |- context [foldM execute _ ?E1] =>
      assert (H1 : tabs E1 = tabs E ++ [tb]) by reflexivity;
      destruct (IH (tabs E ++ [tb]) E1 H1 Hs' Hb') as (x & z & ->)
    end.
    exists x, z. rsimp. rewrite <- app_assoc. reflexivity.
Qed.

Lemma pure_tabs E l :
  TabsInv (cols E) l ->
  exists x z, foldM execute (fs_tabs l) E = Ok (E <| tabs := l |> <| cur_col := x |> <| pend := z |>).
Proof.
  intros [Hs Hb]. unfold fs_tabs. cbn [foldM]. rewrite x_ctc_clear. cbn [bind].
  assert (H0 : tabs (E <| tabs := [] |>) = []) by reflexivity.
  destruct (pure_tabs_go l [] (E <| tabs := [] |>) H0 Hs Hb) as (x & z & ->).
  exists x, z. reflexivity.
Qed.

(** * s3 / s5: a saved context *)

Definition fs_ctx (c : saved_ctx) : list func :=
  if negb (ctx_is_default c) then
    (if negb (sc_awm c) then [Decrst [AutoWrap]] else [])
    ++ (if sc_origin c then [Decset [Origin]] else [])
    ++ [Cup (N.of_nat (sc_row c + 1)) (N.of_nat (sc_col c + 1))]
    ++ [Sgr (dp_ops (sc_pen c))]
    ++ [Decsc]
    ++ (if negb (sc_awm c) then [Decset [AutoWrap]] else [])
    ++ (if sc_origin c then [Decrst [Origin]] else [])
  else [].

Lemma cons_app_assoc4 {A} (x : A) a b c d r :
  x :: a ++ b ++ c ++ d ++ r = (x :: a ++ b ++ c ++ d) ++ r.
Proof. cbn [app]. rewrite <- !app_assoc. reflexivity. Qed.

Lemma emits_if (b : bool) s fs : emits s fs -> emits (if b then s else []) (if b then fs else []).
Proof. intros H. destruct b; [exact H|apply emits_nil]. Qed.

Lemma emits_ctx c :
  pen_wf (sc_pen c) -> (N.of_nat (sc_row c + 1) < 65536)%N -> (N.of_nat (sc_col c + 1) < 65536)%N ->
  emits (dump_ctx c) (fs_ctx c).
Proof.
  intros Hp Hr Hc. unfold dump_ctx, fs_ctx. destruct (negb (ctx_is_default c)); [|apply emits_nil].
  change (CSI :: str "?7l") with [155; 63; 55; 108]%N.
  change (CSI :: str "?6h") with [155; 63; 54; 104]%N.
  change (CSI :: str "?7h") with [155; 63; 55; 104]%N.
  change (CSI :: str "?6l") with [155; 63; 54; 108]%N.
  change CSI with 155%N. change ESC with 27%N. unfold show_nat.
  apply emits_app; [apply (emits_if _ _ _ emits_decrst_awm)|].
  apply emits_app; [apply (emits_if _ _ _ emits_decset_origin)|].
  rewrite cons_app_assoc4.
  apply emits_app; [apply emits_cup; assumption|].
  apply emits_app; [apply emits_pen; exact Hp|].
  apply emits_app; [apply emits_decsc|].
  apply emits_app; [apply (emits_if _ _ _ emits_decset_awm)|].
  apply (emits_if _ _ _ emits_decrst_origin).
Qed.

Lemma spec_abs_row_full E r :
  top E = 0 -> bot E = rows E - 1 -> spec_abs_row E r = Nat.min r (rows E - 1).
Proof. intros H1 H2. unfold spec_abs_row. rewrite H1, H2. destruct (org E); lia. Qed.

Lemma pure_ctx E c :
  org E = false -> awm E = true -> top E = 0 -> bot E = rows E - 1 -> sctx E = default_ctx ->
  pen_wf (sc_pen c) ->
  exists x y z p,
    foldM execute (fs_ctx c) E
    = Ok (E <| sctx := clamp_ctx c (cols E) (rows E) |> <| cur_col := x |> <| cur_row := y |>
            <| pend := z |> <| tpen := p |>).
Proof.
  intros Ho Ha Ht Hb Hs Hp. unfold fs_ctx. destruct (ctx_is_default c) eqn:D; cbn [negb].
  - apply ctx_is_default_eq in D. subst c. rewrite clamp_default, <- Hs.
    exists (cur_col E), (cur_row E), (pend E), (tpen E). cbn [foldM]. destruct E; reflexivity.
  - destruct c as [cc cr p o a]. cbn [sc_col sc_row sc_pen sc_origin sc_awm] in *.
    exists (if o then 0 else Nat.min cc (cols E - 1)), (if o then 0 else Nat.min cr (rows E - 1)), false, p.
    destruct a, o; cbn [negb app foldM];
      repeat (first [rewrite x_awm_off | rewrite x_home_on | rewrite x_cup | rewrite (pure_pen _ _ Hp)
                    | rewrite x_decsc | rewrite x_awm_on | rewrite x_home_off]; cbn [bind]);
      rewrite spec_abs_row_full by (rsimp; assumption); rsimp;
      unfold clamp_ctx; rsimp;
      repeat rewrite (Nat.min_l (Nat.min _ _) _) by lia;
      destruct E; rsimp_in Ho; rsimp_in Ha; subst; reflexivity.
Qed.

(** * s7 - s9: origin mode, margins, cursor *)

Definition fs_org (t : term) : list func := if org t then [Decset [Origin]] else [].
Definition fs_margins (t : term) : list func :=
  if (0 <? top t) || (bot t <? rows t - 1)
  then [Decstbm (N.of_nat (top t + 1)) (N.of_nat (bot t + 1))] else [].
Definition fs_cursor (t : term) : list func :=
  [Cup (N.of_nat ((if org t then cur_row t - top t else cur_row t) + 1)) (N.of_nat (cur_col t + 1))].

Lemma pure_cursor E t :
  TInv t -> (top t < bot t \/ (top t = 0 /\ bot t = rows t - 1)) -> kf1_C11 t = false ->
  cols E = cols t -> rows E = rows t -> org E = false -> top E = 0 -> bot E = rows E - 1 ->
  foldM execute (fs_org t ++ fs_margins t ++ fs_cursor t) E
  = Ok (E <| org := org t |> <| top := top t |> <| bot := bot t |>
          <| cur_col := Nat.min (cur_col t) (cols t - 1) |> <| cur_row := cur_row t |>
          <| pend := false |>).
Proof.
  intros HT HM Hk Hc Hr Ho Htop Hbot.
  pose proof (ti_margins _ HT) as [M1 M2]. pose proof (ti_row _ HT) as Hrow.
  pose proof (ti_rows _ HT) as Hrows.
  destruct E as [ec er eb eo ea el ex ey evis ep eg0 eg1 eac etb ei eog eaw enl eck epd etp ebt esc easc ed ext].
  rsimp_in Hc. rsimp_in Hr. rsimp_in Ho. rsimp_in Htop. rsimp_in Hbot. subst ec er eog etp ebt.
  unfold kf1_C11 in Hk. unfold fs_org, fs_margins, fs_cursor.
  destruct (org t) eqn:Eo; cbn [andb] in Hk;
    destruct ((0 <? top t) || (bot t <? rows t - 1)) eqn:Em; cbn [app foldM];
    repeat (first [rewrite x_home_on | rewrite x_decstbm by (rsimp; lia) | rewrite x_cup]; cbn [bind]);
    unfold spec_abs_row; rsimp.
  - replace (Nat.min (Nat.max (top t + (cur_row t - top t)) (top t)) (bot t)) with (cur_row t) by lia.
    reflexivity.
  - replace (Nat.min (Nat.max (0 + (cur_row t - top t)) 0) (rows t - 1)) with (cur_row t) by lia.
    replace (top t) with 0 by lia. replace (bot t) with (rows t - 1) by lia. reflexivity.
  - replace (Nat.min (Nat.max (0 + cur_row t) 0) (rows t - 1)) with (cur_row t) by lia.
    reflexivity.
  - replace (Nat.min (Nat.max (0 + cur_row t) 0) (rows t - 1)) with (cur_row t) by lia.
    replace (top t) with 0 by lia. replace (bot t) with (rows t - 1) by lia. reflexivity.
Qed.

Lemma emits_org t : emits (if org t then CSI :: str "?6h" else []) (fs_org t).
Proof. unfold fs_org. apply (emits_if _ _ _ emits_decset_origin). Qed.

Lemma emits_margins t :
  TInv t -> dumpable t = true ->
  emits (if (0 <? top t) || (bot t <? rows t - 1)
         then CSI :: show_nat (top t + 1) ++ [59%N] ++ show_nat (bot t + 1) ++ [114%N] else [])
        (fs_margins t).
Proof.
  intros HT HD. unfold fs_margins. apply emits_if.
  pose proof (ti_margins _ HT) as [M1 M2]. unfold dumpable in HD.
  apply emits_decstbm; lia.
Qed.

Lemma emits_cursor t :
  TInv t -> dumpable t = true -> kf1_C11 t = false ->
  emits (if org t then
           if (cur_row t <? top t) || (bot t <? cur_row t) then
             CSI :: [117%N]
             ++ (match Nat.compare (cur_col t) (sc_col (sctx t)) with
                 | Lt => CSI :: show_nat (sc_col (sctx t) - cur_col t) ++ [68%N]
                 | Gt => CSI :: show_nat (cur_col t - sc_col (sctx t)) ++ [67%N]
                 | Eq => []
                 end)
             ++ (match Nat.compare (cur_row t) (sc_row (sctx t)) with
                 | Lt => CSI :: show_nat (sc_row (sctx t) - cur_row t) ++ [65%N]
                 | Gt => CSI :: show_nat (cur_row t - sc_row (sctx t)) ++ [66%N]
                 | Eq => []
                 end)
           else CSI :: show_nat (cur_row t - top t + 1) ++ [59%N] ++ show_nat (cur_col t + 1) ++ [72%N]
         else CSI :: show_nat (cur_row t + 1) ++ [59%N] ++ show_nat (cur_col t + 1) ++ [72%N])
        (fs_cursor t).
Proof.
  intros HT HD Hk. unfold fs_cursor, kf1_C11 in *.
  pose proof (ti_row _ HT) as Hrow. pose proof (ti_col _ HT) as Hcol. unfold dumpable in HD.
  destruct (org t); cbn [andb] in Hk; [rewrite Hk|]; apply emits_cup; lia.
Qed.

(** * s9c - s14: pen, cursor visibility, charsets, modes *)

Section Modes.
Variable t : term.

Lemma c_vis E : cur_vis E = true ->
  foldM execute (if negb (cur_vis t) then [Decrst [TextCursorEnable]] else []) E
  = Ok (E <| cur_vis := cur_vis t |>).
Proof. intros H. destruct (cur_vis t); [destruct E; rsimp_in H; subst; reflexivity|reflexivity]. Qed.

Lemma c_cs0 E : cs0 E = CsAscii ->
  foldM execute (match cs0 t with CsDrawing => [Gzd4 CsDrawing] | CsAscii => [] end) E
  = Ok (E <| cs0 := cs0 t |>).
Proof. intros H. destruct (cs0 t); [destruct E; rsimp_in H; subst; reflexivity|reflexivity]. Qed.

Lemma c_cs1 E : cs1 E = CsAscii ->
  foldM execute (match cs1 t with CsDrawing => [G1d4 CsDrawing] | CsAscii => [] end) E
  = Ok (E <| cs1 := cs1 t |>).
Proof. intros H. destruct (cs1 t); [destruct E; rsimp_in H; subst; reflexivity|reflexivity]. Qed.

Lemma c_acs E : acs E = 0 -> acs t <= 1 ->
  foldM execute (if acs t =? 1 then [So] else []) E = Ok (E <| acs := acs t |>).
Proof.
  intros H H1. destruct (Nat.eqb_spec (acs t) 1) as [e|e].
  - rewrite e. reflexivity.
  - replace (acs t) with 0 by lia. destruct E; rsimp_in H; subst; reflexivity.
Qed.

Lemma c_ins E : ins E = false ->
  foldM execute (if ins t then [Sm [Insert]] else []) E = Ok (E <| ins := ins t |>).
Proof. intros H. destruct (ins t); [reflexivity|destruct E; rsimp_in H; subst; reflexivity]. Qed.

Lemma c_awm E : awm E = true ->
  foldM execute (if negb (awm t) then [Decrst [AutoWrap]] else []) E = Ok (E <| awm := awm t |>).
Proof. intros H. destruct (awm t); [destruct E; rsimp_in H; subst; reflexivity|reflexivity]. Qed.

Lemma c_nlm E : nlm E = false ->
  foldM execute (if nlm t then [Sm [NewLine]] else []) E = Ok (E <| nlm := nlm t |>).
Proof. intros H. destruct (nlm t); [reflexivity|destruct E; rsimp_in H; subst; reflexivity]. Qed.

Lemma c_ckm E : ckm E = false ->
  foldM execute (if ckm t then [Decset [CursorKeys]] else []) E = Ok (E <| ckm := ckm t |>).
Proof. intros H. destruct (ckm t); [reflexivity|destruct E; rsimp_in H; subst; reflexivity]. Qed.

Definition fs_modes : list func :=
  [Sgr (dp_ops (tpen t))]
  ++ (if negb (cur_vis t) then [Decrst [TextCursorEnable]] else [])
  ++ (match cs0 t with CsDrawing => [Gzd4 CsDrawing] | CsAscii => [] end)
  ++ (match cs1 t with CsDrawing => [G1d4 CsDrawing] | CsAscii => [] end)
  ++ (if acs t =? 1 then [So] else [])
  ++ (if ins t then [Sm [Insert]] else [])
  ++ (if negb (awm t) then [Decrst [AutoWrap]] else [])
  ++ (if nlm t then [Sm [NewLine]] else [])
  ++ (if ckm t then [Decset [CursorKeys]] else []).

Lemma pure_modes E :
  pen_wf (tpen t) -> acs t <= 1 ->
  cur_vis E = true -> cs0 E = CsAscii -> cs1 E = CsAscii -> acs E = 0 -> ins E = false ->
  awm E = true -> nlm E = false -> ckm E = false ->
  foldM execute fs_modes E
  = Ok (E <| tpen := tpen t |> <| cur_vis := cur_vis t |> <| cs0 := cs0 t |> <| cs1 := cs1 t |>
          <| acs := acs t |> <| ins := ins t |> <| awm := awm t |> <| nlm := nlm t |> <| ckm := ckm t |>).
Proof.
  intros Hp Ha H1 H2 H3 H4 H5 H6 H7 H8. unfold fs_modes.
  eapply foldM_app_ok; [rewrite foldM_one; apply pure_pen; exact Hp|].
  eapply foldM_app_ok; [apply c_vis; exact H1|].
  eapply foldM_app_ok; [apply c_cs0; exact H2|].
  eapply foldM_app_ok; [apply c_cs1; exact H3|].
  eapply foldM_app_ok; [apply c_acs; [exact H4|exact Ha]|].
  eapply foldM_app_ok; [apply c_ins; exact H5|].
  eapply foldM_app_ok; [apply c_awm; exact H6|].
  eapply foldM_app_ok; [apply c_nlm; exact H7|].
  apply c_ckm. exact H8.
Qed.

Lemma emits_modes :
  pen_wf (tpen t) ->
  emits ((pen_dump (tpen t) ++ (if negb (cur_vis t) then CSI :: str "?25l" else []))
         ++ ((match cs0 t with CsDrawing => ESC :: str "(0" | CsAscii => [] end)
             ++ (match cs1 t with CsDrawing => ESC :: str ")0" | CsAscii => [] end)
             ++ (if (acs t =? 1)%nat then [14%N] else []))
         ++ (if ins t then CSI :: str "4h" else [])
         ++ (if negb (awm t) then CSI :: str "?7l" else [])
         ++ (if nlm t then CSI :: str "20h" else [])
         ++ (if ckm t then CSI :: str "?1h" else []))
        fs_modes.
Proof.
  intros Hp. unfold fs_modes. rewrite <- !app_assoc.
  apply emits_app; [apply emits_pen; exact Hp|].
  apply emits_app; [apply (emits_if _ _ _ emits_decrst_cursor)|].
  apply emits_app; [destruct (cs0 t); [apply emits_nil|apply emits_g0_drawing]|].
  apply emits_app; [destruct (cs1 t); [apply emits_nil|apply emits_g1_drawing]|].
  apply emits_app; [apply (emits_if _ _ _ emits_so)|].
  apply emits_app; [apply (emits_if _ _ _ emits_sm_insert)|].
  apply emits_app; [apply (emits_if _ _ _ emits_decrst_awm)|].
  apply emits_app; [apply (emits_if _ _ _ emits_sm_newline)|].
  apply (emits_if _ _ _ emits_decset_ckm).
Qed.
End Modes.

Print Assumptions pure_modes.
Print Assumptions pure_cursor.
Print Assumptions pure_ctx.
Print Assumptions pure_tabs.
