(** Generic list lemmas about the list primitives of [Model/Base.v]
    ([upd], [fill_range], [on_range], [rotl], [rotr], [insert_n]) and the stdlib
    [firstn]/[skipn]/[nth]/[nth_error]/[repeat]/[Forall].  No model-specific content. *)

From Avt Require Import Model.Base.
From Coq Require Import Lia.

Ltac list_len :=
  repeat (rewrite ?app_length, ?firstn_length, ?skipn_length, ?repeat_length, ?map_length);
  cbn [length]; try lia.

Section ListLemmas.
  Context {A : Type}.
  Implicit Types (l t : list A) (x : A) (f g : A -> A) (P : A -> Prop).

  (** * [firstn] / [skipn] / [nth_error] *)

  Lemma skipn_add n m l : skipn n (skipn m l) = skipn (m + n) l.
  Proof.
    revert l; induction m as [|m IH]; intros l; [reflexivity|].
    destruct l as [|a l]; cbn [skipn Nat.add].
    - destruct n; reflexivity.
    - apply IH.
  Qed.

  Lemma nth_error_skipn_add n i l : nth_error (skipn n l) i = nth_error l (n + i).
  Proof.
    revert l; induction n as [|n IH]; intros l; [reflexivity|].
    destruct l as [|a l]; cbn [skipn Nat.add nth_error].
    - destruct i; reflexivity.
    - apply IH.
  Qed.

  Lemma nth_error_firstn_lt n i l : i < n -> nth_error (firstn n l) i = nth_error l i.
  Proof.
    revert i l; induction n as [|n IH]; intros i l Hi; [lia|].
    destruct l as [|a l]; [reflexivity|].
    destruct i as [|i]; cbn [firstn nth_error]; [reflexivity|].
    apply IH; lia.
  Qed.

  Lemma nth_error_nth_lt l i d : i < length l -> nth_error l i = Some (nth i l d).
  Proof. intros H; apply nth_error_nth'; exact H. Qed.

  Lemma skipn_nth_error_cons l i x :
    nth_error l i = Some x -> skipn i l = x :: skipn (S i) l.
  Proof.
    revert i; induction l as [|a l IH]; intros i H; destruct i as [|i];
      cbn [nth_error] in H; try discriminate.
    - inversion H; reflexivity.
    - cbn [skipn]. apply IH; exact H.
  Qed.

  Lemma firstn_skipn_nth_error l i x :
    nth_error l i = Some x -> l = firstn i l ++ x :: skipn (S i) l.
  Proof.
    intros H. rewrite <- (skipn_nth_error_cons _ _ _ H). symmetry; apply firstn_skipn.
  Qed.

  Lemma firstn_app_exact l1 l2 n : length l1 = n -> firstn n (l1 ++ l2) = l1.
  Proof.
    intros <-. rewrite firstn_app, Nat.sub_diag, firstn_O, app_nil_r.
    apply firstn_all2; lia.
  Qed.

  Lemma skipn_app_exact l1 l2 n : length l1 = n -> skipn n (l1 ++ l2) = l2.
  Proof.
    intros <-. rewrite skipn_app, Nat.sub_diag, skipn_O.
    rewrite skipn_all2 by lia. reflexivity.
  Qed.

  Lemma firstn_succ_nth_error l i x :
    nth_error l i = Some x -> firstn (S i) l = firstn i l ++ [x].
  Proof.
    revert i; induction l as [|a l IH]; intros i H; destruct i as [|i];
      cbn [nth_error] in H; try discriminate.
    - inversion H; reflexivity.
    - cbn [firstn app]. f_equal. apply IH; exact H.
  Qed.

  Lemma Forall_firstn_of P n l : Forall P l -> Forall P (firstn n l).
  Proof.
    intros H. rewrite <- (firstn_skipn n l) in H. apply Forall_app in H. apply H.
  Qed.

  Lemma Forall_skipn_of P n l : Forall P l -> Forall P (skipn n l).
  Proof.
    intros H. rewrite <- (firstn_skipn n l) in H. apply Forall_app in H. apply H.
  Qed.

  Lemma Forall_repeat_of P x n : P x -> Forall P (repeat x n).
  Proof. intros H; induction n; cbn [repeat]; constructor; assumption. Qed.

  Lemma Forall_nth_error P l i x : Forall P l -> nth_error l i = Some x -> P x.
  Proof.
    intros H E. rewrite Forall_forall in H. apply H. eapply nth_error_In; exact E.
  Qed.

  (** * [upd] *)

  Lemma upd_eq l i f x :
    nth_error l i = Some x -> upd i f l = firstn i l ++ f x :: skipn (S i) l.
  Proof.
    intros H. unfold upd. rewrite (skipn_nth_error_cons _ _ _ H). reflexivity.
  Qed.

  Lemma upd_ge l i f : length l <= i -> upd i f l = l.
  Proof. intros H. unfold upd. rewrite skipn_all2 by exact H. reflexivity. Qed.

  Lemma upd_nil i f : upd i f [] = [].
  Proof. apply upd_ge; cbn [length]; lia. Qed.

  Lemma upd_length i f l : length (upd i f l) = length l.
  Proof.
    destruct (nth_error l i) as [x|] eqn:E.
    - rewrite (upd_eq _ _ _ _ E).
      rewrite (firstn_skipn_nth_error _ _ _ E) at 3.
      rewrite !app_length. reflexivity.
    - apply nth_error_None in E. rewrite upd_ge by exact E. reflexivity.
  Qed.

  Lemma upd_ext i f g l :
    (forall x, nth_error l i = Some x -> f x = g x) -> upd i f l = upd i g l.
  Proof.
    intros H. destruct (nth_error l i) as [x|] eqn:E.
    - rewrite !(upd_eq _ _ _ _ E), (H x eq_refl). reflexivity.
    - apply nth_error_None in E. rewrite !upd_ge by exact E. reflexivity.
  Qed.

  Lemma upd_const l i f x :
    nth_error l i = Some x -> upd i (fun _ => f x) l = upd i f l.
  Proof.
    intros E. apply upd_ext. intros y Hy. rewrite E in Hy. inversion Hy; reflexivity.
  Qed.

  Lemma upd_app_r l1 l2 i f : upd (length l1 + i) f (l1 ++ l2) = l1 ++ upd i f l2.
  Proof.
    unfold upd. rewrite skipn_app, skipn_all2 by lia.
    replace (length l1 + i - length l1) with i by lia. cbn [app].
    destruct (skipn i l2) as [|y r]; [reflexivity|].
    rewrite firstn_app, firstn_all2 by lia.
    replace (length l1 + i - length l1) with i by lia.
    rewrite <- app_assoc. reflexivity.
  Qed.

  Lemma upd_app_l l1 l2 i f : i < length l1 -> upd i f (l1 ++ l2) = upd i f l1 ++ l2.
  Proof.
    intros Hi. destruct (nth_error l1 i) as [x|] eqn:E.
    - rewrite (upd_eq l1 _ _ _ E).
      assert (E' : nth_error (l1 ++ l2) i = Some x) by (rewrite nth_error_app1; assumption).
      rewrite (upd_eq _ _ _ _ E').
      rewrite firstn_app. replace (i - length l1) with 0 by lia. rewrite firstn_O, app_nil_r.
      rewrite skipn_app. replace (S i - length l1) with 0 by lia. rewrite skipn_O.
      rewrite <- app_assoc. reflexivity.
    - apply nth_error_None in E. lia.
  Qed.

  (** the shape produced by [with_row]: overwrite position [n + r] with the new value of the
      element found there *)
  Lemma upd_split_const l n r f x :
    n + r < length l -> nth_error l (n + r) = Some x ->
    upd (n + r) (fun _ => f x) l = firstn n l ++ upd r f (skipn n l).
  Proof.
    intros Hlt E.
    transitivity (upd (length (firstn n l) + r) (fun _ => f x) (firstn n l ++ skipn n l)).
    - rewrite firstn_skipn, firstn_length, Nat.min_l by lia. reflexivity.
    - rewrite upd_app_r. f_equal. apply upd_const.
      rewrite nth_error_skipn_add. exact E.
  Qed.

  Lemma nth_error_upd_same i f l :
    nth_error (upd i f l) i = option_map f (nth_error l i).
  Proof.
    destruct (nth_error l i) as [x|] eqn:E.
    - rewrite (upd_eq _ _ _ _ E).
      assert (Hi : i < length l) by (apply nth_error_Some; congruence).
      rewrite nth_error_app2 by (rewrite firstn_length; lia).
      rewrite firstn_length, Nat.min_l by lia. rewrite Nat.sub_diag. reflexivity.
    - pose proof E as E'. apply nth_error_None in E'. rewrite upd_ge by exact E'.
      rewrite E. reflexivity.
  Qed.

  Lemma nth_error_upd_other i j f l :
    i <> j -> nth_error (upd i f l) j = nth_error l j.
  Proof.
    intros Hij. destruct (nth_error l i) as [x|] eqn:E.
    - rewrite (upd_eq _ _ _ _ E).
      assert (Hi : i < length l) by (apply nth_error_Some; congruence).
      destruct (Nat.lt_ge_cases j i) as [Hlt|Hge].
      + rewrite nth_error_app1 by (rewrite firstn_length; lia).
        apply nth_error_firstn_lt; exact Hlt.
      + rewrite nth_error_app2 by (rewrite firstn_length; lia).
        rewrite firstn_length, Nat.min_l by lia.
        destruct (j - i) as [|k] eqn:Ek; [lia|]. cbn [nth_error].
        rewrite nth_error_skipn_add. f_equal. lia.
    - apply nth_error_None in E. rewrite upd_ge by exact E. reflexivity.
  Qed.

  Lemma nth_upd_same i f l d : i < length l -> nth i (upd i f l) d = f (nth i l d).
  Proof.
    intros Hi. apply nth_error_nth.
    rewrite nth_error_upd_same, (nth_error_nth_lt l i d Hi). reflexivity.
  Qed.

  Lemma nth_upd_other i j f l d : i <> j -> nth j (upd i f l) d = nth j l d.
  Proof.
    intros Hij. destruct (Nat.lt_ge_cases j (length l)) as [Hlt|Hge].
    - apply nth_error_nth. rewrite nth_error_upd_other by exact Hij.
      apply nth_error_nth_lt; exact Hlt.
    - rewrite !nth_overflow; [reflexivity|exact Hge|rewrite upd_length; exact Hge].
  Qed.

  Lemma upd_Forall P i f l :
    Forall P l -> (forall x, nth_error l i = Some x -> P x -> P (f x)) -> Forall P (upd i f l).
  Proof.
    intros HF Hf. destruct (nth_error l i) as [x|] eqn:E.
    - rewrite (upd_eq _ _ _ _ E).
      apply Forall_app; split; [apply Forall_firstn_of; exact HF|].
      constructor; [|apply Forall_skipn_of; exact HF].
      apply (Hf x eq_refl). eapply Forall_nth_error; eassumption.
    - apply nth_error_None in E. rewrite upd_ge by exact E. exact HF.
  Qed.

  Lemma firstn_upd_le n i f l : n <= i -> firstn n (upd i f l) = firstn n l.
  Proof.
    intros Hn. destruct (nth_error l i) as [x|] eqn:E.
    - rewrite (upd_eq _ _ _ _ E).
      assert (Hi : i < length l) by (apply nth_error_Some; congruence).
      rewrite firstn_app, firstn_firstn, firstn_length.
      replace (n - Nat.min i (length l)) with 0 by lia.
      rewrite firstn_O, app_nil_r. f_equal. lia.
    - apply nth_error_None in E. rewrite upd_ge by exact E. reflexivity.
  Qed.

  Lemma skipn_upd_gt n i f l : i < n -> skipn n (upd i f l) = skipn n l.
  Proof.
    intros Hn. destruct (nth_error l i) as [x|] eqn:E.
    - rewrite (upd_eq _ _ _ _ E).
      assert (Hi : i < length l) by (apply nth_error_Some; congruence).
      rewrite skipn_app, firstn_length, Nat.min_l by lia.
      rewrite (skipn_all2 (n := n) (firstn i l)) by (rewrite firstn_length; lia).
      cbn [app]. destruct (n - i) as [|k] eqn:Ek; [lia|]. rewrite skipn_cons.
      rewrite skipn_add. f_equal. lia.
    - apply nth_error_None in E. rewrite upd_ge by exact E. reflexivity.
  Qed.

  (** * [fill_range] *)

  Lemma fill_range_length a b x l :
    a <= b -> b <= length l -> length (fill_range a b x l) = length l.
  Proof. intros Ha Hb. unfold fill_range. list_len. Qed.

  Lemma fill_range_app3 a b x l1 l2 l3 :
    length l1 = a -> length l2 = b - a -> a <= b ->
    fill_range a b x (l1 ++ l2 ++ l3) = l1 ++ repeat x (b - a) ++ l3.
  Proof.
    intros H1 H2 Hab. unfold fill_range.
    rewrite (firstn_app_exact _ _ _ H1).
    rewrite (app_assoc l1 l2 l3). rewrite skipn_app_exact by (rewrite app_length; lia).
    reflexivity.
  Qed.

  Lemma fill_range_Forall P a b x l :
    Forall P l -> P x -> Forall P (fill_range a b x l).
  Proof.
    intros HF Hx. unfold fill_range.
    apply Forall_app; split; [apply Forall_firstn_of; exact HF|].
    apply Forall_app; split; [apply Forall_repeat_of; exact Hx|apply Forall_skipn_of; exact HF].
  Qed.

  Lemma fill_range_to_end a x l :
    fill_range a (length l) x l = firstn a l ++ repeat x (length l - a).
  Proof.
    unfold fill_range. rewrite (skipn_all2 (n := length l) l) by lia.
    rewrite app_nil_r. reflexivity.
  Qed.

  Lemma fill_range_from_start b x l : fill_range 0 b x l = repeat x b ++ skipn b l.
  Proof. unfold fill_range. rewrite firstn_O, Nat.sub_0_r. reflexivity. Qed.

  (** * [rotl] / [rotr] / [on_range] / [insert_n] *)

  Lemma rotl_length n l : length (rotl n l) = length l.
  Proof. unfold rotl. list_len. Qed.

  Lemma rotr_length n l : length (rotr n l) = length l.
  Proof. unfold rotr. list_len. Qed.

  Lemma rotr_rotl n l : n <= length l -> rotr n l = rotl (length l - n) l.
  Proof. reflexivity. Qed.

  Lemma on_range_length a b (h : list A -> list A) l :
    (forall t, length (h t) = length t) -> a <= b -> b <= length l ->
    length (on_range a b h l) = length l.
  Proof. intros Hh Ha Hb. unfold on_range. rewrite !app_length, Hh. list_len. Qed.

  Lemma on_range_to_end a (h : list A -> list A) l :
    on_range a (length l) h l = firstn a l ++ h (skipn a l).
  Proof.
    unfold on_range. rewrite (skipn_all2 (n := length l) l) by lia.
    rewrite app_nil_r. f_equal. f_equal.
    apply firstn_all2. rewrite skipn_length. lia.
  Qed.

  Lemma on_range_Forall P a b (h : list A -> list A) l :
    (forall t, Forall P t -> Forall P (h t)) -> Forall P l -> Forall P (on_range a b h l).
  Proof.
    intros Hh HF. unfold on_range.
    apply Forall_app; split; [apply Forall_firstn_of; exact HF|].
    apply Forall_app; split; [|apply Forall_skipn_of; exact HF].
    apply Hh. apply Forall_firstn_of, Forall_skipn_of; exact HF.
  Qed.

  Lemma rotl_Forall P n l : Forall P l -> Forall P (rotl n l).
  Proof.
    intros HF. unfold rotl. apply Forall_app; split;
      [apply Forall_skipn_of|apply Forall_firstn_of]; exact HF.
  Qed.

  Lemma rotr_Forall P n l : Forall P l -> Forall P (rotr n l).
  Proof.
    intros HF. unfold rotr. apply Forall_app; split;
      [apply Forall_skipn_of|apply Forall_firstn_of]; exact HF.
  Qed.

  Lemma insert_n_length i n x l : length (insert_n i n x l) = length l + n.
  Proof.
    unfold insert_n. rewrite <- (firstn_skipn i l) at 3. rewrite !app_length, repeat_length. lia.
  Qed.

  (** [cells[col..].rotate_right(n); cells[col..col+n].fill(x)] *)
  Lemma insert_shape col n x l :
    col <= length l -> n <= length l - col ->
    fill_range col (col + n) x (on_range col (length l) (rotr n) l)
    = firstn col l ++ repeat x n ++ firstn (length l - col - n) (skipn col l).
  Proof.
    intros Hc Hn. rewrite on_range_to_end. unfold rotr. rewrite skipn_length.
    rewrite fill_range_app3.
    - replace (col + n - col) with n by lia. reflexivity.
    - rewrite firstn_length. lia.
    - rewrite !skipn_length. lia.
    - lia.
  Qed.

  (** [cells[col..].rotate_left(n); cells[len-n..].fill(x)] *)
  Lemma delete_shape col n x l :
    col <= length l -> n <= length l - col ->
    fill_range (length l - n) (length l) x (on_range col (length l) (rotl n) l)
    = firstn col l ++ skipn (col + n) l ++ repeat x n.
  Proof.
    intros Hc Hn. rewrite on_range_to_end. unfold rotl. rewrite skipn_add.
    transitivity (fill_range (length l - n) (length l) x
                    ((firstn col l ++ skipn (col + n) l) ++ firstn n (skipn col l) ++ [])).
    { rewrite app_nil_r, <- app_assoc. reflexivity. }
    rewrite fill_range_app3.
    - replace (length l - (length l - n)) with n by lia.
      rewrite app_nil_r, <- app_assoc. reflexivity.
    - rewrite app_length, firstn_length, skipn_length. lia.
    - rewrite firstn_length, skipn_length. lia.
    - lia.
  Qed.
End ListLemmas.
