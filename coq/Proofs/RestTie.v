(** The tie between hand-written pieces of the model and the Gallina regenerated from the Rust source on every
    run (Gen/RestFns.v, by translate/rest2coq.py):
    - src/charset.rs [Charset::translate]                          vs [translate] (Model/Terminal.v);
    - src/buffer.rs  [Buffer::text]                                vs [buf_text] / [text_go] (Model/Dump.v);
    - src/util.rs    [TextUnwrapper::push], [flush], [TextCollector::flush]
                                                                   vs [unwrap_push], [unwrap_all], [collector_flush], [strip_empty_tail];
    - src/buffer.rs  [Buffer::logical_position], [relative_position] (both loops), [resize]
                                                                   vs [logical_position] / [logpos_go], [relpos1], [relpos2],
                                                                      [relative_position], [buf_resize] (Model/Prims.v).
    [x =~ y] (Proofs/BufTie.v) is equality up to the panic SITE.  The Rust [while] loops are generated as
    [Fixpoint]s on a fuel argument with the convention of the model ([Panic site_fuel] when exhausted) and
    tied for EQUAL fuel.  [Buffer::resize] is generated with its calls of [reflow] and
    [self.relative_position] as parameters [c_reflow], [c_relative_position]; the tie instantiates them with
    the model's [reflowM] and [relative_position].  An edit of one of the Rust functions changes Gen/RestFns.v
    and breaks the corresponding proof here (tools/resttie_selftest.sh). *)

From Coq Require Import Lia ZArith ZifyBool ZifyNat ZifyN.
From Avt Require Import Model.Dump Proofs.ListLemmas Gen.BufFns Proofs.BufTie.
From Avt Require Import Gen.RestFns.
Ltac Zify.zify_post_hook ::= Z.div_mod_to_equations.

Local Arguments Nat.sub : simpl never.
Local Arguments Nat.add : simpl never.
Local Arguments Nat.leb : simpl never.
Local Arguments Nat.ltb : simpl never.
Local Arguments Nat.eqb : simpl never.
Local Arguments Nat.min : simpl never.
Local Arguments Nat.compare : simpl never.
Local Arguments N.leb : simpl never.
Local Arguments N.ltb : simpl never.
Local Arguments N.sub : simpl never.
Local Arguments N.to_nat : simpl never.
Local Arguments Z.leb : simpl never.
Local Arguments Z.sub : simpl never.
Local Arguments Z.opp : simpl never.
Local Arguments Z.of_nat : simpl never.
Local Arguments Z.to_nat : simpl never.

Lemma nthM_nth_error {A} (l : list A) i s x : nth_error l i = Some x -> nthM l i s = Ok x.
Proof. unfold nthM. intros ->. reflexivity. Qed.

Lemma nth_error_lt {A} (l : list A) i x : nth_error l i = Some x -> i < length l.
Proof. intros E. apply nth_error_Some. congruence. Qed.

Lemma upd_at {A} (l : list A) i (f : A -> A) x : nth_error l i = Some x -> upd i (fun _ => f x) l = upd i f l.
Proof.
  intros E. unfold upd. destruct (skipn i l) as [|y r] eqn:Es; [reflexivity|].
  assert (nth_error (skipn i l) 0 = Some x) as H by (rewrite nth_error_skipn_add, Nat.add_0_r; exact E).
  rewrite Es in H. cbn in H. congruence.
Qed.

(** * charset.rs *)

Theorem tie_charset_translate cs c : g_charset_translate cs c =~ translate cs c.
Proof.
  unfold g_charset_translate, translate, Consts.GFX_LO, Consts.GFX_HI_EXCL, Consts.GFX_OFF.
  destruct cs; [reflexivity|].
  change (length Consts.SPECIAL_GFX_CHARS) with 31.
  destruct (N.leb 96 c) eqn:E1; cbn [andb]; [|reflexivity].
  destruct (N.ltb c 127) eqn:E2; [|reflexivity].
  assert (96 <=? N.to_nat c = true) as -> by lia.
  assert (N.to_nat c - 96 <? 31 = true) as -> by lia.
  cbn [guard bind]. replace (N.to_nat (c - 96)) with (N.to_nat c - 96) by lia.
  unfold nthM. destruct (nth_error _ _); reflexivity.
Qed.
Print Assumptions tie_charset_translate.

(** * buffer.rs: text *)

Definition text_fin (cur : list N) : list (list N) := match cur with [] => [] | _ => [trim_end cur] end.

Lemma text_fold (F : list (list N) * list N -> line -> res (list (list N) * list N)) :
  (forall acc cur l, F (acc, cur) l = Ok (if wrapped l then (acc, cur ++ line_text l)
                                          else (acc ++ [trim_end (cur ++ line_text l)], []))) ->
  forall ls acc cur, exists out cur',
    foldM F ls (acc, cur) = Ok (acc ++ out, cur') /\ text_go ls cur = out ++ text_fin cur'.
Proof.
  intros HF. induction ls as [|l r IH]; intros acc cur; cbn [foldM text_go].
  - exists [], cur. rewrite app_nil_r. split; reflexivity.
  - rewrite HF. destruct (wrapped l); cbn [bind].
    + exact (IH acc (cur ++ line_text l)).
    + destruct (IH (acc ++ [trim_end (cur ++ line_text l)]) []) as (out & cur' & E & T).
      exists (trim_end (cur ++ line_text l) :: out), cur'. rewrite E, T, <- app_assoc. split; reflexivity.
Qed.

Theorem tie_buffer_text b : g_buffer_text b = Ok (buf_text b).
Proof.
  unfold g_buffer_text, buf_text. cbn zeta.
  match goal with |- context [foldM ?f] => destruct (text_fold f) with (ls := lines b) (acc := @nil (list N)) (cur := @nil N)
                                             as (out & cur' & E & T) end.
  { intros. cbn beta iota zeta. destruct (wrapped l); reflexivity. }
  rewrite E, T. cbn [bind app].
  destruct cur'; cbn [length Nat.eqb negb bind text_fin]; [rewrite app_nil_r|]; reflexivity.
Qed.
Print Assumptions tie_buffer_text.

(** * util.rs *)

Theorem tie_unwrapper_push st l : g_unwrapper_push st l = Ok (unwrap_push st l).
Proof. unfold g_unwrapper_push, unwrap_push. destruct (wrapped l); reflexivity. Qed.
Print Assumptions tie_unwrapper_push.

(** [TextUnwrapper::flush]: the model inlines it in [collector_flush] as [match st' with [] => [] | _ => [st'] end] *)
Theorem tie_unwrapper_flush st : g_unwrapper_flush st = Ok (match st with [] => None | _ => Some st end).
Proof. destruct st; reflexivity. Qed.
Print Assumptions tie_unwrapper_flush.

Lemma unwrap_all_fold (F : list N -> line -> res (list N * option (list N))) :
  (forall st l, F st l = Ok (unwrap_push st l)) ->
  forall ls st, filter_mapM F ls st = Ok (unwrap_all st ls).
Proof.
  intros HF. induction ls as [|l r IH]; intros st; cbn [filter_mapM unwrap_all]; [reflexivity|].
  rewrite HF. cbn [bind]. destruct (unwrap_push st l) as [st' o].
  rewrite IH. cbn [bind]. destruct (unwrap_all st' r) as [st'' out]. reflexivity.
Qed.

Lemma unwrap_all_length ls : forall st, length (snd (unwrap_all st ls)) <= length ls.
Proof.
  induction ls as [|l r IH]; intros st; cbn [unwrap_all]; [cbn; lia|].
  destruct (unwrap_push st l) as [st' o]. specialize (IH st'). destruct (unwrap_all st' r) as [st'' out].
  destruct o; cbn [snd length] in *; lia.
Qed.

Lemma strip_snoc (l : list (list N)) x :
  strip_empty_tail (l ++ [x]) = match x with [] => strip_empty_tail l | _ => l ++ [x] end.
Proof.
  induction l as [|y r IH]; cbn [app strip_empty_tail].
  - destruct x; reflexivity.
  - rewrite IH. destruct x; [reflexivity|].
    destruct (r ++ [n :: x]) eqn:E; [destruct r; discriminate|reflexivity].
Qed.

(** the [while] loop of [TextCollector::flush] removes the trailing empty strings, one per iteration *)
Theorem tie_collector_flush_loop fuel : forall ls,
  length ls < fuel -> g_collector_flush_loop1 fuel ls = Ok (strip_empty_tail ls).
Proof.
  induction fuel as [|f IH]; intros ls Hf; [lia|]. cbn [g_collector_flush_loop1].
  destruct ls as [|x0 r0] using rev_ind; [reflexivity|]. clear IHr0.
  rewrite app_length in *. cbn [length] in *.
  assert (length r0 + 1 =? 0 = false) as -> by lia. cbn [negb].
  assert (1 <=? length r0 + 1 = true) as -> by lia.
  assert (length r0 + 1 - 1 <? length r0 + 1 = true) as -> by lia. cbn [guard bind].
  replace (length r0 + 1 - 1) with (length r0) by lia.
  rewrite (nthM_nth_error _ _ _ x0) by (rewrite nth_error_app2, Nat.sub_diag by lia; reflexivity).
  cbn [bind]. rewrite strip_snoc.
  destruct x0 as [|n x]; cbn [length Nat.eqb]; [|reflexivity].
  change (0 =? 0) with true. cbn iota. rewrite firstn_app, firstn_all, Nat.sub_diag. cbn [firstn]. rewrite app_nil_r.
  apply IH. lia.
Qed.
Print Assumptions tie_collector_flush_loop.

Theorem tie_collector_flush fuel v st :
  length (lines (buf (vterm v))) + 1 < fuel ->
  g_collector_flush fuel (v, st) = Ok (collector_flush st (lines (buf (vterm v)))).
Proof.
  intros Hf. unfold g_collector_flush, collector_flush. cbn [fst snd].
  rewrite unwrap_all_fold
    by (intros; cbn beta; rewrite tie_unwrapper_push; cbn [bind]; destruct (unwrap_push _ _); reflexivity).
  pose proof (unwrap_all_length (lines (buf (vterm v))) st) as Hl.
  destruct (unwrap_all st _) as [st' out]. cbn [bind snd] in *.
  rewrite tie_unwrapper_flush. cbn [bind].
  rewrite tie_collector_flush_loop.
  - cbn [bind]. destruct st'; reflexivity.
  - rewrite app_length. destruct st'; cbn [opt_list length]; lia.
Qed.
Print Assumptions tie_collector_flush.

(** * buffer.rs: logical_position *)

Lemma logpos_fold c (F : nat * nat -> line -> res (nat * nat)) :
  (forall off row l, F (off, row) l = Ok (if wrapped l then (off + c, row) else (0, row + 1))) ->
  forall ls off row, foldM F ls (off, row) = Ok (logpos_go ls c off row).
Proof.
  intros HF. induction ls as [|l r IH]; intros off row; cbn [foldM logpos_go]; [reflexivity|].
  rewrite HF. destruct (wrapped l); cbn [bind]; apply IH.
Qed.

Theorem tie_buffer_logical_position b pc pr c r :
  g_buffer_logical_position b (pc, pr) c r =~ logical_position b pc pr c r.
Proof.
  unfold g_buffer_logical_position, logical_position. cbn [fst snd].
  destruct (r <=? length (lines b)) eqn:G; cbn [guard bind same]; [|exact I].
  assert (Nat.min (pr + (length (lines b) - r)) (length (lines b)) <=? pr + (length (lines b) - r) = true) as -> by lia.
  cbn [guard bind]. rewrite (logpos_fold c) by (intros; cbn beta iota zeta; destruct (wrapped _); reflexivity).
  cbn [bind].
  destruct (logpos_go _ _ _ _) as [off row]. reflexivity.
Qed.
Print Assumptions tie_buffer_logical_position.

(** * buffer.rs: relative_position *)

(** first loop: the generated loop returns the pair (rel_row, r), the model only rel_row *)
Theorem tie_relpos_loop1 fuel b pc target last_row : forall rel_row r,
  res_map fst (g_buffer_relative_position_loop1 fuel b (pc, target) rel_row r last_row)
  =~ relpos1 fuel (lines b) target last_row r rel_row.
Proof.
  unfold res_map.
  induction fuel as [|f IH]; intros rel_row r; cbn [g_buffer_relative_position_loop1 relpos1 bind same snd]; [exact I|].
  destruct ((r <? target) && (rel_row <? last_row)); [|reflexivity].
  destruct (nth_error (lines b) rel_row) as [l|] eqn:E.
  - assert (rel_row <? length (lines b) = true) as -> by (apply nth_error_lt in E; lia).
    cbn [guard bind]. rewrite (nthM_nth_error _ _ _ _ E). cbn [bind].
    destruct (wrapped l); cbn [negb bind]; apply IH.
  - assert (rel_row <? length (lines b) = false) as -> by (apply nth_error_None in E; lia).
    exact I.
Qed.
Print Assumptions tie_relpos_loop1.

(** second loop *)
Theorem tie_relpos_loop2 fuel b c : forall rel_col rel_row,
  g_buffer_relative_position_loop2 fuel b c rel_col rel_row =~ relpos2 fuel (lines b) c rel_col rel_row.
Proof.
  induction fuel as [|f IH]; intros rel_col rel_row; cbn [g_buffer_relative_position_loop2 relpos2 same]; [exact I|].
  destruct (c <=? rel_col) eqn:C; [|reflexivity].
  destruct (nth_error (lines b) rel_row) as [l|] eqn:E.
  - assert (rel_row <? length (lines b) = true) as -> by (apply nth_error_lt in E; lia).
    cbn [guard bind]. rewrite (nthM_nth_error _ _ _ _ E). cbn [bind].
    destruct (wrapped l); [|reflexivity]. cbn [guard bind]. apply IH.
  - assert (rel_row <? length (lines b) = false) as -> by (apply nth_error_None in E; lia).
    exact I.
Qed.
Print Assumptions tie_relpos_loop2.

(** the whole function, at the fuel the model uses.  The model checks its three side conditions first (site 43);
    Rust meets them after the loops: equal up to the site *)
Theorem tie_buffer_relative_position b pc pr c r :
  g_buffer_relative_position (S (length (lines b))) (S (S (pc + length (lines b)))) b (pc, pr) c r
  =~ relative_position (lines b) pc pr c r.
Proof.
  unfold g_buffer_relative_position, relative_position. cbn [fst snd].
  destruct (1 <=? length (lines b)) eqn:G1; cbn [guard bind same andb]; [|exact I].
  pose proof (tie_relpos_loop1 (S (length (lines b))) b pc pr (length (lines b) - 1) 0 0) as T1.
  unfold res_map in T1.
  destruct (g_buffer_relative_position_loop1 _ _ _ _ _ _) as [[rr1 r1]|s1];
    destruct (relpos1 _ _ _ _ _ _) as [rr1'|s1']; cbn [bind same fst] in T1; try contradiction.
  2:{ destruct ((r <=? length (lines b)) && (1 <=? c)); exact I. }
  subst rr1'. cbn [bind].
  pose proof (tie_relpos_loop2 (S (S (pc + length (lines b)))) b c pc rr1) as T2.
  destruct (g_buffer_relative_position_loop2 _ _ _ _ _) as [[rc2 rr2]|s2];
    destruct (relpos2 _ _ _ _ _) as [[rc2' rr2']|s2']; cbn [same] in T2; try contradiction.
  2:{ destruct ((r <=? length (lines b)) && (1 <=? c)); exact I. }
  injection T2 as -> ->. cbn [bind].
  destruct (1 <=? c) eqn:G3; destruct (r <=? length (lines b)) eqn:G2; cbn [guard bind same andb]; try exact I.
  reflexivity.
Qed.
Print Assumptions tie_buffer_relative_position.

(** * buffer.rs: resize *)

(** the model's [relative_position] with the calling convention of [Buffer::relative_position] *)
Definition model_relative_position (b : buffer) (pos : nat * nat) (c r : nat) : res (nat * Z) :=
  relative_position (lines b) (fst pos) (snd pos) c r.

Local Arguments g_buffer_extend : simpl never.
Local Arguments buf_extend : simpl never.
Local Arguments blank_line : simpl never.
Local Arguments reflowM : simpl never.
Local Arguments relative_position : simpl never.
Local Arguments logical_position : simpl never.
Local Arguments g_buffer_logical_position : simpl never.

Ltac rnrm := cbn [guard bind same andb orb negb fst snd lines bcols brows blimit trim_needed].

Lemma bind_rel {A A' B} (R : A -> A' -> Prop) (m : res A) (m' : res A') (f : A -> res B) (f' : A' -> res B) :
  match m, m' with Ok a, Ok a' => R a a' | Panic _, Panic _ => True | _, _ => False end ->
  (forall a a', R a a' -> f a =~ f' a') -> bind m f =~ bind m' f'.
Proof. destruct m, m'; cbn [bind same]; intros H Hf; auto; contradiction. Qed.

(** for ANY implementation of the two callees that is tied to the model's *)
Theorem tie_buffer_resize_gen (c_reflow : list line -> nat -> res (list line))
        (c_relpos : buffer -> nat * nat -> nat -> nat -> res (nat * Z)) b nc nr cc cr :
  (forall ls c, c_reflow ls c =~ reflowM ls c) ->
  (forall b pos c r, c_relpos b pos c r =~ model_relative_position b pos c r) ->
  g_buffer_resize c_reflow c_relpos b nc nr (cc, cr) =~ buf_resize b nc nr cc cr.
Proof.
  intros Hreflow Hrelpos.
  unfold g_buffer_resize, buf_resize.
  pose proof (tie_buffer_logical_position b cc cr (bcols b) (brows b)) as T. use_tie T; [|exact I].
  destruct r as [lc lr].
  destruct b as [ls cs rs lim tn]. rnrm.
  (* phase 2: reflow and cursor translation *)
  apply (bind_rel (fun (a : buffer * (nat * nat) * nat) (a' : list line * nat * nat * nat) =>
                     let '(self, cur, orows) := a in let '(ls1, cc1, cr1, orows1) := a' in
                     self = mkBuffer ls1 cs rs lim tn /\ cur = (cc1, cr1) /\ orows = orows1)).
  { destruct (nc =? cs); cbn [negb]; [auto|].
    pose proof (Hreflow ls nc) as T. use_tie T; [|exact I]. rename r into ls'.
    unfold set; rnrm. rewrite tie_buffer_extend. unfold buf_extend, set; rnrm.
    destruct (length ls' <? rs) eqn:E.
    - assert (length ls' <=? rs = true) as -> by lia. rnrm.
      match goal with |- context [c_relpos ?b ?pos ?c ?r] => pose proof (Hrelpos b pos c r) as T end.
      unfold model_relative_position in T; rnrm. cbn [lines fst snd] in T. use_tie T; [|exact I].
      destruct r as [rc rr]. rnrm.
      destruct (Z.leb 0 rr) eqn:Z0; rnrm; [auto|].
      assert (Z.leb 0 (Z.opp rr) = true) as -> by lia. rnrm. auto.
    - rnrm.
      match goal with |- context [c_relpos ?b ?pos ?c ?r] => pose proof (Hrelpos b pos c r) as T end.
      unfold model_relative_position in T; rnrm. cbn [lines fst snd] in T. use_tie T; [|exact I].
      destruct r as [rc rr]. rnrm.
      destruct (Z.leb 0 rr) eqn:Z0; rnrm; [auto|].
      assert (Z.leb 0 (Z.opp rr) = true) as -> by lia. rnrm. auto. }
  intros [[self cur] orows] [[[ls1 cc1] cr1] r1] (-> & -> & ->).
  (* phase 3: the row adjustment *)
  apply (bind_rel (fun (a : buffer * (nat * nat)) (a' : list line * nat) =>
                     fst a = mkBuffer (fst a') cs rs lim tn /\ snd a = (cc1, snd a'))).
  2:{ intros [self cur] [ls2 cr2] (E1 & E2). cbn [fst snd] in *. subst. reflexivity. }
  rnrm. unfold set; rnrm.
  destruct (Nat.compare nr r1) eqn:C.
  - cbn [fst snd]. auto.
  - apply Nat.compare_lt_iff in C.
    assert (nr <=? r1 = true) as -> by lia. rnrm.
    destruct (cr1 + 1 <=? r1) eqn:G44; rnrm.
    2:{ destruct (1 <=? r1) eqn:G1; rnrm; [|exact I].
        assert (cr1 <=? r1 - 1 = false) as -> by lia. exact I. }
    assert (1 <=? r1 = true) as -> by lia. assert (cr1 <=? r1 - 1 = true) as -> by lia. rnrm.
    set (excess := Nat.min (r1 - nr) (r1 - 1 - cr1)).
    assert (excess <=? r1 - nr = true) as Hex by lia.
    destruct (0 <? excess) eqn:E0; rnrm.
    + destruct (excess <=? length ls1) eqn:G45; rnrm; [|exact I].
      set (t := firstn (length ls1 - excess) ls1).
      destruct (1 <=? length t) eqn:G46; rnrm; [|exact I].
      destruct (nthM_some t (length t - 1) 216 ltac:(lia)) as (x & Ex & ->). rnrm.
      rewrite Hex. rnrm.
      destruct (r1 - nr - excess <=? cr1) eqn:G47; rnrm; [|exact I].
      split; [|reflexivity]. f_equal.
      exact (upd_at t (length t - 1) (fun l => mkLine (cells l) false) x Ex).
    + rewrite Hex. rnrm.
      destruct (r1 - nr - excess <=? cr1) eqn:G47; rnrm; [|exact I]. auto.
  - apply Nat.compare_gt_iff in C.
    assert (r1 <=? nr = true) as -> by lia.
    assert (Nat.min r1 (length ls1) <=? length ls1 = true) as -> by lia.
    assert (Nat.min (length ls1 - Nat.min r1 (length ls1)) (nr - r1) <=? nr - r1 = true) as -> by lia. rnrm.
    rewrite tie_buffer_extend. unfold buf_extend, set; rnrm.
    destruct (cr1 <? r1); rnrm;
      destruct (0 <? nr - r1 - Nat.min (length ls1 - Nat.min r1 (length ls1)) (nr - r1)); rnrm; auto.
Qed.
Print Assumptions tie_buffer_resize_gen.

(** with the model's callees *)
Theorem tie_buffer_resize b nc nr cc cr :
  g_buffer_resize reflowM model_relative_position b nc nr (cc, cr) =~ buf_resize b nc nr cc cr.
Proof. apply tie_buffer_resize_gen; intros; apply same_refl. Qed.
Print Assumptions tie_buffer_resize.

(** * buffer.rs: Reflow::next and reflow()

    [g_reflow_collect] is [Iterator::collect()] over [Reflow::next] ([while let Some(mut line) = self.rest.take()
    .or_else(|| self.iter.next()) { .. }]), one unit of fuel per evaluation of the loop condition: the fuel
    convention of the model's [reflow_go], so the tie is for EQUAL fuel.  The model accumulates in reverse. *)

Local Arguments g_line_contract : simpl never.
Local Arguments g_line_extend : simpl never.
Local Arguments g_line_expand : simpl never.
Local Arguments line_contract : simpl never.
Local Arguments line_extend : simpl never.
Local Arguments line_expandM : simpl never.

Ltac fnrm := unfold set; cbn [r_iter r_cols r_rest bind same hd_error tl].

(** one iteration, given the line [l] it works on and the remaining iterator [it] *)
Ltac reflow_iter IH Hacc l c it :=
  change (length (cells l)) with (llen l);
  destruct (Nat.compare c (llen l)) eqn:?;
  [ rewrite <- Hacc; apply IH
  | rewrite tie_line_contract; fnrm; destruct (line_contract c l) as [l' r]; rewrite <- Hacc; apply IH
  | destruct it as [|nx it']; fnrm;
    [ let T := fresh "T" in
      pose proof (tie_line_expand l c default_pen) as T; use_tie T; [|exact I]; fnrm; rewrite <- Hacc; apply IH
    | let T := fresh "T" in
      pose proof (tie_line_extend l nx c) as T; use_tie T; [|exact I];
      match goal with r : (line * (bool * option line))%type |- _ => destruct r as [l' [[|] [rr|]]] end;
      fnrm; rewrite <- ?Hacc; apply IH ] ].

Theorem tie_reflow_collect fuel : forall it c rest acc,
  g_reflow_collect fuel (mkReflow it c rest) acc =~ reflow_go fuel c rest it (rev acc).
Proof.
  induction fuel as [|f IH]; intros it c rest acc; cbn [g_reflow_collect reflow_go same]; [exact I|].
  assert (Hacc : forall l : line, rev (acc ++ [l]) = l :: rev acc) by (intros; apply rev_unit).
  destruct rest as [l|]; fnrm.
  - reflow_iter IH Hacc l c it.
  - destruct it as [|l it0]; fnrm.
    + rewrite rev_involutive. reflexivity.
    + reflow_iter IH Hacc l c it0.
Qed.
Print Assumptions tie_reflow_collect.

(** [reflow(iter, cols)] with its [assert!], at the fuel the model uses *)
Theorem tie_reflow ls c : g_reflow_reflow (reflow_fuel ls) ls c =~ reflowM ls c.
Proof.
  unfold g_reflow_reflow, reflowM.
  pose proof (tie_reflow_collect (reflow_fuel ls) ls c None []) as T. cbn [rev] in T. use_tie T; [|exact I].
  change (fun v_l : line => length (cells v_l) =? c) with (fun l : line => llen l =? c).
  destruct (forallb _ r); reflexivity.
Qed.
Print Assumptions tie_reflow.

(** * [Buffer::resize] with the regenerated callees, at the fuels the model uses: nothing hand-written is left
    between the Rust text of [resize], [logical_position], [relative_position], [reflow], [Reflow::next] (and the
    line primitives of Gen/BufFns.v) and [buf_resize] *)
Definition g_reflow_at (ls : list line) (c : nat) : res (list line) := g_reflow_reflow (reflow_fuel ls) ls c.
Definition g_relative_position_at (b : buffer) (pos : nat * nat) (c r : nat) : res (nat * Z) :=
  g_buffer_relative_position (S (length (lines b))) (S (S (fst pos + length (lines b)))) b pos c r.

Theorem tie_buffer_resize_closed b nc nr cc cr :
  g_buffer_resize g_reflow_at g_relative_position_at b nc nr (cc, cr) =~ buf_resize b nc nr cc cr.
Proof.
  apply tie_buffer_resize_gen.
  - intros. apply tie_reflow.
  - intros b0 [pc pr] c r. apply tie_buffer_relative_position.
Qed.
Print Assumptions tie_buffer_resize_closed.
