(** Property C03, "parameters as written": the parameter block the parser holds after a CSI
    introducer followed by an arbitrary parameter text, in closed form, for every text
    (no bound on the number of digits, parts or parameters), including the exact saturation
    behaviour beyond 32 parameters / 6 parts, and the function dispatched by a final byte. *)

From Avt Require Import Model.Parser Spec.Williams Proofs.Inv Proofs.ParserTable
  Proofs.ParserInv Proofs.ParserSim Spec.Functions Proofs.DispatchTable.
Require Import Lia ZArith ZifyBool ZifyNat ZifyN.
Local Open Scope N_scope.

Ltac Zify.zify_post_hook ::= Z.div_mod_to_equations.

#[local] Arguments N.add : simpl never.
#[local] Arguments N.sub : simpl never.
#[local] Arguments N.mul : simpl never.
#[local] Arguments N.eqb : simpl never.
#[local] Arguments N.ltb : simpl never.
#[local] Arguments N.leb : simpl never.
#[local] Arguments N.modulo : simpl never.
#[local] Arguments N.div : simpl never.

(** * 1. the specification (no reference to the parser) *)

(** a parameter text: parameters (separated by ';'), each a list of parts (separated by
    ':'), each part a list of digit codes *)
Definition ptext := list (list (list N)).

Fixpoint join (sep : N) (l : list (list N)) : list N :=
  match l with
  | [] => []
  | [x] => x
  | x :: r => x ++ sep :: join sep r
  end.

Definition render_param (q : list (list N)) : list N := join 58 q.
Definition render (t : ptext) : list N := join 59 (map render_param t).

Definition is_digit (c : N) : Prop := 48 <= c <= 57.
Definition digits_param (q : list (list N)) : Prop := Forall (Forall is_digit) q.
Definition digits_only (t : ptext) : Prop := Forall digits_param t.

(** the value of a digit string as a u16: decimal value modulo 65536; [pval [] = 0] *)
Definition pval (ds : list N) : N := digit_value ds mod 65536.

(** ** texts within the capacity: at most 32 parameters of at most 6 parts *)

Definition wf_text (t : ptext) : Prop :=
  digits_only t /\ (length t <= PARAMS_LEN)%nat
  /\ Forall (fun q => (length q <= MAX_PARAM_LEN)%nat) t.

(** parameter with parts [q]: part [j] holds the value of the [j]-th digit string (0 when
    missing or empty), [cur_part] is the number of parts - 1 *)
Definition written_param (q : list (list N)) : param :=
  mkParam (length q - 1) (map (fun j => pval (nth j q [])) (seq 0 MAX_PARAM_LEN)).

Definition written_block (t : ptext) : list param :=
  map (fun i => written_param (nth i t [])) (seq 0 PARAMS_LEN).

Definition written_cur (t : ptext) : nat := (length t - 1)%nat.

(** ** arbitrary texts: saturation *)

(** parts beyond the sixth: the ':' is ignored, so their digits continue the digit string
    of the sixth part *)
Definition part_text (q : list (list N)) (j : nat) : list N :=
  if (j <? 5)%nat then nth j q [] else concat (skipn 5 q).

Definition spec_param (q : list (list N)) : param :=
  mkParam (Nat.min (length q - 1) 5)
          (map (fun j => pval (part_text q j)) (seq 0 MAX_PARAM_LEN)).

(** parameters beyond the 32nd: the ';' is ignored, so their text continues the text of
    the 32nd parameter: the last part of [a] is continued by the first part of [b] *)
Fixpoint glue (a b : list (list N)) : list (list N) :=
  match a with
  | [] => b
  | [x] => match b with [] => [x] | y :: r => (x ++ y) :: r end
  | x :: a' => x :: glue a' b
  end.

Definition glue_all (l : ptext) : list (list N) := fold_left glue l [].

Definition slot_text (t : ptext) (i : nat) : list (list N) :=
  if (i <? 31)%nat then nth i t [] else glue_all (skipn 31 t).

Definition spec_block (t : ptext) : list param :=
  map (fun i => spec_param (slot_text t i)) (seq 0 PARAMS_LEN).

Definition spec_cur (t : ptext) : nat := Nat.min (length t - 1) 31.

(** * generic list facts *)

Lemma upd_map_seq {A} (f f' : nat -> A) (g : A -> A) k n :
  (k < n)%nat ->
  (forall i, (i < n)%nat -> i <> k -> f i = f' i) ->
  f k = g (f' k) ->
  upd k g (map f' (seq 0 n)) = map f (seq 0 n).
Proof.
  intros Hk Ho Hs.
  apply (nth_ext _ _ (f' 0%nat) (f 0%nat)).
  - now rewrite upd_length, !map_length.
  - intros i Hi. rewrite upd_length, map_length, seq_length in Hi.
    rewrite (map_nth f (seq 0 n) 0%nat i), seq_nth by exact Hi. cbn [Nat.add].
    destruct (Nat.eq_dec i k) as [->|Hne].
    + rewrite nth_upd_same by (now rewrite map_length, seq_length).
      rewrite (map_nth f' (seq 0 n) 0%nat k), seq_nth by exact Hk. cbn [Nat.add].
      symmetry. exact Hs.
    + rewrite nth_upd_other by exact Hne.
      rewrite (map_nth f' (seq 0 n) 0%nat i), seq_nth by exact Hi. cbn [Nat.add].
      symmetry. now apply Ho.
Qed.

Lemma join_cons sep x l : l <> [] -> join sep (x :: l) = x ++ sep :: join sep l.
Proof. destruct l; [congruence|reflexivity]. Qed.

Lemma join_snoc sep l x : l <> [] -> join sep (l ++ [x]) = join sep l ++ sep :: x.
Proof.
  induction l as [|y l IH]; intros H; [congruence|].
  destruct l as [|z l]; [reflexivity|].
  change ((y :: z :: l) ++ [x]) with (y :: ((z :: l) ++ [x])).
  rewrite join_cons by (cbn; discriminate).
  rewrite IH by discriminate. rewrite (join_cons sep y (z :: l)) by discriminate.
  now rewrite <- app_assoc.
Qed.

Lemma join_Forall (P : N -> Prop) sep l :
  P sep -> Forall (Forall P) l -> Forall P (join sep l).
Proof.
  intros Hs H. induction H as [|x l Hx Hl IH]; [constructor|].
  destruct l as [|y l]; [exact Hx|].
  rewrite join_cons by discriminate. apply Forall_app; split; [exact Hx|].
  constructor; [exact Hs|exact IH].
Qed.

Lemma concat_skipn_last {A} k : forall (l : list (list A)),
  (length l <= S k)%nat -> concat (skipn k l) = nth k l [].
Proof.
  induction k as [|k IH]; intros l H.
  - destruct l as [|x [|y l]]; cbn in *; [reflexivity|apply app_nil_r|lia].
  - destruct l as [|x l]; [reflexivity|]. cbn [skipn nth]. apply IH. cbn in H. lia.
Qed.

(** * glue *)

Lemma glue_nil_r a : glue a [] = a.
Proof.
  induction a as [|x a IH]; [reflexivity|]. destruct a as [|y a]; [reflexivity|].
  change (glue (x :: y :: a) []) with (x :: glue (y :: a) []). now rewrite IH.
Qed.

Lemma glue_nonempty y a b : glue (y :: a) b <> [].
Proof. destruct a; destruct b; discriminate. Qed.

Lemma render_glue a b : render_param (glue a b) = render_param a ++ render_param b.
Proof.
  unfold render_param. induction a as [|x a IH]; [reflexivity|].
  destruct a as [|y a].
  - destruct b as [|z b]; [cbn; now rewrite app_nil_r|].
    cbn [glue]. destruct b as [|w b]; [reflexivity|].
    rewrite (join_cons 58 (x ++ z) (w :: b)), (join_cons 58 z (w :: b)) by discriminate.
    cbn [join]. now rewrite <- app_assoc.
  - change (glue (x :: y :: a) b) with (x :: glue (y :: a) b).
    rewrite join_cons by apply glue_nonempty. rewrite IH.
    rewrite (join_cons 58 x (y :: a)) by discriminate. now rewrite <- app_assoc.
Qed.

Lemma glue_digits a b : digits_param a -> digits_param b -> digits_param (glue a b).
Proof.
  unfold digits_param. intros Ha Hb. induction Ha as [|x a Hx Ha IH]; [exact Hb|].
  destruct a as [|y a].
  - destruct Hb as [|z b Hz Hb]; cbn [glue]; constructor; auto.
    apply Forall_app; auto.
  - change (glue (x :: y :: a) b) with (x :: glue (y :: a) b). constructor; auto.
Qed.

Lemma glue_all_snoc l q : glue_all (l ++ [q]) = glue (glue_all l) q.
Proof. unfold glue_all. now rewrite fold_left_app. Qed.

Lemma glue_all_digits l : Forall digits_param l -> digits_param (glue_all l).
Proof.
  induction l as [|q l IH] using rev_ind; intros H; [constructor|].
  rewrite glue_all_snoc. apply Forall_app in H as [H1 H2].
  apply glue_digits; [now apply IH|now inversion H2].
Qed.

Lemma glue_all_skipn_last k : forall (l : ptext),
  (length l <= S k)%nat -> glue_all (skipn k l) = nth k l [].
Proof.
  induction k as [|k IH]; intros l H.
  - destruct l as [|x [|y l]]; cbn in *; [reflexivity|reflexivity|lia].
  - destruct l as [|x l]; [reflexivity|]. cbn [skipn nth]. apply IH. cbn in H. lia.
Qed.

(** * values *)

Lemma pval_fold ds : pval ds = digit_fold ds 0.
Proof. unfold pval, digit_value. symmetry. apply digit_fold_raw. lia. Qed.

Lemma pval_nil : pval [] = 0.
Proof. reflexivity. Qed.

Lemma pval_app a b : pval (a ++ b) = digit_fold b (pval a).
Proof. rewrite !pval_fold. unfold digit_fold. apply fold_left_app. Qed.

Lemma pval_lt ds : pval ds < 65536.
Proof. unfold pval. apply N.mod_lt. discriminate. Qed.

(** * the parameter-level machine: digits and ':' act on one [param] *)

Definition pstep (q : param) (c : N) : param :=
  if c =? 58 then param_add_part q else param_add_digit (c - 48) q.

Definition prun (cs : list N) (q : param) : param := fold_left pstep cs q.

Lemma prun_app a b q : prun (a ++ b) q = prun b (prun a q).
Proof. apply fold_left_app. Qed.

Lemma prun_digits : forall ds q,
  Forall is_digit ds ->
  prun ds q = mkParam (cur_part q) (upd (cur_part q) (digit_fold ds) (parts q)).
Proof.
  induction ds as [|d ds IH]; intros q H.
  - cbn [prun fold_left]. rewrite upd_id by reflexivity. destruct q; reflexivity.
  - pose proof (Forall_inv H) as Hd. apply Forall_inv_tail in H. unfold is_digit in Hd.
    change (prun (d :: ds) q) with (prun ds (pstep q d)). rewrite IH by exact H.
    unfold pstep. replace (d =? 58) with false by lia.
    destruct q as [k ps]. unfold param_add_digit. cbn [cur_part parts].
    change (cur_part (mkParam k ps <| parts := ?x |>)) with k.
    change (parts (mkParam k ps <| parts := ?x |>)) with x.
    rewrite upd_upd. reflexivity.
Qed.

(** the state in which the digits of the next part (number [length q]) are written *)
Definition pre_param (q : list (list N)) : param :=
  mkParam (Nat.min (length q) 5)
          (map (fun j => pval (part_text q j)) (seq 0 MAX_PARAM_LEN)).

Lemma pre_param_nil : pre_param [] = default_param.
Proof. reflexivity. Qed.

Lemma spec_param_nil : spec_param [] = default_param.
Proof. reflexivity. Qed.

Lemma add_part_spec q : q <> [] -> param_add_part (spec_param q) = pre_param q.
Proof.
  intros H. unfold param_add_part, spec_param, pre_param, ADD_PART_CAP.
  change (mkParam ?k ?ps <| cur_part := ?x |>) with (mkParam x ps).
  cbn [cur_part]. f_equal. destruct q; [congruence|]. cbn [length]. lia.
Qed.

Lemma part_text_snoc_other q x j :
  (j < 6)%nat -> j <> Nat.min (length q) 5 -> part_text (q ++ [x]) j = part_text q j.
Proof.
  intros Hj Hne. unfold part_text. destruct (Nat.ltb_spec j 5) as [H5|H5].
  - destruct (Nat.lt_ge_cases j (length q)) as [Hl|Hl].
    + now apply app_nth1.
    + rewrite !nth_overflow; [reflexivity|lia|rewrite app_length; cbn [length]; lia].
  - rewrite !skipn_all2; [reflexivity|lia|rewrite app_length; cbn [length]; lia].
Qed.

Lemma part_text_snoc_same q x :
  pval (part_text (q ++ [x]) (Nat.min (length q) 5))
  = digit_fold x (pval (part_text q (Nat.min (length q) 5))).
Proof.
  unfold part_text. destruct (Nat.ltb_spec (Nat.min (length q) 5) 5) as [H5|H5].
  - replace (Nat.min (length q) 5) with (length q) by lia.
    rewrite app_nth2, Nat.sub_diag by lia. cbn [nth].
    rewrite (nth_overflow q) by lia. rewrite pval_nil. apply pval_fold.
  - rewrite skipn_app. replace (5 - length q)%nat with 0%nat by lia. cbn [skipn].
    rewrite concat_app. cbn [concat]. rewrite app_nil_r. apply pval_app.
Qed.

Lemma prun_part q x :
  Forall is_digit x -> prun x (pre_param q) = spec_param (q ++ [x]).
Proof.
  intros Hx. rewrite prun_digits by exact Hx. unfold pre_param, spec_param.
  cbn [cur_part parts]. f_equal.
  - rewrite app_length. cbn [length]. lia.
  - apply upd_map_seq.
    + unfold MAX_PARAM_LEN. lia.
    + intros j Hj Hne. f_equal. apply part_text_snoc_other; assumption.
    + apply part_text_snoc_same.
Qed.

(** one parameter, from the cleared parameter *)
Theorem prun_param : forall q,
  digits_param q -> prun (render_param q) default_param = spec_param q.
Proof.
  induction q as [|x q IH] using rev_ind; intros H; [reflexivity|].
  apply Forall_app in H as [Hq Hx]. apply Forall_inv in Hx.
  destruct q as [|y q].
  - cbn [app render_param join]. rewrite <- pre_param_nil. now apply prun_part.
  - unfold render_param. rewrite join_snoc by discriminate.
    rewrite prun_app. fold (render_param (y :: q)). rewrite IH by exact Hq.
    change (prun (58 :: x) ?s) with (prun x (param_add_part s)).
    rewrite add_part_spec by discriminate. now apply prun_part.
Qed.

(** continuing a written parameter with further text *)
Lemma prun_continue g q :
  digits_param g -> digits_param q ->
  prun (render_param q) (spec_param g) = spec_param (glue g q).
Proof.
  intros Hg Hq. rewrite <- (prun_param g Hg), <- prun_app, <- render_glue.
  apply prun_param. now apply glue_digits.
Qed.

Lemma render_param_chars q : digits_param q -> Forall (fun c => 48 <= c <= 58) (render_param q).
Proof.
  intros H. apply join_Forall; [lia|]. eapply Forall_impl; [|exact H].
  intros ds Hd. eapply Forall_impl; [|exact Hd]. unfold is_digit. intros c; cbv beta; lia.
Qed.

Lemma render_chars t : digits_only t -> Forall (fun c => 48 <= c <= 59) (render t).
Proof.
  intros H. apply join_Forall; [lia|]. apply Forall_map. eapply Forall_impl; [|exact H].
  intros q Hq. eapply Forall_impl; [|apply render_param_chars; exact Hq].
  intros c; cbv beta; lia.
Qed.

(** * the parser on parameter characters *)

Lemma w_csi_param : forall c, 48 <= c <= 59 -> williams CsiParam c = mkTrans CsiParam KParam false.
Proof. apply row_is_spec. vm_compute. reflexivity. Qed.

Lemma w_csi_entry_digit : forall c, 48 <= c <= 57 -> williams CsiEntry c = mkTrans CsiParam KParam false.
Proof. apply row_is_spec. vm_compute. reflexivity. Qed.

Lemma w_csi_entry_sep : williams CsiEntry 59 = mkTrans CsiParam KParam false.
Proof. reflexivity. Qed.

Lemma w_csi_entry_colon : williams CsiEntry 58 = mkTrans CsiIgnore KIgnore false.
Proof. reflexivity. Qed.

Lemma w_csi_param_final : forall c, 64 <= c <= 126 -> williams CsiParam c = mkTrans Ground KCsiDispatch false.
Proof. apply row_is_spec. vm_compute. reflexivity. Qed.

Lemma w_csi_entry_final : forall c, 64 <= c <= 126 -> williams CsiEntry c = mkTrans Ground KCsiDispatch false.
Proof. apply row_is_spec. vm_compute. reflexivity. Qed.

Lemma w_any_csi s : williams s 155 = mkTrans CsiEntry KIgnore true.
Proof. reflexivity. Qed.

Lemma w_any_esc s : williams s 27 = mkTrans Escape KIgnore true.
Proof. reflexivity. Qed.

Lemma w_esc_bracket : williams Escape 91 = mkTrans CsiEntry KIgnore true.
Proof. reflexivity. Qed.

(** apply [f] to the current parameter *)
Definition with_slot (f : param -> param) (p : parser) : parser :=
  p <| params := upd (cur_param p) f (params p) |>.

Lemma with_slot_id f p : (forall q, f q = q) -> with_slot f p = p.
Proof. intros H. unfold with_slot. rewrite upd_id by exact H. destruct p; reflexivity. Qed.

Lemma with_slot_comp f g p : with_slot g (with_slot f p) = with_slot (fun q => g (f q)) p.
Proof.
  unfold with_slot.
  change (cur_param (p <| params := ?x |>)) with (cur_param p).
  change (params (p <| params := ?x |>)) with x.
  rewrite upd_upd. destruct p; reflexivity.
Qed.

(** a digit or ':' in [CsiParam] *)
Lemma part_char_step p c :
  pst p = CsiParam -> 48 <= c <= 58 ->
  feed_emit p c = None /\ feed_step p c = with_slot (fun q => pstep q c) p.
Proof.
  intros HS Hc.
  assert (W : williams (pst p) c = mkTrans CsiParam KParam false)
    by (rewrite HS; apply w_csi_param; lia).
  unfold feed_emit, feed_step. rewrite W. cbn [t_kind t_clear t_next]. split; [reflexivity|].
  unfold param_step, PARAM_SEP, PART_SEP, DIGIT_BASE, with_slot, pstep.
  replace (c =? 59) with false by lia.
  rewrite (N.mod_small c 256) by lia.
  destruct p as [s ps cp i]. cbn in HS. subst s.
  destruct (c =? 58); reflexivity.
Qed.

(** ';' in [CsiParam] *)
Lemma sep_step p :
  pst p = CsiParam ->
  feed_emit p 59 = None
  /\ feed_step p 59 = mkParser CsiParam (params p)
                        (if (cur_param p + 1 =? PARAMS_LEN)%nat then (PARAMS_LEN - 1)%nat
                         else (cur_param p + 1)%nat) (inter p).
Proof.
  intros HS.
  assert (W : williams (pst p) 59 = mkTrans CsiParam KParam false)
    by (rewrite HS; apply w_csi_param; lia).
  unfold feed_emit, feed_step. rewrite W. cbn [t_kind t_clear t_next]. split; [reflexivity|].
  destruct p as [s ps cp i]. reflexivity.
Qed.

(** the first character in [CsiEntry]: a digit or ';' acts as in [CsiParam] *)
Lemma entry_step p c :
  pst p = CsiEntry -> 48 <= c <= 57 \/ c = 59 ->
  feed_emit p c = None /\ feed_step p c = feed_step (p <| pst := CsiParam |>) c.
Proof.
  intros HS Hc.
  assert (W : williams (pst p) c = mkTrans CsiParam KParam false).
  { rewrite HS. destruct Hc as [Hc| ->]; [now apply w_csi_entry_digit|apply w_csi_entry_sep]. }
  assert (W' : williams CsiParam c = mkTrans CsiParam KParam false) by (apply w_csi_param; lia).
  unfold feed_emit, feed_step. rewrite W.
  change (pst (p <| pst := CsiParam |>)) with CsiParam. rewrite W'.
  cbn [t_kind t_clear t_next]. split; [reflexivity|].
  unfold param_step. destruct p as [s ps cp i].
  destruct (c =? PARAM_SEP); [|destruct (c =? PART_SEP)]; reflexivity.
Qed.

(** parameter characters never emit and stay in [CsiParam] *)
Lemma param_chars_quiet : forall cs p,
  pst p = CsiParam -> Forall (fun c => 48 <= c <= 59) cs ->
  run_emit p cs = [] /\ pst (run_step p cs) = CsiParam.
Proof.
  induction cs as [|c cs IH]; intros p HS H; [auto|].
  pose proof (Forall_inv H) as Hc. apply Forall_inv_tail in H. cbv beta in Hc.
  assert (W : williams (pst p) c = mkTrans CsiParam KParam false)
    by (rewrite HS; now apply w_csi_param).
  cbn [run_emit run_step].
  assert (E : feed_emit p c = None) by (unfold feed_emit; now rewrite W).
  assert (S : pst (feed_step p c) = CsiParam) by (rewrite feed_step_pst; now rewrite W).
  rewrite E. cbn [opt_cons]. now apply IH.
Qed.

(** the text of one parameter acts on the current slot only *)
Lemma param_text_run : forall cs p,
  pst p = CsiParam -> Forall (fun c => 48 <= c <= 58) cs ->
  run_step p cs = with_slot (prun cs) p.
Proof.
  induction cs as [|c cs IH]; intros p HS H.
  - cbn [run_step]. symmetry. now apply with_slot_id.
  - pose proof (Forall_inv H) as Hc. apply Forall_inv_tail in H. cbv beta in Hc.
    destruct (part_char_step p c HS Hc) as [_ S]. cbn [run_step]. rewrite S.
    rewrite IH; [|exact HS|exact H]. now rewrite with_slot_comp.
Qed.

(** * the whole text, from the cleared block *)

Definition cleared (s : pstate) (i : option N) : parser :=
  mkParser s (repeat default_param PARAMS_LEN) 0 i.

(** the state after the text [t] *)
Definition post_text (t : ptext) (i : option N) : parser :=
  mkParser CsiParam (spec_block t) (spec_cur t) i.

(** the state after the text [t] and a ';': the next parameter (number [length t]) is written *)
Definition pre_text (t : ptext) (i : option N) : parser :=
  mkParser CsiParam (spec_block t) (Nat.min (length t) 31) i.

Lemma spec_block_nil : spec_block [] = repeat default_param PARAMS_LEN.
Proof. reflexivity. Qed.

Lemma pre_text_nil i : pre_text [] i = cleared CsiParam i.
Proof. reflexivity. Qed.

Lemma sep_post t i : t <> [] -> feed_step (post_text t i) 59 = pre_text t i.
Proof.
  intros H. destruct (sep_step (post_text t i) eq_refl) as [_ St]. rewrite St.
  unfold post_text, pre_text, spec_cur, PARAMS_LEN. cbn [params cur_param inter]. f_equal.
  destruct t; [congruence|]. cbn [length].
  destruct (Nat.eqb_spec (Nat.min (S (length t) - 1) 31 + 1) 32); lia.
Qed.

Lemma slot_text_snoc_other t q i :
  (i < 32)%nat -> i <> Nat.min (length t) 31 -> slot_text (t ++ [q]) i = slot_text t i.
Proof.
  intros Hi Hne. unfold slot_text. destruct (Nat.ltb_spec i 31) as [H|H].
  - destruct (Nat.lt_ge_cases i (length t)) as [Hl|Hl].
    + now apply app_nth1.
    + rewrite !nth_overflow; [reflexivity|lia|rewrite app_length; cbn [length]; lia].
  - rewrite !skipn_all2; [reflexivity|lia|rewrite app_length; cbn [length]; lia].
Qed.

Lemma slot_text_snoc_same t q :
  digits_only t -> digits_param q ->
  spec_param (slot_text (t ++ [q]) (Nat.min (length t) 31))
  = prun (render_param q) (spec_param (slot_text t (Nat.min (length t) 31))).
Proof.
  intros Ht Hq. unfold slot_text.
  destruct (Nat.ltb_spec (Nat.min (length t) 31) 31) as [H|H].
  - replace (Nat.min (length t) 31) with (length t) by lia.
    rewrite app_nth2, Nat.sub_diag by lia. cbn [nth].
    rewrite (nth_overflow t) by lia. rewrite spec_param_nil. symmetry. now apply prun_param.
  - rewrite skipn_app. replace (31 - length t)%nat with 0%nat by lia. cbn [skipn].
    rewrite glue_all_snoc. symmetry. apply prun_continue; [|exact Hq].
    apply glue_all_digits. unfold digits_only in Ht. rewrite Forall_forall in *.
    intros x Hx. apply Ht. rewrite <- (firstn_skipn 31 t). apply in_or_app. now right.
Qed.

Lemma write_slot t q i :
  digits_only t -> digits_param q ->
  with_slot (prun (render_param q)) (pre_text t i) = post_text (t ++ [q]) i.
Proof.
  intros Ht Hq. unfold with_slot, pre_text, post_text.
  change (mkParser ?s ?ps ?cp ?it <| params := ?x |>) with (mkParser s x cp it).
  cbn [params cur_param]. f_equal.
  - unfold spec_block. apply upd_map_seq.
    + unfold PARAMS_LEN. lia.
    + intros j Hj Hne. f_equal. apply slot_text_snoc_other; assumption.
    + now apply slot_text_snoc_same.
  - unfold spec_cur. rewrite app_length. cbn [length]. lia.
Qed.

Lemma text_run : forall t i,
  digits_only t -> run_step (cleared CsiParam i) (render t) = post_text t i.
Proof.
  induction t as [|q t IH] using rev_ind; intros i H; [reflexivity|].
  apply Forall_app in H as [Ht Hq]. apply Forall_inv in Hq.
  unfold render. rewrite map_app. cbn [map].
  destruct t as [|q0 t].
  - cbn [app map join]. rewrite param_text_run; [|reflexivity|now apply render_param_chars].
    rewrite <- pre_text_nil. now apply write_slot.
  - rewrite join_snoc by discriminate. rewrite run_step_app.
    fold (render (q0 :: t)). rewrite IH by exact Ht.
    cbn [run_step]. rewrite sep_post by discriminate.
    rewrite param_text_run; [|reflexivity|now apply render_param_chars].
    now apply write_slot.
Qed.

Lemma cleared_eq p :
  params p = repeat default_param PARAMS_LEN -> cur_param p = 0%nat ->
  p = cleared (pst p) (inter p).
Proof. destruct p as [s ps cp i]. cbn. intros -> ->. reflexivity. Qed.

(** * the pure (table-level) statements *)

Lemma text_pure t p :
  pst p = CsiParam -> params p = repeat default_param PARAMS_LEN -> cur_param p = 0%nat ->
  digits_only t ->
  run_emit p (render t) = [] /\ run_step p (render t) = post_text t (inter p).
Proof.
  intros HS Hps Hcp Ht.
  destruct (param_chars_quiet (render t) p HS (render_chars t Ht)) as [E _].
  split; [exact E|]. rewrite (cleared_eq p Hps Hcp), HS. now apply text_run.
Qed.

Definition entry_state (t : ptext) : pstate :=
  match render t with [] => CsiEntry | _ => CsiParam end.

Lemma text_pure_entry t p :
  pst p = CsiEntry -> params p = repeat default_param PARAMS_LEN -> cur_param p = 0%nat ->
  digits_only t -> hd 0 (render t) <> 58 ->
  run_emit p (render t) = []
  /\ run_step p (render t) = mkParser (entry_state t) (spec_block t) (spec_cur t) (inter p).
Proof.
  intros HS Hps Hcp Ht Hhd.
  assert (HS1 : pst (p <| pst := CsiParam |>) = CsiParam) by reflexivity.
  destruct (text_pure t (p <| pst := CsiParam |>) HS1 Hps Hcp Ht) as [E R].
  change (inter (p <| pst := CsiParam |>)) with (inter p) in R.
  pose proof (render_chars t Ht) as Hch. unfold entry_state.
  destruct (render t) as [|c cs].
  - cbn [run_step run_emit] in *. split; [reflexivity|].
    unfold post_text in R. destruct p as [s ps cp i]. cbn in HS. subst s.
    injection R as -> ->. reflexivity.
  - cbn [hd] in Hhd. pose proof (Forall_inv Hch) as Hc. cbv beta in Hc.
    assert (Hc' : 48 <= c <= 57 \/ c = 59) by lia.
    destruct (entry_step p c HS Hc') as [E1 S1].
    cbn [run_step run_emit] in *. rewrite E1, S1. cbn [opt_cons]. split; [|exact R].
    destruct (feed_emit (p <| pst := CsiParam |>) c); [discriminate E|exact E].
Qed.

(** the CSI introducers, from any state *)
Lemma csi8_step p : PInv p -> feed_emit p 155 = None /\ feed_step p 155 = cleared CsiEntry None.
Proof.
  intros HP. unfold feed_emit, feed_step. rewrite w_any_csi. cbn [t_kind t_clear t_next].
  rewrite clear_eq by exact HP. split; reflexivity.
Qed.

Lemma csi7_step p :
  PInv p -> run_emit p [27; 91] = [] /\ run_step p [27; 91] = cleared CsiEntry None.
Proof.
  intros HP.
  assert (S1 : feed_step p 27 = cleared Escape None).
  { unfold feed_step. rewrite w_any_esc. cbn [t_kind t_clear t_next].
    rewrite clear_eq by exact HP. reflexivity. }
  assert (E1 : feed_emit p 27 = None) by (unfold feed_emit; now rewrite w_any_esc).
  assert (HP1 : PInv (cleared Escape None)) by (apply PInv_repeat; unfold PARAMS_LEN; lia).
  cbn [run_emit run_step]. rewrite S1, E1. unfold feed_emit, feed_step.
  change (pst (cleared Escape None)) with Escape. rewrite w_esc_bracket.
  cbn [t_kind t_clear t_next opt_cons]. rewrite clear_eq by exact HP1. split; reflexivity.
Qed.

Definition is_csi_intro (intro : list N) : Prop := intro = [155] \/ intro = [27; 91].

Lemma intro_pure p intro :
  PInv p -> is_csi_intro intro ->
  run_emit p intro = [] /\ run_step p intro = cleared CsiEntry None.
Proof.
  intros HP [->| ->]; [|now apply csi7_step].
  destruct (csi8_step p HP) as [E St]. cbn [run_emit run_step]. now rewrite E, St.
Qed.

Lemma fresh_pure t p intro :
  PInv p -> is_csi_intro intro -> digits_only t -> hd 0 (render t) <> 58 ->
  run_emit p (intro ++ render t) = []
  /\ run_step p (intro ++ render t) = mkParser (entry_state t) (spec_block t) (spec_cur t) None.
Proof.
  intros HP HI Ht Hhd. destruct (intro_pure p intro HP HI) as [E0 S0].
  rewrite run_emit_app, run_step_app, E0, S0.
  destruct (text_pure_entry t (cleared CsiEntry None) eq_refl eq_refl eq_refl Ht Hhd) as [E1 S1].
  rewrite E1, S1. split; reflexivity.
Qed.

(** a final byte dispatches on the collected block and returns to [Ground] *)
Lemma final_step p c :
  pst p = CsiEntry \/ pst p = CsiParam -> 64 <= c <= 126 ->
  feed_emit p c = csi_dispatch_gen (inter p) c (params p) (cur_param p)
  /\ pst (feed_step p c) = Ground.
Proof.
  intros HS Hc.
  assert (W : williams (pst p) c = mkTrans Ground KCsiDispatch false).
  { destruct HS as [-> | ->]; [now apply w_csi_entry_final|now apply w_csi_param_final]. }
  rewrite feed_step_pst. unfold feed_emit. rewrite W. split; reflexivity.
Qed.

Lemma entry_state_cases t : entry_state t = CsiEntry \/ entry_state t = CsiParam.
Proof. unfold entry_state. destruct (render t); auto. Qed.

Lemma dispatch_pure t p intro c :
  PInv p -> is_csi_intro intro -> digits_only t -> hd 0 (render t) <> 58 -> 64 <= c <= 126 ->
  run_emit p (intro ++ render t ++ [c])
  = opt_cons (csi_dispatch_gen None c (spec_block t) (spec_cur t)) []
  /\ run_step p (intro ++ render t ++ [c])
     = feed_step (mkParser (entry_state t) (spec_block t) (spec_cur t) None) c.
Proof.
  intros HP HI Ht Hhd Hc. destruct (fresh_pure t p intro HP HI Ht Hhd) as [E R].
  rewrite app_assoc, (run_emit_app (intro ++ render t) [c] p), (run_step_app (intro ++ render t) [c] p).
  rewrite E, R. cbn [run_emit run_step app].
  split; [|reflexivity].
  destruct (final_step (mkParser (entry_state t) (spec_block t) (spec_cur t) None) c) as [F _];
    [exact (entry_state_cases t)|exact Hc|].
  rewrite F. reflexivity.
Qed.

(** * 3. the main theorem, for arbitrary texts: saturation in closed form *)

(** After the cleared block, any parameter text -- of any length -- leaves the block
    [spec_block t] / [spec_cur t]: slots 0..30 hold the first 31 parameters; slot 31 holds
    the 32nd parameter continued by the text of all further parameters with their ';'
    dropped ([glue_all]); in each slot parts 0..4 hold the first five parts and part 5 the
    sixth part continued by the digits of all further parts with their ':' dropped; every
    value is the decimal value modulo 65536. *)
Theorem C03_params_saturate : forall (t : ptext) p,
  PInv p -> pst p = CsiParam ->
  params p = repeat default_param PARAMS_LEN -> cur_param p = 0%nat ->
  digits_only t ->
  exists p', runP p (render t) = Ok (p', [])
    /\ params p' = spec_block t /\ cur_param p' = spec_cur t
    /\ inter p' = inter p /\ pst p' = CsiParam.
Proof.
  intros t p HP HS Hps Hcp Ht. exists (run_step p (render t)).
  rewrite runP_char by exact HP.
  destruct (text_pure t p HS Hps Hcp Ht) as [E R]. rewrite E, R.
  repeat split; reflexivity.
Qed.
Print Assumptions C03_params_saturate.

(** entering from [CsiEntry] (directly after the introducer): the first character must not
    be ':' (which leads to [CsiIgnore], see [colon_first_is_ignored] below); the empty text
    stays in [CsiEntry] *)
Theorem C03_params_saturate_entry : forall (t : ptext) p,
  PInv p -> pst p = CsiEntry ->
  params p = repeat default_param PARAMS_LEN -> cur_param p = 0%nat ->
  digits_only t -> hd 0 (render t) <> 58 ->
  exists p', runP p (render t) = Ok (p', [])
    /\ params p' = spec_block t /\ cur_param p' = spec_cur t
    /\ inter p' = inter p
    /\ pst p' = match render t with [] => CsiEntry | _ => CsiParam end.
Proof.
  intros t p HP HS Hps Hcp Ht Hhd. exists (run_step p (render t)).
  rewrite runP_char by exact HP.
  destruct (text_pure_entry t p HS Hps Hcp Ht Hhd) as [E R]. rewrite E, R.
  repeat split; reflexivity.
Qed.
Print Assumptions C03_params_saturate_entry.

(** from ANY parser state: the 8-bit and the 7-bit CSI introducer clear the block, so the
    result does not depend on what was parsed before *)
Theorem C03_params_saturate_fresh : forall (t : ptext) p,
  PInv p -> digits_only t -> hd 0 (render t) <> 58 ->
  exists p', runP p (155 :: render t) = Ok (p', [])
    /\ runP p (27 :: 91 :: render t) = Ok (p', [])
    /\ params p' = spec_block t /\ cur_param p' = spec_cur t /\ inter p' = None
    /\ pst p' = match render t with [] => CsiEntry | _ => CsiParam end.
Proof.
  intros t p HP Ht Hhd.
  exists (mkParser (entry_state t) (spec_block t) (spec_cur t) None).
  destruct (fresh_pure t p [155] HP (or_introl eq_refl) Ht Hhd) as [E8 R8].
  destruct (fresh_pure t p [27; 91] HP (or_intror eq_refl) Ht Hhd) as [E7 R7].
  cbn [app] in *. rewrite !runP_char by exact HP. rewrite E8, R8, E7, R7.
  repeat split; reflexivity.
Qed.
Print Assumptions C03_params_saturate_fresh.

(** * 2. texts within the capacity: the parameters as written *)

Lemma spec_param_written q : (length q <= MAX_PARAM_LEN)%nat -> spec_param q = written_param q.
Proof.
  unfold MAX_PARAM_LEN. intros H. unfold spec_param, written_param. f_equal; [lia|].
  apply map_ext_in. intros j Hj. apply in_seq in Hj. unfold MAX_PARAM_LEN in Hj. f_equal.
  unfold part_text. destruct (Nat.ltb_spec j 5) as [H5|H5]; [reflexivity|].
  replace j with 5%nat by lia. now apply concat_skipn_last.
Qed.

Lemma slot_text_written t i : (length t <= PARAMS_LEN)%nat -> (i < PARAMS_LEN)%nat -> slot_text t i = nth i t [].
Proof.
  unfold PARAMS_LEN. intros H Hi. unfold slot_text.
  destruct (Nat.ltb_spec i 31) as [H5|H5]; [reflexivity|].
  replace i with 31%nat by lia. now apply glue_all_skipn_last.
Qed.

Lemma wf_nth_length (t : ptext) i :
  Forall (fun q => (length q <= MAX_PARAM_LEN)%nat) t -> (length (nth i t []) <= MAX_PARAM_LEN)%nat.
Proof.
  intros H. destruct (Nat.lt_ge_cases i (length t)) as [Hl|Hl].
  - rewrite Forall_forall in H. apply H. now apply nth_In.
  - rewrite nth_overflow by exact Hl. cbn. unfold MAX_PARAM_LEN. lia.
Qed.

Lemma spec_block_written t : wf_text t -> spec_block t = written_block t.
Proof.
  intros (_ & HL & HF). unfold spec_block, written_block. apply map_ext_in.
  intros i Hi. apply in_seq in Hi. rewrite slot_text_written by lia.
  apply spec_param_written. now apply wf_nth_length.
Qed.

Lemma spec_cur_written t : wf_text t -> spec_cur t = written_cur t.
Proof. intros (_ & HL & _). unfold spec_cur, written_cur. unfold PARAMS_LEN in HL. lia. Qed.

(** reading the block: slot [i], part [j] *)
Lemma written_block_slot t i :
  (i < PARAMS_LEN)%nat -> nth i (written_block t) default_param = written_param (nth i t []).
Proof.
  intros Hi. unfold written_block.
  rewrite (nth_indep _ default_param (written_param (nth 0 t []))) by (now rewrite map_length, seq_length).
  rewrite (map_nth (fun i => written_param (nth i t [])) (seq 0 PARAMS_LEN) 0%nat i).
  now rewrite seq_nth.
Qed.

Lemma written_block_part t i j :
  (i < PARAMS_LEN)%nat -> (j < MAX_PARAM_LEN)%nat ->
  nth j (parts (nth i (written_block t) default_param)) 0
  = digit_value (nth j (nth i t []) []) mod 65536
  /\ cur_part (nth i (written_block t) default_param) = (length (nth i t []) - 1)%nat.
Proof.
  intros Hi Hj. rewrite written_block_slot by exact Hi. unfold written_param. cbn [parts cur_part].
  split; [|reflexivity].
  rewrite (nth_indep _ 0 (pval (nth 0 (nth i t []) []))) by (now rewrite map_length, seq_length).
  rewrite (map_nth (fun j => pval (nth j (nth i t []) [])) (seq 0 MAX_PARAM_LEN) 0%nat j).
  now rewrite seq_nth.
Qed.

Theorem C03_params_written : forall (t : ptext) p,
  PInv p -> pst p = CsiParam ->
  params p = repeat default_param PARAMS_LEN -> cur_param p = 0%nat ->
  wf_text t ->
  exists p', runP p (render t) = Ok (p', [])
    /\ params p' = written_block t /\ cur_param p' = written_cur t
    /\ inter p' = inter p /\ pst p' = CsiParam.
Proof.
  intros t p HP HS Hps Hcp Hwf.
  rewrite <- (spec_block_written t Hwf), <- (spec_cur_written t Hwf).
  apply C03_params_saturate; auto. exact (proj1 Hwf).
Qed.
Print Assumptions C03_params_written.

Theorem C03_params_written_entry : forall (t : ptext) p,
  PInv p -> pst p = CsiEntry ->
  params p = repeat default_param PARAMS_LEN -> cur_param p = 0%nat ->
  wf_text t -> hd 0 (render t) <> 58 ->
  exists p', runP p (render t) = Ok (p', [])
    /\ params p' = written_block t /\ cur_param p' = written_cur t
    /\ inter p' = inter p
    /\ pst p' = match render t with [] => CsiEntry | _ => CsiParam end.
Proof.
  intros t p HP HS Hps Hcp Hwf Hhd.
  rewrite <- (spec_block_written t Hwf), <- (spec_cur_written t Hwf).
  apply C03_params_saturate_entry; auto. exact (proj1 Hwf).
Qed.
Print Assumptions C03_params_written_entry.

(** independent of whatever was parsed before *)
Theorem C03_params_written_fresh : forall (t : ptext) p,
  PInv p -> wf_text t -> hd 0 (render t) <> 58 ->
  exists p', runP p (155 :: render t) = Ok (p', [])
    /\ runP p (27 :: 91 :: render t) = Ok (p', [])
    /\ params p' = written_block t /\ cur_param p' = written_cur t /\ inter p' = None
    /\ pst p' = match render t with [] => CsiEntry | _ => CsiParam end.
Proof.
  intros t p HP Hwf Hhd.
  rewrite <- (spec_block_written t Hwf), <- (spec_cur_written t Hwf).
  apply C03_params_saturate_fresh; auto. exact (proj1 Hwf).
Qed.
Print Assumptions C03_params_written_fresh.

(** * 4. the function dispatched by a final byte *)

(** for ANY final byte: exactly what the function table [csi_spec] assigns to the block
    of the text (nothing if the final byte is not implemented), parser back in [Ground] *)
Theorem C03_params_dispatch : forall (t : ptext) p c,
  PInv p -> digits_only t -> hd 0 (render t) <> 58 -> 64 <= c <= 126 ->
  exists p',
    runP p (155 :: render t ++ [c])
      = Ok (p', opt_cons (csi_spec (spec_block t) (spec_cur t) None c) [])
    /\ runP p (27 :: 91 :: render t ++ [c])
      = Ok (p', opt_cons (csi_spec (spec_block t) (spec_cur t) None c) [])
    /\ pst p' = Ground.
Proof.
  intros t p c HP Ht Hhd Hc.
  exists (feed_step (mkParser (entry_state t) (spec_block t) (spec_cur t) None) c).
  destruct (dispatch_pure t p [155] c HP (or_introl eq_refl) Ht Hhd Hc) as [E8 R8].
  destruct (dispatch_pure t p [27; 91] c HP (or_intror eq_refl) Ht Hhd Hc) as [E7 R7].
  cbn [app] in *. rewrite !runP_char by exact HP. rewrite E8, R8, E7, R7, csi_table.
  repeat split; try reflexivity.
  apply final_step; [exact (entry_state_cases t)|exact Hc].
Qed.
Print Assumptions C03_params_dispatch.

Theorem C03_params_written_dispatch : forall (t : ptext) p c,
  PInv p -> wf_text t -> hd 0 (render t) <> 58 -> 64 <= c <= 126 ->
  exists p',
    runP p (155 :: render t ++ [c])
      = Ok (p', opt_cons (csi_spec (written_block t) (written_cur t) None c) [])
    /\ runP p (27 :: 91 :: render t ++ [c])
      = Ok (p', opt_cons (csi_spec (written_block t) (written_cur t) None c) [])
    /\ pst p' = Ground.
Proof.
  intros t p c HP Hwf Hhd Hc.
  rewrite <- (spec_block_written t Hwf), <- (spec_cur_written t Hwf).
  apply C03_params_dispatch; auto. exact (proj1 Hwf).
Qed.
Print Assumptions C03_params_written_dispatch.

(** the instance for 'H' (CUP): the first part of the first two parameters, as written *)
Lemma csi_spec_cup ps cp : csi_spec ps cp None 72 = Some (Cup (pu16 ps 0) (pu16 ps 1)).
Proof. rewrite <- csi_table. reflexivity. Qed.

Lemma pu16_spec_block t i :
  (i < 31)%nat -> pu16 (spec_block t) i = pval (nth 0 (nth i t []) []).
Proof.
  intros Hi. unfold pu16, spec_block.
  assert (E : nth_error (map (fun i => spec_param (slot_text t i)) (seq 0 PARAMS_LEN)) i
              = Some (spec_param (slot_text t i))).
  { rewrite nth_error_map. rewrite (nth_error_nth' _ 0%nat) by (rewrite seq_length; unfold PARAMS_LEN; lia).
    rewrite seq_nth by (unfold PARAMS_LEN; lia). reflexivity. }
  rewrite E. unfold slot_text. replace (i <? 31)%nat with true by lia. reflexivity.
Qed.

Theorem C03_params_cup : forall (t : ptext) p,
  PInv p -> digits_only t -> hd 0 (render t) <> 58 ->
  exists p',
    runP p (155 :: render t ++ [72])
      = Ok (p', [Cup (digit_value (nth 0 (nth 0 t []) []) mod 65536)
                     (digit_value (nth 0 (nth 1 t []) []) mod 65536)])
    /\ pst p' = Ground.
Proof.
  intros t p HP Ht Hhd.
  destruct (C03_params_dispatch t p 72 HP Ht Hhd) as (p' & R & _ & S'); [lia|].
  exists p'. split; [|exact S']. rewrite R, csi_spec_cup, !pu16_spec_block by lia. reflexivity.
Qed.
Print Assumptions C03_params_cup.

(** * 5. examples (non-vacuity) and the pinned discrepancies *)

(** a dirty state: "ESC [ 38:2:1:2:3 ; 5" has been parsed, no final byte yet *)
Definition dirty_parser : parser :=
  run_step init_parser [27; 91; 51; 56; 58; 50; 58; 49; 58; 50; 58; 51; 59; 53].

Lemma dirty_parser_PInv : PInv dirty_parser.
Proof. apply run_step_inv, init_parser_PInv. Qed.

Example dirty_parser_is_dirty :
  (pst dirty_parser, cur_param dirty_parser, nth 0 (params dirty_parser) default_param)
  = (CsiParam, 1%nat, mkParam 4 [38; 2; 1; 2; 3; 0]).
Proof. vm_compute. reflexivity. Qed.

(** "1;2:3;;65536;70000" *)
Definition ex_text : ptext :=
  [ [[49]]; [[50]; [51]]; [[]]; [[54; 53; 53; 51; 54]]; [[55; 48; 48; 48; 48]] ].

Example ex_text_render :
  render ex_text = [49; 59; 50; 58; 51; 59; 59; 54; 53; 53; 51; 54; 59; 55; 48; 48; 48; 48].
Proof. reflexivity. Qed.

Example ex_text_block :
  written_block ex_text
  = [ mkParam 0 [1; 0; 0; 0; 0; 0]; mkParam 1 [2; 3; 0; 0; 0; 0]; mkParam 0 [0; 0; 0; 0; 0; 0];
      mkParam 0 [0; 0; 0; 0; 0; 0]; mkParam 0 [4464; 0; 0; 0; 0; 0] ]
    ++ repeat default_param 27
  /\ written_cur ex_text = 4%nat.
Proof. vm_compute. split; reflexivity. Qed.

Example ex_text_run :
  runP dirty_parser (155 :: render ex_text)
  = Ok (mkParser CsiParam (written_block ex_text) 4 None, [])
  /\ runP dirty_parser (27 :: 91 :: render ex_text)
  = Ok (mkParser CsiParam (written_block ex_text) 4 None, []).
Proof. vm_compute. split; reflexivity. Qed.

Example ex_text_cup :
  runP dirty_parser (155 :: render ex_text ++ [72])
  = Ok (mkParser Ground (written_block ex_text) 4 None, [Cup 1 2]).
Proof. vm_compute. reflexivity. Qed.

(** SGR colours in the ':' and the ';' form *)
Example ex_sgr_colon :
  runP dirty_parser (155 :: render [[[51; 56]; [50]; [49]; [50]; [51]]] ++ [109])
  = Ok (mkParser Ground (written_block [[[51; 56]; [50]; [49]; [50]; [51]]]) 0 None,
        [Sgr [SetForegroundColor (RGB 1 2 3)]]).
Proof. vm_compute. reflexivity. Qed.

Example ex_sgr_semicolon :
  runP dirty_parser (155 :: render [[[51; 56]]; [[50]]; [[49]]; [[50]]; [[51]]] ++ [109])
  = Ok (mkParser Ground (written_block [[[51; 56]]; [[50]]; [[49]]; [[50]]; [[51]]]) 4 None,
        [Sgr [SetForegroundColor (RGB 1 2 3)]]).
Proof. vm_compute. reflexivity. Qed.

(** saturation: 34 parameters "1;2;...;9;0;1;...;1;2;3;4": the 33rd and 34th continue the
    digit string of the 32nd (slot 31 = 234, not 2 or 4; cur_param stays 31) *)
Definition ex_many : ptext := map (fun k => [[48 + N.of_nat (k mod 10)]]) (seq 1 34).

Example ex_many_sat :
  length ex_many = 34%nat
  /\ nth 30 (spec_block ex_many) default_param = mkParam 0 [1; 0; 0; 0; 0; 0]
  /\ nth 31 (spec_block ex_many) default_param = mkParam 0 [234; 0; 0; 0; 0; 0]
  /\ spec_cur ex_many = 31%nat
  /\ runP dirty_parser (155 :: render ex_many)
     = Ok (mkParser CsiParam (spec_block ex_many) 31 None, []).
Proof. vm_compute. repeat split; reflexivity. Qed.

(** saturation: 8 parts "1:2:3:4:5:6:7:8": the 7th and 8th continue the digit string of
    the 6th (part 5 = 678) *)
Definition ex_parts : ptext := [map (fun k => [48 + N.of_nat k]) (seq 1 8)].

Example ex_parts_sat :
  nth 0 (spec_block ex_parts) default_param = mkParam 5 [1; 2; 3; 4; 5; 678]
  /\ runP dirty_parser (155 :: 48 :: 59 :: render ex_parts)
     = Ok (mkParser CsiParam
             (mkParam 0 [0; 0; 0; 0; 0; 0] :: mkParam 5 [1; 2; 3; 4; 5; 678]
              :: repeat default_param 30) 1 None, []).
Proof. vm_compute. split; reflexivity. Qed.

(** DISCREPANCY with the sketch "any text directly after the introducer": in [CsiEntry]
    a leading ':' (empty first part of the first parameter) goes to [CsiIgnore] and the
    whole sequence is dropped -- nothing is dispatched; in [CsiParam] it is accepted. *)
Example colon_first_is_ignored :
  runP init_parser (155 :: render [[[]; [53]]] ++ [109]) = Ok (init_parser, [])
  /\ pst (run_step init_parser (155 :: render [[[]; [53]]])) = CsiIgnore
  /\ run_emit init_parser (155 :: 59 :: render [[[]; [53]]] ++ [109])
     = [Sgr [Reset]].
Proof. vm_compute. repeat split; reflexivity. Qed.

(** values wrap modulo 65536 (they do not saturate at 65535) *)
Example values_wrap :
  run_emit init_parser (155 :: render [[[54; 53; 53; 51; 55]]] ++ [65]) = [Cuu 1].
Proof. vm_compute. reflexivity. Qed.
