(** C15: changed-line reports are sound.

    Every control function marks (sets the dirty flag of) every visible row whose CELLS it
    changes.  The ghost invariant [DInv v0 t] relates the current state to the view [v0] at the
    previous report: a row whose flag is clear has the cells it had in [v0].  [changes] returns
    the set flags, so every row that differs from [v0] is reported. *)

From Coq Require Import Lia ZArith ZifyBool ZifyNat ZifyN.
From Avt Require Import Oracles.Step Proofs.Inv Proofs.ListLemmas Proofs.BufRow Proofs.BufScroll
  Proofs.Resize Proofs.TermEasy.
Ltac Zify.zify_post_hook ::= Z.div_mod_to_equations.

Local Ltac len :=
  repeat (rewrite ?app_length, ?firstn_length, ?skipn_length, ?repeat_length, ?map_length,
                  ?upd_length); try lia.

(** * the ghost invariant *)

Definition DInv (v0 : list line) (t : term) : Prop :=
  forall r, r < rows t -> nth r (dirty t) true = false ->
    length v0 = rows t /\ cells (row_at v0 r) = cells (row_at (tview t) r).

(** every flag set: [DInv] holds vacuously, whatever the reference view *)
Definition AllMarked (t : term) : Prop :=
  forall r, r < rows t -> nth r (dirty t) true = true.

Lemma AllMarked_DInv v0 t : AllMarked t -> DInv v0 t.
Proof. intros H r Hr E. rewrite (H r Hr) in E. discriminate. Qed.

(** [t'] differs from [t] in cells only on rows that are marked in [t'] *)
Definition Covers (t t' : term) : Prop :=
  rows t' = rows t /\
  forall r, r < rows t -> nth r (dirty t') true = false ->
    nth r (dirty t) true = false /\ cells (row_at (tview t') r) = cells (row_at (tview t) r).

Lemma Covers_refl t : Covers t t.
Proof. split; auto. Qed.

Lemma Covers_trans t1 t2 t3 : Covers t1 t2 -> Covers t2 t3 -> Covers t1 t3.
Proof.
  intros [R12 H12] [R23 H23]. split; [congruence|].
  intros r Hr E. destruct (H23 r ltac:(lia) E) as [E2 C23].
  destruct (H12 r Hr E2) as [E1 C12]. split; [exact E1|congruence].
Qed.

Lemma Covers_DInv v0 t t' : Covers t t' -> DInv v0 t -> DInv v0 t'.
Proof.
  intros [R H] D r Hr E. rewrite R in *. destruct (H r Hr E) as [E1 C].
  destruct (D r Hr E1) as [L C0]. split; [exact L|congruence].
Qed.

(** [t1] differs from [t] in cells only on the rows in [P]; flags untouched *)
Definition Frame (P : nat -> Prop) (t t1 : term) : Prop :=
  rows t1 = rows t /\ dirty t1 = dirty t /\
  forall r, ~ P r -> cells (row_at (tview t1) r) = cells (row_at (tview t) r).

Lemma Frame_weaken (P Q : nat -> Prop) t t1 :
  (forall r, P r -> Q r) -> Frame P t t1 -> Frame Q t t1.
Proof. intros PQ (R & D & H). repeat split; auto. Qed.

Lemma Frame_trans (P : nat -> Prop) t t1 t2 : Frame P t t1 -> Frame P t1 t2 -> Frame P t t2.
Proof.
  intros (R1 & D1 & H1) (R2 & D2 & H2). repeat split; try congruence.
  intros r Hr. rewrite H2, H1; auto.
Qed.

Lemma Frame_none_Covers t t1 : Frame (fun _ => False) t t1 -> Covers t t1.
Proof.
  intros (R & D & H). split; [exact R|]. intros r Hr E. rewrite D in E. split; auto.
Qed.

(** nothing relevant changes *)
Definition Same (t t' : term) : Prop :=
  rows t' = rows t /\ dirty t' = dirty t /\ buf t' = buf t.

Lemma Same_Frame P t t' : Same t t' -> Frame P t t'.
Proof. intros (R & D & B). repeat split; auto. intros r _. unfold tview. now rewrite B. Qed.

Lemma Same_Covers t t' : Same t t' -> Covers t t'.
Proof. intros H. apply Frame_none_Covers, Same_Frame, H. Qed.

Lemma Same_refl t : Same t t.
Proof. repeat split. Qed.

Lemma Same_trans t1 t2 t3 : Same t1 t2 -> Same t2 t3 -> Same t1 t3.
Proof. intros (?&?&?) (?&?&?). repeat split; congruence. Qed.

(** * flags *)

Lemma nth_firstn_lt {A} (l : list A) n i d : i < n -> nth i (firstn n l) d = nth i l d.
Proof.
  revert n i; induction l as [|x l IH]; intros [|n] [|i] H; cbn; try lia; auto.
  apply IH; lia.
Qed.

Lemma nth_skipn_add {A} (l : list A) n i d : nth i (skipn n l) d = nth (n + i) l d.
Proof.
  revert l; induction n as [|n IH]; intros l; [reflexivity|].
  destruct l as [|x l]; cbn; [destruct i; reflexivity|]. apply IH.
Qed.

Lemma nth_repeat_lt {A} (x : A) n i d : i < n -> nth i (repeat x n) d = x.
Proof. revert i; induction n as [|n IH]; intros [|i] H; cbn; try lia; auto. apply IH; lia. Qed.

(** rows outside [a, z) are not touched by [fill_range a z] *)
Lemma nth_fill_range_out {A} a z (x : A) l i d :
  a <= z -> z <= length l -> ~ (a <= i < z) -> nth i (fill_range a z x l) d = nth i l d.
Proof.
  intros Haz Hz Hi. unfold fill_range.
  destruct (Nat.lt_ge_cases i a) as [Hlt|Hge].
  - rewrite app_nth1 by (len). apply nth_firstn_lt; exact Hlt.
  - rewrite app_nth2 by (len). rewrite app_nth2 by (len).
    rewrite nth_skipn_add. f_equal. len.
Qed.

Lemma nth_fill_range_in {A} a z (x : A) l i d :
  a <= z -> z <= length l -> a <= i < z -> nth i (fill_range a z x l) d = x.
Proof.
  intros Haz Hz Hi. unfold fill_range.
  rewrite app_nth2 by (len). rewrite app_nth1 by (len). apply nth_repeat_lt. len.
Qed.

Lemma mark_inv t n t' :
  mark t n = Ok t' -> n < length (dirty t) /\ t' = t <| dirty := upd n (fun _ => true) (dirty t) |>.
Proof.
  unfold mark, dirty_add, bind. destruct (Nat.ltb_spec n (length (dirty t))); [|discriminate].
  intros E; inversion E; auto.
Qed.

Lemma mark_range_inv t a z t' :
  mark_range t a z = Ok t' ->
  a <= z /\ z <= length (dirty t) /\ t' = t <| dirty := fill_range a z true (dirty t) |>.
Proof.
  unfold mark_range, dirty_extend, bind.
  destruct (Nat.leb_spec a z); [|discriminate].
  destruct (Nat.leb_spec z (length (dirty t))); [|discriminate].
  cbn. intros E; inversion E; auto.
Qed.

Lemma set_dirty_proj (t : term) d :
  rows (t <| dirty := d |>) = rows t /\ buf (t <| dirty := d |>) = buf t
  /\ dirty (t <| dirty := d |>) = d /\ cols (t <| dirty := d |>) = cols t.
Proof. destruct t; repeat split. Qed.

Lemma Frame_mark (P : nat -> Prop) t t1 n t' :
  Frame P t t1 -> (forall r, P r -> r = n) -> mark t1 n = Ok t' -> Covers t t'.
Proof.
  intros (R & D & H) HP E. apply mark_inv in E as [Hn ->].
  destruct (set_dirty_proj t1 (upd n (fun _ => true) (dirty t1))) as (R' & B' & D' & _).
  split; [congruence|]. intros r Hr. rewrite D'. unfold tview. rewrite B'. intros E.
  assert (Hrn : r <> n).
  { intros ->. rewrite nth_upd_same in E by exact Hn. discriminate. }
  rewrite nth_upd_other in E by auto. rewrite D in E. split; [exact E|].
  apply H. intros HPr. apply HP in HPr. contradiction.
Qed.

Lemma Frame_mark_range (P : nat -> Prop) t t1 a z t' :
  Frame P t t1 -> (forall r, P r -> a <= r < z) -> mark_range t1 a z = Ok t' -> Covers t t'.
Proof.
  intros (R & D & H) HP E. apply mark_range_inv in E as (Haz & Hz & ->).
  destruct (set_dirty_proj t1 (fill_range a z true (dirty t1))) as (R' & B' & D' & _).
  split; [congruence|]. intros r Hr. rewrite D'. unfold tview. rewrite B'. intros E.
  assert (Hrn : ~ (a <= r < z)).
  { intros Hin. rewrite nth_fill_range_in in E by assumption. discriminate. }
  rewrite nth_fill_range_out in E by assumption. rewrite D in E. split; [exact E|].
  apply H. intros HPr. apply HP in HPr. contradiction.
Qed.

Lemma mark_range_all t t' : mark_range t 0 (rows t) = Ok t' -> AllMarked t'.
Proof.
  intros E. apply mark_range_inv in E as (_ & Hz & ->).
  destruct (set_dirty_proj t (fill_range 0 (rows t) true (dirty t))) as (R' & _ & D' & _).
  intros r Hr. rewrite D'. rewrite R' in Hr. apply nth_fill_range_in; lia.
Qed.

(** * buffer-level frames, directly from the definitions (no preconditions: the guards of the
      model supply what is needed) *)

Definition BFrame (P : nat -> Prop) (b b' : buffer) : Prop :=
  brows b' = brows b /\
  forall r, ~ P r -> cells (row_at (view b') r) = cells (row_at (view b) r).

Lemma BFrame_weaken (P Q : nat -> Prop) b b' :
  (forall r, P r -> Q r) -> BFrame P b b' -> BFrame Q b b'.
Proof. intros PQ (R & H). split; auto. Qed.

Lemma BFrame_trans (P : nat -> Prop) b b1 b2 : BFrame P b b1 -> BFrame P b1 b2 -> BFrame P b b2.
Proof.
  intros (R1 & H1) (R2 & H2). split; [congruence|]. intros r Hr. rewrite H2, H1; auto.
Qed.

Lemma BFrame_refl P b : BFrame P b b.
Proof. split; auto. Qed.

Lemma view_ok_length b : view_ok b = true -> length (view b) = brows b.
Proof. unfold view_ok, view, sb_len. intros H. apply Nat.leb_le in H. len. Qed.

Lemma set_lines_proj (b : buffer) ls :
  lines (b <| lines := ls |>) = ls /\ brows (b <| lines := ls |>) = brows b
  /\ bcols (b <| lines := ls |>) = bcols b.
Proof. destruct b; repeat split. Qed.

Lemma sb_len_set_lines (b : buffer) ls :
  length ls = length (lines b) -> sb_len (b <| lines := ls |>) = sb_len b.
Proof. destruct b; unfold sb_len; cbn. intros ->. reflexivity. Qed.

Lemma with_row_inv b r f b' :
  with_row b r f = Ok b' ->
  exists l l', view_ok b = true /\ r < brows b /\ nth_error (lines b) (sb_len b + r) = Some l
    /\ f l = Ok l' /\ b' = b <| lines := upd (sb_len b + r) (fun _ => l') (lines b) |>.
Proof.
  unfold with_row, bind. destruct (view_ok b) eqn:V; [|discriminate].
  destruct (Nat.ltb_spec r (brows b)); [|discriminate]. cbn.
  destruct (nth_error (lines b) (sb_len b + r)) as [l|] eqn:E; [|discriminate].
  destruct (f l) as [l'|] eqn:F; [|discriminate]. intros X; inversion X.
  exists l, l'. repeat split; auto.
Qed.

Lemma with_row_rows b r f b' :
  with_row b r f = Ok b' ->
  brows b' = brows b /\ bcols b' = bcols b /\
  (forall r', r' <> r -> row_at (view b') r' = row_at (view b) r') /\
  exists l', f (row_at (view b) r) = Ok l' /\ row_at (view b') r = l'.
Proof.
  intros E. apply with_row_inv in E as (l & l' & V & Hr & N & F & ->).
  destruct (set_lines_proj b (upd (sb_len b + r) (fun _ => l') (lines b))) as (L & R & C).
  assert (S : sb_len (b <| lines := upd (sb_len b + r) (fun _ => l') (lines b) |>) = sb_len b).
  { apply sb_len_set_lines, upd_length. }
  assert (Hlt : sb_len b + r < length (lines b)).
  { apply nth_error_Some. congruence. }
  repeat split; auto.
  - intros r' Hr'. unfold row_at, view. rewrite S, L, !nth_skipn_add.
    apply nth_upd_other. lia.
  - exists l'. unfold row_at, view. rewrite S, L, !nth_skipn_add.
    rewrite nth_upd_same by exact Hlt. split; [|reflexivity].
    rewrite (nth_error_nth _ _ _ N). exact F.
Qed.

Lemma with_row_BFrame b r f b' : with_row b r f = Ok b' -> BFrame (eq r) b b'.
Proof.
  intros E. apply with_row_rows in E as (R & _ & H & _). split; [exact R|].
  intros r' Hr'. rewrite H; auto.
Qed.

(** a row transformer that keeps the cells (it only touches [wrapped]) changes no cells *)
Lemma with_row_BFrame_cells b r f b' :
  (forall l l', f l = Ok l' -> cells l' = cells l) ->
  with_row b r f = Ok b' -> BFrame (fun _ => False) b b'.
Proof.
  intros Hf E. apply with_row_rows in E as (R & _ & H & l' & F & E'). split; [exact R|].
  intros r' _. destruct (Nat.eq_dec r' r) as [->|Hne].
  - rewrite E'. apply Hf in F. exact F.
  - rewrite H; auto.
Qed.

Lemma set_wrapped_cells w l l' : set_wrapped w l = Ok l' -> cells l' = cells l.
Proof. unfold set_wrapped. intros E; inversion E. destruct l; reflexivity. Qed.

Lemma with_view_inv b ok f b' :
  with_view b ok f = Ok b' ->
  view_ok b = true /\ ok = true /\ b' = b <| lines := firstn (sb_len b) (lines b) ++ f (view b) |>.
Proof.
  unfold with_view. destruct (view_ok b); [|discriminate]. destruct ok; [|discriminate].
  cbn. intros E; inversion E; auto.
Qed.

Lemma with_view_view b ok f b' :
  with_view b ok f = Ok b' -> length (f (view b)) = brows b ->
  brows b' = brows b /\ bcols b' = bcols b /\ view b' = f (view b) /\ view_ok b' = true.
Proof.
  intros E Hl. apply with_view_inv in E as (V & _ & ->).
  destruct (set_lines_proj b (firstn (sb_len b) (lines b) ++ f (view b))) as (L & R & C).
  assert (Hsb : length (firstn (sb_len b) (lines b)) = sb_len b).
  { unfold view_ok in V. apply Nat.leb_le in V. unfold sb_len. len. }
  assert (S : sb_len (b <| lines := firstn (sb_len b) (lines b) ++ f (view b) |>) = sb_len b).
  { unfold sb_len at 1. rewrite L, R, app_length, Hsb, Hl. lia. }
  repeat split; auto.
  - unfold view at 1. rewrite S, L. apply skipn_app_exact. exact Hsb.
  - unfold view_ok. rewrite L, R, app_length, Hl. apply Nat.leb_le. lia.
Qed.

Lemma buf_clear_view b a z p b' :
  buf_clear b a z p = Ok b' ->
  a <= z /\ z <= brows b /\ brows b' = brows b /\ bcols b' = bcols b /\ view_ok b' = true
  /\ view b' = fill_range a z (blank_line (bcols b) p) (view b).
Proof.
  unfold buf_clear. intros E. pose proof (with_view_inv _ _ _ _ E) as (V & Hok & _).
  apply andb_prop in Hok as [H1 H2]. apply Nat.leb_le in H1, H2.
  apply with_view_view in E.
  - destruct E as (R & C & Vw & V'). repeat split; auto.
  - rewrite fill_range_length; rewrite ?view_ok_length; auto.
Qed.

Lemma buf_clear_BFrame b a z p b' :
  buf_clear b a z p = Ok b' -> BFrame (fun r => a <= r < z) b b'.
Proof.
  intros E. pose proof (view_ok_length b) as Hl.
  unfold buf_clear in E. pose proof (with_view_inv _ _ _ _ E) as (V & _ & _). fold (buf_clear b a z p) in E.
  apply buf_clear_view in E as (Haz & Hz & R & _ & _ & Vw). split; [exact R|].
  intros r Hr. rewrite Vw. unfold row_at. rewrite nth_fill_range_out; auto. rewrite Hl; auto.
Qed.

(** ** erase *)

Definition erase_rows (b : buffer) (row : nat) (m : erase_mode) (r : nat) : Prop :=
  match m with
  | FromCursorToEndOfView => row <= r < brows b
  | FromStartOfViewToCursor => r < row + 1
  | WholeView => r < brows b
  | _ => r = row
  end.

Lemma buf_erase_BFrame b col row m p b' :
  buf_erase b col row m p = Ok b' -> BFrame (erase_rows b row m) b b'.
Proof.
  destruct m; unfold erase_rows; cbn [buf_erase]; unfold bind.
  - destruct (guard _ _); [|discriminate]. intros E. apply with_row_BFrame in E.
    eapply BFrame_weaken; [|exact E]. cbn; intros; congruence.
  - destruct (with_row _ _ _) as [b1|] eqn:E1; [|discriminate]. intros E2.
    pose proof (with_row_inv _ _ _ _ E1) as (_ & _ & _ & Hrow & _).
    apply with_row_BFrame in E1. apply buf_clear_BFrame in E2. destruct E1 as [R1 H1].
    rewrite R1 in E2.
    apply BFrame_trans with (b1 := b1).
    + apply BFrame_weaken with (P := eq row); [intros; subst; lia|exact (conj R1 H1)].
    + apply BFrame_weaken with (2 := E2). intros; lia.
  - destruct (with_row _ _ _) as [b1|] eqn:E1; [|discriminate]. intros E2.
    apply with_row_BFrame in E1. apply buf_clear_BFrame in E2.
    apply BFrame_trans with (b1 := b1).
    + apply BFrame_weaken with (2 := E1). intros; subst; lia.
    + apply BFrame_weaken with (2 := E2). intros; lia.
  - intros E. apply buf_clear_BFrame in E. eapply BFrame_weaken; [|exact E]. cbn; intros; lia.
  - intros E. apply with_row_BFrame in E.
    eapply BFrame_weaken; [|exact E]. cbn; intros; congruence.
  - intros E. apply with_row_BFrame in E.
    eapply BFrame_weaken; [|exact E]. cbn; intros; congruence.
  - intros E. apply with_row_BFrame in E.
    eapply BFrame_weaken; [|exact E]. cbn; intros; congruence.
Qed.

(** ** scrolling: rows outside [a, z) keep their cells (the specs may unwrap rows [a-1] and
       [z-1], which changes only [wrapped]) *)

Lemma cells_upd_unwrap i v r : cells (row_at (upd_row i unwrap v) r) = cells (row_at v r).
Proof.
  destruct (Nat.eq_dec i r) as [->|Hne].
  - destruct (Nat.lt_ge_cases r (length v)).
    + rewrite row_at_upd_row_same by auto. apply cells_unwrap.
    + unfold upd_row. rewrite upd_ge by auto. reflexivity.
  - rewrite row_at_upd_row_other by auto. reflexivity.
Qed.

Lemma cells_upd_mark_wrapped i v r :
  cells (row_at (upd_row i mark_wrapped v) r) = cells (row_at v r).
Proof.
  destruct (Nat.eq_dec i r) as [->|Hne].
  - destruct (Nat.lt_ge_cases r (length v)).
    + rewrite row_at_upd_row_same by auto. apply cells_mark_wrapped.
    + unfold upd_row. rewrite upd_ge by auto. reflexivity.
  - rewrite row_at_upd_row_other by auto. reflexivity.
Qed.

Lemma cells_up_v2 a z v r : cells (row_at (up_v2 a z v) r) = cells (row_at v r).
Proof.
  unfold up_v2. destruct (z <? length v), (0 <? a); rewrite ?cells_upd_unwrap; reflexivity.
Qed.

Lemma spec_scroll_up_outside a z n p nc v r :
  a <= z -> z <= length v -> ~ (a <= r < z) ->
  cells (row_at (fst (spec_scroll_up a z n p nc v)) r) = cells (row_at v r).
Proof.
  intros Haz Hz Hr. rewrite spec_scroll_up_eq. cbv zeta. cbn [fst].
  rewrite <- (cells_up_v2 a z v r).
  pose proof (up_v2_length a z v) as Hl. set (v2 := up_v2 a z v) in *.
  set (k := Nat.min n (z - a)). assert (Hk : k <= z - a) by (unfold k; lia).
  f_equal. unfold row_at.
  destruct (Nat.lt_ge_cases r a) as [Hlt|Hge].
  - rewrite app_nth1 by len. apply nth_firstn_lt; exact Hlt.
  - rewrite app_nth2 by len. rewrite app_nth2 by len. rewrite app_nth2 by len.
    rewrite nth_skipn_add. f_equal. len.
Qed.

Lemma spec_scroll_down_outside a z n p nc v r :
  a <= z -> z <= length v -> ~ (a <= r < z) ->
  cells (row_at (spec_scroll_down a z n p nc v) r) = cells (row_at v r).
Proof.
  intros Haz Hz Hr. rewrite spec_scroll_down_eq. cbv zeta.
  rewrite cells_upd_unwrap.
  set (k := Nat.min n (z - a)). assert (Hk : k <= z - a) by (unfold k; lia).
  transitivity (cells (row_at (down_v1 a z k (blank_line nc p) v) r)).
  { destruct (0 <? a); rewrite ?cells_upd_unwrap; reflexivity. }
  f_equal. unfold row_at, down_v1.
  destruct (Nat.lt_ge_cases r a) as [Hlt|Hge].
  - rewrite app_nth1 by len. apply nth_firstn_lt; exact Hlt.
  - rewrite app_nth2 by len. rewrite app_nth2 by len. rewrite app_nth2 by len.
    rewrite nth_skipn_add. f_equal. len.
Qed.

Lemma buf_scroll_up_BFrame b a z n p b' :
  BGeom b -> a < z -> z <= brows b -> buf_scroll_up b a z n p = Ok b' ->
  BFrame (fun r => a <= r < z) b b' /\ BGeom b' /\ bcols b' = bcols b.
Proof.
  intros G Haz Hz E.
  pose proof (buf_scroll_up_view _ _ _ _ _ _ G Haz Hz E) as V.
  destruct (buf_scroll_up_spec b a z n p G Haz Hz) as (b'' & E' & _ & C & R & _ & _ & G').
  rewrite E in E'. inversion E'; subst b''. split; [split; [exact R|]|split; [exact G'|exact C]].
  intros r Hr. rewrite V. apply spec_scroll_up_outside; [lia|rewrite view_length; auto|exact Hr].
Qed.

Lemma buf_scroll_down_BFrame b a z n p b' :
  BGeom b -> a < z -> z <= brows b -> buf_scroll_down b a z n p = Ok b' ->
  BFrame (fun r => a <= r < z) b b' /\ BGeom b' /\ bcols b' = bcols b.
Proof.
  intros G Haz Hz E.
  pose proof (buf_scroll_down_fields _ _ _ _ _ _ G Haz Hz E) as (V & _ & _ & C & R & _).
  destruct (buf_scroll_down_spec b a z n p G Haz Hz) as (b'' & E' & _ & G').
  rewrite E in E'. inversion E'; subst b''. split; [split; [exact R|]|split; [exact G'|exact C]].
  intros r Hr. rewrite V. apply spec_scroll_down_outside; [lia|rewrite view_length; auto|exact Hr].
Qed.

(** * terminal level *)

Lemma on_buf_inv t f t1 :
  on_buf t f = Ok t1 -> exists b', f (buf t) = Ok b' /\ t1 = t <| buf := b' |>.
Proof.
  unfold on_buf, bind. destruct (f (buf t)) as [b'|]; [|discriminate].
  intros E; inversion E. eauto.
Qed.

Lemma on_buf_Frame (P : nat -> Prop) t f t1 :
  on_buf t f = Ok t1 -> (forall b', f (buf t) = Ok b' -> BFrame P (buf t) b') -> Frame P t t1.
Proof.
  intros E H. apply on_buf_inv in E as (b' & E & ->). apply H in E as [_ E].
  destruct t; repeat split. exact E.
Qed.

Lemma on_buf_scalars t f t1 :
  on_buf t f = Ok t1 ->
  rows t1 = rows t /\ cols t1 = cols t /\ cur_row t1 = cur_row t /\ cur_col t1 = cur_col t
  /\ top t1 = top t /\ bot t1 = bot t /\ dirty t1 = dirty t /\ tpen t1 = tpen t
  /\ awm t1 = awm t /\ ins t1 = ins t.
Proof. intros E. apply on_buf_inv in E as (b' & E & ->). destruct t; repeat split. Qed.

Lemma Same_col t c : Same t (do_move_cursor_to_col t c).
Proof. destruct t; repeat split. Qed.

Lemma Same_row t r : Same t (do_move_cursor_to_row t r).
Proof. destruct t; repeat split. Qed.

Lemma Same_to_col t c : Same t (move_cursor_to_col t c).
Proof. unfold move_cursor_to_col. destruct (_ <=? _); apply Same_col. Qed.

Lemma Same_to_row t r : Same t (move_cursor_to_row t r).
Proof. apply Same_row. Qed.

Lemma Same_rel_col t z : Same t (move_cursor_to_rel_col t z).
Proof.
  unfold move_cursor_to_rel_col. destruct (_ <? _)%Z; [apply Same_col|].
  destruct (_ <=? _); apply Same_col.
Qed.

Lemma Same_home t : Same t (move_cursor_home t).
Proof.
  unfold move_cursor_home. eapply Same_trans; [apply Same_col|apply Same_row].
Qed.

Lemma Same_save t : Same t (save_cursor t).
Proof. destruct t; repeat split. Qed.

Lemma Same_restore t : Same t (restore_cursor t).
Proof. destruct t; repeat split. Qed.

(** the scalars a cursor move keeps *)
Lemma col_scalars t c :
  cur_row (do_move_cursor_to_col t c) = cur_row t /\ top (do_move_cursor_to_col t c) = top t
  /\ bot (do_move_cursor_to_col t c) = bot t /\ cols (do_move_cursor_to_col t c) = cols t.
Proof. destruct t; repeat split. Qed.

(** ** scrolling commands *)

Lemma scroll_up_in_region_Covers t n t' :
  BGeom (buf t) -> top t <= bot t -> bot t < brows (buf t) ->
  scroll_up_in_region t n = Ok t' -> Covers t t'.
Proof.
  intros G H1 H2. unfold scroll_up_in_region, bind.
  destruct (on_buf _ _) as [t1|] eqn:E1; [|discriminate]. intros E2.
  eapply Frame_mark_range with (P := fun r => top t <= r < bot t + 1); [|intros r Hr; exact Hr|exact E2].
  eapply on_buf_Frame; [exact E1|]. intros b' E.
  apply buf_scroll_up_BFrame in E; [apply E|auto|lia|lia].
Qed.

Lemma scroll_down_in_region_Covers t n t' :
  BGeom (buf t) -> top t <= bot t -> bot t < brows (buf t) ->
  scroll_down_in_region t n = Ok t' -> Covers t t'.
Proof.
  intros G H1 H2. unfold scroll_down_in_region, bind.
  destruct (on_buf _ _) as [t1|] eqn:E1; [|discriminate]. intros E2.
  eapply Frame_mark_range with (P := fun r => top t <= r < bot t + 1); [|intros r Hr; exact Hr|exact E2].
  eapply on_buf_Frame; [exact E1|]. intros b' E.
  apply buf_scroll_down_BFrame in E; [apply E|auto|lia|lia].
Qed.

Lemma TInv_BGeom t : TInv t -> BGeom (buf t).
Proof. intros H. apply (ti_buf t H). Qed.

Lemma TInv_region t : TInv t -> top t <= bot t /\ bot t < brows (buf t).
Proof. intros H. rewrite (ti_brows t H). apply (ti_margins t H). Qed.

Lemma down_with_scroll_Covers t t' :
  TInv t -> move_cursor_down_with_scroll t = Ok t' -> Covers t t'.
Proof.
  intros H. unfold move_cursor_down_with_scroll. destruct (_ =? _).
  - apply scroll_up_in_region_Covers; [apply TInv_BGeom, H|apply TInv_region, H..].
  - destruct (_ <? _); intros E; inversion E; [apply Same_Covers, Same_row|apply Covers_refl].
Qed.

Lemma lf_Covers t t' : TInv t -> lf t = Ok t' -> Covers t t'.
Proof.
  intros H. unfold lf, bind. destruct (move_cursor_down_with_scroll t) as [t1|] eqn:E1; [|discriminate].
  intros E; inversion E. eapply Covers_trans; [eapply down_with_scroll_Covers; eauto|].
  destruct (nlm t1); [apply Same_Covers, Same_col|apply Covers_refl].
Qed.

Lemma nel_Covers t t' : TInv t -> nel t = Ok t' -> Covers t t'.
Proof.
  intros H. unfold nel, bind. destruct (move_cursor_down_with_scroll t) as [t1|] eqn:E1; [|discriminate].
  intros E; inversion E. eapply Covers_trans; [eapply down_with_scroll_Covers; eauto|].
  apply Same_Covers, Same_col.
Qed.

Lemma ri_Covers t t' : TInv t -> ri t = Ok t' -> Covers t t'.
Proof.
  intros H. unfold ri. destruct (_ =? _).
  - apply scroll_down_in_region_Covers; [apply TInv_BGeom, H|apply TInv_region, H..].
  - destruct (_ <? _); intros E; inversion E; [apply Same_Covers, Same_row|apply Covers_refl].
Qed.

Lemma il_dl_range_ok t a z : TInv t -> il_dl_range t = (a, z) -> a < z /\ z <= brows (buf t).
Proof.
  intros H. pose proof (ti_row t H). pose proof (ti_margins t H). rewrite (ti_brows t H).
  unfold il_dl_range. destruct (Nat.leb_spec (cur_row t) (bot t)); intros E; inversion E; lia.
Qed.

Lemma il_Covers t n t' : TInv t -> il t n = Ok t' -> Covers t t'.
Proof.
  intros H. unfold il. destruct (il_dl_range t) as [a z] eqn:R.
  apply il_dl_range_ok in R as [Haz Hz]; [|exact H]. unfold bind.
  destruct (on_buf _ _) as [t1|] eqn:E1; [|discriminate]. intros E2.
  eapply Frame_mark_range with (P := fun r => a <= r < z); [|intros r Hr; exact Hr|exact E2].
  eapply on_buf_Frame; [exact E1|]. intros b' E.
  apply buf_scroll_down_BFrame in E; [apply E|apply TInv_BGeom, H|lia|lia].
Qed.

Lemma dl_Covers t n t' : TInv t -> dl t n = Ok t' -> Covers t t'.
Proof.
  intros H. unfold dl. destruct (il_dl_range t) as [a z] eqn:R.
  apply il_dl_range_ok in R as [Haz Hz]; [|exact H]. unfold bind.
  destruct (on_buf _ _) as [t1|] eqn:E1; [|discriminate]. intros E2.
  eapply Frame_mark_range with (P := fun r => a <= r < z); [|intros r Hr; exact Hr|exact E2].
  eapply on_buf_Frame; [exact E1|]. intros b' E.
  apply buf_scroll_up_BFrame in E; [apply E|apply TInv_BGeom, H|lia|lia].
Qed.

(** ** single-row edits: [on_buf] at the cursor row, then [mark (cur_row)] *)

Lemma row_edit_Covers t f t' :
  (forall b', f (buf t) = Ok b' -> BFrame (eq (cur_row t)) (buf t) b') ->
  (t1 <- on_buf t f ;; mark t1 (cur_row t1)) = Ok t' -> Covers t t'.
Proof.
  intros Hf. unfold bind. destruct (on_buf t f) as [t1|] eqn:E1; [|discriminate]. intros E2.
  pose proof (on_buf_scalars _ _ _ E1) as (_ & _ & Hr & _). rewrite Hr in E2.
  eapply Frame_mark with (P := eq (cur_row t)); [|intros; subst; auto|exact E2].
  eapply on_buf_Frame; eauto.
Qed.

Lemma buf_insert_BFrame b col row n x b' :
  buf_insert b col row n x = Ok b' -> BFrame (eq row) b b'.
Proof.
  unfold buf_insert, bind. destruct (guard _ _); [|discriminate]. apply with_row_BFrame.
Qed.

Lemma buf_delete_BFrame b col row n p b' :
  buf_delete b col row n p = Ok b' -> BFrame (eq row) b b'.
Proof.
  unfold buf_delete, bind. destruct (guard _ _); [|discriminate]. apply with_row_BFrame.
Qed.

Lemma buf_print_BFrame b col row x b' : buf_print b col row x = Ok b' -> BFrame (eq row) b b'.
Proof. apply with_row_BFrame. Qed.

Lemma buf_wrap_BFrame b row b' : buf_wrap b row = Ok b' -> BFrame (fun _ => False) b b'.
Proof. apply with_row_BFrame_cells. apply set_wrapped_cells. Qed.

Lemma ich_Covers t n t' : ich t n = Ok t' -> Covers t t'.
Proof. apply row_edit_Covers. intros b'. apply buf_insert_BFrame. Qed.

Lemma ech_Covers t n t' : ech t n = Ok t' -> Covers t t'.
Proof.
  apply row_edit_Covers. intros b' E. apply buf_erase_BFrame in E.
  eapply BFrame_weaken; [|exact E]. cbn. auto.
Qed.

Lemma el_Covers t s t' : el t s = Ok t' -> Covers t t'.
Proof.
  apply row_edit_Covers. intros b' E. apply buf_erase_BFrame in E.
  eapply BFrame_weaken; [|exact E]. destruct s; cbn; auto.
Qed.

Lemma dch_Covers t n t' : dch t n = Ok t' -> Covers t t'.
Proof.
  unfold dch. intros E.
  eapply Covers_trans; [|eapply row_edit_Covers; [|exact E]].
  - destruct (_ <=? _); [apply Same_Covers, Same_to_col|apply Covers_refl].
  - intros b'. apply buf_delete_BFrame.
Qed.

Lemma ed_Covers t s t' : TInv t -> ed t s = Ok t' -> Covers t t'.
Proof.
  intros H. pose proof (ti_brows t H) as HR. pose proof (ti_row t H) as Hrow.
  destruct s; cbn [ed]; unfold bind.
  - destruct (on_buf _ _) as [t1|] eqn:E1; [|discriminate]. intros E2.
    pose proof (on_buf_scalars _ _ _ E1) as (R1 & _ & Hr & _). rewrite R1, Hr in E2.
    eapply Frame_mark_range; [eapply on_buf_Frame; [exact E1|]| |exact E2].
    + intros b'. apply buf_erase_BFrame.
    + cbn. intros r. lia.
  - destruct (on_buf _ _) as [t1|] eqn:E1; [|discriminate]. intros E2.
    pose proof (on_buf_scalars _ _ _ E1) as (R1 & _ & Hr & _). rewrite Hr in E2.
    eapply Frame_mark_range; [eapply on_buf_Frame; [exact E1|]| |exact E2].
    + intros b'. apply buf_erase_BFrame.
    + cbn. intros r. lia.
  - destruct (on_buf _ _) as [t1|] eqn:E1; [|discriminate]. intros E2.
    pose proof (on_buf_scalars _ _ _ E1) as (R1 & _ & Hr & _). rewrite R1 in E2.
    eapply Frame_mark_range; [eapply on_buf_Frame; [exact E1|]| |exact E2].
    + intros b'. apply buf_erase_BFrame.
    + cbn. intros r. lia.
  - intros E; inversion E. apply Covers_refl.
Qed.

(** ** DECALN *)

Lemma decaln_cols_BFrame n : forall b row col b',
  decaln_cols b row n col = Ok b' -> BFrame (eq row) b b'.
Proof.
  induction n as [|n IH]; intros b row col b'; cbn [decaln_cols].
  - intros E; inversion E. apply BFrame_refl.
  - unfold bind. destruct (buf_print _ _ _ _) as [b1|] eqn:E1; [|discriminate]. intros E2.
    eapply BFrame_trans; [eapply buf_print_BFrame; exact E1|eapply IH; exact E2].
Qed.

Lemma decaln_rows_Covers n : forall t row t', decaln_rows t n row = Ok t' -> Covers t t'.
Proof.
  induction n as [|n IH]; intros t row t'; cbn [decaln_rows].
  - intros E; inversion E. apply Covers_refl.
  - unfold bind. destruct (on_buf _ _) as [t1|] eqn:E1; [|discriminate].
    destruct (mark t1 row) as [t2|] eqn:E2; [|discriminate]. intros E3.
    eapply Covers_trans; [|eapply IH; exact E3].
    eapply Frame_mark with (P := eq row); [|intros; subst; auto|exact E2].
    eapply on_buf_Frame; [exact E1|]. intros b'. apply decaln_cols_BFrame.
Qed.

Lemma decaln_Covers t t' : decaln t = Ok t' -> Covers t t'.
Proof. apply decaln_rows_Covers. Qed.

(** ** PRINT *)

Definition print_wrap (t : term) : res term :=
  if awm t && pend t then
    let t := do_move_cursor_to_col t 0 in
    if cur_row t =? bot t then
      t <- on_buf t (fun b => buf_wrap b (cur_row t)) ;;
      scroll_up_in_region t 1
    else if cur_row t <? rows t - 1 then
      t <- on_buf t (fun b => buf_wrap b (cur_row t)) ;;
      Ok (do_move_cursor_to_row t (cur_row t + 1))
    else Ok t
  else Ok t.

Definition print_write (t : term) (cl : cell) : res term :=
  let next_col := cur_col t + 1 in
  t <- (if cols t <=? next_col then
          t <- on_buf t (fun b => buf_print b (cols t - 1) (cur_row t) cl) ;;
          if awm t then Ok (do_move_cursor_to_col t (cols t) <| pend := true |>) else Ok t
        else
          t <- (if ins t then on_buf t (fun b => buf_insert b (cur_col t) (cur_row t) 1 cl)
                else on_buf t (fun b => buf_print b (cur_col t) (cur_row t) cl)) ;;
          Ok (do_move_cursor_to_col t next_col)) ;;
  mark t (cur_row t).

Lemma print_eq t c :
  print t c = (cs <- active_cs t ;; c <- translate cs c ;;
               t1 <- print_wrap t ;; print_write t1 (mkCell c (tpen t))).
Proof. reflexivity. Qed.

Lemma on_buf_buf t f t1 : on_buf t f = Ok t1 -> f (buf t) = Ok (buf t1).
Proof. intros E. apply on_buf_inv in E as (b' & E & ->). rewrite E. destruct t; reflexivity. Qed.

Lemma print_wrap_Covers t t1 : TInv t -> print_wrap t = Ok t1 -> Covers t t1.
Proof.
  intros H. unfold print_wrap. destruct (awm t && pend t); [|intros E; inversion E; apply Covers_refl].
  cbv zeta.
  pose proof (Same_col t 0) as S0. pose proof (col_scalars t 0) as (Hr0 & Ht0 & Hb0 & _).
  set (t0 := do_move_cursor_to_col t 0) in *. destruct S0 as (R0 & D0 & B0).
  assert (G0 : BGeom (buf t0)) by (rewrite B0; apply TInv_BGeom, H).
  assert (Hrow : cur_row t0 < brows (buf t0)).
  { rewrite B0, Hr0, (ti_brows t H). apply (ti_row t H). }
  intros E0. eapply Covers_trans; [apply Same_Covers; exact (conj R0 (conj D0 B0))|].
  revert E0. destruct (_ =? _).
  - unfold bind. destruct (on_buf _ _) as [ta|] eqn:E1; [|discriminate]. intros E2.
    pose proof (on_buf_scalars _ _ _ E1) as (_ & _ & _ & _ & Hta & Hba & _).
    pose proof (on_buf_buf _ _ _ E1) as Eb.
    destruct (buf_wrap_spec (buf t0) (cur_row t0) G0 Hrow) as [Ew Gw].
    rewrite Eb in Ew. inversion Ew as [Ew'].
    apply buf_wrap_BFrame in Eb as Fb.
    eapply Covers_trans.
    + apply Frame_none_Covers. eapply on_buf_Frame; [exact E1|]. intros b'. apply buf_wrap_BFrame.
    + apply scroll_up_in_region_Covers with (n := 1); [rewrite Ew'; exact Gw| | |exact E2].
      * rewrite Hta, Hba, Ht0, Hb0. apply (ti_margins t H).
      * destruct Fb as [Rb _]. rewrite Rb, Hba, Hb0, B0, (ti_brows t H). apply (ti_margins t H).
  - destruct (_ <? _).
    + unfold bind. destruct (on_buf _ _) as [ta|] eqn:E1; [|discriminate]. intros E2; inversion E2.
      eapply Covers_trans; [|apply Same_Covers, Same_row].
      apply Frame_none_Covers. eapply on_buf_Frame; [exact E1|]. intros b'. apply buf_wrap_BFrame.
    + intros E; inversion E. apply Covers_refl.
Qed.

Lemma mark_cur_Covers t t1 t2 t' :
  Frame (eq (cur_row t)) t t1 -> cur_row t1 = cur_row t -> Same t1 t2 -> cur_row t2 = cur_row t1 ->
  mark t2 (cur_row t2) = Ok t' -> Covers t t'.
Proof.
  intros F C1 S C2 E. rewrite C2, C1 in E.
  eapply Frame_mark with (P := eq (cur_row t)); [|intros; subst; auto|exact E].
  eapply Frame_trans; [exact F|apply Same_Frame, S].
Qed.

Lemma Same_col_pend t c :
  Same t (do_move_cursor_to_col t c <| pend := true |>)
  /\ cur_row (do_move_cursor_to_col t c <| pend := true |>) = cur_row t.
Proof. destruct t; repeat split. Qed.

Lemma print_write_Covers t cl t' : print_write t cl = Ok t' -> Covers t t'.
Proof.
  unfold print_write. cbv zeta. unfold bind.
  destruct (_ <=? _).
  - destruct (on_buf _ _) as [t1|] eqn:E1; [|discriminate].
    pose proof (on_buf_scalars _ _ _ E1) as (_ & _ & Hr & _).
    assert (F : Frame (eq (cur_row t)) t t1).
    { eapply on_buf_Frame; [exact E1|]. intros b'. apply buf_print_BFrame. }
    destruct (awm t1); intros E2.
    + destruct (Same_col_pend t1 (cols t1)) as [S C].
      eapply mark_cur_Covers; [exact F|exact Hr|exact S|exact C|exact E2].
    + eapply mark_cur_Covers; [exact F|exact Hr|apply Same_refl|reflexivity|exact E2].
  - assert (X : forall t1,
      (if ins t then on_buf t (fun b => buf_insert b (cur_col t) (cur_row t) 1 cl)
       else on_buf t (fun b => buf_print b (cur_col t) (cur_row t) cl)) = Ok t1 ->
      Frame (eq (cur_row t)) t t1 /\ cur_row t1 = cur_row t).
    { intros t1 E1. destruct (ins t).
      - pose proof (on_buf_scalars _ _ _ E1) as (_ & _ & Hr & _). split; [|exact Hr].
        eapply on_buf_Frame; [exact E1|]. intros b'. apply buf_insert_BFrame.
      - pose proof (on_buf_scalars _ _ _ E1) as (_ & _ & Hr & _). split; [|exact Hr].
        eapply on_buf_Frame; [exact E1|]. intros b'. apply buf_print_BFrame. }
    destruct (if ins t then _ else _) as [t1|]; [|discriminate].
    destruct (X t1 eq_refl) as [F Hr]. intros E2.
    pose proof (col_scalars t1 (cur_col t + 1)) as (C & _).
    eapply mark_cur_Covers; [exact F|exact Hr|apply Same_col|exact C|exact E2].
Qed.

Lemma print_Covers t c t' : TInv t -> print t c = Ok t' -> Covers t t'.
Proof.
  intros H. rewrite print_eq. unfold bind.
  destruct (active_cs t) as [cs|]; [|discriminate].
  destruct (translate cs c) as [g|]; [|discriminate].
  destruct (print_wrap t) as [t1|] eqn:E1; [|discriminate]. intros E2.
  eapply Covers_trans; [eapply print_wrap_Covers; eauto|eapply print_write_Covers; eauto].
Qed.

Theorem print_DInv v0 t c t' : TInv t -> DInv v0 t -> print t c = Ok t' -> DInv v0 t'.
Proof. intros H D E. eapply Covers_DInv; [eapply print_Covers; eauto|exact D]. Qed.

(** ** functions that replace the whole view: every row is marked *)

Lemma AllMarked_ext t t' : rows t' = rows t -> dirty t' = dirty t -> AllMarked t -> AllMarked t'.
Proof. intros R D H r Hr. rewrite D. apply H. congruence. Qed.

Lemma reflow_AllMarked t t' : reflow t = Ok t' -> AllMarked t'.
Proof.
  unfold reflow. set (t0 := if negb _ then _ else _). unfold bind.
  destruct (buf_resize _ _ _ _ _) as [[b [c r]]|]; [|discriminate]. cbv zeta.
  destruct (mark_range _ _ _) as [t3|] eqn:E; [|discriminate]. intros X; inversion X.
  apply mark_range_all in E.
  apply AllMarked_ext with (t := t3); [| |exact E];
    destruct (_ <=? _), (_ <=? _); destruct t3; reflexivity.
Qed.

Lemma term_resize_AllMarked t c r t' : term_resize t c r = Ok t' -> AllMarked t'.
Proof. unfold term_resize. apply reflow_AllMarked. Qed.

Lemma hard_reset_AllMarked t : AllMarked (hard_reset_gen t).
Proof.
  intros r Hr. destruct t; cbn in *. unfold dirty_new. apply nth_repeat_lt. exact Hr.
Qed.

Lemma decset_one_DInv v0 t m t' : DInv v0 t -> decset_one t m = Ok t' -> DInv v0 t'.
Proof.
  intros D. destruct m; cbn [decset_one]; unfold bind;
    try (match goal with |- Ok _ = Ok _ -> _ => idtac end;
         intros E; inversion E; eapply Covers_DInv; [apply Same_Covers|exact D]).
  - destruct t; repeat split.
  - eapply Same_trans; [|apply Same_home]. destruct t; repeat split.
  - destruct t; repeat split.
  - destruct t; repeat split.
  - destruct (switch_to_alternate_buffer t); [|discriminate].
    intros E. apply AllMarked_DInv. eapply reflow_AllMarked; exact E.
  - apply Same_save.
  - destruct (switch_to_alternate_buffer _); [|discriminate].
    intros E. apply AllMarked_DInv. eapply reflow_AllMarked; exact E.
Qed.

Lemma decrst_one_DInv v0 t m t' : DInv v0 t -> decrst_one t m = Ok t' -> DInv v0 t'.
Proof.
  intros D. destruct m; cbn [decrst_one]; unfold bind;
    try (match goal with |- Ok _ = Ok _ -> _ => idtac end;
         intros E; inversion E; eapply Covers_DInv; [apply Same_Covers|exact D]).
  - destruct t; repeat split.
  - eapply Same_trans; [|apply Same_home]. destruct t; repeat split.
  - destruct t; repeat split.
  - destruct t; repeat split.
  - destruct (switch_to_primary_buffer t); [|discriminate].
    intros E. apply AllMarked_DInv. eapply reflow_AllMarked; exact E.
  - apply Same_restore.
  - destruct (switch_to_primary_buffer _); [|discriminate].
    intros E. apply AllMarked_DInv. eapply reflow_AllMarked; exact E.
Qed.

Lemma foldM_DInv v0 (f : term -> dec_mode -> res term) :
  (forall t m t', DInv v0 t -> f t m = Ok t' -> DInv v0 t') ->
  forall ms t t', DInv v0 t -> foldM f ms t = Ok t' -> DInv v0 t'.
Proof.
  intros Hf. induction ms as [|m ms IH]; intros t t' D; cbn [foldM].
  - intros E; inversion E; subst; exact D.
  - unfold bind. destruct (f t m) as [t1|] eqn:E1; [|discriminate]. intros E2.
    eapply IH; [eapply Hf; eauto|exact E2].
Qed.

(** ** cursor / mode / tab / pen functions: neither view nor flags change *)

Lemma Same_cursor_down t n : Same t (cursor_down t n).
Proof. apply Same_row. Qed.

Lemma Same_cursor_up t n : Same t (cursor_up t n).
Proof. apply Same_row. Qed.

Lemma Same_next_tab t n t' : move_cursor_to_next_tab t n = Ok t' -> Same t t'.
Proof.
  unfold move_cursor_to_next_tab, bind. destruct (tabs_after _ _ _); [|discriminate].
  intros E; inversion E. apply Same_to_col.
Qed.

Lemma Same_prev_tab t n t' : move_cursor_to_prev_tab t n = Ok t' -> Same t t'.
Proof.
  unfold move_cursor_to_prev_tab, bind. destruct (tabs_before _ _ _); [|discriminate].
  intros E; inversion E. apply Same_to_col.
Qed.

Lemma Same_set_tab t : Same t (set_tab t).
Proof. unfold set_tab. destruct (_ && _); destruct t; repeat split. Qed.

Lemma Same_clear_tab t : Same t (clear_tab t).
Proof. destruct t; repeat split. Qed.

Lemma Same_clear_all_tabs t : Same t (clear_all_tabs t).
Proof. destruct t; repeat split. Qed.

Lemma Same_fold_left {A} (f : term -> A -> term) :
  (forall t a, Same t (f t a)) -> forall l t, Same t (fold_left f l t).
Proof.
  intros Hf. induction l as [|a l IH]; intros t; cbn; [apply Same_refl|].
  eapply Same_trans; [apply Hf|apply IH].
Qed.

Lemma Same_sm_one t m : Same t (sm_one t m).
Proof. destruct m; destruct t; repeat split. Qed.

Lemma Same_rm_one t m : Same t (rm_one t m).
Proof. destruct m; destruct t; repeat split. Qed.

Lemma Same_decstbm t a b : Same t (decstbm t a b).
Proof.
  unfold decstbm. eapply Same_trans; [|apply Same_home].
  destruct (_ && _); destruct t; repeat split.
Qed.

Lemma Same_soft_reset t : Same t (soft_reset_gen t).
Proof. destruct t; repeat split. Qed.

(** ** REP = iterated PRINT *)

Section Execute.
  (** totality and invariance of [print], proved elsewhere *)
  Hypothesis print_TInv : forall t c, TInv t -> exists t', print t c = Ok t' /\ TInv t'.

  Lemma print_n_Covers n : forall t c t', TInv t -> print_n n t c = Ok t' -> Covers t t'.
  Proof.
    induction n as [|n IH]; intros t c t' H; cbn [print_n].
    - intros E; inversion E. apply Covers_refl.
    - destruct (print_TInv t c H) as (t1 & E1 & H1). unfold bind. rewrite E1. intros E2.
      eapply Covers_trans; [eapply print_Covers; eauto|eapply IH; eauto].
  Qed.

  Lemma rep_Covers t n t' : TInv t -> rep t n = Ok t' -> Covers t t'.
  Proof.
    intros H. unfold rep. destruct (_ <? _); [|intros E; inversion E; apply Covers_refl].
    unfold bind. destruct (get_row _ _); [|discriminate].
    destruct (nth_error _ _); [|discriminate]. apply print_n_Covers, H.
  Qed.

  Theorem execute_DInv : forall v0 t f t',
    TInv t -> DInv v0 t -> execute t f = Ok t' -> DInv v0 t'.
  Proof.
    intros v0 t f t' H D.
    assert (K : forall t'', Covers t t'' -> DInv v0 t'') by (intros; eapply Covers_DInv; eauto).
    assert (S : forall t'', Same t t'' -> DInv v0 t'') by (intros; apply K, Same_Covers; auto).
    assert (S' : forall t'', Same t t'' -> Ok t'' = Ok t' -> DInv v0 t').
    { intros t'' HS E; inversion E; subst; apply S, HS. }
    destruct f; cbn [execute].
    - (* Bs *) apply S'. unfold bs. destruct (pend t); apply Same_rel_col.
    - (* Cbt *) intros E. apply S. eapply Same_prev_tab; eauto.
    - (* Cha *) apply S', Same_to_col.
    - (* Cht *) intros E. apply S. eapply Same_next_tab; eauto.
    - (* Cnl *) apply S'. eapply Same_trans; [apply Same_cursor_down|apply Same_col].
    - (* Cpl *) apply S'. eapply Same_trans; [apply Same_cursor_up|apply Same_col].
    - (* Cr *) apply S', Same_col.
    - (* Ctc *) apply S'.
      destruct op; [apply Same_set_tab|apply Same_clear_tab|apply Same_clear_all_tabs].
    - (* Cub *) apply S'. apply Same_rel_col.
    - (* Cud *) apply S', Same_cursor_down.
    - (* Cuf *) apply S', Same_rel_col.
    - (* Cup *) apply S'. unfold cup. eapply Same_trans; [apply Same_to_col|apply Same_to_row].
    - (* Cuu *) apply S', Same_cursor_up.
    - (* Dch *) intros E. apply K. eapply dch_Covers; eauto.
    - (* Decaln *) intros E. apply K. eapply decaln_Covers; eauto.
    - (* Decrc *) apply S', Same_restore.
    - (* Decrst *) apply foldM_DInv; [apply decrst_one_DInv|exact D].
    - (* Decsc *) apply S', Same_save.
    - (* Decset *) apply foldM_DInv; [apply decset_one_DInv|exact D].
    - (* Decstbm *) apply S', Same_decstbm.
    - (* Decstr *) apply S', Same_soft_reset.
    - (* Dl *) intros E. apply K. eapply dl_Covers; eauto.
    - (* Ech *) intros E. apply K. eapply ech_Covers; eauto.
    - (* Ed *) intros E. apply K. eapply ed_Covers; eauto.
    - (* El *) intros E. apply K. eapply el_Covers; eauto.
    - (* G1d4 *) apply S'. destruct t; repeat split.
    - (* Gzd4 *) apply S'. destruct t; repeat split.
    - (* Ht *) intros E. apply S. eapply Same_next_tab; eauto.
    - (* Hts *) apply S', Same_set_tab.
    - (* Ich *) intros E. apply K. eapply ich_Covers; eauto.
    - (* Il *) intros E. apply K. eapply il_Covers; eauto.
    - (* Lf *) intros E. apply K. eapply lf_Covers; eauto.
    - (* Nel *) intros E. apply K. eapply nel_Covers; eauto.
    - (* Print *) intros E. apply K. eapply print_Covers; eauto.
    - (* Rep *) intros E. apply K. eapply rep_Covers; eauto.
    - (* Ri *) intros E. apply K. eapply ri_Covers; eauto.
    - (* Ris *) intros E; inversion E. apply AllMarked_DInv, hard_reset_AllMarked.
    - (* Rm *) apply S'. apply Same_fold_left, Same_rm_one.
    - (* Scorc *) apply S', Same_restore.
    - (* Scosc *) apply S', Same_save.
    - (* Sd *) intros E. apply K.
      eapply scroll_down_in_region_Covers; [apply TInv_BGeom, H|apply TInv_region, H..|exact E].
    - (* Sgr *) apply S'. destruct t; repeat split.
    - (* Si *) apply S'. destruct t; repeat split.
    - (* Sm *) apply S'. apply Same_fold_left, Same_sm_one.
    - (* So *) apply S'. destruct t; repeat split.
    - (* Su *) intros E. apply K.
      eapply scroll_up_in_region_Covers; [apply TInv_BGeom, H|apply TInv_region, H..|exact E].
    - (* Tbc *) apply S'.
      destruct s; [apply Same_clear_tab|apply Same_clear_all_tabs].
    - (* Vpa *) apply S', Same_to_row.
    - (* Vpr *) apply S', Same_cursor_down.
    - (* Xtwinops *) unfold xtwinops. rewrite (ti_xtw t H). intros E; inversion E; subst. exact D.
  Qed.
End Execute.

Print Assumptions print_DInv.
Print Assumptions execute_DInv.

(** * RESIZE: every row is marked *)

Theorem resize_DInv : forall v0 t c r t',
  TInv t -> 1 <= c -> 1 <= r -> term_resize t c r = Ok t' -> DInv v0 t'.
Proof. intros v0 t c r t' _ _ _ E. apply AllMarked_DInv. eapply term_resize_AllMarked; exact E. Qed.

Print Assumptions resize_DInv.

(** * reports *)

(** the part of [TInv] that the report needs (also holds right after a resize) *)
Definition CInv (t : term) : Prop :=
  BGeom (buf t) /\ limit_wf (buf t) /\ brows (buf t) = rows t /\ length (dirty t) = rows t.

Lemma TInv_CInv t : TInv t -> CInv t.
Proof.
  intros H. split; [|split; [|split; [apply (ti_brows t H)|apply (ti_dirty t H)]]].
  - apply (ti_buf t H).
  - pose proof (ti_limit t H) as L. destruct (active t); destruct L as [L _];
      eapply limit_ok_wf; exact L.
Qed.

Lemma CInv_view_length t : CInv t -> length (tview t) = rows t.
Proof. intros (G & _ & R & _). unfold tview. rewrite view_length; auto. Qed.

Lemma tview_length t : TInv t -> length (tview t) = rows t.
Proof. intros H. apply CInv_view_length, TInv_CInv, H. Qed.

Lemma changes_proj t :
  rows (fst (changes t)) = rows t /\ buf (fst (changes t)) = buf t
  /\ dirty (fst (changes t)) = repeat false (length (dirty t))
  /\ snd (changes t) = dirty_to_vec (dirty t) 0.
Proof. destruct t; repeat split. Qed.

Lemma CInv_changes t : CInv t -> CInv (fst (changes t)).
Proof.
  intros (G & L & R & D). destruct (changes_proj t) as (R' & B' & D' & _).
  unfold CInv. rewrite R', B', D', repeat_length. auto.
Qed.

Lemma DInv_self_clear t :
  length (tview t) = rows t -> DInv (tview t) t.
Proof. intros L r Hr _. auto. Qed.

Lemma DInv_after_changes_C : forall t, CInv t -> DInv (tview (fst (changes t))) (fst (changes t)).
Proof. intros t H. apply DInv_self_clear, CInv_view_length, CInv_changes, H. Qed.

Lemma DInv_after_changes : forall t, TInv t -> DInv (tview (fst (changes t))) (fst (changes t)).
Proof. intros t H. apply DInv_after_changes_C, TInv_CInv, H. Qed.

(** [term_gc] changes neither the view nor the flags *)
Lemma term_gc_frame t t2 dr :
  CInv t -> term_gc t = Ok (t2, dr) ->
  tview t2 = tview t /\ dirty t2 = dirty t /\ rows t2 = rows t /\ CInv t2.
Proof.
  intros (G & L & R & D). unfold term_gc, bind.
  destruct (buf_gc_spec (buf t) G L) as (b' & d & E & _ & _ & _ & R' & Lm & G' & _ & V & _).
  rewrite E.
  assert (X : tview (t <| buf := b' |>) = tview t /\ dirty (t <| buf := b' |>) = dirty t
              /\ rows (t <| buf := b' |>) = rows t /\ CInv (t <| buf := b' |>)).
  { assert (L' : limit_wf b') by (unfold limit_wf in *; rewrite Lm; exact L).
    unfold CInv, tview. destruct t; cbn in *.
    split; [exact V|]. split; [reflexivity|]. split; [reflexivity|].
    split; [exact G'|]. split; [exact L'|]. split; [congruence|exact D]. }
  destruct (active (t <| buf := b' |>)); intros Y; inversion Y; subst; exact X.
Qed.

Lemma DInv_after_report t t1 ls t2 dr :
  CInv t -> changes t = (t1, ls) -> term_gc t1 = Ok (t2, dr) -> DInv (tview t2) t2.
Proof.
  intros H E1 E2. assert (T1 : t1 = fst (changes t)) by (rewrite E1; reflexivity). subst t1.
  apply term_gc_frame in E2 as (_ & _ & _ & C2); [|apply CInv_changes, H].
  apply DInv_self_clear, CInv_view_length, C2.
Qed.

(** ** the reported set *)

Lemma dirty_to_vec_In : forall d i r,
  In r (dirty_to_vec d i) <-> (i <= r < i + length d /\ nth (r - i) d false = true).
Proof.
  induction d as [|x d IH]; intros i r; cbn [dirty_to_vec length].
  - split; [intros []|intros [Hr _]; lia].
  - assert (Hs : i < r -> nth (r - i) (x :: d) false = nth (r - S i) d false).
    { intros Hne. replace (r - i) with (S (r - S i)) by lia. reflexivity. }
    destruct x.
    + cbn [In]. rewrite IH. split.
      * intros [<-|[Hr Hn]].
        -- rewrite Nat.sub_diag. cbn. split; [lia|reflexivity].
        -- split; [lia|]. rewrite Hs by lia. exact Hn.
      * intros [Hr Hn]. destruct (Nat.eq_dec i r) as [Heq|Hne]; [left; exact Heq|right].
        split; [lia|]. rewrite <- Hs by lia. exact Hn.
    + rewrite IH. split.
      * intros [Hr Hn]. split; [lia|]. rewrite Hs by lia. exact Hn.
      * intros [Hr Hn]. destruct (Nat.eq_dec i r) as [Heq|Hne].
        -- subst. rewrite Nat.sub_diag in Hn. cbn in Hn. discriminate.
        -- split; [lia|]. rewrite <- Hs by lia. exact Hn.
Qed.

Lemma dirty_to_vec_spec d r : r < length d -> (In r (dirty_to_vec d 0) <-> nth r d false = true).
Proof.
  intros Hr. rewrite dirty_to_vec_In, Nat.sub_0_r. split; [tauto|]. intros Hn. split; [lia|exact Hn].
Qed.

Lemma existsb_eqb_In r ls : existsb (Nat.eqb r) ls = true <-> In r ls.
Proof.
  rewrite existsb_exists. split.
  - intros (x & Hx & E). apply Nat.eqb_eq in E. subst. exact Hx.
  - intros H. exists r. split; [exact H|apply Nat.eqb_refl].
Qed.

Lemma nth_default_irrel {A} (l : list A) i d d' : i < length l -> nth i l d = nth i l d'.
Proof. apply nth_indep. Qed.

Theorem C15_sound_C : forall v0 t,
  CInv t -> DInv v0 t ->
  forall p t1 ls t2 dr, changes t = (t1, ls) -> term_gc t1 = Ok (t2, dr) ->
  holds_C15 v0 (mkVt p t2) ls = true.
Proof.
  intros v0 t H D p t1 ls t2 dr E1 E2.
  assert (T1 : t1 = fst (changes t)) by (rewrite E1; reflexivity).
  assert (Ls : ls = snd (changes t)) by (rewrite E1; reflexivity).
  destruct (changes_proj t) as (R1 & B1 & D1 & S1). rewrite S1 in Ls. subst t1 ls.
  apply term_gc_frame in E2 as (V2 & _ & _ & _); [|apply CInv_changes, H].
  assert (V : tview t2 = tview t) by (rewrite V2; unfold tview; rewrite B1; reflexivity).
  unfold holds_C15. cbn [vterm]. rewrite V, (CInv_view_length t H).
  apply forallb_forall. intros r Hr. apply in_seq in Hr. cbn in Hr.
  destruct H as (_ & _ & _ & Hd).
  destruct (nth r (dirty t) true) eqn:Fl.
  - apply Bool.orb_true_iff. left. apply existsb_eqb_In, dirty_to_vec_spec; [lia|].
    rewrite (nth_default_irrel _ _ false true) by lia. exact Fl.
  - destruct (D r ltac:(lia) Fl) as [L C]. apply Bool.orb_true_iff. right.
    apply andb_true_intro. split; [apply Nat.eqb_eq; exact L|].
    rewrite C. apply list_eqb_refl, cell_eqb_refl.
Qed.

Theorem C15_sound : forall v0 t,
  TInv t -> DInv v0 t ->
  forall t1 ls t2 dr p, changes t = (t1, ls) -> term_gc t1 = Ok (t2, dr) ->
  holds_C15 v0 (mkVt p t2) ls = true.
Proof. intros v0 t H D t1 ls t2 dr p. apply C15_sound_C; [apply TInv_CInv, H|exact D]. Qed.

Print Assumptions C15_sound.

(** * the public machine: [Flush] and [Resize] *)

Lemma dirty_resize_length d n : length (dirty_resize d n) = n.
Proof. unfold dirty_resize. len. Qed.

Definition clamp_sctx (t : term) : term :=
  let t := if cols t <=? sc_col (sctx t) then t <| sctx := (sctx t) <| sc_col := cols t - 1 |> |> else t in
  if rows t <=? sc_row (sctx t) then t <| sctx := (sctx t) <| sc_row := rows t - 1 |> |> else t.

Lemma clamp_sctx_proj t :
  buf (clamp_sctx t) = buf t /\ rows (clamp_sctx t) = rows t /\ dirty (clamp_sctx t) = dirty t.
Proof.
  unfold clamp_sctx. cbv zeta. destruct (cols t <=? sc_col (sctx t)); destruct (_ <=? _);
    destruct t; repeat split.
Qed.

Lemma reflow_eq t :
  reflow t =
  (let t1 := if negb (cols t =? bcols (buf t)) then t <| pend := false |> else t in
   '(b, (c, r)) <- buf_resize (buf t1) (cols t1) (rows t1) (cur_col t1) (cur_row t1) ;;
   let t2 := t1 <| buf := b |> <| cur_col := c |> <| cur_row := r |> in
   let t3 := t2 <| dirty := dirty_resize (dirty t2) (rows t2) |> in
   t4 <- mark_range t3 0 (rows t3) ;;
   Ok (clamp_sctx t4)).
Proof. reflexivity. Qed.

Lemma reflow_CInv t t' :
  BInv (buf t) -> limit_wf (buf t) -> 1 <= cols t -> 1 <= rows t ->
  (cols t = bcols (buf t) -> rows t < brows (buf t) -> cur_row t < brows (buf t)) ->
  reflow t = Ok t' -> CInv t'.
Proof.
  intros BI L Hc Hr Hcur. rewrite reflow_eq. cbv zeta.
  set (t1 := if negb _ then _ else _).
  assert (P1 : buf t1 = buf t /\ cols t1 = cols t /\ rows t1 = rows t /\ cur_row t1 = cur_row t).
  { unfold t1. destruct (negb _); destruct t; repeat split. }
  destruct P1 as (B1 & C1 & R1 & W1). clearbody t1.
  destruct (buf_resize_total (buf t1) (cols t1) (rows t1) (cur_col t1) (cur_row t1))
    as (b' & cc' & cr' & E & BI' & C' & R' & Lm & _); try (rewrite ?B1, ?C1, ?R1, ?W1; assumption).
  rewrite E. unfold bind.
  destruct (mark_range _ _ _) as [t4|] eqn:M; [|discriminate]. intros X; inversion X; clear X.
  apply mark_range_inv in M as (_ & _ & ->).
  assert (L' : limit_wf b') by (unfold limit_wf in *; rewrite Lm, B1; exact L).
  destruct BI' as [G' _].
  match goal with |- CInv (clamp_sctx ?x) => destruct (clamp_sctx_proj x) as (PB & PR & PD) end.
  unfold CInv. rewrite PB, PR, PD. clear PB PR PD.
  destruct t1; cbn in *.
  split; [exact G'|split; [exact L'|split; [exact R'|]]].
  len.
Qed.

Definition resize_pre (t : term) (c r : nat) : term :=
  let t := match Nat.compare c (cols t) with
           | Lt => t <| tabs := tabs_contract c (tabs t) |>
           | Eq => t
           | Gt => t <| tabs := tabs_expand (cols t) c (tabs t) |>
           end in
  let t := match Nat.compare r (rows t) with
           | Eq => t
           | _ => t <| top := 0 |> <| bot := r - 1 |>
           end in
  t <| cols := c |> <| rows := r |>.

Lemma term_resize_eq t c r : term_resize t c r = reflow (resize_pre t c r).
Proof. reflexivity. Qed.

Lemma resize_pre_proj t c r :
  buf (resize_pre t c r) = buf t /\ cols (resize_pre t c r) = c /\ rows (resize_pre t c r) = r
  /\ cur_row (resize_pre t c r) = cur_row t.
Proof.
  unfold resize_pre. cbv zeta. destruct (Nat.compare c _); destruct (Nat.compare r _);
    destruct t; repeat split.
Qed.

Lemma term_resize_CInv t c r t' :
  TInv t -> 1 <= c -> 1 <= r -> term_resize t c r = Ok t' -> CInv t' /\ AllMarked t'.
Proof.
  intros H Hc Hr E. split; [|eapply term_resize_AllMarked; exact E].
  rewrite term_resize_eq in E. revert E.
  destruct (resize_pre_proj t c r) as (Q1 & Q2 & Q3 & Q4).
  destruct (TInv_CInv t H) as (_ & L & R & _).
  apply reflow_CInv; rewrite ?Q1, ?Q2, ?Q3, ?Q4; auto.
  - apply (ti_buf t H).
  - intros _ _. rewrite R. apply (ti_row t H).
Qed.

Lemma vt_flush_C15 v0 v v' o :
  CInv (vterm v) -> DInv v0 (vterm v) -> vt_flush v = Ok (v', o) ->
  holds_C15 v0 v' (o_lines o) = true /\ DInv (tview (vterm v')) (vterm v').
Proof.
  intros H D. unfold vt_flush. destruct (changes (vterm v)) as [t1 ls] eqn:E1. unfold bind.
  destruct (term_gc t1) as [[t2 dr]|] eqn:E2; [|discriminate]. intros X; inversion X; subst; clear X.
  assert (Y : v <| vterm := t2 |> = mkVt (vparser v) t2) by (destruct v; reflexivity).
  rewrite Y. cbn [o_lines vterm]. split.
  - eapply C15_sound_C; eauto.
  - eapply DInv_after_report; eauto.
Qed.

(** [Flush]: the report is sound w.r.t. the reference view, and the new state satisfies the
    ghost invariant w.r.t. its own view, so the argument iterates over a whole session *)
Theorem stepM_Flush_C15 : forall v0 v v' o,
  TInv (vterm v) -> DInv v0 (vterm v) -> stepM v Flush = Ok (v', o) ->
  holds_C15 v0 v' (o_lines o) = true /\ DInv (tview (vterm v')) (vterm v').
Proof. intros v0 v v' o H D. cbn [stepM]. apply vt_flush_C15; [apply TInv_CInv, H|exact D]. Qed.

Theorem stepM_Resize_C15 : forall v0 v c r v' o,
  TInv (vterm v) -> 1 <= c -> 1 <= r -> stepM v (Resize c r) = Ok (v', o) ->
  holds_C15 v0 v' (o_lines o) = true /\ DInv (tview (vterm v')) (vterm v').
Proof.
  intros v0 v c r v' o H Hc Hr. cbn [stepM]. unfold bind.
  destruct (term_resize (vterm v) c r) as [t|] eqn:E; [|discriminate].
  apply term_resize_CInv in E as [C A]; auto.
  apply vt_flush_C15; (replace (vterm (v <| vterm := t |>)) with t by (destruct v; reflexivity)).
  - exact C.
  - apply AllMarked_DInv, A.
Qed.

(** [Feed]: one character; the invariant is kept (nothing is reported) *)
Theorem stepM_Feed_DInv :
  (forall t c, TInv t -> exists t', print t c = Ok t' /\ TInv t') ->
  forall v0 v c v' o,
  TInv (vterm v) -> DInv v0 (vterm v) -> stepM v (Feed c) = Ok (v', o) -> DInv v0 (vterm v').
Proof.
  intros HP v0 v c v' o H D. cbn [stepM]. unfold bind, vt_feed.
  destruct (feedM (vparser v) c) as [[p [f|]]|]; cbn; try discriminate.
  - unfold bind. destruct (execute (vterm v) f) as [t|] eqn:E; [|discriminate].
    intros X; inversion X; subst; cbn. eapply execute_DInv; eauto.
  - intros X; inversion X; subst; cbn. exact D.
Qed.

Print Assumptions stepM_Flush_C15.
Print Assumptions stepM_Resize_C15.
Print Assumptions stepM_Feed_DInv.

(** [term_gc] under the full invariant *)
Lemma term_gc_same t t2 dr :
  TInv t -> term_gc t = Ok (t2, dr) -> tview t2 = tview t /\ dirty t2 = dirty t /\ rows t2 = rows t.
Proof.
  intros H E. apply term_gc_frame in E as (V & D & R & _); [auto|apply TInv_CInv, H].
Qed.

(** at construction every row is marked: any reference view will do *)
Lemma DInv_new v0 c r l : DInv v0 (vterm (vt_new c r l)).
Proof.
  apply AllMarked_DInv. intros i Hi. cbn in *. unfold dirty_new. apply nth_repeat_lt. exact Hi.
Qed.

(** * a whole session: every report is sound w.r.t. the view at the previous report.
      The two hypotheses (totality/invariance of [print], and invariance of [TInv] along
      [stepM]) are the statements proved in the invariant development. *)

Fixpoint reports_sound (v0 : list line) (v : vt) (ops : list op) : Prop :=
  match ops with
  | [] => True
  | o :: rest =>
    match stepM v o with
    | Panic _ => True
    | Ok (v', out) =>
      match o with
      | Feed _ => reports_sound v0 v' rest
      | _ => holds_C15 v0 v' (o_lines out) = true /\ reports_sound (tview (vterm v')) v' rest
      end
    end
  end.

Theorem session_C15 :
  (forall t c, TInv t -> exists t', print t c = Ok t' /\ TInv t') ->
  (forall v o v' out, TInv (vterm v) -> op_ok o -> stepM v o = Ok (v', out) -> TInv (vterm v')) ->
  forall ops v0 v, TInv (vterm v) -> DInv v0 (vterm v) -> Forall op_ok ops -> reports_sound v0 v ops.
Proof.
  intros HP HS. induction ops as [|o rest IH]; intros v0 v H D Hok; cbn [reports_sound]; [exact I|].
  inversion Hok as [|? ? Ho Hrest]; subst.
  destruct (stepM v o) as [[v' out]|] eqn:E; [|exact I].
  pose proof (HS _ _ _ _ H Ho E) as H'.
  destruct o as [c| |c r].
  - apply IH; [exact H'|exact (stepM_Feed_DInv HP v0 v c v' out H D E)|exact Hrest].
  - destruct (stepM_Flush_C15 v0 v v' out H D E) as [C D']. split; [exact C|]. apply IH; auto.
  - destruct Ho as [Hc Hr].
    destruct (stepM_Resize_C15 v0 v c r v' out H Hc Hr E) as [C D']. split; [exact C|]. apply IH; auto.
Qed.

Print Assumptions session_C15.
