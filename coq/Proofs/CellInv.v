(** Cell-wise invariants of lines and buffers, generic in the cell predicate [Q].

    Every line / buffer primitive of [Model/Prims.v] builds its result from cells of its
    input, the cell (or blank cell of the pen) it is given, and default blanks.  So any
    predicate on cells that holds for the inputs holds for all cells of the result.
    Used twice in [PenInvProofs.v]: well-formed pens and printable characters. *)

From Avt Require Import Model.Vt Proofs.ListLemmas Proofs.Frames.
From Coq Require Import Lia.

Lemma Ok_inj {A} (a b : A) : Ok a = Ok b -> a = b.
Proof. intros H. injection H as H. exact H. Qed.

Lemma cells_set_cells l x : cells (l <| cells := x |>) = x.
Proof. destruct l; reflexivity. Qed.

Lemma cells_set_wrapped l w : cells (l <| wrapped := w |>) = cells l.
Proof. destruct l; reflexivity. Qed.

Lemma wrapped_set_cells l x : wrapped (l <| cells := x |>) = wrapped l.
Proof. destruct l; reflexivity. Qed.

Lemma lines_set_lines b x : lines (b <| lines := x |>) = x.
Proof. destruct b; reflexivity. Qed.

Lemma lines_set_trim b x : lines (b <| trim_needed := x |>) = lines b.
Proof. destruct b; reflexivity. Qed.

Section CellQ.
  Variable Q : cell -> Prop.

  Definition lQ (l : line) : Prop := Forall Q (cells l).
  Definition lsQ (ls : list line) : Prop := Forall lQ ls.
  Definition oQ (o : option line) : Prop := match o with Some l => lQ l | None => True end.

  (** * lines *)

  Lemma blank_line_Q n p : Q (blank_cell p) -> lQ (blank_line n p).
  Proof. intros H. unfold lQ, blank_line. cbn [cells]. apply Forall_repeat_of. exact H. Qed.

  Lemma set_wrapped_Q w l : lQ l -> lQ (l <| wrapped := w |>).
  Proof. unfold lQ. rewrite cells_set_wrapped. auto. Qed.

  Lemma line_clear_Q a b p l : Q (blank_cell p) -> lQ l -> lQ (line_clear a b p l).
  Proof.
    intros Hp H. unfold lQ, line_clear. rewrite cells_set_cells.
    apply fill_range_Forall; assumption.
  Qed.

  Lemma line_print_Q col c l : Q c -> lQ l -> lQ (line_print col c l).
  Proof.
    intros Hc H. unfold lQ, line_print. rewrite cells_set_cells.
    apply upd_Forall; [exact H|]. intros; exact Hc.
  Qed.

  Lemma line_insert_Q col n c l : Q c -> lQ l -> lQ (line_insert col n c l).
  Proof.
    intros Hc H. unfold lQ, line_insert. rewrite cells_set_cells.
    apply fill_range_Forall; [|exact Hc].
    apply on_range_Forall; [|exact H]. intros t Ht. apply rotr_Forall. exact Ht.
  Qed.

  Lemma line_delete_Q col n p l : Q (blank_cell p) -> lQ l -> lQ (line_delete col n p l).
  Proof.
    intros Hc H. unfold lQ, line_delete. rewrite cells_set_cells.
    apply fill_range_Forall; [|exact Hc].
    apply on_range_Forall; [|exact H]. intros t Ht. apply rotl_Forall. exact Ht.
  Qed.

  Lemma line_trim_Q l : lQ l -> lQ (line_trim l).
  Proof.
    intros H. unfold lQ, line_trim. rewrite cells_set_cells. apply Forall_firstn_of. exact H.
  Qed.

  Lemma line_expand_Q len p l : Q (blank_cell p) -> lQ l -> lQ (line_expand len p l).
  Proof.
    intros Hp H. unfold lQ, line_expand. rewrite cells_set_cells.
    apply Forall_app; split; [exact H|apply Forall_repeat_of; exact Hp].
  Qed.

  Lemma line_clearM_Q a b p l l' : Q (blank_cell p) -> lQ l -> line_clearM a b p l = Ok l' -> lQ l'.
  Proof.
    unfold line_clearM. intros Hp H E. destruct (line_clear_ok a b l); [|discriminate].
    apply Ok_inj in E. subst l'. apply line_clear_Q; assumption.
  Qed.

  Lemma line_printM_Q col c l l' : Q c -> lQ l -> line_printM col c l = Ok l' -> lQ l'.
  Proof.
    unfold line_printM. intros Hp H E. destruct (line_print_ok col l); [|discriminate].
    apply Ok_inj in E. subst l'. apply line_print_Q; assumption.
  Qed.

  Lemma line_insertM_Q col n c l l' : Q c -> lQ l -> line_insertM col n c l = Ok l' -> lQ l'.
  Proof.
    unfold line_insertM. intros Hp H E. destruct (line_insert_ok col n l); [|discriminate].
    apply Ok_inj in E. subst l'. apply line_insert_Q; assumption.
  Qed.

  Lemma line_deleteM_Q col n p l l' :
    Q (blank_cell p) -> lQ l -> line_deleteM col n p l = Ok l' -> lQ l'.
  Proof.
    unfold line_deleteM. intros Hp H E. destruct (line_delete_ok col n l); [|discriminate].
    apply Ok_inj in E. subst l'. apply line_delete_Q; assumption.
  Qed.

  Lemma line_expandM_Q len p l l' :
    Q (blank_cell p) -> lQ l -> line_expandM len p l = Ok l' -> lQ l'.
  Proof.
    unfold line_expandM. intros Hp H E. destruct (line_expand_ok len l); [|discriminate].
    apply Ok_inj in E. subst l'. apply line_expand_Q; assumption.
  Qed.

  Lemma line_contract_Q len l :
    lQ l -> lQ (fst (line_contract len l)) /\ oQ (snd (line_contract len l)).
  Proof.
    intros H. unfold line_contract.
    set (l1 := if wrapped l then l else l <| cells := firstn _ (cells l) |>).
    assert (H1 : lQ l1).
    { subst l1. destruct (wrapped l); [exact H|]. unfold lQ. rewrite cells_set_cells.
      apply Forall_firstn_of. exact H. }
    clearbody l1. cbv zeta.
    destruct (len <? llen l1); [|split; [exact H1|exact I]].
    set (l2 := l1 <| cells := firstn len (cells l1) |>).
    assert (H2 : lQ l2).
    { subst l2. unfold lQ. rewrite cells_set_cells. apply Forall_firstn_of. exact H1. }
    set (rest0 := mkLine (skipn len (cells l1)) (wrapped l1)).
    assert (H0 : lQ rest0).
    { subst rest0. unfold lQ. cbn [cells]. apply Forall_skipn_of. exact H1. }
    set (rest := if wrapped l2 then rest0 else line_trim rest0).
    assert (HR : lQ rest).
    { subst rest. destruct (wrapped l2); [exact H0|apply line_trim_Q; exact H0]. }
    clearbody rest l2.
    destruct (cells rest) eqn:E; cbn [fst snd oQ].
    - split; [exact H2|exact I].
    - split; [apply set_wrapped_Q; exact H2|exact HR].
  Qed.

  Lemma line_extend_Q l other len l' b r :
    Q default_cell -> lQ l -> lQ other ->
    line_extend l other len = Ok (l', (b, r)) -> lQ l' /\ oQ r.
  Proof.
    intros Hd H Ho E. unfold line_extend in E.
    destruct (negb (llen l <=? len)); [discriminate|].
    destruct (len - llen l =? 0).
    { apply Ok_inj in E. injection E as <- <- <-. split; [exact H|exact Ho]. }
    destruct (negb (wrapped l)).
    { apply Ok_inj in E. injection E as <- <- <-. split; [|exact Ho].
      apply line_expand_Q; [exact Hd|exact H]. }
    set (o2 := if wrapped other then other else line_trim other) in E.
    assert (H2 : lQ o2).
    { subst o2. destruct (wrapped other); [exact Ho|apply line_trim_Q; exact Ho]. }
    clearbody o2.
    destruct (len - llen l <? llen o2).
    { apply Ok_inj in E. injection E as <- <- <-. split.
      - unfold lQ. rewrite cells_set_cells. apply Forall_app; split; [exact H|].
        apply Forall_firstn_of. exact H2.
      - cbn [oQ]. unfold lQ. cbn [cells]. apply Forall_firstn_of, rotl_Forall. exact H2. }
    assert (H3 : lQ (l <| cells := cells l ++ cells o2 |>)).
    { unfold lQ. rewrite cells_set_cells. apply Forall_app; split; [exact H|exact H2]. }
    destruct (negb (wrapped o2)).
    - apply Ok_inj in E. injection E as <- <- <-. split; [|exact I].
      match goal with |- lQ (if ?c then _ else _) => destruct c end.
      + apply line_expand_Q; [exact Hd|]. apply set_wrapped_Q. exact H3.
      + apply set_wrapped_Q. exact H3.
    - apply Ok_inj in E. injection E as <- <- <-. split; [exact H3|exact I].
  Qed.

  (** * reflow *)

  Lemma reflow_go_Q ncols : Q default_cell ->
    forall fuel rest iter acc out,
      oQ rest -> lsQ iter -> lsQ acc ->
      reflow_go fuel ncols rest iter acc = Ok out -> lsQ out.
  Proof.
    intros Hd. induction fuel as [|fuel IH]; intros rest iter acc out Hr Hi Ha E;
      cbn [reflow_go] in E; [discriminate|].
    set (cur := match rest with
                | Some l => Some (l, iter)
                | None => match iter with [] => None | l :: it => Some (l, it) end
                end) in E.
    assert (Hc : match cur with Some (l, it) => lQ l /\ lsQ it | None => True end).
    { subst cur. destruct rest as [l|].
      - split; [exact Hr|exact Hi].
      - destruct iter as [|l it]; [exact I|]. split; [exact (Forall_inv Hi)|exact (Forall_inv_tail Hi)]. }
    clearbody cur. destruct cur as [[l it]|].
    2:{ apply Ok_inj in E. subst out. unfold lsQ. apply Forall_rev. exact Ha. }
    destruct Hc as [Hl Hit].
    destruct (Nat.compare ncols (llen l)).
    - refine (IH _ _ _ _ _ _ _ E); [exact I|exact Hit| ]. constructor; assumption.
    - pose proof (line_contract_Q ncols l Hl) as [C1 C2].
      destruct (line_contract ncols l) as [l' r]. cbn [fst snd] in C1, C2.
      refine (IH _ _ _ _ _ _ _ E); [exact C2|exact Hit| ]. constructor; assumption.
    - destruct it as [|next it'].
      + apply bind_ok in E as (l' & E1 & E).
        refine (IH _ _ _ _ _ _ _ E); [exact I|constructor| ].
        constructor; [|exact Ha]. apply set_wrapped_Q.
        eapply line_expandM_Q; [exact Hd|exact Hl|exact E1].
      + apply bind_ok in E as ([l' [b r]] & E1 & E).
        pose proof (line_extend_Q _ _ _ _ _ _ Hd Hl (Forall_inv Hit) E1) as [X1 X2].
        destruct b.
        * refine (IH _ _ _ _ _ _ _ E); [exact X2|exact (Forall_inv_tail Hit)| ]. constructor; assumption.
        * refine (IH _ _ _ _ _ _ _ E); [exact X1|exact (Forall_inv_tail Hit)|exact Ha].
  Qed.

  Lemma reflowM_Q ls ncols out : Q default_cell -> lsQ ls -> reflowM ls ncols = Ok out -> lsQ out.
  Proof.
    intros Hd H E. unfold reflowM in E. apply bind_ok in E as (o & E1 & E).
    destruct (forallb _ o); [|discriminate]. apply Ok_inj in E. subst out.
    refine (reflow_go_Q _ Hd _ _ _ _ _ _ _ _ E1); [exact I|exact H|constructor].
  Qed.

  Lemma buf_resize_Q b ncols nrows cc cr b' pos :
    Q default_cell -> lsQ (lines b) ->
    buf_resize b ncols nrows cc cr = Ok (b', pos) -> lsQ (lines b').
  Proof.
    intros Hd H E. unfold buf_resize in E.
    assert (Hbl : forall n k, lsQ (repeat (blank_line n default_pen) k)).
    { intros n k. apply Forall_repeat_of. apply blank_line_Q. exact Hd. }
    apply bind_ok in E as ([lc lr] & _ & E).
    apply bind_ok in E as ([[[ls1 cc1] cr1] or1] & E1 & E).
    assert (H1 : lsQ ls1).
    { destruct (negb (ncols =? bcols b)).
      - apply bind_ok in E1 as (ls & R & E1).
        apply (reflowM_Q _ _ _ Hd H) in R.
        set (ls' := if length ls <? brows b then _ else ls) in E1.
        assert (H' : lsQ ls').
        { subst ls'. destruct (length ls <? brows b); [|exact R].
          apply Forall_app; split; [exact R|apply Hbl]. }
        clearbody ls'.
        apply bind_ok in E1 as ([rc rr] & _ & E1).
        destruct (0 <=? rr)%Z; apply Ok_inj in E1; injection E1 as <- _ _ _; exact H'.
      - apply Ok_inj in E1. injection E1 as <- _ _ _. exact H. }
    apply bind_ok in E as ([ls2 cr2] & E2 & E).
    assert (H2 : lsQ ls2).
    { destruct (Nat.compare nrows or1).
      - apply Ok_inj in E2. injection E2 as <- _. exact H1.
      - apply bind_ok in E2 as (u & _ & E2).
        apply bind_ok in E2 as (ls' & E3 & E2).
        apply bind_ok in E2 as (u' & _ & E2).
        apply Ok_inj in E2. injection E2 as <- _.
        match type of E3 with (if ?c then _ else _) = _ => destruct c end.
        + apply bind_ok in E3 as (u2 & _ & E3). apply bind_ok in E3 as (u3 & _ & E3).
          apply Ok_inj in E3. subst ls'.
          apply upd_Forall; [apply Forall_firstn_of; exact H1|].
          intros x _ Hx. apply set_wrapped_Q. exact Hx.
        + apply Ok_inj in E3. subst ls'. exact H1.
      - apply Ok_inj in E2. injection E2 as <- _.
        match goal with |- lsQ (if ?c then _ else _) => destruct c end; [|exact H1].
        apply Forall_app; split; [exact H1|apply Hbl]. }
    apply Ok_inj in E. injection E as <- _.
    destruct b; cbn. exact H2.
  Qed.

  (** * buffers *)

  Lemma buffer_new_Q c r l p :
    Q (blank_cell (match p with Some p => p | None => default_pen end)) ->
    lsQ (lines (buffer_new c r l p)).
  Proof.
    intros H. unfold buffer_new. cbn [lines]. apply Forall_repeat_of, blank_line_Q. exact H.
  Qed.

  Lemma with_row_Q b r f b' :
    lsQ (lines b) -> (forall l l', lQ l -> f l = Ok l' -> lQ l') ->
    with_row b r f = Ok b' -> lsQ (lines b').
  Proof.
    intros H Hf E. unfold with_row in E.
    destruct (view_ok b && (r <? brows b)); [|discriminate].
    destruct (nth_error (lines b) (sb_len b + r)) as [l|] eqn:En; [|discriminate].
    apply bind_ok in E as (l' & El & E). apply Ok_inj in E. subst b'.
    rewrite lines_set_lines. apply upd_Forall; [exact H|]. intros x _ _.
    eapply Hf; [|exact El]. eapply Forall_nth_error; [exact H|exact En].
  Qed.

  Lemma get_row_Q b r l : lsQ (lines b) -> get_row b r = Ok l -> lQ l.
  Proof.
    intros H E. unfold get_row in E.
    destruct (view_ok b && (r <? brows b)); [|discriminate].
    destruct (nth_error (lines b) (sb_len b + r)) as [l0|] eqn:En; [|discriminate].
    apply Ok_inj in E. subst l0. eapply Forall_nth_error; [exact H|exact En].
  Qed.

  Lemma with_view_Q b ok f b' :
    lsQ (lines b) -> (forall v, lsQ v -> lsQ (f v)) ->
    with_view b ok f = Ok b' -> lsQ (lines b').
  Proof.
    intros H Hf E. unfold with_view in E. destruct (view_ok b && ok); [|discriminate].
    apply Ok_inj in E. subst b'. rewrite lines_set_lines.
    apply Forall_app; split; [apply Forall_firstn_of; exact H|].
    apply Hf. unfold view. apply Forall_skipn_of. exact H.
  Qed.

  Lemma buf_clear_Q b a z p b' :
    Q (blank_cell p) -> lsQ (lines b) -> buf_clear b a z p = Ok b' -> lsQ (lines b').
  Proof.
    intros Hp H E. unfold buf_clear in E. eapply with_view_Q; [exact H| |exact E].
    intros v Hv. apply fill_range_Forall; [exact Hv|apply blank_line_Q; exact Hp].
  Qed.

  Lemma buf_extend_Q b n c p : Q (blank_cell p) -> lsQ (lines b) -> lsQ (lines (buf_extend b n c p)).
  Proof.
    intros Hp H. unfold buf_extend. rewrite lines_set_lines.
    apply Forall_app; split; [exact H|]. apply Forall_repeat_of, blank_line_Q. exact Hp.
  Qed.

  Lemma buf_print_Q b col row c b' :
    Q c -> lsQ (lines b) -> buf_print b col row c = Ok b' -> lsQ (lines b').
  Proof.
    intros Hc H E. unfold buf_print in E. eapply with_row_Q; [exact H| |exact E].
    intros l l' Hl El. eapply line_printM_Q; eassumption.
  Qed.

  Lemma set_wrappedM_Q w l l' : lQ l -> set_wrapped w l = Ok l' -> lQ l'.
  Proof. intros H E. unfold set_wrapped in E. apply Ok_inj in E. subst l'. apply set_wrapped_Q, H. Qed.

  Lemma with_row_wrapped_Q b r w b' :
    lsQ (lines b) -> with_row b r (set_wrapped w) = Ok b' -> lsQ (lines b').
  Proof.
    intros H E. eapply with_row_Q; [exact H| |exact E]. intros l l'. apply set_wrappedM_Q.
  Qed.

  Lemma buf_wrap_Q b row b' : lsQ (lines b) -> buf_wrap b row = Ok b' -> lsQ (lines b').
  Proof. apply with_row_wrapped_Q. Qed.

  Lemma buf_insert_Q b col row n c b' :
    Q c -> lsQ (lines b) -> buf_insert b col row n c = Ok b' -> lsQ (lines b').
  Proof.
    intros Hc H E. unfold buf_insert in E. apply bind_ok in E as (u & _ & E).
    eapply with_row_Q; [exact H| |exact E].
    intros l l' Hl El. eapply line_insertM_Q; eassumption.
  Qed.

  Lemma buf_delete_Q b col row n p b' :
    Q (blank_cell p) -> lsQ (lines b) -> buf_delete b col row n p = Ok b' -> lsQ (lines b').
  Proof.
    intros Hc H E. unfold buf_delete in E. apply bind_ok in E as (u & _ & E).
    eapply with_row_Q; [exact H| |exact E].
    intros l l' Hl El. apply bind_ok in El as (l1 & E1 & El).
    eapply set_wrappedM_Q; [|exact El]. eapply line_deleteM_Q; eassumption.
  Qed.

  Lemma buf_erase_Q b col row m p b' :
    Q (blank_cell p) -> lsQ (lines b) -> buf_erase b col row m p = Ok b' -> lsQ (lines b').
  Proof.
    intros Hp H E.
    assert (HC : forall a z l l', lQ l -> line_clearM a z p l = Ok l' -> lQ l').
    { intros a z l l' Hl El. eapply line_clearM_Q; eassumption. }
    assert (HCW : forall a z l l', lQ l ->
              (l1 <- line_clearM a z p l ;; set_wrapped false l1) = Ok l' -> lQ l').
    { intros a z l l' Hl El. apply bind_ok in El as (l1 & E1 & El).
      eapply set_wrappedM_Q; [|exact El]. eapply HC; eassumption. }
    destruct m; cbn [buf_erase] in E.
    - apply bind_ok in E as (u & _ & E). eapply with_row_Q; [exact H| |exact E].
      intros l l' Hl El. apply bind_ok in El as (l1 & E1 & El).
      pose proof (HC _ _ _ _ Hl E1) as H1.
      match type of El with (if ?c then _ else _) = _ => destruct c end.
      + eapply set_wrappedM_Q; eassumption.
      + apply Ok_inj in El. subst l'. exact H1.
    - apply bind_ok in E as (b1 & E1 & E).
      eapply buf_clear_Q; [exact Hp| |exact E].
      eapply with_row_Q; [exact H| |exact E1].
      intros l l' Hl El. eapply HC; [|exact El]. apply set_wrapped_Q. exact Hl.
    - apply bind_ok in E as (b1 & E1 & E).
      eapply buf_clear_Q; [exact Hp| |exact E].
      eapply with_row_Q; [exact H| |exact E1]. intros l l'. apply HC.
    - eapply buf_clear_Q; eassumption.
    - eapply with_row_Q; [exact H| |exact E]. intros l l'. apply HCW.
    - eapply with_row_Q; [exact H| |exact E]. intros l l'. apply HC.
    - eapply with_row_Q; [exact H| |exact E]. intros l l'. apply HCW.
  Qed.

  Lemma buf_scroll_up_Q b a z n p b' :
    Q (blank_cell p) -> lsQ (lines b) -> buf_scroll_up b a z n p = Ok b' -> lsQ (lines b').
  Proof.
    intros Hp H E. unfold buf_scroll_up in E.
    apply bind_ok in E as (u & _ & E).
    apply bind_ok in E as (b1 & E1 & E).
    apply bind_ok in E as (b2 & E2 & E).
    apply Ok_inj in E. subst b'. rewrite lines_set_trim.
    assert (H1 : lsQ (lines b1)).
    { destruct (z - 1 <? brows b - 1).
      - eapply with_row_wrapped_Q; eassumption.
      - apply Ok_inj in E1. subst b1. exact H. }
    destruct (a =? 0).
    - destruct (z =? brows b1).
      + apply Ok_inj in E2. subst b2. apply buf_extend_Q; assumption.
      + apply bind_ok in E2 as (u1 & _ & E2). apply bind_ok in E2 as (u2 & _ & E2).
        apply Ok_inj in E2. subst b2. rewrite lines_set_lines. unfold insert_n.
        apply Forall_app; split; [apply Forall_firstn_of; exact H1|].
        apply Forall_app; split; [|apply Forall_skipn_of; exact H1].
        apply Forall_repeat_of, blank_line_Q. exact Hp.
    - apply bind_ok in E2 as (b3 & E3 & E2). apply bind_ok in E2 as (b4 & E4 & E2).
      eapply buf_clear_Q; [exact Hp| |exact E2].
      eapply with_view_Q; [|intros v Hv|exact E4].
      + eapply with_row_wrapped_Q; eassumption.
      + apply on_range_Forall; [|exact Hv]. intros t Ht. apply rotl_Forall. exact Ht.
  Qed.

  Lemma buf_scroll_down_Q b a z n p b' :
    Q (blank_cell p) -> lsQ (lines b) -> buf_scroll_down b a z n p = Ok b' -> lsQ (lines b').
  Proof.
    intros Hp H E. unfold buf_scroll_down in E.
    apply bind_ok in E as (u & _ & E).
    apply bind_ok in E as (b1 & E1 & E).
    apply bind_ok in E as (b2 & E2 & E).
    apply bind_ok in E as (b3 & E3 & E).
    apply bind_ok in E as (u' & _ & E).
    eapply with_row_wrapped_Q; [|exact E].
    assert (H2 : lsQ (lines b2)).
    { eapply buf_clear_Q; [exact Hp| |exact E2].
      eapply with_view_Q; [exact H|intros v Hv|exact E1].
      apply on_range_Forall; [|exact Hv]. intros t Ht. apply rotr_Forall. exact Ht. }
    destruct (0 <? a).
    - eapply with_row_wrapped_Q; eassumption.
    - apply Ok_inj in E3. subst b3. exact H2.
  Qed.

  Lemma buf_gc_Q b b' dr : lsQ (lines b) -> buf_gc b = Ok (b', dr) -> lsQ (lines b') /\ lsQ dr.
  Proof.
    intros H E. unfold buf_gc in E.
    destruct (trim_needed b).
    2:{ apply Ok_inj in E. injection E as <- <-. split; [exact H|constructor]. }
    set (b0 := b <| trim_needed := false |>) in E.
    assert (H0 : lsQ (lines b0)) by (subst b0; rewrite lines_set_trim; exact H).
    clearbody b0.
    destruct (blimit b0) as [[soft hard]|].
    2:{ apply Ok_inj in E. injection E as <- <-. split; [exact H0|constructor]. }
    apply bind_ok in E as (u & _ & E).
    destruct (hard <? N.of_nat (sb_len b0))%N.
    - apply bind_ok in E as (u' & _ & E). apply Ok_inj in E. injection E as <- <-.
      rewrite lines_set_lines. split; [apply Forall_skipn_of|apply Forall_firstn_of]; exact H0.
    - apply Ok_inj in E. injection E as <- <-. split; [exact H0|constructor].
  Qed.

  Lemma decaln_cols_Q : Q (mkCell 69 default_pen) ->
    forall n b row col b',
      lsQ (lines b) -> decaln_cols b row n col = Ok b' -> lsQ (lines b').
  Proof.
    intros Hc. induction n as [|n IH]; intros b row col b' H E; cbn [decaln_cols] in E.
    - apply Ok_inj in E. subst b'. exact H.
    - apply bind_ok in E as (b1 & E1 & E).
      eapply IH; [|exact E]. eapply buf_print_Q; eassumption.
  Qed.
End CellQ.
