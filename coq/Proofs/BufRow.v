(** View-level characterisation of the row-level buffer primitives of [Model/Prims.v].

    Under the geometry invariant [BGeom b] and the natural index preconditions every
    primitive returns [Ok], and its effect is a list-level function of the view
    ([bset b v] replaces the view by [v]); scrollback, geometry, limit and [trim_needed]
    are untouched.  The right-hand sides are the ones used by [spec_edit]/[spec_print_glyph]
    in [Spec/Screen.v]. *)

From Avt Require Import Model.Prims Spec.Screen Proofs.Inv Proofs.ListLemmas.
From Coq Require Import Lia.

(** replace the view of [b] by [v], keep everything else *)
Definition bset (b : buffer) (v : list line) : buffer :=
  b <| lines := firstn (sb_len b) (lines b) ++ v |>.

(** * 0. Basics *)

Lemma bset_lines b v : lines (bset b v) = firstn (sb_len b) (lines b) ++ v.
Proof. reflexivity. Qed.
Lemma bset_bcols b v : bcols (bset b v) = bcols b.
Proof. reflexivity. Qed.
Lemma bset_brows b v : brows (bset b v) = brows b.
Proof. reflexivity. Qed.
Lemma bset_blimit b v : blimit (bset b v) = blimit b.
Proof. reflexivity. Qed.
Lemma bset_trim_needed b v : trim_needed (bset b v) = trim_needed b.
Proof. reflexivity. Qed.

Lemma set_lines_twice (b : buffer) (x y : list line) :
  b <| lines := x |> <| lines := y |> = b <| lines := y |>.
Proof. destruct b; reflexivity. Qed.

Lemma set_lines_self (b : buffer) : b <| lines := lines b |> = b.
Proof. destruct b; reflexivity. Qed.

Lemma view_ok_true b : BGeom b -> view_ok b = true.
Proof. intros HG. unfold view_ok. apply Nat.leb_le. apply HG. Qed.

Lemma view_length b : BGeom b -> length (view b) = brows b.
Proof.
  intros (_ & _ & Hr & _). unfold view, sb_len. rewrite skipn_length. lia.
Qed.

Lemma sb_length b : BGeom b -> length (firstn (sb_len b) (lines b)) = sb_len b.
Proof. intros _. rewrite firstn_length. unfold sb_len. lia. Qed.

Lemma lines_split b : BGeom b -> lines b = firstn (sb_len b) (lines b) ++ view b.
Proof. intros _. unfold view. symmetry. apply firstn_skipn. Qed.

Lemma bset_sb_len b v : BGeom b -> length v = brows b -> sb_len (bset b v) = sb_len b.
Proof.
  intros HG Hv. unfold sb_len at 1.
  rewrite bset_lines, bset_brows, app_length, (sb_length b HG), Hv. lia.
Qed.

Lemma bset_sb b v :
  BGeom b -> length v = brows b ->
  firstn (sb_len (bset b v)) (lines (bset b v)) = firstn (sb_len b) (lines b).
Proof.
  intros HG Hv. rewrite (bset_sb_len b v HG Hv), bset_lines.
  apply firstn_app_exact. apply sb_length; exact HG.
Qed.

Lemma bset_view b v :
  BGeom b -> length v = brows b -> view (bset b v) = v /\ sb_len (bset b v) = sb_len b.
Proof.
  intros HG Hv. split; [|apply bset_sb_len; assumption].
  unfold view. rewrite (bset_sb_len b v HG Hv), bset_lines.
  apply skipn_app_exact. apply sb_length; exact HG.
Qed.

Lemma bset_bset b v w :
  BGeom b -> length v = brows b -> bset (bset b v) w = bset b w.
Proof.
  intros HG Hv. unfold bset at 1. rewrite (bset_sb b v HG Hv).
  unfold bset. apply set_lines_twice.
Qed.

Lemma bset_self b : BGeom b -> bset b (view b) = b.
Proof.
  intros HG. unfold bset. rewrite <- (lines_split b HG). apply set_lines_self.
Qed.

Lemma bset_BGeom b v :
  BGeom b -> length v = brows b -> Forall (LineInv (bcols b)) v -> BGeom (bset b v).
Proof.
  intros HG Hv HF. pose proof HG as (Hc & Hr & Hl & HFl).
  unfold BGeom. rewrite bset_bcols, bset_brows, bset_lines.
  repeat split; try assumption.
  - rewrite app_length, Hv. lia.
  - apply Forall_app; split; [apply Forall_firstn_of; exact HFl|exact HF].
Qed.

Lemma view_Forall b : BGeom b -> Forall (LineInv (bcols b)) (view b).
Proof. intros (_ & _ & _ & HF). unfold view. apply Forall_skipn_of; exact HF. Qed.

Lemma row_at_nth_error v r : r < length v -> nth_error v r = Some (row_at v r).
Proof. intros H. unfold row_at. apply nth_error_nth_lt; exact H. Qed.

Lemma row_at_LineInv c v r : Forall (LineInv c) v -> r < length v -> LineInv c (row_at v r).
Proof.
  intros HF Hr. eapply Forall_nth_error; [exact HF|apply row_at_nth_error; exact Hr].
Qed.

Lemma view_row_LineInv b r : BGeom b -> r < brows b -> LineInv (bcols b) (row_at (view b) r).
Proof.
  intros HG Hr. apply row_at_LineInv; [apply view_Forall; exact HG|].
  rewrite (view_length b HG). exact Hr.
Qed.

Lemma upd_row_length r g v : length (upd_row r g v) = length v.
Proof. apply upd_length. Qed.

Lemma upd_row_Forall c r g v :
  (forall l, LineInv c l -> LineInv c (g l)) ->
  Forall (LineInv c) v -> Forall (LineInv c) (upd_row r g v).
Proof. intros Hg HF. apply upd_Forall; [exact HF|]. intros x _ Hx. apply Hg; exact Hx. Qed.

(** variant: [g] only needs to preserve [LineInv] on the row actually touched *)
Lemma upd_row_Forall_at c r g v :
  (r < length v -> LineInv c (g (row_at v r))) ->
  Forall (LineInv c) v -> Forall (LineInv c) (upd_row r g v).
Proof.
  intros Hg HF. apply upd_Forall; [exact HF|]. intros x Hx _.
  assert (Hr : r < length v) by (apply nth_error_Some; congruence).
  rewrite (row_at_nth_error v r Hr) in Hx. inversion Hx; subst x. apply Hg; exact Hr.
Qed.

Lemma upd_row_ext r g g' v :
  (forall l, g l = g' l) -> upd_row r g v = upd_row r g' v.
Proof. intros H. apply upd_ext. intros x _. apply H. Qed.

Lemma upd_row_ext_inv c r g g' v :
  Forall (LineInv c) v -> (forall l, LineInv c l -> g l = g' l) -> upd_row r g v = upd_row r g' v.
Proof.
  intros HF H. apply upd_ext. intros x Hx. apply H. eapply Forall_nth_error; eassumption.
Qed.

Lemma row_at_upd_row_same r g v : r < length v -> row_at (upd_row r g v) r = g (row_at v r).
Proof. intros H. apply nth_upd_same; exact H. Qed.

Lemma row_at_upd_row_other r r' g v : r <> r' -> row_at (upd_row r g v) r' = row_at v r'.
Proof. intros H. apply nth_upd_other; exact H. Qed.

Lemma blank_line_LineInv c p : LineInv c (blank_line c p).
Proof. unfold LineInv, blank_line. cbn [cells]. apply repeat_length. Qed.

(** the view obtained through [bset] is a well-formed buffer whose view is [v] *)
Lemma bset_ok b v :
  BGeom b -> length v = brows b -> Forall (LineInv (bcols b)) v ->
  BGeom (bset b v) /\ view (bset b v) = v /\ sb_len (bset b v) = sb_len b.
Proof.
  intros HG Hv HF. split; [apply bset_BGeom; assumption|apply bset_view; assumption].
Qed.

(** * 1. [with_row] / [get_row] / [with_view] *)

(** success of [f] is only required on the row actually addressed *)
Lemma with_row_spec_at b r f g :
  BGeom b -> r < brows b ->
  f (row_at (view b) r) = Ok (g (row_at (view b) r)) ->
  with_row b r f = Ok (bset b (upd_row r g (view b))).
Proof.
  intros HG Hr Hf. unfold with_row.
  rewrite (view_ok_true b HG).
  assert (Hlt : (r <? brows b) = true) by (apply Nat.ltb_lt; exact Hr).
  rewrite Hlt. cbn [andb].
  pose proof (view_length b HG) as Hvl.
  assert (Hn : nth_error (lines b) (sb_len b + r) = Some (row_at (view b) r)).
  { rewrite <- nth_error_skipn_add. apply row_at_nth_error. lia. }
  rewrite Hn, Hf. unfold bind. f_equal.
  assert (Hlen : sb_len b + r < length (lines b)).
  { apply nth_error_Some. congruence. }
  rewrite (upd_split_const (lines b) (sb_len b) r g _ Hlen Hn).
  reflexivity.
Qed.

Theorem with_row_spec b r f g :
  BGeom b -> r < brows b ->
  (forall l, LineInv (bcols b) l -> f l = Ok (g l)) ->
  with_row b r f = Ok (bset b (upd_row r g (view b))).
Proof.
  intros HG Hr Hf. apply with_row_spec_at; try assumption.
  apply Hf. apply view_row_LineInv; assumption.
Qed.
Print Assumptions with_row_spec.

Theorem get_row_spec b r :
  BGeom b -> r < brows b -> get_row b r = Ok (row_at (view b) r).
Proof.
  intros HG Hr. unfold get_row.
  rewrite (view_ok_true b HG).
  assert (Hlt : (r <? brows b) = true) by (apply Nat.ltb_lt; exact Hr).
  rewrite Hlt. cbn [andb].
  pose proof (view_length b HG) as Hvl.
  assert (Hn : nth_error (lines b) (sb_len b + r) = Some (row_at (view b) r)).
  { rewrite <- nth_error_skipn_add. apply row_at_nth_error. lia. }
  rewrite Hn. reflexivity.
Qed.
Print Assumptions get_row_spec.

Lemma with_view_spec b ok h :
  BGeom b -> ok = true -> with_view b ok h = Ok (bset b (h (view b))).
Proof.
  intros HG ->. unfold with_view. rewrite (view_ok_true b HG). reflexivity.
Qed.

(** BGeom of the result of a row update *)
Lemma bset_upd_row_BGeom b r g :
  BGeom b -> (forall l, LineInv (bcols b) l -> LineInv (bcols b) (g l)) ->
  BGeom (bset b (upd_row r g (view b))).
Proof.
  intros HG Hg. apply bset_BGeom; [exact HG| |].
  - rewrite upd_row_length. apply view_length; exact HG.
  - apply upd_row_Forall; [exact Hg|apply view_Forall; exact HG].
Qed.

(** * 2. Line level *)

Lemma cells_set_cells (l : line) x : cells (l <| cells := x |>) = x.
Proof. reflexivity. Qed.
Lemma wrapped_set_cells (l : line) x : wrapped (l <| cells := x |>) = wrapped l.
Proof. reflexivity. Qed.
Lemma cells_unwrap l : cells (unwrap l) = cells l.
Proof. reflexivity. Qed.
Lemma cells_mark_wrapped l : cells (mark_wrapped l) = cells l.
Proof. reflexivity. Qed.
Lemma wrapped_unwrap l : wrapped (unwrap l) = false.
Proof. reflexivity. Qed.
Lemma wrapped_mark_wrapped l : wrapped (mark_wrapped l) = true.
Proof. reflexivity. Qed.

Lemma LineInv_set_cells c (l : line) x : length x = c -> LineInv c (l <| cells := x |>).
Proof. intros H. unfold LineInv. rewrite cells_set_cells. exact H. Qed.

Lemma unwrap_LineInv c l : LineInv c l -> LineInv c (unwrap l).
Proof. intros H; exact H. Qed.

Lemma mark_wrapped_LineInv c l : LineInv c l -> LineInv c (mark_wrapped l).
Proof. intros H; exact H. Qed.

Lemma unwrap_set_cells (l : line) x : unwrap (l <| cells := x |>) = (unwrap l) <| cells := x |>.
Proof. destruct l; reflexivity. Qed.

Lemma clear_cells_unwrap a z p l : clear_cells a z p (unwrap l) = unwrap (clear_cells a z p l).
Proof. destruct l; reflexivity. Qed.

(** the spec-level cell functions are the model's total bodies *)
Lemma line_print_set_cell col x l : line_print col x l = set_cell col x l.
Proof. reflexivity. Qed.

Lemma line_clear_clear_cells a z p l : line_clear a z p l = clear_cells a z p l.
Proof. reflexivity. Qed.

(** ** print *)

Theorem line_print_spec c col x l :
  LineInv c l -> col < c -> line_printM col x l = Ok (set_cell col x l).
Proof.
  intros Hl Hc. unfold line_printM, line_print_ok, llen. rewrite Hl.
  assert (E : (col <? c) = true) by (apply Nat.ltb_lt; exact Hc).
  rewrite E. reflexivity.
Qed.

Lemma set_cell_LineInv c col x l : LineInv c l -> LineInv c (set_cell col x l).
Proof.
  intros Hl. unfold set_cell. apply LineInv_set_cells. rewrite upd_length. exact Hl.
Qed.

(** ** clear *)

Theorem line_clear_spec c a z p l :
  LineInv c l -> a <= z -> z <= c -> line_clearM a z p l = Ok (clear_cells a z p l).
Proof.
  intros Hl Ha Hz. unfold line_clearM, line_clear_ok, llen. rewrite Hl.
  assert (E1 : (a <=? z) = true) by (apply Nat.leb_le; exact Ha).
  assert (E2 : (z <=? c) = true) by (apply Nat.leb_le; exact Hz).
  rewrite E1, E2. reflexivity.
Qed.

Lemma clear_cells_LineInv c a z p l :
  LineInv c l -> a <= z -> z <= c -> LineInv c (clear_cells a z p l).
Proof.
  intros Hl Ha Hz. unfold clear_cells. apply LineInv_set_cells.
  unfold LineInv in Hl. unfold blanks. list_len.
Qed.

(** ** insert *)

Definition insert_cells (c col n : nat) (x : cell) (l : line) : line :=
  l <| cells := firstn col (cells l) ++ repeat x n ++ firstn (c - col - n) (skipn col (cells l)) |>.

Theorem line_insert_spec c col n x l :
  LineInv c l -> col <= c -> n <= c - col ->
  line_insertM col n x l
  = Ok (l <| cells := firstn col (cells l) ++ repeat x n
                        ++ firstn (c - col - n) (skipn col (cells l)) |>).
Proof.
  intros Hl Hc Hn. unfold line_insertM, line_insert_ok, llen. rewrite Hl.
  assert (E1 : (col <=? c) = true) by (apply Nat.leb_le; exact Hc).
  assert (E2 : (n <=? c - col) = true) by (apply Nat.leb_le; exact Hn).
  rewrite E1, E2. cbn [andb]. unfold line_insert, llen.
  unfold LineInv in Hl. rewrite insert_shape by lia. rewrite Hl. reflexivity.
Qed.

Lemma insert_cells_LineInv c col n x l :
  LineInv c l -> col <= c -> n <= c - col -> LineInv c (insert_cells c col n x l).
Proof.
  intros Hl Hc Hn. unfold insert_cells. apply LineInv_set_cells.
  unfold LineInv in Hl. list_len.
Qed.

Lemma insert_cells_one c col x l :
  LineInv c l -> insert_cells c col 1 x l = insert_cell col x l.
Proof.
  intros Hl. unfold insert_cells, insert_cell. unfold LineInv in Hl. rewrite Hl. reflexivity.
Qed.

Corollary line_insert_one_spec c col x l :
  LineInv c l -> col < c -> line_insertM col 1 x l = Ok (insert_cell col x l).
Proof.
  intros Hl Hc. rewrite (line_insert_spec c) by (try assumption; lia).
  fold (insert_cells c col 1 x l). rewrite (insert_cells_one c) by exact Hl. reflexivity.
Qed.

(** ** delete *)

Definition delete_cells (col n : nat) (p : pen) (l : line) : line :=
  l <| cells := firstn col (cells l) ++ skipn (col + n) (cells l) ++ blanks n p |>.

Theorem line_delete_spec c col n p l :
  LineInv c l -> col <= c -> n <= c - col ->
  line_deleteM col n p l
  = Ok (l <| cells := firstn col (cells l) ++ skipn (col + n) (cells l) ++ blanks n p |>).
Proof.
  intros Hl Hc Hn. unfold line_deleteM, line_delete_ok, llen. rewrite Hl.
  assert (E1 : (col <=? c) = true) by (apply Nat.leb_le; exact Hc).
  assert (E2 : (n <=? c - col) = true) by (apply Nat.leb_le; exact Hn).
  rewrite E1, E2. cbn [andb]. unfold line_delete, llen.
  unfold LineInv in Hl. rewrite delete_shape by lia. reflexivity.
Qed.

Lemma delete_cells_LineInv c col n p l :
  LineInv c l -> col <= c -> n <= c - col -> LineInv c (delete_cells col n p l).
Proof.
  intros Hl Hc Hn. unfold delete_cells. apply LineInv_set_cells.
  unfold LineInv in Hl. unfold blanks. list_len.
Qed.

(** each [Ok] result of the four line primitives satisfies [LineInv c] *)
Theorem line_prims_LineInv c l :
  LineInv c l ->
  (forall col x, LineInv c (set_cell col x l))
  /\ (forall a z p, a <= z -> z <= c -> LineInv c (clear_cells a z p l))
  /\ (forall col n x, col <= c -> n <= c - col ->
        LineInv c (l <| cells := firstn col (cells l) ++ repeat x n
                                   ++ firstn (c - col - n) (skipn col (cells l)) |>))
  /\ (forall col n p, col <= c -> n <= c - col ->
        LineInv c (l <| cells := firstn col (cells l) ++ skipn (col + n) (cells l)
                                   ++ blanks n p |>)).
Proof.
  intros Hl. repeat split; intros.
  - apply set_cell_LineInv; exact Hl.
  - apply clear_cells_LineInv; assumption.
  - apply (insert_cells_LineInv c col n x l); assumption.
  - apply (delete_cells_LineInv c col n p l); assumption.
Qed.
Print Assumptions line_print_spec.
Print Assumptions line_clear_spec.
Print Assumptions line_insert_spec.
Print Assumptions line_insert_one_spec.
Print Assumptions line_delete_spec.
Print Assumptions line_prims_LineInv.

(** * 3. Buffer level *)

Ltac leb_true H := apply Nat.leb_le in H.

Theorem buf_print_spec b col row x :
  BGeom b -> row < brows b -> col < bcols b ->
  buf_print b col row x = Ok (bset b (upd_row row (set_cell col x) (view b)))
  /\ BGeom (bset b (upd_row row (set_cell col x) (view b))).
Proof.
  intros HG Hr Hc. split.
  - unfold buf_print. apply with_row_spec; try assumption.
    intros l Hl. apply (line_print_spec (bcols b)); assumption.
  - apply bset_upd_row_BGeom; [exact HG|]. intros l Hl. apply set_cell_LineInv; exact Hl.
Qed.
Print Assumptions buf_print_spec.

Theorem buf_wrap_spec b row :
  BGeom b -> row < brows b ->
  buf_wrap b row = Ok (bset b (upd_row row mark_wrapped (view b)))
  /\ BGeom (bset b (upd_row row mark_wrapped (view b))).
Proof.
  intros HG Hr. split.
  - unfold buf_wrap. apply with_row_spec; try assumption. intros l _. reflexivity.
  - apply bset_upd_row_BGeom; [exact HG|]. intros l Hl. exact Hl.
Qed.
Print Assumptions buf_wrap_spec.

Theorem buf_insert_spec b col row n x :
  BGeom b -> row < brows b -> col <= bcols b ->
  let n' := Nat.min n (bcols b - col) in
  let G := fun l : line =>
    l <| cells := firstn col (cells l) ++ repeat x n'
                  ++ firstn (bcols b - col - n') (skipn col (cells l)) |> in
  buf_insert b col row n x = Ok (bset b (upd_row row G (view b)))
  /\ BGeom (bset b (upd_row row G (view b))).
Proof.
  intros HG Hr Hc n' G. split.
  - unfold buf_insert.
    assert (E : (col <=? bcols b) = true) by (apply Nat.leb_le; exact Hc).
    rewrite E. cbn [guard bind]. apply with_row_spec; try assumption.
    intros l Hl. apply (line_insert_spec (bcols b)); [exact Hl|exact Hc|].
    apply Nat.le_min_r.
  - apply bset_upd_row_BGeom; [exact HG|]. intros l Hl.
    apply (insert_cells_LineInv (bcols b) col n' x l); [exact Hl|exact Hc|apply Nat.le_min_r].
Qed.
Print Assumptions buf_insert_spec.

Theorem buf_delete_spec b col row n p :
  BGeom b -> row < brows b -> col <= bcols b ->
  let n' := Nat.min n (bcols b - col) in
  let G := fun l : line =>
    unwrap (l <| cells := firstn col (cells l) ++ skipn (col + n') (cells l) ++ blanks n' p |>) in
  buf_delete b col row n p = Ok (bset b (upd_row row G (view b)))
  /\ BGeom (bset b (upd_row row G (view b))).
Proof.
  intros HG Hr Hc n' G. split.
  - unfold buf_delete.
    assert (E : (col <=? bcols b) = true) by (apply Nat.leb_le; exact Hc).
    rewrite E. cbn [guard bind]. apply with_row_spec; try assumption.
    intros l Hl. rewrite (line_delete_spec (bcols b)); [reflexivity|exact Hl|exact Hc|].
    apply Nat.le_min_r.
  - apply bset_upd_row_BGeom; [exact HG|]. intros l Hl. apply unwrap_LineInv.
    apply (delete_cells_LineInv (bcols b) col n' p l); [exact Hl|exact Hc|apply Nat.le_min_r].
Qed.
Print Assumptions buf_delete_spec.

(** ** [buf_clear] *)

Theorem buf_clear_spec b a z p :
  BGeom b -> a <= z -> z <= brows b ->
  let v' := firstn a (view b) ++ repeat (blank_line (bcols b) p) (z - a) ++ skipn z (view b) in
  buf_clear b a z p = Ok (bset b v') /\ BGeom (bset b v').
Proof.
  intros HG Ha Hz v'. split.
  - unfold buf_clear. apply with_view_spec; [exact HG|].
    apply andb_true_intro; split; apply Nat.leb_le; assumption.
  - pose proof (view_length b HG) as Hvl. pose proof (view_Forall b HG) as HF.
    apply bset_BGeom; [exact HG| |]; unfold v'.
    + list_len.
    + apply (fill_range_Forall _ a z); [exact HF|apply blank_line_LineInv].
Qed.
Print Assumptions buf_clear_spec.

(** ** [buf_erase] *)

(** the view after [buf_erase], in the form used by [spec_edit] (ED 0/1/2, EL 0/1/2, ECH) *)
Definition erase_view (b : buffer) (col row : nat) (m : erase_mode) (p : pen) : list line :=
  let v := view b in
  let nc := bcols b in
  match m with
  | NextChars n =>
    let k := Nat.min n (nc - col) in
    upd_row row (fun l => let l' := clear_cells col (col + k) p l in
                          if col + k =? nc then unwrap l' else l') v
  | FromCursorToEndOfView =>
    firstn (row + 1) (upd_row row (fun l => unwrap (clear_cells col nc p l)) v)
    ++ repeat (blank_line nc p) (brows b - row - 1)
  | FromStartOfViewToCursor =>
    repeat (blank_line nc p) row
    ++ skipn row (upd_row row (clear_cells 0 (Nat.min (col + 1) nc) p) v)
  | WholeView => repeat (blank_line nc p) (brows b)
  | FromCursorToEndOfLine => upd_row row (fun l => unwrap (clear_cells col nc p l)) v
  | FromStartOfLineToCursor => upd_row row (clear_cells 0 (Nat.min (col + 1) nc) p) v
  | WholeLine => upd_row row (fun l => unwrap (clear_cells 0 nc p l)) v
  end.

Theorem buf_erase_NextChars b col row n p :
  BGeom b -> row < brows b -> col <= bcols b ->
  let k := Nat.min n (bcols b - col) in
  let G := fun l => let l' := clear_cells col (col + k) p l in
                    if col + k =? bcols b then unwrap l' else l' in
  buf_erase b col row (NextChars n) p = Ok (bset b (upd_row row G (view b)))
  /\ BGeom (bset b (upd_row row G (view b))).
Proof.
  intros HG Hr Hc k G. split.
  - unfold buf_erase.
    assert (E : (col <=? bcols b) = true) by (apply Nat.leb_le; exact Hc).
    rewrite E. cbn [guard bind]. apply with_row_spec; try assumption.
    intros l Hl. fold k. rewrite (line_clear_spec (bcols b)) by (try assumption; lia).
    unfold bind, G. cbv zeta. destruct (col + k =? bcols b); reflexivity.
  - apply bset_upd_row_BGeom; [exact HG|]. intros l Hl. unfold G. cbv zeta.
    assert (LineInv (bcols b) (clear_cells col (col + k) p l))
      by (apply clear_cells_LineInv; [exact Hl|lia|lia]).
    destruct (col + k =? bcols b); [apply unwrap_LineInv|]; assumption.
Qed.
Print Assumptions buf_erase_NextChars.

Theorem buf_erase_FromCursorToEndOfLine b col row p :
  BGeom b -> row < brows b -> col <= bcols b ->
  let G := fun l => unwrap (clear_cells col (bcols b) p l) in
  buf_erase b col row FromCursorToEndOfLine p = Ok (bset b (upd_row row G (view b)))
  /\ BGeom (bset b (upd_row row G (view b))).
Proof.
  intros HG Hr Hc G. split.
  - unfold buf_erase. apply with_row_spec; try assumption.
    intros l Hl. rewrite (line_clear_spec (bcols b)) by (try assumption; lia). reflexivity.
  - apply bset_upd_row_BGeom; [exact HG|]. intros l Hl. unfold G.
    apply unwrap_LineInv, clear_cells_LineInv; [exact Hl|lia|lia].
Qed.
Print Assumptions buf_erase_FromCursorToEndOfLine.

Theorem buf_erase_FromStartOfLineToCursor b col row p :
  BGeom b -> row < brows b ->
  let G := clear_cells 0 (Nat.min (col + 1) (bcols b)) p in
  buf_erase b col row FromStartOfLineToCursor p = Ok (bset b (upd_row row G (view b)))
  /\ BGeom (bset b (upd_row row G (view b))).
Proof.
  intros HG Hr G. split.
  - unfold buf_erase. apply with_row_spec; try assumption.
    intros l Hl. apply (line_clear_spec (bcols b)); [exact Hl|lia|lia].
  - apply bset_upd_row_BGeom; [exact HG|]. intros l Hl. unfold G.
    apply clear_cells_LineInv; [exact Hl|lia|lia].
Qed.
Print Assumptions buf_erase_FromStartOfLineToCursor.

Theorem buf_erase_WholeLine b col row p :
  BGeom b -> row < brows b ->
  let G := fun l => unwrap (clear_cells 0 (bcols b) p l) in
  buf_erase b col row WholeLine p = Ok (bset b (upd_row row G (view b)))
  /\ BGeom (bset b (upd_row row G (view b))).
Proof.
  intros HG Hr G. split.
  - unfold buf_erase. apply with_row_spec; try assumption.
    intros l Hl. rewrite (line_clear_spec (bcols b)) by (try assumption; lia). reflexivity.
  - apply bset_upd_row_BGeom; [exact HG|]. intros l Hl. unfold G.
    apply unwrap_LineInv, clear_cells_LineInv; [exact Hl|lia|lia].
Qed.
Print Assumptions buf_erase_WholeLine.

Theorem buf_erase_WholeView b col row p :
  BGeom b ->
  let v' := repeat (blank_line (bcols b) p) (brows b) in
  buf_erase b col row WholeView p = Ok (bset b v') /\ BGeom (bset b v').
Proof.
  intros HG v'. pose proof (view_length b HG) as Hvl.
  destruct (buf_clear_spec b 0 (brows b) p HG) as [He HB]; [lia|lia|].
  cbv zeta in He, HB.
  assert (Ev : firstn 0 (view b) ++ repeat (blank_line (bcols b) p) (brows b - 0)
                 ++ skipn (brows b) (view b) = v').
  { unfold v'. rewrite firstn_O, Nat.sub_0_r, skipn_all2 by lia. cbn [app].
    apply app_nil_r. }
  rewrite Ev in He, HB. split; [exact He|exact HB].
Qed.
Print Assumptions buf_erase_WholeView.

Theorem buf_erase_FromCursorToEndOfView b col row p :
  BGeom b -> row < brows b -> col <= bcols b ->
  let v1 := upd_row row (fun l => unwrap (clear_cells col (bcols b) p l)) (view b) in
  let v' := firstn (row + 1) v1 ++ repeat (blank_line (bcols b) p) (brows b - row - 1) in
  buf_erase b col row FromCursorToEndOfView p = Ok (bset b v') /\ BGeom (bset b v').
Proof.
  intros HG Hr Hc v1 v'. pose proof (view_length b HG) as Hvl.
  assert (Hv1l : length v1 = brows b) by (unfold v1; rewrite upd_row_length; exact Hvl).
  assert (Hv1F : Forall (LineInv (bcols b)) v1).
  { unfold v1. apply upd_row_Forall; [|apply view_Forall; exact HG].
    intros l Hl. apply unwrap_LineInv, clear_cells_LineInv; [exact Hl|lia|lia]. }
  destruct (bset_ok b v1 HG Hv1l Hv1F) as (HG1 & Hview1 & Hsb1).
  assert (Hstep : with_row b row (fun l => line_clearM col (bcols b) p (l <| wrapped := false |>))
                  = Ok (bset b v1)).
  { unfold v1. apply with_row_spec; try assumption. intros l Hl.
    change (l <| wrapped := false |>) with (unwrap l).
    rewrite (line_clear_spec (bcols b)) by (try apply unwrap_LineInv; try assumption; lia).
    rewrite clear_cells_unwrap. reflexivity. }
  destruct (buf_clear_spec (bset b v1) (row + 1) (brows b) p HG1) as [He HB];
    [lia|rewrite bset_brows; lia|].
  cbv zeta in He, HB. rewrite Hview1, bset_bcols in He, HB.
  assert (Ev : firstn (row + 1) v1 ++ repeat (blank_line (bcols b) p) (brows b - (row + 1))
                 ++ skipn (brows b) v1 = v').
  { unfold v'. rewrite skipn_all2 by lia. rewrite app_nil_r.
    replace (brows b - (row + 1)) with (brows b - row - 1) by lia. reflexivity. }
  rewrite Ev, (bset_bset b v1 v' HG Hv1l) in He, HB.
  split; [|exact HB].
  unfold buf_erase. rewrite Hstep. cbn [bind]. rewrite bset_brows. exact He.
Qed.
Print Assumptions buf_erase_FromCursorToEndOfView.

Theorem buf_erase_FromStartOfViewToCursor b col row p :
  BGeom b -> row < brows b ->
  let v1 := upd_row row (clear_cells 0 (Nat.min (col + 1) (bcols b)) p) (view b) in
  let v' := repeat (blank_line (bcols b) p) row ++ skipn row v1 in
  buf_erase b col row FromStartOfViewToCursor p = Ok (bset b v') /\ BGeom (bset b v').
Proof.
  intros HG Hr v1 v'. pose proof (view_length b HG) as Hvl.
  assert (Hv1l : length v1 = brows b) by (unfold v1; rewrite upd_row_length; exact Hvl).
  assert (Hv1F : Forall (LineInv (bcols b)) v1).
  { unfold v1. apply upd_row_Forall; [|apply view_Forall; exact HG].
    intros l Hl. apply clear_cells_LineInv; [exact Hl|lia|lia]. }
  destruct (bset_ok b v1 HG Hv1l Hv1F) as (HG1 & Hview1 & Hsb1).
  assert (Hstep : with_row b row (line_clearM 0 (Nat.min (col + 1) (bcols b)) p) = Ok (bset b v1)).
  { unfold v1. apply with_row_spec; try assumption. intros l Hl.
    apply (line_clear_spec (bcols b)); [exact Hl|lia|lia]. }
  destruct (buf_clear_spec (bset b v1) 0 row p HG1) as [He HB];
    [lia|rewrite bset_brows; lia|].
  cbv zeta in He, HB. rewrite Hview1, bset_bcols in He, HB.
  assert (Ev : firstn 0 v1 ++ repeat (blank_line (bcols b) p) (row - 0) ++ skipn row v1 = v').
  { unfold v'. rewrite firstn_O, Nat.sub_0_r. reflexivity. }
  rewrite Ev, (bset_bset b v1 v' HG Hv1l) in He, HB.
  split; [|exact HB].
  unfold buf_erase. rewrite Hstep. cbn [bind]. exact He.
Qed.
Print Assumptions buf_erase_FromStartOfViewToCursor.

(** all seven modes at once *)
Theorem buf_erase_spec b col row m p :
  BGeom b -> row < brows b -> col <= bcols b ->
  buf_erase b col row m p = Ok (bset b (erase_view b col row m p))
  /\ BGeom (bset b (erase_view b col row m p)).
Proof.
  intros HG Hr Hc. destruct m as [n| | | | | |]; unfold erase_view; cbv zeta.
  - apply buf_erase_NextChars; assumption.
  - apply buf_erase_FromCursorToEndOfView; assumption.
  - apply buf_erase_FromStartOfViewToCursor; assumption.
  - apply buf_erase_WholeView; assumption.
  - apply buf_erase_FromCursorToEndOfLine; assumption.
  - apply buf_erase_FromStartOfLineToCursor; assumption.
  - apply buf_erase_WholeLine; assumption.
Qed.
Print Assumptions buf_erase_spec.

(** the untouched parts, for any [bset] *)
Theorem bset_frame b v :
  BGeom b -> length v = brows b ->
  firstn (sb_len (bset b v)) (lines (bset b v)) = firstn (sb_len b) (lines b)
  /\ bcols (bset b v) = bcols b /\ brows (bset b v) = brows b
  /\ blimit (bset b v) = blimit b /\ trim_needed (bset b v) = trim_needed b.
Proof.
  intros HG Hv. split; [apply bset_sb; assumption|]. repeat split.
Qed.
Print Assumptions bset_frame.
