(** The tie between the hand-written parser helpers of Model/Parser.v / Model/ParserBase.v ([Parser::clear],
    [Parser::collect], [Parser::param], [Param::clear / add_part / add_digit / as_u16 / parts] of src/parser.rs)
    and the Gallina regenerated from the Rust source on every run (Gen/RestFns.v, by translate/rest2coq.py).

    [x =~ y] (Proofs/BufTie.v) is equality up to the panic SITE: both succeed with the same value, or both
    panic.  The model gives the panic condition of every helper as a boolean [.._ok]; where the model function
    is total but the Rust one can panic ([Param::as_u16], [Param::parts]: indexing the fixed-size array
    [parts]) the theorem states the exact condition under which the Rust function returns the model value.
    All ties are unconditional.  An edit of one of the Rust functions changes Gen/RestFns.v and breaks the
    corresponding proof here (tools/resttie_selftest.sh demonstrates this on mutants). *)

From Coq Require Import Lia ZArith ZifyBool ZifyNat ZifyN.
From Avt Require Import Model.Parser Proofs.ListLemmas Gen.BufFns Proofs.BufTie.
From Avt Require Import Gen.RestFns.
Ltac Zify.zify_post_hook ::= Z.div_mod_to_equations.

Local Arguments Nat.sub : simpl never.
Local Arguments Nat.add : simpl never.
Local Arguments Nat.leb : simpl never.
Local Arguments Nat.ltb : simpl never.
Local Arguments Nat.eqb : simpl never.
Local Arguments Nat.min : simpl never.
Local Arguments N.eqb : simpl never.
Local Arguments N.leb : simpl never.
Local Arguments N.sub : simpl never.
Local Arguments N.add : simpl never.
Local Arguments N.mul : simpl never.
Local Arguments N.modulo : simpl never.

(** the model's [if ok then Ok v else Panic site] *)
Definition okM {A} (ok : bool) (v : A) : res A := if ok then Ok v else Panic 0.

(** * Param *)

Theorem tie_param_clear p : g_param_clear p =~ okM (param_clear_ok p) (param_clear p).
Proof.
  unfold g_param_clear, okM, param_clear_ok, param_clear. destruct p as [c ps]; cbn [cur_part parts].
  change (0 <=? S c) with true. cbn [guard bind].
  cmp_split; done.
Qed.
Print Assumptions tie_param_clear.

Theorem tie_param_add_part p : g_param_add_part p = Ok (param_add_part p).
Proof. reflexivity. Qed.
Print Assumptions tie_param_add_part.

Lemma nthM_nth_error {A} (l : list A) i s x : nth_error l i = Some x -> nthM l i s = Ok x.
Proof. unfold nthM. intros ->. reflexivity. Qed.

Lemma upd_at {A} (l : list A) i (f : A -> A) x : nth_error l i = Some x -> upd i (fun _ => f x) l = upd i f l.
Proof.
  intros E. unfold upd. destruct (skipn i l) as [|y r] eqn:Es; [reflexivity|].
  assert (nth_error (skipn i l) 0 = Some x) as H by (rewrite nth_error_skipn_add, Nat.add_0_r; exact E).
  rewrite Es in H. cbn in H. congruence.
Qed.

Theorem tie_param_add_digit p d :
  g_param_add_digit p d =~ okM (param_add_digit_ok p) (param_add_digit d p).
Proof.
  unfold g_param_add_digit, okM, param_add_digit_ok, param_add_digit. destruct p as [c ps]; cbn [cur_part parts].
  destruct (c <? length ps) eqn:G; cbn [guard bind same]; [|exact I].
  destruct (nthM_some ps c 203 ltac:(lia)) as (x & E & ->). cbn [bind same].
  unfold set; cbn [cur_part parts]. f_equal.
  rewrite <- (upd_at ps c (fun n => Consts.add_digit_gen n d) x E). reflexivity.
Qed.
Print Assumptions tie_param_add_digit.

(** [Param::as_u16] is [self.parts[0]]; the model is the total [hd 0 (parts p)]: equal iff [parts] is not empty
    (it is the array [[u16; 6]]) *)
Theorem tie_param_as_u16 p : g_param_as_u16 p =~ okM (0 <? length (parts p)) (as_u16 p).
Proof.
  unfold g_param_as_u16, okM, as_u16. destruct (parts p) as [|x r]; reflexivity.
Qed.
Print Assumptions tie_param_as_u16.

(** [Param::parts] is [&self.parts[..=self.cur_part]]; the model is the total [firstn (S cur_part) parts] *)
Theorem tie_param_parts p : g_param_parts p =~ okM (cur_part p <? length (parts p)) (pparts p).
Proof.
  unfold g_param_parts, okM, pparts. change (0 <=? S (cur_part p)) with true. cbn [guard bind skipn].
  rewrite Nat.sub_0_r. cmp_split; done.
Qed.
Print Assumptions tie_param_parts.

(** * Parser *)

Lemma mapM_same {A B} (f : A -> res B) (ok : A -> bool) (h : A -> B) l :
  (forall x, f x =~ okM (ok x) (h x)) -> mapM f l =~ okM (forallb ok l) (map h l).
Proof.
  intros Hf. induction l as [|x r IH]; cbn [mapM forallb map]; [reflexivity|].
  specialize (Hf x). unfold okM in *.
  destruct (f x), (ok x); cbn [same] in Hf; try contradiction; cbn [bind andb same]; [subst|exact I].
  destruct (mapM f r), (forallb ok r); cbn [same] in IH; try contradiction; cbn [bind same]; [subst; reflexivity|exact I].
Qed.

Theorem tie_parser_clear p : g_parser_clear p =~ clearM p.
Proof.
  unfold g_parser_clear, clearM, clear_ok, clear. destruct p as [st ps c it]; cbn [pst params cur_param inter].
  change (0 <=? S c) with true. cbn [guard bind]. change (skipn 0 ps) with ps.
  destruct (S c <=? length ps) eqn:G.
  2:{ assert (c <? length ps = false) as -> by lia. exact I. }
  assert (c <? length ps = true) as -> by lia. cbn [guard bind andb]. rewrite Nat.sub_0_r.
  pose proof (mapM_same (fun v_p => v_p0 <- g_param_clear v_p ;; Ok v_p0) param_clear_ok param_clear (firstn (S c) ps)) as H.
  match type of H with ?P -> _ => assert (Hp : P) end.
  { intros x. pose proof (tie_param_clear x) as T. unfold okM in *.
    destruct (g_param_clear x), (param_clear_ok x); cbn [same bind] in *; auto. }
  specialize (H Hp). unfold okM in H.
  destruct (mapM _ (firstn (S c) ps)), (forallb param_clear_ok (firstn (S c) ps)); cbn [same] in H; try contradiction;
    cbn [bind same]; [subst; reflexivity|exact I].
Qed.
Print Assumptions tie_parser_clear.

Theorem tie_parser_collect p c : g_parser_collect p c = Ok (collect p c).
Proof. reflexivity. Qed.
Print Assumptions tie_parser_collect.

Theorem tie_parser_param p c : g_parser_param p c =~ paramM p c.
Proof.
  unfold g_parser_param, paramM, param_ok, param_step, Consts.PARAM_SEP, Consts.PART_SEP, Consts.DIGIT_BASE.
  destruct p as [st ps cp it]; cbn [pst params cur_param inter].
  destruct (N.eqb c 59) eqn:E1; cbn [bind].
  - unfold set; cbn [pst params cur_param inter].
    destruct (cp + 1 =? Consts.PARAMS_LEN) eqn:E2; cbn [bind guard same]; reflexivity.
  - destruct (N.eqb c 58) eqn:E2; cbn [bind].
    + destruct (cp <? length ps) eqn:G; cbn [guard bind same]; [|exact I].
      destruct (nthM_some ps cp 208 ltac:(lia)) as (x & E & ->). cbn [bind same].
      rewrite tie_param_add_part. cbn [bind]. unfold set; cbn [pst params cur_param inter]. f_equal.
      rewrite <- (upd_at ps cp param_add_part x E). reflexivity.
    + destruct (cp <? length ps) eqn:G; cbn [guard bind same andb]; [|exact I].
      destruct (nthM_some ps cp 208 ltac:(lia)) as (x & E & Ex). rewrite E.
      destruct (N.leb 48 (N.modulo c 256)) eqn:G2; cbn [guard bind same andb].
      2:{ rewrite Bool.andb_false_r. exact I. }
      rewrite Bool.andb_true_r, Ex. cbn [bind].
      pose proof (tie_param_add_digit x (N.sub (N.modulo c 256) 48)) as T. unfold okM in T.
      destruct (g_param_add_digit x _), (param_add_digit_ok x); cbn [same] in T; try contradiction; cbn [bind same]; [|exact I].
      subst. unfold set; cbn [pst params cur_param inter]. f_equal.
      rewrite <- (upd_at ps cp (param_add_digit (N.sub (N.modulo c 256) 48)) x E). reflexivity.
Qed.
Print Assumptions tie_parser_param.

(** FINDING (model vs Rust, outside the reachable domain).  [Param::as_u16] and [Param::parts] index the array
    [parts : [u16; 6]]; the model keeps [parts] as a list and uses the total [hd 0] / [firstn].  On a
    (never constructed) [param] whose list is shorter than the array the Rust code panics and the model does
    not; [tie_param_as_u16] / [tie_param_parts] state the exact condition, which every [param] built by the
    model satisfies (Proofs/Inv.v [ParamInv]: [length (parts p) = MAX_PARAM_LEN], [cur_part p < MAX_PARAM_LEN]). *)
Eval vm_compute in (g_param_as_u16 (mkParam 0 []), as_u16 (mkParam 0 [])).
Eval vm_compute in (g_param_parts (mkParam 2 [1; 2]%N), pparts (mkParam 2 [1; 2]%N)).

Example param_model_total_differs :
  is_ok (g_param_as_u16 (mkParam 0 [])) = false /\ as_u16 (mkParam 0 []) = 0%N /\
  is_ok (g_param_parts (mkParam 2 [1; 2]%N)) = false /\ pparts (mkParam 2 [1; 2]%N) = [1; 2]%N.
Proof. repeat split; vm_compute; reflexivity. Qed.
Print Assumptions param_model_total_differs.
