(** resize (public), XTWINOPS, the Resize operation of the Vt layer (leaf of Proofs/TermTieW.v; see Proofs/TermTieW_Core.v for the method) *)
From Coq Require Import Lia ZArith ZifyBool ZifyNat ZifyN.
From Avt Require Import Oracles.Step Proofs.Inv Proofs.TermEasy Gen.TermFns Proofs.TermTie_Core Proofs.InvStep
  Proofs.TermTieW_Core Proofs.TermTieW_Reflow Proofs.TermTieW_ResizeGen.
Ltac Zify.zify_post_hook ::= Z.div_mod_to_equations.
Local Open Scope Z_scope.

Lemma w_resize_eq t c r : ZW t -> (1 <= c)%nat -> (1 <= r)%nat ->
  w_resize Om (zabs t) (wabs t) (Z.of_nat c) (Z.of_nat r)
  = wres_flag (term_resize t c r) (negb ((c =? cols t)%nat && (r =? rows t)%nat)).
Proof. exact (w_resize_eq_gen w_reflow_eq t c r). Qed.


Lemma w_xtwinops_eq t op : ZW t -> w_xtwinops Om (zabs t) (wabs t) op = wres (xtwinops t op).
Proof.
  intros H. unfold w_xtwinops, xtwinops.
  replace (q_xtw Om (wabs t)) with (xtw t) by (destruct t; reflexivity).
  destruct (xtw t); [|destruct t; reflexivity].
  destruct op as [c r]. cbv beta iota zeta.
  change (z_cols (zabs t)) with (Z.of_nat (cols t)). change (z_rows (zabs t)) with (Z.of_nat (rows t)).
  rewrite !g_as_usize_eq. cbn [fst snd].
  rewrite w_resize_eq by (first [ exact H | apply as_usize_pos, H ]).
  unfold wres_flag. destruct (term_resize t _ _); reflexivity.
Qed.

(** the public resize operation of the Vt layer ([Vt::resize(c, r)]) *)
Theorem tie_resize_op : forall v c r, ZW (vterm v) -> (1 <= c)%nat -> (1 <= r)%nat ->
  match w_resize Om (zabs (vterm v)) (wabs (vterm v)) (Z.of_nat c) (Z.of_nat r) with
  | Some (s, w, ok, _) => ok = true /\ stepM v (Resize c r) = vt_flush (v <| vterm := zput s w |>)
  | None => exists e, stepM v (Resize c r) = Panic e
  end.
Proof.
  intros v c r H Hc Hr. rewrite w_resize_eq by assumption. unfold wres_flag. cbn [stepM]. unfold bind.
  destruct (term_resize (vterm v) c r) as [t'|e].
  - split; [reflexivity|]. rewrite zput_zabs_wabs. reflexivity.
  - exists e. reflexivity.
Qed.
Print Assumptions tie_resize_op.
