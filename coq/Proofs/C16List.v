(** C16: [holds_C16_return_list] (Oracles/C16List.v) for every state satisfying the invariant: a return from the alternate
    screen as the FIRST element of a DECRST list, followed by modes that do not switch screens. *)

From Coq Require Import Lia ZArith ZifyBool ZifyNat ZifyN.
From Avt Require Import Oracles.Step Oracles.Rel Oracles.C16Text Oracles.C16List Spec.Logical Spec.Eqb Proofs.Inv Proofs.TermEasy
  Proofs.Frames Proofs.ReflowCore Proofs.Resize Proofs.ReflowText Proofs.ResizeText Proofs.StepC17 Proofs.StepC16
  Proofs.StepC16R Proofs.InvTerm Proofs.InvStep Proofs.C16Text.
Import ListNotations.

Lemma switches_is_switch m : switches m = is_switch m.
Proof. destruct m; reflexivity. Qed.

(** the text conjuncts of [resize_preserves], in the shape of [text_upto] *)
Lemma resize_preserves_text_upto b c r b' c' r' :
  resize_preserves b c r b' c' r' = true ->
  (let '(k, o) := curs b c r in text_upto (logical_t (lines b)) (logical_t (lines b')) k o) = true.
Proof.
  unfold resize_preserves, text_upto, text_at. cbv zeta.
  destruct (curs b c r) as [k o]. destruct (curs b' c' r') as [k' o'].
  intros H.
  apply andb_prop in H as [H H6]. apply andb_prop in H as [H H5]. apply andb_prop in H as [H H4].
  apply andb_prop in H as [H H3]. apply andb_prop in H as [H1 H2].
  rewrite H2, H3, H4, H6. reflexivity.
Qed.

(** the non-switching rest of the list keeps both buffers and the active screen *)
Lemma rest_keeps rest : forall u u',
  forallb (fun x => negb (switches x)) rest = true -> foldM decrst_one rest u = Ok u' ->
  buf u' = buf u /\ active u' = active u.
Proof.
  induction rest as [|m rest IH]; intros u u' Hn H; cbn [foldM] in H.
  - apply Ok_inj in H. subst u'. auto.
  - cbn [forallb] in Hn. apply andb_prop in Hn as [Hm Hn].
    apply bind_ok in H as (u1 & H1 & H).
    rewrite switches_is_switch in Hm. apply Bool.negb_true_iff in Hm.
    apply (decrst_one_pure u m u1 Hm), keepB_inv in H1 as (_ & _ & K3 & _ & K5).
    destruct (IH u1 u' Hn H) as [E1 E2]. split; congruence.
Qed.

Theorem C16_return_list_holds : forall p p' t f t',
  TInv t -> execute t f = Ok t' -> holds_C16_return_list (mkVt p t) f (mkVt p' t') = true.
Proof.
  intros p p' t f t' HT H. unfold holds_C16_return_list. cbn [vterm]. cbv zeta.
  destruct (is_alt_b t) eqn:Ea; [|reflexivity].
  destruct (is_alt_b t') eqn:Ea'; [reflexivity|]. cbn [negb andb].
  assert (Eact : active t = Alternate).
  { unfold is_alt_b in Ea. destruct (active t); [discriminate|reflexivity]. }
  assert (Eact' : active t' = Primary).
  { unfold is_alt_b in Ea'. destruct (active t'); [reflexivity|discriminate]. }
  destruct f; try reflexivity.
  destruct ms as [|m rest]; [reflexivity|].
  destruct (forallb (fun x => negb (switches x)) rest) eqn:Hn; [|reflexivity].
  cbn [execute foldM] in H. apply bind_ok in H as (t1 & H1 & H).
  destruct (rest_keeps rest t1 t' Hn H) as [Eb Ea1]. rewrite Eb.
  rewrite <- exec_decrst_one in H1.
  destruct m; try reflexivity.
  - (* ?47l / ?1047l first *)
    pose proof (decrst_asb_resize t t1 Eact H1) as Hb.
    destruct (resize_return_text _ _ _ _ _ _ _ _ (ti_other t HT) (ti_cols t HT) (ti_rows t HT)
                (ti_row t HT) (ti_col t HT) Hb) as (T1 & _).
    exact T1.
  - (* ?1049l first *)
    unfold saved_of. rewrite Eact. cbn [btype_eqb].
    exact (resize_preserves_text_upto _ _ _ _ _ _ (decrst_scasb_resized t t1 HT Eact H1)).
Qed.

Print Assumptions C16_return_list_holds.
