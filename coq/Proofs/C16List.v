(** C16: [holds_C16_return_list] (Oracles/C16List.v) for every state satisfying the invariant: a return from the alternate
    screen as the FIRST element of a DECRST list, followed by modes that do not switch screens. *)

From Coq Require Import Lia ZArith ZifyBool ZifyNat ZifyN.
From Avt Require Import Oracles.Step Oracles.Rel Oracles.C16Text Oracles.C16List Spec.Logical Spec.Eqb Proofs.Inv Proofs.TermEasy
  Proofs.Frames Proofs.ReflowCore Proofs.Resize Proofs.ReflowText Proofs.ResizeText Proofs.StepC17 Proofs.StepC16
  Proofs.StepC16R Proofs.InvTerm Proofs.InvStep Proofs.C16Text.
Import ListNotations.

Lemma switches_is_switch m : switches m = is_switch m.
Proof. destruct m; reflexivity. Qed.

(** the text conjuncts of [resize_preserves], in the shape of [text_upto] *)
Lemma resize_preserves_text_upto b c r b' c' r' :
  resize_preserves b c r b' c' r' = true ->
  (let '(k, o) := curs b c r in text_upto (logical_t (lines b)) (logical_t (lines b')) k o) = true.
Proof.
  unfold resize_preserves, text_upto, text_at. cbv zeta.
  destruct (curs b c r) as [k o]. destruct (curs b' c' r') as [k' o'].
  intros H.
  apply andb_prop in H as [H H6]. apply andb_prop in H as [H H5]. apply andb_prop in H as [H H4].
  apply andb_prop in H as [H H3]. apply andb_prop in H as [H1 H2].
  rewrite H2, H3, H4, H6. reflexivity.
Qed.

(** the non-switching rest of the list keeps both buffers and the active screen *)
Lemma rest_keeps rest : forall u u',
  forallb (fun x => negb (switches x)) rest = true -> foldM decrst_one rest u = Ok u' ->
  buf u' = buf u /\ active u' = active u.
Proof.
  induction rest as [|m rest IH]; intros u u' Hn H; cbn [foldM] in H.
  - apply Ok_inj in H. subst u'. auto.
  - cbn [forallb] in Hn. apply andb_prop in Hn as [Hm Hn].
    apply bind_ok in H as (u1 & H1 & H).
    rewrite switches_is_switch in Hm. apply Bool.negb_true_iff in Hm.
    apply (decrst_one_pure u m u1 Hm), keepB_inv in H1 as (_ & _ & K3 & _ & K5).
    destruct (IH u1 u' Hn H) as [E1 E2]. split; congruence.
Qed.

Theorem C16_return_list_holds : forall p p' t f t',
  TInv t -> execute t f = Ok t' -> holds_C16_return_list (mkVt p t) f (mkVt p' t') = true.
Proof.
  intros p p' t f t' HT H. unfold holds_C16_return_list. cbn [vterm]. cbv zeta.
  destruct (is_alt_b t) eqn:Ea; [|reflexivity].
  destruct (is_alt_b t') eqn:Ea'; [reflexivity|]. cbn [negb andb].
  assert (Eact : active t = Alternate).
  { unfold is_alt_b in Ea. destruct (active t); [discriminate|reflexivity]. }
  assert (Eact' : active t' = Primary).
  { unfold is_alt_b in Ea'. destruct (active t'); [reflexivity|discriminate]. }
  destruct f; try reflexivity.
  destruct ms as [|m rest]; [reflexivity|].
  destruct (forallb (fun x => negb (switches x)) rest) eqn:Hn; [|reflexivity].
  cbn [execute foldM] in H. apply bind_ok in H as (t1 & H1 & H).
  destruct (rest_keeps rest t1 t' Hn H) as [Eb Ea1]. rewrite Eb.
  rewrite <- exec_decrst_one in H1.
  destruct m; try reflexivity.
  - (* ?47l / ?1047l first *)
    pose proof (decrst_asb_resize t t1 Eact H1) as Hb.
    destruct (resize_return_text _ _ _ _ _ _ _ _ (ti_other t HT) (ti_cols t HT) (ti_rows t HT)
                (ti_row t HT) (ti_col t HT) Hb) as (T1 & _).
    exact T1.
  - (* ?1049l first *)
    unfold saved_of. rewrite Eact. cbn [btype_eqb].
    exact (resize_preserves_text_upto _ _ _ _ _ _ (decrst_scasb_resized t t1 HT Eact H1)).
Qed.

Print Assumptions C16_return_list_holds.

(** * A leaving mode in any position of the list *)

Lemma foldM_app' {A B} (f : A -> B -> res A) (l1 l2 : list B) (a : A) :
  foldM f (l1 ++ l2) a = (a' <- foldM f l1 a ;; foldM f l2 a').
Proof.
  revert a. induction l1 as [|x l1 IH]; intros a; cbn [app foldM bind]; [reflexivity|].
  destruct (f a x) as [a1|s]; cbn [bind]; [apply IH|reflexivity].
Qed.

Lemma decrst_one_TInv' t m t' : TInv t -> decrst_one t m = Ok t' -> TInv t'.
Proof.
  intros HT H. destruct (execute_ok t (Decrst [m]) HT) as (t2 & E & HT2).
  rewrite exec_decrst_one, H in E. apply Ok_inj in E as ->. exact HT2.
Qed.

Lemma split_switch_spec ms : forall a m b,
  split_switch ms = Some (a, m, b) ->
  ms = a ++ m :: b /\ forallb (fun x => negb (switches x)) a = true /\ switches m = true.
Proof.
  induction ms as [|x ms IH]; intros a m b H; cbn [split_switch] in H; [discriminate|].
  destruct (switches x) eqn:Ex.
  - injection H as <- <- <-. cbn. auto.
  - destruct (split_switch ms) as [[[a' x'] b']|] eqn:E; [|discriminate].
    injection H as <- <- <-. destruct (IH a' x' b' eq_refl) as (-> & Ha & Hm).
    cbn [app forallb]. rewrite Ex, Ha. auto.
Qed.

(** a non-switching prefix keeps the invariant, both buffers and the active screen *)
Lemma prefix_keeps ms : forall u u',
  forallb (fun x => negb (switches x)) ms = true -> TInv u -> foldM decrst_one ms u = Ok u' ->
  TInv u' /\ buf u' = buf u /\ other u' = other u /\ active u' = active u.
Proof.
  induction ms as [|m ms IH]; intros u u' Hn HT H; cbn [foldM] in H.
  - apply Ok_inj in H. subst u'. auto.
  - cbn [forallb] in Hn. apply andb_prop in Hn as [Hm Hn].
    apply bind_ok in H as (u1 & H1 & H).
    pose proof (decrst_one_TInv' u m u1 HT H1) as HT1.
    rewrite switches_is_switch in Hm. apply Bool.negb_true_iff in Hm.
    apply (decrst_one_pure u m u1 Hm), keepB_inv in H1 as (_ & _ & K3 & K4 & K5).
    destruct (IH u1 u' Hn HT1 H) as (I & E1 & E2 & E3). split; [exact I|]. split; [congruence|]. split; congruence.
Qed.

Theorem C16_return_list_any_holds : forall p p' t f t',
  TInv t -> execute t f = Ok t' -> holds_C16_return_list_any (mkVt p t) f (mkVt p' t') = true.
Proof.
  intros p p' t f t' HT H. unfold holds_C16_return_list_any. cbn [vterm]. cbv zeta.
  destruct (is_alt_b t) eqn:Ea; [|reflexivity].
  destruct (is_alt_b t') eqn:Ea'; [reflexivity|]. cbn [negb andb].
  assert (Eact : active t = Alternate).
  { unfold is_alt_b in Ea. destruct (active t); [discriminate|reflexivity]. }
  destruct f; try reflexivity.
  destruct (split_switch ms) as [[[a m] b]|] eqn:Es; [|reflexivity].
  destruct (forallb (fun x => negb (switches x)) b) eqn:Hn; [|reflexivity].
  destruct (split_switch_spec ms a m b Es) as (-> & Ha & Hm).
  cbn [execute] in H. rewrite foldM_app' in H. apply bind_ok in H as (u & Hu & H).
  rewrite Hu.
  destruct (prefix_keeps a t u Ha HT Hu) as (HTu & Eb & Eo & Eau).
  cbn [foldM] in H. apply bind_ok in H as (t1 & H1 & H).
  destruct (rest_keeps b t1 t' Hn H) as [Eb' _]. rewrite Eb'.
  rewrite <- exec_decrst_one in H1. rewrite Eact in Eau.
  destruct m; try reflexivity.
  - pose proof (decrst_asb_resize u t1 Eau H1) as Hb.
    destruct (resize_return_text _ _ _ _ _ _ _ _ (ti_other u HTu) (ti_cols u HTu) (ti_rows u HTu)
                (ti_row u HTu) (ti_col u HTu) Hb) as (T1 & _).
    rewrite Eo in T1. exact T1.
  - unfold saved_of. rewrite Eau. cbn [btype_eqb].
    pose proof (resize_preserves_text_upto _ _ _ _ _ _ (decrst_scasb_resized u t1 HTu Eau H1)) as T.
    rewrite Eo in T. exact T.
Qed.

Print Assumptions C16_return_list_any_holds.
