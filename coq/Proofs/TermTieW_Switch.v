(** save / restore cursor, the two buffer switches, SC RC RIS DECSTR (leaf of Proofs/TermTieW.v; see Proofs/TermTieW_Core.v for the method) *)
From Coq Require Import Lia ZArith ZifyBool ZifyNat ZifyN.
From Avt Require Import Oracles.Step Proofs.Inv Proofs.TermEasy Gen.TermFns Proofs.TermTie_Core Proofs.InvStep
  Proofs.TermTieW_Core.
Ltac Zify.zify_post_hook ::= Z.div_mod_to_equations.
Local Open Scope Z_scope.

Lemma w_save_cursor_eq t : ZW t -> w_save_cursor Om (zabs t) (wabs t) = wres (Ok (save_cursor t)).
Proof. intros H. w_tie t H. Qed.

Lemma w_restore_cursor_eq t : ZW t -> w_restore_cursor Om (zabs t) (wabs t) = wres (Ok (restore_cursor t)).
Proof. intros H. w_tie t H. Qed.

Lemma w_switch_to_alternate_buffer_eq t : ZW t ->
  w_switch_to_alternate_buffer Om (zabs t) (wabs t) = wres (switch_to_alternate_buffer t).
Proof. intros H. w_tie t H. Qed.

Lemma w_switch_to_primary_buffer_eq t : ZW t ->
  w_switch_to_primary_buffer Om (zabs t) (wabs t) = wres (switch_to_primary_buffer t).
Proof. intros H. w_tie t H. Qed.


Lemma w_sc_eq t : ZW t -> w_sc Om (zabs t) (wabs t) = wres (Ok (save_cursor t)).
Proof. intros H. unfold w_sc. rewrite w_save_cursor_eq by exact H. reflexivity. Qed.
Lemma w_rc_eq t : ZW t -> w_rc Om (zabs t) (wabs t) = wres (Ok (restore_cursor t)).
Proof. intros H. unfold w_rc. rewrite w_restore_cursor_eq by exact H. reflexivity. Qed.
Lemma w_ris_eq t : w_ris Om (zabs t) (wabs t) = wres (Ok (hard_reset_gen t)).
Proof. unfold w_ris. full_steps. Qed.
Lemma w_decstr_eq t : w_decstr Om (zabs t) (wabs t) = wres (Ok (soft_reset_gen t)).
Proof. unfold w_decstr. full_steps. Qed.

