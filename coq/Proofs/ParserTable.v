(** C03.1: the regenerated [Parser::feed] arm list, interpreted first-match, is Paul
    Williams' table ([Spec/Williams.v]) on every (state, character) pair -- all 14 states,
    all of [N] (hence all 1,112,064 scalar values). *)

From Avt Require Import Model.Parser Spec.Williams.
Local Open Scope N_scope.

(** what an arm's action list does, seen as a transition *)
Fixpoint acts_next (s : pstate) (acts : list act) : pstate :=
  match acts with
  | [] => s
  | ASetState s' :: r => acts_next s' r
  | _ :: r => acts_next s r
  end.

Fixpoint acts_kind (acts : list act) : akind :=
  match acts with
  | [] => KIgnore
  | ARetPrint :: _ => KPrint
  | ARetExecute :: _ => KExecute
  | ARetCsi :: _ => KCsiDispatch
  | ARetEsc :: _ => KEscDispatch
  | ACollect :: _ => KCollect
  | AParam :: _ => KParam
  | APut :: _ => KPut
  | AOscPut :: _ => KOscPut
  | _ :: r => acts_kind r
  end.

Definition acts_clear (acts : list act) : bool :=
  existsb (fun a => match a with AClear => true | _ => false end) acts.

(** every arm has at most one effectful action besides state changes and [clear], and it
    comes last: the (next, kind, clear) triple therefore describes the arm completely *)
Definition acts_wf (acts : list act) : bool :=
  match acts with
  | [] | [ASetState _] | [ASetState _; AClear]
  | [ARetPrint] | [ARetExecute] | [AParam] | [ACollect] | [APut] | [AOscPut]
  | [ASetState _; ARetExecute] | [ASetState _; ARetCsi] | [ASetState _; ARetEsc]
  | [ASetState _; AParam] | [ASetState _; ACollect] => true
  | _ => false
  end.

Definition trans_model (s : pstate) (c : N) : trans :=
  let acts := find_arm s (input2 c) feed_arms in
  mkTrans (acts_next s acts) (acts_kind acts) (acts_clear acts).

Definition table_row_ok (s : pstate) (c : N) : bool :=
  trans_eqb (trans_model s c) (williams s c) && acts_wf (find_arm s (input2 c) feed_arms).

(** the finite part: all 14 states x code points 0..160 *)
Definition codes_upto (n : nat) : list N := map N.of_nat (seq 0 n).

Lemma table_finite :
  forallb (fun s => forallb (table_row_ok s) (codes_upto 161)) all_pstates = true.
Proof. vm_compute. reflexivity. Qed.

Lemma all_pstates_complete s : In s all_pstates.
Proof. destruct s; cbn; tauto. Qed.

Lemma codes_upto_complete n c : (c < N.of_nat n) -> In c (codes_upto n).
Proof.
  intros H. unfold codes_upto. apply in_map_iff. exists (N.to_nat c). split.
  - apply N2Nat.id.
  - apply in_seq. lia.
Qed.

Lemma input2_high c : 160 <= c -> input2 c = input2 160.
Proof.
  intros H. unfold input2, hi_threshold, hi_subst.
  destruct (N.leb_spec 160 c); [|lia]. reflexivity.
Qed.

Lemma fold_high_high c : 160 <= c -> fold_high c = fold_high 160.
Proof. intros H. unfold fold_high. destruct (N.leb_spec 160 c); [|lia]. reflexivity. Qed.

Lemma table_row_ok_all s c : table_row_ok s c = true.
Proof.
  destruct (N.lt_ge_cases c 161) as [H|H].
  - pose proof table_finite as F. rewrite forallb_forall in F.
    specialize (F s (all_pstates_complete s)). rewrite forallb_forall in F.
    apply F. apply codes_upto_complete. cbn. lia.
  - assert (Hc : 160 <= c) by lia.
    unfold table_row_ok, trans_model, williams. rewrite (input2_high c Hc), (fold_high_high c Hc).
    pose proof table_finite as F. rewrite forallb_forall in F.
    specialize (F s (all_pstates_complete s)). rewrite forallb_forall in F.
    apply (F 160). apply codes_upto_complete. cbn. lia.
Qed.

Lemma trans_eqb_eq a b : trans_eqb a b = true -> a = b.
Proof.
  destruct a as [n1 k1 c1], b as [n2 k2 c2]. unfold trans_eqb; cbn.
  intros H. apply andb_prop in H as [H Hc]. apply andb_prop in H as [Hn Hk].
  apply Bool.eqb_prop in Hc. destruct n1, n2; try discriminate; destruct k1, k2; try discriminate;
  subst; reflexivity.
Qed.

Theorem parser_table_is_williams : forall s c, trans_model s c = williams s c.
Proof.
  intros s c. pose proof (table_row_ok_all s c) as H. unfold table_row_ok in H.
  apply andb_prop in H as [H _]. now apply trans_eqb_eq.
Qed.

Theorem parser_arms_wf : forall s c, acts_wf (find_arm s (input2 c) feed_arms) = true.
Proof.
  intros s c. pose proof (table_row_ok_all s c) as H. unfold table_row_ok in H.
  now apply andb_prop in H as [_ H].
Qed.
