(** reflow and resize with the regenerated interface (leaf of Proofs/TermTieClosed.v) *)
From Coq Require Import Lia ZArith ZifyBool ZifyNat ZifyN.
From Avt Require Import Oracles.Step Proofs.Inv Proofs.TermEasy Gen.TermFns Proofs.TermTie_Core Proofs.InvStep
  Proofs.TermTieW_Core Proofs.TermTieClosed_Core.
From Avt Require Import Gen.BufFns Proofs.BufTie Gen.SgrFns Proofs.SgrTie.
From Avt Require Gen.RestFns Proofs.RestTie.
Ltac Zify.zify_post_hook ::= Z.div_mod_to_equations.
Local Open Scope Z_scope.

Lemma c_reflow t : w_reflow Og (zabs t) (wabs t) = w_reflow Om (zabs t) (wabs t).
Proof. lock_t t. Qed.


Lemma c_resize t c r :
  w_resize Og (zabs t) (wabs t) (Z.of_nat c) (Z.of_nat r) = w_resize Om (zabs t) (wabs t) (Z.of_nat c) (Z.of_nat r).
Proof. lock_t t. Qed.

