(** C03.3: the dispatch tables regenerated from the source are the hand-written function
    table of [Spec/Functions.v], for every private marker / intermediate, every final byte
    (all of N) and every parameter array. *)

From Avt Require Import Model.Parser Spec.Functions.
Local Open Scope N_scope.

Ltac eqb_chain x :=
  repeat match goal with
         | |- context [N.eqb x ?k] => destruct (N.eqb_spec x k); [subst x; try reflexivity|]
         end.

Theorem execute_table : forall c, execute_gen c = execute_spec c.
Proof. intros c. unfold execute_gen, execute_spec, c0c1_table, assoc_N. eqb_chain c. reflexivity. Qed.

Theorem ansi_mode_table : forall v, ansi_mode_gen v = ansi_mode_spec v.
Proof. intros v. unfold ansi_mode_gen, ansi_mode_spec, assoc_N. eqb_chain v. reflexivity. Qed.

Theorem dec_mode_table : forall v, dec_mode_gen v = dec_mode_spec v.
Proof. intros v. unfold dec_mode_gen, dec_mode_spec, assoc_N. eqb_chain v. reflexivity. Qed.

Lemma filter_map_ext {A B} (f g : A -> option B) l : (forall x, f x = g x) -> filter_map f l = filter_map g l.
Proof. intros H. induction l as [|x l IH]; cbn; [reflexivity|]. now rewrite H, IH. Qed.

Lemma pu16_single q : pu16 [q] 0 = as_u16 q.
Proof. reflexivity. Qed.

Theorem csi_table : forall inter fin ps cp, csi_dispatch_gen inter fin ps cp = csi_spec ps cp inter fin.
Proof.
  intros inter fin ps cp. unfold csi_dispatch_gen, csi_spec.
  destruct inter as [i|].
  - (* a private marker or intermediate was collected *)
    cbn [opt_is_none opt_is andb].
    destruct (N.eqb_spec i 33) as [->|H33].
    + cbn [N.eqb Pos.eqb andb]. destruct (N.eqb_spec fin 112); reflexivity.
    + destruct (N.eqb_spec i 63) as [->|H63].
      * cbn [N.eqb Pos.eqb andb].
        destruct (N.eqb_spec fin 104); [f_equal; f_equal; apply filter_map_ext; intros q; rewrite pu16_single; apply dec_mode_table|].
        destruct (N.eqb_spec fin 108); [f_equal; f_equal; apply filter_map_ext; intros q; rewrite pu16_single; apply dec_mode_table|].
        reflexivity.
      * cbn [andb]. reflexivity.
  - cbn [opt_is_none opt_is andb]. unfold csi_plain, assoc_N, ed_spec, el_spec, ctc_spec, tbc_spec, xtwinops_spec.
    repeat match goal with
           | |- context [N.eqb fin ?k] =>
             destruct (N.eqb_spec fin k);
             [subst fin; cbn [N.eqb Pos.eqb];
              try reflexivity;
              try (f_equal; f_equal; apply filter_map_ext; intros q; rewrite pu16_single; apply ansi_mode_table);
              try (unfold assoc_N; eqb_chain (pu16 ps 0); reflexivity)|]
           end.
    reflexivity.
Qed.

Theorem esc_table : forall inter fin, snd (esc_dispatch_gen inter fin) = esc_spec inter fin
                                      /\ (fst (esc_dispatch_gen inter fin) = None \/ fst (esc_dispatch_gen inter fin) = Some Ground).
Proof.
  intros inter fin. unfold esc_dispatch_gen, esc_spec.
  destruct inter as [i|]; cbn [opt_is_none opt_is andb].
  - destruct (N.eqb_spec i 35) as [->|]; cbn [N.eqb Pos.eqb andb].
    + destruct (N.eqb_spec fin 56); cbn; auto.
    + destruct (N.eqb_spec i 40) as [->|]; cbn [N.eqb Pos.eqb andb].
      * destruct (N.eqb_spec fin 48); cbn; auto.
      * destruct (N.eqb_spec i 41) as [->|]; cbn [N.eqb Pos.eqb andb].
        -- destruct (N.eqb_spec fin 48); cbn; auto.
        -- cbn; auto.
  - destruct ((64 <=? fin) && (fin <=? 95)) eqn:E; cbn [fst snd].
    + split; [|auto]. rewrite execute_table. f_equal.
      apply andb_prop in E as [E1 E2]. apply N.leb_le in E1, E2.
      rewrite N.mod_small by lia. reflexivity.
    + destruct (N.eqb_spec fin 55); [cbn; auto|].
      destruct (N.eqb_spec fin 56); [cbn; auto|].
      destruct (N.eqb_spec fin 99); cbn; auto.
Qed.
