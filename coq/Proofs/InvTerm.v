(** C01 ("never panics") and C02 ("geometry invariants hold after every call"):
    [TInv] (Proofs/Inv.v) is inductive - established by [term_new_gen], kept by [execute]
    (modulo [print], proved elsewhere and taken as a hypothesis), by [term_resize], by
    [changes] and by [term_gc] - and no control function panics under it.
    Also the scrollback-limit invariant [LimInv] of both buffers (for C13). *)

From Avt Require Import Model.Prims Model.Terminal Model.Vt Spec.Screen Proofs.Inv Proofs.ListLemmasS
  Proofs.BufRow Proofs.BufScroll Proofs.Tabs Proofs.TermEasy Proofs.Resize
  Proofs.InvLemmas Proofs.InvCtl.
From Avt Require Import Gen.Consts.
Require Import Lia ZArith ZifyBool ZifyNat ZifyN.
Ltac Zify.zify_post_hook ::= Z.div_mod_to_equations.

(** unfold record updates and reduce projections only (never arithmetic) *)
Ltac rsimp :=
  cbn [set cols rows buf other active sb_limit cur_col cur_row cur_vis tpen cs0 cs1 acs tabs ins org
       awm nlm ckm pend top bot sctx asctx dirty xtw sc_col sc_row sc_pen sc_origin sc_awm
       lines bcols brows blimit trim_needed].
Ltac rsimp_in H :=
  cbn [set cols rows buf other active sb_limit cur_col cur_row cur_vis tpen cs0 cs1 acs tabs ins org
       awm nlm ckm pend top bot sctx asctx dirty xtw sc_col sc_row sc_pen sc_origin sc_awm
       lines bcols brows blimit trim_needed] in H.

(** * fresh buffers, fresh terminals *)

Lemma buffer_new_BInv c r l p : 1 <= c -> 1 <= r -> BInv (buffer_new c r l p).
Proof.
  intros Hc Hr. unfold buffer_new. split; [repeat split|]; cbn [lines bcols brows]; try lia.
  - rewrite repeat_length. lia.
  - apply Forall_repeat_S, blank_line_LineInv.
  - apply (lnw_repeat_blank []). lia.
Qed.

Theorem term_new_TInv : forall c r l, 1 <= c -> 1 <= r -> TInv (term_new_gen c r l).
Proof.
  intros c r l Hc Hr. unfold term_new_gen. constructor; rsimp; try lia; try reflexivity.
  - apply buffer_new_BInv; assumption.
  - apply buffer_new_BInv; assumption.
  - unfold dirty_new. apply repeat_length.
  - apply tabs_new_inv.
  - unfold default_ctx, CtxInv. cbn [sc_col sc_row]. lia.
  - split; reflexivity.
Qed.

Print Assumptions term_new_TInv.

Lemma term_new_Lim2 c r l : Lim2 (term_new_gen c r l).
Proof. unfold term_new_gen, Lim2. rsimp. split; apply LimInv_new. Qed.

Lemma hard_reset_TInv t : TInv t -> TInv (hard_reset_gen t) /\ LimP t (hard_reset_gen t).
Proof.
  intros H. rewrite (hard_reset_is_new t (ti_xtw _ H)). split.
  - apply term_new_TInv; apply H.
  - intros _. apply term_new_Lim2.
Qed.

(** * [reflow] *)

(** what [reflow] needs: [TInv] without the clauses it re-establishes itself (buffer geometry
    equal to the terminal geometry, cursor inside, saved context inside, dirty length) *)
Record RInv (t : term) : Prop := mkRInv {
  ri_cols : 1 <= cols t;
  ri_rows : 1 <= rows t;
  ri_buf : BInv (buf t);
  ri_other : BInv (other t);
  ri_cur : cols t = bcols (buf t) ->
           cur_row t < Nat.max (brows (buf t)) (rows t) /\ cur_col t <= cols t
           /\ (pend t = true <-> cur_col t = cols t);
  ri_margins : top t <= bot t /\ bot t < rows t;
  ri_acs : acs t <= 1;
  ri_tabs : TabsInv (cols t) (tabs t);
  ri_xtw : xtw t = false;
  ri_limit : match active t with
             | Primary => blimit (buf t) = limit_of (sb_limit t) /\ blimit (other t) = limit_of (Some 0%N)
             | Alternate => blimit (buf t) = limit_of (Some 0%N) /\ blimit (other t) = limit_of (sb_limit t)
             end;
  ri_parked : match active t with
              | Primary => True
              | Alternate => CtxInv (bcols (other t)) (brows (other t)) (asctx t)
              end
}.

Lemma TInv_RInv t : TInv t -> RInv t.
Proof.
  intros H. tfacts H. destruct H. constructor; try assumption.
  intros _. split; [lia|]. split; assumption.
Qed.

Definition reflow_fin (t : term) : term :=
  let t := if cols t <=? sc_col (sctx t) then t <| sctx := (sctx t) <| sc_col := cols t - 1 |> |> else t in
  let t := if rows t <=? sc_row (sctx t) then t <| sctx := (sctx t) <| sc_row := rows t - 1 |> |> else t in
  t.

Definition reflow_mid (t : term) (b : buffer) (c r : nat) : term :=
  let t := if negb (cols t =? bcols (buf t)) then t <| pend := false |> else t in
  let t := t <| buf := b |> <| cur_col := c |> <| cur_row := r |> in
  t <| dirty := dirty_resize (dirty t) (rows t) |>.

Definition reflow_result (t : term) (b : buffer) (c r : nat) : term :=
  let t := reflow_mid t b c r in
  reflow_fin (t <| dirty := fill_range 0 (rows t) true (dirty t) |>).

Lemma dirty_resize_length d n : length (dirty_resize d n) = n.
Proof. unfold dirty_resize. rewrite app_length, firstn_length, repeat_length. lia. Qed.

Lemma mark_range_full t :
  length (dirty t) = rows t ->
  mark_range t 0 (rows t) = Ok (t <| dirty := fill_range 0 (rows t) true (dirty t) |>).
Proof.
  intros L. unfold mark_range, dirty_extend. rewrite L, Nat.leb_refl. reflexivity.
Qed.

Definition reflow_k (t : term) (b : buffer) (c r : nat) : res term :=
  let t := t <| buf := b |> <| cur_col := c |> <| cur_row := r |> in
  let t := t <| dirty := dirty_resize (dirty t) (rows t) |> in
  t <- mark_range t 0 (rows t) ;;
  let t := if cols t <=? sc_col (sctx t) then t <| sctx := (sctx t) <| sc_col := cols t - 1 |> |> else t in
  let t := if rows t <=? sc_row (sctx t) then t <| sctx := (sctx t) <| sc_row := rows t - 1 |> |> else t in
  Ok t.

Lemma reflow_unfold t :
  reflow t =
  (x <- buf_resize (buf t) (cols t) (rows t) (cur_col t) (cur_row t) ;;
   let '(b, (c, r)) := x in
   reflow_k (if negb (cols t =? bcols (buf t)) then t <| pend := false |> else t) b c r).
Proof.
  unfold reflow, reflow_k. destruct (negb (cols t =? bcols (buf t))).
  - change (buf (t <| pend := false |>)) with (buf t).
    change (cols (t <| pend := false |>)) with (cols t).
    change (rows (t <| pend := false |>)) with (rows t).
    change (cur_col (t <| pend := false |>)) with (cur_col t).
    change (cur_row (t <| pend := false |>)) with (cur_row t).
    reflexivity.
  - reflexivity.
Qed.

Lemma reflow_eq t b c r :
  buf_resize (buf t) (cols t) (rows t) (cur_col t) (cur_row t) = Ok (b, (c, r)) ->
  reflow t = Ok (reflow_result t b c r).
Proof.
  intros E. rewrite reflow_unfold, E. cbn [bind]. unfold reflow_k, reflow_result, reflow_mid, reflow_fin.
  cbv zeta. rewrite mark_range_full by apply dirty_resize_length. cbn [bind]. reflexivity.
Qed.

Lemma reflow_fin_eq t :
  exists sc, reflow_fin t = t <| sctx := sc |>
             /\ (1 <= cols t -> 1 <= rows t -> CtxInv (cols t) (rows t) sc).
Proof.
  unfold reflow_fin, CtxInv. destruct t. rsimp.
  match goal with |- context [?c <=? sc_col ?s] => destruct (Nat.leb_spec c (sc_col s)) end; rsimp;
    match goal with |- context [?r <=? sc_row ?s] => destruct (Nat.leb_spec r (sc_row s)) end;
    eexists; (split; [reflexivity|]); rsimp; lia.
Qed.

Lemma reflow_result_TInv t b c r :
  RInv t ->
  BInv b -> bcols b = cols t -> brows b = rows t -> blimit b = blimit (buf t) ->
  trim_needed b = true -> r < rows t ->
  (cols t <> bcols (buf t) -> c < cols t) -> (cols t = bcols (buf t) -> c = cur_col t) ->
  TInv (reflow_result t b c r) /\ LimP t (reflow_result t b c r)
  /\ cols (reflow_result t b c r) = cols t /\ rows (reflow_result t b c r) = rows t.
Proof.
  intros H Ib Cb Rb Lb Tb Hr Hne Heq. pose proof H as [].
  unfold reflow_result. cbv zeta.
  match goal with |- context [reflow_fin ?x] => destruct (reflow_fin_eq x) as (sc & -> & Hsc) end.
  unfold reflow_mid in *.
  destruct (Nat.eqb_spec (cols t) (bcols (buf t))) as [e|e]; cbn [negb] in *; rsimp_in Hsc;
    (split; [|split; [|split; reflexivity]]).
  - specialize (Heq e). specialize (ri_cur0 e). subst c.
    constructor; rsimp; try assumption; try lia; try tauto;
      try (apply Hsc; assumption);
      try (destruct (active t); rewrite Lb; assumption);
      try (rewrite ListLemmas.fill_range_length; rewrite ?dirty_resize_length; lia).
  - intros [_ Ho]. unfold Lim2. rsimp. split; [apply LimInv_trim, Tb|exact Ho].
  - specialize (Hne e).
    constructor; rsimp; try assumption; try lia; try tauto;
      try (apply Hsc; assumption);
      try (destruct (active t); rewrite Lb; assumption);
      try (rewrite ListLemmas.fill_range_length; rewrite ?dirty_resize_length; lia).
  - intros [_ Ho]. unfold Lim2. rsimp. split; [apply LimInv_trim, Tb|exact Ho].
Qed.

Theorem reflow_TInv' t :
  RInv t ->
  exists t', reflow t = Ok t' /\ TInv t' /\ LimP t t' /\ cols t' = cols t /\ rows t' = rows t.
Proof.
  intros H. pose proof H as [].
  destruct (buf_resize_ok' (buf t) (cols t) (rows t) (cur_col t) (cur_row t) ri_buf0 ri_cols0 ri_rows0)
    as (b & c & r & E & Ib & Cb & Rb & Lb & Tb & Hr & Hne & Heq).
  { intros e. apply ri_cur0, e. }
  exists (reflow_result t b c r). split; [apply reflow_eq, E|].
  apply reflow_result_TInv; assumption.
Qed.

Theorem reflow_TInv t : TInv t -> exists t', reflow t = Ok t' /\ TInv t' /\ LimP t t'.
Proof.
  intros H. destruct (reflow_TInv' t (TInv_RInv t H)) as (t' & E & I & P & _). eauto.
Qed.

(** * [term_resize] *)

Theorem term_resize_TInvP t c r :
  TInv t -> 1 <= c -> 1 <= r ->
  exists t', term_resize t c r = Ok t' /\ TInv t' /\ LimP t t' /\ cols t' = c /\ rows t' = r.
Proof.
  intros H Hc Hr. tfacts H. unfold term_resize.
  assert (K : forall t0, RInv t0 -> cols t0 = c -> rows t0 = r -> buf t0 = buf t -> other t0 = other t ->
              exists t', reflow t0 = Ok t' /\ TInv t' /\ LimP t t' /\ cols t' = c /\ rows t' = r).
  { intros t0 R0 C0 Ro0 B0 O0.
    destruct (reflow_TInv' t0 R0) as (t' & E & I & P & C' & R').
    exists t'. split; [exact E|]. split; [exact I|]. split; [|lia].
    intros L. apply P. destruct L as [L1 L2]. split; [rewrite B0|rewrite O0]; assumption. }
  pose proof (ti_tabs _ H) as Ht. pose proof H as [].
  destruct (Nat.compare_spec c (cols t)) as [ec|ec|ec]; rsimp;
    destruct (Nat.compare_spec r (rows t)) as [er|er|er];
    (apply K; [|reflexivity|reflexivity|reflexivity|reflexivity]);
    constructor; rsimp; try assumption; try lia;
    try (intros e; lia);
    try (intros e; split; [lia|split; [lia|]]; rewrite ec; exact Hpend);
    try (apply tabs_contract_inv with (c := cols t); assumption);
    try (apply tabs_expand_inv; [assumption|lia|assumption]);
    try (subst c; assumption).
Qed.

Theorem term_resize_TInv : forall t c r,
  TInv t -> 1 <= c -> 1 <= r ->
  exists t', term_resize t c r = Ok t' /\ TInv t' /\ cols t' = c /\ rows t' = r.
Proof.
  intros t c r H Hc Hr. destruct (term_resize_TInvP t c r H Hc Hr) as (t' & E & I & _ & C & R).
  eauto.
Qed.

Print Assumptions term_resize_TInv.

Lemma xtwinops_TInv t op : TInv t -> exists t', xtwinops t op = Ok t' /\ TInv t' /\ LimP t t'.
Proof.
  intros H. unfold xtwinops. rewrite (ti_xtw _ H). exists t. split; [reflexivity|].
  split; [exact H|apply LimP_refl].
Qed.

(** * buffer switching: the result is ready for [reflow] (not yet [TInv]: the re-activated
      buffer may have a stale geometry, the swapped-in saved context may lie outside).

    The two switch helpers alone do NOT keep [TInv]; only [decset_one]/[decrst_one], which
    always run [reflow] right after, do.  Checked with [Eval vm_compute]:
      t := term_new_gen 10 5 None; DECSET 1047; CUP 5 10; DECSC; DECRST 1047; term_resize 5 3
    satisfies [TInv] (Primary, 5x3, asctx = (9,4) - no clause constrains [asctx] while the
    primary screen is active), but [switch_to_alternate_buffer t] has sctx = (9,4), outside
    5x3 ([ti_sctx] fails); the following [reflow] clamps it to (4,2).  Symmetrically
    [switch_to_primary_buffer] re-activates a buffer with stale [bcols]/[brows] ([ti_bcols],
    [ti_brows], [ti_sctx] fail until [reflow]).  Hence the post-condition [RInv] here. *)

Theorem switch_to_alternate_buffer_RInv t :
  TInv t -> exists t', switch_to_alternate_buffer t = Ok t' /\ RInv t' /\ LimP t t'.
Proof.
  intros H. tfacts H. unfold switch_to_alternate_buffer. destruct (active t) eqn:Ea.
  - unfold mark_range, dirty_extend. rsimp. rewrite Hdirty, Nat.leb_refl. cbn [Nat.leb andb bind].
    eexists; split; [reflexivity|]. pose proof (ti_sctx _ H) as Hs. pose proof (ti_limit _ H) as Hl.
    rewrite Ea in Hl. split.
    + pose proof H as []. constructor; rsimp; try assumption; try lia.
      * apply buffer_new_BInv; assumption.
      * intros _. unfold buffer_new. rsimp. split; [lia|]. split; assumption.
      * split; [reflexivity|apply Hl].
      * rewrite Hbc, Hbr. exact Hs.
    + intros [L1 L2]. unfold Lim2. rsimp. split; [apply LimInv_new|exact L1].
  - exists t. split; [reflexivity|]. split; [apply TInv_RInv, H|apply LimP_refl].
Qed.

Theorem switch_to_primary_buffer_RInv t :
  TInv t ->
  exists t', switch_to_primary_buffer t = Ok t' /\ RInv t' /\ RInv (restore_cursor t')
             /\ LimP t t' /\ LimP t (restore_cursor t').
Proof.
  intros H. tfacts H. unfold switch_to_primary_buffer. destruct (active t) eqn:Ea.
  - exists t. split; [reflexivity|]. split; [apply TInv_RInv, H|].
    destruct (restore_cursor_TInv t H) as [I P].
    split; [apply TInv_RInv, I|]. split; [apply LimP_refl|exact P].
  - unfold mark_range, dirty_extend. rsimp. rewrite Hdirty, Nat.leb_refl. cbn [Nat.leb andb bind].
    eexists; split; [reflexivity|]. pose proof (ti_parked _ H) as Hp. pose proof (ti_limit _ H) as Hl.
    rewrite Ea in Hl, Hp. destruct Hp as [Hp1 Hp2].
    split; [|split; [|split]].
    + pose proof H as []. constructor; rsimp; try assumption; try lia;
        try (split; apply Hl); try (intros _; split; [lia|]; split; assumption).
    + pose proof H as []. unfold restore_cursor, restore_cursor_gen.
      constructor; rsimp; try assumption; try lia; try (split; apply Hl);
        try (intros e; split; [lia|]; split; [lia|]; split; [discriminate|lia]).
    + intros [L1 L2]. unfold Lim2. rsimp. split; assumption.
    + intros [L1 L2]. unfold Lim2, restore_cursor, restore_cursor_gen. rsimp. split; assumption.
Qed.

(** * DEC private modes *)

Theorem decset_one_TInv t m :
  TInv t -> exists t', decset_one t m = Ok t' /\ TInv t' /\ LimP t t'.
Proof.
  intros H. destruct m; cbn [decset_one].
  - eexists; split; [reflexivity|]. apply set_ckm_TInv, H.
  - eexists; split; [reflexivity|]. apply set_org_home_TInv, H.
  - eexists; split; [reflexivity|]. apply set_awm_TInv, H.
  - eexists; split; [reflexivity|]. apply set_cur_vis_TInv, H.
  - destruct (switch_to_alternate_buffer_RInv t H) as (t1 & E & R & P). rewrite E. cbn [bind].
    destruct (reflow_TInv' t1 R) as (t' & E' & I' & P' & _).
    exists t'. split; [exact E'|]. split; [exact I'|]. eapply LimP_trans; eassumption.
  - eexists; split; [reflexivity|]. apply save_cursor_TInv, H.
  - destruct (save_cursor_TInv t H) as [I0 P0].
    destruct (switch_to_alternate_buffer_RInv _ I0) as (t1 & E & R & P). rewrite E. cbn [bind].
    destruct (reflow_TInv' t1 R) as (t' & E' & I' & P' & _).
    exists t'. split; [exact E'|]. split; [exact I'|].
    eapply LimP_trans; [exact P0|]. eapply LimP_trans; eassumption.
Qed.

Theorem decrst_one_TInv t m :
  TInv t -> exists t', decrst_one t m = Ok t' /\ TInv t' /\ LimP t t'.
Proof.
  intros H. destruct m; cbn [decrst_one].
  - eexists; split; [reflexivity|]. apply set_ckm_TInv, H.
  - eexists; split; [reflexivity|]. apply set_org_home_TInv, H.
  - eexists; split; [reflexivity|]. apply set_awm_TInv, H.
  - eexists; split; [reflexivity|]. apply set_cur_vis_TInv, H.
  - destruct (switch_to_primary_buffer_RInv t H) as (t1 & E & R & _ & P & _). rewrite E. cbn [bind].
    destruct (reflow_TInv' t1 R) as (t' & E' & I' & P' & _).
    exists t'. split; [exact E'|]. split; [exact I'|]. eapply LimP_trans; eassumption.
  - eexists; split; [reflexivity|]. apply restore_cursor_TInv, H.
  - destruct (switch_to_primary_buffer_RInv t H) as (t1 & E & _ & R & _ & P). rewrite E. cbn [bind].
    destruct (reflow_TInv' _ R) as (t' & E' & I' & P' & _).
    exists t'. split; [exact E'|]. split; [exact I'|]. eapply LimP_trans; eassumption.
Qed.

Lemma foldM_TInv (f : term -> dec_mode -> res term) :
  (forall t m, TInv t -> exists t', f t m = Ok t' /\ TInv t' /\ LimP t t') ->
  forall ms t, TInv t -> exists t', foldM f ms t = Ok t' /\ TInv t' /\ LimP t t'.
Proof.
  intros Hf. induction ms as [|m ms IH]; intros t H; cbn [foldM].
  - exists t. split; [reflexivity|]. split; [exact H|apply LimP_refl].
  - destruct (Hf t m H) as (t1 & E & I & P). rewrite E. cbn [bind].
    destruct (IH t1 I) as (t' & E' & I' & P'). exists t'. split; [exact E'|]. split; [exact I'|].
    eapply LimP_trans; eassumption.
Qed.

(** * [execute], given [print] *)

Section Execute.
  (** an additional invariant carried along: [fun _ => True] (C01/C02) or [Lim2] (C13) *)
  Variable J : term -> Prop.
  Hypothesis J_LimP : forall t t', LimP t t' -> J t -> J t'.
  Hypothesis print_J :
    forall t c, TInv t -> J t -> exists t', print t c = Ok t' /\ TInv t' /\ J t'.

  Lemma print_n_J : forall n t c,
    TInv t -> J t -> exists t', print_n n t c = Ok t' /\ TInv t' /\ J t'.
  Proof.
    induction n as [|n IH]; intros t c H HJ; cbn [print_n].
    - exists t. auto.
    - destruct (print_J t c H HJ) as (t1 & E & I & J1). rewrite E. cbn [bind]. apply IH; assumption.
  Qed.

  Lemma rep_J t n : TInv t -> J t -> exists t', rep t n = Ok t' /\ TInv t' /\ J t'.
  Proof.
    intros H HJ. unfold rep. destruct (Nat.ltb_spec 0 (cur_col t)) as [Hc|Hc].
    - destruct (rep_cell t H Hc) as (l & c & E1 & E2). rewrite E1. cbn [bind]. rewrite E2.
      apply print_n_J; assumption.
    - exists t. auto.
  Qed.

  Lemma execute_J t f : TInv t -> J t -> exists t', execute t f = Ok t' /\ TInv t' /\ J t'.
  Proof.
    intros H HJ.
    assert (Tot : forall t', TInv t' /\ LimP t t' -> exists t'', Ok t' = Ok t'' /\ TInv t'' /\ J t'').
    { intros t' [I P]. exists t'. split; [reflexivity|]. split; [exact I|]. eapply J_LimP; eassumption. }
    assert (Par : forall r, (exists t', r = Ok t' /\ TInv t' /\ LimP t t') ->
                            exists t', r = Ok t' /\ TInv t' /\ J t').
    { intros r (t' & E & I & P). exists t'. split; [exact E|]. split; [exact I|].
      eapply J_LimP; eassumption. }
    pose proof (ti_cols _ H) as Hcols.
    destruct f; cbn [execute].
    - (* Bs *) apply Tot, bs_TInv, H.
    - (* Cbt *) apply Par, move_cursor_to_prev_tab_TInv; [exact H|apply as_usize_ge1].
    - (* Cha *) apply Tot, move_cursor_to_col_TInv, H.
    - (* Cht *) apply Par, move_cursor_to_next_tab_TInv; [exact H|apply as_usize_ge1].
    - (* Cnl *) apply Tot. destruct (cursor_down_TInv t (as_usize n 1) H) as [I P].
      destruct (do_move_cursor_to_col_TInv _ 0 I) as [I' P']; [pose proof (ti_cols _ I); lia|].
      split; [exact I'|eapply LimP_trans; eassumption].
    - (* Cpl *) apply Tot. destruct (cursor_up_TInv t (as_usize n 1) H) as [I P].
      destruct (do_move_cursor_to_col_TInv _ 0 I) as [I' P']; [pose proof (ti_cols _ I); lia|].
      split; [exact I'|eapply LimP_trans; eassumption].
    - (* Cr *) apply Tot, do_move_cursor_to_col_TInv; [exact H|lia].
    - (* Ctc *) apply Tot, ctc_TInv, H.
    - (* Cub *) apply Tot, cub_TInv, H.
    - (* Cud *) apply Tot, cursor_down_TInv, H.
    - (* Cuf *) apply Tot, move_cursor_to_rel_col_TInv, H.
    - (* Cup *) apply Tot, cup_TInv, H.
    - (* Cuu *) apply Tot, cursor_up_TInv, H.
    - (* Dch *) apply Par, dch_TInv, H.
    - (* Decaln *) apply Par, decaln_TInv, H.
    - (* Decrc *) apply Tot, restore_cursor_TInv, H.
    - (* Decrst *) apply Par, (foldM_TInv decrst_one decrst_one_TInv), H.
    - (* Decsc *) apply Tot, save_cursor_TInv, H.
    - (* Decset *) apply Par, (foldM_TInv decset_one decset_one_TInv), H.
    - (* Decstbm *) apply Tot, decstbm_TInv, H.
    - (* Decstr *) apply Tot, soft_reset_TInv, H.
    - (* Dl *) apply Par, dl_TInv, H.
    - (* Ech *) apply Par, ech_TInv, H.
    - (* Ed *) apply Par, ed_TInv, H.
    - (* El *) apply Par, el_TInv, H.
    - (* G1d4 *) apply Tot, set_cs1_TInv, H.
    - (* Gzd4 *) apply Tot, set_cs0_TInv, H.
    - (* Ht *) apply Par, move_cursor_to_next_tab_TInv; [exact H|lia].
    - (* Hts *) apply Tot, set_tab_TInv, H.
    - (* Ich *) apply Par, ich_TInv, H.
    - (* Il *) apply Par, il_TInv, H.
    - (* Lf *) apply Par, lf_TInv, H.
    - (* Nel *) apply Par, nel_TInv, H.
    - (* Print *) apply print_J; assumption.
    - (* Rep *) apply rep_J; assumption.
    - (* Ri *) apply Par, ri_TInv, H.
    - (* Ris *) apply Tot, hard_reset_TInv, H.
    - (* Rm *) apply Tot, fold_rm_TInv, H.
    - (* Scorc *) apply Tot, restore_cursor_TInv, H.
    - (* Scosc *) apply Tot, save_cursor_TInv, H.
    - (* Sd *) apply Par, scroll_down_in_region_TInv, H.
    - (* Sgr *) apply Tot, sgr_TInv, H.
    - (* Si *) apply Tot, set_acs_TInv; [exact H|lia].
    - (* Sm *) apply Tot, fold_sm_TInv, H.
    - (* So *) apply Tot, set_acs_TInv; [exact H|lia].
    - (* Su *) apply Par, scroll_up_in_region_TInv, H.
    - (* Tbc *) apply Tot, tbc_TInv, H.
    - (* Vpa *) apply Tot, move_cursor_to_row_TInv, H.
    - (* Vpr *) apply Tot, cursor_down_TInv, H.
    - (* Xtwinops *) apply Par, xtwinops_TInv, H.
  Qed.
End Execute.

Theorem rep_TInv :
  (forall t c, TInv t -> exists t', print t c = Ok t' /\ TInv t') ->
  forall t n, TInv t -> exists t', rep t n = Ok t' /\ TInv t'.
Proof.
  intros Hp t n H.
  assert (PJ : forall t c, TInv t -> True -> exists t', print t c = Ok t' /\ TInv t' /\ True).
  { intros t0 c I0 _. destruct (Hp t0 c I0) as (t1 & E1 & I1). eauto. }
  destruct (rep_J (fun _ => True) PJ t n H I) as (t' & E & I' & _). eauto.
Qed.

Theorem execute_TInv :
  (forall t c, TInv t -> exists t', print t c = Ok t' /\ TInv t') ->
  forall t f, TInv t -> exists t', execute t f = Ok t' /\ TInv t'.
Proof.
  intros Hp t f H.
  assert (JL : forall t t' : term, LimP t t' -> True -> True) by auto.
  assert (PJ : forall t c, TInv t -> True -> exists t', print t c = Ok t' /\ TInv t' /\ True).
  { intros t0 c I0 _. destruct (Hp t0 c I0) as (t1 & E1 & I1). eauto. }
  destruct (execute_J (fun _ => True) JL PJ t f H I) as (t' & E & I' & _). eauto.
Qed.

Print Assumptions execute_TInv.

(** * flush: [changes] and [term_gc] *)

Theorem changes_TInv t : TInv t -> TInv (fst (changes t)) /\ LimP t (fst (changes t)).
Proof.
  intros H. unfold changes. cbn [fst]. apply TInv_set_dirty; [exact H|].
  unfold dirty_clear. rewrite repeat_length. apply H.
Qed.

Lemma TInv_limit_wf t : TInv t -> limit_wf (buf t).
Proof.
  intros H. pose proof (ti_limit _ H) as Hl.
  destruct (active t); destruct Hl as [Hl _]; eapply limit_ok_wf; exact Hl.
Qed.

Theorem term_gc_TInv t :
  TInv t ->
  exists t' d, term_gc t = Ok (t', d) /\ TInv t' /\ LimP t t'
    /\ other t' = other t /\ trim_needed (buf t') = false
    /\ (LimInv (buf t) -> sb_bound (buf t')).
Proof.
  intros H.
  destruct (buf_gc_BF (buf t) (ti_buf _ H) (TInv_limit_wf t H))
    as (b' & d & E & Ib & Cb & Rb & Lb & Tb & Bb).
  assert (F : BFrame (buf t) b').
  { split; [exact Ib|]. repeat split; try assumption. intros L. right. apply Bb, L. }
  destruct (TInv_set_buf t b' H F) as [I P].
  unfold term_gc. rewrite E. cbn [bind]. rsimp.
  destruct (active t); eexists; eexists; (split; [reflexivity|]);
    (split; [exact I|]); (split; [exact P|]); rsimp; (split; [reflexivity|]); (split; [exact Tb|exact Bb]).
Qed.

(** the rows reported by [changes] *)
Lemma dirty_to_vec_sorted : forall d i,
  sorted_lt (dirty_to_vec d i) /\ Forall (fun x => i <= x < i + length d) (dirty_to_vec d i).
Proof.
  induction d as [|[] d IH]; intros i; cbn [dirty_to_vec length].
  - split; [exact I|constructor].
  - destruct (IH (S i)) as [S F]. split.
    + apply sorted_lt_cons_iff. split; [|exact S].
      eapply Forall_impl; [|exact F]. cbn beta. intros; lia.
    + constructor; [lia|]. eapply Forall_impl; [|exact F]. cbn beta. intros; lia.
  - destruct (IH (S i)) as [S F]. split; [exact S|].
    eapply Forall_impl; [|exact F]. cbn beta. intros; lia.
Qed.

Lemma sorted_increasing_below bound : forall l prev,
  sorted_lt l -> Forall (fun x => x < bound) l ->
  match prev, l with Some p, x :: _ => p < x | _, _ => True end ->
  strictly_increasing_below bound prev l = true.
Proof.
  induction l as [|x l IH]; intros prev S F Hp; cbn [strictly_increasing_below]; [reflexivity|].
  apply sorted_lt_cons_iff in S. destruct S as [S1 S2]. inversion F as [|? ? Fx Fl]; subst.
  rewrite IH; [| exact S2 | exact Fl | destruct l; [exact I|inversion S1; assumption]].
  destruct prev; lia.
Qed.

Theorem changes_sorted t :
  TInv t -> strictly_increasing_below (rows t) None (snd (changes t)) = true.
Proof.
  intros H. unfold changes. cbn [snd]. destruct (dirty_to_vec_sorted (dirty t) 0) as [S F].
  apply sorted_increasing_below; [exact S| |destruct (dirty_to_vec (dirty t) 0); exact I].
  eapply Forall_impl; [|exact F]. cbn beta. rewrite (ti_dirty _ H). intros; lia.
Qed.

(** the tail of [Vt::feed_str] / [Vt::resize] *)
Theorem vt_flush_TInv v :
  TInv (vterm v) ->
  exists v' o, vt_flush v = Ok (v', o) /\ TInv (vterm v') /\ vparser v' = vparser v
    /\ (Lim2 (vterm v) -> Lim2 (vterm v'))
    /\ strictly_increasing_below (rows (vterm v)) None (o_lines o) = true.
Proof.
  intros H. destruct (changes_TInv _ H) as [I P].
  destruct (term_gc_TInv _ I) as (t' & d & E & I' & P' & _).
  pose proof (changes_sorted _ H) as S.
  unfold vt_flush. unfold changes in *. cbn [fst snd] in *. rewrite E. cbn [bind].
  eexists; eexists; split; [reflexivity|]. destruct v as [vp vt0]. cbn [vterm vparser set o_lines].
  split; [exact I'|]. split; [reflexivity|]. split; [|exact S].
  intros L. apply P', P, L.
Qed.

Print Assumptions vt_flush_TInv.

(** * C02: the executable geometry predicates *)

Lemma BInv_geom_ok b : BInv b -> buffer_geom_ok b = true.
Proof.
  intros [(Hc & Hr & Hl & F) W]. unfold buffer_geom_ok.
  assert (E1 : forallb (line_ok (bcols b)) (lines b) = true).
  { apply forallb_forall. intros l Hin. rewrite Forall_forall in F. specialize (F l Hin).
    unfold line_ok, LineInv in *. lia. }
  assert (E2 : last_unwrapped (lines b) = true).
  { unfold last_unwrapped, last_not_wrapped in *. rewrite ReflowCore.last_opt_nth in *.
    destruct (nth_error (lines b) (length (lines b) - 1)) as [l|] eqn:E.
    - rewrite W. reflexivity.
    - apply nth_error_None in E. lia. }
  rewrite E1, E2. lia.
Qed.

Theorem TInv_geom_ok : forall t, TInv t -> geom_ok t = true /\ buffer_geom_ok (other t) = true.
Proof.
  intros t H. tfacts H. split; [|apply BInv_geom_ok, H].
  unfold geom_ok. rewrite (BInv_geom_ok _ (ti_buf _ H)).
  assert (E : Bool.eqb (pend t) (cur_col t =? cols t) = true).
  { destruct (pend t) eqn:Ep; destruct (Nat.eqb_spec (cur_col t) (cols t)); try reflexivity; exfalso.
    - apply n, Hpend. reflexivity.
    - apply Hpend in e. discriminate. }
  rewrite E. lia.
Qed.

Print Assumptions TInv_geom_ok.

(** * C13: the scrollback-limit invariant is inductive, too *)

Definition TInvL (t : term) : Prop := TInv t /\ LimInv (buf t) /\ LimInv (other t).

Theorem term_new_TInvL : forall c r l, 1 <= c -> 1 <= r -> TInvL (term_new_gen c r l).
Proof. intros c r l Hc Hr. split; [apply term_new_TInv; assumption|apply term_new_Lim2]. Qed.

Theorem execute_TInvL :
  (forall t c, TInvL t -> exists t', print t c = Ok t' /\ TInvL t') ->
  forall t f, TInvL t -> exists t', execute t f = Ok t' /\ TInvL t'.
Proof.
  intros Hp t f [H L].
  assert (JL : forall t t' : term, LimP t t' -> Lim2 t -> Lim2 t') by (intros ? ? P; exact P).
  assert (PJ : forall t c, TInv t -> Lim2 t -> exists t', print t c = Ok t' /\ TInv t' /\ Lim2 t').
  { intros t0 c I0 L0. destruct (Hp t0 c (conj I0 L0)) as (t1 & E1 & I1 & L1). eauto. }
  destruct (execute_J Lim2 JL PJ t f H L) as (t' & E & I' & L').
  exists t'. split; [exact E|]. split; assumption.
Qed.

Theorem term_resize_TInvL : forall t c r,
  TInvL t -> 1 <= c -> 1 <= r ->
  exists t', term_resize t c r = Ok t' /\ TInvL t' /\ cols t' = c /\ rows t' = r.
Proof.
  intros t c r [H L] Hc Hr. destruct (term_resize_TInvP t c r H Hc Hr) as (t' & E & I & P & C & R).
  exists t'. split; [exact E|]. split; [split; [exact I|apply P, L]|]. split; assumption.
Qed.

Theorem changes_TInvL t : TInvL t -> TInvL (fst (changes t)).
Proof. intros [H L]. destruct (changes_TInv t H) as [I P]. split; [exact I|apply P, L]. Qed.

Theorem term_gc_TInvL t :
  TInvL t ->
  exists t' d, term_gc t = Ok (t', d) /\ TInvL t' /\ trim_needed (buf t') = false
               /\ sb_bound (buf t').
Proof.
  intros [H L]. destruct (term_gc_TInv t H) as (t' & d & E & I & P & _ & T & B).
  exists t', d. split; [exact E|]. split; [split; [exact I|apply P, L]|]. split; [exact T|].
  apply B, L.
Qed.

Print Assumptions execute_TInvL.
Print Assumptions term_resize_TInvL.
Print Assumptions term_gc_TInvL.
Print Assumptions changes_sorted.
Print Assumptions term_new_TInvL.
Print Assumptions changes_TInv.
Print Assumptions changes_TInvL.
Print Assumptions term_gc_TInv.
Print Assumptions rep_TInv.
Print Assumptions reflow_TInv.
Print Assumptions decset_one_TInv.
Print Assumptions decrst_one_TInv.
