(** The tie between the hand-written SGR model and the Gallina regenerated from the Rust source
    (Gen/SgrFns.v, by translate/misc2coq.py):

    A. [SgrOps::next] (parser.rs): one iteration of the loop, [g_sgr_step = sgr_step], hence the
       regenerated decoder equals the grammar of the property text ([Proofs.Sgr.sgr_decode_spec_gen]);
    B. [Terminal::sgr] (terminal.rs) and the [Pen] bit methods (pen.rs): [g_sgr_one = sgr_one],
       [g_set_* = pen_set *_MASK], [g_unset_* = pen_unset *_MASK], [g_is_* = pen_has *_MASK]. *)

From Coq Require Import Lia NArith Bool List.
From Avt Require Import Model.ParserBase Model.Terminal Gen.Consts Gen.SgrFns Spec.Screen Proofs.Sgr.
Import ListNotations.
Local Open Scope N_scope.

(** * A. parser.rs *)

Lemma tie_as_u16 : forall p, g_as_u16 p = as_u16 p.
Proof. reflexivity. Qed.

Lemma tie_pparts : forall p, g_pparts p = pparts p.
Proof. reflexivity. Qed.

(** the [[38]] / [[48]] arms once the first parameter is known: case analysis on the shape of the
    second parameter's parts, everything else by computation *)
Ltac ext_case rest :=
  let cp := fresh "cp" in let x := fresh "x" in let pts := fresh "pts" in let y := fresh "y" in
  destruct rest as [|[cp [|x pts]] rest]; [reflexivity | reflexivity |];
  (destruct cp as [|cp]; [| destruct pts as [|y pts]]);
  split_N x; reflexivity.

(** decide the remaining conditions one after the other; each decided condition selects an arm *)
Ltac split_ifs :=
  repeat match goal with
         | |- context [if ?b then _ else _] => destruct b; try reflexivity
         end.

Theorem tie_sgr_step : forall p rest, g_sgr_step p rest = sgr_step p rest.
Proof.
  intros p rest. unfold g_sgr_step, sgr_step. change g_pparts with pparts.
  destruct (pparts p) as [|v [|b [|c [|d [|e [|f [|g t]]]]]]]; try reflexivity;
    cbv beta iota zeta; [| split_ifs ..].
  (* a single part: first the two codes that look at the following parameters, then the literal
     codes (each by computation), then the four ranges *)
  unfold sgr_single.
  destruct (N.eqb_spec v 38) as [->|n38]; [ext_case rest|].
  destruct (N.eqb_spec v 48) as [->|n48]; [ext_case rest|].
  repeat match goal with
         | |- context [N.eqb v ?c] => destruct (N.eqb_spec v c) as [->|?]; [reflexivity|]
         end.
  cbv beta iota delta [g_first orb].
  split_ifs.
Qed.

Print Assumptions tie_sgr_step.

(** The loop around the step ([while let Some(param) = self.ps.first()], [return Some(op)], and the
    caller's [collect()]) stays hand-modelled: [sgr_go] drops [consumed] parameters per iteration.
    The same closure over the regenerated step is the same function, hence equal to the grammar
    [spec_sgr_params] of the property text. *)
Fixpoint g_sgr_go (skip : nat) (ps : list param) : list sgr_op :=
  match ps with
  | [] => []
  | p :: rest =>
    match skip with
    | S k => g_sgr_go k rest
    | O =>
      let '(op, consumed) := g_sgr_step p rest in
      match op with
      | Some o => o :: g_sgr_go (consumed - 1) rest
      | None => g_sgr_go (consumed - 1) rest
      end
    end
  end.

Lemma tie_sgr_go : forall ps skip, g_sgr_go skip ps = sgr_go skip ps.
Proof.
  induction ps as [|p rest IH]; intros skip; [reflexivity|].
  cbn [g_sgr_go sgr_go]. destruct skip as [|k]; [|apply IH].
  rewrite tie_sgr_step. destruct (sgr_step p rest) as [[o|] consumed]; rewrite IH; reflexivity.
Qed.

Theorem tie_sgr_ops : forall ps, g_sgr_go 0 ps = sgr_ops ps.
Proof. intros ps. apply tie_sgr_go. Qed.

Theorem tie_sgr_decode_spec : forall ps, g_sgr_go 0 ps = spec_sgr_params ps.
Proof. intros ps. rewrite tie_sgr_ops. apply sgr_decode_spec_gen. Qed.

(** every iteration makes progress (the Rust loop terminates) and never drops more parameters than a
    colour needs *)
Lemma g_sgr_step_consumed : forall p rest, (1 <= snd (g_sgr_step p rest) <= 5)%nat.
Proof.
  intros p rest. rewrite tie_sgr_step. unfold sgr_step, sgr_ext.
  repeat match goal with
         | |- context [match ?x with _ => _ end] => destruct x; cbn [snd]; try lia
         end.
Qed.

Print Assumptions tie_sgr_ops.
Print Assumptions tie_sgr_decode_spec.
Print Assumptions g_sgr_step_consumed.

(** * B. pen.rs, terminal.rs *)

Lemma tie_pen_default : g_pen_default = default_pen.
Proof. reflexivity. Qed.

Lemma tie_set_italic : forall p, g_set_italic p = pen_set ITALIC_MASK p.
Proof. reflexivity. Qed.
Lemma tie_set_underline : forall p, g_set_underline p = pen_set UNDERLINE_MASK p.
Proof. reflexivity. Qed.
Lemma tie_set_blink : forall p, g_set_blink p = pen_set BLINK_MASK p.
Proof. reflexivity. Qed.
Lemma tie_set_strikethrough : forall p, g_set_strikethrough p = pen_set STRIKETHROUGH_MASK p.
Proof. reflexivity. Qed.
Lemma tie_set_inverse : forall p, g_set_inverse p = pen_set INVERSE_MASK p.
Proof. reflexivity. Qed.

Lemma tie_unset_italic : forall p, g_unset_italic p = pen_unset ITALIC_MASK p.
Proof. reflexivity. Qed.
Lemma tie_unset_underline : forall p, g_unset_underline p = pen_unset UNDERLINE_MASK p.
Proof. reflexivity. Qed.
Lemma tie_unset_blink : forall p, g_unset_blink p = pen_unset BLINK_MASK p.
Proof. reflexivity. Qed.
Lemma tie_unset_strikethrough : forall p, g_unset_strikethrough p = pen_unset STRIKETHROUGH_MASK p.
Proof. reflexivity. Qed.
Lemma tie_unset_inverse : forall p, g_unset_inverse p = pen_unset INVERSE_MASK p.
Proof. reflexivity. Qed.

Lemma tie_is_italic : forall p, g_is_italic p = pen_has ITALIC_MASK p.
Proof. reflexivity. Qed.
Lemma tie_is_underline : forall p, g_is_underline p = pen_has UNDERLINE_MASK p.
Proof. reflexivity. Qed.
Lemma tie_is_blink : forall p, g_is_blink p = pen_has BLINK_MASK p.
Proof. reflexivity. Qed.
Lemma tie_is_strikethrough : forall p, g_is_strikethrough p = pen_has STRIKETHROUGH_MASK p.
Proof. reflexivity. Qed.
Lemma tie_is_inverse : forall p, g_is_inverse p = pen_has INVERSE_MASK p.
Proof. reflexivity. Qed.

(** [is_bold] / [is_faint] have no counterpart in the model (it matches on [intensity] directly) *)
Lemma tie_is_bold : forall p, g_is_bold p = true <-> intensity p = Bold.
Proof. intros p. unfold g_is_bold. destruct (intensity p); cbn; split; congruence. Qed.
Lemma tie_is_faint : forall p, g_is_faint p = true <-> intensity p = Faint.
Proof. intros p. unfold g_is_faint. destruct (intensity p); cbn; split; congruence. Qed.

Theorem tie_sgr_one : forall p op, g_sgr_one p op = sgr_one p op.
Proof. intros p op. destruct op; reflexivity. Qed.

Lemma tie_sgr_fold : forall ops p, g_sgr p ops = fold_left sgr_one ops p.
Proof.
  unfold g_sgr. induction ops as [|o ops IH]; intros p; [reflexivity|].
  cbn [fold_left]. rewrite tie_sgr_one. apply IH.
Qed.

Theorem tie_sgr : forall t ops, sgr t ops = t <| tpen := g_sgr (tpen t) ops |>.
Proof. intros t ops. unfold sgr. rewrite tie_sgr_fold. reflexivity. Qed.

Print Assumptions tie_sgr_one.
Print Assumptions tie_sgr.
