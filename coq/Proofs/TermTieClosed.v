(** Capstone: the execute tie with EVERY interface field instantiated by regenerated code.

    [tie_execute_all] (Proofs/TermTieX.v) runs the regenerated control functions of terminal.rs over the
    interface [Om], whose fields are the MODEL's primitives.  Here [Og : zops term] instantiates the same
    interface with the primitives regenerated from buffer.rs / tabs.rs / dirty_lines.rs / charset.rs /
    pen.rs (Gen/BufFns.v, Gen/RestFns.v, Gen/SgrFns.v) and the reset steps of Gen/Resets.v, so that
    [w_execute Og] is built from regenerated text only (plus record plumbing of the world).

    Every result of the interface is an [option]: the panic SITE is already erased by [ores], so "equal up
    to the panic site" ([=~] of Proofs/BufTie.v) becomes plain equality of options.  The file proves
    - field by field, [Og] = [Om] (pointwise; two events carry a side condition, see [Good]),
    - hence [w_execute Og (zabs t) (wabs t) f = w_execute Om (zabs t) (wabs t) f] under [TInv t]
      (lock-step evaluation: the side conditions are discharged where the calls are made),
    - hence [tie_execute_closed] and [tie_resize_closed]. *)

(* The proofs live in Proofs/TermTieClosed_Core.v and in leaf files that compile in parallel. *)
From Coq Require Import Lia ZArith ZifyBool ZifyNat ZifyN.
From Avt Require Import Oracles.Step Proofs.Inv Proofs.TermEasy Gen.TermFns Proofs.TermTie Proofs.InvStep
  Proofs.TermTieW Proofs.TermTieX.
From Avt Require Export Proofs.TermTieClosed_Core Proofs.TermTieClosed_Loops Proofs.TermTieClosed_Resize
  Proofs.TermTieClosed_Decset Proofs.TermTieClosed_Decrst Proofs.TermTieClosed_A Proofs.TermTieClosed_B
  Proofs.TermTieClosed_C Proofs.TermTieClosed_D Proofs.TermTieClosed_E.
From Avt Require Import Gen.BufFns Proofs.BufTie Gen.SgrFns Proofs.SgrTie.
From Avt Require Gen.RestFns Proofs.RestTie.
Ltac Zify.zify_post_hook ::= Z.div_mod_to_equations.
Local Open Scope Z_scope.

(** * [Terminal::execute] with the regenerated interface *)
Theorem closed_execute : forall t f, TInv t ->
  w_execute Og (zabs t) (wabs t) f = w_execute Om (zabs t) (wabs t) f.
Proof.
  intros t f HT. destruct (ti_tabs t HT) as [Hs _].
  destruct f;
    first [ apply closed_execute_A; [exact HT | reflexivity] | apply closed_execute_B; [exact HT | reflexivity]
          | apply closed_execute_C; [exact HT | reflexivity] | apply closed_execute_D; [exact HT | reflexivity]
          | apply closed_execute_E; [exact HT | reflexivity]
          | idtac ];
    cbn [w_execute]; apply f_equal;
    lazymatch goal with
    | |- w_rep _ _ _ _ = _ => apply c_rep, HT
    | |- w_decaln _ _ _ = _ => apply c_decaln
    | |- w_sm _ _ _ _ = _ => reflexivity
    | |- w_rm _ _ _ _ = _ => reflexivity
    | |- w_decset _ _ _ _ = _ => apply c_decset, HT
    | |- w_decrst _ _ _ _ = _ => apply c_decrst, HT
    end.
Qed.

(** every [func]: the regenerated control code of terminal.rs, run over the regenerated primitives of
    buffer.rs / tabs.rs / dirty_lines.rs / charset.rs / pen.rs, is the model's [execute]
    (a panic on either side is [None] on the left and [Panic _] inside [wres] on the right: the panic site
    is not part of the statement) *)
Theorem tie_execute_closed : forall t f, TInv t ->
  w_execute Og (zabs t) (wabs t) f = Some (wres (execute t f)).
Proof. intros t f HT. rewrite closed_execute by exact HT. apply tie_execute_all, HT. Qed.
Print Assumptions tie_execute_closed.

(** the public resize operation of the Vt layer *)
Theorem tie_resize_closed : forall v c r, ZW (vterm v) -> (1 <= c)%nat -> (1 <= r)%nat ->
  match w_resize Og (zabs (vterm v)) (wabs (vterm v)) (Z.of_nat c) (Z.of_nat r) with
  | Some (s, w, ok, _) => ok = true /\ stepM v (Resize c r) = vt_flush (v <| vterm := zput s w |>)
  | None => exists e, stepM v (Resize c r) = Panic e
  end.
Proof. intros v c r H Hc Hr. rewrite c_resize. apply tie_resize_op; assumption. Qed.
Print Assumptions tie_resize_closed.
