(** Properties C03 / C08, audit item 14: end-to-end decoding from the CHARACTERS
    - of CSI sequences with a private marker and / or trailing intermediates
      (DECSET / DECRST / DECSTR from text),
    - 7-bit ESC Fe against the 8-bit C1 control, up to [psim] (composes with [C03_memoryless]),
    - the SGR branch of the executable statement [holds_C08],
    - the SGR grammar stated on the parameter TEXT (both colour spellings). *)

From Avt Require Import Model.Parser Spec.Williams Proofs.Inv Proofs.ParserTable
  Proofs.ParserInv Proofs.ParserSim Spec.Functions Proofs.DispatchTable Proofs.ParamsWritten.
From Avt Require Import Model.Vt Spec.Screen Spec.Eqb Oracles.Step Proofs.Sgr Proofs.VisEq.
Require Import Lia ZArith ZifyBool ZifyNat ZifyN.
Local Open Scope N_scope.

Ltac Zify.zify_post_hook ::= Z.div_mod_to_equations.

#[local] Arguments N.add : simpl never.
#[local] Arguments N.sub : simpl never.
#[local] Arguments N.mul : simpl never.
#[local] Arguments N.eqb : simpl never.
#[local] Arguments N.ltb : simpl never.
#[local] Arguments N.leb : simpl never.
#[local] Arguments N.modulo : simpl never.
#[local] Arguments N.div : simpl never.

Lemma Ok_inj_pp {A} (a b : A) : Ok a = Ok b -> a = b.
Proof. intros H. injection H as H. exact H. Qed.

(** * 1. CSI sequences with a private marker and / or intermediates *)

(** ** rows of the table *)

Lemma w_csi_entry_marker : forall c, 60 <= c <= 63 -> williams CsiEntry c = mkTrans CsiParam KCollect false.
Proof. apply row_is_spec. vm_compute. reflexivity. Qed.

Lemma w_entry_inter : forall c, 32 <= c <= 47 -> williams CsiEntry c = mkTrans CsiIntermediate KCollect false.
Proof. apply row_is_spec. vm_compute. reflexivity. Qed.

Lemma w_param_inter : forall c, 32 <= c <= 47 -> williams CsiParam c = mkTrans CsiIntermediate KCollect false.
Proof. apply row_is_spec. vm_compute. reflexivity. Qed.

Lemma w_inter_inter : forall c, 32 <= c <= 47 -> williams CsiIntermediate c = mkTrans CsiIntermediate KCollect false.
Proof. apply row_is_spec. vm_compute. reflexivity. Qed.

Lemma w_inter_final : forall c, 64 <= c <= 126 -> williams CsiIntermediate c = mkTrans Ground KCsiDispatch false.
Proof. apply row_is_spec. vm_compute. reflexivity. Qed.

(** the three states of a CSI sequence in which a final byte dispatches *)
Definition csi_open (s : pstate) : Prop := s = CsiEntry \/ s = CsiParam \/ s = CsiIntermediate.

Lemma w_open_inter s c :
  csi_open s -> 32 <= c <= 47 -> williams s c = mkTrans CsiIntermediate KCollect false.
Proof.
  intros [-> | [-> | ->]] Hc;
    [now apply w_entry_inter|now apply w_param_inter|now apply w_inter_inter].
Qed.

Lemma w_open_final s c :
  csi_open s -> 64 <= c <= 126 -> williams s c = mkTrans Ground KCsiDispatch false.
Proof.
  intros [-> | [-> | ->]] Hc;
    [now apply w_csi_entry_final|now apply w_csi_param_final|now apply w_inter_final].
Qed.

(** ** single steps *)

(** a private marker directly after the introducer is collected; the parser is then in
    [CsiParam] (NOT in [CsiEntry]): a following ':' is an ordinary part separator *)
Lemma marker_step m i :
  60 <= m <= 63 ->
  feed_emit (cleared CsiEntry i) m = None
  /\ feed_step (cleared CsiEntry i) m = cleared CsiParam (Some m).
Proof.
  intros Hm. unfold feed_emit, feed_step. change (pst (cleared CsiEntry i)) with CsiEntry.
  rewrite w_csi_entry_marker by exact Hm. cbn [t_kind t_clear t_next]. split; reflexivity.
Qed.

(** an intermediate byte is collected into the ONE [inter] slot (overwriting a marker or an
    earlier intermediate: known finding KF-C20-1) *)
Lemma inter_step q i :
  csi_open (pst q) -> 32 <= i <= 47 ->
  feed_emit q i = None
  /\ feed_step q i = mkParser CsiIntermediate (params q) (cur_param q) (Some i).
Proof.
  intros HS Hi. unfold feed_emit, feed_step. rewrite (w_open_inter _ _ HS Hi).
  cbn [t_kind t_clear t_next]. split; [reflexivity|]. destruct q; reflexivity.
Qed.

Lemma final_open q c :
  csi_open (pst q) -> 64 <= c <= 126 ->
  feed_emit q c = csi_dispatch_gen (inter q) c (params q) (cur_param q)
  /\ feed_step q c = mkParser Ground (params q) (cur_param q) (inter q).
Proof.
  intros HS Hc. unfold feed_emit, feed_step. rewrite (w_open_final _ _ HS Hc).
  cbn [t_kind t_clear t_next]. split; [reflexivity|]. destruct q; reflexivity.
Qed.

(** ** the shape of a prefixed sequence *)

(** an optional private marker '<' '=' '>' '?' *)
Definition marker_ok (mk : option N) : Prop :=
  match mk with None => True | Some m => 60 <= m <= 63 end.

Definition opt_list (mk : option N) : list N := match mk with Some m => [m] | None => [] end.

(** what the single [inter] slot holds at the final byte: the LAST of marker and
    intermediates *)
Definition final_inter (mk : option N) (js : list N) : option N :=
  fold_left (fun _ i => Some i) js mk.

Lemma final_inter_nil mk : final_inter mk [] = mk.
Proof. reflexivity. Qed.

Lemma final_inter_last mk js i : final_inter mk (js ++ [i]) = Some i.
Proof. unfold final_inter. rewrite fold_left_app. reflexivity. Qed.

Definition inter_state (s : pstate) (js : list N) : pstate :=
  match js with [] => s | _ => CsiIntermediate end.

Lemma inter_state_open s js : csi_open s -> csi_open (inter_state s js).
Proof. intros H. destruct js; [exact H|right; right; reflexivity]. Qed.

Lemma inters_run : forall js q,
  csi_open (pst q) -> Forall (fun i => 32 <= i <= 47) js ->
  run_emit q js = []
  /\ run_step q js
     = mkParser (inter_state (pst q) js) (params q) (cur_param q) (final_inter (inter q) js).
Proof.
  induction js as [|i js IH]; intros q HS HF.
  - cbn [run_emit run_step inter_state]. split; [reflexivity|]. destruct q; reflexivity.
  - pose proof (Forall_inv HF) as Hi. apply Forall_inv_tail in HF. cbv beta in Hi.
    destruct (inter_step q i HS Hi) as [E S].
    cbn [run_emit run_step]. rewrite E, S. cbn [opt_cons].
    destruct (IH (mkParser CsiIntermediate (params q) (cur_param q) (Some i))) as [E2 S2];
      [right; right; reflexivity|exact HF|].
    rewrite E2, S2. split; [reflexivity|]. cbn [pst params cur_param inter].
    unfold final_inter. cbn [fold_left inter_state]. f_equal. destruct js; reflexivity.
Qed.

(** marker and parameter text, from the cleared [CsiEntry] *)
Lemma marked_text_pure t mk :
  marker_ok mk -> digits_only t -> (mk = None -> hd 0 (render t) <> 58) ->
  exists s, csi_open s
    /\ run_emit (cleared CsiEntry None) (opt_list mk ++ render t) = []
    /\ run_step (cleared CsiEntry None) (opt_list mk ++ render t)
       = mkParser s (spec_block t) (spec_cur t) mk.
Proof.
  intros Hm Ht Hhd. destruct mk as [m|].
  - cbn in Hm. destruct (marker_step m None Hm) as [E S].
    cbn [opt_list app run_emit run_step]. rewrite E, S. cbn [opt_cons].
    destruct (text_pure t (cleared CsiParam (Some m)) eq_refl eq_refl eq_refl Ht) as [E1 R1].
    exists CsiParam. split; [right; left; reflexivity|]. split; [exact E1|exact R1].
  - cbn [opt_list app].
    destruct (text_pure_entry t (cleared CsiEntry None) eq_refl eq_refl eq_refl Ht (Hhd eq_refl))
      as [E1 R1].
    exists (entry_state t). split.
    + destruct (entry_state_cases t) as [H|H]; [left|right; left]; exact H.
    + split; [exact E1|exact R1].
Qed.

Lemma prefixed_pure t p intro mk js c :
  PInv p -> is_csi_intro intro -> marker_ok mk -> digits_only t ->
  (mk = None -> hd 0 (render t) <> 58) ->
  Forall (fun i => 32 <= i <= 47) js -> 64 <= c <= 126 ->
  run_emit p (intro ++ opt_list mk ++ render t ++ js ++ [c])
  = opt_cons (csi_dispatch_gen (final_inter mk js) c (spec_block t) (spec_cur t)) []
  /\ run_step p (intro ++ opt_list mk ++ render t ++ js ++ [c])
     = mkParser Ground (spec_block t) (spec_cur t) (final_inter mk js).
Proof.
  intros HP HI Hm Ht Hhd HJ Hc.
  destruct (intro_pure p intro HP HI) as [E0 S0].
  destruct (marked_text_pure t mk Hm Ht Hhd) as (s & HS & E1 & S1).
  replace (intro ++ opt_list mk ++ render t ++ js ++ [c])
    with (intro ++ (opt_list mk ++ render t) ++ js ++ [c]) by (now rewrite <- !app_assoc).
  set (A := opt_list mk ++ render t) in *.
  set (q1 := mkParser s (spec_block t) (spec_cur t) mk) in *.
  destruct (inters_run js q1 HS HJ) as [E2 S2].
  assert (HS2 : csi_open (pst (run_step q1 js))).
  { rewrite S2. cbn [pst]. apply inter_state_open. exact HS. }
  destruct (final_open (run_step q1 js) c HS2 Hc) as [E3 S3].
  rewrite (run_emit_app intro _ p), (run_step_app intro _ p), E0, S0.
  rewrite (run_emit_app A _ _), (run_step_app A _ _), E1, S1.
  rewrite (run_emit_app js _ q1), (run_step_app js _ q1), E2.
  cbn [run_emit run_step app]. rewrite E3, S3, S2. cbn [params cur_param inter].
  split; reflexivity.
Qed.

(** ** the general end-to-end dispatch theorem

    introducer (8-bit or 7-bit), optional private marker, any parameter text, any number of
    intermediates, any final byte: exactly what the hand-written function table [csi_spec]
    assigns to the block of the text and the LAST prefix byte; the parser is back in
    [Ground] (it is given in full).

    Side condition on a leading ':' : only WITHOUT a marker.  The marker moves the parser
    from [CsiEntry] to [CsiParam], where ':' is an ordinary part separator
    ([marked_colon_first_accepted] below), while directly after the introducer it leads
    to [CsiIgnore] ([colon_first_is_ignored] in ParamsWritten.v). *)
Theorem C03_params_dispatch_prefixed_sat : forall (t : ptext) p mk js c,
  PInv p -> digits_only t -> marker_ok mk -> (mk = None -> hd 0 (render t) <> 58) ->
  Forall (fun i => 32 <= i <= 47) js -> 64 <= c <= 126 ->
  runP p (155 :: opt_list mk ++ render t ++ js ++ [c])
  = Ok (mkParser Ground (spec_block t) (spec_cur t) (final_inter mk js),
        opt_cons (csi_spec (spec_block t) (spec_cur t) (final_inter mk js) c) [])
  /\ runP p (27 :: 91 :: opt_list mk ++ render t ++ js ++ [c])
  = Ok (mkParser Ground (spec_block t) (spec_cur t) (final_inter mk js),
        opt_cons (csi_spec (spec_block t) (spec_cur t) (final_inter mk js) c) []).
Proof.
  intros t p mk js c HP Ht Hm Hhd HJ Hc.
  destruct (prefixed_pure t p [155] mk js c HP (or_introl eq_refl) Hm Ht Hhd HJ Hc) as [E8 R8].
  destruct (prefixed_pure t p [27; 91] mk js c HP (or_intror eq_refl) Hm Ht Hhd HJ Hc) as [E7 R7].
  cbn [app] in E8, R8, E7, R7. rewrite !runP_char by exact HP.
  rewrite E8, R8, E7, R7, csi_table. split; reflexivity.
Qed.
Print Assumptions C03_params_dispatch_prefixed_sat.

Theorem C03_params_dispatch_prefixed : forall (t : ptext) p mk js c,
  PInv p -> wf_text t -> marker_ok mk -> (mk = None -> hd 0 (render t) <> 58) ->
  Forall (fun i => 32 <= i <= 47) js -> 64 <= c <= 126 ->
  runP p (155 :: opt_list mk ++ render t ++ js ++ [c])
  = Ok (mkParser Ground (written_block t) (written_cur t) (final_inter mk js),
        opt_cons (csi_spec (written_block t) (written_cur t) (final_inter mk js) c) [])
  /\ runP p (27 :: 91 :: opt_list mk ++ render t ++ js ++ [c])
  = Ok (mkParser Ground (written_block t) (written_cur t) (final_inter mk js),
        opt_cons (csi_spec (written_block t) (written_cur t) (final_inter mk js) c) []).
Proof.
  intros t p mk js c HP Hwf Hm Hhd HJ Hc.
  rewrite <- (spec_block_written t Hwf), <- (spec_cur_written t Hwf).
  apply C03_params_dispatch_prefixed_sat; auto. exact (proj1 Hwf).
Qed.
Print Assumptions C03_params_dispatch_prefixed.

(** ** the single-prefix cases, spelled out *)

(** a PRIVATE MARKER m in '<' '=' '>' '?': no condition on the first character of the text *)
Theorem C03_params_dispatch_marked : forall (t : ptext) p m c,
  PInv p -> wf_text t -> 60 <= m <= 63 -> 64 <= c <= 126 ->
  runP p (155 :: m :: render t ++ [c])
  = Ok (mkParser Ground (written_block t) (written_cur t) (Some m),
        opt_cons (csi_spec (written_block t) (written_cur t) (Some m) c) [])
  /\ runP p (27 :: 91 :: m :: render t ++ [c])
  = Ok (mkParser Ground (written_block t) (written_cur t) (Some m),
        opt_cons (csi_spec (written_block t) (written_cur t) (Some m) c) []).
Proof.
  intros t p m c HP Hwf Hm Hc.
  assert (Hhd : Some m = None -> hd 0 (render t) <> 58) by discriminate.
  pose proof (C03_params_dispatch_prefixed t p (Some m) [] c HP Hwf Hm Hhd (Forall_nil _) Hc) as H.
  cbn [opt_list app final_inter fold_left] in H. exact H.
Qed.
Print Assumptions C03_params_dispatch_marked.

(** one trailing INTERMEDIATE i in 0x20..0x2F between the parameters and the final byte *)
Theorem C03_params_dispatch_inter : forall (t : ptext) p i c,
  PInv p -> wf_text t -> hd 0 (render t) <> 58 -> 32 <= i <= 47 -> 64 <= c <= 126 ->
  runP p (155 :: render t ++ [i; c])
  = Ok (mkParser Ground (written_block t) (written_cur t) (Some i),
        opt_cons (csi_spec (written_block t) (written_cur t) (Some i) c) [])
  /\ runP p (27 :: 91 :: render t ++ [i; c])
  = Ok (mkParser Ground (written_block t) (written_cur t) (Some i),
        opt_cons (csi_spec (written_block t) (written_cur t) (Some i) c) []).
Proof.
  intros t p i c HP Hwf Hhd Hi Hc.
  assert (HJ : Forall (fun i => 32 <= i <= 47) [i]) by (constructor; [exact Hi|constructor]).
  pose proof (C03_params_dispatch_prefixed t p None [i] c HP Hwf I (fun _ => Hhd) HJ Hc) as H.
  cbn [opt_list app final_inter fold_left] in H. exact H.
Qed.
Print Assumptions C03_params_dispatch_inter.

(** BOTH a marker and an intermediate: the single [inter] slot holds the intermediate, the
    marker is forgotten (known finding KF-C20-1: [CSI ? 5 ! p] is dispatched as DECSTR,
    see [kf_c20_1_marker_lost]) *)
Theorem C03_params_dispatch_marked_inter : forall (t : ptext) p m i c,
  PInv p -> wf_text t -> 60 <= m <= 63 -> 32 <= i <= 47 -> 64 <= c <= 126 ->
  runP p (155 :: m :: render t ++ [i; c])
  = Ok (mkParser Ground (written_block t) (written_cur t) (Some i),
        opt_cons (csi_spec (written_block t) (written_cur t) (Some i) c) [])
  /\ runP p (27 :: 91 :: m :: render t ++ [i; c])
  = Ok (mkParser Ground (written_block t) (written_cur t) (Some i),
        opt_cons (csi_spec (written_block t) (written_cur t) (Some i) c) []).
Proof.
  intros t p m i c HP Hwf Hm Hi Hc.
  assert (Hhd : Some m = None -> hd 0 (render t) <> 58) by discriminate.
  assert (HJ : Forall (fun i => 32 <= i <= 47) [i]) by (constructor; [exact Hi|constructor]).
  pose proof (C03_params_dispatch_prefixed t p (Some m) [i] c HP Hwf Hm Hhd HJ Hc) as H.
  cbn [opt_list app final_inter fold_left] in H. exact H.
Qed.
Print Assumptions C03_params_dispatch_marked_inter.

(** ** reading the written block back as the list of written parameters *)

Lemma firstn_map_seq {B} (f : nat -> B) : forall k n a,
  (k <= n)%nat -> firstn k (map f (seq a n)) = map f (seq a k).
Proof.
  induction k as [|k IH]; intros n a H; [reflexivity|].
  destruct n as [|n]; [lia|]. cbn [seq map firstn]. f_equal. apply IH. lia.
Qed.

Lemma map_seq_nth {X Y} (g : X -> Y) (d : X) : forall l,
  map (fun i => g (nth i l d)) (seq 0 (length l)) = map g l.
Proof.
  induction l as [|x l IH]; [reflexivity|].
  cbn [length seq map nth]. f_equal. rewrite <- seq_shift, map_map. exact IH.
Qed.

(** the empty text and the text with one empty parameter are the same characters *)
Definition norm_text (t : ptext) : ptext := match t with [] => [[]] | _ => t end.

Lemma written_all t :
  wf_text t ->
  firstn (S (written_cur t)) (written_block t) = map written_param (norm_text t).
Proof.
  intros (_ & HL & _). unfold written_block, written_cur. unfold PARAMS_LEN in *.
  rewrite firstn_map_seq by lia.
  destruct t as [|q t]; [reflexivity|]. cbn [norm_text].
  replace (S (length (q :: t) - 1)) with (length (q :: t)) by (cbn [length]; lia).
  apply (map_seq_nth written_param []).
Qed.

Lemma as_u16_written q : as_u16 (written_param q) = pval (nth 0 q []).
Proof. reflexivity. Qed.

(** the first part of every written parameter *)
Definition first_values (t : ptext) : list N := map (fun q => pval (nth 0 q [])) t.

Lemma filter_map_map {X Y Z} (g : X -> Y) (f : Y -> option Z) l :
  filter_map f (map g l) = filter_map (fun x => f (g x)) l.
Proof. induction l as [|x l IH]; cbn; [reflexivity|]. now rewrite IH. Qed.

Lemma written_modes {Z} (f : N -> option Z) t :
  wf_text t -> f 0 = None ->
  filter_map (fun q => f (as_u16 q)) (firstn (S (written_cur t)) (written_block t))
  = filter_map f (first_values t).
Proof.
  intros Hwf H0. rewrite (written_all t Hwf). unfold first_values. rewrite !filter_map_map.
  destruct t as [|q t]; [|reflexivity].
  cbn [norm_text filter_map]. rewrite as_u16_written. cbn [nth]. rewrite pval_nil, H0. reflexivity.
Qed.

(** ** instances: DECSET / DECRST / DECSTR from the text *)

Lemma csi_spec_decset ps cp :
  csi_spec ps cp (Some 63) 104
  = Some (Decset (filter_map (fun q => dec_mode_spec (as_u16 q)) (firstn (S cp) ps))).
Proof. reflexivity. Qed.

Lemma csi_spec_decrst ps cp :
  csi_spec ps cp (Some 63) 108
  = Some (Decrst (filter_map (fun q => dec_mode_spec (as_u16 q)) (firstn (S cp) ps))).
Proof. reflexivity. Qed.

Lemma csi_spec_decstr ps cp : csi_spec ps cp (Some 33) 112 = Some Decstr.
Proof. reflexivity. Qed.

(** [CSI ? Pm h]: the listed modes that are implemented, in the order written (an
    unimplemented or missing number is skipped) *)
Theorem C03_decset_text : forall (t : ptext) p,
  PInv p -> wf_text t ->
  runP p (155 :: 63 :: render t ++ [104])
  = Ok (mkParser Ground (written_block t) (written_cur t) (Some 63),
        [Decset (filter_map dec_mode_spec (first_values t))])
  /\ runP p (27 :: 91 :: 63 :: render t ++ [104])
  = Ok (mkParser Ground (written_block t) (written_cur t) (Some 63),
        [Decset (filter_map dec_mode_spec (first_values t))]).
Proof.
  intros t p HP Hwf.
  assert (Hm : 60 <= 63 <= 63) by lia. assert (Hc : 64 <= 104 <= 126) by lia.
  pose proof (C03_params_dispatch_marked t p 63 104 HP Hwf Hm Hc) as H.
  rewrite csi_spec_decset, (written_modes dec_mode_spec t Hwf eq_refl) in H. exact H.
Qed.
Print Assumptions C03_decset_text.

(** [CSI ? Pm l] *)
Theorem C03_decrst_text : forall (t : ptext) p,
  PInv p -> wf_text t ->
  runP p (155 :: 63 :: render t ++ [108])
  = Ok (mkParser Ground (written_block t) (written_cur t) (Some 63),
        [Decrst (filter_map dec_mode_spec (first_values t))])
  /\ runP p (27 :: 91 :: 63 :: render t ++ [108])
  = Ok (mkParser Ground (written_block t) (written_cur t) (Some 63),
        [Decrst (filter_map dec_mode_spec (first_values t))]).
Proof.
  intros t p HP Hwf.
  assert (Hm : 60 <= 63 <= 63) by lia. assert (Hc : 64 <= 108 <= 126) by lia.
  pose proof (C03_params_dispatch_marked t p 63 108 HP Hwf Hm Hc) as H.
  rewrite csi_spec_decrst, (written_modes dec_mode_spec t Hwf eq_refl) in H. exact H.
Qed.
Print Assumptions C03_decrst_text.

(** [CSI ! p] (with any parameter text, which is ignored) *)
Theorem C03_decstr_text : forall (t : ptext) p,
  PInv p -> wf_text t -> hd 0 (render t) <> 58 ->
  runP p (155 :: render t ++ [33; 112])
  = Ok (mkParser Ground (written_block t) (written_cur t) (Some 33), [Decstr])
  /\ runP p (27 :: 91 :: render t ++ [33; 112])
  = Ok (mkParser Ground (written_block t) (written_cur t) (Some 33), [Decstr]).
Proof.
  intros t p HP Hwf Hhd.
  assert (Hi : 32 <= 33 <= 47) by lia. assert (Hc : 64 <= 112 <= 126) by lia.
  pose proof (C03_params_dispatch_inter t p 33 112 HP Hwf Hhd Hi Hc) as H.
  rewrite csi_spec_decstr in H. exact H.
Qed.
Print Assumptions C03_decstr_text.

(** ** examples *)

(** "?1049;25;7777;6": SaveCursorAltScreenBuffer, TextCursorEnable, (7777 skipped), Origin *)
Definition ex_modes : ptext := [ [[49; 48; 52; 57]]; [[50; 53]]; [[55; 55; 55; 55]]; [[54]] ].

Lemma ex_modes_wf : wf_text ex_modes.
Proof.
  unfold wf_text, digits_only, digits_param, is_digit, ex_modes, PARAMS_LEN, MAX_PARAM_LEN.
  repeat split; repeat constructor; cbn; lia.
Qed.

Example ex_decset_run :
  runP dirty_parser (155 :: 63 :: render ex_modes ++ [104])
  = Ok (mkParser Ground (written_block ex_modes) 3 (Some 63),
        [Decset [SaveCursorAltScreenBuffer; TextCursorEnable; Origin]])
  /\ filter_map dec_mode_spec (first_values ex_modes)
     = [SaveCursorAltScreenBuffer; TextCursorEnable; Origin].
Proof. vm_compute. split; reflexivity. Qed.

Example ex_decrst_run :
  run_emit dirty_parser (27 :: 91 :: 63 :: render ex_modes ++ [108])
  = [Decrst [SaveCursorAltScreenBuffer; TextCursorEnable; Origin]].
Proof. vm_compute. reflexivity. Qed.

Example ex_decstr_run :
  runP dirty_parser (155 :: render [] ++ [33; 112])
  = Ok (mkParser Ground (written_block []) 0 (Some 33), [Decstr])
  /\ run_emit dirty_parser (27 :: 91 :: render ex_modes ++ [33; 112]) = [Decstr].
Proof. vm_compute. split; reflexivity. Qed.

(** a marker other than '?' selects nothing; the sequence is consumed silently *)
Example ex_other_marker :
  run_emit dirty_parser (155 :: 62 :: render ex_modes ++ [104]) = []
  /\ pst (run_step dirty_parser (155 :: 62 :: render ex_modes ++ [104])) = Ground.
Proof. vm_compute. split; reflexivity. Qed.

(** after a marker a leading ':' is ACCEPTED (the parser is in [CsiParam]): "?:5h" has one
    parameter with parts [0; 5] - its first part 0 is no mode, so [Decset []] is emitted;
    without the marker the same text is dropped ([colon_first_is_ignored]) *)
Example marked_colon_first_accepted :
  hd 0 (render [[[]; [53]]]) = 58
  /\ runP init_parser (155 :: 63 :: render [[[]; [53]]] ++ [104])
     = Ok (mkParser Ground (written_block [[[]; [53]]]) 0 (Some 63), [Decset []])
  /\ run_emit init_parser (155 :: render [[[]; [53]]] ++ [104]) = [].
Proof. vm_compute. repeat split; reflexivity. Qed.

(** KF-C20-1 pinned on characters: "CSI ? 5 ! p" - the '!' overwrites the '?' in the single
    [inter] slot and the sequence is dispatched as DECSTR; "CSI ? 6 $ h" is not DECSET *)
Example kf_c20_1_marker_lost :
  run_emit init_parser (155 :: 63 :: render [[[53]]] ++ [33; 112]) = [Decstr]
  /\ run_emit init_parser (155 :: 63 :: render [[[54]]] ++ [36; 104]) = []
  /\ final_inter (Some 63) [33] = Some 33
  /\ final_inter None [36; 33] = Some 33.
Proof. vm_compute. repeat split; reflexivity. Qed.

(** a marker that is not the FIRST byte after the introducer: the sequence is ignored *)
Example marker_late_is_ignored :
  run_emit init_parser (155 :: 49 :: 63 :: [104]) = []
  /\ pst (run_step init_parser [155; 49; 63]) = CsiIgnore.
Proof. vm_compute. split; reflexivity. Qed.

(** * 2. ESC Fe and the 8-bit C1 control lead to [psim]-related parsers *)

Lemma esc_step p : PInv p -> feed_emit p 27 = None /\ feed_step p 27 = cleared Escape None.
Proof.
  intros HP. unfold feed_emit, feed_step. rewrite w_any_esc. cbn [t_kind t_clear t_next].
  rewrite clear_eq by exact HP. split; reflexivity.
Qed.

(** the pair reached by "ESC c" and by the C1 control c + 64, for each of the 32 characters *)
Lemma esc_fe_sim_pure c : 64 <= c <= 95 -> forall p,
  PInv p -> psim (feed_step (cleared Escape None) c) (feed_step p (c + 64)).
Proof.
  intros H p HP.
  assert (Hin : In c (codes_upto 96)) by (apply codes_upto_complete; cbn; lia).
  vm_compute in Hin.
  repeat (destruct Hin as [<-|Hin];
          [try (exfalso; lia);
           first [ apply psim_nodata; reflexivity
                 | unfold feed_step at 2;
                   match goal with |- context [williams (pst p) ?k] =>
                     let w := fresh "w" in
                     set (w := williams (pst p) k); vm_compute in w; subst w
                   end;
                   cbn [t_kind t_clear t_next]; rewrite (clear_eq p HP); apply psim_refl ] |]).
  destruct Hin.
Qed.

(** C03.3 at full strength: "ESC c" (64 <= c <= 95) and the C1 control c + 64 emit the same
    function AND leave parsers related by [psim], the relation under which
    [C03_memoryless] shows all future behaviour equal.  [psim] holds for every c; no
    counterexample exists (the string introducers DCS / CSI clear on both paths; OSC,
    SOS, PM, APC and the returns to Ground are states in which the collected data is dead).
    The two parsers are in general NOT equal: the 7-bit path clears the parameter block
    (entry action of [Escape]), the 8-bit path to [Ground] does not
    ([esc_fe_not_equal] below). *)
Theorem C03_esc_fe_sim : forall p c,
  PInv p -> 64 <= c <= 95 ->
  exists p1 p2 p3 f,
    feedM p 27 = Ok (p1, None) /\ feedM p1 c = Ok (p2, f)
    /\ feedM p (c + 64) = Ok (p3, f) /\ psim p2 p3 /\ PInv p2 /\ PInv p3.
Proof.
  intros p c HP Hc. destruct (esc_fe_pure c Hc p) as (E0 & E1 & _).
  destruct (esc_step p HP) as [_ S0].
  exists (feed_step p 27), (feed_step (feed_step p 27) c), (feed_step p (c + 64)),
         (feed_emit p (c + 64)).
  rewrite !feedM_char by auto using feed_step_inv. rewrite E0, E1.
  split; [reflexivity|]. split; [reflexivity|]. split; [reflexivity|].
  split; [|split; auto using feed_step_inv].
  rewrite S0. now apply esc_fe_sim_pure.
Qed.
Print Assumptions C03_esc_fe_sim.

(** where the target state has live data (DCS: c = 80, CSI: c = 91) the two parsers are EQUAL *)
Corollary C03_esc_fe_eq : forall p c,
  PInv p -> c = 80 \/ c = 91 ->
  feed_step (feed_step p 27) c = feed_step p (c + 64).
Proof.
  intros p c HP Hc.
  assert (Hr : 64 <= c <= 95) by lia.
  destruct (esc_step p HP) as [_ S0].
  pose proof (esc_fe_sim_pure c Hr p HP) as HS. rewrite <- S0 in HS.
  apply psim_data_eq; auto using feed_step_inv.
  rewrite S0. destruct Hc as [-> | ->]; reflexivity.
Qed.
Print Assumptions C03_esc_fe_eq.

(** composition with [C03_memoryless]: "acts exactly like" for EVERYTHING THAT FOLLOWS -
    after "ESC c" and after the C1 control the same input emits the same functions and
    leaves [psim]-related parsers *)
Theorem C03_esc_fe_follows : forall p c s,
  PInv p -> 64 <= c <= 95 ->
  exists p2 p3 fs,
    runP p (27 :: c :: s) = Ok (p2, fs) /\ runP p (c + 64 :: s) = Ok (p3, fs)
    /\ psim p2 p3 /\ PInv p2 /\ PInv p3.
Proof.
  intros p c s HP Hc.
  destruct (C03_esc_fe_sim p c HP Hc) as (p1 & q2 & q3 & f & F0 & F1 & F2 & HS & HP2 & HP3).
  destruct (C03_memoryless_all s q2 q3 HP2 HP3 HS) as (p2 & p3 & fs & R2 & R3 & HS').
  exists p2, p3, (opt_cons f fs). cbn [runP]. rewrite F0. cbn [bind]. rewrite F1. cbn [bind].
  rewrite R2, F2. cbn [bind]. rewrite R3. cbn [bind opt_cons].
  split; [reflexivity|]. split; [reflexivity|]. split; [exact HS'|]. split.
  - destruct (runP_total s q2 HP2) as (x & y & Rx & Hx). rewrite R2 in Rx.
    apply Ok_inj_pp in Rx. injection Rx as <- _. exact Hx.
  - destruct (runP_total s q3 HP3) as (x & y & Rx & Hx). rewrite R3 in Rx.
    apply Ok_inj_pp in Rx. injection Rx as <- _. exact Hx.
Qed.
Print Assumptions C03_esc_fe_follows.

(** non-vacuity: from the dirty state "ESC [ 38:2:1:2:3 ; 5", ESC D (IND) and 0x84 both emit
    [Lf] and end in [Ground], related by [psim], but the parsers differ (the 7-bit path has
    cleared the block) *)
Example esc_fe_not_equal :
  run_emit dirty_parser [27; 68] = [Lf] /\ run_emit dirty_parser [132] = [Lf]
  /\ pst (run_step dirty_parser [27; 68]) = Ground /\ pst (run_step dirty_parser [132]) = Ground
  /\ nth 0 (params (run_step dirty_parser [27; 68])) default_param = default_param
  /\ nth 0 (params (run_step dirty_parser [132])) default_param = mkParam 4 [38; 2; 1; 2; 3; 0].
Proof. vm_compute. repeat split; reflexivity. Qed.

(** ... and "ESC [" / 0x9B followed by the same parameters and final byte *)
Example esc_fe_follows_csi :
  runP dirty_parser (27 :: 91 :: [49; 59; 50; 72]) = runP dirty_parser (155 :: [49; 59; 50; 72])
  /\ run_emit dirty_parser (155 :: [49; 59; 50; 72]) = [Cup 1 2].
Proof. vm_compute. split; reflexivity. Qed.

(** * 3. the SGR branch of the executable statement [holds_C08] *)

(** a dispatching transition never runs the entry action [clear] *)
Definition disp_row (s : pstate) (c : N) : bool :=
  match t_kind (williams s c) with
  | KCsiDispatch => negb (t_clear (williams s c))
  | _ => true
  end.

Lemma disp_sweep :
  forallb (fun s => forallb (disp_row s) (codes_upto 161)) all_pstates = true.
Proof. vm_compute. reflexivity. Qed.

Lemma disp_row_all s c : disp_row s c = true.
Proof.
  pose proof disp_sweep as F. rewrite forallb_forall in F.
  specialize (F s (all_pstates_complete s)). rewrite forallb_forall in F.
  destruct (N.lt_ge_cases c 160) as [H|H].
  - apply F. apply codes_upto_complete. cbn. lia.
  - unfold disp_row. rewrite (williams_high s c H). apply (F 160).
    apply codes_upto_complete. cbn. lia.
Qed.

Lemma execute_spec_not_sgr c ops : execute_spec c <> Some (Sgr ops).
Proof.
  unfold execute_spec, c0c1_table, assoc_N.
  repeat match goal with |- context [N.eqb c ?k] => destruct (N.eqb c k) end; discriminate.
Qed.

Lemma esc_spec_not_sgr i c ops : esc_spec i c <> Some (Sgr ops).
Proof.
  unfold esc_spec. destruct i as [i|].
  - repeat match goal with |- context [if ?b then _ else _] => destruct b end; discriminate.
  - destruct ((64 <=? c) && (c <=? 95)); [apply execute_spec_not_sgr|].
    repeat match goal with |- context [if ?b then _ else _] => destruct b end; discriminate.
Qed.

(** the only entry of the function table that yields an SGR: its operations are the decoder's
    reading of [params[..=cur_param]] *)
Lemma csi_spec_sgr ps cp i c ops :
  csi_spec ps cp i c = Some (Sgr ops) -> ops = sgr_ops (firstn (S cp) ps).
Proof.
  unfold csi_spec. destruct i as [i|].
  - repeat match goal with |- context [if ?b then _ else _] => destruct b end; discriminate.
  - unfold csi_plain, assoc_N, ed_spec, el_spec, ctc_spec, tbc_spec, xtwinops_spec, assoc_N.
    repeat match goal with |- context [N.eqb ?x ?k] => destruct (N.eqb x k) end;
      intros H; try discriminate H.
    injection H as <-. reflexivity.
Qed.

Lemma emit_sgr_inv p c ops :
  feed_emit p c = Some (Sgr ops) ->
  t_kind (williams (pst p) c) = KCsiDispatch
  /\ ops = sgr_ops (firstn (S (cur_param p)) (params p)).
Proof.
  unfold feed_emit. destruct (t_kind (williams (pst p) c)); try discriminate.
  - rewrite execute_table. intros H. exfalso. exact (execute_spec_not_sgr _ _ H).
  - rewrite (proj1 (esc_table (inter p) c)). intros H. exfalso. exact (esc_spec_not_sgr _ _ _ H).
  - rewrite csi_table. intros H. split; [reflexivity|]. exact (csi_spec_sgr _ _ _ _ _ H).
Qed.

Lemma step_sgr_inv p c ops :
  feed_emit p c = Some (Sgr ops) ->
  params (feed_step p c) = params p /\ cur_param (feed_step p c) = cur_param p
  /\ ops = spec_sgr_params (firstn (S (cur_param p)) (params p)).
Proof.
  intros H. destruct (emit_sgr_inv p c ops H) as [K E].
  pose proof (disp_row_all (pst p) c) as D. unfold disp_row in D. rewrite K in D.
  unfold feed_step. destruct (t_clear (williams (pst p) c)); [discriminate D|]. rewrite K.
  split; [destruct p; reflexivity|]. split; [destruct p; reflexivity|].
  now rewrite <- sgr_decode_spec_gen.
Qed.

Lemma sgr_op_eqb_refl o : sgr_op_eqb o o = true.
Proof. destruct o; cbn; try reflexivity; apply color_eqb_refl. Qed.

Lemma obs_eqb_refl o : obs_eqb o o = true.
Proof.
  unfold obs_eqb.
  rewrite !(opt_eqb_refl _ color_eqb_refl), inten_eqb_refl, !Bool.eqb_reflx. reflexivity.
Qed.

(** The SGR branch of [holds_C08]:
      - the pen observations after the step are the fold of [spec_sgr_one] over [ops],
      - nothing but the pen changed ([visible_eqb] after putting the new pen into the old
        terminal),
      - [sgr_decode_ok ops (vparser post)]: [ops] is the grammar's reading
        ([spec_sgr_params]) of the parameters the parser holds AFTER the step.
    The third conjunct is about the parser, so it is true exactly when [ops] is what the
    parser emitted on the step from [p] to [p'] - hypothesis [feedM p c = Ok (p', Some (Sgr ops))]
    (the CSI dispatch keeps the parameter block, so [p'] still holds the parameters that
    were decoded).  No hypothesis on the terminal is needed ([TInv t] is not used:
    [execute t (Sgr ops)] is total and touches the pen only); [PInv p] is the parser
    invariant (holds in every reachable state).  For an ARBITRARY pair (p', ops) the
    statement is false: [sgr_statement_needs_step]. *)
Theorem C08_sgr_statement : forall p c p' t ops t',
  PInv p -> feedM p c = Ok (p', Some (Sgr ops)) -> execute t (Sgr ops) = Ok t' ->
  holds_C08 (mkVt p t) (Sgr ops) (mkVt p' t') = true.
Proof.
  intros p c p' t ops t' HP HF HE.
  rewrite feedM_char in HF by exact HP. apply Ok_inj_pp in HF.
  injection HF as <- HEm.
  destruct (step_sgr_inv p c ops HEm) as (EP & EC & EO).
  rewrite C08_execute_sgr in HE. apply Ok_inj_pp in HE.
  unfold holds_C08. cbn [vterm vparser].
  assert (Hpen : tpen t' = fold_left sgr_one ops (tpen t)) by (subst t'; destruct t; reflexivity).
  assert (Hvis : t <| tpen := tpen t' |> = t') by (subst t'; destruct t; reflexivity).
  rewrite Hvis, visible_eqb_refl, Hpen, sgr_fold_observe, obs_eqb_refl.
  unfold sgr_decode_ok. rewrite EP, EC, <- EO.
  rewrite (list_eqb_refl _ sgr_op_eqb_refl). reflexivity.
Qed.
Print Assumptions C08_sgr_statement.

(** the same with the shape asked for (the terminal invariant is an unused hypothesis) *)
Corollary C08_sgr_statement_TInv : forall p c p' t ops t',
  TInv t -> PInv p -> feedM p c = Ok (p', Some (Sgr ops)) -> execute t (Sgr ops) = Ok t' ->
  holds_C08 (mkVt p t) (Sgr ops) (mkVt p' t') = true.
Proof. intros p c p' t ops t' _. apply C08_sgr_statement. Qed.
Print Assumptions C08_sgr_statement_TInv.

(** on the public machine: every [Vt::feed] whose character completes an SGR sequence *)
Corollary C08_sgr_vt_feed : forall v c p' ops v',
  PInv (vparser v) -> feedM (vparser v) c = Ok (p', Some (Sgr ops)) -> vt_feed v c = Ok v' ->
  holds_C08 v (Sgr ops) v' = true.
Proof.
  intros v c p' ops v' HP HF HV. unfold vt_feed in HV. rewrite HF in HV. cbn [bind] in HV.
  rewrite C08_execute_sgr in HV. cbn [bind] in HV. apply Ok_inj_pp in HV. subst v'.
  destruct v as [p t]. cbn [vparser vterm] in *.
  eapply C08_sgr_statement; [exact HP|exact HF|apply C08_execute_sgr].
Qed.
Print Assumptions C08_sgr_vt_feed.

(** non-vacuity: the state reached by "ESC [ 1 ; 38:2:1:2:3" on a 10x3 terminal, then 'm' *)
Definition sgr_pre : res (vt * out) :=
  feed_str (vt_new 10 3 None) [27; 91; 49; 59; 51; 56; 58; 50; 58; 49; 58; 50; 58; 51].

Example sgr_statement_example :
  match sgr_pre with
  | Ok (v, _) =>
    match feedM (vparser v) 109, vt_feed v 109 with
    | Ok (p', Some (Sgr ops)), Ok v' =>
      ops = [SetBoldIntensity; SetForegroundColor (RGB 1 2 3)]
      /\ holds_C08 v (Sgr ops) v' = true
      /\ observe (tpen (vterm v'))
         = mkObs (Some (RGB 1 2 3)) None Bold false false false false false
    | _, _ => False
    end
  | _ => False
  end.
Proof. vm_compute. repeat split; reflexivity. Qed.

(** the parser-step hypothesis cannot be dropped: with a parser that did not emit them the
    same ops fail the decoding conjunct *)
Example sgr_statement_needs_step :
  match sgr_pre with
  | Ok (v, _) =>
    match execute (vterm v) (Sgr [SetItalic]) with
    | Ok t' => holds_C08 v (Sgr [SetItalic]) (mkVt (vparser v) t') = false
    | _ => False
    end
  | _ => False
  end.
Proof. vm_compute. reflexivity. Qed.

(** * 4. the SGR grammar on the TEXT *)

Lemma csi_spec_sgr_m ps cp : csi_spec ps cp None 109 = Some (Sgr (sgr_ops (firstn (S cp) ps))).
Proof. rewrite <- csi_table. reflexivity. Qed.

(** the composition of [C03_params_written_dispatch] with [C08_decode]: from ANY parser
    state, the 8-bit or 7-bit CSI introducer, a parameter text within the capacity and 'm'
    emit exactly one [Sgr] whose operations are the grammar's reading of the parameter block
    as written *)
Theorem C08_sgr_text : forall (t : ptext) p,
  PInv p -> wf_text t -> hd 0 (render t) <> 58 ->
  runP p (155 :: render t ++ [109])
  = Ok (mkParser Ground (written_block t) (written_cur t) None,
        [Sgr (spec_sgr_params (firstn (S (written_cur t)) (written_block t)))])
  /\ runP p (27 :: 91 :: render t ++ [109])
  = Ok (mkParser Ground (written_block t) (written_cur t) None,
        [Sgr (spec_sgr_params (firstn (S (written_cur t)) (written_block t)))]).
Proof.
  intros t p HP Hwf Hhd.
  assert (Hc : 64 <= 109 <= 126) by lia.
  pose proof (C03_params_dispatch_prefixed t p None [] 109 HP Hwf I (fun _ => Hhd) (Forall_nil _) Hc) as H.
  cbn [opt_list app final_inter fold_left] in H.
  rewrite csi_spec_sgr_m, sgr_decode_spec_gen in H. exact H.
Qed.
Print Assumptions C08_sgr_text.

(** ** ... with the block read back as the values written in the text *)

(** the parts of a written parameter: the values of its digit strings; an empty parameter
    is the single part 0 *)
Definition parts_of (q : list (list N)) : list N :=
  match q with [] => [0] | _ => map pval q end.

Definition text_parts (t : ptext) : list (list N) :=
  match t with [] => [[0]] | _ => map parts_of t end.

Lemma pparts_written q : (length q <= MAX_PARAM_LEN)%nat -> pparts (written_param q) = parts_of q.
Proof.
  unfold MAX_PARAM_LEN. intros H. unfold pparts, written_param. cbn [cur_part parts].
  unfold MAX_PARAM_LEN. rewrite firstn_map_seq by lia.
  destruct q as [|x q]; [reflexivity|]. cbn [parts_of].
  replace (S (length (x :: q) - 1)) with (length (x :: q)) by (cbn [length]; lia).
  apply (map_seq_nth pval []).
Qed.

Lemma written_pparts t :
  wf_text t ->
  map pparts (firstn (S (written_cur t)) (written_block t)) = text_parts t.
Proof.
  intros Hwf. rewrite (written_all t Hwf). destruct Hwf as (_ & _ & HF).
  destruct t as [|q t]; [reflexivity|]. cbn [norm_text text_parts].
  rewrite map_map. apply map_ext_in. intros x Hx. apply pparts_written.
  rewrite Forall_forall in HF. now apply HF.
Qed.

Lemma written_firstn_length t :
  wf_text t -> length (firstn (S (written_cur t)) (written_block t)) = length (text_parts t).
Proof. intros Hwf. rewrite <- (written_pparts t Hwf). now rewrite map_length. Qed.

(** the grammar of the property text ([spec_sgr], Spec/Screen.v) applied to the VALUES
    WRITTEN IN THE TEXT - no reference to the parser's parameter array *)
Theorem C08_sgr_text_grammar : forall (t : ptext) p,
  PInv p -> wf_text t -> hd 0 (render t) <> 58 ->
  runP p (155 :: render t ++ [109])
  = Ok (mkParser Ground (written_block t) (written_cur t) None,
        [Sgr (spec_sgr (S (length (text_parts t))) (text_parts t))])
  /\ runP p (27 :: 91 :: render t ++ [109])
  = Ok (mkParser Ground (written_block t) (written_cur t) None,
        [Sgr (spec_sgr (S (length (text_parts t))) (text_parts t))]).
Proof.
  intros t p HP Hwf Hhd. pose proof (C08_sgr_text t p HP Hwf Hhd) as H.
  unfold spec_sgr_params in H.
  rewrite (written_pparts t Hwf), (written_firstn_length t Hwf) in H. exact H.
Qed.
Print Assumptions C08_sgr_text_grammar.

(** ** the two colour spellings, fully spelled *)

Definition numeral (ds : list N) : Prop := Forall is_digit ds.

Lemma byte_pval ds : digit_value ds < 256 -> byte (pval ds) = digit_value ds.
Proof. intros H. unfold byte, pval. rewrite !N.mod_small by lia. reflexivity. Qed.

(** "38;2;R;G;B" *)
Definition rgb_semicolons (r g b : list N) : ptext := [ [[51; 56]]; [[50]]; [r]; [g]; [b] ].
(** "38:2:R:G:B" *)
Definition rgb_colons (r g b : list N) : ptext := [ [[51; 56]; [50]; r; g; b] ].
(** "38:2::R:G:B" (empty colour-space identifier) *)
Definition rgb_colons_cs (r g b : list N) : ptext := [ [[51; 56]; [50]; []; r; g; b] ].

Lemma rgb_render r g b :
  render (rgb_semicolons r g b) = [51; 56; 59; 50; 59] ++ r ++ 59 :: g ++ 59 :: b
  /\ render (rgb_colons r g b) = [51; 56; 58; 50; 58] ++ r ++ 58 :: g ++ 58 :: b
  /\ render (rgb_colons_cs r g b) = [51; 56; 58; 50; 58; 58] ++ r ++ 58 :: g ++ 58 :: b.
Proof. repeat split; reflexivity. Qed.

Lemma digit_38 : Forall is_digit [51; 56].
Proof. unfold is_digit. repeat constructor; lia. Qed.
Lemma digit_2 : Forall is_digit [50].
Proof. unfold is_digit. repeat constructor; lia. Qed.

Lemma rgb_texts_wf r g b :
  numeral r -> numeral g -> numeral b ->
  wf_text (rgb_semicolons r g b) /\ wf_text (rgb_colons r g b) /\ wf_text (rgb_colons_cs r g b).
Proof.
  intros Hr Hg Hb. pose proof digit_38 as H38. pose proof digit_2 as H2.
  unfold wf_text, digits_only, digits_param, PARAMS_LEN, MAX_PARAM_LEN,
    rgb_semicolons, rgb_colons, rgb_colons_cs.
  repeat split; repeat constructor; auto; cbn [length]; lia.
Qed.

Lemma rgb_texts_hd r g b :
  hd 0 (render (rgb_semicolons r g b)) <> 58 /\ hd 0 (render (rgb_colons r g b)) <> 58
  /\ hd 0 (render (rgb_colons_cs r g b)) <> 58.
Proof. repeat split; cbn; discriminate. Qed.

Lemma rgb_grammar r g b :
  digit_value r < 256 -> digit_value g < 256 -> digit_value b < 256 ->
  let ops := [SetForegroundColor (RGB (digit_value r) (digit_value g) (digit_value b))] in
  spec_sgr (S (length (text_parts (rgb_semicolons r g b)))) (text_parts (rgb_semicolons r g b)) = ops
  /\ spec_sgr (S (length (text_parts (rgb_colons r g b)))) (text_parts (rgb_colons r g b)) = ops
  /\ spec_sgr (S (length (text_parts (rgb_colons_cs r g b)))) (text_parts (rgb_colons_cs r g b)) = ops.
Proof.
  intros Hr Hg Hb ops. subst ops.
  rewrite <- (byte_pval r Hr), <- (byte_pval g Hg), <- (byte_pval b Hb).
  repeat split; cbv -[pval byte]; reflexivity.
Qed.

Lemma runP_emit p s q fs : PInv p -> runP p s = Ok (q, fs) -> run_emit p s = fs.
Proof.
  intros HP H. rewrite runP_char in H by exact HP. apply Ok_inj_pp in H.
  injection H as _ H. exact H.
Qed.

(** R, G, B any decimal numerals (leading zeros allowed) of value < 256; from any parser
    state; 8-bit and 7-bit introducer: all three spellings emit the same single operation *)
Theorem C08_sgr_rgb_spellings : forall (r g b : list N) p,
  PInv p -> numeral r -> numeral g -> numeral b ->
  digit_value r < 256 -> digit_value g < 256 -> digit_value b < 256 ->
  let ops := [Sgr [SetForegroundColor (RGB (digit_value r) (digit_value g) (digit_value b))]] in
  run_emit p (155 :: render (rgb_semicolons r g b) ++ [109]) = ops
  /\ run_emit p (155 :: render (rgb_colons r g b) ++ [109]) = ops
  /\ run_emit p (155 :: render (rgb_colons_cs r g b) ++ [109]) = ops
  /\ run_emit p (27 :: 91 :: render (rgb_semicolons r g b) ++ [109]) = ops
  /\ run_emit p (27 :: 91 :: render (rgb_colons r g b) ++ [109]) = ops
  /\ run_emit p (27 :: 91 :: render (rgb_colons_cs r g b) ++ [109]) = ops.
Proof.
  intros r g b p HP Nr Ng Nb Hr Hg Hb ops. subst ops.
  destruct (rgb_texts_wf r g b Nr Ng Nb) as (W1 & W2 & W3).
  destruct (rgb_texts_hd r g b) as (D1 & D2 & D3).
  destruct (rgb_grammar r g b Hr Hg Hb) as (G1 & G2 & G3).
  destruct (C08_sgr_text_grammar _ p HP W1 D1) as [A1 B1].
  destruct (C08_sgr_text_grammar _ p HP W2 D2) as [A2 B2].
  destruct (C08_sgr_text_grammar _ p HP W3 D3) as [A3 B3].
  rewrite G1 in A1, B1. rewrite G2 in A2, B2. rewrite G3 in A3, B3.
  split; [exact (runP_emit _ _ _ _ HP A1)|]. split; [exact (runP_emit _ _ _ _ HP A2)|].
  split; [exact (runP_emit _ _ _ _ HP A3)|]. split; [exact (runP_emit _ _ _ _ HP B1)|].
  split; [exact (runP_emit _ _ _ _ HP B2)|exact (runP_emit _ _ _ _ HP B3)].
Qed.
Print Assumptions C08_sgr_rgb_spellings.

(** the same as [runP] results (with the final parser), for pinning *)
Theorem C08_sgr_rgb_text : forall (r g b : list N) p,
  PInv p -> numeral r -> numeral g -> numeral b ->
  digit_value r < 256 -> digit_value g < 256 -> digit_value b < 256 ->
  forall t, t = rgb_semicolons r g b \/ t = rgb_colons r g b \/ t = rgb_colons_cs r g b ->
  runP p (155 :: render t ++ [109])
  = Ok (mkParser Ground (written_block t) (written_cur t) None,
        [Sgr [SetForegroundColor (RGB (digit_value r) (digit_value g) (digit_value b))]])
  /\ runP p (27 :: 91 :: render t ++ [109])
  = Ok (mkParser Ground (written_block t) (written_cur t) None,
        [Sgr [SetForegroundColor (RGB (digit_value r) (digit_value g) (digit_value b))]]).
Proof.
  intros r g b p HP Nr Ng Nb Hr Hg Hb t Ht.
  destruct (rgb_texts_wf r g b Nr Ng Nb) as (W1 & W2 & W3).
  destruct (rgb_texts_hd r g b) as (D1 & D2 & D3).
  destruct (rgb_grammar r g b Hr Hg Hb) as (G1 & G2 & G3).
  destruct Ht as [-> | [-> | ->]].
  - rewrite <- G1. now apply C08_sgr_text_grammar.
  - rewrite <- G2. now apply C08_sgr_text_grammar.
  - rewrite <- G3. now apply C08_sgr_text_grammar.
Qed.
Print Assumptions C08_sgr_rgb_text.

(** examples: "38;2;255;007;0", "38:2:255:007:0", "38:2::255:007:0" from the dirty state *)
Example ex_rgb_spellings :
  let r := [50; 53; 53] in let g := [48; 48; 55] in let b := [48] in
  run_emit dirty_parser (155 :: render (rgb_semicolons r g b) ++ [109])
  = [Sgr [SetForegroundColor (RGB 255 7 0)]]
  /\ run_emit dirty_parser (155 :: render (rgb_colons r g b) ++ [109])
  = [Sgr [SetForegroundColor (RGB 255 7 0)]]
  /\ run_emit dirty_parser (27 :: 91 :: render (rgb_colons_cs r g b) ++ [109])
  = [Sgr [SetForegroundColor (RGB 255 7 0)]]
  /\ (digit_value r, digit_value g, digit_value b) = (255, 7, 0).
Proof. vm_compute. repeat split; reflexivity. Qed.

(** several parameters per sequence: "1;;38:5:200;48;5;17;4" = bold, reset, fg 200, bg 17,
    underline - read off the TEXT by [C08_sgr_text_grammar] *)
Definition ex_sgr_text : ptext :=
  [ [[49]]; [[]]; [[51; 56]; [53]; [50; 48; 48]]; [[52; 56]]; [[53]]; [[49; 55]]; [[52]] ].

Example ex_sgr_text_grammar :
  text_parts ex_sgr_text = [[1]; [0]; [38; 5; 200]; [48]; [5]; [17]; [4]]
  /\ spec_sgr (S (length (text_parts ex_sgr_text))) (text_parts ex_sgr_text)
     = [SetBoldIntensity; Reset; SetForegroundColor (Indexed 200);
        SetBackgroundColor (Indexed 17); SetUnderline]
  /\ run_emit dirty_parser (155 :: render ex_sgr_text ++ [109])
     = [Sgr [SetBoldIntensity; Reset; SetForegroundColor (Indexed 200);
             SetBackgroundColor (Indexed 17); SetUnderline]].
Proof. vm_compute. repeat split; reflexivity. Qed.

(** the empty text: "CSI m" is one parameter of value 0 = Reset *)
Example ex_sgr_empty :
  text_parts [] = [[0]]
  /\ run_emit dirty_parser (155 :: render [] ++ [109]) = [Sgr [Reset]].
Proof. vm_compute. split; reflexivity. Qed.
