(** C14, last sentence: [util::TextCollector] yields the same text for every scrollback limit
    AND every chunking of the input ([C14_collector_any]).

    Route.  For one session [ss] run with ANY limit [L : option N] ([stream_any]):
    - the run of the same session with unlimited scrollback exists ([session_exists]: the
      relation [Rx] of Proofs/ParamChop.v transports "no panic" from the limited run to the
      unlimited one - for [feed_chars] by [feed_chars_Rx_nr], for the flush because the active
      buffer of the unlimited run either has no limit or IS the buffer of the limited run);
      no hypothesis [1 <= c], [1 <= r] is needed;
    - it shows the same screen ([x_active]);
    - drained ++ final lines of the limited run = lines of the unlimited run ([session_Rx], as
      in [C14_stream], here also for [L = None]).
    Two chunkings of the same character stream, both run unlimited, end with the same [lines]
    of the primary buffer ([sessions_new] + [Robs_common] of Proofs/ChunkSessions.v, the
    propositional content of [C12_sessions_unlimited]).  [collector_total_strip] (closed form of
    the collector's output over drained ++ final lines) finishes. *)

From Coq Require Import List Lia ZArith.
From Avt Require Import Proofs.Inv Proofs.ParamDT Proofs.ParamChop Proofs.ChunkSessions
  Proofs.Collector.
Import ListNotations.

(** * 1. the flush of the unlimited run cannot panic if the limited one does not *)

Lemma buf_gc_none b : blimit b = None -> exists y, buf_gc b = Ok y.
Proof.
  intros E. destruct b as [ls bc br bl tn]. cbn [blimit] in E. subst bl.
  unfold buf_gc. cbn [trim_needed]. destruct tn; eexists; reflexivity.
Qed.

Lemma RBg_nil_eq c r l b1 b2 : RBg true c r l l [] b1 b2 -> b1 = b2.
Proof.
  intros [H1 _ H3 H4 H5 H6 H7 H8 H9]. specialize (H9 eq_refl).
  destruct b1 as [ls1 bc1 br1 bl1 tn1], b2 as [ls2 bc2 br2 bl2 tn2].
  cbn [lines bcols brows blimit trim_needed app] in *. congruence.
Qed.

Lemma gc_left_ok L Dp a b :
  Rx true false None L Dp [] a b ->
  (exists y, buf_gc (buf b) = Ok y) -> exists y, buf_gc (buf a) = Ok y.
Proof.
  intros H Hb. pose proof (x_buf _ _ _ _ _ _ _ _ H) as G.
  destruct (active a) eqn:EA; cbn [lim_sel Dsel] in G.
  - apply buf_gc_none. rewrite (g_l1 _ _ _ _ _ _ _ _ G), (x_sl1 _ _ _ _ _ _ _ _ H). reflexivity.
  - rewrite (RBg_nil_eq _ _ _ _ _ G). exact Hb.
Qed.

Lemma vt_flush_gc v v' o : vt_flush v = Ok (v', o) -> exists y, buf_gc (buf (vterm v)) = Ok y.
Proof.
  unfold vt_flush, changes, term_gc. psimpl. intros E.
  destruct (buf_gc (buf (vterm v))) as [y|e]; [exists y; reflexivity|discriminate].
Qed.

Lemma gc_vt_flush v : (exists y, buf_gc (buf (vterm v)) = Ok y) -> exists v' o, vt_flush v = Ok (v', o).
Proof.
  intros [[b d] E]. unfold vt_flush, changes, term_gc. psimpl. rewrite E. cbn [bind]. psimpl.
  destruct (active (vterm v)); eexists; eexists; reflexivity.
Qed.

(** * 2. the unlimited run of a session exists whenever a limited one does *)

Lemma session_exists L ss : forall Dp vI vL vL' outsL,
  Rvx true false None L Dp [] vI vL -> session_ris_free vI ss ->
  run_session vL ss = Ok (vL', outsL) ->
  exists vI' outsI, run_session vI ss = Ok (vI', outsI).
Proof.
  induction ss as [|s ss IH]; intros Dp vI vL vL' outsL H HF EL; cbn [run_session] in *.
  - eexists; eexists; reflexivity.
  - destruct HF as [HF1 HF2].
    destruct (feed_str vL s) as [[uL oL]|e] eqn:FL; cbn [bind fst snd] in EL; [|discriminate].
    destruct (run_session uL ss) as [[wL osL]|e] eqn:RL; cbn [bind fst snd] in EL; [|discriminate].
    pose proof FL as FL'. apply feed_str_inv in FL'. destruct FL' as (cL & CL & GL).
    destruct (rres_ok_inv_r _ _ _ _ (feed_chars_Rx_nr true false None L Dp s vI vL H HF1) CL)
      as (cI & CI & [Hp Hx]).
    destruct (gc_vt_flush cI (gc_left_ok _ _ _ _ Hx (vt_flush_gc _ _ _ GL))) as (uI & oI & GI).
    assert (FI : feed_str vI s = Ok (uI, oI)).
    { unfold feed_str. rewrite CI. cbn [bind]. exact GI. }
    specialize (HF2 _ _ FI).
    apply vt_flush_inv in GI, GL. destruct GI as (PI & TI & DI). destruct GL as (PL & TL & DL).
    pose proof (flush_C14 _ _ _ _ Hx) as Hf. rewrite <- TI, <- TL in Hf.
    assert (Hu : Rvx true false None L
                   (Dp ++ match active (vterm cI) with
                          | Primary => firstn (BufScroll.gc_excess (buf (vterm cL))) (lines (buf (vterm cL)))
                          | Alternate => []
                          end) [] uI uL) by (split; [congruence|exact Hf]).
    destruct (IH _ _ _ _ _ Hu HF2 RL) as (wI & osI & RI).
    rewrite FI. cbn [bind fst snd]. rewrite RI. cbn [bind fst snd].
    eexists; eexists; reflexivity.
Qed.

(** * 3. one session, any limit, against its unlimited run *)

Theorem stream_any : forall c r (L : option N) ss v outs,
  session_ris_free (vt_new c r None) ss ->
  run_session (vt_new c r L) ss = Ok (v, outs) ->
  exists vI outsI,
    run_session (vt_new c r None) ss = Ok (vI, outsI)
    /\ active (vterm vI) = active (vterm v)
    /\ concat (map o_drained outsI) = []
    /\ (active (vterm v) = Primary ->
        concat (map o_drained outs) ++ lines (buf (vterm v)) = lines (buf (vterm vI))).
Proof.
  intros c r L ss v outs HF EL.
  assert (H0 : Rvx true false None L [] [] (vt_new c r None) (vt_new c r L)).
  { split; [reflexivity|apply Rx_new]. }
  destruct (session_exists _ _ _ _ _ _ _ H0 HF EL) as (vI & outsI & EI).
  exists vI, outsI. split; [exact EI|].
  destruct (session_Rx _ _ _ _ _ _ _ _ _ H0 HF EI EL) as [[_ H] HD]. cbn [app] in H.
  pose proof (x_active _ _ _ _ _ _ _ _ H) as HA.
  split; [exact HA|]. split; [exact HD|].
  intros EA. pose proof (x_buf _ _ _ _ _ _ _ _ H) as Hb.
  rewrite HA, EA in Hb. cbn [Dsel] in Hb.
  symmetry. exact (g_lines _ _ _ _ _ _ _ _ Hb).
Qed.

Print Assumptions stream_any.

(** * 4. two chunkings of one stream, unlimited scrollback: same screen, same lines *)

Lemma unlimited_chunks_lines c r ss1 ss2 v1 o1 v2 o2 :
  concat ss1 = concat ss2 ->
  run_session (vt_new c r None) ss1 = Ok (v1, o1) ->
  run_session (vt_new c r None) ss2 = Ok (v2, o2) ->
  active (vterm v1) = active (vterm v2)
  /\ (active (vterm v1) = Primary -> lines (buf (vterm v1)) = lines (buf (vterm v2))).
Proof.
  intros EC E1 E2.
  destruct (sessions_new _ _ _ _ _ _ E1) as (u1 & Dp1 & Da1 & F1 & [P1 X1] & D1).
  destruct (sessions_new _ _ _ _ _ _ E2) as (u2 & Dp2 & Da2 & F2 & [P2 X2] & D2).
  rewrite EC, F2 in F1. injection F1 as ->.
  rewrite (D1 eq_refl) in X1. rewrite (D2 eq_refl) in X2.
  pose proof (Robs_common _ _ _ _ _ X1 X2) as HO.
  split; [|exact (o_lines _ _ HO)].
  pose proof (o_scal _ _ HO) as HS. unfold scal in HS. injection HS. intros. assumption.
Qed.

(** * 5. the collector *)

Theorem C14_collector_any : forall c r L1 L2 ss1 ss2 v1 outs1 v2 outs2,
  concat ss1 = concat ss2 ->
  session_ris_free (vt_new c r None) ss1 ->
  session_ris_free (vt_new c r None) ss2 ->
  run_session (vt_new c r L1) ss1 = Ok (v1, outs1) ->
  run_session (vt_new c r L2) ss2 = Ok (v2, outs2) ->
  active (vterm v1) = Primary ->
  strip_empty_tail (collector_total outs1 (lines (buf (vterm v1))))
  = strip_empty_tail (collector_total outs2 (lines (buf (vterm v2)))).
Proof.
  intros c r L1 L2 ss1 ss2 v1 outs1 v2 outs2 EC HF1 HF2 E1 E2 HA.
  destruct (stream_any c r L1 ss1 v1 outs1 HF1 E1) as (vI1 & oI1 & R1 & A1 & _ & S1).
  destruct (stream_any c r L2 ss2 v2 outs2 HF2 E2) as (vI2 & oI2 & R2 & A2 & _ & S2).
  destruct (unlimited_chunks_lines c r ss1 ss2 vI1 oI1 vI2 oI2 EC R1 R2) as [AI LI].
  assert (HA2 : active (vterm v2) = Primary) by congruence.
  rewrite !collector_total_strip, (S1 HA), (S2 HA2), LI by congruence. reflexivity.
Qed.

Print Assumptions C14_collector_any.

(** the screens agree, too: leaving [active (vterm v1) = Primary] as the only side condition
    is not a loss of generality *)
Corollary chunks_active : forall c r L1 L2 ss1 ss2 v1 outs1 v2 outs2,
  concat ss1 = concat ss2 ->
  session_ris_free (vt_new c r None) ss1 ->
  session_ris_free (vt_new c r None) ss2 ->
  run_session (vt_new c r L1) ss1 = Ok (v1, outs1) ->
  run_session (vt_new c r L2) ss2 = Ok (v2, outs2) ->
  active (vterm v1) = active (vterm v2).
Proof.
  intros c r L1 L2 ss1 ss2 v1 outs1 v2 outs2 EC HF1 HF2 E1 E2.
  destruct (stream_any c r L1 ss1 v1 outs1 HF1 E1) as (vI1 & oI1 & R1 & A1 & _).
  destruct (stream_any c r L2 ss2 v2 outs2 HF2 E2) as (vI2 & oI2 & R2 & A2 & _).
  destruct (unlimited_chunks_lines c r ss1 ss2 vI1 oI1 vI2 oI2 EC R1 R2) as [AI _].
  congruence.
Qed.

(** * 6. a single hypothesis on the character stream

    [ris_at] reads the parser only, and the parser runs independently of the terminal and of
    the flushes: "no [Ris] is ever emitted" can be stated once, on the parser and the whole
    stream, and implies [session_ris_free] for every chunking and every terminal. *)

Fixpoint pris_free (p : parser) (s : list N) : Prop :=
  match s with
  | [] => True
  | c :: r =>
    match feedM p c with
    | Ok (p', f) => match f with Some Ris => False | _ => True end /\ pris_free p' r
    | Panic _ => True
    end
  end.

(** the parser after [s] ([None] if it panics) *)
Fixpoint pafter (p : parser) (s : list N) : option parser :=
  match s with
  | [] => Some p
  | c :: r => match feedM p c with Ok (p', _) => pafter p' r | Panic _ => None end
  end.

Lemma vt_feed_parser v c v' :
  vt_feed v c = Ok v' -> exists f, feedM (vparser v) c = Ok (vparser v', f).
Proof.
  unfold vt_feed. destruct (feedM (vparser v) c) as [[p f]|e]; cbn [bind]; [|discriminate].
  destruct f as [f|].
  - destruct (execute (vterm v) f) as [t|e]; cbn [bind]; [|discriminate].
    intros E. injection E as <-. exists (Some f). reflexivity.
  - intros E. injection E as <-. exists None. reflexivity.
Qed.

Lemma feed_chars_parser : forall s v v',
  feed_chars v s = Ok v' -> pafter (vparser v) s = Some (vparser v').
Proof.
  induction s as [|c s IH]; intros v v' E; cbn [feed_chars pafter] in *.
  - injection E as <-. reflexivity.
  - destruct (vt_feed v c) as [v1|e] eqn:F; cbn [bind] in E; [|discriminate].
    destruct (vt_feed_parser _ _ _ F) as (f & ->). exact (IH _ _ E).
Qed.

Lemma pris_ris_free : forall s v, pris_free (vparser v) s -> ris_free v s.
Proof.
  induction s as [|c s IH]; intros v H; cbn [pris_free ris_free] in *; [exact I|].
  split.
  - unfold ris_at. destruct (feedM (vparser v) c) as [[p f]|e]; [|reflexivity].
    destruct H as [H _]. destruct f as [f|]; [|reflexivity]. destruct f; try reflexivity. destruct H.
  - intros v' F. destruct (vt_feed_parser _ _ _ F) as (f & E). rewrite E in H.
    apply IH. exact (proj2 H).
Qed.

Lemma pris_free_app : forall a p b,
  pris_free p (a ++ b) ->
  pris_free p a /\ (forall p', pafter p a = Some p' -> pris_free p' b).
Proof.
  induction a as [|c a IH]; intros p b H; cbn [app pris_free pafter] in *.
  - split; [exact I|]. intros p' E. injection E as <-. exact H.
  - destruct (feedM p c) as [[p1 f]|e].
    + destruct H as [H1 H2]. destruct (IH _ _ H2) as [I1 I2]. split; [split; assumption|exact I2].
    + split; [exact I|]. intros p' E. discriminate.
Qed.

Theorem pris_session_ris_free : forall ss v,
  pris_free (vparser v) (concat ss) -> session_ris_free v ss.
Proof.
  induction ss as [|s ss IH]; intros v H; cbn [concat session_ris_free] in *; [exact I|].
  destruct (pris_free_app _ _ _ H) as [H1 H2]. split; [exact (pris_ris_free _ _ H1)|].
  intros v' o F. apply feed_str_inv in F. destruct F as (u & Fu & Gu).
  apply vt_flush_inv in Gu. destruct Gu as (Pu & _).
  apply IH. rewrite Pu. apply H2. exact (feed_chars_parser _ _ _ Fu).
Qed.

(** C14 for the collector, stated on the character stream: any two limits, any two ways of
    cutting a stream on which the parser never emits [Ris] *)
Theorem C14_collector_stream : forall c r L1 L2 ss1 ss2 v1 outs1 v2 outs2,
  concat ss1 = concat ss2 ->
  pris_free init_parser (concat ss1) ->
  run_session (vt_new c r L1) ss1 = Ok (v1, outs1) ->
  run_session (vt_new c r L2) ss2 = Ok (v2, outs2) ->
  active (vterm v1) = Primary ->
  strip_empty_tail (collector_total outs1 (lines (buf (vterm v1))))
  = strip_empty_tail (collector_total outs2 (lines (buf (vterm v2)))).
Proof.
  intros c r L1 L2 ss1 ss2 v1 outs1 v2 outs2 EC HP E1 E2 HA.
  apply (C14_collector_any c r L1 L2 ss1 ss2 v1 outs1 v2 outs2 EC); try assumption.
  - apply pris_session_ris_free. exact HP.
  - apply pris_session_ris_free. cbn [vt_new vparser]. rewrite <- EC. exact HP.
Qed.

Print Assumptions C14_collector_stream.

(** computed check: the stream of [chk_session] (Proofs/Collector.v) cut in three pieces with
    limit 0, in one piece with limit 2, per character with unlimited scrollback *)
Example collector_any_chk :
  let s := concat chk_session in
  option_map strip_empty_tail (chk_total (Some 0%N) chk_session)
  = option_map strip_empty_tail (chk_total (Some 2%N) [s])
  /\ option_map strip_empty_tail (chk_total (Some 2%N) [s])
     = option_map strip_empty_tail (chk_total None (map (fun x => [x]) s))
  /\ option_map strip_empty_tail (chk_total None (map (fun x => [x]) s)) = Some [[97]; []; []; [32; 98]]%N.
Proof. vm_compute. repeat split. Qed.
