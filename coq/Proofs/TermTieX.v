(** The tie for [Terminal::execute] as a whole (see Proofs/TermTieW.v for the method). *)
From Coq Require Import Lia ZArith ZifyBool ZifyNat ZifyN.
From Avt Require Import Oracles.Step Proofs.Inv Proofs.TermEasy Gen.TermFns Proofs.TermTie Proofs.InvStep
  Proofs.TermTieW Proofs.TermTieX_A Proofs.TermTieX_B Proofs.TermTieX_C.
Ltac Zify.zify_post_hook ::= Z.div_mod_to_equations.
Local Open Scope Z_scope.

(** * [Terminal::execute], every [func] *)
Theorem tie_execute_all : forall t f, TInv t ->
  w_execute Om (zabs t) (wabs t) f = Some (wres (execute t f)).
Proof.
  intros t f HT. pose proof (TInv_ZW t HT) as H.
  destruct f;
    first [ apply tie_execute_A; [exact HT | reflexivity] | apply tie_execute_B; [exact HT | reflexivity]
          | apply tie_execute_C; [exact HT | reflexivity] | idtac ];
    cbn [w_execute execute]; f_equal;
    lazymatch goal with
    | |- w_print _ _ _ _ = _ => apply w_print_eq, H
    | |- w_rep _ _ _ _ = _ => apply w_rep_eq, HT
    | |- w_decaln _ _ _ = _ => apply w_decaln_eq, H
    | |- w_sm _ _ _ _ = _ => apply w_sm_eq, H
    | |- w_rm _ _ _ _ = _ => apply w_rm_eq, H
    | |- w_ich _ _ _ _ = _ => apply w_ich_eq, H
    | |- w_dch _ _ _ _ = _ => apply w_dch_eq, H
    | |- w_ech _ _ _ _ = _ => apply w_ech_eq, H
    | |- w_ed _ _ _ _ = _ => apply w_ed_eq, H
    | |- w_el _ _ _ _ = _ => apply w_el_eq, H
    | |- w_ctc _ _ _ _ = _ => apply w_ctc_eq, H
    | |- w_tbc _ _ _ _ = _ => apply w_tbc_eq, H
    | |- w_ht _ _ _ = _ => apply w_ht_eq, H
    | |- w_cht _ _ _ _ = _ => apply w_cht_eq, H
    | |- w_cbt _ _ _ _ = _ => apply w_cbt_eq, H
    | |- w_sc _ _ _ = _ => apply w_sc_eq, H
    | |- w_rc _ _ _ = _ => apply w_rc_eq, H
    | |- w_xtwinops _ _ _ _ = _ => apply w_xtwinops_eq, H
    | |- w_ris _ _ _ = _ => apply w_ris_eq
    | |- w_decstr _ _ _ = _ => apply w_decstr_eq
    | |- w_decset _ _ _ _ = _ => apply w_decset_eq, HT
    | |- w_decrst _ _ _ _ = _ => apply w_decrst_eq, HT
    | |- context [op_full] => full_steps
    end.
Qed.
Print Assumptions tie_execute_all.
