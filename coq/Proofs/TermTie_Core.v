(** The tie between the hand-written control functions of Model/Terminal.v and the Gallina
    regenerated from src/terminal.rs (Gen/TermFns.v, by translate/term2coq.py).

    [zabs] abstracts a model terminal to the record of scalar fields the regenerated code works on.
    For every regenerated function [g_f] one theorem says: under the scalar invariant [TScal] the Rust
    function neither underflows an unsigned subtraction nor casts a negative value to usize
    ([ok = true]), and it computes exactly what the hand-written model function computes. *)

From Coq Require Import Lia ZArith ZifyBool ZifyNat ZifyN.
From Avt Require Import Oracles.Step Proofs.Inv Proofs.TermEasy Gen.TermFns.
Ltac Zify.zify_post_hook ::= Z.div_mod_to_equations.
Local Open Scope Z_scope.

Definition zabs (t : term) : zt := {|
  z_cols := Z.of_nat (cols t); z_rows := Z.of_nat (rows t);
  z_col := Z.of_nat (cur_col t); z_row := Z.of_nat (cur_row t);
  z_pend := pend t; z_top := Z.of_nat (top t); z_bot := Z.of_nat (bot t);
  z_org := org t; z_nlm := nlm t; z_acs := Z.of_nat (acs t);
  z_cs0 := cs0 t; z_cs1 := cs1 t; z_ins := ins t; z_awm := awm t; z_vis := cur_vis t; z_ckm := ckm t; z_ev := []
|}.

Local Arguments Z.add : simpl never.
Local Arguments Z.sub : simpl never.
Local Arguments Z.opp : simpl never.
Local Arguments Z.mul : simpl never.
Local Arguments Z.leb : simpl never.
Local Arguments Z.ltb : simpl never.
Local Arguments Z.eqb : simpl never.
Local Arguments Z.min : simpl never.
Local Arguments Z.max : simpl never.
Local Arguments Z.of_nat : simpl never.
Local Arguments Z.of_N : simpl never.
Local Arguments Z.to_nat : simpl never.
Local Arguments N.eqb : simpl never.
Local Arguments N.to_nat : simpl never.
Local Arguments Nat.sub : simpl never.
Local Arguments Nat.add : simpl never.
Local Arguments Nat.min : simpl never.
Local Arguments Nat.max : simpl never.
Local Arguments Nat.leb : simpl never.
Local Arguments Nat.ltb : simpl never.
Local Arguments Nat.eqb : simpl never.

(** split on every [if], innermost conditions first *)
Ltac brk :=
  repeat match goal with
         | |- context [if ?b then _ else _] =>
           lazymatch b with
           | context [if _ then _ else _] => fail
           | _ => destruct b eqn:?
           end
         end.

(** normalise everything except arithmetic (call-by-need: nested record updates stay cheap) *)
Ltac nrm :=
  lazy -[Z.add Z.sub Z.opp Z.mul Z.leb Z.ltb Z.eqb Z.min Z.max Z.of_nat Z.of_N Z.to_nat Z.le Z.lt
         N.eqb N.to_nat Nat.sub Nat.add Nat.min Nat.max Nat.leb Nat.ltb Nat.eqb Nat.lt andb orb negb].

(** close a goal [(z1, ok) = (z2, true)] between explicit records *)
Ltac fin :=
  first [ exfalso; lia
        | apply pair_equal_spec; split; [ f_equal; try reflexivity; lia | try reflexivity; lia ] ].

(** unfold both sides completely, split on every comparison, finish with [lia] *)
Ltac tie t H :=
  destruct t;
  let a := fresh "Hcols" in let b := fresh "Hrows" in let c := fresh "Hrow" in
  let d := fresh "Hcol" in let e := fresh "Hpend" in let f := fresh "Hmar" in
  destruct H as [a b c d e f];
  cbn [Types.cols Types.rows Types.cur_row Types.cur_col Types.pend Types.top Types.bot] in a, b, c, d, e, f;
  nrm; repeat (progress brk; nrm); fin.

Lemma tie_of_eq (p : zt * bool) (z' : zt) :
  p = (z', true) -> let '(z, ok) := p in ok = true /\ z' = z.
Proof. intros ->. split; reflexivity. Qed.

(** * the equations: regenerated function on the abstraction = abstraction of the model function *)

Lemma g_as_usize_eq n d : g_as_usize (Z.of_N n) (Z.of_nat d) = (Z.of_nat (as_usize n d), true).
Proof.
  unfold g_as_usize, as_usize, as_usize_gen. destruct (N.eqb_spec n 0), (Z.eqb_spec (Z.of_N n) 0); try lia; apply pair_equal_spec; split; try reflexivity; lia.
Qed.


(** * functions that also call into buffer / tabs / dirty lines

    The regenerated code records those calls, with their evaluated arguments, in [z_ev].  [zrun z t]
    replays the recorded calls on the model terminal with the model's own primitives and then writes the
    scalar fields back; the tie says that this is exactly what the hand-written model function does. *)

Definition cell_of (t : term) (x : zcell) : cell :=
  match x with
  | ZCellNew c => mkCell (Z.to_N c) (tpen t)
  | ZCellBlank => blank_cell (tpen t)
  | ZCellChar c => mkCell (Z.to_N c) default_pen
  end.

Definition erase_of (m : zerase) : erase_mode :=
  match m with
  | ZNextChars n => NextChars (Z.to_nat n)
  | ZFromCursorToEndOfView => FromCursorToEndOfView
  | ZFromStartOfViewToCursor => FromStartOfViewToCursor
  | ZWholeView => WholeView
  | ZFromCursorToEndOfLine => FromCursorToEndOfLine
  | ZFromStartOfLineToCursor => FromStartOfLineToCursor
  | ZWholeLine => WholeLine
  end.

Definition run_ev (t : term) (e : zev) : res term :=
  match e with
  | EvTabSet c => Ok (t <| tabs := tabs_set (Z.to_nat c) (tabs t) |>)
  | EvTabUnset c => Ok (t <| tabs := tabs_unset (Z.to_nat c) (tabs t) |>)
  | EvTabsClear => Ok (t <| tabs := [] |>)
  | EvBufScrollUp a b n =>
    on_buf t (fun bf => buf_scroll_up bf (Z.to_nat a) (Z.to_nat b) (Z.to_nat n) (tpen t))
  | EvBufScrollDown a b n =>
    on_buf t (fun bf => buf_scroll_down bf (Z.to_nat a) (Z.to_nat b) (Z.to_nat n) (tpen t))
  | EvDirtyExtend a b => mark_range t (Z.to_nat a) (Z.to_nat b)
  | EvBufPrint c r x => on_buf t (fun bf => buf_print bf (Z.to_nat c) (Z.to_nat r) (cell_of t x))
  | EvBufInsert c r n x =>
    on_buf t (fun bf => buf_insert bf (Z.to_nat c) (Z.to_nat r) (Z.to_nat n) (cell_of t x))
  | EvBufDelete c r n => on_buf t (fun bf => buf_delete bf (Z.to_nat c) (Z.to_nat r) (Z.to_nat n) (tpen t))
  | EvBufErase c r m => on_buf t (fun bf => buf_erase bf (Z.to_nat c) (Z.to_nat r) (erase_of m) (tpen t))
  | EvBufWrap r => on_buf t (fun bf => buf_wrap bf (Z.to_nat r))
  | EvDirtyAdd r => mark t (Z.to_nat r)
  | EvDirtyResize n => Ok (t <| dirty := dirty_resize (dirty t) (Z.to_nat n) |>)
  | EvTabsContract c => Ok (t <| tabs := tabs_contract (Z.to_nat c) (tabs t) |>)
  | EvTabsExpand a b => Ok (t <| tabs := tabs_expand (Z.to_nat a) (Z.to_nat b) (tabs t) |>)
  | EvSctxCol v => Ok (t <| sctx := (sctx t) <| sc_col := Z.to_nat v |> |>)
  | EvSctxRow v => Ok (t <| sctx := (sctx t) <| sc_row := Z.to_nat v |> |>)
  | EvSctxOrg v => Ok (t <| sctx := (sctx t) <| sc_origin := v |> |>)
  | EvSctxAwm v => Ok (t <| sctx := (sctx t) <| sc_awm := v |> |>)
  | EvSctxPenSave => Ok (t <| sctx := (sctx t) <| sc_pen := tpen t |> |>)
  | EvPenRestore => Ok (t <| tpen := sc_pen (sctx t) |>)
  | EvActive b => Ok (t <| active := b |>)
  | EvSwapCtx => Ok (t <| sctx := asctx t |> <| asctx := sctx t |>)
  | EvSwapBuf => Ok (t <| buf := other t |> <| other := buf t |>)
  | EvBufNewAlt c r => Ok (t <| buf := buffer_new (Z.to_nat c) (Z.to_nat r) (Some 0%N) (Some (tpen t)) |>)
  end.

Definition zput (z : zt) (t : term) : term :=
  t <| cols := Z.to_nat (z_cols z) |> <| rows := Z.to_nat (z_rows z) |>
    <| cur_col := Z.to_nat (z_col z) |> <| cur_row := Z.to_nat (z_row z) |> <| pend := z_pend z |>
    <| top := Z.to_nat (z_top z) |> <| bot := Z.to_nat (z_bot z) |> <| org := z_org z |>
    <| nlm := z_nlm z |> <| acs := Z.to_nat (z_acs z) |> <| cs0 := z_cs0 z |> <| cs1 := z_cs1 z |>
    <| ins := z_ins z |> <| awm := z_awm z |> <| cur_vis := z_vis z |> <| ckm := z_ckm z |>.

Definition zrun (z : zt) (t : term) : res term :=
  t' <- foldM run_ev (rev (z_ev z)) t ;; Ok (zput z t').

Lemma z2n_succ a : Z.to_nat (Z.of_nat a + 1) = (a + 1)%nat.
Proof. lia. Qed.
Lemma z2n_ofN n : Z.to_nat (Z.of_N n) = N.to_nat n.
Proof. lia. Qed.
Lemma z2n_pred a : (1 <= a)%nat -> Z.to_nat (Z.of_nat a - 1) = (a - 1)%nat.
Proof. lia. Qed.

Ltac nrm_ev :=
  lazy -[Z.add Z.sub Z.opp Z.mul Z.leb Z.ltb Z.eqb Z.min Z.max Z.of_nat Z.of_N Z.to_nat Z.le Z.lt
         N.eqb N.to_nat Nat.sub Nat.add Nat.min Nat.max Nat.leb Nat.ltb Nat.eqb Nat.lt andb orb negb
         buf_scroll_up buf_scroll_down dirty_extend tabs_set tabs_unset].

Ltac z2n :=
  repeat first [ rewrite Nat2Z.id | rewrite z2n_ofN | rewrite z2n_succ | rewrite z2n_pred by lia
               | progress change (Z.to_nat 1) with 1%nat | progress change (Z.to_nat 0) with 0%nat ].

(** split on the results of the recorded calls, innermost first *)
Ltac brk_res :=
  match goal with
  | |- context [match ?m with Ok _ => _ | Panic _ => _ end] =>
    lazymatch m with
    | Ok _ => fail
    | Panic _ => fail
    | context [match _ with Ok _ => _ | Panic _ => _ end] => fail
    | _ => destruct m
    end
  end.

Ltac ev_fin :=
  first [ exfalso; lia
        | split;
          [ try reflexivity; lia
          | z2n; repeat (brk_res; nrm_ev; z2n); first [ reflexivity | f_equal; f_equal; lia ] ] ].

Ltac ev_tie t H :=
  destruct t;
  let a := fresh "Hcols" in let b := fresh "Hrows" in let c := fresh "Hrow" in
  let d := fresh "Hcol" in let e := fresh "Hpend" in let f := fresh "Hmar" in
  destruct H as [a b c d e f];
  cbn [Types.cols Types.rows Types.cur_row Types.cur_col Types.pend Types.top Types.bot] in a, b, c, d, e, f;
  nrm_ev; repeat (progress brk; nrm_ev); ev_fin.

