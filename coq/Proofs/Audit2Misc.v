(** Small gaps 5, 6, 7, 8 of /tmp/pw/AUDIT2.md (section 2) and the Coq-defined class of KF-C17-1 (section 3).

    1. (gap 8, gap 7) the pen frame for DECRST / DECSET lists ([C08_decrst_pen], [C08_decset_pen]) and
       XTWINOPS as a positive statement ([C08_xtwinops_noop]).
    2. (section 3) KF-C17-1 with the executable class [kf1_C17] (Oracles/KFClasses.v): the deviation on the
       WHOLE class ([C17_kf1_exact]), no deviation outside it ([C17_kf1_outside]), what the hypothesis
       [no_save_reset_on] of the round trip excludes ([no_save_reset_on_split]) and the round trip for every
       run outside the class ([C17_roundtrip_outside_kf1]).
    3. (gap 5) pinned failure witnesses inside the C11 classes ([C11_kf1_narrow_witnesses],
       [C11_kf2_witness], [C11_kf3b_witness]), re-exported from the computed Examples.
    4. (gap 6) C17 spellings: ?1049l as the restore after any of the four save spellings
       ([C17_roundtrip_run_1049l], [C17_roundtrip_1049l]); save spellings inside a mode list
       ([C17_roundtrip_run_list], [C17_roundtrip_run_list_1049l]). *)

From Coq Require Import Lia ZArith ZifyBool ZifyNat ZifyN String List.
From Avt Require Import Model.Vt Spec.Screen Spec.Eqb Oracles.Step Oracles.Rel Oracles.C11Narrow
  Oracles.KFClasses Proofs.Inv Proofs.TermEasy Proofs.Frames Proofs.Resize Proofs.StepC17
  Proofs.StepC17Switch Proofs.InvTerm Proofs.InvStep Proofs.ModeSem Proofs.C17Run Proofs.C11More.
From Avt Require Proofs.DumpScriptTests Proofs.Future.
Import ListNotations.
Ltac Zify.zify_post_hook ::= Z.div_mod_to_equations.

(* ------------------------------------------------------------------------------------ *)
(** * 1. C08: the pen frame for mode lists, XTWINOPS *)

(** a DECRST mode other than 1048 / 1049 never touches the pen (47 / 1047 switch and re-fit the
    buffer, 6 homes the cursor, 1 / 7 / 25 are flags) *)
Lemma decrst_one_tpen t m t' :
  match m with SaveCursor | SaveCursorAltScreenBuffer => false | _ => true end = true ->
  decrst_one t m = Ok t' -> tpen t' = tpen t.
Proof.
  assert (HR : forall a a', reflow a = Ok a' -> tpen a' = tpen a).
  { intros a a' H. apply reflow_keepR in H. unfold keepR in H. injection H; intros; assumption. }
  assert (HS : forall a a', switch_to_primary_buffer a = Ok a' -> tpen a' = tpen a).
  { intros a a' H. apply switch_prim_inv in H as [[_ ->]|[_ [d ->]]]; [reflexivity|destruct a; reflexivity]. }
  intros Hm. destruct m; try discriminate Hm; cbn [decrst_one]; intros H;
    try (injection H as <-; destruct t; reflexivity).
  apply bind_ok in H as (t1 & H1 & H). rewrite (HR _ _ H). exact (HS _ _ H1).
Qed.

(** every state (the invariant is not needed) *)
Theorem C08_decrst_pen_gen : forall ms t t',
  no_save_modes ms = true -> execute t (Decrst ms) = Ok t' -> tpen t' = tpen t.
Proof.
  induction ms as [|m ms IH]; intros t t' Hn H.
  - rewrite exec_decrst_nil in H. apply Ok_inj in H as <-. reflexivity.
  - rewrite exec_decrst_cons in H. apply bind_ok in H as (t1 & H1 & H).
    unfold no_save_modes in Hn. cbn [forallb] in Hn. apply andb_prop in Hn as [Hm Hn].
    rewrite (IH t1 t' Hn H). exact (decrst_one_tpen t m t1 Hm H1).
Qed.
Print Assumptions C08_decrst_pen_gen.

(** the requested form.  [no_save_modes ms]: neither 1048 nor 1049 in the list - these two RESTORE the
    pen of the saved context ([C08_decrst_pen_ex] below: the side condition is needed) *)
Theorem C08_decrst_pen : forall t ms t',
  TInv t -> no_save_modes ms = true -> execute t (Decrst ms) = Ok t' -> tpen t' = tpen t.
Proof. intros t ms t' _ Hn H. exact (C08_decrst_pen_gen ms t t' Hn H). Qed.
Print Assumptions C08_decrst_pen.

(** DECSET never touches the pen, WITHOUT side condition: 1048h / 1049h SAVE the pen, they do not
    change it (every state; the invariant is not needed) *)
Theorem C08_decset_pen : forall t ms t', execute t (Decset ms) = Ok t' -> tpen t' = tpen t.
Proof. intros t ms t' H. cbn [execute] in H. exact (decset_tpen ms t t' H). Qed.
Print Assumptions C08_decset_pen.

(** XTWINOPS is a no-op: the resizing arm is switched off ([xtw = false]) in every state satisfying
    the invariant.  Leibniz equality of the whole terminal, dirty flags included: closes the
    [Xtwinops _ => true] holes of [holds_C06_frame], [holds_C08], [holds_C17], [holds_C18] at once *)
Theorem C08_xtwinops_noop : forall t op t',
  TInv t -> execute t (Xtwinops op) = Ok t' -> t' = t.
Proof. intros t op t' HT H. exact (xtwinops_noop t op t' (ti_xtw t HT) H). Qed.
Print Assumptions C08_xtwinops_noop.

(** non-vacuity: ESC 7 (context saved with the default pen), CSI 1 m (bold), "a".  Five resets without
    1048 / 1049 (one of them a screen switch) keep the bold pen, as do the seven sets including
    1048h / 1049h; [CSI ?1048l] and [CSI ?1049l] bring the saved default pen back; XTWINOPS
    "resize to 2 rows, 3 columns" changes nothing *)
Definition ex_pen_input : list N := [27; 55; 27; 91; 49; 109; 97]%N.
Definition ex_pen_rst : list dec_mode := [Origin; AltScreenBuffer; AutoWrap; CursorKeys; TextCursorEnable].
Definition ex_pen_set : list dec_mode :=
  [Origin; SaveCursor; AutoWrap; CursorKeys; TextCursorEnable; SaveCursorAltScreenBuffer; AltScreenBuffer].

Example C08_decrst_pen_ex :
  match feed_str (vt_new 10 4 None) ex_pen_input with
  | Ok (v, _) =>
    let t := vterm v in
    match execute t (Decrst ex_pen_rst), execute t (Decset ex_pen_set),
          execute t (Decrst [SaveCursor]), execute t (Decrst [SaveCursorAltScreenBuffer]),
          execute t (Xtwinops (XtwinopsResize 3 2)) with
    | Ok t1, Ok t2, Ok t3, Ok t4, Ok t5 =>
      no_save_modes ex_pen_rst = true /\ no_save_modes [SaveCursor] = false
      /\ no_save_modes [SaveCursorAltScreenBuffer] = false
      /\ intensity (tpen t) = Bold /\ intensity (tpen t1) = Bold /\ intensity (tpen t2) = Bold
      /\ active t2 = Alternate
      /\ intensity (tpen t3) = Normal /\ intensity (tpen t4) = Normal
      /\ t5 = t /\ (cols t5, rows t5) = (10, 4)
    | _, _, _, _, _ => False
    end
  | Panic _ => False
  end.
Proof. vm_compute. repeat split. Qed.

(* ------------------------------------------------------------------------------------ *)
(** * 2. KF-C17-1 with a Coq-defined class *)

Lemma ctx_eqb_default_sym s : ctx_eqb s default_ctx = false -> ctx_eqb default_ctx s = false.
Proof.
  intros H. destruct (ctx_eqb default_ctx s) eqn:E; [|reflexivity].
  apply Future.ctx_eqb_eq in E. subst s. rewrite ctx_eqb_refl in H. discriminate H.
Qed.

(** INSIDE the class (the whole class, every state): the step is DECSTR, a context other than the
    default one was saved on the screen showing, and ANY of the three restore spellings executed next
    does not re-establish that context but the power-on defaults: column 0 of row 0, default pen,
    origin mode off, auto-wrap on - so the five restored components differ from the saved ones *)
Theorem C17_kf1_exact : forall pre f t1 frest t3,
  kf1_C17 pre f = true -> execute (vterm pre) f = Ok t1 ->
  is_restore frest -> execute t1 frest = Ok t3 ->
  f = Decstr /\ sctx (vterm pre) <> default_ctx
  /\ cur_col t3 = 0 /\ cur_row t3 = 0 /\ tpen t3 = default_pen /\ org t3 = false /\ awm t3 = true
  /\ pend t3 = false
  /\ ctx_eqb (mkCtx (cur_col t3) (cur_row t3) (tpen t3) (org t3) (awm t3)) (sctx (vterm pre)) = false.
Proof.
  intros pre f t1 frest t3 Hk H1 Hr H3.
  destruct f; try discriminate Hk. cbn [kf1_C17] in Hk. apply Bool.negb_true_iff in Hk.
  destruct (C17_restore_default t1 frest t3 (decstr_sctx _ _ H1) Hr H3) as (A1 & A2 & A3 & A4 & A5 & A6).
  split; [reflexivity|]. split.
  { intros E. rewrite E, ctx_eqb_refl in Hk. discriminate Hk. }
  rewrite A1, A2, A3, A4, A5. repeat split; try assumption.
  exact (ctx_eqb_default_sym _ Hk).
Qed.
Print Assumptions C17_kf1_exact.

(** the same with the save in front (the shape of [C17_decstr]): a save spelling, then a step of the
    class.  [spec_saved_now t]: the context in force at the save *)
Theorem C17_kf1_after_save : forall p t fsave t1 t2 frest t3,
  match fsave with Decsc | Scosc | Decset [SaveCursor] => True | _ => False end ->
  execute t fsave = Ok t1 ->
  kf1_C17 (mkVt p t1) Decstr = true -> execute t1 Decstr = Ok t2 ->
  is_restore frest -> execute t2 frest = Ok t3 ->
  spec_saved_now t <> default_ctx
  /\ ctx_eqb (mkCtx (cur_col t3) (cur_row t3) (tpen t3) (org t3) (awm t3)) (spec_saved_now t) = false
  /\ cur_col t3 = 0 /\ cur_row t3 = 0 /\ tpen t3 = default_pen /\ org t3 = false /\ awm t3 = true.
Proof.
  intros p t fsave t1 t2 frest t3 Hs H1 Hk H2 Hr H3.
  rewrite (exec_save t fsave Hs) in H1. apply Ok_inj in H1.
  assert (Es : sctx t1 = spec_saved_now t).
  { rewrite <- H1. exact (proj1 (proj2 (set_sctx_fields t (spec_saved_now t)))). }
  destruct (C17_kf1_exact (mkVt p t1) Decstr t2 frest t3 Hk H2 Hr H3)
    as (_ & B1 & B2 & B3 & B4 & B5 & B6 & _ & B8).
  cbn [vterm] in B1, B8. rewrite Es in B1, B8. repeat split; assumption.
Qed.
Print Assumptions C17_kf1_after_save.

(** OUTSIDE the class a DECSTR keeps BOTH saved contexts and the screen shown (the context of the
    screen showing already is the default one), so nothing the round trip relies on is lost *)
Theorem C17_kf1_outside : forall pre t1,
  kf1_C17 pre Decstr = false -> execute (vterm pre) Decstr = Ok t1 ->
  sctx (vterm pre) = default_ctx
  /\ sctx t1 = sctx (vterm pre) /\ asctx t1 = asctx (vterm pre) /\ active t1 = active (vterm pre).
Proof.
  intros pre t1 Hk H1. cbn [kf1_C17] in Hk. apply Bool.negb_false_iff, Future.ctx_eqb_eq in Hk.
  split; [exact Hk|]. rewrite Hk, (decstr_sctx _ _ H1). split; [reflexivity|].
  rewrite sem_decstr in H1. apply Ok_inj in H1. subst t1. split; reflexivity.
Qed.
Print Assumptions C17_kf1_outside.

(** ** what [no_save_reset_on] excludes.  Purely syntactic in the run (it tracks the screen shown):
       [no_save_on] (no DECSC / SCOSC / ?1048h / ?1049h while the saving screen [s] is shown), no DECSTR
       step while [s] is shown, no RIS *)
Fixpoint decstr_on (s a : btype) (os : list rop) : bool :=
  match os with
  | [] => false
  | RF f :: r =>
    (match f with Decstr => btype_eqb a s | _ => false end) || decstr_on s (active_after a f) r
  | RResize _ _ :: r => decstr_on s a r
  end.

Definition has_ris (os : list rop) : bool :=
  existsb (fun o => match o with RF Ris => true | _ => false end) os.

Theorem no_save_reset_on_split : forall s os a,
  no_save_reset_on s a os = no_save_on s a os && negb (decstr_on s a os) && negb (has_ris os).
Proof.
  intros s os. unfold no_save_reset_on, no_save_on, has_ris.
  induction os as [|o os IH]; intros a; [reflexivity|].
  destruct o as [f|c r]; cbn [safe_run decstr_on existsb]; [|apply IH].
  rewrite (IH (active_after a f)).
  destruct (safe_run false s (active_after a f) os), (decstr_on s (active_after a f) os),
    (existsb (fun o => match o with RF Ris => true | _ => false end) os);
    destruct f; cbn [step_safe negb orb andb]; try reflexivity;
    destruct (btype_eqb a s); try reflexivity;
    destruct (decset_safe s a ms); reflexivity.
Qed.
Print Assumptions no_save_reset_on_split.

(** ** the round trip for EVERY run outside the class.  [no_save_reset_on] excludes every DECSTR step on
       the saving screen; the class [kf1_C17] contains such a step only when the context saved there is not
       the default one.  The difference is harmless: the round trip holds under the weaker,
       state-dependent hypothesis "no executed step is in [kf1_C17] while [s] is shown" *)
Fixpoint kf1_free (p : parser) (s : btype) (os : list rop) (t : term) : Prop :=
  match os with
  | [] => True
  | RF f :: r =>
    (active t = s -> kf1_C17 (mkVt p t) f = false)
    /\ match execute t f with Ok t' => kf1_free p s r t' | Panic _ => True end
  | RResize c r0 :: r =>
    match term_resize t c r0 with Ok t' => kf1_free p s r t' | Panic _ => True end
  end.

Lemma kf1_free_cons_f p s f r t :
  kf1_free p s (RF f :: r) t
  = ((active t = s -> kf1_C17 (mkVt p t) f = false)
     /\ match execute t f with Ok t' => kf1_free p s r t' | Panic _ => True end).
Proof. reflexivity. Qed.

Lemma kf1_free_cons_r p s c r0 r t :
  kf1_free p s (RResize c r0 :: r) t
  = match term_resize t c r0 with Ok t' => kf1_free p s r t' | Panic _ => True end.
Proof. reflexivity. Qed.

(** the tracked context when every step clamps only *)
Fixpoint run_ctx_clamps (s a : btype) (c r : nat) (k : saved_ctx) (os : list rop) : saved_ctx :=
  match os with
  | [] => k
  | RF f :: rest => run_ctx_clamps s (active_after a f) c r (ctx_after s (active_after a f) c r k) rest
  | RResize c' r' :: rest => run_ctx_clamps s a c' r' (ctx_after s a c' r' k) rest
  end.

Lemma run_ctx_clamps_strict s os : forall a c r k,
  safe_run true s a os = true -> run_ctx s a c r k os = run_ctx_clamps s a c r k os.
Proof.
  induction os as [|o os IH]; intros a c r k Hs; [reflexivity|].
  destruct o as [f|c' r']; cbn [run_ctx run_ctx_clamps]; cbn [safe_run] in Hs.
  - apply andb_prop in Hs as [Hf Hs]. rewrite (step_ctx_strict _ _ _ _ _ _ Hf). apply IH. exact Hs.
  - apply IH. exact Hs.
Qed.

Lemma run_ctx_clamps_fields s os : forall a c r k,
  let e := run_ctx_clamps s a c r k os in
  sc_pen e = sc_pen k /\ sc_origin e = sc_origin k /\ sc_awm e = sc_awm k
  /\ sc_col e <= sc_col k /\ sc_row e <= sc_row k.
Proof.
  induction os as [|o os IH]; intros a c r k; cbv zeta.
  - cbn [run_ctx_clamps]. repeat split; lia.
  - destruct o as [f|c' r']; cbn [run_ctx_clamps].
    + destruct (IH (active_after a f) c r (ctx_after s (active_after a f) c r k))
        as (I1 & I2 & I3 & I4 & I5).
      destruct (ctx_after_fields s (active_after a f) c r k) as (G1 & G2 & G3 & G4 & G5).
      rewrite I1, I2, I3. repeat split; try assumption; lia.
    + destruct (IH a c' r' (ctx_after s a c' r' k)) as (I1 & I2 & I3 & I4 & I5).
      destruct (ctx_after_fields s a c' r' k) as (G1 & G2 & G3 & G4 & G5).
      rewrite I1, I2, I3. repeat split; try assumption; lia.
Qed.

Lemma run_ctx_clamps_no_resize s os : forall a c r k,
  no_resize os = true -> clamp_ctx k c r = k -> run_ctx_clamps s a c r k os = k.
Proof.
  induction os as [|o os IH]; intros a c r k Hn Hk; [reflexivity|].
  unfold no_resize in Hn. cbn [forallb] in Hn. apply andb_prop in Hn as [Ho Hn].
  destruct o as [f|c' r']; [|discriminate Ho]. cbn [run_ctx_clamps].
  assert (E : ctx_after s (active_after a f) c r k = k).
  { unfold ctx_after. destruct (btype_eqb (active_after a f) s); [exact Hk|reflexivity]. }
  rewrite E. apply IH; assumption.
Qed.

Lemma has_ris_cons_f f os : has_ris (RF f :: os) = false ->
  f <> Ris /\ has_ris os = false.
Proof.
  unfold has_ris. cbn [existsb]. intros H. apply Bool.orb_false_iff in H as [H1 H2].
  split; [|exact H2]. intros ->. discriminate H1.
Qed.

(** what a run outside the class does to the context saved on [s] *)
Theorem C17_run_saved_outside_kf1 : forall p s os t1 t2,
  TInv t1 -> forallb rop_ok os = true -> rrun os t1 = Ok t2 ->
  no_save_on s (active t1) os = true -> has_ris os = false -> kf1_free p s os t1 ->
  TInv t2 /\ saved_of t2 s = run_ctx_clamps s (active t1) (cols t1) (rows t1) (saved_of t1 s) os.
Proof.
  intros p s os. unfold no_save_on.
  induction os as [|o os IH]; intros t1 t2 HT Hok H Hs Hr Hk.
  - rewrite rrun_nil in H. apply Ok_inj in H as <-. split; [exact HT|reflexivity].
  - cbn [forallb] in Hok. apply andb_prop in Hok as [Ho Hok]. destruct o as [f|c r].
    + rewrite rrun_cons_f in H. apply bind_ok in H as (t' & H1 & H).
      cbn [safe_run] in Hs. apply andb_prop in Hs as [Hf Hs].
      apply has_ris_cons_f in Hr as [Hnr Hr].
      rewrite kf1_free_cons_f, H1 in Hk. destruct Hk as [Hk1 Hk].
      destruct (step_saved false s t1 f t' HT Hf H1) as (A & Sc & Sr & K).
      pose proof (exec_TInv t1 f t' HT H1) as HT'.
      rewrite <- A in Hs. destruct (IH t' t2 HT' Hok H Hs Hr Hk) as (I1 & I2).
      split; [exact I1|]. cbn [run_ctx_clamps]. rewrite I2, K, Sc, Sr, A. f_equal.
      (* the one step: [step_ctx] is the clamp unless DECSTR on [s]; there the context is the default one *)
      destruct f; try reflexivity; [|contradiction Hnr; reflexivity].
      unfold step_ctx. cbn [active_after]. unfold ctx_after.
      destruct (btype_eqb (active t1) s) eqn:Ea; [|reflexivity].
      apply btype_eqb_eq in Ea. specialize (Hk1 Ea).
      destruct (C17_kf1_outside (mkVt p t1) t' Hk1 H1) as (D & _). cbn [vterm] in D.
      rewrite (saved_of_active t1 s Ea), D. reflexivity.
    + rewrite rrun_cons_r in H. apply bind_ok in H as (t' & H1 & H).
      cbn [safe_run] in Hs. cbn [rop_ok] in Ho. apply andb_prop in Ho as [Hc Hr0].
      apply Nat.leb_le in Hc, Hr0.
      unfold has_ris in Hr. cbn [existsb orb] in Hr.
      rewrite kf1_free_cons_r, H1 in Hk.
      destruct (resize_saved s t1 c r t' H1) as (A & Sc & Sr & K).
      assert (HT' : TInv t').
      { destruct (term_resize_TInv t1 c r HT Hc Hr0) as (t'' & E & HT'' & _). rewrite H1 in E.
        apply Ok_inj in E as ->. exact HT''. }
      rewrite <- A in Hs. destruct (IH t' t2 HT' Hok H Hs Hr Hk) as (I1 & I2).
      split; [exact I1|]. cbn [run_ctx_clamps]. rewrite I2, K, Sc, Sr, A. reflexivity.
Qed.
Print Assumptions C17_run_saved_outside_kf1.

(** the round trip, exact class: any of the four save spellings on screen [active t]; ANY run in which
    nothing saves on that screen ([no_save_on]), no RIS is executed ([has_ris]: not among the
    intervening inputs of the property) and no executed step lies in the class of KF-C17-1 while that
    screen is shown ([kf1_free]); a restore while that screen is shown again.  Same conclusion as
    [C17_roundtrip_run] (there: [no_save_reset_on], which by [no_save_reset_on_split] additionally
    excludes the DECSTR steps on that screen that are NOT in the class). *)
Theorem C17_roundtrip_outside_kf1 : forall p t fsave t1 os t2 frest t3,
  TInv t -> is_save fsave -> execute t fsave = Ok t1 ->
  forallb rop_ok os = true -> rrun os t1 = Ok t2 ->
  no_save_on (active t) (active t1) os = true -> has_ris os = false ->
  kf1_free p (active t) os t1 ->
  active t2 = active t ->
  is_restore frest -> execute t2 frest = Ok t3 ->
  let e := run_ctx_clamps (active t) (active t1) (cols t) (rows t) (spec_saved_now t) os in
  cur_col t3 = sc_col e /\ cur_row t3 = sc_row e
  /\ tpen t3 = tpen t /\ org t3 = org t /\ awm t3 = awm t /\ pend t3 = false
  /\ cur_col t3 < cols t3 /\ cur_row t3 < rows t3
  /\ cur_col t3 <= viscol t /\ cur_row t3 <= cur_row t
  /\ (no_resize os = true -> cur_col t3 = viscol t /\ cur_row t3 = cur_row t).
Proof.
  intros p t fsave t1 os t2 frest t3 HT Hsv H1 Hok H2 Hsafe Hris Hfree Hact Hrs H3. cbv zeta.
  destruct (save_establishes t fsave t1 HT Hsv H1) as (HT1 & Sc & Sr & K1).
  destruct (C17_run_saved_outside_kf1 p (active t) os t1 t2 HT1 Hok H2 Hsafe Hris Hfree) as (HT2 & K2).
  rewrite K1, Sc, Sr in K2. rewrite (saved_of_active t2 _ Hact) in K2.
  destruct (restore_fields t2 frest t3 Hrs H3) as (A1 & A2 & A3 & A4 & A5 & A6 & A7 & A8).
  destruct (run_ctx_clamps_fields (active t) os (active t1) (cols t) (rows t) (spec_saved_now t))
    as (E1 & E2 & E3 & E4 & E5). cbv zeta in *.
  destruct (ti_sctx t2 HT2) as [B1 B2].
  rewrite A1, A2, A3, A4, A5, A7, A8, K2 in *. rewrite E1, E2, E3.
  repeat split; try assumption.
  - rewrite (run_ctx_clamps_no_resize _ _ _ _ _ _ H (clamp_inside _ _ _ (saved_now_inv t HT))). reflexivity.
  - rewrite (run_ctx_clamps_no_resize _ _ _ _ _ _ H (clamp_inside _ _ _ (saved_now_inv t HT))). reflexivity.
Qed.
Print Assumptions C17_roundtrip_outside_kf1.

(** non-vacuity.  (a) "ab", bold, ESC 7, "c", CSI ! p: the DECSTR step is in the class (saved column 2,
    bold), ESC 8 goes to column 0 with the default pen.  (b) ESC 7 at the home position with the default
    pen and modes, "abc", CSI ! p: the step is NOT in the class although [no_save_reset_on] rejects the
    run; the round trip holds ([C17_roundtrip_outside_kf1] applies, [C17_roundtrip_run] does not). *)
Example C17_kf1_ex :
  match feed_str (vt_new 10 5 None) ([97; 98; 27; 91; 49; 109; 27; 55; 99]%N) with
  | Ok (v, _) =>
    match execute (vterm v) Decstr with
    | Ok t1 =>
      match execute t1 Decrc with
      | Ok t3 =>
        kf1_C17 v Decstr = true /\ sc_col (sctx (vterm v)) = 2 /\ intensity (sc_pen (sctx (vterm v))) = Bold
        /\ cur_col t3 = 0 /\ intensity (tpen t3) = Normal
      | Panic _ => False
      end
    | Panic _ => False
    end
  | Panic _ => False
  end
  /\
  let t := vterm (vt_new 10 5 None) in
  let os := [RF (Print 97); RF (Print 98); RF (Print 99); RF Decstr; RF (Sgr [SetItalic])] in
  match execute t Decsc with
  | Ok t1 =>
    match rrun os t1 with
    | Ok t2 =>
      match execute t2 Decrc with
      | Ok t3 =>
        no_save_reset_on Primary Primary os = false
        /\ no_save_on Primary Primary os = true /\ has_ris os = false /\ decstr_on Primary Primary os = true
        /\ kf1_C17 (mkVt init_parser t1) Decstr = false
        /\ cur_col t2 = 3 /\ cur_col t3 = 0 /\ cur_row t3 = 0 /\ viscol t = 0
      | Panic _ => False
      end
    | Panic _ => False
    end
  | Panic _ => False
  end.
Proof. vm_compute. repeat split. Qed.

Example C17_kf1_free_ex :
  kf1_free init_parser Primary
    [RF (Print 97); RF (Print 98); RF (Print 99); RF Decstr; RF (Sgr [SetItalic])]
    (vterm (vt_new 10 5 None) <| sctx := spec_saved_now (vterm (vt_new 10 5 None)) |>).
Proof. vm_compute. repeat split; intros; reflexivity. Qed.

(* ------------------------------------------------------------------------------------ *)
(** * 3. C11: pinned failure witnesses inside the classes (re-exported from the computed Examples;
         nothing is recomputed here) *)

Lemma feed_chars_runM s : forall v v1, feed_chars v s = Ok v1 -> runM v (map Feed s) = Ok v1.
Proof.
  induction s as [|c s IH]; intros v v1 H.
  - cbn [feed_chars] in H. cbn [map runM]. exact H.
  - cbn [feed_chars] in H. apply bind_ok in H as (v' & H1 & H).
    cbn [map runM stepM]. rewrite H1. cbn [bind fst]. exact (IH _ _ H).
Qed.

(** one [feed_str] call is the run "feed every character, then flush" *)
Lemma feed_str_runM v s v' o : feed_str v s = Ok (v', o) -> runM v (map Feed s ++ [Flush]) = Ok v'.
Proof.
  unfold feed_str. intros H. apply bind_ok in H as (v1 & H1 & H).
  rewrite runM_app, (feed_chars_runM _ _ _ H1). cbn [bind runM stepM]. rewrite H. reflexivity.
Qed.

Lemma feeds_op_ok s : Forall op_ok (map Feed s ++ [Flush]).
Proof.
  apply Forall_app. split; [|repeat constructor].
  apply Forall_forall. intros o Ho. apply in_map_iff in Ho as (c & <- & _). exact I.
Qed.

Lemma size_after_feeds s : forall z, size_after z (map Feed s ++ [Flush]) = z.
Proof.
  unfold size_after. induction s as [|c s IH]; intros z; [reflexivity|]. cbn [map app fold_left]. apply IH.
Qed.

Lemma map_repeat_Forall {A B} (f : A -> B) (x : B) : forall l n,
  map f l = repeat x n -> Forall (fun a => f a = x) l.
Proof.
  induction l as [|a l IH]; intros n H; [constructor|].
  destruct n as [|n]; cbn [map repeat] in H; [discriminate H|].
  injection H as H1 H2. constructor; [exact H1|exact (IH n H2)].
Qed.

(** KF-C11-1.  Six reachable 8 x 5 states inside [kf1_C11_narrow] - three whose saved context disagrees
    with the current modes ([w_awm] is the corpus case, [w_org], [w_pend]) and three whose saved context
    AGREES but a margin lies between the saved row and the cursor row ([w_side], [w_side2], [w_side3]) -
    on each of which dump-then-restore into a fresh terminal of the same size FAILS [holds_C11] *)
Definition kf1_witnesses : list (list N) := [w_awm; w_org; w_pend; w_side; w_side2; w_side3].

Theorem C11_kf1_narrow_witnesses : forall w, In w kf1_witnesses ->
  exists v d r o,
    runM (vt_new 8 5 None) (map Feed w ++ [Flush]) = Ok v
    /\ kf1_C11_narrow (vterm v) = true
    /\ vt_dump v = Ok d
    /\ feed_str (vt_new (cols (vterm v)) (rows (vterm v)) (Some 3%N)) d = Ok (r, o)
    /\ holds_C11 v r = false.
Proof.
  intros w Hin.
  pose proof (map_repeat_Forall probe_kf1 _ _ _ C11_narrow_outside) as HF.
  rewrite Forall_forall in HF. specialize (HF w Hin). clear Hin.
  unfold probe_kf1 in HF.
  destruct (feed_str (vt_new 8 5 None) w) as [[v o1]|] eqn:E1; [|discriminate HF].
  destruct (vt_dump v) as [d|] eqn:E2; [|discriminate HF].
  destruct (feed_str (vt_new 8 5 (Some 3%N)) d) as [[r o]|] eqn:E3; [|discriminate HF].
  assert (HP : (kf1_C11 (vterm v), kf1_C11_narrow (vterm v), holds_C11 v r) = (true, true, false)).
  { injection HF as HF. congruence. }
  pose proof (f_equal (fun x => snd (fst x)) HP) as P2. pose proof (f_equal snd HP) as P3.
  cbn [fst snd] in P2, P3.
  pose proof (feed_str_runM _ _ _ _ E1) as Erun.
  pose proof (C02_size_run 8 5 None _ v (le_S _ _ (le_S _ _ (le_S _ _ (le_S _ _ (le_S _ _ (le_S _ _ (le_S _ _ (le_n 1))))))))
                (le_S _ _ (le_S _ _ (le_S _ _ (le_S _ _ (le_n 1))))) (feeds_op_ok w) Erun) as Hsz.
  rewrite size_after_feeds in Hsz. unfold vt_size in Hsz. injection Hsz as Hc Hr.
  exists v, d, r, o. rewrite Hc, Hr. repeat split; assumption.
Qed.
Print Assumptions C11_kf1_narrow_witnesses.

(** at least one state (non-emptiness of the list, as an existential) *)
Corollary C11_kf1_narrow_witness :
  exists w v d r o,
    runM (vt_new 8 5 None) (map Feed w ++ [Flush]) = Ok v
    /\ kf1_C11_narrow (vterm v) = true
    /\ vt_dump v = Ok d
    /\ feed_str (vt_new (cols (vterm v)) (rows (vterm v)) (Some 3%N)) d = Ok (r, o)
    /\ holds_C11 v r = false.
Proof.
  exists w_awm. apply C11_kf1_narrow_witnesses. left. reflexivity.
Qed.
Print Assumptions C11_kf1_narrow_witness.

(** KF-C11-2.  40 x 10, "abc", ?1047h, "alt", resized to 10 x 4 while the alternate screen is showing,
    "x": inside [kf2_C11] (and outside the other classes); dump-then-restore FAILS *)
Definition kf2_witness_ops : list op :=
  (DumpScriptTests.F (str "abc" ++ DumpScriptTests.C "?1047h" ++ str "alt")
   ++ [Resize 10 4] ++ DumpScriptTests.F (str "x"))%list.

(** [rt] with variables (unfolding it on the concrete run would make the kernel evaluate the run) *)
Lemma rt_inv c r ops x :
  DumpScriptTests.rt c r ops = Ok x ->
  exists v d w o,
    runM (vt_new c r None) ops = Ok v /\ vt_dump v = Ok d
    /\ feed_str (vt_new (cols (vterm v)) (rows (vterm v)) None) d = Ok (w, o)
    /\ x = (holds_C11 v w, kf1_C11 (vterm v), kf2_C11 (vterm v), kf3_C11 (vterm v)).
Proof.
  unfold DumpScriptTests.rt. intros H.
  apply bind_ok in H as (v & E1 & H). apply bind_ok in H as (d & E2 & H).
  apply bind_ok in H as ([w o] & E3 & H). cbv beta iota in H. apply Ok_inj in H.
  exists v, d, w, o. repeat split; try assumption. symmetry. exact H.
Qed.

Theorem C11_kf2_witness :
  exists v d r o,
    runM (vt_new 40 10 None) kf2_witness_ops = Ok v
    /\ kf2_C11 (vterm v) = true /\ kf1_C11 (vterm v) = false /\ kf3_C11 (vterm v) = false
    /\ vt_dump v = Ok d
    /\ feed_str (vt_new (cols (vterm v)) (rows (vterm v)) None) d = Ok (r, o)
    /\ holds_C11 v r = false.
Proof.
  destruct (rt_inv _ _ _ _ DumpScriptTests.k2) as (v & d & r & o & E1 & E2 & E3 & H).
  pose proof (f_equal (fun x => fst (fst (fst x))) H) as P1.
  pose proof (f_equal (fun x => snd (fst (fst x))) H) as P2.
  pose proof (f_equal (fun x => snd (fst x)) H) as P3.
  pose proof (f_equal snd H) as P4. cbn [fst snd] in P1, P2, P3, P4.
  exists v, d, r, o.
  split; [exact E1|]. split; [symmetry; exact P3|]. split; [symmetry; exact P2|].
  split; [symmetry; exact P4|]. split; [exact E2|]. split; [exact E3|symmetry; exact P1].
Qed.
Print Assumptions C11_kf2_witness.

(** KF-C11-3, second half ([kf3b_C11]): the witness theorem [C11_kf3b_witness] is in Proofs/C11Witness.v (kept out of the
    dependency cone of Properties/C11.v: the 65536-column terminal is slow to re-check). *)

(** KF-C11-3, first half ([kf3_C11]: more than 65534 columns or 65535 rows).  A Coq witness is NOT
    attempted: it needs a terminal of at least 65535 columns that stays that wide, i.e. dumping and
    re-parsing a 70000-column list model inside Coq.  The implementation witness is the harness's [kf3]
    mode (the dump of such a terminal addresses columns beyond 65535, which the parser's 16-bit parameters
    cannot carry).  Outside the class the restore is [C11_restore_and_future_exact]. *)

(* ------------------------------------------------------------------------------------ *)
(** * 4. C17: the remaining spellings *)

(** ** ?1049l as the RESTORE spelling.  [CSI ?1049l] = switch to the primary screen, restore the cursor
       from the primary's saved context, re-fit the primary buffer to the current size.  The re-fit is
       NOT a clamp of the cursor: when the primary buffer was parked at another size, [buf_resize]
       re-wraps the text and takes the restored cursor along with the character it is on
       ([C17_roundtrip_1049l_reflow_ex]: saved at column 16 of a 20-column row, returned at 10 columns:
       column 6 of the continuation row, not column 9).  So the exact statement of the position is "where
       [buf_resize] of the primary buffer takes the tracked saved position" *)
Lemma reflow_restore_cursor u t' :
  reflow (restore_cursor u) = Ok t' ->
  exists b,
    buf_resize (buf u) (cols u) (rows u) (sc_col (sctx u)) (sc_row (sctx u))
      = Ok (b, (cur_col t', cur_row t'))
    /\ buf t' = b.
Proof.
  intros H. apply reflow_inv in H as (b & c & r & d & Hb & ->).
  destruct (restore_cursor_fields_eq u) as (R1 & _ & R3 & R4 & R5 & R6 & _).
  rewrite R1, R3, R4, R5, R6 in Hb.
  destruct (reflowed_cur (restore_cursor u) b c r d) as [Ec Er].
  exists b. rewrite Ec, Er, reflowed_buf. split; [exact Hb|reflexivity].
Qed.

Lemma decrst_scasb_cursor t t' :
  execute t (Decrst [SaveCursorAltScreenBuffer]) = Ok t' ->
  exists b,
    buf_resize (primary_buffer t) (cols t) (rows t)
      (sc_col (saved_of t Primary)) (sc_row (saved_of t Primary)) = Ok (b, (cur_col t', cur_row t'))
    /\ buf t' = b.
Proof.
  intros H. rewrite exec_decrst_one, decrst_scasb_eq in H. apply bind_ok in H as (t1 & H1 & H).
  unfold primary_buffer, saved_of.
  apply switch_prim_inv in H1 as [[Ea ->]|[Ea [d ->]]]; rewrite Ea; cbn [btype_eqb].
  - exact (reflow_restore_cursor t t' H).
  - destruct (to_prim_fields t d) as (_ & P2 & _ & _ & P5 & P6 & P7 & _).
    destruct (reflow_restore_cursor _ t' H) as (b & Hb & Eb).
    rewrite P2, P5, P6, P7 in Hb. exists b. split; assumption.
Qed.

(** [t] any state satisfying the invariant with the PRIMARY screen shown; any of the four save
    spellings; any run as in [C17_roundtrip_run] (control functions and resizes; nothing saves on the
    primary screen, no DECSTR while it is shown, no RIS); the run may end on EITHER screen; then
    [CSI ?1049l].  The primary screen is shown, pen / origin mode / auto-wrap mode are those in force at
    the save, no wrap is pending, the cursor is inside the screen, and its position is: exactly the
    tracked one [run_ctx] when the run ended on the primary screen or the parked primary buffer has the
    current size; in general the position to which the re-fit of the primary buffer takes [run_ctx].
    The primary's saved context afterwards is [run_ctx] clamped into the current size. *)
Theorem C17_roundtrip_run_1049l : forall t fsave t1 os t2 t3,
  TInv t -> active t = Primary -> is_save fsave -> execute t fsave = Ok t1 ->
  forallb rop_ok os = true -> rrun os t1 = Ok t2 ->
  no_save_reset_on Primary (active t1) os = true ->
  execute t2 (Decrst [SaveCursorAltScreenBuffer]) = Ok t3 ->
  let e := run_ctx Primary (active t1) (cols t) (rows t) (spec_saved_now t) os in
  active t3 = Primary
  /\ tpen t3 = tpen t /\ org t3 = org t /\ awm t3 = awm t /\ pend t3 = false
  /\ cur_col t3 < cols t3 /\ cur_row t3 < rows t3
  /\ (exists b, buf_resize (primary_buffer t2) (cols t2) (rows t2) (sc_col e) (sc_row e)
                  = Ok (b, (cur_col t3, cur_row t3)) /\ buf t3 = b)
  /\ (bcols (primary_buffer t2) = cols t2 -> brows (primary_buffer t2) = rows t2 ->
      cur_col t3 = sc_col e /\ cur_row t3 = sc_row e)
  /\ (active t2 = Primary -> cur_col t3 = sc_col e /\ cur_row t3 = sc_row e)
  /\ sc_col e <= viscol t /\ sc_row e <= cur_row t
  /\ saved_of t3 Primary = clamp_ctx e (cols t2) (rows t2).
Proof.
  intros t fsave t1 os t2 t3 HT Ea Hsv H1 Hok H2 Hsafe H3. cbv zeta.
  destruct (save_establishes t fsave t1 HT Hsv H1) as (HT1 & Sc & Sr & K1). rewrite Ea in K1.
  destruct (C17_run_saved true Primary os t1 t2 HT1 Hok H2 Hsafe) as (HT2 & _ & _ & K2).
  rewrite K1, Sc, Sr in K2.
  destruct (C17_decrst_scasb t2 t3 HT2 H3) as (B1 & B2 & B3 & B4 & B5 & B6 & B7). cbv zeta in *.
  destruct (C17_1049l t2 t3 HT2 H3) as (A1 & _ & _ & A4 & _).
  destruct (decrst_scasb_cursor t2 t3 H3) as (b & Hb & Eb).
  destruct (run_ctx_fields Primary os (active t1) (cols t) (rows t) (spec_saved_now t) Hsafe)
    as (E1 & E2 & E3 & E4 & E5). cbv zeta in *.
  rewrite K2 in *. rewrite E1 in B1. rewrite E2 in B2. rewrite E3 in B3.
  split; [exact A1|]. split; [exact B1|]. split; [exact B2|]. split; [exact B3|]. split; [exact B4|].
  split; [exact B5|]. split; [exact B6|]. split; [exists b; split; assumption|].
  split; [exact B7|]. split.
  { intros Ea2. destruct (PrimSize_prim t2 HT2 Ea2) as [J1 J2]. exact (B7 J1 J2). }
  split; [exact E4|]. split; [exact E5|exact A4].
Qed.
Print Assumptions C17_roundtrip_run_1049l.

(** the run without resizes: [CSI ?1049l] after ANY save spelling (ESC 7, CSI s, ?1048h, ?1049h)
    executed on the primary screen re-establishes EXACTLY the five components in force at the save -
    whichever screen the run ends on ([DECSC ; ?47h ; ... ; ?1049l], [?1048h ; ... ; ?1049l] on the
    primary screen, ...) *)
Theorem C17_roundtrip_1049l : forall t fsave t1 fs t2 t3,
  TInv t -> active t = Primary -> is_save fsave -> execute t fsave = Ok t1 ->
  rrun (map RF fs) t1 = Ok t2 ->
  no_save_reset_on Primary (active t1) (map RF fs) = true ->
  execute t2 (Decrst [SaveCursorAltScreenBuffer]) = Ok t3 ->
  active t3 = Primary
  /\ cur_col t3 = viscol t /\ cur_row t3 = cur_row t
  /\ tpen t3 = tpen t /\ org t3 = org t /\ awm t3 = awm t /\ pend t3 = false.
Proof.
  intros t fsave t1 fs t2 t3 HT Ea Hsv H1 H2 Hsafe H3.
  assert (Hok : forallb rop_ok (map RF fs) = true).
  { apply forallb_forall. intros o Ho. apply in_map_iff in Ho as (f & <- & _). reflexivity. }
  assert (Hnr : no_resize (map RF fs) = true).
  { apply forallb_forall. intros o Ho. apply in_map_iff in Ho as (f & <- & _). reflexivity. }
  destruct (C17_roundtrip_run_1049l t fsave t1 (map RF fs) t2 t3 HT Ea Hsv H1 Hok H2 Hsafe H3)
    as (A1 & A2 & A3 & A4 & A5 & _ & _ & _ & A9 & _). cbv zeta in *.
  rewrite (run_ctx_no_resize _ _ _ _ _ _ Hnr Hsafe (clamp_inside _ _ _ (saved_now_inv t HT))) in A9.
  destruct (save_establishes t fsave t1 HT Hsv H1) as (HT1 & _).
  pose proof (exec_PrimSize t fsave t1 HT (PrimSize_prim t HT Ea) H1) as HJ1.
  destruct (run_PrimSize fs t1 t2 HT1 HJ1 H2) as [J1 J2].
  destruct (A9 J1 J2) as [C1 C2].
  repeat split; assumption.
Qed.
Print Assumptions C17_roundtrip_1049l.

(** ** save spellings inside a mode LIST: [CSI ? ms1 ; 1048 ; ms2 h] / [CSI ? ms1 ; 1049 ; ms2 h] with
       flag modes (1, 7, 25: [quiet_mode]; mode 6 homes the cursor and the two switches 47 / 1047 change
       the screen, so a list containing them is not "a save spelling") before and after.  By
       [decset_quiet_around] the list acts as: the flags of [ms1], the save, the flags of [ms2] - so the
       context saved is the one in force AFTER the flags of [ms1] ([CSI ?7;1048h] saves auto-wrap ON). *)
Lemma set_quiet_fields ms b t :
  active (set_quiet ms b t) = active t /\ cols (set_quiet ms b t) = cols t
  /\ rows (set_quiet ms b t) = rows t /\ viscol (set_quiet ms b t) = viscol t
  /\ cur_row (set_quiet ms b t) = cur_row t /\ tpen (set_quiet ms b t) = tpen t
  /\ org (set_quiet ms b t) = org t
  /\ awm (set_quiet ms b t) = (if has_mode AutoWrap ms then b else awm t).
Proof. unfold set_quiet, viscol. destruct t. repeat split; reflexivity. Qed.

Lemma decset_quiet_safe s ms : Forall quiet_mode ms ->
  forall a, decset_safe s a ms = true /\ decset_active a ms = a.
Proof.
  induction 1 as [|m ms Hm HF IH]; intros a; [split; reflexivity|].
  destruct Hm as [->|[->| ->]]; cbn [decset_safe mode_safe decset_active]; unfold decset_active1;
    cbn [is_switch andb]; apply IH.
Qed.

Lemma run_ctx_quiet_head s a c r k ms os :
  Forall quiet_mode ms -> clamp_ctx k c r = k ->
  run_ctx s a c r k (RF (Decset ms) :: os) = run_ctx s a c r k os.
Proof.
  intros HF Hk. cbn [run_ctx step_ctx active_after].
  rewrite (proj2 (decset_quiet_safe s ms HF a)).
  unfold ctx_after. destruct (btype_eqb a s); [rewrite Hk|]; reflexivity.
Qed.

(** a list save = the flags of [ms1], the singleton save, then a run step of flags *)
Lemma list_save_as_run t ms1 m ms2 t1 :
  TInv t -> Forall quiet_mode ms1 -> Forall quiet_mode ms2 ->
  execute t (Decset (ms1 ++ m :: ms2)) = Ok t1 ->
  TInv (set_quiet ms1 true t)
  /\ exists t1', execute (set_quiet ms1 true t) (Decset [m]) = Ok t1'
       /\ execute t1' (Decset ms2) = Ok t1 /\ active t1 = active t1'.
Proof.
  intros HT H1 H2 H. rewrite (decset_quiet_around ms1 m ms2 t H1 H2) in H.
  apply bind_ok in H as (t1' & E & H). apply Ok_inj in H. subst t1.
  split; [exact (exec_TInv t (Decset ms1) _ HT (decset_quiet ms1 t H1))|].
  exists t1'. split; [exact E|]. split; [exact (decset_quiet ms2 t1' H2)|].
  exact (proj1 (set_quiet_fields ms2 true t1')).
Qed.

Theorem C17_roundtrip_run_list : forall t ms1 m ms2 t1 os t2 frest t3,
  TInv t -> Forall quiet_mode ms1 -> Forall quiet_mode ms2 ->
  m = SaveCursor \/ m = SaveCursorAltScreenBuffer ->
  execute t (Decset (ms1 ++ m :: ms2)) = Ok t1 ->
  forallb rop_ok os = true -> rrun os t1 = Ok t2 ->
  no_save_reset_on (active t) (active t1) os = true ->
  active t2 = active t ->
  is_restore frest -> execute t2 frest = Ok t3 ->
  let e := run_ctx (active t) (active t1) (cols t) (rows t)
             (spec_saved_now (set_quiet ms1 true t)) os in
  cur_col t3 = sc_col e /\ cur_row t3 = sc_row e
  /\ tpen t3 = tpen t /\ org t3 = org t
  /\ awm t3 = (if has_mode AutoWrap ms1 then true else awm t) /\ pend t3 = false
  /\ cur_col t3 < cols t3 /\ cur_row t3 < rows t3
  /\ cur_col t3 <= viscol t /\ cur_row t3 <= cur_row t.
Proof.
  intros t ms1 m ms2 t1 os t2 frest t3 HT Q1 Q2 Hm H1 Hok H2 Hsafe Hact Hrs H3. cbv zeta.
  destruct (list_save_as_run t ms1 m ms2 t1 HT Q1 Q2 H1) as (HT0 & t1' & E1 & E2 & Ea1).
  destruct (set_quiet_fields ms1 true t) as (F1 & F2 & F3 & F4 & F5 & F6 & F7 & F8).
  assert (Hsv : is_save (Decset [m])) by (destruct Hm as [->| ->]; exact I).
  assert (Hok' : forallb rop_ok (RF (Decset ms2) :: os) = true) by exact Hok.
  assert (H2' : rrun (RF (Decset ms2) :: os) t1' = Ok t2).
  { rewrite rrun_cons_f, E2. exact H2. }
  assert (Hsafe' : no_save_reset_on (active (set_quiet ms1 true t)) (active t1') (RF (Decset ms2) :: os) = true).
  { unfold no_save_reset_on in *. cbn [safe_run step_safe active_after].
    destruct (decset_quiet_safe (active (set_quiet ms1 true t)) ms2 Q2 (active t1')) as [S1 S2].
    rewrite S1, S2, F1, <- Ea1. exact Hsafe. }
  pose proof (C17_roundtrip_run _ _ _ _ _ _ _ HT0 Hsv E1 Hok' H2' Hsafe' (eq_trans Hact (eq_sym F1)) Hrs H3)
    as R. cbv zeta in R.
  rewrite (run_ctx_quiet_head _ _ _ _ _ ms2 os Q2 (clamp_inside _ _ _ (saved_now_inv _ HT0))) in R.
  rewrite F1, F2, F3, F4, F5, F6, F7, F8, <- Ea1 in R. exact R.
Qed.
Print Assumptions C17_roundtrip_run_list.

(** the same with [CSI ?1049l] as the restore (primary screen shown at the save) *)
Theorem C17_roundtrip_run_list_1049l : forall t ms1 m ms2 t1 os t2 t3,
  TInv t -> active t = Primary -> Forall quiet_mode ms1 -> Forall quiet_mode ms2 ->
  m = SaveCursor \/ m = SaveCursorAltScreenBuffer ->
  execute t (Decset (ms1 ++ m :: ms2)) = Ok t1 ->
  forallb rop_ok os = true -> rrun os t1 = Ok t2 ->
  no_save_reset_on Primary (active t1) os = true ->
  execute t2 (Decrst [SaveCursorAltScreenBuffer]) = Ok t3 ->
  let e := run_ctx Primary (active t1) (cols t) (rows t) (spec_saved_now (set_quiet ms1 true t)) os in
  active t3 = Primary
  /\ tpen t3 = tpen t /\ org t3 = org t
  /\ awm t3 = (if has_mode AutoWrap ms1 then true else awm t) /\ pend t3 = false
  /\ cur_col t3 < cols t3 /\ cur_row t3 < rows t3
  /\ (exists b, buf_resize (primary_buffer t2) (cols t2) (rows t2) (sc_col e) (sc_row e)
                  = Ok (b, (cur_col t3, cur_row t3)) /\ buf t3 = b)
  /\ (bcols (primary_buffer t2) = cols t2 -> brows (primary_buffer t2) = rows t2 ->
      cur_col t3 = sc_col e /\ cur_row t3 = sc_row e)
  /\ (active t2 = Primary -> cur_col t3 = sc_col e /\ cur_row t3 = sc_row e)
  /\ sc_col e <= viscol t /\ sc_row e <= cur_row t
  /\ saved_of t3 Primary = clamp_ctx e (cols t2) (rows t2).
Proof.
  intros t ms1 m ms2 t1 os t2 t3 HT Ea Q1 Q2 Hm H1 Hok H2 Hsafe H3. cbv zeta.
  destruct (list_save_as_run t ms1 m ms2 t1 HT Q1 Q2 H1) as (HT0 & t1' & E1 & E2 & Ea1).
  destruct (set_quiet_fields ms1 true t) as (F1 & F2 & F3 & F4 & F5 & F6 & F7 & F8).
  assert (Hsv : is_save (Decset [m])) by (destruct Hm as [->| ->]; exact I).
  assert (Hok' : forallb rop_ok (RF (Decset ms2) :: os) = true) by exact Hok.
  assert (H2' : rrun (RF (Decset ms2) :: os) t1' = Ok t2).
  { rewrite rrun_cons_f, E2. exact H2. }
  assert (Hsafe' : no_save_reset_on Primary (active t1') (RF (Decset ms2) :: os) = true).
  { unfold no_save_reset_on in *. cbn [safe_run step_safe active_after].
    destruct (decset_quiet_safe Primary ms2 Q2 (active t1')) as [S1 S2].
    rewrite S1, S2, <- Ea1. exact Hsafe. }
  pose proof (C17_roundtrip_run_1049l _ _ _ _ _ _ HT0 (eq_trans F1 Ea) Hsv E1 Hok' H2' Hsafe' H3) as R.
  cbv zeta in R.
  rewrite (run_ctx_quiet_head _ _ _ _ _ ms2 os Q2 (clamp_inside _ _ _ (saved_now_inv _ HT0))) in R.
  rewrite F2, F3, F4, F5, F6, F7, F8, <- Ea1 in R. exact R.
Qed.
Print Assumptions C17_roundtrip_run_list_1049l.

(** ** Examples *)

(** [C17_roundtrip_1049l]: bold, "ab", ESC 7 on the primary screen (column 2); [?47h], prints, pen and
    mode changes, a save and a soft reset on the ALTERNATE screen; [?1049l] from there: primary screen,
    column 2 of row 0, bold, origin off, auto-wrap on.  The same with [?1048h] as the save and a run
    that stays on the primary screen. *)
Definition l49_fs : list func :=
  [Decset [AltScreenBuffer]; Cup 3 5; Print 120; Sgr [Reset]; Decsc; Decstr; Decset [Origin];
   Decrst [AutoWrap]].
Definition l49_fs' : list func :=
  [Cup 3 5; Print 120; Sgr [Reset]; Decset [Origin]; Decrst [AutoWrap]].

Example C17_roundtrip_1049l_ex :
  match feed_str (vt_new 10 5 None) ([27; 91; 49; 109; 97; 98]%N) with
  | Ok (v, _) =>
    let t := vterm v in
    match execute t Decsc, execute t (Decset [SaveCursor]) with
    | Ok t1, Ok t1' =>
      match rrun (map RF l49_fs) t1, rrun (map RF l49_fs') t1' with
      | Ok t2, Ok t2' =>
        match execute t2 (Decrst [SaveCursorAltScreenBuffer]),
              execute t2' (Decrst [SaveCursorAltScreenBuffer]) with
        | Ok t3, Ok t3' =>
          active t = Primary
          /\ no_save_reset_on Primary (active t1) (map RF l49_fs) = true
          /\ no_save_reset_on Primary (active t1') (map RF l49_fs') = true
          /\ active t2 = Alternate /\ active t2' = Primary
          /\ (cur_col t2, cur_row t2, intensity (tpen t2), org t2, awm t2) = (0, 0, Normal, true, false)
          /\ (cur_col t2', cur_row t2', intensity (tpen t2'), org t2', awm t2') = (0, 0, Normal, true, false)
          /\ (active t3, cur_col t3, cur_row t3, intensity (tpen t3), org t3, awm t3)
             = (Primary, 2, 0, Bold, false, true)
          /\ (active t3', cur_col t3', cur_row t3', intensity (tpen t3'), org t3', awm t3')
             = (Primary, 2, 0, Bold, false, true)
        | _, _ => False
        end
      | _, _ => False
      end
    | _, _ => False
    end
  | Panic _ => False
  end.
Proof. vm_compute. repeat split. Qed.

(** [C17_roundtrip_run_1049l] with a resize while the primary buffer is parked: 20 x 5,
    "0123456789abcdef" (cursor at column 16), ESC 7, [?47h], resize to 10 x 5, [?1049l].  The tracked
    context is still column 16 of row 0 (the primary screen was never shown at 10 columns); the re-fit
    wraps the row ("0123456789" scrolls into the scrollback, "abcdef" is row 0 of the view) and the
    cursor follows its character: column 6 - NOT the clamp (column 9), which is what the primary's
    saved context becomes. *)
Definition l49_os : list rop := [RF (Decset [AltScreenBuffer]); RResize 10 5].

Example C17_roundtrip_1049l_reflow_ex :
  match feed_str (vt_new 20 5 None) ([48;49;50;51;52;53;54;55;56;57;97;98;99;100;101;102]%N) with
  | Ok (v, _) =>
    let t := vterm v in
    match execute t Decsc with
    | Ok t1 =>
      match rrun l49_os t1 with
      | Ok t2 =>
        match execute t2 (Decrst [SaveCursorAltScreenBuffer]) with
        | Ok t3 =>
          let e := run_ctx Primary (active t1) (cols t) (rows t) (spec_saved_now t) l49_os in
          active t = Primary /\ no_save_reset_on Primary (active t1) l49_os = true
          /\ forallb rop_ok l49_os = true /\ active t2 = Alternate
          /\ (sc_col e, sc_row e) = (16, 0)
          /\ (bcols (primary_buffer t2), cols t2) = (20, 10)
          /\ (active t3, cur_col t3, cur_row t3, sb_len (buf t3)) = (Primary, 6, 0, 1)
          /\ (sc_col (saved_of t3 Primary), sc_row (saved_of t3 Primary)) = (9, 0)
        | Panic _ => False
        end
      | Panic _ => False
      end
    | Panic _ => False
    end
  | Panic _ => False
  end.
Proof. vm_compute. repeat split. Qed.

(** [C17_roundtrip_run_list]: auto-wrap off, "ab"; [CSI ? 25 ; 7 ; 1048 ; 1 h] saves with auto-wrap ON
    (the flag 7 precedes the save in the list); later auto-wrap is switched off again, the cursor and
    pen are changed; ESC 8 restores column 2, the default pen and auto-wrap ON *)
Definition lst_ms1 : list dec_mode := [TextCursorEnable; AutoWrap].
Definition lst_os : list rop := [RF (Decrst [AutoWrap]); RF (Cup 3 5); RF (Sgr [SetItalic])].

Example C17_roundtrip_run_list_ex :
  match feed_str (vt_new 10 5 None) ([27; 91; 63; 55; 108; 97; 98]%N) with
  | Ok (v, _) =>
    let t := vterm v in
    match execute t (Decset (lst_ms1 ++ SaveCursor :: [CursorKeys])) with
    | Ok t1 =>
      match rrun lst_os t1 with
      | Ok t2 =>
        match execute t2 Decrc with
        | Ok t3 =>
          awm t = false /\ has_mode AutoWrap lst_ms1 = true
          /\ no_save_reset_on (active t) (active t1) lst_os = true /\ active t2 = active t
          /\ (cur_col t2, cur_row t2, awm t2) = (4, 2, false)
          /\ (cur_col t3, cur_row t3, awm t3, ckm t3) = (2, 0, true, true)
        | Panic _ => False
        end
      | Panic _ => False
      end
    | Panic _ => False
    end
  | Panic _ => False
  end.
Proof. vm_compute. repeat split. Qed.
