(** Property C11, terminal level: what each control function of the dump script does, as
    equations [execute E f = Ok (E <| ... |>)] valid for an ARBITRARY record [E] (no invariant),
    so that they can be chained on the explicit record that tracks the restored terminal. *)

From Coq Require Import Lia ZArith ZifyBool ZifyNat ZifyN.
From Avt Require Import Model.Vt Spec.Screen Oracles.Rel Proofs.Inv Proofs.Tabs Proofs.Frames
  Proofs.Resize Proofs.BufRow Proofs.DumpScriptBase.
Ltac Zify.zify_post_hook ::= Z.div_mod_to_equations.

Lemma as_usize_succ k d : as_usize (N.of_nat (k + 1)) d = k + 1.
Proof. unfold as_usize, as_usize_gen. destruct (N.eqb_spec (N.of_nat (k + 1)) 0); lia. Qed.

(** * cursor *)

Lemma x_cha E k :
  execute E (Cha (N.of_nat (k + 1)))
  = Ok (E <| cur_col := Nat.min k (cols E - 1) |> <| pend := false |>).
Proof.
  unfold execute, move_cursor_to_col, do_move_cursor_to_col. rewrite as_usize_succ.
  replace (k + 1 - 1) with k by lia.
  destruct (Nat.leb_spec (cols E) k).
  - replace (Nat.min k (cols E - 1)) with (cols E - 1) by lia. reflexivity.
  - replace (Nat.min k (cols E - 1)) with k by lia. reflexivity.
Qed.

Lemma x_cup E r c :
  execute E (Cup (N.of_nat (r + 1)) (N.of_nat (c + 1)))
  = Ok (E <| cur_col := Nat.min c (cols E - 1) |> <| cur_row := spec_abs_row E r |> <| pend := false |>).
Proof.
  unfold execute, cup, move_cursor_to_col, do_move_cursor_to_col. rewrite !as_usize_succ.
  replace (r + 1 - 1) with r by lia. replace (c + 1 - 1) with c by lia.
  unfold move_cursor_to_row, do_move_cursor_to_row, actual_top_margin, actual_bottom_margin, spec_abs_row.
  destruct (Nat.leb_spec (cols E) c).
  - replace (Nat.min c (cols E - 1)) with (cols E - 1) by lia. rsimp.
    rewrite Nat.min_id. reflexivity.
  - replace (Nat.min c (cols E - 1)) with c by lia. rsimp.
    replace (Nat.min c (cols E - 1)) with c by lia. reflexivity.
Qed.

Lemma x_home_on E :
  execute E (Decset [Origin])
  = Ok (E <| org := true |> <| cur_col := 0 |> <| cur_row := top E |> <| pend := false |>).
Proof. reflexivity. Qed.

Lemma x_home_off E :
  execute E (Decrst [Origin])
  = Ok (E <| org := false |> <| cur_col := 0 |> <| cur_row := 0 |> <| pend := false |>).
Proof. reflexivity. Qed.

Lemma x_decstbm E tp bt :
  tp < bt -> bt < rows E ->
  execute E (Decstbm (N.of_nat (tp + 1)) (N.of_nat (bt + 1)))
  = Ok (E <| top := tp |> <| bot := bt |> <| cur_col := 0 |>
          <| cur_row := if org E then tp else 0 |> <| pend := false |>).
Proof.
  intros H1 H2. unfold execute, decstbm. rewrite !as_usize_succ.
  replace (tp + 1 - 1) with tp by lia. replace (bt + 1 - 1) with bt by lia.
  destruct (Nat.ltb_spec tp bt); [|lia]. destruct (Nat.ltb_spec bt (rows E)); [|lia].
  cbn [andb]. reflexivity.
Qed.

(** * modes, pen, charsets, tabs, saved cursor *)

Lemma x_awm_off E : execute E (Decrst [AutoWrap]) = Ok (E <| awm := false |>).
Proof. reflexivity. Qed.
Lemma x_awm_on E : execute E (Decset [AutoWrap]) = Ok (E <| awm := true |>).
Proof. reflexivity. Qed.
Lemma x_cursor_off E : execute E (Decrst [TextCursorEnable]) = Ok (E <| cur_vis := false |>).
Proof. reflexivity. Qed.
Lemma x_ckm_on E : execute E (Decset [CursorKeys]) = Ok (E <| ckm := true |>).
Proof. reflexivity. Qed.
Lemma x_sm_insert E : execute E (Sm [Insert]) = Ok (E <| ins := true |>).
Proof. reflexivity. Qed.
Lemma x_sm_newline E : execute E (Sm [NewLine]) = Ok (E <| nlm := true |>).
Proof. reflexivity. Qed.
Lemma x_gzd4 E c : execute E (Gzd4 c) = Ok (E <| cs0 := c |>).
Proof. reflexivity. Qed.
Lemma x_g1d4 E c : execute E (G1d4 c) = Ok (E <| cs1 := c |>).
Proof. reflexivity. Qed.
Lemma x_so E : execute E So = Ok (E <| acs := 1 |>).
Proof. reflexivity. Qed.
Lemma x_sgr E ops : execute E (Sgr ops) = Ok (E <| tpen := fold_left sgr_one ops (tpen E) |>).
Proof. reflexivity. Qed.
Lemma x_ctc_clear E : execute E (Ctc CtcClearAll) = Ok (E <| tabs := [] |>).
Proof. reflexivity. Qed.
Lemma x_ctc_set E :
  0 < cur_col E < cols E ->
  execute E (Ctc CtcSet) = Ok (E <| tabs := tabs_set (cur_col E) (tabs E) |>).
Proof.
  intros H. cbn [execute ctc]. unfold set_tab.
  destruct (Nat.ltb_spec 0 (cur_col E)); [|lia]. destruct (Nat.ltb_spec (cur_col E) (cols E)); [|lia].
  reflexivity.
Qed.
Lemma x_decsc E :
  execute E Decsc
  = Ok (E <| sctx := mkCtx (Nat.min (cur_col E) (cols E - 1)) (cur_row E) (tpen E) (org E) (awm E) |>).
Proof. destruct E. reflexivity. Qed.
