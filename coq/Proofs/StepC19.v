(** C19: ESC c from ANY state yields syntactically the freshly built terminal. *)

From Coq Require Import Lia.
From Avt Require Import Oracles.Step Spec.Williams Proofs.Inv Proofs.TermEasy Proofs.ParserInv.

Definition pesc : parser := mkParser Escape (repeat default_param PARAMS_LEN) 0 None.

Lemma feed_esc p : PInv p -> feedM p 27 = Ok (pesc, None).
Proof.
  intros H. rewrite (feedM_char p 27 H). unfold feed_step, feed_emit.
  assert (W : williams (pst p) 27 = mkTrans Escape KIgnore true) by (destruct (pst p); reflexivity).
  rewrite W. cbn [t_clear t_kind t_next]. rewrite (clear_eq p H). reflexivity.
Qed.

Lemma PInv_escape : PInv pesc.
Proof.
  pose proof init_parser_PInv as H. unfold init_parser in H.
  destruct H as (H1 & H2 & H3 & H4). repeat split; assumption.
Qed.

Lemma feed_c_after_esc : feedM pesc 99 = Ok (init_parser, Some Ris).
Proof. rewrite (feedM_char _ 99 PInv_escape). reflexivity. Qed.

Global Opaque pesc.

(** the two characters ESC c, fed from any reachable state *)
Theorem ris_is_fresh : forall v v1 v2,
  Inv v -> vt_feed v 27 = Ok v1 -> vt_feed v1 99 = Ok v2 ->
  v2 = vt_new (cols (vterm v)) (rows (vterm v)) (sb_limit (vterm v)).
Proof.
  intros v v1 v2 [HP HT] E1 E2.
  unfold vt_feed in E1. rewrite (feed_esc _ HP) in E1.
  change (Ok (mkVt pesc (vterm v)) = Ok v1) in E1. injection E1 as <-.
  unfold vt_feed in E2. change (vparser (mkVt pesc (vterm v))) with pesc in E2.
  rewrite feed_c_after_esc in E2.
  change (Ok (mkVt init_parser (hard_reset_gen (vterm v))) = Ok v2) in E2.
  injection E2 as <-. unfold vt_new. f_equal.
  apply hard_reset_is_new. exact (ti_xtw _ HT).
Qed.

(** ... hence it reacts to every subsequent input exactly like the fresh one *)
Corollary ris_then_any : forall v v1 v2 s,
  Inv v -> vt_feed v 27 = Ok v1 -> vt_feed v1 99 = Ok v2 ->
  feed_str v2 s = feed_str (vt_new (cols (vterm v)) (rows (vterm v)) (sb_limit (vterm v))) s.
Proof. intros v v1 v2 s H E1 E2. now rewrite (ris_is_fresh v v1 v2 H E1 E2). Qed.

(** the executable statement: executing Ris from a state with [xtw = false] and then
    comparing with [vt_new] succeeds, whatever the parser was, provided the post parser is
    the initial one (which ESC c guarantees, above) *)
Theorem C19_holds : forall p t t',
  TInv t -> execute t Ris = Ok t' -> holds_C19 (mkVt p t) Ris (mkVt init_parser t') = true.
Proof.
  intros p t t' HT E. cbn in E. injection E as <-.
  unfold holds_C19. cbn [vterm]. rewrite (hard_reset_is_new t (ti_xtw _ HT)).
  apply vt_eqb_refl.
Qed.

(** from every parser state ESC c emits Ris: ESC aborts any sequence or string *)
Theorem ris_from_anywhere : forall p, PInv p ->
  exists p1, feedM p 27 = Ok (p1, None) /\ feedM p1 99 = Ok (init_parser, Some Ris).
Proof.
  intros p H. eexists. split; [apply (feed_esc p H)|]. apply feed_c_after_esc.
Qed.
