(** [closed_execute] for one group of [func] constructors (leaf of Proofs/TermTieClosed.v) *)
From Coq Require Import Lia ZArith ZifyBool ZifyNat ZifyN.
From Avt Require Import Oracles.Step Proofs.Inv Proofs.TermEasy Gen.TermFns Proofs.TermTie_Core Proofs.InvStep
  Proofs.TermTieW_Core Proofs.TermTieClosed_Core.
From Avt Require Import Gen.BufFns Proofs.BufTie Gen.SgrFns Proofs.SgrTie.
From Avt Require Gen.RestFns Proofs.RestTie.
Ltac Zify.zify_post_hook ::= Z.div_mod_to_equations.
Local Open Scope Z_scope.


Definition cgrp_D (f : func) : bool := match f with Scorc | Scosc | Sd _ | Sgr _ | Si | So | Su _ | Tbc _ | Vpa _ | Vpr _ => true | _ => false end.

Lemma closed_execute_D : forall t f, TInv t -> cgrp_D f = true ->
  w_execute Og (zabs t) (wabs t) f = w_execute Om (zabs t) (wabs t) f.
Proof.
  intros t f HT Hf. destruct (ti_tabs t HT) as [Hs _].
  destruct f; try discriminate Hf; cbn [w_execute]; apply f_equal;
    repeat match goal with
           | x : ?T |- _ =>
             lazymatch T with
             | ed_scope => destruct x | el_scope => destruct x | ctc_op => destruct x
             | tbc_scope => destruct x | xtwinops_op => destruct x
             end
           end;
    destruct t; cbn [Types.tabs] in Hs; unfold zabs, wabs; lock.
Qed.
