(** Property C12 for EVERY scrollback limit: the visible screen, cursor and modes after
    feeding a character stream do not depend on how the stream is cut into [feed_str] calls.

    Route: every session [run_session v ss] is related, by the prefix relation [Rx] of
    Proofs/ParamChop.v (flags ignored, some rows above the views dropped), to the flush-free
    reference run [feed_chars v (concat ss)].  Two sessions with the same [concat] are related
    to the SAME reference state, hence have the same visible state ([Rvis]).

    Main results: [session_reference], [C12_sessions_from], [C12_sessions], [C12_perchar],
    [C12_sessions_unlimited] ([holds_C12]), [C12_sessions_obs] (the first two conjuncts of
    [holds_C12], any limit). *)

From Avt Require Import Proofs.Inv Proofs.VisEq Proofs.ListLemmas Proofs.BufRow Proofs.BufScroll
  Proofs.Resize Proofs.ParamDT Spec.Eqb Oracles.Rel Proofs.ParamChop.
Require Import Lia ZArith ZifyBool ZifyNat.
Import ListNotations.

(** * 1. the relation along [feed_chars], for arbitrary prefixes *)

Lemma feed_chars_Rx_any tr cl L1 L2 s : forall Dp Da v w,
  Rvx tr cl L1 L2 Dp Da v w ->
  rres (fun v' w' => exists Dp' Da', (Dp = [] -> Dp' = []) /\ Rvx tr cl L1 L2 Dp' Da' v' w')
       (feed_chars v s) (feed_chars w s).
Proof.
  induction s as [|c s IH]; intros Dp Da v w H; cbn [feed_chars].
  - constructor. exists Dp, Da. split; [auto|exact H].
  - eapply rres_bind; [apply vt_feed_Rx; exact H|].
    intros x y (Da' & _ & Hxy).
    eapply rres_impl; [|apply (IH _ _ _ _ Hxy)].
    intros x' y' (Dp'' & Da'' & HD & Hxy'). exists Dp'', Da''. split; [|exact Hxy'].
    intros E. apply HD. rewrite E. destruct (ris_at v c); reflexivity.
Qed.

(** * 2. a flush of the right-hand terminal only, any limits *)

Lemma flush_right_any cl L1 L2 Dp Da a b :
  Rx false cl L1 L2 Dp Da a b ->
  exists Dp' Da', (L2 = None -> Dp = [] -> Dp' = []) /\ Rx false cl L1 L2 Dp' Da' a (flushed b).
Proof.
  intros H. pose proof (x_buf _ _ _ _ _ _ _ _ H) as Hb.
  pose proof (x_sl2 _ _ _ _ _ _ _ _ H) as Hs2. pose proof (gc_excess_le (buf b)) as Hle.
  pose proof (RBg_gc_r _ _ _ _ _ _ _ _ Hb Hle) as Hb'.
  set (X := firstn (gc_excess (buf b)) (lines (buf b))) in *.
  exists (match active a with Primary => Dp ++ X | Alternate => Dp end),
         (match active a with Primary => Da | Alternate => Da ++ X end).
  split.
  - intros EL ED. destruct (active a) eqn:EA; [|exact ED].
    cbn [lim_sel] in Hb. subst Dp. cbn [app]. unfold X.
    rewrite gc_excess_unlimited; [reflexivity|].
    rewrite (g_l2 _ _ _ _ _ _ _ _ Hb), Hs2, EL. reflexivity.
  - unfold flushed. constructor; psimpl; try apply H; try (intros E; discriminate).
    + destruct (active a); cbn [Dsel] in *; exact Hb'.
    + pose proof (x_other _ _ _ _ _ _ _ _ H) as Ho.
      destruct (active a); [intros E; discriminate|exact Ho].
    + rewrite dirty_clear_len. apply H.
Qed.

(** * 3. a session against its flush-free reference run *)

Theorem session_reference L ss : forall Dp Da u v v' outs,
  Rvx false false L L Dp Da u v -> (L = None -> Dp = []) ->
  run_session v ss = Ok (v', outs) ->
  exists u' Dp' Da',
    feed_chars u (concat ss) = Ok u' /\ Rvx false false L L Dp' Da' u' v' /\ (L = None -> Dp' = []).
Proof.
  induction ss as [|s ss IH]; intros Dp Da u v v' outs H HD E; cbn [run_session concat] in *.
  - injection E as <- <-. exists u, Dp, Da. split; [reflexivity|]. split; [exact H|exact HD].
  - destruct (feed_str v s) as [[v1 o1]|e] eqn:F; cbn [bind fst snd] in E; [|discriminate].
    destruct (run_session v1 ss) as [[v2 os]|e] eqn:R; cbn [bind fst snd] in E; [|discriminate].
    injection E as <- <-.
    apply feed_str_inv in F. destruct F as (w & Fw & Gw).
    destruct (rres_ok_inv_r _ _ _ _ (feed_chars_Rx_any _ _ _ _ s _ _ _ _ H) Fw)
      as (u1 & Fu & (Dp1 & Da1 & HD1 & [Hp1 Hx1])).
    apply vt_flush_inv in Gw. destruct Gw as (Pw & Tw & _).
    destruct (flush_right_any _ _ _ _ _ _ _ Hx1) as (Dp2 & Da2 & HD2 & Hx2).
    rewrite <- Tw in Hx2.
    assert (H1 : Rvx false false L L Dp2 Da2 u1 v1) by (split; [congruence|exact Hx2]).
    assert (HD' : L = None -> Dp2 = []).
    { intros EL. apply HD2; [exact EL|]. apply HD1. apply HD. exact EL. }
    destruct (IH _ _ _ _ _ _ H1 HD' R) as (u' & Dp' & Da' & Fu' & H' & HD'').
    exists u', Dp', Da'. split; [|split; assumption].
    rewrite feed_chars_app, Fu. cbn [bind]. exact Fu'.
Qed.

(** * 4. the visible state *)

(** "the same visible screen, cursor, modes": equal scalars (every field except the two
    buffers and [dirty]), equal geometry and view of the active buffer and - when the
    alternate screen is active - equal geometry and view of the parked primary *)
Definition vis_buf (x y : buffer) : Prop :=
  view x = view y /\ bcols x = bcols y /\ brows x = brows y.

Record Rvis (a b : term) : Prop := mkRvis {
  v_scal : scal a = scal b;
  v_buf : vis_buf (buf a) (buf b);
  v_other : active a = Alternate -> vis_buf (other a) (other b)
}.

Lemma RBg_vis tr c r l1 l2 D b1 b2 : RBg tr c r l1 l2 D b1 b2 -> vis_buf b1 b2.
Proof.
  intros H. split; [eapply G_view; exact H|].
  rewrite (g_c1 _ _ _ _ _ _ _ _ H), (g_c2 _ _ _ _ _ _ _ _ H), (g_r1 _ _ _ _ _ _ _ _ H),
    (g_r2 _ _ _ _ _ _ _ _ H). split; reflexivity.
Qed.

Lemma vis_buf_common x y z : vis_buf x y -> vis_buf x z -> vis_buf y z.
Proof. intros (A1 & A2 & A3) (B1 & B2 & B3). repeat split; congruence. Qed.

(** a state and the reference it is related to look the same *)
Lemma Rx_Rvis L Dp Da u v : Rx false false L L Dp Da u v -> Rvis u v.
Proof.
  intros H. constructor.
  - eapply Rx_scal; [reflexivity|exact H].
  - eapply RBg_vis. exact (x_buf _ _ _ _ _ _ _ _ H).
  - intros EA. pose proof (x_other _ _ _ _ _ _ _ _ H) as Ho. rewrite EA in Ho.
    eapply RBg_vis; exact Ho.
Qed.

Lemma Rvis_common u a b : Rvis u a -> Rvis u b -> Rvis a b.
Proof.
  intros [S1 B1 O1] [S2 B2 O2].
  assert (EA : active u = active a).
  { unfold scal in S1. injection S1. intros. assumption. }
  constructor.
  - congruence.
  - eapply vis_buf_common; eassumption.
  - intros E. rewrite <- EA in E. eapply vis_buf_common; [apply O1|apply O2]; exact E.
Qed.

Lemma Rvis_sym a b : Rvis a b -> Rvis b a.
Proof.
  intros [S B O].
  assert (EA : active a = active b) by (unfold scal in S; injection S; intros; assumption).
  constructor; [congruence| |].
  - destruct B as (A1 & A2 & A3). repeat split; congruence.
  - intros E. rewrite <- EA in E. destruct (O E) as (A1 & A2 & A3). repeat split; congruence.
Qed.

(** * 5. C12 for every limit *)

(** from an arbitrary well-formed start state *)
Theorem C12_sessions_from : forall v ss1 ss2 v1 o1 v2 o2,
  TInv (vterm v) -> parked_ok (vterm v) ->
  concat ss1 = concat ss2 ->
  run_session v ss1 = Ok (v1, o1) -> run_session v ss2 = Ok (v2, o2) ->
  vparser v1 = vparser v2 /\ Rvis (vterm v1) (vterm v2).
Proof.
  intros v ss1 ss2 v1 o1 v2 o2 HT HP EC E1 E2.
  pose proof (Rx_refl false false _ HT HP) as H0.
  assert (HV : Rvx false false (sb_limit (vterm v)) (sb_limit (vterm v)) [] [] v v)
    by (split; [reflexivity|exact H0]).
  destruct (session_reference _ ss1 _ _ _ _ _ _ HV (fun _ => eq_refl) E1)
    as (u1 & Dp1 & Da1 & F1 & [P1 X1] & _).
  destruct (session_reference _ ss2 _ _ _ _ _ _ HV (fun _ => eq_refl) E2)
    as (u2 & Dp2 & Da2 & F2 & [P2 X2] & _).
  rewrite EC, F2 in F1. injection F1 as ->.
  split; [congruence|].
  eapply Rvis_common; eapply Rx_Rvis; eassumption.
Qed.

Print Assumptions C12_sessions_from.

Lemma Rx_new2 tr cl c r L1 L2 :
  Rx tr cl L1 L2 [] [] (term_new_gen c r L1) (term_new_gen c r L2).
Proof.
  unfold term_new_gen. constructor; psimpl; try reflexivity; try apply leq_refl.
  - cbn [lim_sel Dsel]. apply buffer_new_G.
  - intros _. cbn [length]. rewrite chop_0. split; [reflexivity|lia].
  - destruct cl; reflexivity.
Qed.

(** the two facts about sessions from [vt_new] from which everything else follows *)
Lemma sessions_new c r l ss v o :
  run_session (vt_new c r l) ss = Ok (v, o) ->
  exists u Dp Da, feed_chars (vt_new c r l) (concat ss) = Ok u
                  /\ Rvx false false l l Dp Da u v /\ (l = None -> Dp = []).
Proof.
  intros E.
  assert (HV : Rvx false false l l [] [] (vt_new c r l) (vt_new c r l))
    by (split; [reflexivity|apply Rx_new2]).
  exact (session_reference _ ss _ _ _ _ _ _ HV (fun _ => eq_refl) E).
Qed.

(** (the hypotheses [1 <= c], [1 <= r] are not needed) *)
Theorem C12_sessions : forall c r l ss1 ss2 v1 o1 v2 o2,
  1 <= c -> 1 <= r -> concat ss1 = concat ss2 ->
  run_session (vt_new c r l) ss1 = Ok (v1, o1) -> run_session (vt_new c r l) ss2 = Ok (v2, o2) ->
  vparser v1 = vparser v2 /\ Rvis (vterm v1) (vterm v2).
Proof.
  intros c r l ss1 ss2 v1 o1 v2 o2 _ _ EC E1 E2.
  destruct (sessions_new _ _ _ _ _ _ E1) as (u1 & Dp1 & Da1 & F1 & [P1 X1] & _).
  destruct (sessions_new _ _ _ _ _ _ E2) as (u2 & Dp2 & Da2 & F2 & [P2 X2] & _).
  rewrite EC, F2 in F1. injection F1 as ->.
  split; [congruence|]. eapply Rvis_common; eapply Rx_Rvis; eassumption.
Qed.

Print Assumptions C12_sessions.

(** per-character [feed()] (no flush at all) is the reference itself *)
Theorem C12_perchar : forall c r l s ss u v o,
  feed_chars (vt_new c r l) s = Ok u -> run_session (vt_new c r l) ss = Ok (v, o) ->
  concat ss = s ->
  vparser u = vparser v /\ Rvis (vterm u) (vterm v).
Proof.
  intros c r l s ss u v o F E EC.
  destruct (sessions_new _ _ _ _ _ _ E) as (u' & Dp & Da & F' & [P X] & _).
  rewrite EC, F in F'. injection F' as <-.
  split; [exact P|eapply Rx_Rvis; exact X].
Qed.

Print Assumptions C12_perchar.

Theorem C12_perchar_from : forall v0 s ss u v o,
  TInv (vterm v0) -> parked_ok (vterm v0) ->
  feed_chars v0 s = Ok u -> run_session v0 ss = Ok (v, o) -> concat ss = s ->
  vparser u = vparser v /\ Rvis (vterm u) (vterm v).
Proof.
  intros v0 s ss u v o HT HP F E EC.
  assert (HV : Rvx false false (sb_limit (vterm v0)) (sb_limit (vterm v0)) [] [] v0 v0)
    by (split; [reflexivity|exact (Rx_refl false false _ HT HP)]).
  destruct (session_reference _ ss _ _ _ _ _ _ HV (fun _ => eq_refl) E)
    as (u' & Dp & Da & F' & [P X] & _).
  rewrite EC, F in F'. injection F' as <-.
  split; [exact P|eapply Rx_Rvis; exact X].
Qed.

(** * 6. executable forms *)

Lemma Rvis_obs a b : Rvis a b -> obs_eqb_term a b = true.
Proof.
  intros [Hs (Hv & Hbc & Hbr) Ho]. unfold scal in Hs.
  injection Hs as E1 E2 E3 E4 E5 E6 E7 E8 E9 E10 E11 E12 E13 E14 E15 E16 E17 E18 E19 E20 E21 E22 E23.
  unfold obs_eqb_term, obs_buffer_eqb, term_scalars_eqb. psimpl.
  rewrite <- Hbc, <- Hbr, <- Hv, <- E1, <- E2, <- E3, <- E5, <- E6, <- E7, <- E8, <- E9, <- E10,
    <- E11, <- E12, <- E13, <- E14, <- E15, <- E16, <- E17, <- E18, <- E19, <- E20, <- E21, <- E22, <- E23.
  rewrite !Nat.eqb_refl, !Bool.eqb_reflx, btype_eqb_refl, pen_eqb_refl, !charset_eqb_refl,
    !ctx_eqb_refl, (list_eqb_refl _ Nat.eqb_refl), lines_eqb_refl.
  cbn [opt_eqb andb].
  destruct (active a) eqn:EA; [reflexivity|].
  destruct (Ho eq_refl) as (G1 & G2 & G3). rewrite <- G1, <- G2, <- G3.
  rewrite lines_eqb_refl, !Nat.eqb_refl. reflexivity.
Qed.

(** the first two conjuncts of [holds_C12], for every limit *)
Theorem C12_sessions_obs : forall c r l ss1 ss2 v1 o1 v2 o2,
  concat ss1 = concat ss2 ->
  run_session (vt_new c r l) ss1 = Ok (v1, o1) -> run_session (vt_new c r l) ss2 = Ok (v2, o2) ->
  obs_eqb_term (vterm v1) (vterm v2) && parser_eqb (vparser v1) (vparser v2) = true.
Proof.
  intros c r l ss1 ss2 v1 o1 v2 o2 EC E1 E2.
  destruct (sessions_new _ _ _ _ _ _ E1) as (u1 & Dp1 & Da1 & F1 & [P1 X1] & _).
  destruct (sessions_new _ _ _ _ _ _ E2) as (u2 & Dp2 & Da2 & F2 & [P2 X2] & _).
  rewrite EC, F2 in F1. injection F1 as ->.
  rewrite (Rvis_obs _ _ (Rvis_common _ _ _ (Rx_Rvis _ _ _ _ _ X1) (Rx_Rvis _ _ _ _ _ X2))).
  replace (vparser v2) with (vparser v1) by congruence. rewrite parser_eqb_refl. reflexivity.
Qed.

Print Assumptions C12_sessions_obs.

(** with unlimited scrollback nothing is ever dropped from the primary buffer: two states
    related to a common reference with EMPTY primary prefixes satisfy [Robs] *)
Lemma Robs_common Da1 Da2 u a b :
  Rx false false None None [] Da1 u a -> Rx false false None None [] Da2 u b -> Robs a b.
Proof.
  intros Ha Hb.
  pose proof (Rvis_common _ _ _ (Rx_Rvis _ _ _ _ _ Ha) (Rx_Rvis _ _ _ _ _ Hb)) as [Hs (Hv & Hbc & Hbr) Ho].
  pose proof (x_active _ _ _ _ _ _ _ _ Ha) as Aa.
  constructor; try assumption.
  - intros EA. rewrite <- Aa in EA.
    pose proof (x_other _ _ _ _ _ _ _ _ Ha) as Oa. pose proof (x_other _ _ _ _ _ _ _ _ Hb) as Ob.
    rewrite EA in Oa, Ob.
    destruct Oa as [A1 A2 A3 A4 A5 A6 A7 A8 A9]. destruct Ob as [B1 B2 B3 B4 B5 B6 B7 B8 B9].
    cbn [app] in A1, B1. constructor; try congruence. intros _.
    rewrite A8, B8, (x_sl2 _ _ _ _ _ _ _ _ Ha), (x_sl2 _ _ _ _ _ _ _ _ Hb). reflexivity.
  - intros EA. rewrite <- Aa in EA.
    pose proof (g_lines _ _ _ _ _ _ _ _ (x_buf _ _ _ _ _ _ _ _ Ha)) as La.
    pose proof (g_lines _ _ _ _ _ _ _ _ (x_buf _ _ _ _ _ _ _ _ Hb)) as Lb.
    rewrite EA in La, Lb. cbn [Dsel app] in La, Lb. congruence.
Qed.

(** [holds_C12] for unlimited scrollback: additionally the [lines] agree *)
Theorem C12_sessions_unlimited : forall c r ss1 ss2 v1 o1 v2 o2,
  concat ss1 = concat ss2 ->
  run_session (vt_new c r None) ss1 = Ok (v1, o1) -> run_session (vt_new c r None) ss2 = Ok (v2, o2) ->
  holds_C12 v1 v2 = true.
Proof.
  intros c r ss1 ss2 v1 o1 v2 o2 EC E1 E2.
  destruct (sessions_new _ _ _ _ _ _ E1) as (u1 & Dp1 & Da1 & F1 & [P1 X1] & D1).
  destruct (sessions_new _ _ _ _ _ _ E2) as (u2 & Dp2 & Da2 & F2 & [P2 X2] & D2).
  rewrite EC, F2 in F1. injection F1 as ->.
  rewrite (D1 eq_refl) in X1. rewrite (D2 eq_refl) in X2.
  apply Robs_holds_C12.
  - congruence.
  - eapply Robs_common; eassumption.
  - exact (x_sl2 _ _ _ _ _ _ _ _ X1).
Qed.

Print Assumptions C12_sessions_unlimited.

(** the same against per-character feeding, unlimited: everything of [holds_C12] except that
    the per-character run may keep rows above the ALTERNATE view (KF-C12-1) - so only the
    first two conjuncts are claimed *)
Theorem C12_perchar_obs : forall c r l s ss u v o,
  feed_chars (vt_new c r l) s = Ok u -> run_session (vt_new c r l) ss = Ok (v, o) ->
  concat ss = s ->
  obs_eqb_term (vterm u) (vterm v) && parser_eqb (vparser u) (vparser v) = true.
Proof.
  intros c r l s ss u v o F E EC.
  destruct (C12_perchar _ _ _ _ _ _ _ _ F E EC) as [P HV].
  rewrite (Rvis_obs _ _ HV), <- P, parser_eqb_refl. reflexivity.
Qed.

Theorem C12_sessions_obs_from : forall v ss1 ss2 v1 o1 v2 o2,
  TInv (vterm v) -> parked_ok (vterm v) -> concat ss1 = concat ss2 ->
  run_session v ss1 = Ok (v1, o1) -> run_session v ss2 = Ok (v2, o2) ->
  obs_eqb_term (vterm v1) (vterm v2) && parser_eqb (vparser v1) (vparser v2) = true.
Proof.
  intros v ss1 ss2 v1 o1 v2 o2 HT HP EC E1 E2.
  destruct (C12_sessions_from _ _ _ _ _ _ _ HT HP EC E1 E2) as [P HV].
  rewrite (Rvis_obs _ _ HV), <- P, parser_eqb_refl. reflexivity.
Qed.

Print Assumptions C12_sessions_obs_from.
