(** Frame lemmas: which parts of the state a control function can change.

    Everything here is stated for SUCCESSFUL runs ([... = Ok _]); no invariant is needed
    because the guards of the model already imply the index conditions.

    - [bfr b b']   : a row-level buffer frame (geometry, limit, lazy-trim flag, number of
                     lines and the scrollback prefix are unchanged);
    - [keep]/[tfr] : the tuple of term fields that the cursor / buffer commands never touch;
    - per-field theorems [other_frame], [saved_frame], [tabs_frame], [pen_frame],
      [margins_frame], [scrollback_frame];
    - inversion lemmas for [reflow], the buffer switches, [term_resize]. *)

From Coq Require Import Lia ZArith ZifyBool ZifyNat ZifyN.
From Avt Require Import Oracles.Step Proofs.Inv Proofs.ListLemmas Proofs.TermEasy Proofs.Tabs.
Ltac Zify.zify_post_hook ::= Z.div_mod_to_equations.

(** * the panic monad *)

Lemma bind_ok {A B} (m : res A) (k : A -> res B) (b : B) :
  bind m k = Ok b -> exists a, m = Ok a /\ k a = Ok b.
Proof. destruct m as [a|s]; cbn; [eauto|discriminate]. Qed.

Lemma guard_ok c s u : guard c s = Ok u -> c = true.
Proof. destruct c; cbn; [reflexivity|discriminate]. Qed.

(** * buffers: the row-level frame *)

Definition bfr (b b' : buffer) : Prop :=
  bcols b' = bcols b /\ brows b' = brows b /\ blimit b' = blimit b
  /\ trim_needed b' = trim_needed b
  /\ length (lines b') = length (lines b)
  /\ firstn (sb_len b) (lines b') = firstn (sb_len b) (lines b).

Lemma bfr_refl b : bfr b b.
Proof. repeat split. Qed.

Lemma bfr_sb_len b b' : bfr b b' -> sb_len b' = sb_len b.
Proof. intros (_ & Hr & _ & _ & Hl & _). unfold sb_len. rewrite Hr, Hl. reflexivity. Qed.

Lemma bfr_trans b1 b2 b3 : bfr b1 b2 -> bfr b2 b3 -> bfr b1 b3.
Proof.
  intros H12 H23. pose proof (bfr_sb_len _ _ H12) as Hs.
  destruct H12 as (A1 & A2 & A3 & A4 & A5 & A6), H23 as (B1 & B2 & B3 & B4 & B5 & B6).
  rewrite Hs in B6.
  repeat split; congruence.
Qed.

Lemma bfr_sb b b' :
  bfr b b' -> firstn (sb_len b') (lines b') = firstn (sb_len b) (lines b).
Proof. intros H. rewrite (bfr_sb_len _ _ H). apply H. Qed.

Lemma bfr_set_lines b ls :
  length ls = length (lines b) -> firstn (sb_len b) ls = firstn (sb_len b) (lines b) ->
  bfr b (b <| lines := ls |>).
Proof. intros H1 H2. destruct b; cbn in *. repeat split; assumption. Qed.

Lemma view_ok_length b : view_ok b = true -> length (view b) = brows b.
Proof.
  unfold view_ok, view, sb_len. intros H. apply Nat.leb_le in H. rewrite skipn_length. lia.
Qed.

Lemma with_row_bfr b r f b' : with_row b r f = Ok b' -> bfr b b'.
Proof.
  unfold with_row. destruct (view_ok b && (r <? brows b)); [|discriminate].
  destruct (nth_error (lines b) (sb_len b + r)); [|discriminate].
  intros H. apply bind_ok in H as (l' & _ & H). injection H as <-.
  apply bfr_set_lines; [apply upd_length|apply firstn_upd_le; lia].
Qed.

Lemma with_view_bfr b ok f b' :
  with_view b ok f = Ok b' ->
  (ok = true -> length (view b) = brows b -> length (f (view b)) = length (view b)) ->
  bfr b b'.
Proof.
  unfold with_view. destruct (view_ok b) eqn:Ev; [|discriminate]. destruct ok; [|discriminate].
  cbn [andb]. intros H Hf. injection H as <-.
  pose proof (view_ok_length b Ev) as Hv. specialize (Hf eq_refl Hv).
  assert (Hs : length (firstn (sb_len b) (lines b)) = sb_len b).
  { rewrite firstn_length. unfold sb_len. lia. }
  apply bfr_set_lines.
  - rewrite app_length, Hf. unfold view. rewrite <- app_length, firstn_skipn. reflexivity.
  - apply firstn_app_exact. exact Hs.
Qed.

Lemma buf_clear_bfr b a z p b' : buf_clear b a z p = Ok b' -> bfr b b'.
Proof.
  unfold buf_clear. intros H. apply (with_view_bfr _ _ _ _ H).
  intros Hok Hv. apply andb_prop in Hok as [H1 H2]. apply fill_range_length; lia.
Qed.

Lemma buf_print_bfr b col row c b' : buf_print b col row c = Ok b' -> bfr b b'.
Proof. apply with_row_bfr. Qed.

Lemma buf_wrap_bfr b row b' : buf_wrap b row = Ok b' -> bfr b b'.
Proof. apply with_row_bfr. Qed.

Lemma buf_insert_bfr b col row n c b' : buf_insert b col row n c = Ok b' -> bfr b b'.
Proof. unfold buf_insert. intros H. apply bind_ok in H as (u & _ & H). exact (with_row_bfr _ _ _ _ H). Qed.

Lemma buf_delete_bfr b col row n p b' : buf_delete b col row n p = Ok b' -> bfr b b'.
Proof. unfold buf_delete. intros H. apply bind_ok in H as (u & _ & H). exact (with_row_bfr _ _ _ _ H). Qed.

Lemma buf_erase_bfr b col row m p b' : buf_erase b col row m p = Ok b' -> bfr b b'.
Proof.
  destruct m; cbn [buf_erase]; intros H.
  - apply bind_ok in H as (u & _ & H). exact (with_row_bfr _ _ _ _ H).
  - apply bind_ok in H as (b1 & H1 & H).
    exact (bfr_trans _ _ _ (with_row_bfr _ _ _ _ H1) (buf_clear_bfr _ _ _ _ _ H)).
  - apply bind_ok in H as (b1 & H1 & H).
    exact (bfr_trans _ _ _ (with_row_bfr _ _ _ _ H1) (buf_clear_bfr _ _ _ _ _ H)).
  - exact (buf_clear_bfr _ _ _ _ _ H).
  - exact (with_row_bfr _ _ _ _ H).
  - exact (with_row_bfr _ _ _ _ H).
  - exact (with_row_bfr _ _ _ _ H).
Qed.

Lemma buf_scroll_down_bfr b a z n p b' : buf_scroll_down b a z n p = Ok b' -> bfr b b'.
Proof.
  unfold buf_scroll_down. intros H.
  apply bind_ok in H as (u & Hg & H). apply guard_ok in Hg. apply Nat.leb_le in Hg.
  apply bind_ok in H as (b1 & H1 & H).
  apply bind_ok in H as (b2 & H2 & H).
  apply bind_ok in H as (b3 & H3 & H).
  apply bind_ok in H as (u' & _ & H).
  assert (F1 : bfr b b1).
  { apply (with_view_bfr _ _ _ _ H1). intros Hz Hv. apply Nat.leb_le in Hz.
    apply on_range_length; [apply rotr_length|lia|lia]. }
  assert (F2 : bfr b1 b2) by exact (buf_clear_bfr _ _ _ _ _ H2).
  assert (F3 : bfr b2 b3).
  { destruct (0 <? a); [exact (with_row_bfr _ _ _ _ H3)|]. injection H3 as <-. apply bfr_refl. }
  exact (bfr_trans _ _ _ F1 (bfr_trans _ _ _ F2 (bfr_trans _ _ _ F3 (with_row_bfr _ _ _ _ H)))).
Qed.

Lemma decaln_cols_bfr n : forall b row col b', decaln_cols b row n col = Ok b' -> bfr b b'.
Proof.
  induction n as [|n IH]; intros b row col b' H; cbn [decaln_cols] in H.
  - injection H as <-. apply bfr_refl.
  - apply bind_ok in H as (b1 & H1 & H).
    exact (bfr_trans _ _ _ (buf_print_bfr _ _ _ _ _ H1) (IH _ _ _ _ H)).
Qed.

(** * terms: the fields that cursor and buffer commands never touch *)

Definition keep (t : term) :=
  (cols t, rows t, other t, active t, sb_limit t, cur_vis t, tpen t, cs0 t, cs1 t, acs t,
   tabs t, ins t, org t, awm t, nlm t, ckm t, top t, bot t, sctx t, asctx t, xtw t).

(** [tfr t t']: only [buf], [dirty], [cur_col], [cur_row], [pend] may differ *)
Definition tfr (t t' : term) : Prop := keep t' = keep t.

Lemma tfr_refl t : tfr t t.
Proof. reflexivity. Qed.

Lemma tfr_trans t1 t2 t3 : tfr t1 t2 -> tfr t2 t3 -> tfr t1 t3.
Proof. unfold tfr. congruence. Qed.

Ltac tfr_proj H := unfold tfr, keep in H; injection H; intros; assumption.

Lemma tfr_cols t t' : tfr t t' -> cols t' = cols t. Proof. intros H; tfr_proj H. Qed.
Lemma tfr_rows t t' : tfr t t' -> rows t' = rows t. Proof. intros H; tfr_proj H. Qed.
Lemma tfr_other t t' : tfr t t' -> other t' = other t. Proof. intros H; tfr_proj H. Qed.
Lemma tfr_active t t' : tfr t t' -> active t' = active t. Proof. intros H; tfr_proj H. Qed.
Lemma tfr_tpen t t' : tfr t t' -> tpen t' = tpen t. Proof. intros H; tfr_proj H. Qed.
Lemma tfr_tabs t t' : tfr t t' -> tabs t' = tabs t. Proof. intros H; tfr_proj H. Qed.
Lemma tfr_top t t' : tfr t t' -> top t' = top t. Proof. intros H; tfr_proj H. Qed.
Lemma tfr_bot t t' : tfr t t' -> bot t' = bot t. Proof. intros H; tfr_proj H. Qed.
Lemma tfr_sctx t t' : tfr t t' -> sctx t' = sctx t. Proof. intros H; tfr_proj H. Qed.
Lemma tfr_asctx t t' : tfr t t' -> asctx t' = asctx t. Proof. intros H; tfr_proj H. Qed.
Lemma tfr_org t t' : tfr t t' -> org t' = org t. Proof. intros H; tfr_proj H. Qed.
Lemma tfr_awm t t' : tfr t t' -> awm t' = awm t. Proof. intros H; tfr_proj H. Qed.
Lemma tfr_xtw t t' : tfr t t' -> xtw t' = xtw t. Proof. intros H; tfr_proj H. Qed.

(** [cfr t t']: additionally the buffer and the dirty flags are unchanged (cursor commands) *)
Definition cfr (t t' : term) : Prop := tfr t t' /\ buf t' = buf t /\ dirty t' = dirty t.

Lemma cfr_refl t : cfr t t.
Proof. repeat split. Qed.

Lemma cfr_trans t1 t2 t3 : cfr t1 t2 -> cfr t2 t3 -> cfr t1 t3.
Proof. intros (A & B & C) (A' & B' & C'). repeat split; [exact (tfr_trans _ _ _ A A')|congruence|congruence]. Qed.

Lemma cfr_col t c : cfr t (do_move_cursor_to_col t c).
Proof. destruct t; repeat split. Qed.

Lemma cfr_row t r : cfr t (do_move_cursor_to_row t r).
Proof. destruct t; repeat split. Qed.

Lemma cfr_to_col t c : cfr t (move_cursor_to_col t c).
Proof. unfold move_cursor_to_col. destruct (cols t <=? c); apply cfr_col. Qed.

Lemma cfr_to_row t r : cfr t (move_cursor_to_row t r).
Proof. apply cfr_row. Qed.

Lemma cfr_rel_col t z : cfr t (move_cursor_to_rel_col t z).
Proof. unfold move_cursor_to_rel_col. break_ifs; apply cfr_col. Qed.

Lemma cfr_home t : cfr t (move_cursor_home t).
Proof. unfold move_cursor_home. exact (cfr_trans _ _ _ (cfr_col t 0) (cfr_row _ _)). Qed.

Lemma cfr_down t n : cfr t (cursor_down t n).
Proof. apply cfr_row. Qed.

Lemma cfr_up t n : cfr t (cursor_up t n).
Proof. apply cfr_row. Qed.

Lemma cfr_next_tab t n t' : move_cursor_to_next_tab t n = Ok t' -> cfr t t'.
Proof. unfold move_cursor_to_next_tab. intros H. apply bind_ok in H as (o & _ & H). injection H as <-. apply cfr_to_col. Qed.

Lemma cfr_prev_tab t n t' : move_cursor_to_prev_tab t n = Ok t' -> cfr t t'.
Proof. unfold move_cursor_to_prev_tab. intros H. apply bind_ok in H as (o & _ & H). injection H as <-. apply cfr_to_col. Qed.

Definition is_cursor_fn (f : func) : bool :=
  match f with
  | Bs | Cbt _ | Cha _ | Cht _ | Cnl _ | Cpl _ | Cr | Cub _ | Cud _ | Cuf _ | Cup _ _ | Cuu _
  | Ht | Vpa _ | Vpr _ => true
  | _ => false
  end.

Theorem exec_cursor_cfr t f t' : is_cursor_fn f = true -> execute t f = Ok t' -> cfr t t'.
Proof.
  destruct f; try discriminate; intros _ H; cbn [execute] in H;
    try (apply cfr_next_tab in H; exact H); try (apply cfr_prev_tab in H; exact H);
    injection H as <-.
  - unfold bs. destruct (pend t); apply cfr_rel_col.
  - apply cfr_to_col.
  - exact (cfr_trans _ _ _ (cfr_down t _) (cfr_col _ _)).
  - exact (cfr_trans _ _ _ (cfr_up t _) (cfr_col _ _)).
  - apply cfr_col.
  - apply cfr_rel_col.
  - apply cfr_down.
  - apply cfr_rel_col.
  - unfold cup. exact (cfr_trans _ _ _ (cfr_to_col t _) (cfr_to_row _ _)).
  - apply cfr_up.
  - apply cfr_to_row.
  - apply cfr_down.
Qed.

(** ** the monadic helpers *)

Lemma on_buf_inv t f t' : on_buf t f = Ok t' -> exists b, f (buf t) = Ok b /\ t' = t <| buf := b |>.
Proof. unfold on_buf. intros H. apply bind_ok in H as (b & Hb & H). injection H as <-. eauto. Qed.

Lemma mark_inv t n t' : mark t n = Ok t' -> exists d, t' = t <| dirty := d |>.
Proof. unfold mark. intros H. apply bind_ok in H as (d & _ & H). injection H as <-. eauto. Qed.

Lemma mark_range_inv t a z t' : mark_range t a z = Ok t' -> exists d, t' = t <| dirty := d |>.
Proof. unfold mark_range. intros H. apply bind_ok in H as (d & _ & H). injection H as <-. eauto. Qed.

Lemma tfr_set_buf t b : tfr t (t <| buf := b |>).
Proof. destruct t; reflexivity. Qed.

Lemma tfr_set_dirty t d : tfr t (t <| dirty := d |>).
Proof. destruct t; reflexivity. Qed.

Lemma tfr_on_buf t f t' : on_buf t f = Ok t' -> tfr t t'.
Proof. intros H. apply on_buf_inv in H as (b & _ & ->). apply tfr_set_buf. Qed.

Lemma tfr_mark t n t' : mark t n = Ok t' -> tfr t t'.
Proof. intros H. apply mark_inv in H as (d & ->). apply tfr_set_dirty. Qed.

Lemma tfr_mark_range t a z t' : mark_range t a z = Ok t' -> tfr t t'.
Proof. intros H. apply mark_range_inv in H as (d & ->). apply tfr_set_dirty. Qed.

Lemma buf_mark t n t' : mark t n = Ok t' -> buf t' = buf t.
Proof. intros H. apply mark_inv in H as (d & ->). destruct t; reflexivity. Qed.

Lemma buf_mark_range t a z t' : mark_range t a z = Ok t' -> buf t' = buf t.
Proof. intros H. apply mark_range_inv in H as (d & ->). destruct t; reflexivity. Qed.

(** term-level scrollback frame: [sfr t t'] *)
Definition sfr (t t' : term) : Prop := bfr (buf t) (buf t').

Lemma sfr_refl t : sfr t t.
Proof. apply bfr_refl. Qed.

Lemma sfr_trans t1 t2 t3 : sfr t1 t2 -> sfr t2 t3 -> sfr t1 t3.
Proof. apply bfr_trans. Qed.

Lemma sfr_eq t t' : buf t' = buf t -> sfr t t'.
Proof. unfold sfr. intros ->. apply bfr_refl. Qed.

Lemma sfr_on_buf t f t' :
  on_buf t f = Ok t' -> (forall b', f (buf t) = Ok b' -> bfr (buf t) b') -> sfr t t'.
Proof.
  intros H Hf. apply on_buf_inv in H as (b & Hb & ->). unfold sfr.
  replace (buf (t <| buf := b |>)) with b by (destruct t; reflexivity). exact (Hf _ Hb).
Qed.

(** [xfr t t' := tfr /\ sfr] for the editing commands *)
Definition xfr (t t' : term) : Prop := tfr t t' /\ sfr t t'.

Lemma xfr_trans t1 t2 t3 : xfr t1 t2 -> xfr t2 t3 -> xfr t1 t3.
Proof. intros [A B] [A' B']. split; [exact (tfr_trans _ _ _ A A')|exact (sfr_trans _ _ _ B B')]. Qed.

Lemma xfr_refl t : xfr t t.
Proof. split; [apply tfr_refl|apply sfr_refl]. Qed.

Lemma xfr_cfr t t' : cfr t t' -> xfr t t'.
Proof. intros (A & B & _). split; [exact A|exact (sfr_eq _ _ B)]. Qed.

Lemma xfr_on_buf t f t' :
  on_buf t f = Ok t' -> (forall b', f (buf t) = Ok b' -> bfr (buf t) b') -> xfr t t'.
Proof. intros H Hf. split; [exact (tfr_on_buf _ _ _ H)|exact (sfr_on_buf _ _ _ H Hf)]. Qed.

Lemma xfr_mark t n t' : mark t n = Ok t' -> xfr t t'.
Proof. intros H. split; [exact (tfr_mark _ _ _ H)|exact (sfr_eq _ _ (buf_mark _ _ _ H))]. Qed.

Lemma xfr_mark_range t a z t' : mark_range t a z = Ok t' -> xfr t t'.
Proof. intros H. split; [exact (tfr_mark_range _ _ _ _ H)|exact (sfr_eq _ _ (buf_mark_range _ _ _ _ H))]. Qed.

(** on_buf followed by a mark: the shape of almost every editing command *)
Lemma xfr_on_buf_mark t f n t' :
  (t1 <- on_buf t f ;; mark t1 (n t1)) = Ok t' ->
  (forall b', f (buf t) = Ok b' -> bfr (buf t) b') -> xfr t t'.
Proof.
  intros H Hf. apply bind_ok in H as (t1 & H1 & H).
  exact (xfr_trans _ _ _ (xfr_on_buf _ _ _ H1 Hf) (xfr_mark _ _ _ H)).
Qed.

Lemma xfr_on_buf_mark_range t f a z t' :
  (t1 <- on_buf t f ;; mark_range t1 (a t1) (z t1)) = Ok t' ->
  (forall b', f (buf t) = Ok b' -> bfr (buf t) b') -> xfr t t'.
Proof.
  intros H Hf. apply bind_ok in H as (t1 & H1 & H).
  exact (xfr_trans _ _ _ (xfr_on_buf _ _ _ H1 Hf) (xfr_mark_range _ _ _ _ H)).
Qed.

Lemma xfr_scroll_down t n t' : scroll_down_in_region t n = Ok t' -> xfr t t'.
Proof.
  unfold scroll_down_in_region. intros H.
  apply (xfr_on_buf_mark_range t _ (fun _ => top t) (fun _ => bot t + 1) _ H).
  intros b'. apply buf_scroll_down_bfr.
Qed.

Lemma tfr_scroll_up t n t' : scroll_up_in_region t n = Ok t' -> tfr t t'.
Proof.
  unfold scroll_up_in_region. intros H. apply bind_ok in H as (t1 & H1 & H).
  exact (tfr_trans _ _ _ (tfr_on_buf _ _ _ H1) (tfr_mark_range _ _ _ _ H)).
Qed.

Lemma decaln_rows_xfr n : forall t row t', decaln_rows t n row = Ok t' -> xfr t t'.
Proof.
  induction n as [|n IH]; intros t row t' H; cbn [decaln_rows] in H.
  - injection H as <-. apply xfr_refl.
  - apply bind_ok in H as (t1 & H1 & H). apply bind_ok in H as (t2 & H2 & H).
    refine (xfr_trans _ _ _ (xfr_on_buf _ _ _ H1 _) (xfr_trans _ _ _ (xfr_mark _ _ _ H2) (IH _ _ _ H))).
    intros b'. apply decaln_cols_bfr.
Qed.

Definition is_edit_fn (f : func) : bool :=
  match f with
  | Dch _ | Decaln | Ech _ | Ed _ | El _ | Ich _ | Il _ | Ri | Sd _ => true
  | _ => false
  end.

Theorem exec_edit_xfr t f t' : is_edit_fn f = true -> execute t f = Ok t' -> xfr t t'.
Proof.
  destruct f; try discriminate; intros _ H; cbn [execute] in H.
  - (* Dch *) unfold dch in H.
    set (t0 := if cols t <=? cur_col t then move_cursor_to_col t (cols t - 1) else t) in *.
    assert (H0 : xfr t t0).
    { subst t0. destruct (cols t <=? cur_col t); [apply xfr_cfr, cfr_to_col|apply xfr_refl]. }
    refine (xfr_trans _ _ _ H0 (xfr_on_buf_mark t0 _ (fun t1 => cur_row t1) _ H _)).
    intros b'. apply buf_delete_bfr.
  - (* Decaln *) exact (decaln_rows_xfr _ _ _ _ H).
  - (* Ech *) unfold ech in H. apply (xfr_on_buf_mark t _ (fun t1 => cur_row t1) _ H).
    intros b'. apply buf_erase_bfr.
  - (* Ed *) unfold ed in H. destruct s.
    + apply (xfr_on_buf_mark_range t _ (fun t1 => cur_row t1) (fun t1 => rows t1) _ H).
      intros b'. apply buf_erase_bfr.
    + apply (xfr_on_buf_mark_range t _ (fun t1 => 0) (fun t1 => cur_row t1 + 1) _ H).
      intros b'. apply buf_erase_bfr.
    + apply (xfr_on_buf_mark_range t _ (fun t1 => 0) (fun t1 => rows t1) _ H).
      intros b'. apply buf_erase_bfr.
    + injection H as <-. apply xfr_refl.
  - (* El *) unfold el in H. apply (xfr_on_buf_mark t _ (fun t1 => cur_row t1) _ H).
    intros b'. apply buf_erase_bfr.
  - (* Ich *) unfold ich in H. apply (xfr_on_buf_mark t _ (fun t1 => cur_row t1) _ H).
    intros b'. apply buf_insert_bfr.
  - (* Il *) unfold il in H. destruct (il_dl_range t) as [a z].
    apply (xfr_on_buf_mark_range t _ (fun _ => a) (fun _ => z) _ H).
    intros b'. apply buf_scroll_down_bfr.
  - (* Ri *) unfold ri in H. destruct (cur_row t =? top t); [exact (xfr_scroll_down _ _ _ H)|].
    destruct (0 <? cur_row t); injection H as <-; [apply xfr_cfr, cfr_row|apply xfr_refl].
  - (* Sd *) exact (xfr_scroll_down _ _ _ H).
Qed.

(** ** the commands that may push lines into the scrollback: [tfr] only *)

Lemma tfr_cfr t t' : cfr t t' -> tfr t t'.
Proof. intros H; apply H. Qed.

Lemma tfr_down_with_scroll t t' : move_cursor_down_with_scroll t = Ok t' -> tfr t t'.
Proof.
  unfold move_cursor_down_with_scroll. destruct (cur_row t =? bot t); [apply tfr_scroll_up|].
  destruct (cur_row t <? rows t - 1); intros H; injection H as <-; [apply tfr_cfr, cfr_row|apply tfr_refl].
Qed.

Lemma tfr_set_pend t b : tfr t (t <| pend := b |>).
Proof. destruct t; reflexivity. Qed.

Lemma tfr_print t c t' : print t c = Ok t' -> tfr t t'.
Proof.
  unfold print. intros H.
  apply bind_ok in H as (cs & _ & H). apply bind_ok in H as (c' & _ & H).
  apply bind_ok in H as (t1 & H1 & H). apply bind_ok in H as (t2 & H2 & H).
  assert (F1 : tfr t t1).
  { destruct (awm t && pend t); [|injection H1 as <-; apply tfr_refl].
    pose proof (tfr_cfr _ _ (cfr_col t 0)) as F0.
    set (t0 := do_move_cursor_to_col t 0) in *.
    destruct (cur_row t0 =? bot t0).
    - apply bind_ok in H1 as (ta & Ha & H1).
      exact (tfr_trans _ _ _ F0 (tfr_trans _ _ _ (tfr_on_buf _ _ _ Ha) (tfr_scroll_up _ _ _ H1))).
    - destruct (cur_row t0 <? rows t0 - 1).
      + apply bind_ok in H1 as (ta & Ha & H1). injection H1 as <-.
        exact (tfr_trans _ _ _ F0 (tfr_trans _ _ _ (tfr_on_buf _ _ _ Ha) (tfr_cfr _ _ (cfr_row _ _)))).
      + injection H1 as <-. exact F0. }
  assert (F2 : tfr t1 t2).
  { destruct (cols t1 <=? cur_col t1 + 1).
    - apply bind_ok in H2 as (ta & Ha & H2). pose proof (tfr_on_buf _ _ _ Ha) as Fa.
      destruct (awm ta); injection H2 as <-; [|exact Fa].
      exact (tfr_trans _ _ _ Fa (tfr_trans _ _ _ (tfr_cfr _ _ (cfr_col _ _)) (tfr_set_pend _ _))).
    - apply bind_ok in H2 as (ta & Ha & H2). injection H2 as <-.
      assert (Fa : tfr t1 ta) by (destruct (ins t1); exact (tfr_on_buf _ _ _ Ha)).
      exact (tfr_trans _ _ _ Fa (tfr_cfr _ _ (cfr_col _ _))). }
  exact (tfr_trans _ _ _ F1 (tfr_trans _ _ _ F2 (tfr_mark _ _ _ H))).
Qed.

Lemma tfr_print_n n : forall t c t', print_n n t c = Ok t' -> tfr t t'.
Proof.
  induction n as [|n IH]; intros t c t' H; cbn [print_n] in H.
  - injection H as <-. apply tfr_refl.
  - apply bind_ok in H as (t1 & H1 & H). exact (tfr_trans _ _ _ (tfr_print _ _ _ H1) (IH _ _ _ H)).
Qed.

Definition is_scroll_fn (f : func) : bool :=
  match f with Dl _ | Lf | Nel | Print _ | Rep _ | Su _ => true | _ => false end.

Theorem exec_scroll_tfr t f t' : is_scroll_fn f = true -> execute t f = Ok t' -> tfr t t'.
Proof.
  destruct f; try discriminate; intros _ H; cbn [execute] in H.
  - (* Dl *) unfold dl in H. destruct (il_dl_range t) as [a z].
    apply bind_ok in H as (t1 & H1 & H).
    exact (tfr_trans _ _ _ (tfr_on_buf _ _ _ H1) (tfr_mark_range _ _ _ _ H)).
  - (* Lf *) unfold lf in H. apply bind_ok in H as (t1 & H1 & H). injection H as <-.
    pose proof (tfr_down_with_scroll _ _ H1) as F. destruct (nlm t1); [|exact F].
    exact (tfr_trans _ _ _ F (tfr_cfr _ _ (cfr_col _ _))).
  - (* Nel *) unfold nel in H. apply bind_ok in H as (t1 & H1 & H). injection H as <-.
    exact (tfr_trans _ _ _ (tfr_down_with_scroll _ _ H1) (tfr_cfr _ _ (cfr_col _ _))).
  - (* Print *) exact (tfr_print _ _ _ H).
  - (* Rep *) unfold rep in H. destruct (0 <? cur_col t); [|injection H as <-; apply tfr_refl].
    apply bind_ok in H as (l & _ & H). destruct (nth_error (cells l) (cur_col t - 1)); [|discriminate].
    exact (tfr_print_n _ _ _ _ H).
  - (* Su *) exact (tfr_scroll_up _ _ _ H).
Qed.

(** the 30 cursor / editing / scrolling commands *)
Definition is_cb_fn (f : func) : bool := is_cursor_fn f || is_edit_fn f || is_scroll_fn f.

Theorem exec_cb_tfr t f t' : is_cb_fn f = true -> execute t f = Ok t' -> tfr t t'.
Proof.
  unfold is_cb_fn. intros Hc H.
  destruct (is_cursor_fn f) eqn:E1; [exact (tfr_cfr _ _ (exec_cursor_cfr _ _ _ E1 H))|].
  destruct (is_edit_fn f) eqn:E2; [exact (proj1 (exec_edit_xfr _ _ _ E2 H))|].
  cbn in Hc. exact (exec_scroll_tfr _ _ _ Hc H).
Qed.

(** * buffer switches, [reflow], [term_resize] *)

Lemma clamp_ctx_eq (s : saved_ctx) c r :
  (let s1 := if c <=? sc_col s then s <| sc_col := c - 1 |> else s in
   if r <=? sc_row s1 then s1 <| sc_row := r - 1 |> else s1) = clamp_ctx s c r.
Proof.
  destruct s as [sc sr sp so sa]. unfold clamp_ctx, set. cbn -[Nat.min Nat.sub Nat.leb].
  destruct (Nat.leb_spec c sc); cbn -[Nat.min Nat.sub Nat.leb];
    destruct (Nat.leb_spec r sr); cbn -[Nat.min Nat.sub Nat.leb]; f_equal; lia.
Qed.

(** the result of [reflow] as one record update *)
Definition reflowed (t : term) (b : buffer) (c r : nat) (d : list bool) : term :=
  t <| buf := b |> <| cur_col := c |> <| cur_row := r |> <| dirty := d |>
    <| pend := if negb (cols t =? bcols (buf t)) then false else pend t |>
    <| sctx := clamp_ctx (sctx t) (cols t) (rows t) |>.

Lemma reflow_inv t t' :
  reflow t = Ok t' ->
  exists b c r d,
    buf_resize (buf t) (cols t) (rows t) (cur_col t) (cur_row t) = Ok (b, (c, r))
    /\ t' = reflowed t b c r d.
Proof.
  unfold reflow. intros H.
  set (t0 := if negb (cols t =? bcols (buf t)) then t <| pend := false |> else t) in *.
  assert (E0 : buf t0 = buf t /\ cols t0 = cols t /\ rows t0 = rows t /\ cur_col t0 = cur_col t
               /\ cur_row t0 = cur_row t).
  { subst t0. destruct (negb (cols t =? bcols (buf t))); destruct t; repeat split. }
  destruct E0 as (E1 & E2 & E3 & E4 & E5). rewrite E1, E2, E3, E4, E5 in H.
  apply bind_ok in H as ([b [c r]] & Hb & H).
  apply bind_ok in H as (t1 & H1 & H). apply mark_range_inv in H1 as (d & ->).
  exists b, c, r, d. split; [exact Hb|]. injection H as <-.
  pose proof (clamp_ctx_eq (sctx t) (cols t) (rows t)) as Hc. cbv zeta in Hc.
  unfold reflowed. rewrite <- Hc. subst t0. clear.
  destruct t as [? ? ? ? ? ? ? ? ? ? ? ? ? ? ? ? ? ? ? ? ? ? sc ? ? ?]; destruct sc as [scc scr ? ? ?]; cbn.
  destruct (negb (cols =? bcols buf)); cbn; destruct (cols <=? scc); cbn; destruct (rows <=? scr); reflexivity.
Qed.

(** fields untouched by [reflow]: everything but [buf], [dirty], the cursor, [pend], [sctx] *)
Definition keepR (t : term) :=
  (cols t, rows t, other t, active t, sb_limit t, cur_vis t, tpen t, cs0 t, cs1 t, acs t,
   tabs t, ins t, org t, awm t, nlm t, ckm t, top t, bot t, asctx t, xtw t).

Lemma reflowed_keepR t b c r d : keepR (reflowed t b c r d) = keepR t.
Proof. destruct t; reflexivity. Qed.

Lemma reflowed_sctx t b c r d : sctx (reflowed t b c r d) = clamp_ctx (sctx t) (cols t) (rows t).
Proof. destruct t; reflexivity. Qed.

Lemma reflowed_buf t b c r d : buf (reflowed t b c r d) = b.
Proof. destruct t; reflexivity. Qed.

Lemma reflowed_cur t b c r d : cur_col (reflowed t b c r d) = c /\ cur_row (reflowed t b c r d) = r.
Proof. destruct t; split; reflexivity. Qed.

Lemma reflowed_pend t b c r d :
  pend (reflowed t b c r d) = if negb (cols t =? bcols (buf t)) then false else pend t.
Proof. destruct t; reflexivity. Qed.

Lemma reflow_keepR t t' : reflow t = Ok t' -> keepR t' = keepR t.
Proof. intros H. apply reflow_inv in H as (b & c & r & d & _ & ->). apply reflowed_keepR. Qed.

Definition to_alt (t : term) (d : list bool) : term :=
  t <| active := Alternate |> <| sctx := asctx t |> <| asctx := sctx t |>
    <| other := buf t |> <| buf := buffer_new (cols t) (rows t) (Some 0%N) (Some (tpen t)) |>
    <| dirty := d |>.

Definition to_prim (t : term) (d : list bool) : term :=
  t <| active := Primary |> <| sctx := asctx t |> <| asctx := sctx t |>
    <| buf := other t |> <| other := buf t |> <| dirty := d |>.

Lemma switch_alt_inv t t' :
  switch_to_alternate_buffer t = Ok t' ->
  (active t = Alternate /\ t' = t) \/ (active t = Primary /\ exists d, t' = to_alt t d).
Proof.
  unfold switch_to_alternate_buffer. destruct (active t) eqn:E; intros H.
  - right. split; [reflexivity|]. apply mark_range_inv in H as (d & ->). exists d.
    destruct t; reflexivity.
  - left. injection H as <-. split; reflexivity.
Qed.

Lemma switch_prim_inv t t' :
  switch_to_primary_buffer t = Ok t' ->
  (active t = Primary /\ t' = t) \/ (active t = Alternate /\ exists d, t' = to_prim t d).
Proof.
  unfold switch_to_primary_buffer. destruct (active t) eqn:E; intros H.
  - left. injection H as <-. split; reflexivity.
  - right. split; [reflexivity|]. apply mark_range_inv in H as (d & ->). exists d.
    destruct t; reflexivity.
Qed.

(** fields untouched by every DEC private mode (set or reset) *)
Definition keepD (t : term) :=
  (cols t, rows t, sb_limit t, cs0 t, cs1 t, acs t, tabs t, ins t, nlm t, top t, bot t, xtw t).

Lemma keepR_keepD t t' : keepR t' = keepR t -> keepD t' = keepD t.
Proof. unfold keepR, keepD. intros H. injection H; intros; congruence. Qed.

Lemma to_alt_keepD t d : keepD (to_alt t d) = keepD t.
Proof. destruct t; reflexivity. Qed.

Lemma to_prim_keepD t d : keepD (to_prim t d) = keepD t.
Proof. destruct t; reflexivity. Qed.

Lemma switch_alt_keepD t t' : switch_to_alternate_buffer t = Ok t' -> keepD t' = keepD t.
Proof. intros H. apply switch_alt_inv in H as [[_ ->]|[_ [d ->]]]; [reflexivity|apply to_alt_keepD]. Qed.

Lemma switch_prim_keepD t t' : switch_to_primary_buffer t = Ok t' -> keepD t' = keepD t.
Proof. intros H. apply switch_prim_inv in H as [[_ ->]|[_ [d ->]]]; [reflexivity|apply to_prim_keepD]. Qed.

Lemma save_cursor_keepD t : keepD (save_cursor t) = keepD t.
Proof. destruct t; reflexivity. Qed.

Lemma restore_cursor_keepD t : keepD (restore_cursor t) = keepD t.
Proof. destruct t; reflexivity. Qed.

Lemma home_keepD t : keepD (move_cursor_home t) = keepD t.
Proof. destruct t; reflexivity. Qed.

Lemma decset_one_keepD t m t' : decset_one t m = Ok t' -> keepD t' = keepD t.
Proof.
  destruct m; cbn [decset_one]; intros H;
    try (injection H as <-; first [apply save_cursor_keepD | rewrite home_keepD | idtac]; destruct t; reflexivity).
  - apply bind_ok in H as (t1 & H1 & H).
    rewrite (keepR_keepD _ _ (reflow_keepR _ _ H)). exact (switch_alt_keepD _ _ H1).
  - apply bind_ok in H as (t1 & H1 & H).
    rewrite (keepR_keepD _ _ (reflow_keepR _ _ H)), (switch_alt_keepD _ _ H1). apply save_cursor_keepD.
Qed.

Lemma decrst_one_keepD t m t' : decrst_one t m = Ok t' -> keepD t' = keepD t.
Proof.
  destruct m; cbn [decrst_one]; intros H;
    try (injection H as <-; first [apply restore_cursor_keepD | rewrite home_keepD | idtac]; destruct t; reflexivity).
  - apply bind_ok in H as (t1 & H1 & H).
    rewrite (keepR_keepD _ _ (reflow_keepR _ _ H)). exact (switch_prim_keepD _ _ H1).
  - apply bind_ok in H as (t1 & H1 & H).
    rewrite (keepR_keepD _ _ (reflow_keepR _ _ H)), restore_cursor_keepD. exact (switch_prim_keepD _ _ H1).
Qed.

Lemma foldM_inv {A B} (f : A -> B -> res A) (P : A -> Prop) :
  (forall a x a', f a x = Ok a' -> P a -> P a') ->
  forall l a a', foldM f l a = Ok a' -> P a -> P a'.
Proof.
  intros Hf l. induction l as [|x l IH]; intros a a' H Ha; cbn [foldM] in H.
  - injection H as <-. exact Ha.
  - apply bind_ok in H as (a1 & H1 & H). exact (IH _ _ H (Hf _ _ _ H1 Ha)).
Qed.

Lemma decset_keepD ms t t' : foldM decset_one ms t = Ok t' -> keepD t' = keepD t.
Proof.
  intros H. apply (foldM_inv decset_one (fun a => keepD a = keepD t)) with (l := ms) (a := t); auto.
  intros a x a' Hx Ha. rewrite (decset_one_keepD _ _ _ Hx). exact Ha.
Qed.

Lemma decrst_keepD ms t t' : foldM decrst_one ms t = Ok t' -> keepD t' = keepD t.
Proof.
  intros H. apply (foldM_inv decrst_one (fun a => keepD a = keepD t)) with (l := ms) (a := t); auto.
  intros a x a' Hx Ha. rewrite (decrst_one_keepD _ _ _ Hx). exact Ha.
Qed.

(** setting modes never touches the pen *)
Lemma decset_one_tpen t m t' : decset_one t m = Ok t' -> tpen t' = tpen t.
Proof.
  assert (HR : forall a a', reflow a = Ok a' -> tpen a' = tpen a).
  { intros a a' H. apply reflow_keepR in H. unfold keepR in H. injection H; intros; assumption. }
  assert (HS : forall a a', switch_to_alternate_buffer a = Ok a' -> tpen a' = tpen a).
  { intros a a' H. apply switch_alt_inv in H as [[_ ->]|[_ [d ->]]]; [reflexivity|destruct a; reflexivity]. }
  destruct m; cbn [decset_one]; intros H; try (injection H as <-; destruct t; reflexivity).
  - apply bind_ok in H as (t1 & H1 & H). rewrite (HR _ _ H). exact (HS _ _ H1).
  - apply bind_ok in H as (t1 & H1 & H). rewrite (HR _ _ H), (HS _ _ H1). destruct t; reflexivity.
Qed.

Lemma decset_tpen ms t t' : foldM decset_one ms t = Ok t' -> tpen t' = tpen t.
Proof.
  intros H. apply (foldM_inv decset_one (fun a => tpen a = tpen t)) with (l := ms) (a := t); auto.
  intros a x a' Hx Ha. rewrite (decset_one_tpen _ _ _ Hx). exact Ha.
Qed.

(** ANSI modes *)
Lemma sm_fold ms : forall t, exists a b, fold_left sm_one ms t = t <| ins := a |> <| nlm := b |>.
Proof.
  induction ms as [|m ms IH]; intros t; cbn [fold_left].
  - exists (ins t), (nlm t). destruct t; reflexivity.
  - destruct (IH (sm_one t m)) as (a & b & ->). exists a, b. destruct m; destruct t; reflexivity.
Qed.

Lemma rm_fold ms : forall t, exists a b, fold_left rm_one ms t = t <| ins := a |> <| nlm := b |>.
Proof.
  induction ms as [|m ms IH]; intros t; cbn [fold_left].
  - exists (ins t), (nlm t). destruct t; reflexivity.
  - destruct (IH (rm_one t m)) as (a & b & ->). exists a, b. destruct m; destruct t; reflexivity.
Qed.

Lemma term_resize_eq t c r :
  term_resize t c r =
  reflow (t <| tabs := tabs_resize (cols t) c (tabs t) |>
            <| top := match Nat.compare r (rows t) with Eq => top t | _ => 0 end |>
            <| bot := match Nat.compare r (rows t) with Eq => bot t | _ => r - 1 end |>
            <| cols := c |> <| rows := r |>).
Proof.
  unfold term_resize, tabs_resize. destruct t.
  cbn -[tabs_contract tabs_expand Nat.sub Nat.compare].
  destruct (Nat.compare c cols); cbn -[tabs_contract tabs_expand Nat.sub Nat.compare];
    destruct (Nat.compare r rows); reflexivity.
Qed.

(** * per-field frame theorems for [execute] *)

Ltac pure_fn H t :=
  cbn [execute] in H; injection H as <-;
  unfold ctc, tbc, set_tab, clear_tab, clear_all_tabs, restore_cursor, restore_cursor_gen,
    save_cursor, save_cursor_gen, soft_reset_gen, hard_reset_gen, sgr, decstbm, move_cursor_home,
    do_move_cursor_to_col, do_move_cursor_to_row; cbv zeta;
  repeat match goal with |- context [if ?c then _ else _] => destruct c end;
  destruct t; reflexivity.

Ltac pure_modes H t ms :=
  cbn [execute] in H; injection H as <-;
  first [ destruct (rm_fold ms t) as (?a & ?b & ->) | destruct (sm_fold ms t) as (?a & ?b & ->) ];
  destruct t; reflexivity.

Ltac non_cb H t :=
  match type of H with
  | execute _ (Ctc ?op) = _ => destruct op; pure_fn H t
  | execute _ (Tbc ?s) = _ => destruct s; pure_fn H t
  | execute _ (Rm ?ms) = _ => pure_modes H t ms
  | execute _ (Sm ?ms) = _ => pure_modes H t ms
  | _ => pure_fn H t
  end.

(** (a) the inactive buffer *)
Theorem other_frame t f t' :
  execute t f = Ok t' ->
  match f with Decset _ | Decrst _ | Ris | Xtwinops _ => True | _ => other t' = other t end.
Proof.
  intros H. destruct (is_cb_fn f) eqn:E.
  - pose proof (tfr_other _ _ (exec_cb_tfr _ _ _ E H)) as F. destruct f; try discriminate E; exact F.
  - destruct f; try discriminate E; try exact I; non_cb H t.
Qed.

(** (b) the saved contexts and the active screen *)
Theorem saved_frame t f t' :
  execute t f = Ok t' ->
  match f with
  | Decsc | Scosc | Decstr | Ris | Decset _ | Decrst _ | Xtwinops _ => True
  | _ => sctx t' = sctx t /\ asctx t' = asctx t /\ active t' = active t
  end.
Proof.
  intros H. destruct (is_cb_fn f) eqn:E.
  - pose proof (exec_cb_tfr _ _ _ E H) as F.
    pose proof (conj (tfr_sctx _ _ F) (conj (tfr_asctx _ _ F) (tfr_active _ _ F))) as F'.
    destruct f; try discriminate E; exact F'.
  - destruct f; try discriminate E; try exact I; (split; [|split]); non_cb H t.
Qed.

(** (c) the tab stops *)
Theorem tabs_frame t f t' :
  execute t f = Ok t' ->
  match f with Hts | Ctc _ | Tbc _ | Ris | Xtwinops _ => True | _ => tabs t' = tabs t end.
Proof.
  intros H. destruct (is_cb_fn f) eqn:E.
  - pose proof (tfr_tabs _ _ (exec_cb_tfr _ _ _ E H)) as F. destruct f; try discriminate E; exact F.
  - destruct f; try discriminate E; try exact I;
      try (cbn [execute] in H;
           first [ apply decset_keepD in H | apply decrst_keepD in H ];
           unfold keepD in H; injection H; intros; assumption);
      non_cb H t.
Qed.

(** (d) the pen *)
Theorem pen_frame t f t' :
  xtw t = false ->
  execute t f = Ok t' ->
  match f with Sgr _ | Decrc | Scorc | Decrst _ | Decstr | Ris => True | _ => tpen t' = tpen t end.
Proof.
  intros Hx H. destruct (is_cb_fn f) eqn:E.
  - pose proof (tfr_tpen _ _ (exec_cb_tfr _ _ _ E H)) as F. destruct f; try discriminate E; exact F.
  - destruct f; try discriminate E; try exact I.
    all: try (cbn [execute] in H; apply decset_tpen in H; exact H).
    all: try (cbn [execute] in H; unfold xtwinops in H; rewrite Hx in H; injection H as <-; reflexivity).
    all: non_cb H t.
Qed.

(** (e) the margins *)
Theorem margins_frame t f t' :
  execute t f = Ok t' ->
  match f with
  | Decstbm _ _ | Decstr | Ris | Decset _ | Decrst _ | Xtwinops _ => True
  | _ => top t' = top t /\ bot t' = bot t
  end.
Proof.
  intros H. destruct (is_cb_fn f) eqn:E.
  - pose proof (exec_cb_tfr _ _ _ E H) as F.
    pose proof (conj (tfr_top _ _ F) (tfr_bot _ _ F)) as F'.
    destruct f; try discriminate E; exact F'.
  - destruct f; try discriminate E; try exact I; split; non_cb H t.
Qed.

(** (f) scrollback of the active buffer *)
Theorem scrollback_frame t f t' :
  may_touch_scrollback f = false -> execute t f = Ok t' -> bfr (buf t) (buf t').
Proof.
  intros Hm H. destruct (is_cursor_fn f) eqn:E1.
  { destruct (exec_cursor_cfr _ _ _ E1 H) as (_ & -> & _). apply bfr_refl. }
  destruct (is_edit_fn f) eqn:E2.
  { exact (proj2 (exec_edit_xfr _ _ _ E2 H)). }
  assert (Hb : buf t' = buf t); [|rewrite Hb; apply bfr_refl].
  destruct f; try discriminate E1; try discriminate E2; try discriminate Hm; non_cb H t.
Qed.

Theorem xtwinops_noop t op t' : xtw t = false -> execute t (Xtwinops op) = Ok t' -> t' = t.
Proof. intros Hx H. cbn [execute] in H. unfold xtwinops in H. rewrite Hx in H. now injection H as <-. Qed.

Print Assumptions exec_cb_tfr.
Print Assumptions other_frame.
Print Assumptions saved_frame.
Print Assumptions tabs_frame.
Print Assumptions pen_frame.
Print Assumptions margins_frame.
Print Assumptions scrollback_frame.
Print Assumptions reflow_inv.
Print Assumptions term_resize_eq.

(** what [Terminal::resize] does to the scalar fields *)
Theorem term_resize_fields t c r t' :
  term_resize t c r = Ok t' ->
  cols t' = c /\ rows t' = r /\ tabs t' = tabs_resize (cols t) c (tabs t)
  /\ sctx t' = clamp_ctx (sctx t) c r /\ asctx t' = asctx t
  /\ other t' = other t /\ active t' = active t /\ tpen t' = tpen t.
Proof.
  rewrite term_resize_eq. intros H. apply reflow_inv in H as (b & cc & cr & d & _ & ->).
  destruct t; cbn. repeat split.
Qed.
Print Assumptions term_resize_fields.

(** * field tables for the record updates above (each by computation on a destructed term) *)

Lemma to_alt_fields t d :
  active (to_alt t d) = Alternate /\ sctx (to_alt t d) = asctx t /\ asctx (to_alt t d) = sctx t
  /\ other (to_alt t d) = buf t
  /\ buf (to_alt t d) = buffer_new (cols t) (rows t) (Some 0%N) (Some (tpen t))
  /\ cols (to_alt t d) = cols t /\ rows (to_alt t d) = rows t
  /\ cur_col (to_alt t d) = cur_col t /\ cur_row (to_alt t d) = cur_row t
  /\ tpen (to_alt t d) = tpen t /\ pend (to_alt t d) = pend t.
Proof. destruct t; cbn. repeat split. Qed.

Lemma to_prim_fields t d :
  active (to_prim t d) = Primary /\ sctx (to_prim t d) = asctx t /\ asctx (to_prim t d) = sctx t
  /\ other (to_prim t d) = buf t /\ buf (to_prim t d) = other t
  /\ cols (to_prim t d) = cols t /\ rows (to_prim t d) = rows t
  /\ cur_col (to_prim t d) = cur_col t /\ cur_row (to_prim t d) = cur_row t
  /\ tpen (to_prim t d) = tpen t /\ pend (to_prim t d) = pend t.
Proof. destruct t; cbn. repeat split. Qed.

Lemma reflowed_fields t b c r d :
  active (reflowed t b c r d) = active t /\ other (reflowed t b c r d) = other t
  /\ asctx (reflowed t b c r d) = asctx t /\ cols (reflowed t b c r d) = cols t
  /\ rows (reflowed t b c r d) = rows t /\ tpen (reflowed t b c r d) = tpen t
  /\ org (reflowed t b c r d) = org t /\ awm (reflowed t b c r d) = awm t.
Proof. destruct t; cbn. repeat split. Qed.

Lemma set_sctx_fields t s :
  active (t <| sctx := s |>) = active t /\ sctx (t <| sctx := s |>) = s
  /\ asctx (t <| sctx := s |>) = asctx t /\ cols (t <| sctx := s |>) = cols t
  /\ rows (t <| sctx := s |>) = rows t /\ buf (t <| sctx := s |>) = buf t
  /\ other (t <| sctx := s |>) = other t /\ tpen (t <| sctx := s |>) = tpen t
  /\ cur_col (t <| sctx := s |>) = cur_col t /\ cur_row (t <| sctx := s |>) = cur_row t.
Proof. destruct t; cbn. repeat split. Qed.

Lemma restore_cursor_fields_eq t :
  buf (restore_cursor t) = buf t /\ other (restore_cursor t) = other t
  /\ cols (restore_cursor t) = cols t /\ rows (restore_cursor t) = rows t
  /\ cur_col (restore_cursor t) = sc_col (sctx t) /\ cur_row (restore_cursor t) = sc_row (sctx t)
  /\ tpen (restore_cursor t) = sc_pen (sctx t) /\ org (restore_cursor t) = sc_origin (sctx t)
  /\ awm (restore_cursor t) = sc_awm (sctx t) /\ pend (restore_cursor t) = false
  /\ active (restore_cursor t) = active t /\ sctx (restore_cursor t) = sctx t
  /\ asctx (restore_cursor t) = asctx t.
Proof. destruct t; cbn. repeat split. Qed.

(** * equations for the mode lists (use these rather than [cbn in]: the kernel re-checks a
      [cbn] step through nested record updates very slowly) *)

Lemma exec_decset_nil t : execute t (Decset []) = Ok t.
Proof. reflexivity. Qed.
Lemma exec_decset_cons t m ms :
  execute t (Decset (m :: ms)) = (t1 <- decset_one t m ;; execute t1 (Decset ms)).
Proof. reflexivity. Qed.
Lemma exec_decrst_nil t : execute t (Decrst []) = Ok t.
Proof. reflexivity. Qed.
Lemma exec_decrst_cons t m ms :
  execute t (Decrst (m :: ms)) = (t1 <- decrst_one t m ;; execute t1 (Decrst ms)).
Proof. reflexivity. Qed.

Lemma bind_ret {A} (m : res A) : (x <- m ;; Ok x) = m.
Proof. destruct m; reflexivity. Qed.

Lemma exec_decset_one t m : execute t (Decset [m]) = decset_one t m.
Proof. rewrite exec_decset_cons. cbn [execute foldM]. apply bind_ret. Qed.
Lemma exec_decrst_one t m : execute t (Decrst [m]) = decrst_one t m.
Proof. rewrite exec_decrst_cons. cbn [execute foldM]. apply bind_ret. Qed.

Lemma decset_scasb_eq t :
  decset_one t SaveCursorAltScreenBuffer
  = (t1 <- switch_to_alternate_buffer (save_cursor t) ;; reflow t1).
Proof. reflexivity. Qed.
Lemma decset_asb_eq t :
  decset_one t AltScreenBuffer = (t1 <- switch_to_alternate_buffer t ;; reflow t1).
Proof. reflexivity. Qed.
Lemma decrst_scasb_eq t :
  decrst_one t SaveCursorAltScreenBuffer
  = (t1 <- switch_to_primary_buffer t ;; reflow (restore_cursor t1)).
Proof. reflexivity. Qed.
Lemma decrst_asb_eq t :
  decrst_one t AltScreenBuffer = (t1 <- switch_to_primary_buffer t ;; reflow t1).
Proof. reflexivity. Qed.

(** the active screen *)
Theorem active_frame t f t' :
  execute t f = Ok t' ->
  match f with Decset _ | Decrst _ | Ris | Xtwinops _ => True | _ => active t' = active t end.
Proof.
  intros H. destruct (is_cb_fn f) eqn:E.
  - pose proof (tfr_active _ _ (exec_cb_tfr _ _ _ E H)) as F. destruct f; try discriminate E; exact F.
  - destruct f; try discriminate E; try exact I; non_cb H t.
Qed.
Print Assumptions active_frame.
