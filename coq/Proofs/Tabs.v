(** Property C18: tab stops.  The sorted vector of stops [tabs t] is abstracted by the
    set of columns [is_stop l] (Spec/Screen.v); every operation of tabs.rs is characterised
    on that abstraction, and shown to preserve [TabsInv]. *)

From Avt Require Import Proofs.Inv Spec.Screen.
From Avt Require Import Gen.Consts.
From Coq Require Import Lia ZArith ZifyBool ZifyNat.
Ltac Zify.zify_post_hook ::= Z.div_mod_to_equations.

(** * generalities *)

Lemma bool_ext (a b : bool) : (a = true <-> b = true) -> a = b.
Proof.
  destruct a, b; intros [H1 H2]; try reflexivity.
  - symmetry. apply H1. reflexivity.
  - apply H2. reflexivity.
Qed.

(** the bridge between the executable abstraction and list membership *)
Lemma is_stop_In (l : list nat) (k : nat) : is_stop l k = true <-> In k l.
Proof.
  unfold is_stop. rewrite existsb_exists. split.
  - intros (x & Hin & He). apply Nat.eqb_eq in He. subst x. exact Hin.
  - intros Hin. exists k. split; [exact Hin | apply Nat.eqb_refl].
Qed.

Lemma is_stop_ext (l1 l2 : list nat) :
  (forall k, In k l1 <-> In k l2) -> forall k, is_stop l1 k = is_stop l2 k.
Proof. intros H k. apply bool_ext. rewrite !is_stop_In. apply H. Qed.

Lemma is_stop_app (l1 l2 : list nat) (k : nat) :
  is_stop (l1 ++ l2) k = is_stop l1 k || is_stop l2 k.
Proof. unfold is_stop. apply existsb_app. Qed.

Lemma sorted_lt_cons_iff (a : nat) (l : list nat) :
  sorted_lt (a :: l) <-> (Forall (fun x => a < x) l /\ sorted_lt l).
Proof.
  revert a. induction l as [|b l IH]; intros a.
  - cbn. split; auto.
  - change (sorted_lt (a :: b :: l)) with (a < b /\ sorted_lt (b :: l)).
    rewrite (IH b). split.
    + intros (Hab & Hf & Hs). split; [|split; assumption].
      constructor; [exact Hab|].
      eapply Forall_impl; [|exact Hf]. intros x Hx. cbv beta in *. lia.
    + intros (Hf & Hb & Hs). inversion Hf as [|x y Hab Hf']; subst.
      split; [exact Hab | split; assumption].
Qed.

Lemma sorted_lt_tail (a : nat) (l : list nat) : sorted_lt (a :: l) -> sorted_lt l.
Proof. intros H. apply sorted_lt_cons_iff in H. apply H. Qed.

Lemma sorted_lt_app (l1 l2 : list nat) :
  sorted_lt l1 -> sorted_lt l2 -> (forall x y, In x l1 -> In y l2 -> x < y) ->
  sorted_lt (l1 ++ l2).
Proof.
  induction l1 as [|a l1 IH]; intros H1 H2 Hlt; [exact H2|].
  cbn [app]. apply sorted_lt_cons_iff in H1. destruct H1 as [Hf Hs].
  apply sorted_lt_cons_iff. split.
  - apply Forall_app. split; [exact Hf|].
    apply Forall_forall. intros y Hy. apply Hlt; [left; reflexivity | exact Hy].
  - apply IH; [exact Hs | exact H2 |].
    intros x y Hx Hy. apply Hlt; [right; exact Hx | exact Hy].
Qed.

Lemma sorted_lt_filter (f : nat -> bool) (l : list nat) :
  sorted_lt l -> sorted_lt (filter f l).
Proof.
  induction l as [|a l IH]; intros Hs; [exact I|].
  apply sorted_lt_cons_iff in Hs. destruct Hs as [Hf Hs].
  cbn [filter]. destruct (f a).
  - apply sorted_lt_cons_iff. split; [|apply IH; exact Hs].
    apply Forall_forall. intros x Hx. apply filter_In in Hx.
    rewrite Forall_forall in Hf. apply Hf. apply Hx.
  - apply IH; exact Hs.
Qed.

(** two strictly sorted lists with the same members are equal *)
Lemma sorted_lt_In_ext (l1 l2 : list nat) :
  sorted_lt l1 -> sorted_lt l2 -> (forall k, In k l1 <-> In k l2) -> l1 = l2.
Proof.
  revert l2. induction l1 as [|a r1 IH]; intros l2 H1 H2 Hext.
  - destruct l2 as [|b r2]; [reflexivity|].
    exfalso. apply (Hext b). left; reflexivity.
  - destruct l2 as [|b r2].
    + exfalso. apply (Hext a). left; reflexivity.
    + apply sorted_lt_cons_iff in H1. destruct H1 as [Hf1 Hs1].
      apply sorted_lt_cons_iff in H2. destruct H2 as [Hf2 Hs2].
      rewrite Forall_forall in Hf1, Hf2.
      assert (Hab : a = b).
      { assert (Ha : In a (b :: r2)) by (apply Hext; left; reflexivity).
        assert (Hb : In b (a :: r1)) by (apply Hext; left; reflexivity).
        destruct Ha as [Ha|Ha]; [symmetry; exact Ha|].
        destruct Hb as [Hb|Hb]; [exact Hb|].
        apply Hf2 in Ha. apply Hf1 in Hb. lia. }
      subst b. f_equal. apply IH; [exact Hs1 | exact Hs2 |].
      intros k. split; intros Hk.
      * assert (Hk' : In k (a :: r2)) by (apply Hext; right; exact Hk).
        destruct Hk' as [Hk'|Hk']; [|exact Hk'].
        apply Hf1 in Hk. lia.
      * assert (Hk' : In k (a :: r1)) by (apply Hext; right; exact Hk).
        destruct Hk' as [Hk'|Hk']; [|exact Hk'].
        apply Hf2 in Hk. lia.
Qed.

(** ... hence two strictly sorted lists with the same [is_stop] are equal *)
Lemma sorted_lt_stop_ext (l1 l2 : list nat) :
  sorted_lt l1 -> sorted_lt l2 -> (forall k, is_stop l1 k = is_stop l2 k) -> l1 = l2.
Proof.
  intros H1 H2 Hext. apply sorted_lt_In_ext; [exact H1 | exact H2 |].
  intros k. rewrite <- !is_stop_In, Hext. reflexivity.
Qed.

Lemma filter_none {A} (f : A -> bool) (l : list A) :
  Forall (fun x => f x = false) l -> filter f l = [].
Proof.
  induction l as [|a l IH]; intros H; [reflexivity|].
  inversion H as [|x y Ha Hl]; subst. cbn [filter]. rewrite Ha. apply IH. exact Hl.
Qed.

Lemma filter_all {A} (f : A -> bool) (l : list A) :
  Forall (fun x => f x = true) l -> filter f l = l.
Proof.
  induction l as [|a l IH]; intros H; [reflexivity|].
  inversion H as [|x y Ha Hl]; subst. cbn [filter]. rewrite Ha. f_equal. apply IH. exact Hl.
Qed.

Lemma skip_while_all {A} (f : A -> bool) (l : list A) :
  Forall (fun x => f x = true) l -> skip_while f l = [].
Proof.
  induction l as [|a l IH]; intros H; [reflexivity|].
  inversion H as [|x y Ha Hl]; subst. cbn [skip_while]. rewrite Ha. apply IH. exact Hl.
Qed.

Lemma skip_while_snoc_false {A} (f : A -> bool) (l : list A) (a : A) :
  f a = false -> skip_while f (l ++ [a]) = skip_while f l ++ [a].
Proof.
  intros Ha. induction l as [|b l IH].
  - cbn. rewrite Ha. reflexivity.
  - cbn [app skip_while]. destruct (f b); [exact IH | reflexivity].
Qed.

(** on a sorted vector, the prefix/suffix scans of tabs.rs are filters *)
Lemma take_while_filter (c : nat) (l : list nat) :
  sorted_lt l -> take_while (fun t => t <? c) l = filter (fun t => t <? c) l.
Proof.
  induction l as [|a l IH]; intros Hs; [reflexivity|].
  apply sorted_lt_cons_iff in Hs. destruct Hs as [Hf Hs].
  cbn [take_while filter]. destruct (a <? c) eqn:E.
  - f_equal. apply IH. exact Hs.
  - symmetry. apply filter_none. eapply Forall_impl; [|exact Hf].
    intros x Hx. cbv beta in *. lia.
Qed.

Lemma skip_while_filter (pos : nat) (l : list nat) :
  sorted_lt l -> skip_while (fun t => t <=? pos) l = filter (fun s => pos <? s) l.
Proof.
  induction l as [|a l IH]; intros Hs; [reflexivity|].
  pose proof Hs as Hs0.
  apply sorted_lt_cons_iff in Hs. destruct Hs as [Hf Hs].
  cbn [skip_while filter]. destruct (a <=? pos) eqn:E.
  - replace (pos <? a) with false by lia. apply IH. exact Hs.
  - replace (pos <? a) with true by lia. f_equal. symmetry. apply filter_all.
    eapply Forall_impl; [|exact Hf]. intros x Hx. cbv beta in *. lia.
Qed.

Lemma skip_while_rev_filter (pos : nat) (l : list nat) :
  sorted_lt l ->
  skip_while (fun t => pos <=? t) (rev l) = rev (filter (fun s => s <? pos) l).
Proof.
  induction l as [|a l IH]; intros Hs; [reflexivity|].
  apply sorted_lt_cons_iff in Hs. destruct Hs as [Hf Hs].
  cbn [rev filter]. destruct (a <? pos) eqn:E.
  - cbn [rev]. rewrite skip_while_snoc_false by lia. rewrite IH by exact Hs. reflexivity.
  - rewrite filter_none.
    + apply skip_while_all. apply Forall_app. split.
      * apply Forall_rev. eapply Forall_impl; [|exact Hf]. intros x Hx. cbv beta in *. lia.
      * constructor; [lia | constructor].
    + eapply Forall_impl; [|exact Hf]. intros x Hx. cbv beta in *. lia.
Qed.

(** * [Tabs::new] *)

Lemma in_range (s e k : nat) :
  In k (map (fun i => s + 8 * i) (seq 0 ((e - s + 7) / 8)))
  <-> (s <= k /\ k < e /\ (k - s) mod 8 = 0).
Proof.
  rewrite in_map_iff. split.
  - intros (i & Hk & Hi). apply in_seq in Hi. subst k. lia.
  - intros (H1 & H2 & H3). exists ((k - s) / 8). split; [lia|]. apply in_seq. lia.
Qed.

Lemma sorted_range (s a n : nat) : sorted_lt (map (fun i => s + 8 * i) (seq a n)).
Proof.
  revert a. induction n as [|n IH]; intros a; [exact I|].
  cbn [seq map]. apply sorted_lt_cons_iff. split; [|apply IH].
  apply Forall_forall. intros x Hx. apply in_map_iff in Hx.
  destruct Hx as (i & Hx & Hi). apply in_seq in Hi. subst x. lia.
Qed.

Lemma tabs_range_eq (s e : nat) :
  tabs_range s e = map (fun i => s + 8 * i) (seq 0 ((e - s + 7) / 8)).
Proof. reflexivity. Qed.

Lemma tabs_new_In (c k : nat) : In k (tabs_new c) <-> (0 < k /\ k < c /\ k mod 8 = 0).
Proof.
  unfold tabs_new. change TAB_START with 8. rewrite tabs_range_eq, in_range. lia.
Qed.

Theorem tabs_new_spec : forall c k, is_stop (tabs_new c) k = default_stop c k.
Proof.
  intros c k. apply bool_ext. rewrite is_stop_In, tabs_new_In.
  unfold default_stop. lia.
Qed.

Lemma tabs_new_sorted (c : nat) : sorted_lt (tabs_new c).
Proof. unfold tabs_new. rewrite tabs_range_eq. apply sorted_range. Qed.

Theorem tabs_new_inv : forall c, TabsInv c (tabs_new c).
Proof.
  intros c. split; [apply tabs_new_sorted|].
  apply Forall_forall. intros k Hk. apply tabs_new_In in Hk. lia.
Qed.

(** * [Tabs::set] *)

Lemma tabs_set_In (p k : nat) (l : list nat) : In k (tabs_set p l) <-> (In k l \/ k = p).
Proof.
  induction l as [|a l IH].
  - cbn. intuition.
  - cbn [tabs_set]. destruct (p <? a) eqn:E1; [|destruct (p =? a) eqn:E2].
    + cbn [In]. intuition.
    + apply Nat.eqb_eq in E2. subst a. cbn [In]. intuition.
    + cbn [In]. rewrite IH. intuition.
Qed.

(** (sortedness is not needed for this direction; the hypothesis is kept for uniformity) *)
Theorem tabs_set_spec : forall l p k,
  sorted_lt l -> is_stop (tabs_set p l) k = is_stop l k || (k =? p).
Proof.
  intros l p k _. apply bool_ext.
  rewrite orb_true_iff, !is_stop_In, tabs_set_In, Nat.eqb_eq. reflexivity.
Qed.

Lemma tabs_set_Forall (P : nat -> Prop) (p : nat) (l : list nat) :
  Forall P l -> P p -> Forall P (tabs_set p l).
Proof.
  intros Hl Hp. rewrite Forall_forall in *. intros x Hx.
  apply tabs_set_In in Hx. destruct Hx as [Hx|Hx]; [apply Hl; exact Hx | subst x; exact Hp].
Qed.

Theorem tabs_set_sorted : forall l p, sorted_lt l -> sorted_lt (tabs_set p l).
Proof.
  intros l p. induction l as [|a l IH]; intros Hs; [exact I|].
  cbn [tabs_set]. destruct (p <? a) eqn:E1; [|destruct (p =? a) eqn:E2].
  - change (p < a /\ sorted_lt (a :: l)). split; [lia | exact Hs].
  - exact Hs.
  - apply sorted_lt_cons_iff in Hs. destruct Hs as [Hf Hs].
    apply sorted_lt_cons_iff. split; [|apply IH; exact Hs].
    apply tabs_set_Forall; [exact Hf | lia].
Qed.

Theorem tabs_set_bounds : forall c l p,
  Forall (fun s => 0 < s < c) l -> 0 < p < c -> Forall (fun s => 0 < s < c) (tabs_set p l).
Proof. intros c l p Hl Hp. apply tabs_set_Forall; assumption. Qed.

Corollary tabs_set_inv : forall c l p,
  TabsInv c l -> 0 < p < c -> TabsInv c (tabs_set p l).
Proof.
  intros c l p [Hs Hb] Hp. split; [apply tabs_set_sorted; exact Hs | apply tabs_set_bounds; assumption].
Qed.

(** * [Tabs::unset] *)

Lemma tabs_unset_incl (p k : nat) (l : list nat) : In k (tabs_unset p l) -> In k l.
Proof.
  induction l as [|a l IH]; [auto|].
  cbn [tabs_unset]. destruct (p =? a).
  - intros H. right. exact H.
  - cbn [In]. intuition.
Qed.

Lemma tabs_unset_In (p k : nat) (l : list nat) :
  sorted_lt l -> (In k (tabs_unset p l) <-> (In k l /\ k <> p)).
Proof.
  induction l as [|a l IH]; intros Hs.
  - cbn. intuition.
  - apply sorted_lt_cons_iff in Hs. destruct Hs as [Hf Hs].
    rewrite Forall_forall in Hf.
    cbn [tabs_unset]. destruct (p =? a) eqn:E.
    + apply Nat.eqb_eq in E. subst a. cbn [In]. split.
      * intros Hk. split; [right; exact Hk|]. apply Hf in Hk. lia.
      * intros [[Hk|Hk] Hne]; [congruence | exact Hk].
    + apply Nat.eqb_neq in E. cbn [In]. rewrite (IH Hs). split.
      * intros [Hk|[Hk Hne]]; [subst k; split; [left; reflexivity | congruence] | split; [right; exact Hk | exact Hne]].
      * intros [[Hk|Hk] Hne]; [left; exact Hk | right; split; assumption].
Qed.

Theorem tabs_unset_spec : forall l p k,
  sorted_lt l -> is_stop (tabs_unset p l) k = is_stop l k && negb (k =? p).
Proof.
  intros l p k Hs. apply bool_ext.
  rewrite andb_true_iff, negb_true_iff, !is_stop_In, (tabs_unset_In p k l Hs), Nat.eqb_neq.
  reflexivity.
Qed.

Lemma tabs_unset_Forall (P : nat -> Prop) (p : nat) (l : list nat) :
  Forall P l -> Forall P (tabs_unset p l).
Proof.
  intros Hl. rewrite Forall_forall in *. intros x Hx. apply Hl.
  eapply tabs_unset_incl. exact Hx.
Qed.

Theorem tabs_unset_sorted : forall l p, sorted_lt l -> sorted_lt (tabs_unset p l).
Proof.
  intros l p. induction l as [|a l IH]; intros Hs; [exact I|].
  apply sorted_lt_cons_iff in Hs. destruct Hs as [Hf Hs].
  cbn [tabs_unset]. destruct (p =? a); [exact Hs|].
  apply sorted_lt_cons_iff. split; [|apply IH; exact Hs].
  apply tabs_unset_Forall. exact Hf.
Qed.

Theorem tabs_unset_bounds : forall c l p,
  Forall (fun s => 0 < s < c) l -> Forall (fun s => 0 < s < c) (tabs_unset p l).
Proof. intros c l p Hl. apply tabs_unset_Forall. exact Hl. Qed.

Corollary tabs_unset_inv : forall c l p, TabsInv c l -> TabsInv c (tabs_unset p l).
Proof.
  intros c l p [Hs Hb]. split; [apply tabs_unset_sorted; exact Hs | apply tabs_unset_bounds; exact Hb].
Qed.

(** * [Tabs::contract] *)

Lemma tabs_contract_filter (c' : nat) (l : list nat) :
  sorted_lt l -> tabs_contract c' l = filter (fun t => t <? c') l.
Proof. apply take_while_filter. Qed.

Theorem tabs_contract_spec : forall l c' k,
  sorted_lt l -> is_stop (tabs_contract c' l) k = is_stop l k && (k <? c').
Proof.
  intros l c' k Hs. rewrite (tabs_contract_filter c' l Hs). apply bool_ext.
  rewrite andb_true_iff, !is_stop_In, filter_In. reflexivity.
Qed.

(** (no lower bound on [c'] is needed; the hypothesis is the one the caller has) *)
Theorem tabs_contract_inv : forall c c' l,
  TabsInv c l -> 1 <= c' -> TabsInv c' (tabs_contract c' l).
Proof.
  intros c c' l [Hs Hb] _. rewrite (tabs_contract_filter c' l Hs). split.
  - apply sorted_lt_filter. exact Hs.
  - rewrite Forall_forall in *. intros x Hx. apply filter_In in Hx. destruct Hx as [Hx Hlt].
    apply Hb in Hx. lia.
Qed.

(** * [Tabs::expand] *)

Definition expand_start (c : nat) : nat :=
  if negb (c mod 8 =? 0) then c + (8 - c mod 8) else c.

Lemma tabs_expand_eq (c c' : nat) (l : list nat) :
  tabs_expand c c' l
  = l ++ map (fun i => expand_start c + 8 * i) (seq 0 ((c' - expand_start c + 7) / 8)).
Proof. reflexivity. Qed.

Lemma expand_range_In (c c' k : nat) :
  In k (map (fun i => expand_start c + 8 * i) (seq 0 ((c' - expand_start c + 7) / 8)))
  <-> (c <= k /\ k < c' /\ k mod 8 = 0).
Proof.
  rewrite in_range. unfold expand_start. destruct (c mod 8 =? 0) eqn:E; cbn [negb]; lia.
Qed.

(** holds for every [c], [c'], [l] *)
Lemma tabs_expand_stop (c c' : nat) (l : list nat) (k : nat) :
  is_stop (tabs_expand c c' l) k
  = is_stop l k || ((c <=? k) && (k <? c') && (k mod 8 =? 0)).
Proof.
  rewrite tabs_expand_eq, is_stop_app. f_equal.
  apply bool_ext. rewrite is_stop_In, expand_range_In. lia.
Qed.

Theorem tabs_expand_spec : forall c c' l k,
  1 <= c -> c <= c' -> TabsInv c l ->
  is_stop (tabs_expand c c' l) k
  = is_stop l k || ((c <=? k) && (k <? c') && (k mod 8 =? 0)).
Proof. intros c c' l k _ _ _. apply tabs_expand_stop. Qed.

Theorem tabs_expand_inv : forall c c' l,
  1 <= c -> c <= c' -> TabsInv c l -> TabsInv c' (tabs_expand c c' l).
Proof.
  intros c c' l Hc Hcc [Hs Hb]. rewrite tabs_expand_eq. rewrite Forall_forall in Hb. split.
  - apply sorted_lt_app; [exact Hs | apply sorted_range |].
    intros x y Hx Hy. apply Hb in Hx. apply expand_range_In in Hy. lia.
  - apply Forall_app. split; apply Forall_forall; intros x Hx.
    + apply Hb in Hx. lia.
    + apply expand_range_In in Hx. lia.
Qed.

(** * [Tabs::after] / [Tabs::before] *)

Theorem tabs_after_spec : forall l pos n,
  sorted_lt l -> 1 <= n -> tabs_after l pos n = Ok (nth_error (stops_after l pos) (n - 1)).
Proof.
  intros l pos n Hs Hn. unfold tabs_after, stops_after, guard, bind.
  replace (1 <=? n) with true by lia. rewrite (skip_while_filter pos l Hs). reflexivity.
Qed.

Theorem tabs_before_spec : forall l pos n,
  sorted_lt l -> 1 <= n -> tabs_before l pos n = Ok (nth_error (stops_before l pos) (n - 1)).
Proof.
  intros l pos n Hs Hn. unfold tabs_before, stops_before, guard, bind.
  replace (1 <=? n) with true by lia. rewrite (skip_while_rev_filter pos l Hs). reflexivity.
Qed.

(** the model's panic guards ([n - 1] underflows in Rust for [n = 0]) *)
Theorem tabs_after_ok0 : forall l pos, tabs_after l pos 0 = Panic 51.
Proof. reflexivity. Qed.

Theorem tabs_before_ok0 : forall l pos, tabs_before l pos 0 = Panic 50.
Proof. reflexivity. Qed.

(** and they are the only way to panic *)
Corollary tabs_after_ok_iff : forall l pos n, is_ok (tabs_after l pos n) = (1 <=? n).
Proof. intros l pos n. unfold tabs_after, guard, bind. destruct (1 <=? n); reflexivity. Qed.

Corollary tabs_before_ok_iff : forall l pos n, is_ok (tabs_before l pos n) = (1 <=? n).
Proof. intros l pos n. unfold tabs_before, guard, bind. destruct (1 <=? n); reflexivity. Qed.

(** * C18: a never-customised terminal has exactly the default stops of its current width *)

Theorem C18_fresh_contract : forall c c',
  1 <= c' -> c' <= c -> tabs_contract c' (tabs_new c) = tabs_new c'.
Proof.
  intros c c' _ Hcc. apply sorted_lt_stop_ext.
  - rewrite (tabs_contract_filter c' _ (tabs_new_sorted c)). apply sorted_lt_filter, tabs_new_sorted.
  - apply tabs_new_sorted.
  - intros k. rewrite (tabs_contract_spec _ c' k (tabs_new_sorted c)), !tabs_new_spec.
    unfold default_stop. apply bool_ext. lia.
Qed.

Theorem C18_fresh_expand : forall c c',
  1 <= c -> c <= c' -> tabs_expand c c' (tabs_new c) = tabs_new c'.
Proof.
  intros c c' Hc Hcc. apply sorted_lt_stop_ext.
  - apply (tabs_expand_inv c c' _ Hc Hcc (tabs_new_inv c)).
  - apply tabs_new_sorted.
  - intros k. rewrite tabs_expand_stop, !tabs_new_spec.
    unfold default_stop. apply bool_ext. lia.
Qed.

(** the tab-stop part of [Terminal::resize] (Model/Terminal.v, [term_resize]) *)
Definition tabs_resize (c c' : nat) (l : list nat) : list nat :=
  match Nat.compare c' c with
  | Lt => tabs_contract c' l
  | Eq => l
  | Gt => tabs_expand c c' l
  end.

Corollary C18_fresh_resize : forall c c',
  1 <= c -> 1 <= c' -> tabs_resize c c' (tabs_new c) = tabs_new c'.
Proof.
  intros c c' Hc Hc'. unfold tabs_resize.
  destruct (Nat.compare_spec c' c) as [E|E|E].
  - subst c'. reflexivity.
  - apply C18_fresh_contract; lia.
  - apply C18_fresh_expand; lia.
Qed.

Corollary tabs_resize_inv : forall c c' l,
  1 <= c -> 1 <= c' -> TabsInv c l -> TabsInv c' (tabs_resize c c' l).
Proof.
  intros c c' l Hc Hc' Hi. unfold tabs_resize.
  destruct (Nat.compare_spec c' c) as [E|E|E].
  - subst c'. exact Hi.
  - apply (tabs_contract_inv c c' l Hi Hc').
  - apply tabs_expand_inv; [exact Hc | lia | exact Hi].
Qed.

Print Assumptions tabs_new_spec.
Print Assumptions tabs_new_inv.
Print Assumptions tabs_set_spec.
Print Assumptions tabs_set_sorted.
Print Assumptions tabs_set_bounds.
Print Assumptions tabs_unset_spec.
Print Assumptions tabs_unset_sorted.
Print Assumptions tabs_unset_bounds.
Print Assumptions tabs_contract_spec.
Print Assumptions tabs_contract_inv.
Print Assumptions tabs_expand_spec.
Print Assumptions tabs_expand_inv.
Print Assumptions tabs_after_spec.
Print Assumptions tabs_before_spec.
Print Assumptions tabs_after_ok0.
Print Assumptions tabs_before_ok0.
Print Assumptions C18_fresh_contract.
Print Assumptions C18_fresh_expand.
Print Assumptions C18_fresh_resize.
Print Assumptions tabs_resize_inv.
