(** Property C11 (pen part) and C08.5: [Pen::dump] reproduces the pen.

    [pen_dump p] is the text [ESC [ 0 ; <fg> ; <bg> ; 1|2 ; 3 ; 4 ; 5 ; 7 ; 9 m].
    - parameter level: [pen_params p] (the parameters spelled out by the text, each a list
      of ':'-parts) decodes, through the SGR grammar of the property text, to a list of
      operations whose fold over ANY pen observes as [p]   ([pen_params_roundtrip]);
    - string level: [pen_dump p] is exactly the text of [pen_params p]  ([pen_dump_text]);
    - parser level: feeding the text of any well-formed parameter list to a parser in
      [CsiEntry] with cleared parameters accumulates exactly these parameters
      ([run_csi_params]); so a parser in ground state fed [pen_dump p] emits exactly one
      [Sgr ops], whose fold over any pen observes as [p]   ([run_pen_dump]);
    - terminal level: [exec_pen_dump];  C08.5: [C08_roundtrip];
    - pens reachable by SGR have colour components < 256 ([sgr_ops_colors_ok], [pen_ok_step]). *)

From Avt Require Import Model.Parser Model.Dump Spec.Williams Spec.Screen Proofs.Inv
  Proofs.ParserTable Proofs.ParserInv Proofs.ParserSim Proofs.Sgr.
From Avt Require Import Gen.Consts.
From Coq Require Import Lia ZArith ZifyBool ZifyNat ZifyN.
Local Open Scope N_scope.

Ltac Zify.zify_post_hook ::= Z.div_mod_to_equations.

#[local] Arguments N.add : simpl never.
#[local] Arguments N.sub : simpl never.
#[local] Arguments N.mul : simpl never.
#[local] Arguments N.eqb : simpl never.
#[local] Arguments N.ltb : simpl never.
#[local] Arguments N.leb : simpl never.
#[local] Arguments N.modulo : simpl never.
#[local] Arguments N.div : simpl never.

(** * 0. well-formed pens; pens reachable by SGR are well-formed *)

Definition color_ok (c : color) : Prop :=
  match c with
  | Indexed i => i < 256
  | RGB r g b => r < 256 /\ g < 256 /\ b < 256
  end.

Definition opt_color_ok (o : option color) : Prop :=
  match o with Some c => color_ok c | None => True end.

(** colour components in range; the attribute byte may be arbitrary *)
Definition pen_ok (p : pen) : Prop :=
  opt_color_ok (foreground p) /\ opt_color_ok (background p).

Definition op_color_ok (op : sgr_op) : Prop :=
  match op with
  | SetForegroundColor c | SetBackgroundColor c => color_ok c
  | _ => True
  end.

Lemma pen_ok_default : pen_ok default_pen.
Proof. split; exact I. Qed.

Lemma mod256_lt (a : N) : a mod 256 < 256.
Proof. apply N.mod_lt. discriminate. Qed.

Lemma rgb_ok (r g b : N) : color_ok (rgb r g b).
Proof. unfold rgb, color_ok. auto using mod256_lt. Qed.

Ltac break_if :=
  repeat match goal with |- context [if ?b then _ else _] => destruct b end.

Lemma sgr_single_ok (v : N) (o : sgr_op) : sgr_single v = Some o -> op_color_ok o.
Proof.
  unfold sgr_single. break_if; intros H; inversion H; subst o; cbn [op_color_ok color_ok];
    solve [exact I | apply mod256_lt].
Qed.

Lemma sgr_ext_ok (mk : color -> sgr_op) (rest : list param) (o : sgr_op) (c : nat) :
  (forall col, color_ok col -> op_color_ok (mk col)) ->
  sgr_ext mk rest = (Some o, c) -> op_color_ok o.
Proof.
  intros Hmk. unfold sgr_ext.
  repeat match goal with |- context [match ?x with _ => _ end] => destruct x end;
    intros H; inversion H; subst o; apply Hmk;
    solve [apply rgb_ok | cbn [color_ok]; apply mod256_lt].
Qed.

Lemma sgr_step_ok (p : param) (rest : list param) (o : sgr_op) (c : nat) :
  sgr_step p rest = (Some o, c) -> op_color_ok o.
Proof.
  unfold sgr_step.
  destruct (pparts p) as [|a [|b [|c0 [|d [|e [|f [|g l]]]]]]]; break_if; intros H;
    try discriminate H;
    try (inversion H; subst o; cbn [op_color_ok color_ok];
         solve [apply mod256_lt | apply rgb_ok]).
  - eapply sgr_ext_ok; [|exact H]. intros col Hc; exact Hc.
  - eapply sgr_ext_ok; [|exact H]. intros col Hc; exact Hc.
  - inversion H as [[H1 H2]]. eapply sgr_single_ok; exact H1.
Qed.

Lemma sgr_go_colors_ok : forall ps k, Forall op_color_ok (sgr_go k ps).
Proof.
  induction ps as [|p rest IH]; intros k; cbn [sgr_go]; [constructor|].
  destruct k as [|k]; [|apply IH].
  destruct (sgr_step p rest) as [op c] eqn:E.
  destruct op as [o|]; [|apply IH].
  constructor; [eapply sgr_step_ok; exact E|apply IH].
Qed.

(** every colour produced by the SGR decoder has byte components *)
Theorem sgr_ops_colors_ok : forall ps, Forall op_color_ok (sgr_ops ps).
Proof. intros ps. apply sgr_go_colors_ok. Qed.
Print Assumptions sgr_ops_colors_ok.

Theorem pen_ok_step : forall p op, pen_ok p -> op_color_ok op -> pen_ok (sgr_one p op).
Proof.
  intros [fg bg i a] op [Hf Hb] Ho. cbn [foreground background] in Hf, Hb.
  destruct op; cbn [op_color_ok] in Ho; split; cbn; auto.
Qed.
Print Assumptions pen_ok_step.

Corollary pen_ok_fold : forall ops p,
  pen_ok p -> Forall op_color_ok ops -> pen_ok (fold_left sgr_one ops p).
Proof.
  induction ops as [|op ops IH]; intros p Hp HF; cbn [fold_left]; [exact Hp|].
  apply IH; [apply pen_ok_step; [exact Hp|exact (Forall_inv HF)]|exact (Forall_inv_tail HF)].
Qed.

(** the pen after any SGR command (as decoded by the parser) is well-formed *)
Corollary pen_ok_sgr : forall ps p, pen_ok p -> pen_ok (fold_left sgr_one (sgr_ops ps) p).
Proof. intros ps p Hp. apply pen_ok_fold; [exact Hp|apply sgr_ops_colors_ok]. Qed.
Print Assumptions pen_ok_sgr.

(** * 1. the parameters spelled out by [pen_dump] *)

Definition color_params (c : color) (base : N) : list (list N) :=
  match c with
  | Indexed i =>
    if i <? 8 then [[base + i]]
    else if i <? 16 then [[base + 52 + i]]
    else [[base + 8; 5; i]]
  | RGB r g b => [[base + 8; 2; r; g; b]]
  end.

Definition opt_color_params (o : option color) (base : N) : list (list N) :=
  match o with Some c => color_params c base | None => [] end.

Definition inten_params (i : inten) : list (list N) :=
  match i with Normal => [] | Bold => [[1]] | Faint => [[2]] end.

Definition flag_params (b : bool) (v : N) : list (list N) := if b then [[v]] else [].

Definition pen_params (p : pen) : list (list N) :=
  [0] :: opt_color_params (foreground p) 30
  ++ opt_color_params (background p) 40
  ++ inten_params (intensity p)
  ++ flag_params (pen_has ITALIC_MASK p) 3
  ++ flag_params (pen_has UNDERLINE_MASK p) 4
  ++ flag_params (pen_has BLINK_MASK p) 5
  ++ flag_params (pen_has INVERSE_MASK p) 7
  ++ flag_params (pen_has STRIKETHROUGH_MASK p) 9.

(** ** decoding a list of self-contained parameters *)

(** a parameter that does not start a multi-parameter colour *)
Definition simple (l : list N) : Prop :=
  match l with [v] => v <> 38 /\ v <> 48 | _ => True end.

(** what one self-contained parameter decodes to *)
Definition dec1 (l : list N) : list sgr_op := cons_opt (fst (spec_step l [])) [].

Lemma spec_step_simple (l : list N) (rest : list (list N)) :
  simple l -> spec_step l rest = (fst (spec_step l []), 1%nat).
Proof.
  intros HS. unfold spec_step.
  destruct l as [|a [|b [|c [|d [|e [|f [|g l]]]]]]]; try reflexivity.
  - destruct HS as [H1 H2]. apply N.eqb_neq in H1, H2. rewrite H1, H2. reflexivity.
  - break_if; reflexivity.
  - break_if; reflexivity.
  - break_if; reflexivity.
Qed.

Lemma spec_sgr_simple : forall ps fuel,
  Forall simple ps -> (length ps < fuel)%nat -> spec_sgr fuel ps = flat_map dec1 ps.
Proof.
  induction ps as [|l rest IH]; intros [|fuel] HF HL; cbn [length] in HL; try lia.
  - reflexivity.
  - rewrite spec_sgr_unfold, (spec_step_simple l rest (Forall_inv HF)).
    cbn [fst snd Nat.sub skipn flat_map].
    rewrite (IH fuel (Forall_inv_tail HF)) by lia.
    unfold dec1. destruct (fst (spec_step l [])); reflexivity.
Qed.

Lemma dec1_code (v : N) : v <> 38 -> v <> 48 -> dec1 [v] = cons_opt (spec_sgr_code v) [].
Proof.
  intros H1 H2. apply N.eqb_neq in H1, H2. unfold dec1, spec_step. rewrite H1, H2. reflexivity.
Qed.

Lemma dec1_idx (a i : N) :
  dec1 [a; 5; i] = if a =? 38 then [SetForegroundColor (Indexed (byte i))]
                   else if a =? 48 then [SetBackgroundColor (Indexed (byte i))] else [].
Proof. unfold dec1, spec_step. destruct (a =? 38), (a =? 48); reflexivity. Qed.

Lemma dec1_rgb (a r g b : N) :
  dec1 [a; 2; r; g; b] = if a =? 38 then [SetForegroundColor (RGB (byte r) (byte g) (byte b))]
                         else if a =? 48 then [SetBackgroundColor (RGB (byte r) (byte g) (byte b))]
                         else [].
Proof. unfold dec1, spec_step. destruct (a =? 38), (a =? 48); reflexivity. Qed.

Lemma byte_small (n : N) : n < 256 -> byte n = n.
Proof. intros H. unfold byte. apply N.mod_small. exact H. Qed.

Lemma color_params_dec (base : N) (mk : color -> sgr_op) (c : color) :
  (base = 30 /\ mk = SetForegroundColor) \/ (base = 40 /\ mk = SetBackgroundColor) ->
  color_ok c ->
  flat_map dec1 (color_params c base) = [mk c] /\ Forall simple (color_params c base).
Proof.
  intros HB Hc. destruct c as [i|r g b]; unfold color_params; cbn [color_ok] in Hc.
  - destruct (N.ltb_spec i 8) as [H8|H8]; [|destruct (N.ltb_spec i 16) as [H16|H16]].
    + assert (E : In i [0; 1; 2; 3; 4; 5; 6; 7]) by (cbn [In]; lia).
      cbn [In] in E.
      destruct HB as [[-> ->]|[-> ->]];
        repeat (destruct E as [<-|E]; [split; [reflexivity|repeat constructor; discriminate]|]);
        destruct E.
    + assert (E : In i [8; 9; 10; 11; 12; 13; 14; 15]) by (cbn [In]; lia).
      cbn [In] in E.
      destruct HB as [[-> ->]|[-> ->]];
        repeat (destruct E as [<-|E]; [split; [reflexivity|repeat constructor; discriminate]|]);
        destruct E.
    + split; [|repeat constructor].
      cbn [flat_map]. rewrite dec1_idx, app_nil_r, (byte_small i Hc).
      destruct HB as [[-> ->]|[-> ->]]; reflexivity.
  - destruct Hc as (Hr & Hg & Hb). split; [|repeat constructor].
    cbn [flat_map]. rewrite dec1_rgb, app_nil_r, (byte_small r Hr), (byte_small g Hg), (byte_small b Hb).
    destruct HB as [[-> ->]|[-> ->]]; reflexivity.
Qed.

Definition opt_color_ops (mk : color -> sgr_op) (o : option color) : list sgr_op :=
  match o with Some c => [mk c] | None => [] end.

Definition inten_ops (i : inten) : list sgr_op :=
  match i with Normal => [] | Bold => [SetBoldIntensity] | Faint => [SetFaintIntensity] end.

Definition flag_ops (b : bool) (op : sgr_op) : list sgr_op := if b then [op] else [].

(** the operations [pen_dump p] stands for *)
Definition pen_ops (p : pen) : list sgr_op :=
  Reset :: opt_color_ops SetForegroundColor (foreground p)
  ++ opt_color_ops SetBackgroundColor (background p)
  ++ inten_ops (intensity p)
  ++ flag_ops (pen_has ITALIC_MASK p) SetItalic
  ++ flag_ops (pen_has UNDERLINE_MASK p) SetUnderline
  ++ flag_ops (pen_has BLINK_MASK p) SetBlink
  ++ flag_ops (pen_has INVERSE_MASK p) SetInverse
  ++ flag_ops (pen_has STRIKETHROUGH_MASK p) SetStrikethrough.

Lemma opt_color_params_dec (base : N) (mk : color -> sgr_op) (o : option color) :
  (base = 30 /\ mk = SetForegroundColor) \/ (base = 40 /\ mk = SetBackgroundColor) ->
  opt_color_ok o ->
  flat_map dec1 (opt_color_params o base) = opt_color_ops mk o
  /\ Forall simple (opt_color_params o base).
Proof.
  intros HB Ho. destruct o as [c|]; [|split; [reflexivity|constructor]].
  apply color_params_dec; assumption.
Qed.

Lemma inten_params_dec (i : inten) :
  flat_map dec1 (inten_params i) = inten_ops i /\ Forall simple (inten_params i).
Proof. destruct i; (split; [reflexivity|repeat constructor; discriminate]). Qed.

Lemma flag_params_dec (b : bool) (v : N) (op : sgr_op) :
  v <> 38 -> v <> 48 -> spec_sgr_code v = Some op ->
  flat_map dec1 (flag_params b v) = flag_ops b op /\ Forall simple (flag_params b v).
Proof.
  intros H1 H2 Hc. destruct b; [|split; [reflexivity|constructor]].
  split; [|repeat constructor; assumption].
  cbn [flag_params flat_map flag_ops]. rewrite dec1_code, Hc by assumption. reflexivity.
Qed.

Lemma pen_params_dec (p : pen) :
  pen_ok p -> flat_map dec1 (pen_params p) = pen_ops p /\ Forall simple (pen_params p).
Proof.
  intros [Hf Hb]. unfold pen_params, pen_ops.
  destruct (opt_color_params_dec 30 SetForegroundColor (foreground p)) as [E1 S1]; auto.
  destruct (opt_color_params_dec 40 SetBackgroundColor (background p)) as [E2 S2]; auto.
  destruct (inten_params_dec (intensity p)) as [E3 S3].
  destruct (flag_params_dec (pen_has ITALIC_MASK p) 3 SetItalic) as [E4 S4]; try reflexivity; try discriminate.
  destruct (flag_params_dec (pen_has UNDERLINE_MASK p) 4 SetUnderline) as [E5 S5]; try reflexivity; try discriminate.
  destruct (flag_params_dec (pen_has BLINK_MASK p) 5 SetBlink) as [E6 S6]; try reflexivity; try discriminate.
  destruct (flag_params_dec (pen_has INVERSE_MASK p) 7 SetInverse) as [E7 S7]; try reflexivity; try discriminate.
  destruct (flag_params_dec (pen_has STRIKETHROUGH_MASK p) 9 SetStrikethrough) as [E8 S8]; try reflexivity; try discriminate.
  split.
  - cbn [flat_map]. rewrite !flat_map_app, E1, E2, E3, E4, E5, E6, E7, E8. reflexivity.
  - constructor; [split; discriminate|].
    repeat (apply Forall_app; split); assumption.
Qed.

(** the spec-level decoding of the dumped parameters *)
Lemma pen_params_spec (p : pen) :
  pen_ok p -> spec_sgr (S (length (pen_params p))) (pen_params p) = pen_ops p.
Proof.
  intros Hp. destruct (pen_params_dec p Hp) as [E S].
  rewrite spec_sgr_simple by (auto; lia). exact E.
Qed.

(** folding [pen_ops p] over any observation gives the observation of [p] *)
Lemma pen_ops_fold (p : pen) (o : pen_obs) : fold_left spec_sgr_one (pen_ops p) o = observe p.
Proof.
  unfold pen_ops, observe, is_italic, is_underline, is_blink, is_inverse, is_strikethrough.
  destruct p as [fg bg i a]. cbn [foreground background intensity].
  destruct (pen_has ITALIC_MASK _), (pen_has UNDERLINE_MASK _), (pen_has BLINK_MASK _),
    (pen_has INVERSE_MASK _), (pen_has STRIKETHROUGH_MASK _), o, fg, bg, i; reflexivity.
Qed.

Theorem pen_params_roundtrip : forall p q,
  pen_ok p ->
  fold_left spec_sgr_one (spec_sgr (S (length (pen_params p))) (pen_params p)) (observe q)
  = observe p.
Proof. intros p q Hp. rewrite (pen_params_spec p Hp). apply pen_ops_fold. Qed.
Print Assumptions pen_params_roundtrip.

(** * 2. string level: [pen_dump p] is the text of [pen_params p] *)

(** one parameter: its parts in decimal, ':'-separated *)
Definition part_text (parts : list N) : list N := join_with [58] (map show_N parts).

(** a parameter list: ';'-separated *)
Definition params_text (pss : list (list N)) : list N := join_with [59] (map part_text pss).

Lemma join_with_cons (sep : list N) (x y : list N) (r : list (list N)) :
  join_with sep (x :: y :: r) = x ++ sep ++ join_with sep (y :: r).
Proof. reflexivity. Qed.

Lemma params_text_cons (ps : list N) (pss : list (list N)) :
  params_text (ps :: pss) = part_text ps ++ flat_map (fun q => 59 :: part_text q) pss.
Proof.
  unfold params_text. revert ps. induction pss as [|q pss IH]; intros ps.
  - cbn [map join_with flat_map]. now rewrite app_nil_r.
  - cbn [map]. rewrite join_with_cons. cbn [flat_map]. cbn [map] in IH. rewrite (IH q).
    reflexivity.
Qed.

Lemma color_params_text (c : color) (base : N) :
  flat_map (fun q => 59 :: part_text q) (color_params c base) = 59 :: sgr_params c base.
Proof.
  destruct c as [i|r g b]; unfold color_params, sgr_params, SGRP_T1, SGRP_T2, SGRP_O2, SGRP_O3, SGRP_O4.
  - destruct (i <? 8); [|destruct (i <? 16)]; unfold part_text;
      cbn [flat_map map join_with app]; rewrite ?app_nil_r; rewrite <- ?app_assoc; reflexivity.
  - unfold part_text. cbn [flat_map map join_with app]. rewrite app_nil_r.
    rewrite <- ?app_assoc. reflexivity.
Qed.

Lemma opt_color_params_text (o : option color) (base : N) :
  flat_map (fun q => 59 :: part_text q) (opt_color_params o base)
  = match o with Some c => 59 :: sgr_params c base | None => [] end.
Proof. destruct o as [c|]; [apply color_params_text|reflexivity]. Qed.

Theorem pen_dump_text : forall p,
  pen_dump p
  = [27; 91] ++ join_with [59] (map (fun parts => join_with [58] (map show_N parts)) (pen_params p))
    ++ [109].
Proof.
  intros p. change (join_with [59] _) with (params_text (pen_params p)).
  unfold pen_params. rewrite params_text_cons, !flat_map_app, !opt_color_params_text.
  unfold pen_dump. change ESC with 27.
  change [27; 91; 48] with ([27; 91] ++ [48]). rewrite <- !app_assoc.
  f_equal. change (part_text [0]) with [48]. f_equal. f_equal. f_equal.
  f_equal; [destruct (intensity p); reflexivity|].
  f_equal; [destruct (pen_has ITALIC_MASK p); reflexivity|].
  f_equal; [destruct (pen_has UNDERLINE_MASK p); reflexivity|].
  f_equal; [destruct (pen_has BLINK_MASK p); reflexivity|].
  f_equal; [destruct (pen_has INVERSE_MASK p); reflexivity|].
  f_equal. destruct (pen_has STRIKETHROUGH_MASK p); reflexivity.
Qed.
Print Assumptions pen_dump_text.

(** * 3. parser level: feeding the text of a parameter list *)

(** the [Param] holding the parts [l] ([cur_part] = number of parts - 1, zero padded) *)
Definition par_of (l : list N) : param :=
  mkParam (length l - 1) (l ++ repeat 0 (MAX_PARAM_LEN - length l)).

(** the parser inside a CSI sequence, having accumulated the parameters [all] (non-empty;
    the last one is in progress), no intermediate *)
Definition cstate (s : pstate) (all : list (list N)) : parser :=
  mkParser s (map par_of all ++ repeat default_param (PARAMS_LEN - length all))
           (length all - 1) None.

(** a parameter the text of which is read back exactly *)
Definition part_ok (l : list N) : Prop :=
  l <> [] /\ (length l <= 6)%nat /\ Forall (fun v => v < 65536) l.

Lemma upd_mid {A} (n : nat) (f : A -> A) (a : list A) (x : A) (b : list A) :
  n = length a -> upd n f (a ++ x :: b) = a ++ f x :: b.
Proof.
  intros ->. induction a as [|y a IH]; [reflexivity|].
  cbn [length app]. rewrite upd_S_cons, IH. reflexivity.
Qed.

Lemma par_of_snoc (cur : list N) (v : N) :
  par_of (cur ++ [v]) = mkParam (length cur) (cur ++ v :: repeat 0 (5 - length cur)).
Proof.
  unfold par_of, MAX_PARAM_LEN. rewrite app_length, <- app_assoc. cbn [length app].
  f_equal; [lia|]. do 3 f_equal. lia.
Qed.

Lemma cstate_snoc (s : pstate) (pre : list (list N)) (l : list N) :
  cstate s (pre ++ [l])
  = mkParser s (map par_of pre ++ par_of l :: repeat default_param (31 - length pre))
             (length pre) None.
Proof.
  unfold cstate, PARAMS_LEN. rewrite app_length, map_app, <- app_assoc. cbn [length map app].
  f_equal; [|lia]. do 3 f_equal. lia.
Qed.

(** ** single steps *)

Lemma w_digit_entry : forall c, 48 <= c <= 57 -> williams CsiEntry c = mkTrans CsiParam KParam false.
Proof. apply row_is_spec. vm_compute. reflexivity. Qed.

Lemma w_digit_param : forall c, 48 <= c <= 57 -> williams CsiParam c = mkTrans CsiParam KParam false.
Proof. apply row_is_spec. vm_compute. reflexivity. Qed.

Lemma w_sep_param : forall c, 58 <= c <= 59 -> williams CsiParam c = mkTrans CsiParam KParam false.
Proof. apply row_is_spec. vm_compute. reflexivity. Qed.

Lemma w_m_param : williams CsiParam 109 = mkTrans Ground KCsiDispatch false.
Proof. vm_compute. reflexivity. Qed.

Lemma w_esc_ground : williams Ground 27 = mkTrans Escape KIgnore true.
Proof. vm_compute. reflexivity. Qed.

Lemma w_bracket_escape : williams Escape 91 = mkTrans CsiEntry KIgnore true.
Proof. vm_compute. reflexivity. Qed.

(** states in which a digit is accumulated into the current parameter *)
Definition csi_s (s : pstate) : Prop := s = CsiEntry \/ s = CsiParam.

Lemma feed_param (s : pstate) (ps : list param) (cp : nat) (i : option N) (c : N) :
  williams s c = mkTrans CsiParam KParam false ->
  feed_step (mkParser s ps cp i) c = (param_step (mkParser s ps cp i) c) <| pst := CsiParam |>
  /\ feed_emit (mkParser s ps cp i) c = None.
Proof.
  intros W. unfold feed_step, feed_emit. cbn [pst]. rewrite W. split; reflexivity.
Qed.

Lemma param_step_digit (s : pstate) (ps : list param) (cp : nat) (i : option N) (d : N) :
  48 <= d <= 57 ->
  param_step (mkParser s ps cp i) d = mkParser s (upd cp (param_add_digit (d - 48)) ps) cp i.
Proof.
  intros Hd. unfold param_step, PARAM_SEP, PART_SEP, DIGIT_BASE.
  assert (E1 : (d =? 59) = false) by lia. assert (E2 : (d =? 58) = false) by lia.
  rewrite E1, E2, (N.mod_small d 256) by lia. reflexivity.
Qed.

Lemma step_digit (s : pstate) (pre : list (list N)) (cur : list N) (v d : N) :
  csi_s s -> 48 <= d <= 57 ->
  feed_step (cstate s (pre ++ [cur ++ [v]])) d = cstate CsiParam (pre ++ [cur ++ [digit_acc v d]])
  /\ feed_emit (cstate s (pre ++ [cur ++ [v]])) d = None.
Proof.
  intros Hs Hd. rewrite !cstate_snoc.
  assert (W : williams s d = mkTrans CsiParam KParam false)
    by (destruct Hs as [->| ->]; [apply w_digit_entry|apply w_digit_param]; exact Hd).
  destruct (feed_param s (map par_of pre ++ par_of (cur ++ [v]) :: repeat default_param (31 - length pre))
                       (length pre) None d W) as [E1 E2].
  split; [|exact E2]. rewrite E1, param_step_digit by exact Hd.
  rewrite upd_mid by (now rewrite map_length).
  rewrite !par_of_snoc. unfold param_add_digit. cbn [cur_part parts].
  rewrite upd_mid by reflexivity. reflexivity.
Qed.

Lemma step_colon (pre : list (list N)) (l : list N) :
  l <> [] -> (length l <= 5)%nat ->
  feed_step (cstate CsiParam (pre ++ [l])) 58 = cstate CsiParam (pre ++ [l ++ [0]])
  /\ feed_emit (cstate CsiParam (pre ++ [l])) 58 = None.
Proof.
  intros Hne Hl. rewrite !cstate_snoc.
  assert (W : williams CsiParam 58 = mkTrans CsiParam KParam false) by (apply w_sep_param; lia).
  destruct (feed_param CsiParam (map par_of pre ++ par_of l :: repeat default_param (31 - length pre))
                       (length pre) None 58 W) as [E1 E2].
  split; [|exact E2]. rewrite E1.
  change (param_step (mkParser CsiParam ?ps ?cp ?i) 58)
    with (mkParser CsiParam (upd cp param_add_part ps) cp i).
  rewrite upd_mid by (now rewrite map_length).
  replace (param_add_part (par_of l)) with (par_of (l ++ [0])); [reflexivity|].
  unfold param_add_part, par_of, MAX_PARAM_LEN, ADD_PART_CAP. cbn [cur_part].
  rewrite app_length, <- app_assoc. cbn [length app].
  destruct l as [|x l]; [congruence|]. cbn [length] in *.
  replace (6 - S (length l))%nat with (S (6 - (S (length l) + 1))) by lia. cbn [repeat].
  unfold set. cbn. f_equal. lia.
Qed.

Lemma step_semi (pre : list (list N)) (l : list N) :
  (length pre < 31)%nat ->
  feed_step (cstate CsiParam (pre ++ [l])) 59 = cstate CsiParam ((pre ++ [l]) ++ [[0]])
  /\ feed_emit (cstate CsiParam (pre ++ [l])) 59 = None.
Proof.
  intros Hl. rewrite !cstate_snoc.
  assert (W : williams CsiParam 59 = mkTrans CsiParam KParam false) by (apply w_sep_param; lia).
  destruct (feed_param CsiParam (map par_of pre ++ par_of l :: repeat default_param (31 - length pre))
                       (length pre) None 59 W) as [E1 E2].
  split; [|exact E2]. rewrite E1.
  change (param_step (mkParser CsiParam ?ps ?cp ?i) 59)
    with (mkParser CsiParam ps (if (cp + 1 =? PARAMS_LEN)%nat then (PARAMS_LEN - 1)%nat else (cp + 1)%nat) i).
  unfold PARAMS_LEN.
  assert (E : (length pre + 1 =? 32)%nat = false) by lia. rewrite E.
  rewrite app_length, map_app, <- app_assoc. cbn [length map app].
  replace (31 - length pre)%nat with (S (31 - (length pre + 1))) by lia. cbn [repeat].
  reflexivity.
Qed.

(** ** a decimal number *)

Definition is_digit (d : N) : Prop := 48 <= d <= 57.

Lemma run_digits_param (pre : list (list N)) (cur : list N) : forall ds v,
  Forall is_digit ds ->
  run_step (cstate CsiParam (pre ++ [cur ++ [v]])) ds
  = cstate CsiParam (pre ++ [cur ++ [digit_fold ds v]])
  /\ run_emit (cstate CsiParam (pre ++ [cur ++ [v]])) ds = [].
Proof.
  induction ds as [|d ds IH]; intros v HF; [split; reflexivity|].
  cbn [run_step run_emit].
  destruct (step_digit CsiParam pre cur v d (or_intror eq_refl) (Forall_inv HF)) as [E1 E2].
  rewrite E1, E2. cbn [opt_cons]. change (digit_fold (d :: ds) v) with (digit_fold ds (digit_acc v d)).
  apply IH. exact (Forall_inv_tail HF).
Qed.

Lemma run_digits (s : pstate) (pre : list (list N)) (cur : list N) (ds : list N) (v : N) :
  csi_s s -> ds <> [] -> Forall is_digit ds ->
  run_step (cstate s (pre ++ [cur ++ [v]])) ds = cstate CsiParam (pre ++ [cur ++ [digit_fold ds v]])
  /\ run_emit (cstate s (pre ++ [cur ++ [v]])) ds = [].
Proof.
  intros Hs Hne HF. destruct ds as [|d ds]; [congruence|].
  cbn [run_step run_emit].
  destruct (step_digit s pre cur v d Hs (Forall_inv HF)) as [E1 E2]. rewrite E1, E2.
  cbn [opt_cons]. change (digit_fold (d :: ds) v) with (digit_fold ds (digit_acc v d)).
  apply run_digits_param. exact (Forall_inv_tail HF).
Qed.

Lemma digits_fuel_digits : forall f n acc,
  Forall is_digit acc -> Forall is_digit (digits_fuel f n acc).
Proof.
  induction f as [|f IH]; intros n acc HF; cbn [digits_fuel]; [exact HF|].
  assert (HF' : Forall is_digit ((48 + n mod 10) :: acc))
    by (constructor; [unfold is_digit; lia|exact HF]).
  destruct (n / 10 =? 0); [exact HF'|apply IH; exact HF'].
Qed.

Lemma digits_fuel_ne : forall f n acc, acc <> [] -> digits_fuel f n acc <> [].
Proof.
  induction f as [|f IH]; intros n acc HF; cbn [digits_fuel]; [exact HF|].
  destruct (n / 10 =? 0); [discriminate|apply IH; discriminate].
Qed.

Lemma digits_fuel_raw : forall f n acc,
  n < 10 ^ N.of_nat f -> digit_raw (digits_fuel f n acc) 0 = digit_raw acc n.
Proof.
  induction f as [|f IH]; intros n acc Hn.
  - cbn [digits_fuel]. change (10 ^ N.of_nat 0) with 1 in Hn. f_equal. lia.
  - cbn [digits_fuel].
    assert (Hs : digit_raw ((48 + n mod 10) :: acc) 0 = digit_raw acc (10 * 0 + (48 + n mod 10 - 48)))
      by reflexivity.
    assert (Hs' : forall m, digit_raw ((48 + n mod 10) :: acc) m
                            = digit_raw acc (10 * m + (48 + n mod 10 - 48))) by reflexivity.
    destruct (N.eqb_spec (n / 10) 0) as [E|E].
    + rewrite Hs. f_equal. lia.
    + rewrite IH.
      * rewrite Hs'. f_equal. lia.
      * rewrite Nat2N.inj_succ, N.pow_succ_r' in Hn. lia.
Qed.

Lemma show_N_digits (n : N) : Forall is_digit (show_N n).
Proof. apply digits_fuel_digits. constructor. Qed.

Lemma digits_fuel_S (f : nat) (n : N) (acc : list N) :
  digits_fuel (S f) n acc
  = if n / 10 =? 0 then (48 + n mod 10) :: acc
    else digits_fuel f (n / 10) ((48 + n mod 10) :: acc).
Proof. reflexivity. Qed.

Lemma show_N_ne (n : N) : show_N n <> [].
Proof.
  unfold show_N. rewrite digits_fuel_S.
  destruct (n / 10 =? 0); [discriminate|apply digits_fuel_ne; discriminate].
Qed.

Lemma show_N_value (n : N) : n < 65536 -> digit_fold (show_N n) 0 = n.
Proof.
  intros Hn. rewrite digit_fold_raw by lia. unfold show_N. rewrite digits_fuel_raw.
  - unfold digit_raw. cbn [fold_left]. apply N.mod_small. exact Hn.
  - change (10 ^ N.of_nat 20) with 100000000000000000000. lia.
Qed.

(** from a fresh cell, the decimal text of [n] stores [n] *)
Lemma run_number (s : pstate) (pre : list (list N)) (cur : list N) (n : N) :
  csi_s s -> n < 65536 ->
  run_step (cstate s (pre ++ [cur ++ [0]])) (show_N n) = cstate CsiParam (pre ++ [cur ++ [n]])
  /\ run_emit (cstate s (pre ++ [cur ++ [0]])) (show_N n) = [].
Proof.
  intros Hs Hn.
  destruct (run_digits s pre cur (show_N n) 0 Hs (show_N_ne n) (show_N_digits n)) as [E1 E2].
  rewrite show_N_value in E1 by exact Hn. split; assumption.
Qed.

(** ** one parameter: ':'-separated parts *)

Lemma run_parts (pre : list (list N)) : forall ns n cur s,
  csi_s s -> (length cur + S (length ns) <= 6)%nat -> Forall (fun v => v < 65536) (n :: ns) ->
  run_step (cstate s (pre ++ [cur ++ [0]])) (part_text (n :: ns))
  = cstate CsiParam (pre ++ [cur ++ n :: ns])
  /\ run_emit (cstate s (pre ++ [cur ++ [0]])) (part_text (n :: ns)) = [].
Proof.
  unfold part_text.
  induction ns as [|n2 ns IH]; intros n cur s Hs Hl HF.
  - cbn [map join_with]. apply run_number; [exact Hs|exact (Forall_inv HF)].
  - cbn [map]. rewrite join_with_cons. cbn [map] in IH.
    destruct (run_number s pre cur n Hs (Forall_inv HF)) as [E1 E2].
    rewrite run_step_app, run_emit_app, E1, E2. cbn [app run_step run_emit].
    cbn [length] in Hl.
    destruct (step_colon pre (cur ++ [n])) as [C1 C2];
      [now destruct cur|rewrite app_length; cbn [length]; lia|].
    rewrite C1, C2. cbn [opt_cons].
    destruct (IH n2 (cur ++ [n]) CsiParam (or_intror eq_refl)) as [R1 R2];
      [rewrite app_length; cbn [length]; lia|exact (Forall_inv_tail HF)|].
    rewrite R1, R2, <- app_assoc. split; reflexivity.
Qed.

(** ** a parameter list: ';'-separated parameters *)

Lemma part_text_cons (n : N) (ns : list N) : part_text (n :: ns) = join_with [58] (map show_N (n :: ns)).
Proof. reflexivity. Qed.

Lemma run_params : forall pss ps pre s,
  csi_s s -> (length pre + S (length pss) <= 32)%nat -> Forall part_ok (ps :: pss) ->
  run_step (cstate s (pre ++ [[0]])) (params_text (ps :: pss)) = cstate CsiParam (pre ++ ps :: pss)
  /\ run_emit (cstate s (pre ++ [[0]])) (params_text (ps :: pss)) = [].
Proof.
  unfold params_text.
  induction pss as [|ps2 pss IH]; intros ps pre s Hs Hl HF;
    pose proof (Forall_inv HF) as (Hne & Hlen & Hv); destruct ps as [|n ns]; try congruence.
  - cbn [map join_with]. cbn [length] in Hlen.
    apply (run_parts pre ns n [] s Hs); [cbn [length]; lia|exact Hv].
  - cbn [map]. rewrite join_with_cons. cbn [map] in IH. cbn [length] in Hlen, Hl.
    destruct (run_parts pre ns n [] s Hs) as [E1 E2]; [cbn [length]; lia|exact Hv|].
    cbn [app] in E1, E2.
    rewrite run_step_app, run_emit_app, E1, E2. cbn [app run_step run_emit].
    destruct (step_semi pre (n :: ns)) as [C1 C2]; [lia|].
    rewrite C1, C2. cbn [opt_cons].
    destruct (IH ps2 (pre ++ [n :: ns]) CsiParam (or_intror eq_refl)) as [R1 R2];
      [rewrite app_length; cbn [length]; lia|exact (Forall_inv_tail HF)|].
    rewrite R1, R2, <- app_assoc. split; reflexivity.
Qed.

(** the parser state right after [ESC [] / [CSI] *)
Definition csi_entry : parser := mkParser CsiEntry (repeat default_param PARAMS_LEN) 0 None.

Lemma csi_entry_cstate : csi_entry = cstate CsiEntry [[0]].
Proof. reflexivity. Qed.

(** the reusable core: the text of a list of at most 32 parameters, each of at most 6
    parts < 65536, fed from [CsiEntry] with cleared parameters, accumulates exactly these *)
Theorem run_csi_params : forall pss,
  pss <> [] -> (length pss <= 32)%nat -> Forall part_ok pss ->
  run_step csi_entry (params_text pss) = cstate CsiParam pss
  /\ run_emit csi_entry (params_text pss) = [].
Proof.
  intros [|ps pss] Hne Hl HF; [congruence|]. cbn [length] in Hl.
  apply (run_params pss ps [] CsiEntry (or_introl eq_refl)); [cbn [length]; lia|exact HF].
Qed.
Print Assumptions run_csi_params.

(** ... and its parameters read back as the given parts *)
Lemma pparts_par_of (l : list N) : l <> [] -> pparts (par_of l) = l.
Proof.
  intros Hne. unfold pparts, par_of. cbn [cur_part parts].
  replace (S (length l - 1)) with (length l + 0)%nat by (destruct l; [congruence|cbn [length]; lia]).
  rewrite firstn_app_2. cbn [firstn]. apply app_nil_r.
Qed.

Lemma map_pparts_par_of (pss : list (list N)) :
  Forall part_ok pss -> map pparts (map par_of pss) = pss.
Proof.
  induction 1 as [|l pss Hl _ IH]; [reflexivity|].
  cbn [map]. rewrite IH, pparts_par_of; [reflexivity|apply Hl].
Qed.

Lemma cstate_params (s : pstate) (pss : list (list N)) :
  pss <> [] ->
  firstn (S (cur_param (cstate s pss))) (params (cstate s pss)) = map par_of pss.
Proof.
  intros Hne. unfold cstate. cbn [cur_param params].
  replace (S (length pss - 1)) with (length (map par_of pss) + 0)%nat
    by (rewrite map_length; destruct pss; [congruence|cbn [length]; lia]).
  rewrite firstn_app_2. cbn [firstn]. apply app_nil_r.
Qed.

(** the final 'm' *)
Lemma step_m (pss : list (list N)) :
  pss <> [] ->
  feed_step (cstate CsiParam pss) 109 = (cstate CsiParam pss) <| pst := Ground |>
  /\ feed_emit (cstate CsiParam pss) 109 = Some (Sgr (sgr_ops (map par_of pss))).
Proof.
  intros Hne. unfold feed_step, feed_emit.
  change (pst (cstate CsiParam pss)) with CsiParam. rewrite w_m_param. cbn [t_clear t_kind t_next].
  split; [reflexivity|].
  rewrite <- (cstate_params CsiParam pss Hne). reflexivity.
Qed.

(** ESC [ from ground *)
Lemma run_esc_bracket (pr : parser) :
  PInv pr -> pst pr = Ground ->
  run_step pr [27; 91] = csi_entry /\ run_emit pr [27; 91] = [].
Proof.
  intros HP HG. cbn [run_step run_emit].
  assert (E1 : feed_step pr 27 = mkParser Escape (repeat default_param PARAMS_LEN) 0 None).
  { unfold feed_step. rewrite HG, w_esc_ground. cbn [t_clear t_kind t_next].
    rewrite (clear_eq pr HP). reflexivity. }
  assert (F1 : feed_emit pr 27 = None).
  { unfold feed_emit. rewrite HG, w_esc_ground. reflexivity. }
  rewrite E1, F1. split.
  - unfold feed_step. cbn [pst]. rewrite w_bracket_escape. cbn [t_clear t_kind t_next].
    rewrite clear_eq by (apply PInv_repeat; unfold PARAMS_LEN; lia). reflexivity.
  - unfold feed_emit. cbn [pst]. rewrite w_bracket_escape. reflexivity.
Qed.

(** an SGR sequence [ESC [ <params> m] from ground *)
Theorem run_sgr_text : forall pr pss,
  PInv pr -> pst pr = Ground ->
  pss <> [] -> (length pss <= 32)%nat -> Forall part_ok pss ->
  runP pr ([27; 91] ++ params_text pss ++ [109])
  = Ok ((cstate CsiParam pss) <| pst := Ground |>, [Sgr (spec_sgr (S (length pss)) pss)]).
Proof.
  intros pr pss HP HG Hne Hl HF. rewrite runP_char by exact HP.
  destruct (run_esc_bracket pr HP HG) as [A1 A2].
  destruct (run_csi_params pss Hne Hl HF) as [B1 B2].
  destruct (step_m pss Hne) as [C1 C2].
  rewrite !run_step_app, !run_emit_app, A1, A2, B1, B2. cbn [app run_step run_emit].
  rewrite C1, C2. cbn [opt_cons].
  rewrite sgr_decode_spec_gen. unfold spec_sgr_params.
  rewrite map_length, (map_pparts_par_of pss HF). reflexivity.
Qed.
Print Assumptions run_sgr_text.

(** * 4. [pen_dump] through the parser *)

Lemma color_params_ok (c : color) (base : N) :
  base <= 40 -> color_ok c -> Forall part_ok (color_params c base).
Proof.
  intros HB Hc. destruct c as [i|r g b]; unfold color_params; cbn [color_ok] in Hc.
  - destruct (N.ltb_spec i 8); [|destruct (N.ltb_spec i 16)];
      repeat constructor; cbn [length]; try discriminate; lia.
  - destruct Hc as (Hr & Hg & Hb). repeat constructor; cbn [length]; try discriminate; lia.
Qed.

Lemma opt_color_params_ok (o : option color) (base : N) :
  base <= 40 -> opt_color_ok o -> Forall part_ok (opt_color_params o base).
Proof. intros HB Ho. destruct o as [c|]; [now apply color_params_ok|constructor]. Qed.

Lemma flag_params_ok (b : bool) (v : N) : v < 65536 -> Forall part_ok (flag_params b v).
Proof.
  intros Hv. destruct b; [|constructor].
  repeat constructor; cbn [length]; try discriminate; lia.
Qed.

Lemma inten_params_ok (i : inten) : Forall part_ok (inten_params i).
Proof. destruct i; repeat constructor; cbn [length]; try discriminate; lia. Qed.

Lemma pen_params_ok (p : pen) : pen_ok p -> Forall part_ok (pen_params p).
Proof.
  intros [Hf Hb]. unfold pen_params.
  constructor; [repeat constructor; cbn [length]; try discriminate; lia|].
  repeat (apply Forall_app; split);
    auto using opt_color_params_ok, inten_params_ok, flag_params_ok.
  - apply opt_color_params_ok; [lia|exact Hf].
  - apply opt_color_params_ok; [lia|exact Hb].
  - apply flag_params_ok; lia.
  - apply flag_params_ok; lia.
  - apply flag_params_ok; lia.
  - apply flag_params_ok; lia.
  - apply flag_params_ok; lia.
Qed.

Lemma color_params_length (c : color) (base : N) : length (color_params c base) = 1%nat.
Proof. destruct c as [i|r g b]; unfold color_params; [|reflexivity]. break_if; reflexivity. Qed.

Lemma pen_params_length (p : pen) : (1 <= length (pen_params p) <= 9)%nat.
Proof.
  unfold pen_params. cbn [length]. rewrite !app_length.
  assert (H1 : forall o b, (length (opt_color_params o b) <= 1)%nat)
    by (intros [c|] b; cbn [opt_color_params length]; [rewrite color_params_length|]; lia).
  assert (H2 : forall b v, (length (flag_params b v) <= 1)%nat) by (intros [|] v; cbn; lia).
  assert (H3 : forall i, (length (inten_params i) <= 1)%nat) by (intros [| |]; cbn; lia).
  pose proof (H1 (foreground p) 30). pose proof (H1 (background p) 40).
  pose proof (H3 (intensity p)).
  pose proof (H2 (pen_has ITALIC_MASK p) 3). pose proof (H2 (pen_has UNDERLINE_MASK p) 4).
  pose proof (H2 (pen_has BLINK_MASK p) 5). pose proof (H2 (pen_has INVERSE_MASK p) 7).
  pose proof (H2 (pen_has STRIKETHROUGH_MASK p) 9). lia.
Qed.

Lemma pen_params_ne (p : pen) : pen_params p <> [].
Proof. unfold pen_params. discriminate. Qed.

(** the parser's view: exactly one [Sgr], carrying the ops [pen_ops p] *)
Theorem run_pen_dump_ops : forall pr p,
  PInv pr -> pst pr = Ground -> pen_ok p ->
  runP pr (pen_dump p)
  = Ok ((cstate CsiParam (pen_params p)) <| pst := Ground |>, [Sgr (pen_ops p)]).
Proof.
  intros pr p HP HG Hp. rewrite pen_dump_text.
  change (join_with [59] _) with (params_text (pen_params p)).
  rewrite (run_sgr_text pr (pen_params p) HP HG (pen_params_ne p));
    [|pose proof (pen_params_length p); lia|exact (pen_params_ok p Hp)].
  rewrite (pen_params_spec p Hp). reflexivity.
Qed.
Print Assumptions run_pen_dump_ops.

Lemma pen_ops_observe (p q : pen) : observe (fold_left sgr_one (pen_ops p) q) = observe p.
Proof. rewrite sgr_fold_observe. apply pen_ops_fold. Qed.

Theorem run_pen_dump : forall pr p,
  PInv pr -> pst pr = Ground -> pen_ok p ->
  exists pr' ops,
    runP pr (pen_dump p) = Ok (pr', [Sgr ops]) /\ pst pr' = Ground
    /\ forall q, observe (fold_left sgr_one ops q) = observe p.
Proof.
  intros pr p HP HG Hp. eexists _, _. split; [apply run_pen_dump_ops; assumption|].
  split; [reflexivity|]. intros q. apply pen_ops_observe.
Qed.
Print Assumptions run_pen_dump.

(** the parser afterwards still satisfies its invariant (so dumps can be chained) *)
Corollary run_pen_dump_PInv : forall pr p pr' fs,
  PInv pr -> runP pr (pen_dump p) = Ok (pr', fs) -> PInv pr'.
Proof.
  intros pr p pr' fs HP E. rewrite runP_char in E by exact HP.
  assert (E' : run_step pr (pen_dump p) = pr')
    by exact (f_equal (fun r => match r with Ok x => fst x | Panic _ => pr' end) E).
  rewrite <- E'. apply run_step_inv. exact HP.
Qed.

(** * 5. terminal level *)

Theorem exec_pen_dump : forall pr p t,
  PInv pr -> pst pr = Ground -> pen_ok p ->
  exists pr' ops p',
    runP pr (pen_dump p) = Ok (pr', [Sgr ops]) /\ pst pr' = Ground
    /\ execute t (Sgr ops) = Ok (t <| tpen := p' |>)
    /\ observe p' = observe p.
Proof.
  intros pr p t HP HG Hp.
  destruct (run_pen_dump pr p HP HG Hp) as (pr' & ops & R & G & O).
  exists pr', ops, (fold_left sgr_one ops (tpen t)).
  split; [exact R|]. split; [exact G|]. split; [apply C08_execute_sgr|apply O].
Qed.
Print Assumptions exec_pen_dump.

(** * 6. C08.5: the parameter array of a pen decodes back to the pen *)

Definition params_of_pen (p : pen) : list param := map par_of (pen_params p).

Theorem C08_roundtrip : forall p q,
  pen_ok p -> observe (fold_left sgr_one (sgr_ops (params_of_pen p)) q) = observe p.
Proof.
  intros p q Hp. unfold params_of_pen.
  rewrite sgr_decode_spec_gen. unfold spec_sgr_params.
  rewrite map_length, (map_pparts_par_of _ (pen_params_ok p Hp)), (pen_params_spec p Hp).
  apply pen_ops_observe.
Qed.
Print Assumptions C08_roundtrip.

(** the array is what the parser holds (in [params[..=cur_param]]) when the final 'm' arrives *)
Lemma params_of_pen_parser (p : pen) :
  firstn (S (cur_param (cstate CsiParam (pen_params p)))) (params (cstate CsiParam (pen_params p)))
  = params_of_pen p.
Proof. apply cstate_params. apply pen_params_ne. Qed.

(** SGR-reachable pens round-trip: [dump] after any SGR history reproduces the pen *)
Corollary C08_roundtrip_reachable : forall ps p0 q,
  pen_ok p0 ->
  let p := fold_left sgr_one (sgr_ops ps) p0 in
  observe (fold_left sgr_one (sgr_ops (params_of_pen p)) q) = observe p.
Proof. intros ps p0 q H0 p. apply C08_roundtrip. apply pen_ok_sgr. exact H0. Qed.
Print Assumptions C08_roundtrip_reachable.

(** [pen_ok] is preserved by every op the decoder can produce *)
Corollary pen_ok_step_sgr : forall p ps op,
  pen_ok p -> In op (sgr_ops ps) -> pen_ok (sgr_one p op).
Proof.
  intros p ps op Hp Hin. apply pen_ok_step; [exact Hp|].
  pose proof (sgr_ops_colors_ok ps) as HF. rewrite Forall_forall in HF. now apply HF.
Qed.
Print Assumptions pen_ok_step_sgr.

(** [pen_ok] cannot be dropped: an (unreachable) pen with colour index 256 is dumped as
    [38:5:256], which the decoder reads back modulo 256 *)
Example pen_ok_needed :
  let p := mkPen (Some (Indexed 256)) None Normal 0 in
  exists pr', runP init_parser (pen_dump p) = Ok (pr', [Sgr [Reset; SetForegroundColor (Indexed 0)]])
  /\ observe (fold_left sgr_one [Reset; SetForegroundColor (Indexed 0)] default_pen) <> observe p.
Proof. eexists. split; [vm_compute; reflexivity|]. vm_compute. discriminate. Qed.
