(** C06: the scrolling commands (LF / NEL on the bottom margin, RI on the top margin, SU, SD,
    IL, DL) refine the view-level specification [spec_scroll] of [Spec/Screen.v].

    The file also collects the small terminal-level helpers shared with [SpecEdit.v] and
    [SpecPrint.v]: [mark]/[mark_range] succeed under the invariant, [vis_norm] forgets
    [dirty] and [trim_needed], [set_view] is [bset] on the active buffer. *)

From Coq Require Import Lia ZArith ZifyBool ZifyNat ZifyN.
From Avt Require Import Oracles.Step Proofs.Inv Proofs.VisEq Proofs.ListLemmas Proofs.BufRow
     Proofs.BufScroll Proofs.TermEasy.
Ltac Zify.zify_post_hook ::= Z.div_mod_to_equations.

(** * shared helpers *)

Lemma set_view_bset t v : set_view t v = t <| buf := bset (buf t) v |>.
Proof. reflexivity. Qed.

Lemma vis_norm_dirty t d : vis_norm (t <| dirty := d |>) = vis_norm t.
Proof. reflexivity. Qed.

Lemma vis_norm_buf_trim t b tn :
  vis_norm (t <| buf := b <| trim_needed := tn |> |>) = vis_norm (t <| buf := b |>).
Proof. reflexivity. Qed.

Lemma vis_norm_idem t : vis_norm (vis_norm t) = vis_norm t.
Proof. reflexivity. Qed.

Lemma mark_ok t n :
  n < length (dirty t) -> mark t n = Ok (t <| dirty := upd n (fun _ => true) (dirty t) |>).
Proof.
  intros H. unfold mark, dirty_add. replace (n <? length (dirty t)) with true by lia. reflexivity.
Qed.

Lemma mark_range_ok t a z :
  a <= z -> z <= length (dirty t) ->
  mark_range t a z = Ok (t <| dirty := fill_range a z true (dirty t) |>).
Proof.
  intros H1 H2. unfold mark_range, dirty_extend.
  replace ((a <=? z) && (z <=? length (dirty t))) with true by lia. reflexivity.
Qed.

Lemma n1_pos n : 1 <= n1 n.
Proof. unfold n1. destruct (N.eqb_spec n 0); lia. Qed.

(** the active buffer as scrollback ++ view *)
Lemma term_decomp t :
  BGeom (buf t) ->
  lines (buf t) = tsb t ++ tview t /\ length (tview t) = brows (buf t).
Proof.
  intros HG. destruct (buf_decomp (buf t) HG) as (H1 & H2 & _). split; assumption.
Qed.

Lemma TInv_BGeom t : TInv t -> BGeom (buf t).
Proof. intros H. apply (ti_buf t H). Qed.

(** * the two region scrolls *)

Lemma apply_scroll_up_eq t a z n :
  apply_scroll_up t a z n
  = set_screen t (tsb t ++ snd (spec_scroll_up a z n (tpen t) (cols t) (tview t)))
                 (fst (spec_scroll_up a z n (tpen t) (cols t) (tview t))).
Proof.
  unfold apply_scroll_up. destruct (spec_scroll_up a z n (tpen t) (cols t) (tview t)); reflexivity.
Qed.

(** what the model leaves behind: the specified screen, the lazy-trim flag raised, the
    range marked dirty *)
Definition after_up (t : term) (a z n : nat) : term :=
  let s := apply_scroll_up t a z n in
  s <| buf := (buf s) <| trim_needed := true |> |>
    <| dirty := fill_range a z true (dirty t) |>.

Definition after_down (t : term) (a z n : nat) : term :=
  (apply_scroll_down t a z n) <| dirty := fill_range a z true (dirty t) |>.

Lemma after_up_norm t a z n : vis_norm (after_up t a z n) = vis_norm (apply_scroll_up t a z n).
Proof. reflexivity. Qed.

Lemma after_down_norm t a z n : vis_norm (after_down t a z n) = vis_norm (apply_scroll_down t a z n).
Proof. reflexivity. Qed.

Lemma scroll_up_core t a z n :
  BGeom (buf t) -> bcols (buf t) = cols t -> brows (buf t) = rows t ->
  length (dirty t) = rows t -> a < z -> z <= rows t ->
  (t1 <- on_buf t (fun b => buf_scroll_up b a z n (tpen t)) ;; mark_range t1 a z)
  = Ok (after_up t a z n).
Proof.
  intros HG Hc Hr Hd Haz Hz.
  destruct (term_decomp t HG) as [Hl Hv].
  unfold on_buf.
  rewrite (buf_scroll_up_eq (buf t) (tsb t) (tview t) a z n (tpen t) Hl Hv Haz) by lia.
  cbn [bind]. rewrite mark_range_ok by (cbn; lia).
  unfold after_up. rewrite apply_scroll_up_eq, Hc. unfold set_screen. rewrite <- app_assoc. reflexivity.
Qed.

Lemma scroll_down_core t a z n :
  BGeom (buf t) -> bcols (buf t) = cols t -> brows (buf t) = rows t ->
  length (dirty t) = rows t -> a < z -> z <= rows t ->
  (t1 <- on_buf t (fun b => buf_scroll_down b a z n (tpen t)) ;; mark_range t1 a z)
  = Ok (after_down t a z n).
Proof.
  intros HG Hc Hr Hd Haz Hz.
  destruct (term_decomp t HG) as [Hl Hv].
  unfold on_buf.
  rewrite (buf_scroll_down_eq (buf t) (tsb t) (tview t) a z n (tpen t) Hl Hv Haz) by lia.
  cbn [bind]. rewrite mark_range_ok by (cbn; lia).
  unfold after_down. rewrite Hc. reflexivity.
Qed.

Section Scroll.
  Variable t : term.
  Hypothesis HT : TInv t.

  Let HG : BGeom (buf t) := TInv_BGeom t HT.

  Lemma region_ok : top t < bot t + 1 /\ bot t + 1 <= rows t.
  Proof. pose proof (ti_margins t HT). lia. Qed.

  Lemma scroll_up_in_region_eq n :
    scroll_up_in_region t n = Ok (after_up t (top t) (bot t + 1) n).
  Proof.
    destruct region_ok. unfold scroll_up_in_region.
    apply scroll_up_core; try assumption;
      [apply (ti_bcols t HT)|apply (ti_brows t HT)|apply (ti_dirty t HT)].
  Qed.

  Lemma scroll_down_in_region_eq n :
    scroll_down_in_region t n = Ok (after_down t (top t) (bot t + 1) n).
  Proof.
    destruct region_ok. unfold scroll_down_in_region.
    apply scroll_down_core; try assumption;
      [apply (ti_bcols t HT)|apply (ti_brows t HT)|apply (ti_dirty t HT)].
  Qed.

  Lemma ildl_range_ok a z : spec_ildl_range t = (a, z) -> a < z /\ z <= rows t.
  Proof.
    pose proof (ti_margins t HT). pose proof (ti_row t HT).
    unfold spec_ildl_range. destruct (Nat.leb_spec (cur_row t) (bot t)); intros E;
      injection E as <- <-; lia.
  Qed.

  Lemma il_eq n a z : spec_ildl_range t = (a, z) -> il t n = Ok (after_down t a z (n1 n)).
  Proof.
    intros E. destruct (ildl_range_ok a z E). unfold il.
    change (il_dl_range t) with (spec_ildl_range t). rewrite E.
    apply scroll_down_core; try assumption;
      [apply (ti_bcols t HT)|apply (ti_brows t HT)|apply (ti_dirty t HT)].
  Qed.

  Lemma dl_eq n a z : spec_ildl_range t = (a, z) -> dl t n = Ok (after_up t a z (n1 n)).
  Proof.
    intros E. destruct (ildl_range_ok a z E). unfold dl.
    change (il_dl_range t) with (spec_ildl_range t). rewrite E.
    apply scroll_up_core; try assumption;
      [apply (ti_bcols t HT)|apply (ti_brows t HT)|apply (ti_dirty t HT)].
  Qed.

  Theorem C06_scroll_sec f e :
    spec_scroll t f = Some e -> exists t', execute t f = Ok t' /\ vis_norm e = vis_norm t'.
  Proof.
    destruct f; try discriminate; cbn [spec_scroll execute].
    - (* Dl *)
      destruct (spec_ildl_range t) as [a z] eqn:E. intros H; injection H as <-.
      eexists; split; [apply (dl_eq n a z E)|reflexivity].
    - (* Il *)
      destruct (spec_ildl_range t) as [a z] eqn:E. intros H; injection H as <-.
      eexists; split; [apply (il_eq n a z E)|reflexivity].
    - (* Lf *)
      destruct (Nat.eqb_spec (cur_row t) (bot t)) as [Eb|Eb]; [|discriminate].
      intros H; injection H as <-.
      unfold lf, move_cursor_down_with_scroll. rewrite (proj2 (Nat.eqb_eq _ _) Eb).
      rewrite scroll_up_in_region_eq. cbn [bind].
      eexists; split; [reflexivity|].
      change (nlm (after_up t (top t) (bot t + 1) 1)) with (nlm t).
      destruct (nlm t); reflexivity.
    - (* Nel *)
      destruct (Nat.eqb_spec (cur_row t) (bot t)) as [Eb|Eb]; [|discriminate].
      intros H; injection H as <-.
      unfold nel, move_cursor_down_with_scroll. rewrite (proj2 (Nat.eqb_eq _ _) Eb).
      rewrite scroll_up_in_region_eq. cbn [bind].
      eexists; split; reflexivity.
    - (* Ri *)
      destruct (Nat.eqb_spec (cur_row t) (top t)) as [Eb|Eb]; [|discriminate].
      intros H; injection H as <-.
      unfold ri. rewrite (proj2 (Nat.eqb_eq _ _) Eb).
      rewrite scroll_down_in_region_eq.
      eexists; split; reflexivity.
    - (* Sd *)
      intros H; injection H as <-. rewrite scroll_down_in_region_eq.
      eexists; split; reflexivity.
    - (* Su *)
      intros H; injection H as <-. rewrite scroll_up_in_region_eq.
      eexists; split; reflexivity.
  Qed.
End Scroll.

Theorem C06_scroll : forall t f e,
  TInv t -> spec_scroll t f = Some e ->
  exists t', execute t f = Ok t' /\ vis_norm e = vis_norm t'.
Proof. intros t f e HT H. exact (C06_scroll_sec t HT f e H). Qed.
Print Assumptions C06_scroll.

(** the first conjunct of the executable statement [holds_C06] *)
Corollary C06_scroll_step : forall t f t',
  TInv t -> execute t f = Ok t' ->
  match spec_scroll t f with Some e => visible_eqb e t' = true | None => True end.
Proof.
  intros t f t' HT Hx. destruct (spec_scroll t f) as [e|] eqn:E; [|exact I].
  destruct (C06_scroll t f e HT E) as (t'' & Hx' & Hn).
  rewrite Hx in Hx'. injection Hx' as <-. apply visible_eqb_norm; exact Hn.
Qed.

Corollary C06_scroll_holds : forall t f t',
  TInv t -> execute t f = Ok t' -> spec_scroll t f <> None ->
  visible_eqb (match spec_scroll t f with Some e => e | None => t end) t' = true.
Proof.
  intros t f t' HT Hx Hs. pose proof (C06_scroll_step t f t' HT Hx) as H.
  destruct (spec_scroll t f); [exact H|contradiction].
Qed.
Print Assumptions C06_scroll_holds.
