(** print and REP (leaf of Proofs/TermTieW.v; see Proofs/TermTieW_Core.v for the method) *)
From Coq Require Import Lia ZArith ZifyBool ZifyNat ZifyN.
From Avt Require Import Oracles.Step Proofs.Inv Proofs.TermEasy Gen.TermFns Proofs.TermTie_Core Proofs.InvStep
  Proofs.TermTieW_Core.
Ltac Zify.zify_post_hook ::= Z.div_mod_to_equations.
Local Open Scope Z_scope.

Lemma w_print_eq t c : ZW t -> w_print Om (zabs t) (wabs t) (Z.of_N c) = wres (print t c).
Proof.
  intros H. assert (Ha : (acs t <= 1)%nat) by apply H.
  destruct t. cbn [Types.acs] in Ha. destruct acs as [|[|acs]]; [| |lia].
  - w_tie2 H.
  - w_tie2 H.
Qed.


Lemma print_n_foldM n : forall t c k, print_n n t c = foldM (fun t (_ : nat) => print t c) (seq k n) t.
Proof.
  induction n as [|n IH]; intros t c k; cbn [print_n seq foldM]; [reflexivity|].
  unfold bind. destruct (print t c); [apply IH | reflexivity].
Qed.


Lemma w_rep_eq t n : TInv t -> w_rep Om (zabs t) (wabs t) (Z.of_N n) = wres (rep t n).
Proof.
  intros H. unfold w_rep, rep. rewrite g_as_usize_1.
  change (z_col (zabs t)) with (Z.of_nat (cur_col t)). change (z_row (zabs t)) with (Z.of_nat (cur_row t)).
  cbn [fst snd].
  destruct (Nat.ltb_spec 0 (cur_col t)) as [Hc|Hc];
    destruct (Z.ltb_spec 0 (Z.of_nat (cur_col t))) as [Hc'|Hc']; try lia.
  2: { destruct t; reflexivity. }
  unfold q_buf_char at 1. cbn [Om]. rewrite wabs_buf.
  replace (Z.to_nat (Z.of_nat (cur_row t))) with (cur_row t) by lia.
  replace (Z.to_nat (Z.of_nat (cur_col t) - 1)) with (cur_col t - 1)%nat by lia.
  unfold bind. destruct (get_row (buf t) (cur_row t)) as [l|e]; cbn [ores zb]; [|reflexivity].
  destruct (nth_error (cells l) (cur_col t - 1)) as [x|]; cbn [ores zb]; [|reflexivity].
  rewrite zrange_0.
  replace (true && true && (1 <=? Z.of_nat (cur_col t))) with true by lia.
  rewrite (zfor_tie (fun i => 0 + Z.of_nat i) (seq 0 (as_usize n 1)) _ (fun t (_ : nat) => print t (ch x)) TInv).
  - rewrite <- print_n_foldM. destruct (print_n (as_usize n 1) t (ch x)); reflexivity.
  - intros t0 i H0. rewrite (w_print_eq t0 (ch x) (TInv_ZW t0 H0)).
    destruct (print t0 (ch x)); reflexivity.
  - intros t0 i t1 H0 E. destruct (print_TInv t0 (ch x) H0) as (t2 & E2 & H2). congruence.
  - exact H.
Qed.

