(** resize (public), XTWINOPS, the Resize operation of the Vt layer (the resize lemma with the reflow tie as a hypothesis, so that it compiles in parallel with it; leaf of Proofs/TermTieW.v; see Proofs/TermTieW_Core.v for the method) *)
From Coq Require Import Lia ZArith ZifyBool ZifyNat ZifyN.
From Avt Require Import Oracles.Step Proofs.Inv Proofs.TermEasy Gen.TermFns Proofs.TermTie_Core Proofs.InvStep
  Proofs.TermTieW_Core.
Ltac Zify.zify_post_hook ::= Z.div_mod_to_equations.
Local Open Scope Z_scope.

Lemma w_resize_eq_gen
      (Hreflow : forall t, ZW t -> w_reflow Om (zabs t) (wabs t) = wres (reflow t)) t c r :
  ZW t -> (1 <= c)%nat -> (1 <= r)%nat ->
  w_resize Om (zabs t) (wabs t) (Z.of_nat c) (Z.of_nat r)
  = wres_flag (term_resize t c r) (negb ((c =? cols t)%nat && (r =? rows t)%nat)).
Proof.
  intros H Hc Hr. destruct t. destruct H as (Hcols & Hrows & Hacs).
  cbn [Types.cols Types.rows Types.acs] in Hcols, Hrows, Hacs.
  unfold w_resize, term_resize, zabs, wabs. nrm_c.
  repeat (first [ brk1 | brk_cmp ]; try (exfalso; lia); nrm_c).
  all: match goal with
       | |- context [w_reflow ?O ?S ?W] =>
         match goal with
         | |- context [reflow ?T] =>
           change (w_reflow O S W) with (w_reflow Om S W);
           replace S with (zabs T) by (unfold zabs; nrm_w; z2n_w; flds);
           replace W with (wabs T) by (unfold wabs; nrm_w; z2n_w; flds);
           rewrite (Hreflow T) by (unfold ZW; cbn [Types.cols Types.rows Types.acs]; lia)
         end
       end; unfold wres_flag; destruct (reflow _); cbn [wres]; nrm_c; flds.
Qed.
