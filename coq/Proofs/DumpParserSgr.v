(** Property C11, parser level: [Pen::dump] is a well-formed SGR control sequence; the parser
    dispatches it as [Sgr (sgr_ops ps)] for an explicit parameter list [ps]. *)

From Avt Require Import Model.Parser Model.Dump Spec.Williams Proofs.Inv Proofs.ParserTable
  Proofs.ParserInv Proofs.ParserSim Proofs.DumpParser.
Require Import Lia ZArith ZifyBool ZifyNat ZifyN.
Local Open Scope N_scope.
Ltac Zify.zify_post_hook ::= Z.div_mod_to_equations.

(** * SGR with sub-parameters *)

Lemma firstn_csi_params pss :
  pss <> [] -> firstn (S (length pss - 1)) (csi_params pss) = map mk_param pss.
Proof.
  intros NE. unfold csi_params.
  assert (0 < length pss)%nat by (destruct pss; [congruence|cbn [length]; lia]).
  replace (S (length pss - 1)) with (length (map mk_param pss) + 0)%nat by (rewrite map_length; lia).
  rewrite firstn_app_2. cbn [firstn]. apply app_nil_r.
Qed.

Theorem run_sgr : forall p intro pss,
  PInv p -> pst p = Ground -> intro_ok intro ->
  pss <> [] -> (length pss <= 32)%nat -> Forall (parts_ok PCsi) pss ->
  exists p', runP p (intro ++ params_body pss ++ [109]) = Ok (p', [Sgr (sgr_ops (map mk_param pss))])
    /\ pst p' = Ground /\ PInv p'.
Proof.
  intros p intro pss HP _ HI NE HL HF.
  destruct (run_csi_gen p intro None pss 109 HP HI I NE HL HF ltac:(lia)) as (p' & R & _ & H).
  exists p'. split; [|exact H]. unfold csi_seq in R. cbn [opt_to_list app] in R. rewrite R.
  change (csi_dispatch_gen None 109 (csi_params pss) (length pss - 1))
    with (Some (Sgr (sgr_ops (firstn (S (length pss - 1)) (csi_params pss))))).
  now rewrite firstn_csi_params.
Qed.
Print Assumptions run_sgr.

(** * [Pen::dump] *)

(** parameters (with sub-parameters) written for a colour *)
Definition color_parts (c : color) (base : N) : list N :=
  match c with
  | Indexed i =>
    if i <? SGRP_T1 then [base + i]
    else if i <? SGRP_T2 then [base + SGRP_O2 + i]
    else [base + SGRP_O3; 5; i]
  | RGB r g b => [base + SGRP_O4; 2; r; g; b]
  end.

Lemma sgr_params_parts c base : sgr_params c base = parts_str (color_parts c base).
Proof.
  destruct c as [i|r g b]; unfold sgr_params, color_parts.
  - destruct (i <? SGRP_T1); [reflexivity|]. destruct (i <? SGRP_T2); reflexivity.
  - reflexivity.
Qed.

Definition opt_parts (b : bool) (c : list N) : list (list N) := if b then [c] else [].

Definition pen_pss (p : pen) : list (list N) :=
  [0]
  :: (match foreground p with Some c => [color_parts c 30] | None => [] end)
  ++ (match background p with Some c => [color_parts c 40] | None => [] end)
  ++ (match intensity p with Normal => [] | Bold => [[1]] | Faint => [[2]] end)
  ++ opt_parts (pen_has ITALIC_MASK p) [3]
  ++ opt_parts (pen_has UNDERLINE_MASK p) [4]
  ++ opt_parts (pen_has BLINK_MASK p) [5]
  ++ opt_parts (pen_has INVERSE_MASK p) [7]
  ++ opt_parts (pen_has STRIKETHROUGH_MASK p) [9].

Definition tail_body (l : list (list N)) : list N := flat_map (fun c => 59 :: parts_str c) l.

Lemma params_body_tail : forall l c, params_body (c :: l) = parts_str c ++ tail_body l.
Proof.
  induction l as [|d l IH]; intros c.
  - unfold params_body. cbn [map join_with tail_body flat_map]. now rewrite app_nil_r.
  - unfold params_body in *. cbn [map]. rewrite join_with_cons2.
    specialize (IH d). cbn [map] in IH. rewrite IH. reflexivity.
Qed.

Lemma tail_body_app a b : tail_body (a ++ b) = tail_body a ++ tail_body b.
Proof. apply flat_map_app. Qed.

Theorem pen_dump_seq : forall p, pen_dump p = [27; 91] ++ params_body (pen_pss p) ++ [109].
Proof.
  intros p. unfold pen_dump, pen_pss. rewrite params_body_tail, !tail_body_app.
  change (parts_str [0]) with [48]. cbn [app]. do 3 f_equal. rewrite <- !app_assoc.
  f_equal; [destruct (foreground p) as [c|]; [cbn [tail_body flat_map]; now rewrite sgr_params_parts, app_nil_r|reflexivity]|].
  f_equal; [destruct (background p) as [c|]; [cbn [tail_body flat_map]; now rewrite sgr_params_parts, app_nil_r|reflexivity]|].
  f_equal; [destruct (intensity p); reflexivity|].
  f_equal; [destruct (pen_has ITALIC_MASK p); reflexivity|].
  f_equal; [destruct (pen_has UNDERLINE_MASK p); reflexivity|].
  f_equal; [destruct (pen_has BLINK_MASK p); reflexivity|].
  f_equal; [destruct (pen_has INVERSE_MASK p); reflexivity|].
  destruct (pen_has STRIKETHROUGH_MASK p); reflexivity.
Qed.
Print Assumptions pen_dump_seq.

(** colour components are bytes *)
Definition color_ok (c : color) : Prop :=
  match c with Indexed i => i < 256 | RGB r g b => r < 256 /\ g < 256 /\ b < 256 end.

Definition pen_colors_ok (p : pen) : Prop :=
  match foreground p with Some c => color_ok c | None => True end
  /\ match background p with Some c => color_ok c | None => True end.

Lemma color_parts_ok c base : color_ok c -> base <= 40 -> parts_ok PCsi (color_parts c base).
Proof.
  intros HC HB. unfold parts_ok, color_parts, SGRP_T1, SGRP_T2, SGRP_O2, SGRP_O3, SGRP_O4.
  destruct c as [i|r g b]; cbn [color_ok] in HC.
  - destruct (i <? 8) eqn:E1; [|destruct (i <? 16) eqn:E2]; cbn [length];
      (split; [lia|]); (split; [|exact I]); repeat constructor; lia.
  - cbn [length]. split; [lia|]. split; [|exact I]. repeat constructor; lia.
Qed.

Lemma single_ok n : n < 65536 -> parts_ok PCsi [n].
Proof. intros H. unfold parts_ok. cbn [length]. split; [lia|]. split; [now constructor|exact I]. Qed.

Lemma opt_parts_ok b n : n < 65536 -> Forall (parts_ok PCsi) (opt_parts b [n]).
Proof. intros H. destruct b; cbn [opt_parts]; [constructor; [now apply single_ok|constructor]|constructor]. Qed.

Lemma opt_parts_length b c : (length (opt_parts b c) <= 1)%nat.
Proof. destruct b; cbn; lia. Qed.

Lemma pen_pss_ok p : pen_colors_ok p ->
  pen_pss p <> [] /\ (length (pen_pss p) <= 32)%nat /\ Forall (parts_ok PCsi) (pen_pss p).
Proof.
  intros [HF HB]. unfold pen_pss. split; [discriminate|]. split.
  - cbn [length]. rewrite !app_length.
    pose proof (opt_parts_length (pen_has ITALIC_MASK p) [3]).
    pose proof (opt_parts_length (pen_has UNDERLINE_MASK p) [4]).
    pose proof (opt_parts_length (pen_has BLINK_MASK p) [5]).
    pose proof (opt_parts_length (pen_has INVERSE_MASK p) [7]).
    pose proof (opt_parts_length (pen_has STRIKETHROUGH_MASK p) [9]).
    destruct (foreground p), (background p), (intensity p); cbn [length]; lia.
  - constructor; [apply single_ok; lia|].
    repeat (apply Forall_app; split); try (apply opt_parts_ok; lia).
    + destruct (foreground p) as [c|]; constructor; [|constructor]. apply color_parts_ok; [exact HF|lia].
    + destruct (background p) as [c|]; constructor; [|constructor]. apply color_parts_ok; [exact HB|lia].
    + destruct (intensity p); repeat constructor; apply single_ok; lia.
Qed.

(** [Pen::dump] fed to a parser in ground state is one SGR function with these parameters *)
Theorem run_pen_dump : forall p pn,
  PInv p -> pst p = Ground -> pen_colors_ok pn ->
  exists p', runP p (pen_dump pn) = Ok (p', [Sgr (sgr_ops (map mk_param (pen_pss pn)))])
    /\ pst p' = Ground /\ PInv p'.
Proof.
  intros p pn HP HG HC. destruct (pen_pss_ok pn HC) as (NE & HL & HF).
  rewrite pen_dump_seq. apply run_sgr; auto. now right.
Qed.
Print Assumptions run_pen_dump.
