(** [Buffer::resize]: never panics, terminates (the fuelled loops of
    [relative_position] never exhaust their fuel and never index out of range),
    and re-establishes the buffer invariant with the new geometry.

    Main results: [buf_resize_ok], [buf_resize_same], and the necessity of the cursor-row
    precondition, [buf_resize_cursor_row_needed]. *)

From Avt Require Import Proofs.Inv Proofs.ReflowCore.
Require Import Lia ZArith ZifyBool ZifyNat.
Import ListNotations.

(** * [upd] at the last index *)

Lemma upd_last_snoc {A} (f : A -> A) (t : list A) :
  1 <= length t ->
  exists t0 x, t = t0 ++ [x] /\ upd (length t - 1) f t = t0 ++ [f x].
Proof.
  intros H.
  destruct (skipn (length t - 1) t) as [|x [|y r]] eqn:E.
  - apply (f_equal (@length A)) in E. rewrite skipn_length in E. cbn [length] in E. lia.
  - exists (firstn (length t - 1) t), x. split.
    + rewrite <- E. symmetry. apply firstn_skipn.
    + unfold upd. rewrite E. reflexivity.
  - apply (f_equal (@length A)) in E. rewrite skipn_length in E. cbn [length] in E. lia.
Qed.

Lemma Forall_firstn' {A} (P : A -> Prop) n (l : list A) :
  Forall P l -> Forall P (firstn n l).
Proof.
  intros H. rewrite <- (firstn_skipn n l) in H. apply Forall_app in H. apply H.
Qed.

(** * [logical_position] *)

Lemma logical_position_ok b pc pr c r :
  r <= length (lines b) -> exists lc lr, logical_position b pc pr c r = Ok (lc, lr).
Proof.
  intros H. unfold logical_position.
  replace (r <=? length (lines b)) with true by (symmetry; apply Nat.leb_le; exact H).
  cbn [guard bind].
  destruct (logpos_go _ _ _ _) as [off row]. eauto.
Qed.

(** * [relative_position] *)

(** first loop: [rel_row] climbs to [last_row] at most; the fuel [S (length ls)] is enough
    and the index is in range (no [Panic 41]) *)
Lemma relpos1_ok ls target last_row :
  last_row < length ls ->
  forall fuel r rel_row, rel_row <= last_row -> last_row - rel_row < fuel ->
  exists k, relpos1 fuel ls target last_row r rel_row = Ok k /\ k <= last_row.
Proof.
  intros Hl. induction fuel as [|f IH]; intros r rel_row H1 H2; [lia|].
  cbn [relpos1].
  destruct ((r <? target) && (rel_row <? last_row)) eqn:E.
  - assert (Hlt : rel_row < last_row) by lia.
    destruct (nth_error ls rel_row) as [l|] eqn:N.
    + apply IH; lia.
    + apply nth_error_None in N. lia.
  - eauto.
Qed.

(** second loop: every iteration subtracts [c >= 1] from [rel_col], so fuel [> rel_col]
    suffices; a wrapped line is never the last one, so the index stays in range
    (no [Panic 42]) *)
Lemma relpos2_ok ls c :
  1 <= c -> last_not_wrapped ls ->
  forall fuel rel_col rel_row, rel_row < length ls -> rel_col < fuel ->
  exists a k, relpos2 fuel ls c rel_col rel_row = Ok (a, k) /\ k < length ls.
Proof.
  intros Hc Hl. induction fuel as [|f IH]; intros rel_col rel_row H1 H2; [lia|].
  cbn [relpos2].
  destruct (c <=? rel_col) eqn:E.
  - apply Nat.leb_le in E.
    destruct (nth_error ls rel_row) as [l|] eqn:N.
    + destruct (wrapped l) eqn:W.
      * apply IH; [|lia].
        assert (rel_row <> length ls - 1).
        { intros ->. apply (lnw_nth_last ls l Hl) in N. congruence. }
        lia.
      * eauto.
    + apply nth_error_None in N. lia.
  - eauto.
Qed.

Lemma relative_position_ok ls pc pr c r :
  1 <= length ls -> r <= length ls -> 1 <= c -> last_not_wrapped ls ->
  exists rc rr, relative_position ls pc pr c r = Ok (rc, rr) /\ rc < c
    /\ (rr < Z.of_nat r)%Z /\ (- rr <= Z.of_nat (length ls - r))%Z.
Proof.
  intros H1 Hr Hc Hl. unfold relative_position.
  replace ((1 <=? length ls) && (r <=? length ls) && (1 <=? c)) with true by (symmetry; lia).
  cbn [guard bind].
  destruct (relpos1_ok ls pr (length ls - 1) ltac:(lia) (S (length ls)) 0 0) as (k & E & Hk);
    [lia|lia|].
  rewrite E. cbn [bind].
  destruct (relpos2_ok ls c Hc Hl (S (S (pc + length ls))) pc k) as (a & k2 & E2 & Hk2);
    [lia|lia|].
  rewrite E2. cbn [bind].
  eexists _, _. split; [reflexivity|]. lia.
Qed.

(** * [buf_resize] in three phases *)

(** phase 2: reflow and cursor translation (only when the width changes) *)
Definition resize_phase2 (b : buffer) (ncols : nat) (cc cr lc lr : nat)
  : res (list line * nat * nat * nat) :=
  let old_cols := bcols b in
  let old_rows := brows b in
  if negb (ncols =? old_cols) then
    ls <- reflowM (lines b) ncols ;;
    let line_count := length ls in
    let ls := if line_count <? old_rows
              then ls ++ repeat (blank_line ncols default_pen) (old_rows - line_count)
              else ls in
    '(rc, rr) <- relative_position ls lc lr ncols old_rows ;;
    if (0 <=? rr)%Z then Ok (ls, rc, Z.to_nat rr, old_rows)
    else Ok (ls, rc, 0, old_rows + Z.to_nat (- rr))
  else Ok (lines b, cc, cr, old_rows).

(** phase 3: adjust the number of rows *)
Definition resize_phase3 (ncols nrows : nat) (ls1 : list line) (cr1 old_rows1 : nat)
  : res (list line * nat) :=
  let line_count := length ls1 in
  match Nat.compare nrows old_rows1 with
  | Lt =>
    let height_delta := old_rows1 - nrows in
    _ <- guard (cr1 + 1 <=? old_rows1) 44 ;;
    let inverted_cursor_row := old_rows1 - 1 - cr1 in
    let excess := Nat.min height_delta inverted_cursor_row in
    ls' <- (if 0 <? excess then
              _ <- guard (excess <=? line_count) 45 ;;
              let t := firstn (line_count - excess) ls1 in
              _ <- guard (1 <=? length t) 46 ;;
              Ok (upd (length t - 1) (fun l => l <| wrapped := false |>) t)
            else Ok ls1) ;;
    _ <- guard (height_delta - excess <=? cr1) 47 ;;
    Ok (ls', cr1 - (height_delta - excess))
  | Gt =>
    let height_delta := nrows - old_rows1 in
    let scrollback_size := line_count - Nat.min old_rows1 line_count in
    let cursor_row_shift := Nat.min scrollback_size height_delta in
    let height_delta := height_delta - cursor_row_shift in
    let cr' := if cr1 <? old_rows1 then cr1 + cursor_row_shift else cr1 in
    let ls' := if 0 <? height_delta
               then ls1 ++ repeat (blank_line ncols default_pen) height_delta
               else ls1 in
    Ok (ls', cr')
  | Eq => Ok (ls1, cr1)
  end.

Lemma buf_resize_eq b nc nr cc cr :
  buf_resize b nc nr cc cr =
  ('(lc, lr) <- logical_position b cc cr (bcols b) (brows b) ;;
   '(ls1, cc1, cr1, old_rows1) <- resize_phase2 b nc cc cr lc lr ;;
   '(ls2, cr2) <- resize_phase3 nc nr ls1 cr1 old_rows1 ;;
   Ok (b <| lines := ls2 |> <| bcols := nc |> <| brows := nr |> <| trim_needed := true |>,
       (cc1, cr2))).
Proof. reflexivity. Qed.

Lemma resize_phase2_ok b nc cc cr lc lr :
  BInv b -> 1 <= nc ->
  exists ls1 cc1 cr1 r1,
    resize_phase2 b nc cc cr lc lr = Ok (ls1, cc1, cr1, r1) /\
    r1 <= length ls1 /\ Forall (LineInv nc) ls1 /\ last_not_wrapped ls1 /\
    (nc <> bcols b -> cc1 < nc /\ cr1 < r1) /\
    (nc = bcols b -> cc1 = cc /\ cr1 = cr /\ r1 = brows b).
Proof.
  intros ((Hc & Hr & Hlen & Hall) & Hlnw) Hnc. unfold resize_phase2.
  destruct (nc =? bcols b) eqn:E; cbn [negb].
  - apply Nat.eqb_eq in E. exists (lines b), cc, cr, (brows b).
    split; [reflexivity|]. rewrite E.
    split; [exact Hlen|]. split; [exact Hall|]. split; [exact Hlnw|].
    split; [congruence|auto].
  - apply Nat.eqb_neq in E.
    destruct (reflow_total (lines b) nc Hnc) as (out & Eo & Fo & _ & Lo).
    rewrite Eo. cbn [bind]. specialize (Lo Hlnw).
    set (ls := if length out <? brows b then _ else out).
    assert (P : brows b <= length ls /\ Forall (LineInv nc) ls /\ last_not_wrapped ls).
    { unfold ls. destruct (length out <? brows b) eqn:Lt.
      - apply Nat.ltb_lt in Lt. rewrite app_length, repeat_length.
        split; [lia|]. split.
        + apply Forall_app. split; [exact Fo|]. apply Forall_forall.
          intros x Hx. apply repeat_spec in Hx. subst x. apply LineInv_blank.
        + apply lnw_app_repeat; [exact Lo|reflexivity].
      - apply Nat.ltb_ge in Lt. auto. }
    clearbody ls. destruct P as (P1 & P2 & P3).
    destruct (relative_position_ok ls lc lr nc (brows b)) as (rc & rr & Er & R1 & R2 & R3);
      [lia|exact P1|exact Hnc|exact P3|].
    rewrite Er. cbn [bind].
    destruct (0 <=? rr)%Z eqn:Z0.
    + eexists _, _, _, _. split; [reflexivity|].
      split; [exact P1|]. split; [exact P2|]. split; [exact P3|].
      split; [intros _; split; [exact R1|lia] | intros e; congruence].
    + eexists _, _, _, _. split; [reflexivity|].
      split; [lia|]. split; [exact P2|]. split; [exact P3|].
      split; [intros _; split; [exact R1|lia] | intros e; congruence].
Qed.

Lemma resize_phase3_ok nc nr ls1 cr1 r1 :
  1 <= nr -> r1 <= length ls1 -> Forall (LineInv nc) ls1 -> last_not_wrapped ls1 ->
  (nr < r1 -> cr1 < r1) ->
  exists ls2 cr2, resize_phase3 nc nr ls1 cr1 r1 = Ok (ls2, cr2) /\
    nr <= length ls2 /\ Forall (LineInv nc) ls2 /\ last_not_wrapped ls2 /\
    (cr1 < Nat.max r1 nr -> cr2 < nr).
Proof.
  intros Hnr Hlen Hall Hlnw Hcr. unfold resize_phase3.
  destruct (Nat.compare_spec nr r1) as [Heq|Hlt|Hgt].
  - (* same height *)
    exists ls1, cr1. split; [reflexivity|]. repeat split; [lia|exact Hall|exact Hlnw|lia].
  - (* shrink *)
    specialize (Hcr Hlt).
    replace (cr1 + 1 <=? r1) with true by (symmetry; lia). cbn [guard bind].
    set (excess := Nat.min (r1 - nr) (r1 - 1 - cr1)).
    replace (r1 - nr - excess <=? cr1) with true by (symmetry; unfold excess; lia).
    destruct (0 <? excess) eqn:Ex.
    + replace (excess <=? length ls1) with true by (symmetry; unfold excess; lia).
      cbn [guard bind].
      set (t := firstn (length ls1 - excess) ls1).
      assert (Tl : length t = length ls1 - excess).
      { unfold t. rewrite firstn_length. lia. }
      assert (Tf : Forall (LineInv nc) t).
      { unfold t. apply Forall_firstn'. exact Hall. }
      clearbody t.
      replace (1 <=? length t) with true by (symmetry; unfold excess in *; lia).
      cbn [guard bind].
      destruct (upd_last_snoc (fun l => l <| wrapped := false |>) t) as (t0 & x & Et & Eu);
        [unfold excess in *; lia|].
      rewrite Eu. eexists _, _. split; [reflexivity|].
      rewrite Et in Tl, Tf. rewrite app_length in *. cbn [length] in *.
      apply Forall_app in Tf. destruct Tf as (Tf0 & Tfx).
      repeat split.
      * unfold excess in *. lia.
      * apply Forall_app. split; [exact Tf0|]. constructor; [|constructor].
        apply LineInv_set_wrapped. exact (Forall_inv Tfx).
      * apply lnw_snoc. apply wrapped_set_wrapped.
      * unfold excess. lia.
    + cbn [guard bind]. eexists _, _. split; [reflexivity|].
      repeat split; [unfold excess in *; lia|exact Hall|exact Hlnw|unfold excess in *; lia].
  - (* grow *)
    eexists _, _. split; [reflexivity|].
    set (shift := Nat.min (length ls1 - Nat.min r1 (length ls1)) (nr - r1)).
    repeat split.
    + destruct (0 <? nr - r1 - shift) eqn:D.
      * rewrite app_length, repeat_length. unfold shift. lia.
      * unfold shift in D. lia.
    + destruct (0 <? nr - r1 - shift).
      * apply Forall_app. split; [exact Hall|]. apply Forall_forall.
        intros x Hx. apply repeat_spec in Hx. subst x. apply LineInv_blank.
      * exact Hall.
    + destruct (0 <? nr - r1 - shift).
      * apply lnw_app_repeat; [exact Hlnw|reflexivity].
      * exact Hlnw.
    + destruct (cr1 <? r1) eqn:C; unfold shift; lia.
Qed.

(** * 3. [Buffer::resize] is total and re-establishes the invariant.

    [buf_resize_total] (property C01/C02 for resize): the exact condition for not panicking is
      [nc = bcols b -> nr < brows b -> cr < brows b]
    (see [buf_resize_panic_44] for the converse).  Nothing is required of the cursor when the
    width changes (it is recomputed and clamped), and nothing at all is required of [cc].
    The new cursor row lies inside the new view as soon as [cr < max (brows b) nr]
    (and always when the width changes). *)
Theorem buf_resize_total : forall b nc nr cc cr,
  BInv b -> 1 <= nc -> 1 <= nr ->
  (nc = bcols b -> nr < brows b -> cr < brows b) ->
  exists b' cc' cr',
    buf_resize b nc nr cc cr = Ok (b', (cc', cr')) /\
    BInv b' /\ bcols b' = nc /\ brows b' = nr /\ blimit b' = blimit b /\
    trim_needed b' = true /\
    (nc <> bcols b -> cc' < nc /\ cr' < nr) /\ (nc = bcols b -> cc' = cc) /\
    (cr < Nat.max (brows b) nr -> cr' < nr).
Proof.
  intros b nc nr cc cr HI Hnc Hnr Hcr. rewrite buf_resize_eq.
  destruct (logical_position_ok b cc cr (bcols b) (brows b)) as (lc & lr & El).
  { destruct HI as ((_ & _ & H & _) & _). exact H. }
  rewrite El. cbn [bind].
  destruct (resize_phase2_ok b nc cc cr lc lr HI Hnc)
    as (ls1 & cc1 & cr1 & r1 & E2 & A1 & A2 & A3 & A4 & A5).
  rewrite E2. cbn [bind].
  assert (A6 : nr < r1 -> cr1 < r1).
  { destruct (Nat.eq_dec nc (bcols b)) as [e|n].
    - destruct (A5 e) as (_ & -> & ->). apply Hcr. exact e.
    - intros _. apply A4. exact n. }
  destruct (resize_phase3_ok nc nr ls1 cr1 r1 Hnr A1 A2 A3 A6)
    as (ls2 & cr2 & E3 & B1 & B2 & B3 & B4).
  rewrite E3. cbn [bind].
  eexists _, _, _. split; [reflexivity|].
  assert (C1 : nc <> bcols b -> cc1 < nc /\ cr2 < nr).
  { intros n. destruct (A4 n) as (X & Y). split; [exact X|]. apply B4. lia. }
  assert (C2 : nc = bcols b -> cc1 = cc).
  { intros e. apply A5. exact e. }
  assert (C3 : cr < Nat.max (brows b) nr -> cr2 < nr).
  { intros H. destruct (Nat.eq_dec nc (bcols b)) as [e|n].
    - destruct (A5 e) as (_ & X & Y). apply B4. rewrite X, Y. exact H.
    - apply C1. exact n. }
  destruct b as [bl bc br blim btn]. cbn in C1, C2, C3 |- *.
  split.
  { split; [|exact B3]. split; [exact Hnc|]. split; [exact Hnr|]. split; [exact B1|exact B2]. }
  repeat (split; [reflexivity|]).
  split; [exact C1|]. split; [exact C2|exact C3].
Qed.

Print Assumptions buf_resize_total.

(** the converse: with unchanged width, fewer rows and a cursor row outside the old view,
    [old_rows - 1 - cursor.row] underflows (site 44).  Hence the hypothesis of
    [buf_resize_total] is exactly the condition for not panicking. *)
Theorem buf_resize_panic_44 : forall b nr cc cr,
  brows b <= length (lines b) -> nr < brows b -> brows b <= cr ->
  buf_resize b (bcols b) nr cc cr = Panic 44.
Proof.
  intros b nr cc cr H Hlt Hcr. rewrite buf_resize_eq.
  destruct (logical_position_ok b cc cr (bcols b) (brows b) H) as (lc & lr & El).
  rewrite El. cbn [bind]. unfold resize_phase2. rewrite Nat.eqb_refl. cbn [negb bind].
  unfold resize_phase3.
  destruct (Nat.compare_spec nr (brows b)) as [Heq|_|Hgt]; [lia| |lia].
  replace (cr + 1 <=? brows b) with false by (symmetry; lia). reflexivity.
Qed.

Print Assumptions buf_resize_panic_44.

(** Precondition on the cursor for the full postcondition: nothing when the width changes;
    when the width stays the same, only [cr < max (brows b) nr].  No bound on [cc].
    Both caller situations (i) [cr < brows b] and (ii) [cr < nr] (stale buffer, cursor in
    the new geometry) are covered; [buf_resize_cursor_row_needed] below shows that the row
    condition is necessary for [cr' < nr]. *)
Theorem buf_resize_ok' : forall b nc nr cc cr,
  BInv b -> 1 <= nc -> 1 <= nr ->
  (nc = bcols b -> cr < Nat.max (brows b) nr) ->
  exists b' cc' cr',
    buf_resize b nc nr cc cr = Ok (b', (cc', cr')) /\
    BInv b' /\ bcols b' = nc /\ brows b' = nr /\ blimit b' = blimit b /\
    trim_needed b' = true /\ cr' < nr /\
    (nc <> bcols b -> cc' < nc) /\ (nc = bcols b -> cc' = cc).
Proof.
  intros b nc nr cc cr HI Hnc Hnr Hcr.
  destruct (buf_resize_total b nc nr cc cr HI Hnc Hnr)
    as (b' & cc' & cr' & E & I' & G1 & G2 & G3 & G4 & G5 & G6 & G7).
  { intros e L. specialize (Hcr e). lia. }
  exists b', cc', cr'. split; [exact E|].
  split; [exact I'|]. split; [exact G1|]. split; [exact G2|]. split; [exact G3|].
  split; [exact G4|].
  split; [|split; [intros n; apply G5; exact n|exact G6]].
  destruct (Nat.eq_dec nc (bcols b)) as [e|n].
  - apply G7. apply Hcr. exact e.
  - apply G5. exact n.
Qed.

Print Assumptions buf_resize_ok'.

(** the statement as requested (the hypothesis on [cc] is not used) *)
Theorem buf_resize_ok : forall b nc nr cc cr,
  BInv b -> 1 <= nc -> 1 <= nr ->
  cr < Nat.max (brows b) nr -> cc <= Nat.max (bcols b) nc ->
  exists b' cc' cr',
    buf_resize b nc nr cc cr = Ok (b', (cc', cr')) /\
    BInv b' /\ bcols b' = nc /\ brows b' = nr /\ blimit b' = blimit b /\
    trim_needed b' = true /\ cr' < nr /\
    (nc <> bcols b -> cc' < nc) /\ (nc = bcols b -> cc' = cc).
Proof.
  intros b nc nr cc cr HI Hnc Hnr Hcr _. apply buf_resize_ok'; auto.
Qed.

Print Assumptions buf_resize_ok.

(** the row condition of [buf_resize_ok'] is necessary: with unchanged width and
    [cr >= max (brows b) nr], the call either panics at the usize underflow
    [old_rows - 1 - cursor.row] (site 44) or hands back a cursor row outside the new view *)
Theorem buf_resize_cursor_row_needed : forall b nr cc cr,
  BInv b -> 1 <= nr -> Nat.max (brows b) nr <= cr ->
  match buf_resize b (bcols b) nr cc cr with
  | Ok (_, (_, cr')) => nr <= cr'
  | Panic s => s = 44 /\ nr < brows b
  end.
Proof.
  intros b nr cc cr HI Hnr Hcr. rewrite buf_resize_eq.
  destruct (logical_position_ok b cc cr (bcols b) (brows b)) as (lc & lr & El).
  { destruct HI as ((_ & _ & H & _) & _). exact H. }
  rewrite El. cbn [bind]. unfold resize_phase2. rewrite Nat.eqb_refl. cbn [negb bind].
  unfold resize_phase3.
  destruct (Nat.compare_spec nr (brows b)) as [Heq|Hlt|Hgt].
  - cbn [bind]. lia.
  - replace (cr + 1 <=? brows b) with false by (symmetry; lia). cbn [guard bind]. auto.
  - cbn [bind]. replace (cr <? brows b) with false by (symmetry; lia). lia.
Qed.

Print Assumptions buf_resize_cursor_row_needed.

(** * 4. Resizing to the same geometry only sets the lazy-trim flag.
    (Only [brows b <= length (lines b)] is used; the cursor is arbitrary.) *)
Theorem buf_resize_same' : forall b cc cr,
  brows b <= length (lines b) ->
  buf_resize b (bcols b) (brows b) cc cr = Ok (b <| trim_needed := true |>, (cc, cr)).
Proof.
  intros b cc cr H. rewrite buf_resize_eq.
  destruct (logical_position_ok b cc cr (bcols b) (brows b) H) as (lc & lr & El).
  rewrite El. cbn [bind]. unfold resize_phase2. rewrite Nat.eqb_refl. cbn [negb bind].
  unfold resize_phase3. rewrite Nat.compare_refl. cbn [bind].
  destruct b; reflexivity.
Qed.

Print Assumptions buf_resize_same'.

Theorem buf_resize_same : forall b cc cr,
  BInv b -> cr < brows b ->
  buf_resize b (bcols b) (brows b) cc cr = Ok (b <| trim_needed := true |>, (cc, cr)).
Proof.
  intros b cc cr ((_ & _ & H & _) & _) _. apply buf_resize_same'. exact H.
Qed.

Print Assumptions buf_resize_same.
