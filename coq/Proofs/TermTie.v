(** The tie between the hand-written control functions of Model/Terminal.v and the Gallina
    regenerated from src/terminal.rs (Gen/TermFns.v, by translate/term2coq.py).

    [zabs] abstracts a model terminal to the record of scalar fields the regenerated code works on.
    For every regenerated function [g_f] one theorem says: under the scalar invariant [TScal] the Rust
    function neither underflows an unsigned subtraction nor casts a negative value to usize
    ([ok = true]), and it computes exactly what the hand-written model function computes. *)

(* The proofs live in Proofs/TermTie_Core.v (definitions, tactics) and two leaf files compiled in parallel. *)
From Avt Require Export Proofs.TermTie_Core Proofs.TermTie_Scalar Proofs.TermTie_Events.
