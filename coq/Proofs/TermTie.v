(** The tie between the hand-written control functions of Model/Terminal.v and the Gallina
    regenerated from src/terminal.rs (Gen/TermFns.v, by translate/term2coq.py).

    [zabs] abstracts a model terminal to the record of scalar fields the regenerated code works on.
    For every regenerated function [g_f] one theorem says: under the scalar invariant [TScal] the Rust
    function neither underflows an unsigned subtraction nor casts a negative value to usize
    ([ok = true]), and it computes exactly what the hand-written model function computes. *)

From Coq Require Import Lia ZArith ZifyBool ZifyNat ZifyN.
From Avt Require Import Oracles.Step Proofs.Inv Proofs.TermEasy Gen.TermFns.
Ltac Zify.zify_post_hook ::= Z.div_mod_to_equations.
Local Open Scope Z_scope.

Definition zabs (t : term) : zt := {|
  z_cols := Z.of_nat (cols t); z_rows := Z.of_nat (rows t);
  z_col := Z.of_nat (cur_col t); z_row := Z.of_nat (cur_row t);
  z_pend := pend t; z_top := Z.of_nat (top t); z_bot := Z.of_nat (bot t);
  z_org := org t; z_nlm := nlm t; z_acs := Z.of_nat (acs t);
  z_cs0 := cs0 t; z_cs1 := cs1 t; z_ins := ins t; z_awm := awm t; z_vis := cur_vis t; z_ckm := ckm t; z_ev := []
|}.

Local Arguments Z.add : simpl never.
Local Arguments Z.sub : simpl never.
Local Arguments Z.opp : simpl never.
Local Arguments Z.mul : simpl never.
Local Arguments Z.leb : simpl never.
Local Arguments Z.ltb : simpl never.
Local Arguments Z.eqb : simpl never.
Local Arguments Z.min : simpl never.
Local Arguments Z.max : simpl never.
Local Arguments Z.of_nat : simpl never.
Local Arguments Z.of_N : simpl never.
Local Arguments Z.to_nat : simpl never.
Local Arguments N.eqb : simpl never.
Local Arguments N.to_nat : simpl never.
Local Arguments Nat.sub : simpl never.
Local Arguments Nat.add : simpl never.
Local Arguments Nat.min : simpl never.
Local Arguments Nat.max : simpl never.
Local Arguments Nat.leb : simpl never.
Local Arguments Nat.ltb : simpl never.
Local Arguments Nat.eqb : simpl never.

(** split on every [if], innermost conditions first *)
Ltac brk :=
  repeat match goal with
         | |- context [if ?b then _ else _] =>
           lazymatch b with
           | context [if _ then _ else _] => fail
           | _ => destruct b eqn:?
           end
         end.

(** normalise everything except arithmetic (call-by-need: nested record updates stay cheap) *)
Ltac nrm :=
  lazy -[Z.add Z.sub Z.opp Z.mul Z.leb Z.ltb Z.eqb Z.min Z.max Z.of_nat Z.of_N Z.to_nat Z.le Z.lt
         N.eqb N.to_nat Nat.sub Nat.add Nat.min Nat.max Nat.leb Nat.ltb Nat.eqb Nat.lt andb orb negb].

(** close a goal [(z1, ok) = (z2, true)] between explicit records *)
Ltac fin :=
  first [ exfalso; lia
        | apply pair_equal_spec; split; [ f_equal; try reflexivity; lia | try reflexivity; lia ] ].

(** unfold both sides completely, split on every comparison, finish with [lia] *)
Ltac tie t H :=
  destruct t;
  let a := fresh "Hcols" in let b := fresh "Hrows" in let c := fresh "Hrow" in
  let d := fresh "Hcol" in let e := fresh "Hpend" in let f := fresh "Hmar" in
  destruct H as [a b c d e f];
  cbn [Types.cols Types.rows Types.cur_row Types.cur_col Types.pend Types.top Types.bot] in a, b, c, d, e, f;
  nrm; repeat (progress brk; nrm); fin.

Lemma tie_of_eq (p : zt * bool) (z' : zt) :
  p = (z', true) -> let '(z, ok) := p in ok = true /\ z' = z.
Proof. intros ->. split; reflexivity. Qed.

(** * the equations: regenerated function on the abstraction = abstraction of the model function *)

Lemma g_as_usize_eq n d : g_as_usize (Z.of_N n) (Z.of_nat d) = (Z.of_nat (as_usize n d), true).
Proof.
  unfold g_as_usize, as_usize, as_usize_gen. destruct (N.eqb_spec n 0), (Z.eqb_spec (Z.of_N n) 0); try lia; apply pair_equal_spec; split; try reflexivity; lia.
Qed.

Lemma g_do_move_cursor_to_col_eq t c :
  g_do_move_cursor_to_col (zabs t) (Z.of_nat c) = (zabs (do_move_cursor_to_col t c), true).
Proof. destruct t; reflexivity. Qed.

Lemma g_move_cursor_to_col_eq t c : TScal t ->
  g_move_cursor_to_col (zabs t) (Z.of_nat c) = (zabs (move_cursor_to_col t c), true).
Proof. intros H. tie t H. Qed.

Lemma g_do_move_cursor_to_row_eq t r : TScal t ->
  g_do_move_cursor_to_row (zabs t) (Z.of_nat r) = (zabs (do_move_cursor_to_row t r), true).
Proof. intros H. tie t H. Qed.

Lemma g_actual_top_margin_eq t :
  g_actual_top_margin (zabs t) = (Z.of_nat (actual_top_margin t), true).
Proof. destruct t; nrm. destruct org; reflexivity. Qed.

Lemma g_actual_bottom_margin_eq t : TScal t ->
  g_actual_bottom_margin (zabs t) = (Z.of_nat (actual_bottom_margin t), true).
Proof.
  intros H. tie t H.
Qed.

Lemma g_move_cursor_to_row_eq t r : TScal t ->
  g_move_cursor_to_row (zabs t) (Z.of_nat r) = (zabs (move_cursor_to_row t r), true).
Proof. intros H. tie t H. Qed.

Lemma g_move_cursor_to_rel_col_eq t r : TScal t ->
  g_move_cursor_to_rel_col (zabs t) r = (zabs (move_cursor_to_rel_col t r), true).
Proof. intros H. tie t H. Qed.

Lemma g_move_cursor_home_eq t : TScal t ->
  g_move_cursor_home (zabs t) = (zabs (move_cursor_home t), true).
Proof. intros H. tie t H. Qed.

Lemma g_cursor_down_eq t n : TScal t ->
  g_cursor_down (zabs t) (Z.of_nat n) = (zabs (cursor_down t n), true).
Proof. intros H. tie t H. Qed.

Lemma g_cursor_up_eq t n : TScal t ->
  g_cursor_up (zabs t) (Z.of_nat n) = (zabs (cursor_up t n), true).
Proof. intros H. tie t H. Qed.

Lemma g_bs_eq t : TScal t -> g_bs (zabs t) = (zabs (bs t), true).
Proof. intros H. tie t H. Qed.

Lemma g_cr_eq t : g_cr (zabs t) = (zabs (do_move_cursor_to_col t 0%nat), true).
Proof. destruct t; reflexivity. Qed.

Lemma g_so_eq t : g_so (zabs t) = (zabs (t <| acs := 1%nat |>), true).
Proof. destruct t; reflexivity. Qed.

Lemma g_si_eq t : g_si (zabs t) = (zabs (t <| acs := 0%nat |>), true).
Proof. destruct t; reflexivity. Qed.

Lemma g_gzd4_eq t c : g_gzd4 (zabs t) c = (zabs (t <| cs0 := c |>), true).
Proof. destruct t; reflexivity. Qed.

Lemma g_g1d4_eq t c : g_g1d4 (zabs t) c = (zabs (t <| cs1 := c |>), true).
Proof. destruct t; reflexivity. Qed.

Lemma g_cuu_eq t n : TScal t -> g_cuu (zabs t) (Z.of_N n) = (zabs (cursor_up t (as_usize n 1%nat)), true).
Proof. intros H. tie t H. Qed.

Lemma g_cud_eq t n : TScal t -> g_cud (zabs t) (Z.of_N n) = (zabs (cursor_down t (as_usize n 1%nat)), true).
Proof. intros H. tie t H. Qed.

Lemma g_vpr_eq t n : TScal t -> g_vpr (zabs t) (Z.of_N n) = (zabs (cursor_down t (as_usize n 1%nat)), true).
Proof. intros H. tie t H. Qed.

Lemma g_cuf_eq t n : TScal t ->
  g_cuf (zabs t) (Z.of_N n) = (zabs (move_cursor_to_rel_col t (Z.of_nat (as_usize n 1%nat))), true).
Proof. intros H. tie t H. Qed.

Lemma g_cub_eq t n : TScal t -> g_cub (zabs t) (Z.of_N n) = (zabs (cub t n), true).
Proof. intros H. tie t H. Qed.

Lemma g_cnl_eq t n : TScal t ->
  g_cnl (zabs t) (Z.of_N n) = (zabs (do_move_cursor_to_col (cursor_down t (as_usize n 1%nat)) 0%nat), true).
Proof. intros H. tie t H. Qed.

Lemma g_cpl_eq t n : TScal t ->
  g_cpl (zabs t) (Z.of_N n) = (zabs (do_move_cursor_to_col (cursor_up t (as_usize n 1%nat)) 0%nat), true).
Proof. intros H. tie t H. Qed.

Lemma g_cha_eq t n : TScal t ->
  g_cha (zabs t) (Z.of_N n) = (zabs (move_cursor_to_col t ((as_usize n 1 - 1)%nat)), true).
Proof. intros H. tie t H. Qed.

Lemma g_vpa_eq t n : TScal t ->
  g_vpa (zabs t) (Z.of_N n) = (zabs (move_cursor_to_row t ((as_usize n 1 - 1)%nat)), true).
Proof. intros H. tie t H. Qed.

Lemma g_cup_eq t r c : TScal t -> g_cup (zabs t) (Z.of_N r) (Z.of_N c) = (zabs (cup t r c), true).
Proof. intros H. tie t H. Qed.

Lemma g_decstbm_eq t a b : TScal t -> g_decstbm (zabs t) (Z.of_N a) (Z.of_N b) = (zabs (decstbm t a b), true).
Proof. intros H. tie t H. Qed.

(** * the tie theorems, one per Rust function *)

Theorem tie_as_usize : forall n d,
  let '(v, ok) := g_as_usize (Z.of_N n) (Z.of_nat d) in ok = true /\ Z.of_nat (as_usize n d) = v.
Proof. intros n d. rewrite g_as_usize_eq. split; reflexivity. Qed.
Print Assumptions tie_as_usize.

Theorem tie_actual_top_margin : forall t,
  let '(v, ok) := g_actual_top_margin (zabs t) in ok = true /\ Z.of_nat (actual_top_margin t) = v.
Proof. intros t. rewrite g_actual_top_margin_eq. split; reflexivity. Qed.
Print Assumptions tie_actual_top_margin.

Theorem tie_actual_bottom_margin : forall t, TScal t ->
  let '(v, ok) := g_actual_bottom_margin (zabs t) in ok = true /\ Z.of_nat (actual_bottom_margin t) = v.
Proof. intros t H. rewrite g_actual_bottom_margin_eq by exact H. split; reflexivity. Qed.
Print Assumptions tie_actual_bottom_margin.

Theorem tie_do_move_cursor_to_col : forall t c,
  let '(z, ok) := g_do_move_cursor_to_col (zabs t) (Z.of_nat c) in
  ok = true /\ zabs (do_move_cursor_to_col t c) = z.
Proof. intros t c. exact (tie_of_eq _ _ (g_do_move_cursor_to_col_eq t c)). Qed.
Print Assumptions tie_do_move_cursor_to_col.

Theorem tie_move_cursor_to_col : forall t c, TScal t ->
  let '(z, ok) := g_move_cursor_to_col (zabs t) (Z.of_nat c) in
  ok = true /\ zabs (move_cursor_to_col t c) = z.
Proof. intros t c H. exact (tie_of_eq _ _ (g_move_cursor_to_col_eq t c H)). Qed.
Print Assumptions tie_move_cursor_to_col.

Theorem tie_do_move_cursor_to_row : forall t r, TScal t ->
  let '(z, ok) := g_do_move_cursor_to_row (zabs t) (Z.of_nat r) in
  ok = true /\ zabs (do_move_cursor_to_row t r) = z.
Proof. intros t r H. exact (tie_of_eq _ _ (g_do_move_cursor_to_row_eq t r H)). Qed.
Print Assumptions tie_do_move_cursor_to_row.

Theorem tie_move_cursor_to_row : forall t r, TScal t ->
  let '(z, ok) := g_move_cursor_to_row (zabs t) (Z.of_nat r) in
  ok = true /\ zabs (move_cursor_to_row t r) = z.
Proof. intros t r H. exact (tie_of_eq _ _ (g_move_cursor_to_row_eq t r H)). Qed.
Print Assumptions tie_move_cursor_to_row.

Theorem tie_move_cursor_to_rel_col : forall t (r : Z), TScal t ->
  let '(z, ok) := g_move_cursor_to_rel_col (zabs t) r in
  ok = true /\ zabs (move_cursor_to_rel_col t r) = z.
Proof. intros t r H. exact (tie_of_eq _ _ (g_move_cursor_to_rel_col_eq t r H)). Qed.
Print Assumptions tie_move_cursor_to_rel_col.

Theorem tie_move_cursor_home : forall t, TScal t ->
  let '(z, ok) := g_move_cursor_home (zabs t) in ok = true /\ zabs (move_cursor_home t) = z.
Proof. intros t H. exact (tie_of_eq _ _ (g_move_cursor_home_eq t H)). Qed.
Print Assumptions tie_move_cursor_home.

Theorem tie_cursor_down : forall t n, TScal t ->
  let '(z, ok) := g_cursor_down (zabs t) (Z.of_nat n) in ok = true /\ zabs (cursor_down t n) = z.
Proof. intros t n H. exact (tie_of_eq _ _ (g_cursor_down_eq t n H)). Qed.
Print Assumptions tie_cursor_down.

Theorem tie_cursor_up : forall t n, TScal t ->
  let '(z, ok) := g_cursor_up (zabs t) (Z.of_nat n) in ok = true /\ zabs (cursor_up t n) = z.
Proof. intros t n H. exact (tie_of_eq _ _ (g_cursor_up_eq t n H)). Qed.
Print Assumptions tie_cursor_up.

Theorem tie_bs : forall t, TScal t ->
  let '(z, ok) := g_bs (zabs t) in ok = true /\ zabs (bs t) = z.
Proof. intros t H. exact (tie_of_eq _ _ (g_bs_eq t H)). Qed.
Print Assumptions tie_bs.

Theorem tie_cr : forall t,
  let '(z, ok) := g_cr (zabs t) in ok = true /\ zabs (do_move_cursor_to_col t 0%nat) = z.
Proof. intros t. exact (tie_of_eq _ _ (g_cr_eq t)). Qed.
Print Assumptions tie_cr.

Theorem tie_so : forall t,
  let '(z, ok) := g_so (zabs t) in ok = true /\ zabs (t <| acs := 1%nat |>) = z.
Proof. intros t. exact (tie_of_eq _ _ (g_so_eq t)). Qed.
Print Assumptions tie_so.

Theorem tie_si : forall t,
  let '(z, ok) := g_si (zabs t) in ok = true /\ zabs (t <| acs := 0%nat |>) = z.
Proof. intros t. exact (tie_of_eq _ _ (g_si_eq t)). Qed.
Print Assumptions tie_si.

Theorem tie_gzd4 : forall t c,
  let '(z, ok) := g_gzd4 (zabs t) c in ok = true /\ zabs (t <| cs0 := c |>) = z.
Proof. intros t c. exact (tie_of_eq _ _ (g_gzd4_eq t c)). Qed.
Print Assumptions tie_gzd4.

Theorem tie_g1d4 : forall t c,
  let '(z, ok) := g_g1d4 (zabs t) c in ok = true /\ zabs (t <| cs1 := c |>) = z.
Proof. intros t c. exact (tie_of_eq _ _ (g_g1d4_eq t c)). Qed.
Print Assumptions tie_g1d4.

(** the functions taking the raw u16 parameter *)
Theorem tie_cuu : forall t (n : N), TScal t ->
  let '(z, ok) := g_cuu (zabs t) (Z.of_N n) in ok = true /\ zabs (cursor_up t (as_usize n 1%nat)) = z.
Proof. intros t n H. exact (tie_of_eq _ _ (g_cuu_eq t n H)). Qed.
Print Assumptions tie_cuu.

Theorem tie_cud : forall t (n : N), TScal t ->
  let '(z, ok) := g_cud (zabs t) (Z.of_N n) in ok = true /\ zabs (cursor_down t (as_usize n 1%nat)) = z.
Proof. intros t n H. exact (tie_of_eq _ _ (g_cud_eq t n H)). Qed.
Print Assumptions tie_cud.

Theorem tie_vpr : forall t (n : N), TScal t ->
  let '(z, ok) := g_vpr (zabs t) (Z.of_N n) in ok = true /\ zabs (cursor_down t (as_usize n 1%nat)) = z.
Proof. intros t n H. exact (tie_of_eq _ _ (g_vpr_eq t n H)). Qed.
Print Assumptions tie_vpr.

Theorem tie_cuf : forall t (n : N), TScal t ->
  let '(z, ok) := g_cuf (zabs t) (Z.of_N n) in
  ok = true /\ zabs (move_cursor_to_rel_col t (Z.of_nat (as_usize n 1%nat))) = z.
Proof. intros t n H. exact (tie_of_eq _ _ (g_cuf_eq t n H)). Qed.
Print Assumptions tie_cuf.

Theorem tie_cub : forall t (n : N), TScal t ->
  let '(z, ok) := g_cub (zabs t) (Z.of_N n) in ok = true /\ zabs (cub t n) = z.
Proof. intros t n H. exact (tie_of_eq _ _ (g_cub_eq t n H)). Qed.
Print Assumptions tie_cub.

Theorem tie_cnl : forall t (n : N), TScal t ->
  let '(z, ok) := g_cnl (zabs t) (Z.of_N n) in
  ok = true /\ zabs (do_move_cursor_to_col (cursor_down t (as_usize n 1%nat)) 0%nat) = z.
Proof. intros t n H. exact (tie_of_eq _ _ (g_cnl_eq t n H)). Qed.
Print Assumptions tie_cnl.

Theorem tie_cpl : forall t (n : N), TScal t ->
  let '(z, ok) := g_cpl (zabs t) (Z.of_N n) in
  ok = true /\ zabs (do_move_cursor_to_col (cursor_up t (as_usize n 1%nat)) 0%nat) = z.
Proof. intros t n H. exact (tie_of_eq _ _ (g_cpl_eq t n H)). Qed.
Print Assumptions tie_cpl.

Theorem tie_cha : forall t (n : N), TScal t ->
  let '(z, ok) := g_cha (zabs t) (Z.of_N n) in
  ok = true /\ zabs (move_cursor_to_col t (as_usize n 1 - 1)%nat) = z.
Proof. intros t n H. exact (tie_of_eq _ _ (g_cha_eq t n H)). Qed.
Print Assumptions tie_cha.

Theorem tie_vpa : forall t (n : N), TScal t ->
  let '(z, ok) := g_vpa (zabs t) (Z.of_N n) in
  ok = true /\ zabs (move_cursor_to_row t (as_usize n 1 - 1)%nat) = z.
Proof. intros t n H. exact (tie_of_eq _ _ (g_vpa_eq t n H)). Qed.
Print Assumptions tie_vpa.

Theorem tie_cup : forall t (r c : N), TScal t ->
  let '(z, ok) := g_cup (zabs t) (Z.of_N r) (Z.of_N c) in ok = true /\ zabs (cup t r c) = z.
Proof. intros t r c H. exact (tie_of_eq _ _ (g_cup_eq t r c H)). Qed.
Print Assumptions tie_cup.

Theorem tie_decstbm : forall t (a b : N), TScal t ->
  let '(z, ok) := g_decstbm (zabs t) (Z.of_N a) (Z.of_N b) in ok = true /\ zabs (decstbm t a b) = z.
Proof. intros t a b H. exact (tie_of_eq _ _ (g_decstbm_eq t a b H)). Qed.
Print Assumptions tie_decstbm.

(** * [Terminal::execute]: the arms of the scalar functions forward as the model's [execute] does *)
Definition scalar_fn (f : func) : bool :=
  match f with
  | Bs | Cha _ | Cnl _ | Cpl _ | Cr | Cub _ | Cud _ | Cuf _ | Cup _ _ | Cuu _ | Decstbm _ _
  | G1d4 _ | Gzd4 _ | Si | So | Vpa _ | Vpr _ => true
  | _ => false
  end.

Theorem tie_execute : forall t f, TScal t -> scalar_fn f = true ->
  exists t', execute t f = Ok t' /\ g_execute (zabs t) f = Some (zabs t', true).
Proof.
  intros t f H Hf.
  destruct f; try discriminate Hf; cbn [execute g_execute]; eexists; (split; [reflexivity|]); f_equal;
    first [ apply g_bs_eq, H | apply g_cha_eq, H | apply g_cnl_eq, H | apply g_cpl_eq, H | apply g_cr_eq
          | apply g_cub_eq, H | apply g_cud_eq, H | apply g_cuf_eq, H | apply g_cup_eq, H | apply g_cuu_eq, H
          | apply g_decstbm_eq, H | apply g_g1d4_eq | apply g_gzd4_eq | apply g_si_eq | apply g_so_eq
          | apply g_vpa_eq, H | apply g_vpr_eq, H ].
Qed.
Print Assumptions tie_execute.

(** * functions that also call into buffer / tabs / dirty lines

    The regenerated code records those calls, with their evaluated arguments, in [z_ev].  [zrun z t]
    replays the recorded calls on the model terminal with the model's own primitives and then writes the
    scalar fields back; the tie says that this is exactly what the hand-written model function does. *)

Definition cell_of (t : term) (x : zcell) : cell :=
  match x with
  | ZCellNew c => mkCell (Z.to_N c) (tpen t)
  | ZCellBlank => blank_cell (tpen t)
  | ZCellChar c => mkCell (Z.to_N c) default_pen
  end.

Definition erase_of (m : zerase) : erase_mode :=
  match m with
  | ZNextChars n => NextChars (Z.to_nat n)
  | ZFromCursorToEndOfView => FromCursorToEndOfView
  | ZFromStartOfViewToCursor => FromStartOfViewToCursor
  | ZWholeView => WholeView
  | ZFromCursorToEndOfLine => FromCursorToEndOfLine
  | ZFromStartOfLineToCursor => FromStartOfLineToCursor
  | ZWholeLine => WholeLine
  end.

Definition run_ev (t : term) (e : zev) : res term :=
  match e with
  | EvTabSet c => Ok (t <| tabs := tabs_set (Z.to_nat c) (tabs t) |>)
  | EvTabUnset c => Ok (t <| tabs := tabs_unset (Z.to_nat c) (tabs t) |>)
  | EvTabsClear => Ok (t <| tabs := [] |>)
  | EvBufScrollUp a b n =>
    on_buf t (fun bf => buf_scroll_up bf (Z.to_nat a) (Z.to_nat b) (Z.to_nat n) (tpen t))
  | EvBufScrollDown a b n =>
    on_buf t (fun bf => buf_scroll_down bf (Z.to_nat a) (Z.to_nat b) (Z.to_nat n) (tpen t))
  | EvDirtyExtend a b => mark_range t (Z.to_nat a) (Z.to_nat b)
  | EvBufPrint c r x => on_buf t (fun bf => buf_print bf (Z.to_nat c) (Z.to_nat r) (cell_of t x))
  | EvBufInsert c r n x =>
    on_buf t (fun bf => buf_insert bf (Z.to_nat c) (Z.to_nat r) (Z.to_nat n) (cell_of t x))
  | EvBufDelete c r n => on_buf t (fun bf => buf_delete bf (Z.to_nat c) (Z.to_nat r) (Z.to_nat n) (tpen t))
  | EvBufErase c r m => on_buf t (fun bf => buf_erase bf (Z.to_nat c) (Z.to_nat r) (erase_of m) (tpen t))
  | EvBufWrap r => on_buf t (fun bf => buf_wrap bf (Z.to_nat r))
  | EvDirtyAdd r => mark t (Z.to_nat r)
  | EvDirtyResize n => Ok (t <| dirty := dirty_resize (dirty t) (Z.to_nat n) |>)
  | EvTabsContract c => Ok (t <| tabs := tabs_contract (Z.to_nat c) (tabs t) |>)
  | EvTabsExpand a b => Ok (t <| tabs := tabs_expand (Z.to_nat a) (Z.to_nat b) (tabs t) |>)
  | EvSctxCol v => Ok (t <| sctx := (sctx t) <| sc_col := Z.to_nat v |> |>)
  | EvSctxRow v => Ok (t <| sctx := (sctx t) <| sc_row := Z.to_nat v |> |>)
  | EvSctxOrg v => Ok (t <| sctx := (sctx t) <| sc_origin := v |> |>)
  | EvSctxAwm v => Ok (t <| sctx := (sctx t) <| sc_awm := v |> |>)
  | EvSctxPenSave => Ok (t <| sctx := (sctx t) <| sc_pen := tpen t |> |>)
  | EvPenRestore => Ok (t <| tpen := sc_pen (sctx t) |>)
  | EvActive b => Ok (t <| active := b |>)
  | EvSwapCtx => Ok (t <| sctx := asctx t |> <| asctx := sctx t |>)
  | EvSwapBuf => Ok (t <| buf := other t |> <| other := buf t |>)
  | EvBufNewAlt c r => Ok (t <| buf := buffer_new (Z.to_nat c) (Z.to_nat r) (Some 0%N) (Some (tpen t)) |>)
  end.

Definition zput (z : zt) (t : term) : term :=
  t <| cols := Z.to_nat (z_cols z) |> <| rows := Z.to_nat (z_rows z) |>
    <| cur_col := Z.to_nat (z_col z) |> <| cur_row := Z.to_nat (z_row z) |> <| pend := z_pend z |>
    <| top := Z.to_nat (z_top z) |> <| bot := Z.to_nat (z_bot z) |> <| org := z_org z |>
    <| nlm := z_nlm z |> <| acs := Z.to_nat (z_acs z) |> <| cs0 := z_cs0 z |> <| cs1 := z_cs1 z |>
    <| ins := z_ins z |> <| awm := z_awm z |> <| cur_vis := z_vis z |> <| ckm := z_ckm z |>.

Definition zrun (z : zt) (t : term) : res term :=
  t' <- foldM run_ev (rev (z_ev z)) t ;; Ok (zput z t').

Lemma z2n_succ a : Z.to_nat (Z.of_nat a + 1) = (a + 1)%nat.
Proof. lia. Qed.
Lemma z2n_ofN n : Z.to_nat (Z.of_N n) = N.to_nat n.
Proof. lia. Qed.
Lemma z2n_pred a : (1 <= a)%nat -> Z.to_nat (Z.of_nat a - 1) = (a - 1)%nat.
Proof. lia. Qed.

Ltac nrm_ev :=
  lazy -[Z.add Z.sub Z.opp Z.mul Z.leb Z.ltb Z.eqb Z.min Z.max Z.of_nat Z.of_N Z.to_nat Z.le Z.lt
         N.eqb N.to_nat Nat.sub Nat.add Nat.min Nat.max Nat.leb Nat.ltb Nat.eqb Nat.lt andb orb negb
         buf_scroll_up buf_scroll_down dirty_extend tabs_set tabs_unset].

Ltac z2n :=
  repeat first [ rewrite Nat2Z.id | rewrite z2n_ofN | rewrite z2n_succ | rewrite z2n_pred by lia
               | progress change (Z.to_nat 1) with 1%nat | progress change (Z.to_nat 0) with 0%nat ].

(** split on the results of the recorded calls, innermost first *)
Ltac brk_res :=
  match goal with
  | |- context [match ?m with Ok _ => _ | Panic _ => _ end] =>
    lazymatch m with
    | Ok _ => fail
    | Panic _ => fail
    | context [match _ with Ok _ => _ | Panic _ => _ end] => fail
    | _ => destruct m
    end
  end.

Ltac ev_fin :=
  first [ exfalso; lia
        | split;
          [ try reflexivity; lia
          | z2n; repeat (brk_res; nrm_ev; z2n); first [ reflexivity | f_equal; f_equal; lia ] ] ].

Ltac ev_tie t H :=
  destruct t;
  let a := fresh "Hcols" in let b := fresh "Hrows" in let c := fresh "Hrow" in
  let d := fresh "Hcol" in let e := fresh "Hpend" in let f := fresh "Hmar" in
  destruct H as [a b c d e f];
  cbn [Types.cols Types.rows Types.cur_row Types.cur_col Types.pend Types.top Types.bot] in a, b, c, d, e, f;
  nrm_ev; repeat (progress brk; nrm_ev); ev_fin.

Theorem tie_set_tab : forall t, TScal t ->
  let '(z, ok) := g_set_tab (zabs t) in ok = true /\ Ok (set_tab t) = zrun z t.
Proof. intros t H. ev_tie t H. Qed.
Print Assumptions tie_set_tab.

Theorem tie_hts : forall t, TScal t ->
  let '(z, ok) := g_hts (zabs t) in ok = true /\ Ok (set_tab t) = zrun z t.
Proof. intros t H. ev_tie t H. Qed.
Print Assumptions tie_hts.

Theorem tie_clear_tab : forall t, TScal t ->
  let '(z, ok) := g_clear_tab (zabs t) in ok = true /\ Ok (clear_tab t) = zrun z t.
Proof. intros t H. ev_tie t H. Qed.
Print Assumptions tie_clear_tab.

Theorem tie_clear_all_tabs : forall t, TScal t ->
  let '(z, ok) := g_clear_all_tabs (zabs t) in ok = true /\ Ok (clear_all_tabs t) = zrun z t.
Proof. intros t H. ev_tie t H. Qed.
Print Assumptions tie_clear_all_tabs.

Theorem tie_scroll_up_in_region : forall t n, TScal t ->
  let '(z, ok) := g_scroll_up_in_region (zabs t) (Z.of_nat n) in
  ok = true /\ scroll_up_in_region t n = zrun z t.
Proof. intros t n H. ev_tie t H. Qed.
Print Assumptions tie_scroll_up_in_region.

Theorem tie_scroll_down_in_region : forall t n, TScal t ->
  let '(z, ok) := g_scroll_down_in_region (zabs t) (Z.of_nat n) in
  ok = true /\ scroll_down_in_region t n = zrun z t.
Proof. intros t n H. ev_tie t H. Qed.
Print Assumptions tie_scroll_down_in_region.

Theorem tie_move_cursor_down_with_scroll : forall t, TScal t ->
  let '(z, ok) := g_move_cursor_down_with_scroll (zabs t) in
  ok = true /\ move_cursor_down_with_scroll t = zrun z t.
Proof. intros t H. ev_tie t H. Qed.
Print Assumptions tie_move_cursor_down_with_scroll.

Theorem tie_lf : forall t, TScal t ->
  let '(z, ok) := g_lf (zabs t) in ok = true /\ lf t = zrun z t.
Proof. intros t H. ev_tie t H. Qed.
Print Assumptions tie_lf.

Theorem tie_nel : forall t, TScal t ->
  let '(z, ok) := g_nel (zabs t) in ok = true /\ nel t = zrun z t.
Proof. intros t H. ev_tie t H. Qed.
Print Assumptions tie_nel.

Theorem tie_ri : forall t, TScal t ->
  let '(z, ok) := g_ri (zabs t) in ok = true /\ ri t = zrun z t.
Proof. intros t H. ev_tie t H. Qed.
Print Assumptions tie_ri.

Theorem tie_il : forall t (n : N), TScal t ->
  let '(z, ok) := g_il (zabs t) (Z.of_N n) in ok = true /\ il t n = zrun z t.
Proof. intros t n H. ev_tie t H. Qed.
Print Assumptions tie_il.

Theorem tie_dl : forall t (n : N), TScal t ->
  let '(z, ok) := g_dl (zabs t) (Z.of_N n) in ok = true /\ dl t n = zrun z t.
Proof. intros t n H. ev_tie t H. Qed.
Print Assumptions tie_dl.

Theorem tie_su : forall t (n : N), TScal t ->
  let '(z, ok) := g_su (zabs t) (Z.of_N n) in
  ok = true /\ scroll_up_in_region t (as_usize n 1%nat) = zrun z t.
Proof. intros t n H. ev_tie t H. Qed.
Print Assumptions tie_su.

Theorem tie_sd : forall t (n : N), TScal t ->
  let '(z, ok) := g_sd (zabs t) (Z.of_N n) in
  ok = true /\ scroll_down_in_region t (as_usize n 1%nat) = zrun z t.
Proof. intros t n H. ev_tie t H. Qed.
Print Assumptions tie_sd.

(** [Terminal::execute]: the arms forwarding to the functions with recorded calls *)
Definition ev_fn (f : func) : bool :=
  match f with
  | Dl _ | Il _ | Lf | Nel | Ri | Sd _ | Su _ | Hts => true
  | _ => false
  end.

Theorem tie_execute_ev : forall t f, TScal t -> ev_fn f = true ->
  exists z, g_execute (zabs t) f = Some (z, true) /\ execute t f = zrun z t.
Proof.
  intros t f H Hf.
  assert (K : forall (p : zt * bool) (m : res term),
             (let '(z, ok) := p in ok = true /\ m = zrun z t) ->
             exists z, Some p = Some (z, true) /\ m = zrun z t).
  { intros [z ok] m [-> E]. exists z. split; [reflexivity | exact E]. }
  destruct f; try discriminate Hf; cbn [execute g_execute]; apply K.
  - apply tie_dl, H.
  - apply tie_hts, H.
  - apply tie_il, H.
  - apply tie_lf, H.
  - apply tie_nel, H.
  - apply tie_ri, H.
  - apply tie_sd, H.
  - apply tie_su, H.
Qed.
Print Assumptions tie_execute_ev.
