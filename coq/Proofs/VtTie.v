(** The tie between the public machine of Model/Vt.v ([vt_feed], [vt_flush], [stepM], [feed_str]),
    [changes] / [term_gc] of Model/Terminal.v, and the call skeletons regenerated from src/vt.rs and
    src/terminal.rs (Gen/VtFns.v, by translate/misc2coq.py).

    [interp_skel] runs a skeleton over the model's primitives ([feedM], [execute], [term_resize],
    [changes], [term_gc]); the theorems say that every public mutating method of the model is the
    interpretation of the skeleton read off the Rust method: same calls, same order, and
    [Changes { lines, scrollback }] filled from [changes()] and [gc()]. *)

From Avt Require Import Model.Vt Gen.VtFns.

(** the argument of the public call *)
Inductive varg := AStr (s : list N) | AChar (c : N) | ASize (c r : nat).

(** interpreter state: the machine, the op handed from [parser.feed] to [terminal.execute], the result *)
Definition ist : Type := vt * option func * out.

Fixpoint run_steps {S} (f : vstep -> S -> res S) (sk : list vstep) (x : S) : res S :=
  match sk with
  | [] => Ok x
  | st :: r => y <- f st x ;; run_steps f r y
  end.

(** a step that is not meaningful where it stands: never equal to a model result (site 0 is unused) *)
Definition ill {A} : res A := Panic 0.

(** the per-char steps *)
Definition interp_char (c : N) (st : vstep) (x : ist) : res ist :=
  let '(v, pend, o) := x in
  match st with
  | SParse => '(p, f) <- feedM (vparser v) c ;; Ok (v <| vparser := p |>, f, o)
  | SExecIfSome =>
    match pend with
    | Some f => t <- execute (vterm v) f ;; Ok (v <| vterm := t |>, None, o)
    | None => Ok (v, None, o)
    end
  | _ => ill
  end.

Definition feed_one (each : list vstep) (v : vt) (c : N) : res vt :=
  x <- run_steps (interp_char c) each (v, None, no_out) ;; Ok (fst (fst x)).

Fixpoint feed_each (each : list vstep) (v : vt) (s : list N) : res vt :=
  match s with
  | [] => Ok v
  | c :: r => v' <- feed_one each v c ;; feed_each each v' r
  end.

Definition interp_step (each : list vstep) (a : varg) (st : vstep) (x : ist) : res ist :=
  let '(v, pend, o) := x in
  match st, a with
  | SEach, AStr s => v' <- feed_each each v s ;; Ok (v', pend, o)
  | SParse, AChar c | SExecIfSome, AChar c => interp_char c st x
  | SResize, ASize c r => t <- term_resize (vterm v) c r ;; Ok (v <| vterm := t |>, pend, o)
  | SChanges, _ =>
    let '(t, ls) := changes (vterm v) in Ok (v <| vterm := t |>, pend, mkOut ls (o_drained o))
  | SGc, _ =>
    '(t, dr) <- term_gc (vterm v) ;; Ok (v <| vterm := t |>, pend, mkOut (o_lines o) dr)
  | _, _ => ill
  end.

Definition interp_skel (each : list vstep) (a : varg) (sk : list vstep) (v : vt) : res (vt * out) :=
  x <- run_steps (interp_step each a) sk (v, None, no_out) ;; Ok (fst (fst x), snd x).

(** normalise everything but the model's primitives *)
Ltac nrm := lazy -[feedM execute term_resize changes term_gc feed_each feed_chars g_feed_str_each].

(** * Vt::feed *)

Lemma tie_feed_one : forall v c, vt_feed v c = feed_one g_feed_str_each v c.
Proof.
  intros [p t] c. unfold g_feed_str_each. nrm.
  destruct (feedM p c) as [[p' [f|]]|site]; [|reflexivity|reflexivity].
  destruct (execute t f) as [t'|site]; reflexivity.
Qed.

Theorem tie_feed : forall v c,
  stepM v (Feed c) = interp_skel g_feed_str_each (AChar c) g_feed_skel v.
Proof.
  intros [p t] c. nrm.
  destruct (feedM p c) as [[p' [f|]]|site]; [|reflexivity|reflexivity].
  destruct (execute t f) as [t'|site]; reflexivity.
Qed.

(** * Vt::feed_str *)

Lemma tie_feed_chars : forall s v, feed_chars v s = feed_each g_feed_str_each v s.
Proof.
  induction s as [|c r IH]; intros v; [reflexivity|].
  cbn [feed_chars feed_each]. rewrite tie_feed_one.
  destruct (feed_one g_feed_str_each v c) as [v'|site]; cbn [bind]; [apply IH | reflexivity].
Qed.

Theorem tie_feed_str : forall v s,
  feed_str v s = interp_skel g_feed_str_each (AStr s) g_feed_str_skel v.
Proof.
  intros v s. unfold feed_str. rewrite tie_feed_chars. nrm.
  destruct (feed_each g_feed_str_each v s) as [[p t]|site]; [|reflexivity].
  destruct (changes t) as [t1 ls].
  destruct (term_gc t1) as [[t2 dr]|site]; reflexivity.
Qed.

(** [Flush] is [feed_str ""] *)
Corollary tie_flush : forall v,
  stepM v Flush = interp_skel g_feed_str_each (AStr []) g_feed_str_skel v.
Proof. intros v. rewrite <- tie_feed_str. reflexivity. Qed.

(** * Vt::resize *)

Theorem tie_resize : forall v c r,
  stepM v (Resize c r) = interp_skel g_feed_str_each (ASize c r) g_resize_skel v.
Proof.
  intros [p t] c r. nrm.
  destruct (term_resize t c r) as [t0|site]; [|reflexivity].
  destruct (changes t0) as [t1 ls].
  destruct (term_gc t1) as [[t2 dr]|site]; reflexivity.
Qed.

Print Assumptions tie_feed.
Print Assumptions tie_feed_str.
Print Assumptions tie_resize.

(** * Terminal::changes *)

Definition interp_cstep (st : cstep) (x : term * list nat) : term * list nat :=
  let '(t, r) := x in
  match st with
  | CToVec => (t, dirty_to_vec (dirty t) 0)
  | CClear => (t <| dirty := dirty_clear (dirty t) |>, r)
  end.

Theorem tie_changes : forall t, changes t = fold_left (fun x st => interp_cstep st x) g_changes_skel (t, []).
Proof. reflexivity. Qed.

(** * Terminal::gc: [self.buffer.gc()] first, then the selection by the active buffer type *)

Theorem tie_term_gc : forall t,
  term_gc t = '(b, dr) <- buf_gc (buf t) ;; Ok (t <| buf := b |>, g_gc_select (active t) (Some dr)).
Proof.
  intros t. unfold term_gc. destruct (buf_gc (buf t)) as [[b dr]|site]; cbn [bind]; [|reflexivity].
  destruct (active t) eqn:Ha; destruct t; cbn [Types.active] in Ha; subst; reflexivity.
Qed.

(** [Buffer::gc] returning [None] is the model's empty list of drained lines *)
Lemma g_gc_select_none : forall a, g_gc_select a None = g_gc_select a (Some []).
Proof. intros []; reflexivity. Qed.

Print Assumptions tie_changes.
Print Assumptions tie_term_gc.
