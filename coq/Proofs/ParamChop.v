(** Irrelevance of the rows above the view (the scrollback) for every control function.

    The work-horse is a RELATIONAL statement: two buffers of the same geometry [c x r]
    are related by [RBg D] when the first carries the extra prefix [D] above the view:
      [lines b1 = D ++ lines b2]   (with [length D <= sb_len b1]).
    Every buffer primitive, and every control function, maps related states to related
    states (and panics on one side iff it panics, at the same site, on the other).
    The equational [chop]-commutations are corollaries ([D := firstn k (lines b)]).

    The flag [tr]: when [true], the relation also demands equal [trim_needed] / [dirty]
    (needed to recover EQUATIONS and for C14); when [false] they are ignored (C12).
    The flag [cl]: when [true], the INACTIVE screen's saved context [asctx] is compared only
    after clamping into the screen while the primary screen is active (C11, Proofs/Future.v).

    Second version: the side condition on the parked buffer is [parked_ok] ("no resize while
    the PRIMARY was parked"); the parked ALTERNATE buffer is never read by any control
    function (it is replaced by a fresh buffer in [switch_to_alternate_buffer], and
    [term_gc] only touches the active buffer) - [execute_Rx] proves this, since with
    [tr = false] the relation [Rx] says nothing at all about it. *)

From Avt Require Import Proofs.Inv Proofs.VisEq Proofs.ListLemmas Proofs.BufRow Proofs.BufScroll
  Proofs.Resize Proofs.ParamDT Spec.Eqb Oracles.Rel.
Require Import Lia ZArith ZifyBool ZifyNat.
Import ListNotations.

(** * 1. [chop] *)

Definition chop (k : nat) (b : buffer) : buffer := b <| lines := skipn k (lines b) |>.

Definition fmap {A B} (f : A -> B) (m : res A) : res B :=
  match m with Ok a => Ok (f a) | Panic s => Panic s end.

Lemma chop_0 b : chop 0 b = b.
Proof. destruct b; reflexivity. Qed.

Lemma chop_sb_len k b : k <= sb_len b -> sb_len (chop k b) = sb_len b - k.
Proof. intros H. unfold sb_len, chop in *. psimpl. rewrite skipn_length. lia. Qed.

Lemma chop_view k b : k <= sb_len b -> view (chop k b) = view b.
Proof.
  intros H. unfold view. rewrite (chop_sb_len k b H). unfold chop. psimpl.
  rewrite skipn_add. f_equal. lia.
Qed.

Lemma chop_BGeom k b : k <= sb_len b -> BGeom b -> BGeom (chop k b).
Proof.
  intros H (Hc & Hr & Hl & HF). unfold sb_len in H. unfold BGeom, chop. psimpl.
  repeat split; try assumption.
  - rewrite skipn_length. lia.
  - apply Forall_skipn_of; exact HF.
Qed.

Lemma chop_chop j k b : chop j (chop k b) = chop (k + j) b.
Proof. unfold chop. destruct b; cbn. rewrite skipn_add. reflexivity. Qed.

(** * 2. the relation on buffers *)

Section Buffers.
Variable tr : bool.
Variables (c r : nat) (l1 l2 : option (N * N)) (D : list line).

Record RBg (b1 b2 : buffer) : Prop := mkRBg {
  g_lines : lines b1 = D ++ lines b2;
  g_len : length D <= sb_len b1;
  g_c1 : bcols b1 = c;
  g_r1 : brows b1 = r;
  g_c2 : bcols b2 = c;
  g_r2 : brows b2 = r;
  g_l1 : blimit b1 = l1;
  g_l2 : blimit b2 = l2;
  g_trim : leq tr (trim_needed b1) (trim_needed b2)
}.

Lemma G_sb_len b1 b2 : RBg b1 b2 -> sb_len b1 = length D + sb_len b2.
Proof.
  intros H. pose proof (g_len _ _ H) as HL. unfold sb_len in *.
  rewrite (g_lines _ _ H), (g_r1 _ _ H), (g_r2 _ _ H) in *. rewrite app_length in *. lia.
Qed.

Lemma G_view_ok b1 b2 : RBg b1 b2 -> view_ok b1 = view_ok b2.
Proof.
  intros H. pose proof (g_len _ _ H) as HL. unfold sb_len, view_ok in *.
  rewrite (g_lines _ _ H), (g_r1 _ _ H), (g_r2 _ _ H) in *. rewrite app_length in *.
  destruct D as [|d D']; [reflexivity|]. cbn [length] in *.
  destruct (r <=? length (lines b2)) eqn:E; lia.
Qed.

Lemma G_view b1 b2 : RBg b1 b2 -> view b1 = view b2.
Proof.
  intros H. unfold view. rewrite (G_sb_len _ _ H), (g_lines _ _ H).
  rewrite skipn_app. rewrite skipn_all2 by lia. cbn [app]. f_equal. lia.
Qed.

Lemma G_sb b1 b2 :
  RBg b1 b2 -> firstn (sb_len b1) (lines b1) = D ++ firstn (sb_len b2) (lines b2).
Proof.
  intros H. rewrite (G_sb_len _ _ H), (g_lines _ _ H).
  rewrite firstn_app, firstn_all2 by lia. f_equal. f_equal. lia.
Qed.

Lemma G_nth b1 b2 i :
  RBg b1 b2 -> nth_error (lines b1) (sb_len b1 + i) = nth_error (lines b2) (sb_len b2 + i).
Proof.
  intros H. rewrite (G_sb_len _ _ H), (g_lines _ _ H).
  rewrite nth_error_app2 by lia. f_equal. lia.
Qed.

Lemma G_set_lines b1 b2 x1 x2 :
  RBg b1 b2 -> x1 = D ++ x2 -> length (lines b1) <= length x1 ->
  RBg (b1 <| lines := x1 |>) (b2 <| lines := x2 |>).
Proof.
  intros H E HL. pose proof (g_len _ _ H) as Hlen. destruct H. constructor; psimpl; try assumption.
  unfold sb_len in *. psimpl. lia.
Qed.

Lemma G_set_trim b1 b2 x :
  RBg b1 b2 -> RBg (b1 <| trim_needed := x |>) (b2 <| trim_needed := x |>).
Proof. intros H. destruct H. constructor; psimpl; try assumption. apply leq_refl. Qed.

Lemma with_row_G b1 b2 row f :
  RBg b1 b2 -> rres RBg (with_row b1 row f) (with_row b2 row f).
Proof.
  intros H. unfold with_row.
  rewrite (G_view_ok _ _ H), (G_nth _ _ _ H), (g_r1 _ _ H), (g_r2 _ _ H).
  destruct (view_ok b2 && (row <? r)); [|constructor].
  destruct (nth_error (lines b2) (sb_len b2 + row)) as [l|]; [|constructor].
  destruct (f l) as [l'|s]; cbn [bind]; constructor.
  apply G_set_lines; [exact H| |rewrite upd_length; lia].
  rewrite (G_sb_len _ _ H), (g_lines _ _ H), <- Nat.add_assoc. apply upd_app_r.
Qed.

Lemma get_row_G b1 b2 row : RBg b1 b2 -> get_row b1 row = get_row b2 row.
Proof.
  intros H. unfold get_row.
  rewrite (G_view_ok _ _ H), (G_nth _ _ _ H), (g_r1 _ _ H), (g_r2 _ _ H). reflexivity.
Qed.

(** [f] must not shrink the view (true for every use: fills and rotations) *)
Lemma with_view_G b1 b2 ok f :
  RBg b1 b2 -> (ok = true -> forall v, length v = r -> r <= length (f v)) ->
  rres RBg (with_view b1 ok f) (with_view b2 ok f).
Proof.
  intros H Hf. unfold with_view. rewrite (G_view_ok _ _ H), (G_view _ _ H), (G_sb _ _ H).
  destruct (view_ok b2) eqn:Ev; [|constructor]. destruct ok; [|constructor]. cbn [andb].
  constructor. apply G_set_lines; [exact H|rewrite app_assoc; reflexivity|].
  assert (Hv : length (view b2) = r).
  { unfold view, sb_len, view_ok in *. rewrite skipn_length, (g_r2 _ _ H) in *. lia. }
  specialize (Hf eq_refl _ Hv).
  rewrite (g_lines _ _ H), !app_length, firstn_length.
  unfold sb_len, view_ok in *. rewrite (g_r2 _ _ H) in *. lia.
Qed.

Lemma fill_range_len {A} x z (v : A) l :
  x <= z -> z <= length l -> length (fill_range x z v l) = length l.
Proof.
  intros. unfold fill_range. rewrite !app_length, firstn_length, repeat_length, skipn_length. lia.
Qed.

Lemma rotl_len {A} n (l : list A) : length (rotl n l) = length l.
Proof. unfold rotl. rewrite app_length, skipn_length, firstn_length. lia. Qed.

Lemma rotr_len {A} n (l : list A) : length (rotr n l) = length l.
Proof. unfold rotr. rewrite app_length, skipn_length, firstn_length. lia. Qed.

Lemma on_range_len {A} x z (f : list A -> list A) l :
  (forall v, length (f v) = length v) -> x <= z -> z <= length l ->
  length (on_range x z f l) = length l.
Proof.
  intros Hf Hx Hz. unfold on_range.
  rewrite !app_length, Hf, !firstn_length, !skipn_length. lia.
Qed.

Lemma buf_clear_G b1 b2 x z p :
  RBg b1 b2 -> rres RBg (buf_clear b1 x z p) (buf_clear b2 x z p).
Proof.
  intros H. unfold buf_clear. rewrite (g_r1 _ _ H), (g_r2 _ _ H), (g_c1 _ _ H), (g_c2 _ _ H).
  apply with_view_G; [exact H|]. intros Hok v Hv. rewrite fill_range_len; lia.
Qed.

Lemma buf_extend_G b1 b2 n cc p : RBg b1 b2 -> RBg (buf_extend b1 n cc p) (buf_extend b2 n cc p).
Proof.
  intros H. unfold buf_extend. apply G_set_lines; [exact H| |rewrite app_length; lia].
  rewrite (g_lines _ _ H), app_assoc. reflexivity.
Qed.

Lemma buf_print_G b1 b2 col row x :
  RBg b1 b2 -> rres RBg (buf_print b1 col row x) (buf_print b2 col row x).
Proof. intros H. apply with_row_G; exact H. Qed.

Lemma buf_wrap_G b1 b2 row : RBg b1 b2 -> rres RBg (buf_wrap b1 row) (buf_wrap b2 row).
Proof. intros H. apply with_row_G; exact H. Qed.

Lemma buf_insert_G b1 b2 col row n x :
  RBg b1 b2 -> rres RBg (buf_insert b1 col row n x) (buf_insert b2 col row n x).
Proof.
  intros H. unfold buf_insert. rewrite (g_c1 _ _ H), (g_c2 _ _ H).
  apply (rres_bind eq); [apply rres_eq_refl|]. intros _ _ _. apply with_row_G; exact H.
Qed.

Lemma buf_delete_G b1 b2 col row n p :
  RBg b1 b2 -> rres RBg (buf_delete b1 col row n p) (buf_delete b2 col row n p).
Proof.
  intros H. unfold buf_delete. rewrite (g_c1 _ _ H), (g_c2 _ _ H).
  apply (rres_bind eq); [apply rres_eq_refl|]. intros _ _ _. apply with_row_G; exact H.
Qed.

Lemma buf_erase_G b1 b2 col row m p :
  RBg b1 b2 -> rres RBg (buf_erase b1 col row m p) (buf_erase b2 col row m p).
Proof.
  intros H. unfold buf_erase. rewrite ?(g_r1 _ _ H), ?(g_r2 _ _ H), ?(g_c1 _ _ H), ?(g_c2 _ _ H).
  destruct m.
  - apply (rres_bind eq); [apply rres_eq_refl|]. intros _ _ _. apply with_row_G; exact H.
  - apply (rres_bind RBg); [apply with_row_G; exact H|].
    intros x y Hxy. rewrite (g_r1 _ _ Hxy), (g_r2 _ _ Hxy). apply buf_clear_G; exact Hxy.
  - apply (rres_bind RBg); [apply with_row_G; exact H|].
    intros x y Hxy. apply buf_clear_G; exact Hxy.
  - apply buf_clear_G; exact H.
  - apply with_row_G; exact H.
  - apply with_row_G; exact H.
  - apply with_row_G; exact H.
Qed.

Lemma insert_n_G b1 b2 z n (x : line) :
  RBg b1 b2 -> sb_len b2 + z <= length (lines b2) ->
  RBg (b1 <| lines := insert_n (sb_len b1 + z) n x (lines b1) |>)
      (b2 <| lines := insert_n (sb_len b2 + z) n x (lines b2) |>).
Proof.
  intros H Hz. apply G_set_lines; [exact H| |].
  - unfold insert_n. rewrite (G_sb_len _ _ H), (g_lines _ _ H).
    rewrite firstn_app, firstn_all2 by lia. rewrite skipn_app, skipn_all2 by lia.
    replace (length D + sb_len b2 + z - length D) with (sb_len b2 + z) by lia.
    cbn [app]. rewrite <- app_assoc. reflexivity.
  - unfold insert_n. rewrite !app_length, firstn_length, skipn_length, repeat_length. lia.
Qed.

Lemma buf_scroll_up_G b1 b2 x z n p :
  RBg b1 b2 -> rres RBg (buf_scroll_up b1 x z n p) (buf_scroll_up b2 x z n p).
Proof.
  intros H. unfold buf_scroll_up. rewrite ?(g_r1 _ _ H), ?(g_r2 _ _ H).
  destruct ((x <=? z) && (1 <=? z) && (1 <=? r)) eqn:Eg; cbn [guard bind]; [|constructor].
  apply (rres_bind RBg).
  { destruct (z - 1 <? r - 1); [apply with_row_G; exact H|constructor; exact H]. }
  intros a1 a2 H1.
  apply (rres_bind RBg).
  2:{ intros y1 y2 Hy. constructor. apply G_set_trim; exact Hy. }
  rewrite ?(g_r1 _ _ H1), ?(g_r2 _ _ H1), ?(g_c1 _ _ H1), ?(g_c2 _ _ H1).
  destruct (x =? 0).
  - destruct (z =? r).
    + constructor. apply buf_extend_G; exact H1.
    + rewrite (G_view_ok _ _ H1).
      destruct (view_ok a2) eqn:Ev; cbn [guard bind]; [|constructor].
      assert (Eidx : (sb_len a1 + z <=? length (lines a1)) = (sb_len a2 + z <=? length (lines a2))).
      { rewrite (G_sb_len _ _ H1), (g_lines _ _ H1), app_length.
        destruct (sb_len a2 + z <=? length (lines a2)) eqn:E; lia. }
      rewrite Eidx.
      destruct (sb_len a2 + z <=? length (lines a2)) eqn:E; cbn [guard bind]; [|constructor].
      constructor. apply insert_n_G; [exact H1|lia].
  - apply (rres_bind RBg); [apply with_row_G; exact H1|].
    intros y1 y2 Hy. rewrite (g_r1 _ _ Hy), (g_r2 _ _ Hy).
    apply (rres_bind RBg).
    + apply with_view_G; [exact Hy|]. intros Hok v Hv.
      rewrite on_range_len; try lia. intros w. apply rotl_len.
    + intros w1 w2 Hw. apply buf_clear_G; exact Hw.
Qed.

Lemma buf_scroll_down_G b1 b2 x z n p :
  RBg b1 b2 -> rres RBg (buf_scroll_down b1 x z n p) (buf_scroll_down b2 x z n p).
Proof.
  intros H. unfold buf_scroll_down. rewrite ?(g_r1 _ _ H), ?(g_r2 _ _ H).
  destruct (x <=? z) eqn:Eg; cbn [guard bind]; [|constructor].
  apply (rres_bind RBg).
  { apply with_view_G; [exact H|]. intros Hok v Hv.
    rewrite on_range_len; try lia. intros w. apply rotr_len. }
  intros a1 a2 H1.
  apply (rres_bind RBg); [apply buf_clear_G; exact H1|]. intros y1 y2 H2.
  apply (rres_bind RBg).
  { destruct (0 <? x); [apply with_row_G; exact H2|constructor; exact H2]. }
  intros w1 w2 H3.
  apply (rres_bind eq); [apply rres_eq_refl|]. intros _ _ _.
  apply with_row_G; exact H3.
Qed.

Lemma decaln_cols_G n : forall b1 b2 row col,
  RBg b1 b2 -> rres RBg (decaln_cols b1 row n col) (decaln_cols b2 row n col).
Proof.
  induction n as [|n IH]; intros b1 b2 row col H; cbn [decaln_cols]; [constructor; exact H|].
  apply (rres_bind RBg); [apply buf_print_G; exact H|]. intros x y Hxy. apply IH; exact Hxy.
Qed.

(** resizing to the SAME geometry (the only resize a run without [Xtwinops]/[Vt::resize]
    performs, given that parked buffers keep the terminal's geometry) *)
Lemma buf_resize_G b1 b2 cc cr :
  RBg b1 b2 ->
  rres (fun x y => RBg (fst x) (fst y) /\ snd x = snd y)
       (buf_resize b1 c r cc cr) (buf_resize b2 c r cc cr).
Proof.
  intros H. pose proof (G_view_ok _ _ H) as Ev.
  destruct (view_ok b2) eqn:E2.
  - assert (H1 : brows b1 <= length (lines b1)) by (unfold view_ok in Ev; lia).
    assert (H2 : brows b2 <= length (lines b2)) by (unfold view_ok in E2; lia).
    pose proof (buf_resize_same' b1 cc cr H1) as R1.
    pose proof (buf_resize_same' b2 cc cr H2) as R2.
    rewrite (g_c1 _ _ H), (g_r1 _ _ H) in R1. rewrite (g_c2 _ _ H), (g_r2 _ _ H) in R2.
    rewrite R1, R2. constructor. cbn [fst snd]. split; [|reflexivity].
    apply G_set_trim; exact H.
  - unfold buf_resize, logical_position.
    assert (G1 : (brows b1 <=? length (lines b1)) = false) by exact Ev.
    assert (G2 : (brows b2 <=? length (lines b2)) = false) by exact E2.
    rewrite G1, G2. cbn [guard bind]. constructor.
Qed.

Lemma RBg_chop_inv' b1 b2 : RBg b1 b2 -> l1 = l2 -> tr = true -> b2 = chop (length D) b1.
Proof.
  intros [H1 H2 H3 H4 H5 H6 H7 H8 H9] El Et. specialize (H9 Et).
  unfold chop. destruct b1, b2. cbn in *. subst.
  rewrite skipn_app, skipn_all2, Nat.sub_diag by lia. reflexivity.
Qed.

End Buffers.

Lemma buffer_new_G tr c r l1 l2 p :
  RBg tr c r (limit_of l1) (limit_of l2) [] (buffer_new c r l1 p) (buffer_new c r l2 p).
Proof.
  unfold buffer_new. constructor; psimpl; try reflexivity; try apply leq_refl. cbn [length]. lia.
Qed.

(** * 3. the equational commutations, as corollaries *)

Lemma RBg_chop b k :
  k <= sb_len b ->
  RBg true (bcols b) (brows b) (blimit b) (blimit b) (firstn k (lines b)) b (chop k b).
Proof.
  intros H. unfold chop. constructor; psimpl; try reflexivity; try apply leq_refl.
  - symmetry. apply firstn_skipn.
  - rewrite firstn_length. lia.
Qed.

Lemma RBg_chop_inv c r l D b b2 : RBg true c r l l D b b2 -> b2 = chop (length D) b.
Proof.
  intros [H1 H2 H3 H4 H5 H6 H7 H8 H9]. specialize (H9 eq_refl).
  unfold chop. destruct b, b2. cbn in *. subst.
  rewrite skipn_app, skipn_all2, Nat.sub_diag by lia. reflexivity.
Qed.

Lemma chop_of_rel (g : buffer -> res buffer) :
  (forall c r l1 l2 D b1 b2,
      RBg true c r l1 l2 D b1 b2 -> rres (RBg true c r l1 l2 D) (g b1) (g b2)) ->
  forall b k, k <= sb_len b -> g (chop k b) = fmap (chop k) (g b).
Proof.
  intros Hg b k Hk. pose proof (Hg _ _ _ _ _ _ _ (RBg_chop b k Hk)) as HR.
  inversion HR as [x y Hxy Ex Ey|s Ex Ey]; cbn [fmap]; [|reflexivity].
  rewrite (RBg_chop_inv _ _ _ _ _ _ Hxy). rewrite firstn_length.
  unfold sb_len in Hk. replace (Nat.min k (length (lines b))) with k by lia. reflexivity.
Qed.

(** what else the relation gives: the result still has [k] rows of scrollback, and those
    rows are the old ones *)
Lemma chop_of_rel_stable (g : buffer -> res buffer) :
  (forall c r l1 l2 D b1 b2,
      RBg true c r l1 l2 D b1 b2 -> rres (RBg true c r l1 l2 D) (g b1) (g b2)) ->
  forall b k b', k <= sb_len b -> g b = Ok b' ->
    k <= sb_len b' /\ firstn k (lines b') = firstn k (lines b).
Proof.
  intros Hg b k b' Hk E. pose proof (Hg _ _ _ _ _ _ _ (RBg_chop b k Hk)) as HR.
  rewrite E in HR. inversion HR as [x y Hxy Ex Ey|]; subst x.
  pose proof (g_len _ _ _ _ _ _ _ _ Hxy) as HL. rewrite firstn_length in HL.
  unfold sb_len in Hk. replace (Nat.min k (length (lines b))) with k in HL by lia.
  split; [exact HL|].
  rewrite (g_lines _ _ _ _ _ _ _ _ Hxy). rewrite firstn_app, firstn_length.
  replace (Nat.min k (length (lines b))) with k by lia.
  rewrite Nat.sub_diag, firstn_O, app_nil_r. apply firstn_all2. rewrite firstn_length. lia.
Qed.

Theorem with_row_chop b k row f :
  k <= sb_len b -> with_row (chop k b) row f = fmap (chop k) (with_row b row f).
Proof. apply (chop_of_rel (fun b => with_row b row f)). intros. apply with_row_G; assumption. Qed.

Theorem get_row_chop b k row : k <= sb_len b -> get_row (chop k b) row = get_row b row.
Proof. intros H. symmetry. eapply get_row_G. apply RBg_chop; exact H. Qed.

Theorem buf_print_chop b k col row x :
  k <= sb_len b -> buf_print (chop k b) col row x = fmap (chop k) (buf_print b col row x).
Proof. apply (chop_of_rel (fun b => buf_print b col row x)). intros. apply buf_print_G; assumption. Qed.

Theorem buf_wrap_chop b k row :
  k <= sb_len b -> buf_wrap (chop k b) row = fmap (chop k) (buf_wrap b row).
Proof. apply (chop_of_rel (fun b => buf_wrap b row)). intros. apply buf_wrap_G; assumption. Qed.

Theorem buf_insert_chop b k col row n x :
  k <= sb_len b -> buf_insert (chop k b) col row n x = fmap (chop k) (buf_insert b col row n x).
Proof. apply (chop_of_rel (fun b => buf_insert b col row n x)). intros. apply buf_insert_G; assumption. Qed.

Theorem buf_delete_chop b k col row n p :
  k <= sb_len b -> buf_delete (chop k b) col row n p = fmap (chop k) (buf_delete b col row n p).
Proof. apply (chop_of_rel (fun b => buf_delete b col row n p)). intros. apply buf_delete_G; assumption. Qed.

Theorem buf_erase_chop b k col row m p :
  k <= sb_len b -> buf_erase (chop k b) col row m p = fmap (chop k) (buf_erase b col row m p).
Proof. apply (chop_of_rel (fun b => buf_erase b col row m p)). intros. apply buf_erase_G; assumption. Qed.

Theorem buf_clear_chop b k x z p :
  k <= sb_len b -> buf_clear (chop k b) x z p = fmap (chop k) (buf_clear b x z p).
Proof. apply (chop_of_rel (fun b => buf_clear b x z p)). intros. apply buf_clear_G; assumption. Qed.

Theorem buf_scroll_up_chop b k x z n p :
  k <= sb_len b -> buf_scroll_up (chop k b) x z n p = fmap (chop k) (buf_scroll_up b x z n p).
Proof. apply (chop_of_rel (fun b => buf_scroll_up b x z n p)). intros. apply buf_scroll_up_G; assumption. Qed.

Theorem buf_scroll_down_chop b k x z n p :
  k <= sb_len b -> buf_scroll_down (chop k b) x z n p = fmap (chop k) (buf_scroll_down b x z n p).
Proof. apply (chop_of_rel (fun b => buf_scroll_down b x z n p)). intros. apply buf_scroll_down_G; assumption. Qed.

(** the scrollback prefix is never modified and never shrinks *)
Theorem buf_scroll_up_stable b k x z n p b' :
  k <= sb_len b -> buf_scroll_up b x z n p = Ok b' ->
  k <= sb_len b' /\ firstn k (lines b') = firstn k (lines b).
Proof. apply (chop_of_rel_stable (fun b => buf_scroll_up b x z n p)). intros. apply buf_scroll_up_G; assumption. Qed.

Print Assumptions buf_scroll_up_chop.
Print Assumptions buf_erase_chop.

(** sanity checks on a concrete buffer: 2 columns, 2 visible rows, 3 rows of scrollback *)
Module Sanity.
  Definition ln (x : N) (w : bool) : line := mkLine [mkCell x default_pen; mkCell (x + 1) default_pen] w.
  Definition b0 : buffer :=
    mkBuffer [ln 65 true; ln 67 false; ln 69 true; ln 71 true; ln 73 false] 2 2 (Some (1, 1)%N) false.
  Definition res_buf_eqb (x y : res buffer) : bool :=
    match x, y with
    | Ok a, Ok b => lines_eqb (lines a) (lines b) && Nat.eqb (bcols a) (bcols b)
                    && Nat.eqb (brows a) (brows b) && Bool.eqb (trim_needed a) (trim_needed b)
    | Panic s, Panic s' => Nat.eqb s s'
    | _, _ => false
    end.
  Definition chk (g : buffer -> res buffer) : bool :=
    forallb (fun k => res_buf_eqb (g (chop k b0)) (fmap (chop k) (g b0))) [0; 1; 2; 3].
  Definition all_checks : bool :=
    chk (fun b => buf_print b 1 0 (mkCell 88 default_pen))
    && chk (fun b => buf_print b 1 2 (mkCell 88 default_pen))   (* panics on both sides *)
    && chk (fun b => buf_wrap b 1)
    && chk (fun b => buf_insert b 0 1 1 (mkCell 88 default_pen))
    && chk (fun b => buf_delete b 0 1 1 default_pen)
    && chk (fun b => buf_erase b 1 0 FromCursorToEndOfView default_pen)
    && chk (fun b => buf_erase b 1 1 FromStartOfViewToCursor default_pen)
    && chk (fun b => buf_erase b 1 1 WholeView default_pen)
    && chk (fun b => buf_erase b 0 1 (NextChars 5) default_pen)
    && chk (fun b => buf_clear b 0 2 default_pen)
    && chk (fun b => buf_clear b 1 3 default_pen)
    && chk (fun b => buf_scroll_up b 0 2 1 default_pen)
    && chk (fun b => buf_scroll_up b 0 1 1 default_pen)
    && chk (fun b => buf_scroll_up b 1 2 1 default_pen)
    && chk (fun b => buf_scroll_up b 0 2 7 default_pen)
    && chk (fun b => buf_scroll_down b 0 2 1 default_pen)
    && chk (fun b => buf_scroll_down b 1 2 3 default_pen)
    && chk (fun b => buf_scroll_down b 1 3 1 default_pen).
  Lemma all_checks_ok : all_checks = true.
  Proof. vm_compute. reflexivity. Qed.

  (** beyond the scrollback the commutation is FALSE (so [k <= sb_len b] is needed):
      chopping into the view makes [with_row] panic *)
  Lemma chop_too_much :
    res_buf_eqb (buf_wrap (chop 4 b0) 1) (fmap (chop 4) (buf_wrap b0 1)) = false.
  Proof. vm_compute. reflexivity. Qed.

  (** [buf_resize] to a different width DOES read the scrollback (re-wrapping): resizing the
      chopped buffer is not the chopped resize.  This is why [Xtwinops]/[Vt::resize] and
      buffer switches after a resize-while-parked are outside the commutation. *)
  Definition resize_lines (b : buffer) : option (list line) :=
    match buf_resize b 3 2 0 0 with Ok (b', _) => Some (lines b') | Panic _ => None end.
  Lemma resize_reads_scrollback :
    match resize_lines (chop 1 b0), resize_lines b0 with
    | Some x, Some y => lines_eqb x (skipn 1 y)
    | _, _ => true
    end = false.
  Proof. vm_compute. reflexivity. Qed.
End Sanity.

(** * 4. the relation on terminals *)

Definition LA : option (N * N) := limit_of (Some 0%N).

Definition lim_sel (l : option N) (w : btype) : option (N * N) :=
  match w with Primary => limit_of l | Alternate => LA end.

Definition bt_other (w : btype) : btype :=
  match w with Primary => Alternate | Alternate => Primary end.

Definition Dsel (Dp Da : list line) (w : btype) : list line :=
  match w with Primary => Dp | Alternate => Da end.

(** ** [reflow] reads the saved context only to clamp it *)

Definition rtail (t : term) : term :=
  let t := if cols t <=? sc_col (sctx t) then t <| sctx := (sctx t) <| sc_col := cols t - 1 |> |> else t in
  if rows t <=? sc_row (sctx t) then t <| sctx := (sctx t) <| sc_row := rows t - 1 |> |> else t.

Lemma clamp_ctx_eq x c r :
  clamp_ctx x c r = mkCtx (Nat.min (sc_col x) (c - 1)) (Nat.min (sc_row x) (r - 1)) (sc_pen x) (sc_origin x) (sc_awm x).
Proof. destruct x; reflexivity. Qed.

Lemma set_sctx_eq (t : term) x y : x = y -> t <| sctx := x |> = t <| sctx := y |>.
Proof. intros ->. reflexivity. Qed.

Lemma set_sctx_id (t : term) : t <| sctx := sctx t |> = t.
Proof. destruct t; reflexivity. Qed.

Lemma set_sctx_twice (t : term) x y : t <| sctx := x |> <| sctx := y |> = t <| sctx := y |>.
Proof. destruct t; reflexivity. Qed.

Lemma rtail_clamp t : rtail t = t <| sctx := clamp_ctx (sctx t) (cols t) (rows t) |>.
Proof.
  unfold rtail. rewrite clamp_ctx_eq.
  assert (Hfin : forall x, x = mkCtx (Nat.min (sc_col (sctx t)) (cols t - 1)) (Nat.min (sc_row (sctx t)) (rows t - 1))
                                 (sc_pen (sctx t)) (sc_origin (sctx t)) (sc_awm (sctx t)) ->
                 t <| sctx := x |> = t <| sctx := mkCtx (Nat.min (sc_col (sctx t)) (cols t - 1)) (Nat.min (sc_row (sctx t)) (rows t - 1))
                                 (sc_pen (sctx t)) (sc_origin (sctx t)) (sc_awm (sctx t)) |>).
  { intros x ->. reflexivity. }
  destruct (Nat.leb_spec (cols t) (sc_col (sctx t))) as [H1|H1]; psimpl;
    destruct (Nat.leb_spec (rows t) (sc_row (sctx t))) as [H2|H2]; psimpl.
  - rewrite set_sctx_twice. apply Hfin.
    destruct (sctx t) as [sc sr sp so sa]. cbn [sc_col sc_row sc_pen sc_origin sc_awm] in *.
    unfold set; cbn [sc_col sc_row sc_pen sc_origin sc_awm]. f_equal; lia.
  - apply Hfin.
    destruct (sctx t) as [sc sr sp so sa]. cbn [sc_col sc_row sc_pen sc_origin sc_awm] in *.
    unfold set; cbn [sc_col sc_row sc_pen sc_origin sc_awm]. f_equal; lia.
  - apply Hfin.
    destruct (sctx t) as [sc sr sp so sa]. cbn [sc_col sc_row sc_pen sc_origin sc_awm] in *.
    unfold set; cbn [sc_col sc_row sc_pen sc_origin sc_awm]. f_equal; lia.
  - rewrite <- (set_sctx_id t) at 1. apply Hfin.
    destruct (sctx t) as [sc sr sp so sa]. cbn [sc_col sc_row sc_pen sc_origin sc_awm] in *.
    f_equal; lia.
Qed.

Definition reflow_head (t : term) : res term :=
  let t := if negb (cols t =? bcols (buf t)) then t <| pend := false |> else t in
  '(b, (c, r)) <- buf_resize (buf t) (cols t) (rows t) (cur_col t) (cur_row t) ;;
  let t := t <| buf := b |> <| cur_col := c |> <| cur_row := r |> in
  let t := t <| dirty := dirty_resize (dirty t) (rows t) |> in
  mark_range t 0 (rows t).

Lemma reflow_split t : reflow t = (t1 <- reflow_head t ;; Ok (rtail t1)).
Proof.
  unfold reflow, reflow_head.
  set (t0 := if negb (cols t =? bcols (buf t)) then t <| pend := false |> else t). clearbody t0.
  destruct (buf_resize (buf t0) (cols t0) (rows t0) (cur_col t0) (cur_row t0)) as [[b [c r]]|e];
    cbn [bind]; [|reflexivity].
  match goal with |- context [mark_range ?x ?y ?z] => destruct (mark_range x y z) as [t1|e] end;
    cbn [bind]; reflexivity.
Qed.

Lemma reflow_head_sctx t s :
  reflow_head (t <| sctx := s |>) = fmap (fun t' => t' <| sctx := s |>) (reflow_head t)
  /\ (forall t1, reflow_head t = Ok t1 -> cols t1 = cols t /\ rows t1 = rows t).
Proof.
  unfold reflow_head. psimpl.
  destruct (negb (cols t =? bcols (buf t))); psimpl;
  (destruct (buf_resize (buf t) (cols t) (rows t) (cur_col t) (cur_row t)) as [[b [c r]]|e];
    cbn [bind fmap]; [|split; [reflexivity|discriminate]]);
  psimpl; unfold mark_range; psimpl;
  (match goal with |- context [dirty_extend ?d ?x ?y] => destruct (dirty_extend d x y) as [d'|e] end;
    cbn [bind fmap]; [|split; [reflexivity|discriminate]]);
  (split; [f_equal; destruct t; reflexivity|intros t1 E; injection E as <-; split; reflexivity]).
Qed.

Lemma reflow_sctx t s :
  reflow (t <| sctx := s |>)
  = fmap (fun t' => t' <| sctx := clamp_ctx s (cols t) (rows t) |>) (reflow t).
Proof.
  rewrite !reflow_split. destruct (reflow_head_sctx t s) as [E HC]. rewrite E.
  destruct (reflow_head t) as [t1|e]; cbn [bind fmap]; [|reflexivity].
  destruct (HC t1 eq_refl) as [Hc Hr]. rewrite !rtail_clamp. psimpl. rewrite Hc, Hr.
  f_equal; try (destruct t1; reflexivity).
Qed.

Lemma set_sctx_split (t : term) K : t = (t <| sctx := K |>) <| sctx := sctx t |>.
Proof. destruct t; reflexivity. Qed.

Section Terms.
Variables (tr cl : bool).   (* [cl]: compare the inactive saved context only after clamping *)
Variables (L1 L2 : option N).   (* the configured scrollback limits of the two terminals *)

(** [Rx Dp Da a b]: [a] carries the extra prefix [Dp] above the view of its primary buffer
    and [Da] above the view of its alternate buffer; both buffers of both terminals have the
    terminal's geometry; the primary buffers have the configured limits, the alternate
    buffers the limit (0,0); [xtw] is off. *)
Record Rx (Dp Da : list line) (a b : term) : Prop := mkRx {
  x_cols : cols a = cols b;
  x_rows : rows a = rows b;
  x_buf : RBg tr (cols a) (rows a) (lim_sel (sb_limit a) (active a)) (lim_sel (sb_limit b) (active a))
              (Dsel Dp Da (active a)) (buf a) (buf b);
  (* the parked buffer: the parked PRIMARY is related like the active buffer; the parked
     ALTERNATE is never read (it is replaced by a fresh buffer on the next entry), so nothing
     is required of it - except, for the equational corollaries ([tr = true]), that it is the
     chopped copy *)
  x_other : match active a with
            | Primary => tr = true ->
                         other b = chop (length Da) (other a) /\ length Da <= sb_len (other a)
            | Alternate => RBg tr (cols a) (rows a) (limit_of (sb_limit a)) (limit_of (sb_limit b))
                               Dp (other a) (other b)
            end;
  x_active : active a = active b;
  x_sl1 : sb_limit a = L1;
  x_sl2 : sb_limit b = L2;
  x_cur_col : cur_col a = cur_col b;
  x_cur_row : cur_row a = cur_row b;
  x_cur_vis : cur_vis a = cur_vis b;
  x_tpen : tpen a = tpen b;
  x_cs0 : cs0 a = cs0 b;
  x_cs1 : cs1 a = cs1 b;
  x_acs : acs a = acs b;
  x_tabs : tabs a = tabs b;
  x_ins : ins a = ins b;
  x_org : org a = org b;
  x_awm : awm a = awm b;
  x_nlm : nlm a = nlm b;
  x_ckm : ckm a = ckm b;
  x_pend : pend a = pend b;
  x_top : top a = top b;
  x_bot : bot a = bot b;
  x_sctx : sctx a = sctx b;
  (* the inactive screen's saved context: while the primary screen is active the alternate's
     saved context is only ever read through [switch_to_alternate_buffer ;; reflow], which
     clamps it - with [cl = true] only the clamped values have to agree *)
  x_asctx : match cl, active a with
            | true, Primary => clamp_ctx (asctx a) (cols a) (rows a) = clamp_ctx (asctx b) (cols a) (rows a)
            | _, _ => asctx a = asctx b
            end;
  x_dirty_len : length (dirty a) = length (dirty b);
  x_dirty : leq tr (dirty a) (dirty b);
  x_xtw : xtw a = xtw b;
  x_xtw0 : xtw a = false
}.

Section Fixed.
Variables (Dp Da : list line).
Notation R := (Rx Dp Da).

Lemma x_bc1 a b : R a b -> bcols (buf a) = cols a.
Proof. intros H. exact (g_c1 _ _ _ _ _ _ _ _ (x_buf _ _ _ _ H)). Qed.
Lemma x_br1 a b : R a b -> brows (buf a) = rows a.
Proof. intros H. exact (g_r1 _ _ _ _ _ _ _ _ (x_buf _ _ _ _ H)). Qed.
Lemma x_bc2 a b : R a b -> bcols (buf b) = cols a.
Proof. intros H. exact (g_c2 _ _ _ _ _ _ _ _ (x_buf _ _ _ _ H)). Qed.
Lemma x_br2 a b : R a b -> brows (buf b) = rows a.
Proof. intros H. exact (g_r2 _ _ _ _ _ _ _ _ (x_buf _ _ _ _ H)). Qed.

Ltac rx_rw H :=
  rewrite ?(x_bc1 _ _ H), ?(x_br1 _ _ H), ?(x_bc2 _ _ H), ?(x_br2 _ _ H),
    <- ?(x_cols _ _ _ _ H), <- ?(x_rows _ _ _ _ H), <- ?(x_active _ _ _ _ H),
    <- ?(x_cur_col _ _ _ _ H), <- ?(x_cur_row _ _ _ _ H), <- ?(x_cur_vis _ _ _ _ H),
    <- ?(x_tpen _ _ _ _ H), <- ?(x_cs0 _ _ _ _ H), <- ?(x_cs1 _ _ _ _ H), <- ?(x_acs _ _ _ _ H),
    <- ?(x_tabs _ _ _ _ H), <- ?(x_ins _ _ _ _ H), <- ?(x_org _ _ _ _ H), <- ?(x_awm _ _ _ _ H),
    <- ?(x_nlm _ _ _ _ H), <- ?(x_ckm _ _ _ _ H), <- ?(x_pend _ _ _ _ H), <- ?(x_top _ _ _ _ H),
    <- ?(x_bot _ _ _ _ H), <- ?(x_sctx _ _ _ _ H), <- ?(x_xtw _ _ _ _ H).

Ltac rx_close H :=
  constructor; psimpl; rx_rw H;
  first [ reflexivity | apply H | apply leq_refl | idtac ].

Ltac split_ifs :=
  repeat match goal with
  | |- context [if ?c then _ else _] => destruct c
  end.

Ltac pure_tac H := psimpl; rx_rw H; split_ifs; rx_close H.


Lemma do_col_R a b c : R a b -> R (do_move_cursor_to_col a c) (do_move_cursor_to_col b c).
Proof. intros H. unfold do_move_cursor_to_col. pure_tac H. Qed.

Lemma do_row_R a b c : R a b -> R (do_move_cursor_to_row a c) (do_move_cursor_to_row b c).
Proof. intros H. unfold do_move_cursor_to_row. pure_tac H. Qed.

Lemma to_col_R a b c : R a b -> R (move_cursor_to_col a c) (move_cursor_to_col b c).
Proof. intros H. unfold move_cursor_to_col, do_move_cursor_to_col. pure_tac H. Qed.

Lemma to_row_R a b c : R a b -> R (move_cursor_to_row a c) (move_cursor_to_row b c).
Proof.
  intros H. unfold move_cursor_to_row, actual_top_margin, actual_bottom_margin, do_move_cursor_to_row.
  pure_tac H.
Qed.

Lemma rel_col_R a b z : R a b -> R (move_cursor_to_rel_col a z) (move_cursor_to_rel_col b z).
Proof. intros H. unfold move_cursor_to_rel_col, do_move_cursor_to_col. pure_tac H. Qed.

Lemma home_R a b : R a b -> R (move_cursor_home a) (move_cursor_home b).
Proof.
  intros H. unfold move_cursor_home, actual_top_margin, do_move_cursor_to_row, do_move_cursor_to_col.
  pure_tac H.
Qed.

Lemma cursor_down_R a b n : R a b -> R (cursor_down a n) (cursor_down b n).
Proof. intros H. unfold cursor_down, do_move_cursor_to_row. pure_tac H. Qed.

Lemma cursor_up_R a b n : R a b -> R (cursor_up a n) (cursor_up b n).
Proof. intros H. unfold cursor_up, do_move_cursor_to_row. pure_tac H. Qed.

Lemma bs_R a b : R a b -> R (bs a) (bs b).
Proof. intros H. unfold bs. rx_rw H. destruct (pend a); apply rel_col_R; exact H. Qed.

Lemma cub_R a b n : R a b -> R (cub a n) (cub b n).
Proof. intros H. unfold cub. rx_rw H. apply rel_col_R; exact H. Qed.

Lemma cup_R a b r c : R a b -> R (cup a r c) (cup b r c).
Proof. intros H. unfold cup. apply to_row_R, to_col_R; exact H. Qed.

Lemma set_tab_R a b : R a b -> R (set_tab a) (set_tab b).
Proof. intros H. unfold set_tab. pure_tac H. Qed.

Lemma clear_tab_R a b : R a b -> R (clear_tab a) (clear_tab b).
Proof. intros H. unfold clear_tab. pure_tac H. Qed.

Lemma clear_all_tabs_R a b : R a b -> R (clear_all_tabs a) (clear_all_tabs b).
Proof. intros H. unfold clear_all_tabs. pure_tac H. Qed.

Lemma ctc_R a b op : R a b -> R (ctc a op) (ctc b op).
Proof.
  intros H. destruct op; cbn [ctc]; auto using set_tab_R, clear_tab_R, clear_all_tabs_R.
Qed.

Lemma tbc_R a b s : R a b -> R (tbc a s) (tbc b s).
Proof. intros H. destruct s; cbn [tbc]; auto using clear_tab_R, clear_all_tabs_R. Qed.

Lemma save_R a b : R a b -> R (save_cursor a) (save_cursor b).
Proof. intros H. unfold save_cursor, save_cursor_gen. pure_tac H. Qed.

Lemma restore_R a b : R a b -> R (restore_cursor a) (restore_cursor b).
Proof. intros H. unfold restore_cursor, restore_cursor_gen. pure_tac H. Qed.

Lemma soft_R a b : R a b -> R (soft_reset_gen a) (soft_reset_gen b).
Proof. intros H. unfold soft_reset_gen. pure_tac H. Qed.

Lemma hard_R a b : R a b -> Rx [] [] (hard_reset_gen a) (hard_reset_gen b).
Proof.
  intros H. unfold hard_reset_gen. pure_tac H.
  - apply buffer_new_G.
  - intros _. cbn [length]. rewrite chop_0. split; [reflexivity|lia].
  - destruct cl; reflexivity.
Qed.

Lemma decstbm_R a b tp bt : R a b -> R (decstbm a tp bt) (decstbm b tp bt).
Proof.
  intros H. unfold decstbm. rx_rw H. apply home_R.
  destruct ((as_usize tp 1 - 1 <? as_usize bt (rows a) - 1) && (as_usize bt (rows a) - 1 <? rows a));
    [|exact H]. pure_tac H.
Qed.

Lemma sm_R ms : forall a b, R a b -> R (fold_left sm_one ms a) (fold_left sm_one ms b).
Proof.
  induction ms as [|m ms IH]; intros a b H; cbn [fold_left]; [exact H|].
  apply IH. destruct m; cbn [sm_one]; pure_tac H.
Qed.

Lemma rm_R ms : forall a b, R a b -> R (fold_left rm_one ms a) (fold_left rm_one ms b).
Proof.
  induction ms as [|m ms IH]; intros a b H; cbn [fold_left]; [exact H|].
  apply IH. destruct m; cbn [rm_one]; pure_tac H.
Qed.

Lemma sgr_R a b ops : R a b -> R (sgr a ops) (sgr b ops).
Proof. intros H. unfold sgr. pure_tac H. Qed.

(** ** monadic helpers *)

Definition RBa (a b : term) : buffer -> buffer -> Prop :=
  RBg tr (cols a) (rows a) (lim_sel (sb_limit a) (active a)) (lim_sel (sb_limit b) (active a))
      (Dsel Dp Da (active a)).

Lemma on_buf_R a b g1 g2 :
  R a b -> (forall x y, RBa a b x y -> rres (RBa a b) (g1 x) (g2 y)) ->
  rres R (on_buf a g1) (on_buf b g2).
Proof.
  intros H Hg. unfold on_buf. apply (rres_bind (RBa a b)); [apply Hg, H|].
  intros x y Hxy. constructor. pure_tac H. exact Hxy.
Qed.

Lemma set_dirty_R a b d1 d2 :
  R a b -> length d1 = length d2 -> leq tr d1 d2 -> R (a <| dirty := d1 |>) (b <| dirty := d2 |>).
Proof. intros H Hd Hq. pure_tac H; assumption. Qed.

Lemma mark_R a b n : R a b -> rres R (mark a n) (mark b n).
Proof.
  intros H. unfold mark, dirty_add. rewrite <- (x_dirty_len _ _ _ _ H).
  destruct (n <? length (dirty a)); cbn [bind]; constructor.
  apply set_dirty_R; [exact H| |].
  - rewrite !upd_length. apply H.
  - intros E. rewrite (x_dirty _ _ _ _ H E). reflexivity.
Qed.

Lemma mark_range_R a b x z : R a b -> rres R (mark_range a x z) (mark_range b x z).
Proof.
  intros H. unfold mark_range, dirty_extend. rewrite <- (x_dirty_len _ _ _ _ H).
  destruct ((x <=? z) && (z <=? length (dirty a))) eqn:E; cbn [bind]; constructor.
  apply set_dirty_R; [exact H| |].
  - rewrite !fill_range_len; try lia. apply H. rewrite <- (x_dirty_len _ _ _ _ H). lia.
  - intros E'. rewrite (x_dirty _ _ _ _ H E'). reflexivity.
Qed.

Lemma to_next_tab_R a b n :
  R a b -> rres R (move_cursor_to_next_tab a n) (move_cursor_to_next_tab b n).
Proof.
  intros H. unfold move_cursor_to_next_tab. rx_rw H.
  apply (rres_bind eq); [apply rres_eq_refl|]. intros o _ <-. constructor. apply to_col_R; exact H.
Qed.

Lemma to_prev_tab_R a b n :
  R a b -> rres R (move_cursor_to_prev_tab a n) (move_cursor_to_prev_tab b n).
Proof.
  intros H. unfold move_cursor_to_prev_tab. rx_rw H.
  apply (rres_bind eq); [apply rres_eq_refl|]. intros o _ <-. constructor. apply to_col_R; exact H.
Qed.

Lemma scroll_up_R a b n :
  R a b -> rres R (scroll_up_in_region a n) (scroll_up_in_region b n).
Proof.
  intros H. unfold scroll_up_in_region. rx_rw H.
  apply (rres_bind R).
  - apply on_buf_R; [exact H|]. intros x y Hxy. apply buf_scroll_up_G; exact Hxy.
  - intros x y Hxy. apply mark_range_R; exact Hxy.
Qed.

Lemma scroll_down_R a b n :
  R a b -> rres R (scroll_down_in_region a n) (scroll_down_in_region b n).
Proof.
  intros H. unfold scroll_down_in_region. rx_rw H.
  apply (rres_bind R).
  - apply on_buf_R; [exact H|]. intros x y Hxy. apply buf_scroll_down_G; exact Hxy.
  - intros x y Hxy. apply mark_range_R; exact Hxy.
Qed.

Lemma down_with_scroll_R a b :
  R a b -> rres R (move_cursor_down_with_scroll a) (move_cursor_down_with_scroll b).
Proof.
  intros H. unfold move_cursor_down_with_scroll. rx_rw H.
  destruct (cur_row a =? bot a); [apply scroll_up_R; exact H|].
  destruct (cur_row a <? rows a - 1); constructor; [apply do_row_R|]; exact H.
Qed.

Lemma lf_R a b : R a b -> rres R (lf a) (lf b).
Proof.
  intros H. unfold lf. apply (rres_bind R); [apply down_with_scroll_R; exact H|].
  intros x y Hxy. constructor. rx_rw Hxy. destruct (nlm x); [apply do_col_R|]; exact Hxy.
Qed.

Lemma nel_R a b : R a b -> rres R (nel a) (nel b).
Proof.
  intros H. unfold nel. apply (rres_bind R); [apply down_with_scroll_R; exact H|].
  intros x y Hxy. constructor. apply do_col_R; exact Hxy.
Qed.

Lemma ri_R a b : R a b -> rres R (ri a) (ri b).
Proof.
  intros H. unfold ri. rx_rw H.
  destruct (cur_row a =? top a); [apply scroll_down_R; exact H|].
  destruct (0 <? cur_row a); constructor; [apply do_row_R|]; exact H.
Qed.

Lemma print_R a b c : R a b -> rres R (print a c) (print b c).
Proof.
  intros H. unfold print, active_cs. rx_rw H.
  apply (rres_bind eq); [apply rres_eq_refl|]. intros cs _ <-.
  apply (rres_bind eq); [apply rres_eq_refl|]. intros c' _ <-.
  apply (rres_bind R).
  { destruct (awm a && pend a); [|constructor; exact H].
    pose proof (do_col_R _ _ 0 H) as H0.
    set (a0 := do_move_cursor_to_col a 0) in *. set (b0 := do_move_cursor_to_col b 0) in *.
    clearbody a0 b0. rx_rw H0.
    destruct (cur_row a0 =? bot a0).
    - apply (rres_bind R).
      + apply on_buf_R; [exact H0|]. intros x y Hxy. apply buf_wrap_G; exact Hxy.
      + intros x y Hxy. apply scroll_up_R; exact Hxy.
    - destruct (cur_row a0 <? rows a0 - 1); [|constructor; exact H0].
      apply (rres_bind R).
      + apply on_buf_R; [exact H0|]. intros x y Hxy. apply buf_wrap_G; exact Hxy.
      + intros x y Hxy. constructor. rx_rw Hxy. apply do_row_R; exact Hxy. }
  intros a1 b1 H1. rx_rw H1.
  apply (rres_bind R).
  2:{ intros x y Hxy. rx_rw Hxy. apply mark_R; exact Hxy. }
  destruct (cols a1 <=? cur_col a1 + 1).
  - apply (rres_bind R).
    + apply on_buf_R; [exact H1|]. intros x y Hxy. apply buf_print_G; exact Hxy.
    + intros x y Hxy. rx_rw Hxy. destruct (awm x); constructor; [|exact Hxy].
      pose proof (do_col_R _ _ (cols x) Hxy) as H2. pure_tac H2.
  - apply (rres_bind R).
    + destruct (ins a1); (apply on_buf_R; [exact H1|]); intros x y Hxy;
        [apply buf_insert_G|apply buf_print_G]; exact Hxy.
    + intros x y Hxy. constructor. apply do_col_R; exact Hxy.
Qed.

Lemma print_n_R n c : forall a b, R a b -> rres R (print_n n a c) (print_n n b c).
Proof.
  induction n as [|n IH]; intros a b H; cbn [print_n]; [constructor; exact H|].
  apply (rres_bind R); [apply print_R; exact H|]. intros x y Hxy. apply IH; exact Hxy.
Qed.

Lemma rep_R a b n : R a b -> rres R (rep a n) (rep b n).
Proof.
  intros H. unfold rep. rx_rw H. rewrite <- (get_row_G _ _ _ _ _ _ _ _ _ (x_buf _ _ _ _ H)).
  destruct (0 <? cur_col a); [|constructor; exact H].
  apply (rres_bind eq); [apply rres_eq_refl|]. intros l _ <-.
  destruct (nth_error (cells l) (cur_col a - 1)); [|constructor].
  apply print_n_R; exact H.
Qed.

Lemma decaln_rows_R n : forall a b row, R a b -> rres R (decaln_rows a n row) (decaln_rows b n row).
Proof.
  induction n as [|n IH]; intros a b row H; cbn [decaln_rows]; [constructor; exact H|].
  rx_rw H.
  apply (rres_bind R).
  { apply on_buf_R; [exact H|]. intros x y Hxy. apply decaln_cols_G; exact Hxy. }
  intros x y Hxy. apply (rres_bind R); [apply mark_R; exact Hxy|].
  intros x' y' Hxy'. apply IH; exact Hxy'.
Qed.

Lemma decaln_R a b : R a b -> rres R (decaln a) (decaln b).
Proof. intros H. unfold decaln. rx_rw H. apply decaln_rows_R; exact H. Qed.

Lemma ich_R a b n : R a b -> rres R (ich a n) (ich b n).
Proof.
  intros H. unfold ich. rx_rw H. apply (rres_bind R).
  - apply on_buf_R; [exact H|]. intros x y Hxy. apply buf_insert_G; exact Hxy.
  - intros x y Hxy. rx_rw Hxy. apply mark_R; exact Hxy.
Qed.

Lemma ech_R a b n : R a b -> rres R (ech a n) (ech b n).
Proof.
  intros H. unfold ech. rx_rw H. apply (rres_bind R).
  - apply on_buf_R; [exact H|]. intros x y Hxy. apply buf_erase_G; exact Hxy.
  - intros x y Hxy. rx_rw Hxy. apply mark_R; exact Hxy.
Qed.

Lemma dch_R a b n : R a b -> rres R (dch a n) (dch b n).
Proof.
  intros H. unfold dch. rx_rw H.
  assert (H0 : R (if cols a <=? cur_col a then move_cursor_to_col a (cols a - 1) else a)
                 (if cols a <=? cur_col a then move_cursor_to_col b (cols a - 1) else b)).
  { destruct (cols a <=? cur_col a); [apply to_col_R|]; exact H. }
  set (a0 := if cols a <=? cur_col a then move_cursor_to_col a (cols a - 1) else a) in *.
  set (b0 := if cols a <=? cur_col a then move_cursor_to_col b (cols a - 1) else b) in *.
  clearbody a0 b0. rx_rw H0. apply (rres_bind R).
  - apply on_buf_R; [exact H0|]. intros x y Hxy. apply buf_delete_G; exact Hxy.
  - intros x y Hxy. rx_rw Hxy. apply mark_R; exact Hxy.
Qed.

Lemma el_R a b s : R a b -> rres R (el a s) (el b s).
Proof.
  intros H. unfold el. rx_rw H. apply (rres_bind R).
  - apply on_buf_R; [exact H|]. intros x y Hxy. apply buf_erase_G; exact Hxy.
  - intros x y Hxy. rx_rw Hxy. apply mark_R; exact Hxy.
Qed.

Lemma ed_R a b s : R a b -> rres R (ed a s) (ed b s).
Proof.
  intros H. unfold ed. rx_rw H.
  destruct s; [| | |constructor; exact H];
    (apply (rres_bind R);
     [apply on_buf_R; [exact H|]; intros x y Hxy; apply buf_erase_G; exact Hxy
     |intros x y Hxy; rx_rw Hxy; apply mark_range_R; exact Hxy]).
Qed.

Lemma il_R a b n : R a b -> rres R (il a n) (il b n).
Proof.
  intros H. unfold il, il_dl_range. rx_rw H.
  destruct (cur_row a <=? bot a);
    (apply (rres_bind R);
     [apply on_buf_R; [exact H|]; intros x y Hxy; apply buf_scroll_down_G; exact Hxy
     |intros x y Hxy; apply mark_range_R; exact Hxy]).
Qed.

Lemma dl_R a b n : R a b -> rres R (dl a n) (dl b n).
Proof.
  intros H. unfold dl, il_dl_range. rx_rw H.
  destruct (cur_row a <=? bot a);
    (apply (rres_bind R);
     [apply on_buf_R; [exact H|]; intros x y Hxy; apply buf_scroll_up_G; exact Hxy
     |intros x y Hxy; apply mark_range_R; exact Hxy]).
Qed.

Lemma dirty_resize_len d n : length (dirty_resize d n) = Nat.min n (length d) + (n - length d).
Proof. unfold dirty_resize. rewrite app_length, firstn_length, repeat_length. reflexivity. Qed.

(** [reflow]: both buffers have the terminal's geometry, so it only sets the trim flag *)
Lemma reflow_R a b : R a b -> rres R (reflow a) (reflow b).
Proof.
  intros H. unfold reflow. rx_rw H.
  assert (H0 : R (if negb (cols a =? cols a) then a <| pend := false |> else a)
                 (if negb (cols a =? cols a) then b <| pend := false |> else b)).
  { destruct (negb (cols a =? cols a)); [pure_tac H|exact H]. }
  set (a0 := if negb (cols a =? cols a) then a <| pend := false |> else a) in *.
  set (b0 := if negb (cols a =? cols a) then b <| pend := false |> else b) in *.
  clearbody a0 b0. rx_rw H0.
  apply (rres_bind (fun x y => RBa a0 b0 (fst x) (fst y) /\ snd x = snd y)).
  { apply buf_resize_G. apply H0. }
  intros [x [c r]] [y [c' r']] [Hxy E]. cbn [fst snd] in Hxy, E. injection E as <- <-.
  psimpl. rx_rw H0.
  apply (rres_bind R).
  { apply mark_range_R. pure_tac H0.
    - exact Hxy.
    - rewrite !dirty_resize_len, (x_dirty_len _ _ _ _ H0). reflexivity.
    - intros E. rewrite (x_dirty _ _ _ _ H0 E). reflexivity. }
  intros a1 b1 H1. constructor. rx_rw H1.
  assert (H2 : R (if cols a1 <=? sc_col (sctx a1) then a1 <| sctx := (sctx a1) <| sc_col := cols a1 - 1 |> |> else a1)
                 (if cols a1 <=? sc_col (sctx a1) then b1 <| sctx := (sctx a1) <| sc_col := cols a1 - 1 |> |> else b1)).
  { destruct (cols a1 <=? sc_col (sctx a1)); [pure_tac H1|exact H1]. }
  set (a2 := if cols a1 <=? sc_col (sctx a1) then _ else a1) in *.
  set (b2 := if cols a1 <=? sc_col (sctx a1) then _ else b1) in *.
  clearbody a2 b2. rx_rw H2.
  destruct (rows a2 <=? sc_row (sctx a2)); [pure_tac H2|exact H2].
Qed.

Lemma xtwinops_R a b op : R a b -> rres R (xtwinops a op) (xtwinops b op).
Proof.
  intros H. unfold xtwinops. rx_rw H. rewrite (x_xtw0 _ _ _ _ H). constructor. exact H.
Qed.

End Fixed.

(** ** buffer switching: the prefixes move with the buffers *)

Ltac upd_close H := constructor; psimpl; first [apply H | apply leq_refl | reflexivity].

Ltac rx_rw2 H :=
  rewrite <- ?(x_cols _ _ _ _ H), <- ?(x_rows _ _ _ _ H), <- ?(x_active _ _ _ _ H),
    <- ?(x_tpen _ _ _ _ H), <- ?(x_sctx _ _ _ _ H).

(** relation between a buffer switch and the [reflow] that follows it: everything related,
    except that the two [sctx] (the just-activated screen's saved context) agree only after
    clamping *)
Definition Rsw (Dp Da : list line) (x y : term) : Prop :=
  clamp_ctx (sctx x) (cols x) (rows x) = clamp_ctx (sctx y) (cols x) (rows x)
  /\ Rx Dp Da (x <| sctx := default_ctx |>) (y <| sctx := default_ctx |>).

Lemma Rsw_of Dp Da a b : Rx Dp Da a b -> Rsw Dp Da a b.
Proof.
  intros H. split; [rewrite (x_sctx _ _ _ _ H); reflexivity|]. upd_close H.
Qed.

Lemma reflow_Rsw Dp Da x y : Rsw Dp Da x y -> rres (Rx Dp Da) (reflow x) (reflow y).
Proof.
  intros [Hc H].
  replace (reflow x) with (reflow ((x <| sctx := default_ctx |>) <| sctx := sctx x |>))
    by (rewrite <- set_sctx_split; reflexivity).
  replace (reflow y) with (reflow ((y <| sctx := default_ctx |>) <| sctx := sctx y |>))
    by (rewrite <- set_sctx_split; reflexivity).
  rewrite (reflow_sctx (x <| sctx := default_ctx |>) (sctx x)),
    (reflow_sctx (y <| sctx := default_ctx |>) (sctx y)). psimpl.
  pose proof (x_cols _ _ _ _ H) as Hc1. pose proof (x_rows _ _ _ _ H) as Hr1.
  psimpl_in Hc1. psimpl_in Hr1. rewrite <- Hc1, <- Hr1, <- Hc.
  pose proof (reflow_R _ _ _ _ H) as HR.
  destruct HR as [x' y' Hxy|e]; cbn [fmap]; constructor. upd_close Hxy.
Qed.

Lemma switch_alt_R Dp Da a b :
  Rx Dp Da a b ->
  rres (Rsw Dp (match active a with Primary => [] | Alternate => Da end))
       (switch_to_alternate_buffer a) (switch_to_alternate_buffer b).
Proof.
  intros H. unfold switch_to_alternate_buffer. rewrite <- (x_active _ _ _ _ H).
  destruct (active a) eqn:EA; [|constructor; apply Rsw_of; exact H].
  pose proof (x_buf _ _ _ _ H) as Hb. rewrite EA in Hb. cbn [lim_sel Dsel] in Hb.
  pose proof (x_asctx _ _ _ _ H) as Hs. rewrite EA in Hs.
  unfold mark_range, dirty_extend. psimpl. rx_rw2 H. rewrite <- (x_dirty_len _ _ _ _ H).
  destruct ((0 <=? rows a) && (rows a <=? length (dirty a))) eqn:E; cbn [bind]; constructor.
  split.
  - psimpl. destruct cl; [exact Hs|rewrite Hs; reflexivity].
  - constructor; psimpl; rx_rw2 H; try apply H; try apply leq_refl; try reflexivity.
    + cbn [lim_sel Dsel].
      apply (buffer_new_G tr (cols a) (rows a) (Some 0%N) (Some 0%N)).
    + exact Hb.
    + destruct cl; reflexivity.
    + rewrite !fill_range_len; try lia. apply H. rewrite <- (x_dirty_len _ _ _ _ H). lia.
    + intros Et. rewrite (x_dirty _ _ _ _ H Et). reflexivity.
Qed.

Lemma switch_prim_R Dp Da a b :
  Rx Dp Da a b ->
  rres (Rx Dp Da) (switch_to_primary_buffer a) (switch_to_primary_buffer b).
Proof.
  intros H. unfold switch_to_primary_buffer. rewrite <- (x_active _ _ _ _ H).
  destruct (active a) eqn:EA; [constructor; exact H|].
  pose proof (x_buf _ _ _ _ H) as Hb. pose proof (x_other _ _ _ _ H) as Ho.
  pose proof (x_asctx _ _ _ _ H) as Hs.
  rewrite EA in Hb, Ho, Hs. cbn [lim_sel Dsel] in Hb, Ho.
  assert (Hs' : asctx a = asctx b) by (destruct cl; exact Hs).
  psimpl. rx_rw2 H. apply mark_range_R.
  constructor; psimpl; rx_rw2 H; try apply H; try apply leq_refl; try reflexivity.
  - cbn [lim_sel Dsel]. exact Ho.
  - intros Et. split; [eapply RBg_chop_inv'; [exact Hb|reflexivity|exact Et]|].
    exact (g_len _ _ _ _ _ _ _ _ Hb).
  - exact Hs'.
  - destruct cl; reflexivity.
Qed.

(** post-relation of a control function: the primary prefix stays, the alternate prefix may
    be reset (a fresh alternate buffer on entry) *)
Definition Rpost (Dp Da : list line) (a b : term) : Prop :=
  exists Da', (Da = [] -> Da' = []) /\ Rx Dp Da' a b.

Lemma Rpost_of Dp Da a b : Rx Dp Da a b -> Rpost Dp Da a b.
Proof. intros H. exists Da. split; [auto|exact H]. Qed.

Lemma decset_one_R Dp Da a b m :
  Rx Dp Da a b -> rres (Rpost Dp Da) (decset_one a m) (decset_one b m).
Proof.
  intros H.
  assert (Hsw : forall a b, Rx Dp Da a b ->
            rres (Rpost Dp Da) (t <- switch_to_alternate_buffer a ;; reflow t)
                               (t <- switch_to_alternate_buffer b ;; reflow t)).
  { clear a b H. intros a b H.
    apply (rres_bind (Rsw Dp (match active a with Primary => [] | Alternate => Da end)));
      [apply switch_alt_R; exact H|].
    intros x y Hxy. eapply rres_impl; [|apply reflow_Rsw; exact Hxy].
    intros x' y' Hxy'. exists (match active a with Primary => [] | Alternate => Da end).
    split; [|exact Hxy']. destruct (active a); auto. }
  destruct m; cbn [decset_one].
  - constructor. apply Rpost_of. upd_close H.
  - constructor. apply Rpost_of. apply home_R. upd_close H.
  - constructor. apply Rpost_of. upd_close H.
  - constructor. apply Rpost_of. upd_close H.
  - apply Hsw; exact H.
  - constructor. apply Rpost_of. apply save_R; exact H.
  - apply Hsw. apply save_R; exact H.
Qed.

Lemma decrst_one_R Dp Da a b m :
  Rx Dp Da a b -> rres (Rpost Dp Da) (decrst_one a m) (decrst_one b m).
Proof.
  intros H. destruct m; cbn [decrst_one].
  - constructor. apply Rpost_of. upd_close H.
  - constructor. apply Rpost_of. apply home_R. upd_close H.
  - constructor. apply Rpost_of. upd_close H.
  - constructor. apply Rpost_of. upd_close H.
  - apply (rres_bind (Rx Dp Da)); [apply switch_prim_R; exact H|]. intros x y Hxy.
    eapply rres_impl; [apply Rpost_of|]. apply reflow_R; exact Hxy.
  - constructor. apply Rpost_of. apply restore_R; exact H.
  - apply (rres_bind (Rx Dp Da)); [apply switch_prim_R; exact H|]. intros x y Hxy.
    eapply rres_impl; [apply Rpost_of|]. apply reflow_R, restore_R; exact Hxy.
Qed.

Lemma foldM_R {X} (f : term -> X -> res term) Dp ms :
  (forall Da a b m, Rx Dp Da a b -> rres (Rpost Dp Da) (f a m) (f b m)) ->
  forall Da a b, Rx Dp Da a b -> rres (Rpost Dp Da) (foldM f ms a) (foldM f ms b).
Proof.
  intros Hf. induction ms as [|m ms IH]; intros Da a b H; cbn [foldM];
    [constructor; apply Rpost_of; exact H|].
  apply (rres_bind (Rpost Dp Da)); [apply Hf; exact H|].
  intros x y (Da' & HDa & Hxy). eapply rres_impl; [|apply (IH Da'); exact Hxy].
  intros x' y' (Da'' & HDa' & Hxy'). exists Da''. split; [auto|exact Hxy'].
Qed.

Definition is_ris (f : func) : bool := match f with Ris => true | _ => false end.

Theorem execute_Rx Dp Da a b f :
  Rx Dp Da a b ->
  rres (Rpost (if is_ris f then [] else Dp) Da) (execute a f) (execute b f).
Proof.
  intros H.
  assert (HP : forall m1 m2, rres (Rx Dp Da) m1 m2 -> rres (Rpost Dp Da) m1 m2).
  { intros m1 m2. apply rres_impl. apply Rpost_of. }
  destruct f; cbn [execute is_ris].
  - apply HP; constructor; apply bs_R; exact H.
  - apply HP; apply to_prev_tab_R; exact H.
  - apply HP; constructor; apply to_col_R; exact H.
  - apply HP; apply to_next_tab_R; exact H.
  - apply HP; constructor; apply do_col_R, cursor_down_R; exact H.
  - apply HP; constructor; apply do_col_R, cursor_up_R; exact H.
  - apply HP; constructor; apply do_col_R; exact H.
  - apply HP; constructor; apply ctc_R; exact H.
  - apply HP; constructor; apply cub_R; exact H.
  - apply HP; constructor; apply cursor_down_R; exact H.
  - apply HP; constructor; apply rel_col_R; exact H.
  - apply HP; constructor; apply cup_R; exact H.
  - apply HP; constructor; apply cursor_up_R; exact H.
  - apply HP; apply dch_R; exact H.
  - apply HP; apply decaln_R; exact H.
  - apply HP; constructor; apply restore_R; exact H.
  - apply foldM_R; [intros; apply decrst_one_R; assumption|exact H].
  - apply HP; constructor; apply save_R; exact H.
  - apply foldM_R; [intros; apply decset_one_R; assumption|exact H].
  - apply HP; constructor; apply decstbm_R; exact H.
  - apply HP; constructor; apply soft_R; exact H.
  - apply HP; apply dl_R; exact H.
  - apply HP; apply ech_R; exact H.
  - apply HP; apply ed_R; exact H.
  - apply HP; apply el_R; exact H.
  - apply HP; constructor. upd_close H.
  - apply HP; constructor. upd_close H.
  - apply HP; apply to_next_tab_R; exact H.
  - apply HP; constructor; apply set_tab_R; exact H.
  - apply HP; apply ich_R; exact H.
  - apply HP; apply il_R; exact H.
  - apply HP; apply lf_R; exact H.
  - apply HP; apply nel_R; exact H.
  - apply HP; apply print_R; exact H.
  - apply HP; apply rep_R; exact H.
  - apply HP; apply ri_R; exact H.
  - constructor. exists []. split; [auto|]. eapply hard_R; exact H.
  - apply HP; constructor; apply rm_R; exact H.
  - apply HP; constructor; apply restore_R; exact H.
  - apply HP; constructor; apply save_R; exact H.
  - apply HP; apply scroll_down_R; exact H.
  - apply HP; constructor; apply sgr_R; exact H.
  - apply HP; constructor. upd_close H.
  - apply HP; constructor; apply sm_R; exact H.
  - apply HP; constructor. upd_close H.
  - apply HP; apply scroll_up_R; exact H.
  - apply HP; constructor; apply tbc_R; exact H.
  - apply HP; constructor; apply to_row_R; exact H.
  - apply HP; constructor; apply cursor_down_R; exact H.
  - apply HP; apply xtwinops_R; exact H.
Qed.

End Terms.


(** * 5. [vt_feed], [feed_chars] *)

Definition Rvx tr cl L1 L2 Dp Da (v w : vt) : Prop :=
  vparser v = vparser w /\ Rx tr cl L1 L2 Dp Da (vterm v) (vterm w).

(** does feeding [c] make the parser emit [Ris]? *)
Definition ris_at (v : vt) (c : N) : bool :=
  match feedM (vparser v) c with Ok (_, Some Ris) => true | _ => false end.

Lemma vt_feed_Rx tr cl L1 L2 Dp Da v w c :
  Rvx tr cl L1 L2 Dp Da v w ->
  rres (fun v' w' => exists Da', (Da = [] -> Da' = [])
                      /\ Rvx tr cl L1 L2 (if ris_at v c then [] else Dp) Da' v' w')
       (vt_feed v c) (vt_feed w c).
Proof.
  intros [Hp Ht]. unfold vt_feed, ris_at. rewrite <- Hp.
  destruct (feedM (vparser v) c) as [[p [f|]]|s]; cbn [bind]; [| |constructor].
  - apply (rres_bind (Rpost tr cl L1 L2 (if is_ris f then [] else Dp) Da)); [apply execute_Rx; exact Ht|].
    intros x y (Da' & HDa & Hxy). constructor. exists Da'. split; [exact HDa|].
    split; [reflexivity|]. destruct f; exact Hxy.
  - constructor. exists Da. split; [auto|]. split; [reflexivity|exact Ht].
Qed.

(** with an empty primary prefix, [Ris] is harmless *)
Lemma feed_chars_Rx0 tr cl L1 L2 s : forall Da v w,
  Rvx tr cl L1 L2 [] Da v w ->
  rres (fun v' w' => exists Da', Rvx tr cl L1 L2 [] Da' v' w') (feed_chars v s) (feed_chars w s).
Proof.
  induction s as [|c s IH]; intros Da v w H; cbn [feed_chars]; [constructor; exists Da; exact H|].
  eapply rres_bind; [apply vt_feed_Rx; exact H|].
  intros x y (Da' & _ & Hxy). apply (IH Da'). destruct (ris_at v c); exact Hxy.
Qed.

(** no character of [s], fed from [v], makes the parser emit [Ris] *)
Fixpoint ris_free (v : vt) (s : list N) : Prop :=
  match s with
  | [] => True
  | c :: r => ris_at v c = false /\ (forall v', vt_feed v c = Ok v' -> ris_free v' r)
  end.

Lemma feed_chars_Rx_nr tr cl L1 L2 Dp s : forall v w,
  Rvx tr cl L1 L2 Dp [] v w -> ris_free v s ->
  rres (Rvx tr cl L1 L2 Dp []) (feed_chars v s) (feed_chars w s).
Proof.
  induction s as [|c s IH]; intros v w H HF; cbn [feed_chars]; [constructor; exact H|].
  destruct HF as [Hc HF].
  pose proof (vt_feed_Rx _ _ _ _ _ _ _ _ c H) as HR. rewrite Hc in HR.
  remember (vt_feed v c) as m1 eqn:E1. symmetry in E1.
  destruct HR as [x y (Da' & HDa & Hxy)|s']; cbn [bind]; [|constructor].
  rewrite (HDa eq_refl) in Hxy. apply IH; [exact Hxy|]. apply HF. reflexivity.
Qed.

(** * 6. garbage collection and flush *)

Lemma buf_gc_inv b b' d :
  buf_gc b = Ok (b', d) ->
  b' = b <| trim_needed := false |> <| lines := skipn (gc_excess b) (lines b) |>
  /\ d = firstn (gc_excess b) (lines b).
Proof.
  unfold buf_gc, gc_excess. intros E. destruct (trim_needed b) eqn:T.
  - psimpl_in E. destruct (blimit b) as [[soft hard]|].
    + destruct (view_ok (b <| trim_needed := false |>)); cbn [guard bind] in E; [|discriminate].
      change (sb_len (b <| trim_needed := false |>)) with (sb_len b) in E.
      destruct (hard <? N.of_nat (sb_len b))%N.
      * destruct (soft <=? N.of_nat (sb_len b))%N eqn:Es; cbn [guard bind] in E; [|discriminate].
        injection E as <- <-.
        replace (N.to_nat (N.of_nat (sb_len b) - soft)) with (sb_len b - N.to_nat soft) by lia.
        split; reflexivity.
      * injection E as <- <-. split; [|reflexivity]. destruct b; reflexivity.
    + injection E as <- <-. split; [|reflexivity]. destruct b; reflexivity.
  - injection E as <- <-. split; [|reflexivity]. destruct b; cbn in *; subst; reflexivity.
Qed.

Lemma vt_flush_inv v v' o :
  vt_flush v = Ok (v', o) ->
  vparser v' = vparser v
  /\ vterm v' = flushed (vterm v)
  /\ o_drained o = match active (vterm v) with
                   | Primary => firstn (gc_excess (buf (vterm v))) (lines (buf (vterm v)))
                   | Alternate => []
                   end.
Proof.
  unfold vt_flush, changes, term_gc. psimpl. intros E.
  destruct (buf_gc (buf (vterm v))) as [[b' d]|s] eqn:Eg; cbn [bind] in E; [|discriminate].
  apply buf_gc_inv in Eg. destruct Eg as [-> ->]. psimpl_in E. unfold flushed.
  destruct (active (vterm v)); cbn [bind] in E; injection E as <- <-;
    (split; [destruct v; reflexivity|]); (split; [destruct v as [p t]; destruct t; reflexivity|reflexivity]).
Qed.

(** item 5: nothing is lost at a report *)
Theorem C14_flush : forall t t1 ls t2 dr,
  changes t = (t1, ls) -> term_gc t1 = Ok (t2, dr) ->
  (active t = Primary -> lines (buf t) = dr ++ lines (buf t2))
  /\ (active t = Alternate -> other t2 = other t /\ dr = [])
  /\ view (buf t2) = view (buf t).
Proof.
  intros t t1 ls t2 dr Ec Eg. unfold changes in Ec. injection Ec as <- <-.
  unfold term_gc in Eg. psimpl_in Eg.
  destruct (buf_gc (buf t)) as [[b' d]|s] eqn:E; cbn [bind] in Eg; [|discriminate].
  apply buf_gc_inv in E. destruct E as [-> ->]. psimpl_in Eg.
  pose proof (gc_excess_le (buf t)) as Hle.
  assert (Hv : view ((buf t) <| trim_needed := false |> <| lines := skipn (gc_excess (buf t)) (lines (buf t)) |>)
               = view (buf t)).
  { unfold view, sb_len in *. psimpl. rewrite skipn_length, skipn_add. f_equal. lia. }
  destruct (active t) eqn:EA; injection Eg as <- <-; psimpl.
  - split; [intros _; symmetry; apply firstn_skipn|]. split; [discriminate|exact Hv].
  - split; [discriminate|]. split; [intros _; split; reflexivity|exact Hv].
Qed.

Print Assumptions C14_flush.

(** ** the relation across a flush *)

(** only the right-hand buffer is collected (trim flags ignored) *)
Lemma RBg_gc_r c r l1 l2 D b1 b2 e :
  RBg false c r l1 l2 D b1 b2 -> e <= sb_len b2 ->
  RBg false c r l1 l2 (D ++ firstn e (lines b2)) b1
      (b2 <| trim_needed := false |> <| lines := skipn e (lines b2) |>).
Proof.
  intros H He. pose proof (G_sb_len _ _ _ _ _ _ _ _ H) as Hs. destruct H.
  constructor; psimpl; try assumption.
  - rewrite <- app_assoc, firstn_skipn. assumption.
  - rewrite app_length, firstn_length. lia.
  - intros E; discriminate.
Qed.

(** the left-hand buffer is unlimited (drops nothing), the right-hand one drops [e] rows *)
Lemma RBg_gc_l0 tr c r l1 l2 D b1 b2 e :
  RBg tr c r l1 l2 D b1 b2 -> e <= sb_len b2 ->
  RBg tr c r l1 l2 (D ++ firstn e (lines b2))
      (b1 <| trim_needed := false |> <| lines := skipn 0 (lines b1) |>)
      (b2 <| trim_needed := false |> <| lines := skipn e (lines b2) |>).
Proof.
  intros H He. pose proof (G_sb_len _ _ _ _ _ _ _ _ H) as Hs. destruct H.
  constructor; psimpl; try assumption.
  - cbn [skipn]. rewrite <- app_assoc, firstn_skipn. assumption.
  - cbn [skipn]. rewrite app_length, firstn_length. unfold sb_len in *. psimpl. lia.
  - apply leq_refl.
Qed.

Lemma RBg_nil_eq c r l D b1 b2 : D = [] -> RBg true c r l l D b1 b2 -> b1 = b2.
Proof.
  intros -> [H1 H2 H3 H4 H5 H6 H7 H8 H9]. specialize (H9 eq_refl).
  destruct b1, b2. cbn in *. subst. reflexivity.
Qed.

Lemma dirty_clear_len d : length (dirty_clear d) = length d.
Proof. unfold dirty_clear. apply repeat_length. Qed.

(** C14: both terminals flush; the left one has unlimited scrollback *)
Lemma flush_C14 L2 Dp a b :
  Rx true false None L2 Dp [] a b ->
  Rx true false None L2
     (Dp ++ match active a with
            | Primary => firstn (gc_excess (buf b)) (lines (buf b))
            | Alternate => []
            end) [] (flushed a) (flushed b).
Proof.
  intros H. pose proof (x_buf _ _ _ _ _ _ _ _ H) as Hb. pose proof (x_other _ _ _ _ _ _ _ _ H) as Ho.
  pose proof (x_sl1 _ _ _ _ _ _ _ _ H) as Hs1.
  unfold flushed. destruct (active a) eqn:EA.
  - cbn [lim_sel Dsel bt_other] in Hb, Ho.
    assert (E0 : gc_excess (buf a) = 0).
    { apply gc_excess_unlimited. rewrite (g_l1 _ _ _ _ _ _ _ _ Hb), Hs1. reflexivity. }
    rewrite E0.
    constructor; psimpl; try apply H; try rewrite EA; cbn [lim_sel Dsel bt_other].
    + apply RBg_gc_l0; [exact Hb|apply gc_excess_le].
    + exact Ho.
    + rewrite !dirty_clear_len. apply H.
    + intros _. unfold dirty_clear. rewrite (x_dirty_len _ _ _ _ _ _ _ _ H). reflexivity.
  - cbn [lim_sel Dsel bt_other] in Hb, Ho. rewrite app_nil_r.
    pose proof (RBg_nil_eq _ _ _ _ _ _ eq_refl Hb) as Eb.
    constructor; psimpl; try apply H; try rewrite EA; cbn [lim_sel Dsel bt_other].
    + rewrite <- Eb. pose proof (gc_excess_le (buf a)) as Hle.
      destruct Hb. unfold sb_len in *. constructor; psimpl; try assumption; try apply leq_refl.
      all: try reflexivity; try (cbn [length]; lia); try congruence.
    + rewrite !dirty_clear_len. apply H.
    + intros _. unfold dirty_clear. rewrite (x_dirty_len _ _ _ _ _ _ _ _ H). reflexivity.
Qed.

(** C12: only the right-hand terminal flushes; both unlimited *)
Lemma flush_right_C12 Da a b :
  Rx false false None None [] Da a b -> exists Da', Rx false false None None [] Da' a (flushed b).
Proof.
  intros H. pose proof (x_buf _ _ _ _ _ _ _ _ H) as Hb. pose proof (x_other _ _ _ _ _ _ _ _ H) as Ho.
  pose proof (x_sl2 _ _ _ _ _ _ _ _ H) as Hs2. pose proof (gc_excess_le (buf b)) as Hle.
  unfold flushed. destruct (active a) eqn:EA; cbn [lim_sel Dsel bt_other] in Hb, Ho.
  - exists Da.
    assert (E0 : gc_excess (buf b) = 0).
    { apply gc_excess_unlimited. rewrite (g_l2 _ _ _ _ _ _ _ _ Hb), Hs2. reflexivity. }
    pose proof (RBg_gc_r _ _ _ _ _ _ _ _ Hb Hle) as Hb'. rewrite E0 in *.
    cbn [firstn] in Hb'. rewrite app_nil_r in Hb'.
    constructor; psimpl; try apply H; try rewrite EA; cbn [lim_sel Dsel bt_other];
      first [ exact Hb' | exact Ho | (rewrite dirty_clear_len; apply H) | (intros E; discriminate) ].
  - exists (Da ++ firstn (gc_excess (buf b)) (lines (buf b))).
    constructor; psimpl; try apply H; try rewrite EA; cbn [lim_sel Dsel bt_other];
      first [ (apply RBg_gc_r; assumption) | exact Ho | (rewrite dirty_clear_len; apply H)
            | (intros E; discriminate) ].
Qed.

(** * 7. C12 *)

(** every scalar field *)
Definition scal (t : term) :=
  (cols t, rows t, active t, sb_limit t, cur_col t, cur_row t, cur_vis t, tpen t, cs0 t, cs1 t,
   acs t, tabs t, ins t, org t, awm t, nlm t, ckm t, pend t, top t, bot t, sctx t, asctx t, xtw t).

(** what a continuation (and the C12 oracle) can observe: everything except the dirty flags,
    the trim flags, the rows above the view of the alternate screen, and - while the primary
    screen is showing - the parked alternate buffer (it is discarded on the next entry) *)
Record Robs (a b : term) : Prop := mkRobs {
  o_scal : scal a = scal b;
  o_bc : bcols (buf a) = bcols (buf b);
  o_br : brows (buf a) = brows (buf b);
  o_view : view (buf a) = view (buf b);
  o_other : active a = Alternate -> RB true (other a) (other b);
  o_lines : active a = Primary -> lines (buf a) = lines (buf b)
}.

Lemma Rx_scal tr L1 L2 Dp Da a b : L1 = L2 -> Rx tr false L1 L2 Dp Da a b -> scal a = scal b.
Proof.
  intros EL H. unfold scal.
  rewrite <- (x_cols _ _ _ _ _ _ _ _ H), <- (x_rows _ _ _ _ _ _ _ _ H), <- (x_active _ _ _ _ _ _ _ _ H),
    <- (x_cur_col _ _ _ _ _ _ _ _ H), <- (x_cur_row _ _ _ _ _ _ _ _ H), <- (x_cur_vis _ _ _ _ _ _ _ _ H),
    <- (x_tpen _ _ _ _ _ _ _ _ H), <- (x_cs0 _ _ _ _ _ _ _ _ H), <- (x_cs1 _ _ _ _ _ _ _ _ H),
    <- (x_acs _ _ _ _ _ _ _ _ H), <- (x_tabs _ _ _ _ _ _ _ _ H), <- (x_ins _ _ _ _ _ _ _ _ H),
    <- (x_org _ _ _ _ _ _ _ _ H), <- (x_awm _ _ _ _ _ _ _ _ H), <- (x_nlm _ _ _ _ _ _ _ _ H),
    <- (x_ckm _ _ _ _ _ _ _ _ H), <- (x_pend _ _ _ _ _ _ _ _ H), <- (x_top _ _ _ _ _ _ _ _ H),
    <- (x_bot _ _ _ _ _ _ _ _ H), <- (x_sctx _ _ _ _ _ _ _ _ H), <- (x_asctx _ _ _ _ _ _ _ _ H),
    <- (x_xtw _ _ _ _ _ _ _ _ H), (x_sl1 _ _ _ _ _ _ _ _ H), (x_sl2 _ _ _ _ _ _ _ _ H), EL.
  reflexivity.
Qed.

Lemma flushed_view t : view (buf (flushed t)) = view (buf t).
Proof.
  pose proof (gc_excess_le (buf t)) as Hle. unfold flushed. psimpl.
  unfold view, sb_len in *. psimpl. rewrite skipn_length, skipn_add. f_equal. lia.
Qed.

Lemma final_C12 Da a b : Rx false false None None [] Da a b -> Robs (flushed a) (flushed b).
Proof.
  intros H. pose proof (x_buf _ _ _ _ _ _ _ _ H) as Hb. pose proof (x_other _ _ _ _ _ _ _ _ H) as Ho.
  constructor.
  - change (scal (flushed a)) with (scal a). change (scal (flushed b)) with (scal b).
    eapply Rx_scal; [reflexivity|exact H].
  - unfold flushed. psimpl. rewrite (g_c1 _ _ _ _ _ _ _ _ Hb), (g_c2 _ _ _ _ _ _ _ _ Hb). reflexivity.
  - unfold flushed. psimpl. rewrite (g_r1 _ _ _ _ _ _ _ _ Hb), (g_r2 _ _ _ _ _ _ _ _ Hb). reflexivity.
  - rewrite !flushed_view. eapply G_view; exact Hb.
  - change (active (flushed a)) with (active a). change (other (flushed a)) with (other a).
    change (other (flushed b)) with (other b). intros EA. rewrite EA in Ho.
    cbn [lim_sel Dsel bt_other] in Ho. destruct Ho as [g_lines g_len g_c1 g_r1 g_c2 g_r2 g_l1 g_l2 g_trim].
    constructor; try congruence.
    + exact g_lines.
    + intros _. rewrite g_l1, g_l2, (x_sl1 _ _ _ _ _ _ _ _ H), (x_sl2 _ _ _ _ _ _ _ _ H). reflexivity.
  - change (active (flushed a)) with (active a). intros EA. rewrite EA in Hb.
    cbn [lim_sel Dsel bt_other] in Hb. unfold flushed. psimpl.
    rewrite !gc_excess_unlimited.
    + cbn [skipn]. exact (g_lines _ _ _ _ _ _ _ _ Hb).
    + rewrite (g_l2 _ _ _ _ _ _ _ _ Hb), (x_sl2 _ _ _ _ _ _ _ _ H). reflexivity.
    + rewrite (g_l1 _ _ _ _ _ _ _ _ Hb), (x_sl1 _ _ _ _ _ _ _ _ H). reflexivity.
Qed.

(** the relation holds between a well-formed terminal and itself, provided the parked PRIMARY
    buffer (if any) has the terminal's geometry: no resize happened while it was parked.
    (A parked ALTERNATE buffer may well have a stale geometry - it is never read.) *)
Definition parked_ok (t : term) : Prop :=
  active t = Alternate -> bcols (other t) = cols t /\ brows (other t) = rows t.

(** the stronger, unconditional form used in the first version of this file *)
Definition parked_geom (t : term) : Prop := bcols (other t) = cols t /\ brows (other t) = rows t.

Lemma parked_geom_ok t : parked_geom t -> parked_ok t.
Proof. intros H _. exact H. Qed.

Lemma Rx_refl tr cl t : TInv t -> parked_ok t -> Rx tr cl (sb_limit t) (sb_limit t) [] [] t t.
Proof.
  intros HT HP. pose proof (ti_limit _ HT) as HL.
  assert (Hn : forall w, Dsel [] [] w = []) by (intros []; reflexivity).
  constructor; try reflexivity; try apply leq_refl; try apply HT.
  - rewrite Hn. constructor; try reflexivity; try apply leq_refl; try apply HT.
    + cbn [length]. lia.
    + destruct (active t); apply HL.
    + destruct (active t); apply HL.
  - destruct (active t) eqn:EA.
    + intros _. cbn [length]. rewrite chop_0. split; [reflexivity|lia].
    + destruct (HP EA) as [Hpc Hpr]. destruct HL as [_ HL2].
      constructor; try reflexivity; try apply leq_refl; try assumption. cbn [length]. lia.
  - destruct cl, (active t); reflexivity.
Qed.

Lemma feed_str_inv v s v' o :
  feed_str v s = Ok (v', o) -> exists u, feed_chars v s = Ok u /\ vt_flush u = Ok (v', o).
Proof.
  unfold feed_str. intros E. destruct (feed_chars v s) as [u|e]; cbn [bind] in E; [|discriminate].
  exists u. split; [reflexivity|exact E].
Qed.

Theorem C12_chunks : forall v s1 s2 va oa v1 o1 vb ob,
  TInv (vterm v) -> parked_ok (vterm v) -> sb_limit (vterm v) = None ->
  feed_str v (s1 ++ s2) = Ok (va, oa) ->
  feed_str v s1 = Ok (v1, o1) -> feed_str v1 s2 = Ok (vb, ob) ->
  vparser va = vparser vb /\ Robs (vterm va) (vterm vb) /\ sb_limit (vterm va) = None.
Proof.
  intros v s1 s2 va oa v1 o1 vb ob HT HP HL EA E1 E2.
  apply feed_str_inv in EA, E1, E2.
  destruct EA as (uA & FA & GA). destruct E1 as (u1 & F1 & G1). destruct E2 as (u2 & F2 & G2).
  rewrite feed_chars_app, F1 in FA. cbn [bind] in FA.
  apply vt_flush_inv in GA, G1, G2.
  destruct GA as (PA & TA & _). destruct G1 as (P1 & T1 & _). destruct G2 as (P2 & T2 & _).
  pose proof (Rx_refl false false _ HT HP) as H0. rewrite HL in H0.
  (* s1 on both sides: the same run *)
  pose proof (feed_chars_Rx0 false false None None s1 [] v v (conj eq_refl H0)) as R1.
  rewrite F1 in R1. inversion R1 as [x y (Da1 & Hp1 & Hx1) Ex Ey|]; subst x y.
  (* the mid-string flush, right-hand side only *)
  destruct (flush_right_C12 _ _ _ Hx1) as (Da2 & Hx2). rewrite <- T1 in Hx2.
  (* s2 *)
  assert (Hv : Rvx false false None None [] Da2 u1 v1) by (split; [congruence|exact Hx2]).
  pose proof (feed_chars_Rx0 false false None None s2 Da2 u1 v1 Hv) as R2.
  rewrite FA, F2 in R2. inversion R2 as [x y (Da3 & Hp3 & Hx3) Ex Ey|]; subst x y.
  split; [congruence|]. split; [rewrite TA, T2; eapply final_C12; exact Hx3|].
  rewrite TA. exact (x_sl1 _ _ _ _ _ _ _ _ Hx3).
Qed.

Print Assumptions C12_chunks.


(** * 8. C14 for whole sessions *)

Fixpoint run_session (v : vt) (ss : list (list N)) : res (vt * list out) :=
  match ss with
  | [] => Ok (v, [])
  | s :: r =>
    x <- feed_str v s ;;
    y <- run_session (fst x) r ;;
    Ok (fst y, snd x :: snd y)
  end.

(** no [feed_str] call of the session makes the parser emit [Ris] (a hard reset discards the
    scrollback, so C14 cannot hold across it) *)
Fixpoint session_ris_free (v : vt) (ss : list (list N)) : Prop :=
  match ss with
  | [] => True
  | s :: r => ris_free v s /\ (forall v' o, feed_str v s = Ok (v', o) -> session_ris_free v' r)
  end.

Lemma session_Rx L ss : forall Dp vI vL vI' outsI vL' outsL,
  Rvx true false None L Dp [] vI vL -> session_ris_free vI ss ->
  run_session vI ss = Ok (vI', outsI) -> run_session vL ss = Ok (vL', outsL) ->
  Rvx true false None L (Dp ++ concat (map o_drained outsL)) [] vI' vL'
  /\ concat (map o_drained outsI) = [].
Proof.
  induction ss as [|s ss IH]; intros Dp vI vL vI' outsI vL' outsL H HF EI EL; cbn [run_session] in EI, EL.
  - injection EI as <- <-. injection EL as <- <-. cbn [map concat]. rewrite app_nil_r. split; [exact H|reflexivity].
  - destruct HF as [HF1 HF2].
    destruct (feed_str vI s) as [[uI oI]|e] eqn:FI; cbn [bind fst snd] in EI; [|discriminate].
    destruct (feed_str vL s) as [[uL oL]|e] eqn:FL; cbn [bind fst snd] in EL; [|discriminate].
    destruct (run_session uI ss) as [[wI osI]|e] eqn:RI; cbn [bind fst snd] in EI; [|discriminate].
    destruct (run_session uL ss) as [[wL osL]|e] eqn:RL; cbn [bind fst snd] in EL; [|discriminate].
    injection EI as <- <-. injection EL as <- <-.
    specialize (HF2 _ _ eq_refl).
    pose proof FI as FI'. pose proof FL as FL'.
    apply feed_str_inv in FI', FL'.
    destruct FI' as (cI & CI & GI). destruct FL' as (cL & CL & GL).
    pose proof (feed_chars_Rx_nr true false None L Dp s vI vL H HF1) as HR. rewrite CI, CL in HR.
    inversion HR as [x y [Hp Hx] Ex Ey|]; subst x y.
    apply vt_flush_inv in GI, GL. destruct GI as (PI & TI & DI). destruct GL as (PL & TL & DL).
    pose proof (flush_C14 _ _ _ _ Hx) as Hf. rewrite <- TI, <- TL in Hf.
    rewrite (x_active _ _ _ _ _ _ _ _ Hx) in Hf. rewrite <- DL in Hf.
    assert (Hu : Rvx true false None L (Dp ++ o_drained oL) [] uI uL) by (split; [congruence|exact Hf]).
    destruct (IH _ _ _ _ _ _ _ Hu HF2 RI RL) as [IH1 IH2].
    cbn [map concat]. rewrite app_assoc. split; [exact IH1|].
    rewrite IH2, app_nil_r, DI.
    destruct (active (vterm cI)) eqn:EA; [|reflexivity].
    pose proof (x_buf _ _ _ _ _ _ _ _ Hx) as Hb. rewrite EA in Hb. cbn [lim_sel] in Hb.
    rewrite gc_excess_unlimited; [reflexivity|].
    rewrite (g_l1 _ _ _ _ _ _ _ _ Hb), (x_sl1 _ _ _ _ _ _ _ _ Hx). reflexivity.
Qed.

Lemma Rx_new tr cl c r L : Rx tr cl None L [] [] (term_new_gen c r None) (term_new_gen c r L).
Proof.
  unfold term_new_gen. constructor; psimpl; try reflexivity; try apply leq_refl.
  - cbn [lim_sel Dsel]. apply buffer_new_G.
  - intros _. cbn [length]. rewrite chop_0. split; [reflexivity|lia].
  - destruct cl; reflexivity.
Qed.

(** C14: the lines drained over a session with limit [L], followed by the final [lines],
    are the [lines] of the same session with unlimited scrollback *)
Theorem C14_stream : forall c r L ss vI outsI vL outsL,
  session_ris_free (vt_new c r None) ss ->
  run_session (vt_new c r None) ss = Ok (vI, outsI) ->
  run_session (vt_new c r (Some L)) ss = Ok (vL, outsL) ->
  active (vterm vL) = Primary ->
  concat (map o_drained outsL) ++ lines (buf (vterm vL)) = lines (buf (vterm vI)).
Proof.
  intros c r L ss vI outsI vL outsL HF EI EL HA.
  assert (H0 : Rvx true false None (Some L) [] [] (vt_new c r None) (vt_new c r (Some L))).
  { split; [reflexivity|apply Rx_new]. }
  destruct (session_Rx _ _ _ _ _ _ _ _ _ H0 HF EI EL) as [[_ H] _]. cbn [app] in H.
  pose proof (x_buf _ _ _ _ _ _ _ _ H) as Hb.
  rewrite (x_active _ _ _ _ _ _ _ _ H), HA in Hb. cbn [Dsel] in Hb.
  symmetry. exact (g_lines _ _ _ _ _ _ _ _ Hb).
Qed.

Print Assumptions C14_stream.

Corollary C14_stream_holds : forall c r L ss vI outsI vL outsL,
  session_ris_free (vt_new c r None) ss ->
  run_session (vt_new c r None) ss = Ok (vI, outsI) ->
  run_session (vt_new c r (Some L)) ss = Ok (vL, outsL) ->
  active (vterm vL) = Primary ->
  holds_C14 (concat (map o_drained outsL)) (lines (buf (vterm vL))) (lines (buf (vterm vI))) = true.
Proof.
  intros. unfold holds_C14. erewrite C14_stream by eassumption. apply lines_eqb_refl.
Qed.

(** the unlimited run never drains anything *)
Theorem unlimited_never_drains : forall c r ss vI outsI,
  session_ris_free (vt_new c r None) ss ->
  run_session (vt_new c r None) ss = Ok (vI, outsI) ->
  concat (map o_drained outsI) = [].
Proof.
  intros c r ss vI outsI HF EI.
  assert (H0 : Rvx true false None None [] [] (vt_new c r None) (vt_new c r None)).
  { split; [reflexivity|apply Rx_new]. }
  exact (proj2 (session_Rx _ _ _ _ _ _ _ _ _ H0 HF EI EI)).
Qed.

(** * 9. C12, executable form *)

Lemma Robs_holds_C12 va vb :
  vparser va = vparser vb -> Robs (vterm va) (vterm vb) -> sb_limit (vterm va) = None ->
  holds_C12 va vb = true.
Proof.
  intros Hp H HL. destruct H as [Hs Hbc Hbr Hv Ho Hl].
  unfold scal in Hs. injection Hs as E1 E2 E3 E4 E5 E6 E7 E8 E9 E10 E11 E12 E13 E14 E15 E16 E17 E18 E19 E20 E21 E22 E23.
  unfold holds_C12. rewrite <- Hp, parser_eqb_refl, HL.
  assert (Hobs : obs_eqb_term (vterm va) (vterm vb) = true).
  { unfold obs_eqb_term, obs_buffer_eqb, term_scalars_eqb. psimpl.
    rewrite <- Hbc, <- Hbr, <- Hv, <- E1, <- E2, <- E3, <- E5, <- E6, <- E7, <- E8, <- E9, <- E10,
      <- E11, <- E12, <- E13, <- E14, <- E15, <- E16, <- E17, <- E18, <- E19, <- E20, <- E21, <- E22, <- E23.
    rewrite !Nat.eqb_refl, !Bool.eqb_reflx, btype_eqb_refl, pen_eqb_refl, !charset_eqb_refl,
      !ctx_eqb_refl, (list_eqb_refl _ Nat.eqb_refl), lines_eqb_refl.
    cbn [opt_eqb andb].
    destruct (active (vterm va)) eqn:EA; [reflexivity|].
    destruct (Ho eq_refl) as [G1 G2 G3 G4].
    rewrite <- G2, <- G3. unfold view, sb_len. rewrite <- G1, <- G3.
    rewrite lines_eqb_refl, !Nat.eqb_refl. reflexivity. }
  rewrite Hobs. cbn [andb].
  destruct (active (vterm va)) eqn:EA.
  - rewrite (Hl eq_refl). apply lines_eqb_refl.
  - destruct (Ho eq_refl) as [G1 _ _ _]. rewrite G1. apply lines_eqb_refl.
Qed.

Corollary C12_chunks_holds : forall v s1 s2 va oa v1 o1 vb ob,
  TInv (vterm v) -> parked_ok (vterm v) -> sb_limit (vterm v) = None ->
  feed_str v (s1 ++ s2) = Ok (va, oa) ->
  feed_str v s1 = Ok (v1, o1) -> feed_str v1 s2 = Ok (vb, ob) ->
  holds_C12 va vb = true.
Proof.
  intros v s1 s2 va oa v1 o1 vb ob HT HP HL EA E1 E2.
  destruct (C12_chunks _ _ _ _ _ _ _ _ _ HT HP HL EA E1 E2) as (Hp & Ho & Hl).
  apply Robs_holds_C12; assumption.
Qed.

Print Assumptions C12_chunks_holds.


(** * 10. the equational form at the terminal level *)

(** chop [k] rows off the active buffer and [k'] rows off the parked one *)
Definition chop2 (k k' : nat) (t : term) : term :=
  t <| buf := chop k (buf t) |> <| other := chop k' (other t) |>.

Definition chopT (k : nat) (t : term) : term := t <| buf := chop k (buf t) |>.

Lemma chopT_chop2 k t : chopT k t = chop2 k 0 t.
Proof. unfold chopT, chop2. rewrite chop_0. destruct t; reflexivity. Qed.

(** the number of rows chopped off the PRIMARY buffer, wherever it currently sits *)
Definition kP (t : term) (k k' : nat) : nat :=
  match active t with Primary => k | Alternate => k' end.

Lemma firstn_len_le {A} k (l : list A) : k <= length l -> length (firstn k l) = k.
Proof. intros H. rewrite firstn_length. lia. Qed.

Lemma RBg_weaken tr c r l1 l2 D b1 b2 : RBg true c r l1 l2 D b1 b2 -> RBg tr c r l1 l2 D b1 b2.
Proof. intros [H1 H2 H3 H4 H5 H6 H7 H8 H9]. constructor; try assumption. intros _. exact (H9 eq_refl). Qed.

Lemma Rx_chop2 tr cl t k k' :
  TInv t -> parked_ok t -> k <= sb_len (buf t) -> k' <= sb_len (other t) ->
  Rx tr cl (sb_limit t) (sb_limit t)
     (match active t with Primary => firstn k (lines (buf t)) | Alternate => firstn k' (lines (other t)) end)
     (match active t with Primary => firstn k' (lines (other t)) | Alternate => firstn k (lines (buf t)) end)
     t (chop2 k k' t).
Proof.
  intros HT HP Hk Hk'. pose proof (ti_limit _ HT) as HL.
  pose proof (RBg_weaken tr _ _ _ _ _ _ _ (RBg_chop (buf t) k Hk)) as Hb.
  pose proof (RBg_weaken tr _ _ _ _ _ _ _ (RBg_chop (other t) k' Hk')) as Ho.
  rewrite (ti_bcols _ HT), (ti_brows _ HT) in Hb.
  unfold chop2. constructor; psimpl; try reflexivity; try apply leq_refl; try apply HT.
  - destruct (active t); cbn [lim_sel Dsel]; destruct HL as [E1 E2]; rewrite E1 in Hb; exact Hb.
  - destruct (active t) eqn:EA.
    + intros _. unfold sb_len in Hk'. rewrite firstn_len_le by lia. split; [reflexivity|exact Hk'].
    + destruct (HP EA) as [Hpc Hpr]. destruct HL as [E1 E2]. rewrite Hpc, Hpr, E2 in Ho. exact Ho.
  - destruct cl, (active t); reflexivity.
Qed.

Lemma Rx_chop2_inv L Dp Da a b :
  Rx true false L L Dp Da a b ->
  b = chop2 (length (Dsel Dp Da (active a))) (length (Dsel Dp Da (bt_other (active a)))) a.
Proof.
  intros H. pose proof (x_buf _ _ _ _ _ _ _ _ H) as Hb. pose proof (x_other _ _ _ _ _ _ _ _ H) as Ho.
  rewrite (x_sl1 _ _ _ _ _ _ _ _ H), (x_sl2 _ _ _ _ _ _ _ _ H) in Hb, Ho.
  apply RBg_chop_inv in Hb.
  assert (Ho' : other b = chop (length (Dsel Dp Da (bt_other (active a)))) (other a)).
  { destruct (active a); cbn [Dsel bt_other].
    - exact (proj1 (Ho eq_refl)).
    - apply RBg_chop_inv in Ho. exact Ho. }
  pose proof (x_dirty _ _ _ _ _ _ _ _ H eq_refl) as Hd.
  pose proof (x_sl1 _ _ _ _ _ _ _ _ H) as S1. pose proof (x_sl2 _ _ _ _ _ _ _ _ H) as S2.
  pose proof (x_asctx _ _ _ _ _ _ _ _ H) as Hs. cbn iota in Hs.
  destruct H. unfold chop2. rewrite <- Hb, <- Ho'. destruct a, b. cbn in *. subst. reflexivity.
Qed.

(** Every control function commutes with chopping rows above the views of the two buffers.
    The primary buffer keeps its chop count unless the function is [Ris] (which discards
    both buffers); the alternate buffer's count is reset when a fresh alternate buffer is
    created.  [Xtwinops] needs no exclusion: [xtw] is never set ([ti_xtw]). *)
Theorem execute_chop : forall t f k k' t',
  TInv t -> parked_ok t -> k <= sb_len (buf t) -> k' <= sb_len (other t) ->
  execute t f = Ok t' ->
  exists k1 k1', execute (chop2 k k' t) f = Ok (chop2 k1 k1' t')
    /\ k1 <= sb_len (buf t') /\ k1' <= sb_len (other t')
    /\ (is_ris f = false -> kP t' k1 k1' = kP t k k').
Proof.
  intros t f k k' t' HT HP Hk Hk' E.
  pose proof (execute_Rx _ _ _ _ _ _ _ _ f (Rx_chop2 true false t k k' HT HP Hk Hk')) as HR.
  rewrite E in HR. inversion HR as [x y (Da' & _ & Hxy) Ex Ey|]; subst x.
  pose proof (Rx_chop2_inv _ _ _ _ _ Hxy) as Ey'.
  eexists _, _. split; [rewrite <- Ey'; reflexivity|].
  pose proof (g_len _ _ _ _ _ _ _ _ (x_buf _ _ _ _ _ _ _ _ Hxy)) as L1.
  assert (L2 : length (Dsel (if is_ris f then [] else match active t with
                 | Primary => firstn k (lines (buf t)) | Alternate => firstn k' (lines (other t)) end)
                 Da' (bt_other (active t'))) <= sb_len (other t')).
  { pose proof (x_other _ _ _ _ _ _ _ _ Hxy) as Ho. destruct (active t'); cbn [Dsel bt_other].
    - exact (proj2 (Ho eq_refl)).
    - exact (g_len _ _ _ _ _ _ _ _ Ho). }
  split; [exact L1|]. split; [exact L2|].
  intros Hr. rewrite Hr in *. unfold kP, sb_len in *.
  destruct (active t'), (active t); cbn [Dsel bt_other]; apply firstn_len_le; lia.
Qed.

Print Assumptions execute_chop.

(** item 3: [buf_gc] of the chopped buffer drains a different prefix, but prefix ++ drained ++
    rest is always the original [lines] *)
Theorem buf_gc_chop : forall b k b1 d1 b2 d2,
  buf_gc b = Ok (b1, d1) -> buf_gc (chop k b) = Ok (b2, d2) ->
  lines b = d1 ++ lines b1 /\ lines b = firstn k (lines b) ++ d2 ++ lines b2
  /\ view b1 = view b /\ (k <= sb_len b -> view b2 = view b).
Proof.
  intros b k b1 d1 b2 d2 E1 E2. apply buf_gc_inv in E1, E2.
  destruct E1 as [-> ->]. destruct E2 as [-> ->]. psimpl.
  split; [symmetry; apply firstn_skipn|].
  split; [rewrite firstn_skipn; symmetry; apply firstn_skipn|].
  assert (Hv : forall b, view (b <| trim_needed := false |> <| lines := skipn (gc_excess b) (lines b) |>) = view b).
  { intros x. pose proof (gc_excess_le x) as Hle. unfold view, sb_len in *. psimpl.
    rewrite skipn_length, skipn_add. f_equal. lia. }
  split; [apply Hv|]. intros Hk. rewrite Hv. apply chop_view; exact Hk.
Qed.


(** * 11. findings (concrete, by computation) *)
Module Findings.
  Local Open Scope N_scope.
  Definition v0 : vt := vt_new 4 2 None.
  Definition enter_alt : list N := [27; 91; 63; 52; 55; 104].   (* ESC [ ? 4 7 h *)
  Definition leave_alt : list N := [27; 91; 63; 52; 55; 108].   (* ESC [ ? 4 7 l *)
  Definition s1 : list N := enter_alt ++ [97; 10; 98; 10; 99; 10; 100].  (* scrolls the alternate screen *)
  Definition s2 : list N := leave_alt.
  Local Close Scope N_scope.

  Definition after (v : vt) (ss : list (list N)) : option vt :=
    match run_session v ss with Ok (v', _) => Some v' | Panic _ => None end.

  Definition len_other (o : option vt) : option nat :=
    match o with Some v => Some (length (lines (other (vterm v)))) | None => None end.
  Definition len_buf (o : option vt) : option nat :=
    match o with Some v => Some (length (lines (buf (vterm v)))) | None => None end.
  Definition act (o : option vt) : option btype :=
    match o with Some v => Some (active (vterm v)) | None => None end.

  (** (F1) A relation demanding equal [other] (up to the trim flag) is too strong for C12 while
      the PRIMARY screen is showing: fed in one piece the parked alternate buffer keeps the 2
      rows scrolled off it, fed in two pieces the intermediate flush has trimmed them.
      ([holds_C12] / [Robs] compare [other] only while the alternate screen is active.) *)
  Lemma other_differs_when_primary :
    (act (after v0 [s1 ++ s2]), len_other (after v0 [s1 ++ s2]), len_other (after v0 [s1; s2]))
    = (Some Primary, Some 4, Some 2).
  Proof. vm_compute. reflexivity. Qed.

  (** (F2) [flush_unlimited] cannot hold unconditionally: with the alternate screen active the
      flush changes [lines] (4 rows before, 2 after) although [sb_limit = None]. *)
  Definition before_flush : option vt :=
    match feed_chars v0 s1 with Ok v => Some v | Panic _ => None end.
  Definition after_flush : option vt :=
    match feed_chars v0 s1 with
    | Ok v => match vt_flush v with Ok (v', _) => Some v' | Panic _ => None end
    | Panic _ => None
    end.
  Lemma flush_alt_trims :
    (act before_flush, len_buf before_flush, len_buf after_flush) = (Some Alternate, Some 4, Some 2).
  Proof. vm_compute. reflexivity. Qed.
End Findings.

