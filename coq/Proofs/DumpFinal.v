(** Property C11 in one statement: for every history through the public API, outside the three
    known-finding classes ([dumpable'], [kf1_C11], [kf2_C11]), the dump restores an
    observationally equal terminal ([C11_dump_run]) AND original and restored terminal stay
    observationally equal after any further input ([C11_future_closed]).

    Main results: [runM_PWf], [kf2_false_parked_ok], [holds_C11_parked],
    [C11_restore_and_future], and the iterated form [C11_restore_and_futures]. *)

From Coq Require Import Lia ZArith ZifyBool ZifyNat ZifyN.
From Avt Require Import Model.Vt Spec.Eqb Oracles.Step Oracles.Rel Proofs.Inv Proofs.InvStep
  Proofs.ParamChop Proofs.Future Proofs.FutureInst Proofs.DumpScript.
Import ListNotations.
Local Open Scope nat_scope.

Lemma Ok_inj' {A} (a b : A) : Ok a = Ok b -> a = b.
Proof. intros H. injection H as H. exact H. Qed.

(** * (a) [PWf] of the parser along a run *)

Lemma stepM_PWf v o v' ou :
  PInv (vparser v) -> PWf (vparser v) -> stepM v o = Ok (v', ou) ->
  PWf (vparser v') /\ PInv (vparser v').
Proof.
  intros HP HW. destruct o as [c| |c r]; intros E.
  - apply stepM_feed_inv in E. exact (vt_feed_PWf v c v' HP HW E).
  - apply stepM_flush_inv in E. apply vt_flush_inv in E. destruct E as (Pu & _ & _).
    rewrite Pu. split; assumption.
  - apply stepM_resize_inv in E. destruct E as (t1 & _ & E).
    apply vt_flush_inv in E. destruct E as (Pu & _ & _).
    rewrite Pu. split; assumption.
Qed.

Lemma runM_PWf' : forall ops v v',
  PInv (vparser v) -> PWf (vparser v) -> runM v ops = Ok v' ->
  PWf (vparser v') /\ PInv (vparser v').
Proof.
  induction ops as [|o ops IH]; intros v v' HP HW E.
  - cbn [runM] in E. apply Ok_inj' in E. subst v'. split; assumption.
  - cbn [runM] in E. destruct (stepM v o) as [[v1 o1]|e] eqn:E1; cbn [bind fst] in E; [|discriminate].
    destruct (stepM_PWf v o v1 o1 HP HW E1) as [HW1 HP1].
    exact (IH v1 v' HP1 HW1 E).
Qed.

Theorem runM_PWf : forall ops v v',
  PInv (vparser v) -> PWf (vparser v) -> runM v ops = Ok v' -> PWf (vparser v').
Proof. intros ops v v' HP HW E. exact (proj1 (runM_PWf' ops v v' HP HW E)). Qed.
Print Assumptions runM_PWf.

(** * (b) outside [kf2_C11] the parked buffer has the current geometry *)

Theorem kf2_false_parked_ok : forall t, kf2_C11 t = false -> parked_ok t.
Proof.
  intros t H HA. unfold kf2_C11, is_alt_b in H. rewrite HA in H. cbn [btype_eqb andb] in H.
  apply Bool.negb_false_iff in H. apply andb_prop in H. destruct H as [H1 H2].
  apply Nat.eqb_eq in H1. apply Nat.eqb_eq in H2. split; assumption.
Qed.
Print Assumptions kf2_false_parked_ok.

(** * (c) [holds_C11] transports [parked_ok] *)

Lemma btype_eqb_eq a b : btype_eqb a b = true -> a = b.
Proof. destruct a, b; cbn [btype_eqb]; intros H; try reflexivity; discriminate H. Qed.

Lemma term_scalars_eqb_geom a b :
  term_scalars_eqb a b = true -> cols a = cols b /\ rows a = rows b /\ active a = active b.
Proof.
  unfold term_scalars_eqb. intros H.
  destruct (Nat.eqb_spec (cols a) (cols b)) as [Hc|_]; [|cbn [andb] in H; discriminate H].
  destruct (Nat.eqb_spec (rows a) (rows b)) as [Hr|_]; [|cbn [andb] in H; discriminate H].
  destruct (btype_eqb (active a) (active b)) eqn:Ha; [|cbn [andb] in H; discriminate H].
  apply btype_eqb_eq in Ha. split; [exact Hc|split; [exact Hr|exact Ha]].
Qed.

Lemma obs_buffer_eqb_geom a b :
  obs_buffer_eqb a b = true -> bcols a = bcols b /\ brows a = brows b.
Proof.
  unfold obs_buffer_eqb. intros H. apply andb_prop in H. destruct H as [H H2].
  apply andb_prop in H. destruct H as [_ H1].
  apply Nat.eqb_eq in H1. apply Nat.eqb_eq in H2. split; assumption.
Qed.

Lemma norm_C11_cols t : cols (norm_C11 t <| sb_limit := None |>) = cols t.
Proof. reflexivity. Qed.
Lemma norm_C11_rows t : rows (norm_C11 t <| sb_limit := None |>) = rows t.
Proof. reflexivity. Qed.
Lemma norm_C11_active t : active (norm_C11 t <| sb_limit := None |>) = active t.
Proof. reflexivity. Qed.

Lemma holds_C11_geom a b :
  holds_C11 a b = true ->
  cols (vterm a) = cols (vterm b) /\ rows (vterm a) = rows (vterm b)
  /\ active (vterm a) = active (vterm b)
  /\ (active (vterm a) = Alternate ->
      bcols (other (vterm a)) = bcols (other (vterm b))
      /\ brows (other (vterm a)) = brows (other (vterm b))).
Proof.
  unfold holds_C11. intros H. apply andb_prop in H. destruct H as [H H3].
  apply andb_prop in H. destruct H as [H1 _].
  unfold obs_eqb_term in H1. apply andb_prop in H1. destruct H1 as [H1 _].
  apply andb_prop in H1. destruct H1 as [H1 _].
  apply term_scalars_eqb_geom in H1.
  rewrite !norm_C11_cols, !norm_C11_rows, !norm_C11_active in H1.
  destruct H1 as (Hc & Hr & Ha). split; [exact Hc|split; [exact Hr|split; [exact Ha|]]].
  intros HA. rewrite HA in H3. apply obs_buffer_eqb_geom in H3. exact H3.
Qed.

Theorem holds_C11_parked : forall a b,
  holds_C11 a b = true -> parked_ok (vterm a) -> parked_ok (vterm b).
Proof.
  intros a b H HP HB. destruct (holds_C11_geom a b H) as (Hc & Hr & Ha & Ho).
  assert (HA : active (vterm a) = Alternate) by (rewrite Ha; exact HB).
  destruct (HP HA) as [P1 P2]. destruct (Ho HA) as [O1 O2].
  split; [rewrite <- O1, <- Hc; exact P1|rewrite <- O2, <- Hr; exact P2].
Qed.
Print Assumptions holds_C11_parked.

(** * (d) the headline theorem *)

Lemma feed_str_Inv_det v s v' o : Inv v -> feed_str v s = Ok (v', o) -> Inv v'.
Proof.
  intros HI E. destruct (feed_str_Inv v s HI) as (v1 & o1 & E1 & HI1).
  rewrite E in E1. apply Ok_inj' in E1. injection E1 as <- _. exact HI1.
Qed.

(** everything the future half needs about the pair (original, restored) *)
Lemma C11_restore_R11 : forall c r l ops v,
  1 <= c -> 1 <= r -> Forall op_ok ops -> runM (vt_new c r l) ops = Ok v ->
  dumpable' (vterm v) -> kf1_C11 (vterm v) = false -> kf2_C11 (vterm v) = false ->
  exists d r0 o0,
    vt_dump v = Ok d
    /\ feed_str (vt_new (cols (vterm v)) (rows (vterm v)) None) d = Ok (r0, o0)
    /\ holds_C11 v r0 = true
    /\ Inv v /\ Inv r0 /\ R11 v r0.
Proof.
  intros c r l ops v Hc Hr HF E HD Hk1 Hk2.
  destruct (C11_dump_run c r l ops v Hc Hr HF E HD Hk1 Hk2) as (d & r0 & o0 & Ed & Er & H).
  exists d, r0, o0. split; [exact Ed|]. split; [exact Er|]. split; [exact H|].
  (* Inv *)
  destruct (C01_no_panic c r l ops Hc Hr HF) as (v1 & E1 & HI). rewrite E in E1.
  apply Ok_inj' in E1. subst v1.
  pose proof (ti_cols _ (proj2 HI)) as Hc'. pose proof (ti_rows _ (proj2 HI)) as Hr'.
  pose proof (vt_new_Inv (cols (vterm v)) (rows (vterm v)) None Hc' Hr') as HIn.
  pose proof (feed_str_Inv_det _ _ _ _ HIn Er) as HI0.
  (* PWf *)
  destruct (PWf_new c r l) as [HWn HPn].
  pose proof (runM_PWf ops _ v HPn HWn E) as HW.
  destruct (PWf_new (cols (vterm v)) (rows (vterm v)) None) as [HWn0 HPn0].
  destruct (feed_str_PWf _ _ _ _ HPn0 HWn0 Er) as [HW0 _].
  (* parked_ok *)
  pose proof (kf2_false_parked_ok _ Hk2) as HPk.
  pose proof (holds_C11_parked _ _ H HPk) as HPk0.
  split; [exact HI|]. split; [exact HI0|].
  exact (R11_of_holds v r0 HI HI0 HPk HPk0 HW HW0 H).
Qed.

Theorem C11_restore_and_future : forall c r l ops v,
  1 <= c -> 1 <= r -> Forall op_ok ops -> runM (vt_new c r l) ops = Ok v ->
  dumpable' (vterm v) -> kf1_C11 (vterm v) = false -> kf2_C11 (vterm v) = false ->
  exists d r0 o0,
    vt_dump v = Ok d
    /\ feed_str (vt_new (cols (vterm v)) (rows (vterm v)) None) d = Ok (r0, o0)
    /\ holds_C11 v r0 = true
    /\ forall s v' ov, feed_str v s = Ok (v', ov) ->
       exists r1 o1, feed_str r0 s = Ok (r1, o1) /\ holds_C11 v' r1 = true.
Proof.
  intros c r l ops v Hc Hr HF E HD Hk1 Hk2.
  destruct (C11_restore_R11 c r l ops v Hc Hr HF E HD Hk1 Hk2)
    as (d & r0 & o0 & Ed & Er & H & HI & HI0 & HR).
  exists d, r0, o0. split; [exact Ed|]. split; [exact Er|]. split; [exact H|].
  intros s v' ov Es.
  destruct (R11_feed_str_closed s v r0 v' ov HI HI0 HR Es) as (r1 & o1 & E1 & HR1).
  exists r1, o1. split; [exact E1|apply R11_holds; exact HR1].
Qed.
Print Assumptions C11_restore_and_future.

(** * the iterated form: any LIST of continuation strings, each followed by a flush *)

Fixpoint feed_strs (v : vt) (ss : list (list N)) : res vt :=
  match ss with
  | [] => Ok v
  | s :: rest => x <- feed_str v s ;; feed_strs (fst x) rest
  end.

Lemma R11_feed_strs : forall ss a b a',
  Inv a -> Inv b -> R11 a b -> feed_strs a ss = Ok a' ->
  exists b', feed_strs b ss = Ok b' /\ Inv a' /\ Inv b' /\ R11 a' b'.
Proof.
  induction ss as [|s ss IH]; intros a b a' HIa HIb HR E.
  - cbn [feed_strs] in E. apply Ok_inj' in E. subst a'. exists b.
    split; [reflexivity|]. split; [exact HIa|]. split; [exact HIb|exact HR].
  - cbn [feed_strs] in E. destruct (feed_str a s) as [[a1 oa]|e] eqn:Ea; cbn [bind fst] in E; [|discriminate].
    destruct (R11_feed_str_closed s a b a1 oa HIa HIb HR Ea) as (b1 & ob & Eb & HR1).
    pose proof (feed_str_Inv_det _ _ _ _ HIa Ea) as HIa1.
    pose proof (feed_str_Inv_det _ _ _ _ HIb Eb) as HIb1.
    destruct (IH a1 b1 a' HIa1 HIb1 HR1 E) as (b' & Eb' & HIa' & HIb' & HR').
    exists b'. cbn [feed_strs]. rewrite Eb. cbn [bind fst].
    split; [exact Eb'|]. split; [exact HIa'|]. split; [exact HIb'|exact HR'].
Qed.

Theorem C11_restore_and_futures : forall c r l ops v,
  1 <= c -> 1 <= r -> Forall op_ok ops -> runM (vt_new c r l) ops = Ok v ->
  dumpable' (vterm v) -> kf1_C11 (vterm v) = false -> kf2_C11 (vterm v) = false ->
  exists d r0 o0,
    vt_dump v = Ok d
    /\ feed_str (vt_new (cols (vterm v)) (rows (vterm v)) None) d = Ok (r0, o0)
    /\ holds_C11 v r0 = true
    /\ forall ss v', feed_strs v ss = Ok v' ->
       exists r1, feed_strs r0 ss = Ok r1 /\ holds_C11 v' r1 = true.
Proof.
  intros c r l ops v Hc Hr HF E HD Hk1 Hk2.
  destruct (C11_restore_R11 c r l ops v Hc Hr HF E HD Hk1 Hk2)
    as (d & r0 & o0 & Ed & Er & H & HI & HI0 & HR).
  exists d, r0, o0. split; [exact Ed|]. split; [exact Er|]. split; [exact H|].
  intros ss v' Es.
  destruct (R11_feed_strs ss v r0 v' HI HI0 HR Es) as (r1 & E1 & _ & _ & HR1).
  exists r1. split; [exact E1|apply R11_holds; exact HR1].
Qed.
Print Assumptions C11_restore_and_futures.
