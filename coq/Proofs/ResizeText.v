(** [Buffer::resize] keeps the logical text and the cursor's place in it (property C10).

    Main results (all for [BInv b], [1 <= nc], [1 <= nr], [cr < brows b],
    [buf_resize b nc nr cc cr = Ok (b', (cc', cr'))]):
    - [resize_cursor_line'] / [resize_cursor_line]: the cursor stays on the same logical line,
      and at the same cell offset whenever it sits on a character of the (trimmed) text; no
      hypothesis on the cursor column is needed;
    - [resize_text'] / [resize_text]: the executable statement [resize_preserves] of
      [Spec/Logical.v] holds; the cursor column must satisfy [cc <= bcols b] only when the width
      is unchanged and the height shrinks ([resize_text_needs_cc], [resize_text_needs_cr] are
      computed counterexamples without the cursor hypotheses);
    - [resize_text_conjuncts]: the text conjuncts as propositions;
    - [term_resize_text], [C10_resize_step]: the same for [Terminal::resize] and for one
      [Resize] step of the [Vt] (the oracle [holds_C10]).

    Structure: [logical_position] computes [curs] ([logical_position_curs]);
    [relative_position] inverts it in the reflowed rows ([relative_position_spec], loop
    invariants [relpos1_spec], [relpos2_spec] phrased with [curs_go]); phase 2 = reflow +
    padding + translation ([phase2_text], uses [reflow_logical]); phase 3 keeps the absolute
    cursor row and only appends blank rows or cuts rows strictly below the cursor
    ([phase3_text]); [text_ok_ext] / [text_ok_cut] turn the two shapes into the boolean
    conjuncts. *)

From Avt Require Import Spec.Logical Spec.Eqb Proofs.Inv Proofs.ReflowCore Proofs.Resize
  Proofs.ReflowText.
Require Import Lia ZArith ZifyBool ZifyNat.
Import ListNotations.

(** * 1. [logical_position] computes [curs] *)

Lemma logpos_curs ls c : forall off row,
  logpos_go ls c off row = let '(k, o) := curs_go ls (length ls) row off c in (o, k).
Proof.
  induction ls as [|l r IH]; intros off row; [reflexivity|].
  cbn [logpos_go length curs_go]. destruct (wrapped l).
  - apply IH.
  - rewrite IH. replace (row + 1) with (S row) by lia. reflexivity.
Qed.

Lemma logical_position_curs b cc cr k off :
  brows b <= length (lines b) -> cr < brows b ->
  curs_go (lines b) (sb_len b + cr) 0 0 (bcols b) = (k, off) ->
  logical_position b cc cr (bcols b) (brows b) = Ok (cc + off, k).
Proof.
  intros H Hcr E. unfold logical_position.
  replace (brows b <=? length (lines b)) with true by (symmetry; lia).
  cbn [guard bind].
  set (R := cr + (length (lines b) - brows b)).
  assert (HR : R = sb_len b + cr) by (unfold R, sb_len; lia).
  replace (R - Nat.min R (length (lines b))) with 0 by (unfold sb_len in HR; lia).
  rewrite logpos_curs, firstn_length.
  replace (Nat.min R (length (lines b))) with R by (unfold sb_len in HR; lia).
  rewrite <- curs_go_firstn, HR, E. reflexivity.
Qed.

(** * 2. [relative_position] inverts it in the new geometry *)

Lemma relpos1_spec ls c target last : forall fuel r rr s off0,
  relpos1 fuel ls target last r rr = Ok s ->
  curs_go ls rr 0 0 c = (r, off0) -> (r = target -> off0 = 0) -> r <= target -> rr <= last ->
  exists r' off, curs_go ls s 0 0 c = (r', off) /\ r' <= target /\
    (r' = target -> off = 0) /\ (r' < target -> s = last) /\ s <= last.
Proof.
  induction fuel as [|f IH]; intros r rr s off0; [discriminate|].
  cbn [relpos1]. destruct ((r <? target) && (rr <? last)) eqn:C.
  - destruct (nth_error ls rr) as [l|] eqn:N; [|discriminate].
    intros H E H0 Hr Hrr. replace (rr + 1) with (S rr) in H by lia.
    pose proof (curs_go_step ls c rr 0 0 l N) as St. rewrite E in St.
    destruct (wrapped l).
    + apply (IH _ _ _ _ H St); lia.
    + replace (r + 1) with (S r) in H by lia. apply (IH _ _ _ _ H St); lia.
  - intros [= <-] E H0 Hr Hrr. exists r, off0.
    split; [exact E|]. split; [exact Hr|]. split; [exact H0|]. split; [lia|exact Hrr].
Qed.

Lemma relpos2_spec ls c k : forall fuel col row a s off,
  relpos2 fuel ls c col row = Ok (a, s) -> curs_go ls row 0 0 c = (k, off) ->
  exists off', curs_go ls s 0 0 c = (k, off') /\ off' + a = off + col /\
    (a < c \/ exists x, nth_error ls s = Some x /\ wrapped x = false).
Proof.
  induction fuel as [|f IH]; intros col row a s off; [discriminate|].
  cbn [relpos2]. destruct (c <=? col) eqn:C.
  - destruct (nth_error ls row) as [l|] eqn:N; [|discriminate].
    destruct (wrapped l) eqn:W.
    + intros H E. replace (row + 1) with (S row) in H by lia.
      pose proof (curs_go_step ls c row 0 0 l N) as St. rewrite E, W in St.
      destruct (IH _ _ _ _ _ H St) as (off' & A1 & A2 & A3).
      exists off'. split; [exact A1|]. split; [lia|exact A3].
    + intros [= <- <-] E. exists off. split; [exact E|]. split; [lia|]. right. eauto.
  - intros [= <- <-] E. exists off. split; [exact E|]. split; [lia|]. left. lia.
Qed.

Lemma relative_position_spec ls o k c r rc rr :
  Forall (LineInv c) ls -> last_not_wrapped ls -> k < length (logical ls) ->
  relative_position ls o k c r = Ok (rc, rr) ->
  exists R off a,
    curs_go ls R 0 0 c = (k, off) /\ off + a = o /\ rc = Nat.min a (c - 1) /\
    rr = (Z.of_nat R - Z.of_nat (length ls - r))%Z /\ R < length ls /\ 1 <= c /\
    r <= length ls /\
    (a < c \/ exists x, nth_error ls R = Some x /\ wrapped x = false).
Proof.
  intros F L Hk. unfold relative_position.
  destruct ((1 <=? length ls) && (r <=? length ls) && (1 <=? c)) eqn:G; cbn [guard bind];
    [|discriminate].
  destruct (relpos1 (S (length ls)) ls k (length ls - 1) 0 0) as [s1|p] eqn:E1; cbn [bind];
    [|discriminate].
  destruct (relpos1_spec ls c k (length ls - 1) _ 0 0 s1 0 E1 (curs_go_0 ls 0 0 c))
    as (r' & off1 & C1 & Hr' & Hoff & Hclamp & Hs1); [reflexivity|lia|lia|].
  assert (r' = k).
  { destruct (Nat.eq_dec r' k) as [e|n]; [exact e|]. exfalso.
    specialize (Hclamp ltac:(lia)).
    destruct (nth_error ls s1) as [y|] eqn:N.
    2: { apply nth_error_None in N. lia. }
    pose proof (curs_go_step ls c s1 0 0 y N) as St. rewrite C1 in St.
    pose proof (curs_go_total ls c F L) as T.
    replace (length ls) with (S s1) in T at 1 by lia. rewrite St in T.
    destruct (wrapped y); cbn [fst] in T; lia. }
  subst r'. specialize (Hoff eq_refl). subst off1.
  destruct (relpos2_ok ls c ltac:(lia) L (S (S (o + length ls))) o s1)
    as (a & s & E2 & Hs); [lia|lia|].
  rewrite E2. cbn [bind]. intros [= <- <-].
  destruct (relpos2_spec ls c k _ _ _ _ _ 0 E2 C1) as (off' & A1 & A2 & A3).
  exists s, off', a. split; [exact A1|]. split; [lia|]. split; [reflexivity|].
  split; [reflexivity|]. split; [exact Hs|]. split; [lia|]. split; [lia|exact A3].
Qed.

(** * 3. Phase 2 of [buf_resize]: reflow, padding, cursor translation *)

Lemma nth_map_trimd_mid D y tl k :
  length D = k -> nth k (map trimd (D ++ y :: tl)) [] = trimd y.
Proof.
  intros <-. rewrite map_app, app_nth2 by (rewrite map_length; lia).
  rewrite map_length, Nat.sub_diag. reflexivity.
Qed.

Lemma phase2_text b nc cc cr k off ls1 cc1 cr1 r1 :
  BInv b -> 1 <= nc -> cr < brows b ->
  curs_go (lines b) (sb_len b + cr) 0 0 (bcols b) = (k, off) ->
  resize_phase2 b nc cc cr (cc + off) k = Ok (ls1, cc1, cr1, r1) ->
  exists n1 off1,
    logical_t ls1 = logical_t (lines b) ++ repeat [] n1 /\
    k < length (logical_t (lines b)) /\
    Forall (LineInv nc) ls1 /\ last_not_wrapped ls1 /\ r1 <= length ls1 /\ cr1 < r1 /\
    (cc1 < nc \/ (nc = bcols b /\ cc1 = cc /\ r1 = brows b)) /\
    curs_go ls1 (length ls1 - r1 + cr1) 0 0 nc = (k, off1) /\
    (off + cc < length (nth k (logical_t (lines b)) []) -> off1 + cc1 = off + cc) /\
    (off1 + cc1 = off + cc \/
     exists x, nth_error ls1 (length ls1 - r1 + cr1) = Some x /\ wrapped x = false).
Proof.
  intros HI Hnc Hcr E. pose proof HI as ((Hc & Hr & Hlen & Hall) & Hlnw).
  assert (Hk : k < length (logical_t (lines b))).
  { destruct (nth_error (lines b) (sb_len b + cr)) as [x0|] eqn:N.
    2: { apply nth_error_None in N. unfold sb_len in N. lia. }
    destruct (row_in_logical _ _ _ _ _ _ Hall Hlnw N E)
      as (D & pre & more & tl & EL & HD & _).
    unfold logical_t. rewrite map_length, EL, app_length. cbn [length]. lia. }
  unfold resize_phase2. destruct (nc =? bcols b) eqn:En; cbn [negb].
  - apply Nat.eqb_eq in En. intros [= <- <- <- <-]. exists 0, off.
    cbn [repeat]. rewrite app_nil_r. rewrite En.
    split; [reflexivity|]. split; [exact Hk|]. split; [exact Hall|]. split; [exact Hlnw|].
    split; [exact Hlen|]. split; [exact Hcr|]. split; [right; auto|].
    split; [exact E|]. split; [auto|left; reflexivity].
  - destruct (reflowM (lines b) nc) as [out|p] eqn:Eo; cbn [bind]; [|discriminate].
    destruct (reflow_total (lines b) nc Hnc) as (out' & Eo' & Fo & _ & Lo).
    rewrite Eo in Eo'. injection Eo' as <-. specialize (Lo Hlnw).
    pose proof (reflow_logical _ _ _ Hnc Hlnw Eo) as Tx.
    set (ls := if length out <? brows b then _ else out).
    assert (P : exists n1, ls = out ++ repeat (blank_line nc default_pen) n1
                           /\ brows b <= length ls).
    { unfold ls. destruct (length out <? brows b) eqn:Lt.
      - eexists. split; [reflexivity|]. rewrite app_length, repeat_length. lia.
      - exists 0. cbn [repeat]. rewrite app_nil_r. split; [reflexivity|lia]. }
    clearbody ls. destruct P as (n1 & -> & Hge).
    set (ls := out ++ repeat (blank_line nc default_pen) n1) in *.
    assert (Fl : Forall (LineInv nc) ls).
    { apply Forall_app. split; [exact Fo|]. apply Forall_forall.
      intros x Hx. apply repeat_spec in Hx. subst x. apply LineInv_blank. }
    assert (Ll : last_not_wrapped ls) by (apply lnw_app_repeat; [exact Lo|reflexivity]).
    assert (Tl : logical_t ls = logical_t (lines b) ++ repeat [] n1).
    { unfold ls. rewrite logical_t_pad by exact Lo. rewrite Tx. reflexivity. }
    destruct (relative_position ls (cc + off) k nc (brows b)) as [[rc rr]|p] eqn:Er;
      cbn [bind]; [|discriminate].
    destruct (relative_position_spec ls (cc + off) k nc (brows b) rc rr Fl Ll) as
      (R & off1 & a & C1 & Ha & Hrc & Hrr & HR & _ & Hrl & Hex); [|exact Er|].
    { apply (f_equal (@length _)) in Tl. unfold logical_t in Tl, Hk.
      rewrite app_length, !map_length in Tl. rewrite map_length in Hk. lia. }
    assert (CA : off + cc < length (nth k (logical_t (lines b)) []) -> a < nc).
    { intros Ho. destruct Hex as [Hlt|(x & Nx & Wx)]; [exact Hlt|].
      destruct (row_in_logical _ _ _ _ _ _ Fl Ll Nx C1)
        as (D & pre & more & tl & EL & HD & Hpre & Hm).
      specialize (Hm Wx). subst more. rewrite app_nil_r in EL.
      assert (N1 : nth k (logical_t ls) [] = trimd (pre ++ cells x)).
      { unfold logical_t. rewrite EL. apply nth_map_trimd_mid. exact HD. }
      rewrite Tl, app_nth1 in N1 by exact Hk. rewrite N1 in Ho.
      pose proof (trimd_length_le (pre ++ cells x)) as Le. rewrite app_length in Le.
      assert (length (cells x) = nc).
      { rewrite Forall_forall in Fl. apply Fl. eapply nth_error_In. exact Nx. }
      lia. }
    assert (Fin : forall cr1 r1, length ls - r1 + cr1 = R -> r1 <= length ls -> cr1 < r1 ->
      logical_t ls = logical_t (lines b) ++ repeat [] n1 /\
      k < length (logical_t (lines b)) /\
      Forall (LineInv nc) ls /\ last_not_wrapped ls /\ r1 <= length ls /\ cr1 < r1 /\
      (rc < nc \/ (nc = bcols b /\ rc = cc /\ r1 = brows b)) /\
      curs_go ls (length ls - r1 + cr1) 0 0 nc = (k, off1) /\
      (off + cc < length (nth k (logical_t (lines b)) []) -> off1 + rc = off + cc) /\
      (off1 + rc = off + cc \/
       exists x, nth_error ls (length ls - r1 + cr1) = Some x /\ wrapped x = false)).
    { intros cr1' r1' -> H1 H2.
      split; [exact Tl|]. split; [exact Hk|]. split; [exact Fl|]. split; [exact Ll|].
      split; [exact H1|]. split; [exact H2|]. split; [left; lia|]. split; [exact C1|].
      split; [intros Ho; specialize (CA Ho); lia|].
      destruct Hex as [Hlt|Hx]; [left; lia|right; exact Hx]. }
    destruct (0 <=? rr)%Z eqn:Z0; intros [= <- <- <- <-]; exists n1, off1; apply Fin; lia.
Qed.

(** * 4. Phase 3: the absolute cursor row is kept; rows are only added at the bottom, or
    removed strictly below the cursor row (the last kept row loses its wrap mark) *)

Lemma phase3_text nc nr ls1 cr1 r1 ls2 cr2 :
  1 <= nr -> r1 <= length ls1 -> cr1 < r1 ->
  resize_phase3 nc nr ls1 cr1 r1 = Ok (ls2, cr2) ->
  nr <= length ls2 /\ length ls2 - nr + cr2 = length ls1 - r1 + cr1 /\
  ((exists n, ls2 = ls1 ++ repeat (blank_line nc default_pen) n) \/
   (exists A x B, ls1 = A ++ x :: B /\ ls2 = A ++ [x <| wrapped := false |>] /\
                  length ls1 - r1 + cr1 <= length A /\ nr < r1)).
Proof.
  intros Hnr Hlen Hcr. unfold resize_phase3.
  destruct (Nat.compare_spec nr r1) as [Heq|Hlt|Hgt].
  - intros [= <- <-]. split; [lia|]. split; [lia|]. left. exists 0. cbn [repeat].
    rewrite app_nil_r. reflexivity.
  - replace (cr1 + 1 <=? r1) with true by (symmetry; lia). cbn [guard bind].
    set (excess := Nat.min (r1 - nr) (r1 - 1 - cr1)).
    replace (r1 - nr - excess <=? cr1) with true by (symmetry; unfold excess; lia).
    destruct (0 <? excess) eqn:Ex.
    + replace (excess <=? length ls1) with true by (symmetry; unfold excess; lia).
      cbn [guard bind].
      pose proof (firstn_skipn (length ls1 - excess) ls1) as Sp.
      set (t := firstn (length ls1 - excess) ls1) in *.
      assert (Tl : length t = length ls1 - excess).
      { unfold t. rewrite firstn_length. lia. }
      clearbody t.
      replace (1 <=? length t) with true by (symmetry; unfold excess in *; lia).
      cbn [guard bind].
      destruct (upd_last_snoc (fun l => l <| wrapped := false |>) t) as (t0 & x & Et & Eu);
        [unfold excess in *; lia|].
      rewrite Eu. intros [= <- <-].
      rewrite Et, app_length in Tl. cbn [length] in Tl.
      rewrite app_length. cbn [length].
      split; [unfold excess in *; lia|]. split; [unfold excess in *; lia|].
      right. exists t0, x, (skipn (length ls1 - excess) ls1).
      split; [|split; [reflexivity|split; [unfold excess in *; lia|exact Hlt]]].
      rewrite <- Sp at 1. rewrite Et, <- app_assoc. reflexivity.
    + cbn [guard bind]. intros [= <- <-].
      split; [unfold excess in *; lia|]. split; [unfold excess in *; lia|].
      left. exists 0. cbn [repeat]. rewrite app_nil_r. reflexivity.
  - intros [= <- <-].
    set (shift := Nat.min (length ls1 - Nat.min r1 (length ls1)) (nr - r1)).
    replace (cr1 <? r1) with true by (symmetry; lia).
    destruct (0 <? nr - r1 - shift) eqn:D.
    + rewrite app_length, repeat_length.
      split; [unfold shift in *; lia|]. split; [unfold shift in *; lia|].
      left. eexists. reflexivity.
    + split; [unfold shift in *; lia|]. split; [unfold shift in *; lia|].
      left. exists 0. cbn [repeat]. rewrite app_nil_r. reflexivity.
Qed.

(** * 5. The boolean vocabulary of [resize_preserves] *)

Lemma color_eqb_eq a b : color_eqb a b = true -> a = b.
Proof.
  destruct a as [i|r g b0], b as [j|r' g' b']; cbn [color_eqb]; try discriminate.
  - intros H. apply N.eqb_eq in H. congruence.
  - intros H. apply andb_prop in H. destruct H as (H & H3).
    apply andb_prop in H. destruct H as (H1 & H2).
    apply N.eqb_eq in H1, H2, H3. congruence.
Qed.

Lemma opt_eqb_eq {A} (e : A -> A -> bool) :
  (forall x y, e x y = true -> x = y) -> forall a b, opt_eqb e a b = true -> a = b.
Proof.
  intros H [x|] [y|]; cbn [opt_eqb]; try discriminate; [|reflexivity].
  intros E. f_equal. apply H. exact E.
Qed.

Lemma pen_eqb_eq p q : pen_eqb p q = true -> p = q.
Proof.
  destruct p as [f1 b1 i1 a1], q as [f2 b2 i2 a2]. unfold pen_eqb.
  cbn [foreground background intensity attrs]. intros H.
  apply andb_prop in H. destruct H as (H & H4).
  apply andb_prop in H. destruct H as (H & H3).
  apply andb_prop in H. destruct H as (H1 & H2).
  apply (opt_eqb_eq _ color_eqb_eq) in H1, H2. apply N.eqb_eq in H4.
  assert (i1 = i2) by (destruct i1, i2; try discriminate H3; reflexivity).
  congruence.
Qed.

Lemma cell_eqb_eq a b : cell_eqb a b = true -> a = b.
Proof.
  destruct a as [c1 p1], b as [c2 p2]. unfold cell_eqb. cbn [ch cpen]. intros H.
  apply andb_prop in H. destruct H as (H1 & H2).
  apply N.eqb_eq in H1. apply pen_eqb_eq in H2. congruence.
Qed.

Lemma cells_eqb_refl x : cells_eqb x x = true.
Proof. apply list_eqb_refl. exact cell_eqb_refl. Qed.

Lemma ll_eqb_refl X : list_eqb cells_eqb X X = true.
Proof. apply list_eqb_refl. exact cells_eqb_refl. Qed.

Lemma is_prefix_app a b : is_prefix a (a ++ b) = true.
Proof.
  induction a as [|x a IH]; [reflexivity|].
  cbn [app is_prefix]. rewrite cell_eqb_refl, IH. reflexivity.
Qed.

Lemma is_prefix_refl a : is_prefix a a = true.
Proof. rewrite <- (app_nil_r a) at 2. apply is_prefix_app. Qed.

Lemma is_prefix_firstn X : forall q m, q <= m -> is_prefix (firstn q X) (firstn m X) = true.
Proof.
  induction X as [|x X IH]; intros q m H.
  - rewrite !firstn_nil. reflexivity.
  - destruct q as [|q]; [reflexivity|]. destruct m as [|m]; [lia|].
    cbn [firstn is_prefix]. rewrite cell_eqb_refl, IH by lia. reflexivity.
Qed.

Lemma eq_upto_blank_app a d :
  forallb cell_is_default d = true -> eq_upto_blank a (a ++ d) = true.
Proof.
  intros H. unfold eq_upto_blank. rewrite is_prefix_app.
  rewrite skipn_app, skipn_all, Nat.sub_diag. cbn [skipn app andb]. exact H.
Qed.

Lemma eq_upto_blank_refl a : eq_upto_blank a a = true.
Proof. rewrite <- (app_nil_r a) at 2. apply eq_upto_blank_app. reflexivity. Qed.

(** a window of the trimmed line against the same window of the raw line *)
Lemma eq_upto_blank_trim t P : eq_upto_blank (firstn t (trimd P)) (firstn t P) = true.
Proof.
  destruct (trimd_split P) as (d & E & Dd & _).
  remember (trimd P) as T eqn:HT. rewrite E. rewrite firstn_app.
  apply eq_upto_blank_app. apply forallb_firstn'. exact Dd.
Qed.

Lemma skip_while_length_le {A} (f : A -> bool) (l : list A) :
  length (skip_while f l) <= length l.
Proof.
  induction l as [|x r IH]; [cbn; lia|].
  cbn [skip_while]. destruct (f x); cbn [length] in *; lia.
Qed.

Lemma skip_while_app_ge {A} (f : A -> bool) (u v : list A) :
  length (skip_while f v) <= length (skip_while f (u ++ v)).
Proof.
  induction u as [|x u IH]; [cbn [app]; lia|].
  cbn [app skip_while]. destruct (f x); [exact IH|].
  pose proof (skip_while_length_le f v). cbn [length]. rewrite app_length. lia.
Qed.

Lemma trimd_app_length_ge a b : length (trimd a) <= length (trimd (a ++ b)).
Proof.
  unfold trimd. rewrite !rev_length, rev_app_distr. apply skip_while_app_ge.
Qed.

(** the trimmed text of a cut line is a prefix of the trimmed text of the whole line *)
Lemma trimd_prefix_app P more : is_prefix (trimd P) (trimd (P ++ more)) = true.
Proof.
  rewrite (trimd_firstn (P ++ more)).
  assert (E : trimd P = firstn (length (trimd P)) (P ++ more)).
  { rewrite firstn_app. pose proof (trimd_length_le P) as Le.
    replace (length (trimd P) - length P) with 0 by lia. cbn [firstn].
    rewrite app_nil_r. apply trimd_firstn. }
  rewrite E at 1. apply is_prefix_firstn. apply trimd_app_length_ge.
Qed.

Lemma all_empty_repeat n : all_empty (repeat [] n) = true.
Proof. induction n as [|n IH]; [reflexivity|exact IH]. Qed.

Lemma tail_ok_nil_r new : tail_ok new [] = all_empty new.
Proof. destruct new; reflexivity. Qed.

Lemma tail_ok_app_empty X n : tail_ok (X ++ repeat [] n) X = true.
Proof.
  induction X as [|x X IH].
  - cbn [app]. rewrite tail_ok_nil_r. apply all_empty_repeat.
  - cbn [app tail_ok]. rewrite cells_eqb_refl. exact IH.
Qed.

Lemma tail_ok_all_empty new : forall n,
  tail_ok new (repeat [] n) = true -> all_empty new = true.
Proof.
  induction new as [|x new IH]; intros n H; [reflexivity|].
  destruct n as [|n]; [exact H|].
  cbn [repeat tail_ok] in H. destruct x as [|c x].
  - cbn in H. cbn [all_empty forallb andb]. exact (IH n H).
  - cbn in H. discriminate H.
Qed.

Lemma tail_ok_drop_empty new : forall old n,
  tail_ok new (old ++ repeat [] n) = true -> tail_ok new old = true.
Proof.
  induction new as [|x new IH]; intros old n H; [reflexivity|].
  destruct old as [|y old].
  - cbn [app] in H. rewrite tail_ok_nil_r. exact (tail_ok_all_empty _ _ H).
  - cbn [app tail_ok] in H |- *. destruct (cells_eqb x y); [exact (IH _ _ H)|exact H].
Qed.

Lemma tail_ok_common X p q Y :
  is_prefix p q = true -> tail_ok (X ++ [p]) (X ++ q :: Y) = true.
Proof.
  intros H. induction X as [|x X IH].
  - cbn [app tail_ok]. destruct (cells_eqb p q); [reflexivity|].
    rewrite H. reflexivity.
  - cbn [app tail_ok]. rewrite cells_eqb_refl. exact IH.
Qed.

(** the text part of [resize_preserves] *)
Definition text_ok (L L' : list (list cell)) (k o : nat) : Prop :=
  let old_k := nth k L [] in
  let new_k := nth k L' [] in
  let m := length old_k in
  list_eqb cells_eqb (firstn k L') (firstn k L) = true /\
  eq_upto_blank (firstn (Nat.min o m) new_k) (firstn (Nat.min o m) old_k) = true /\
  is_prefix new_k old_k = true /\
  tail_ok (skipn (S k) L') (skipn (S k) L) = true.

(** rows added at the bottom: more empty logical lines at the end *)
Lemma text_ok_ext L n k o : k < length L -> text_ok L (L ++ repeat [] n) k o.
Proof.
  intros Hk. unfold text_ok. cbv zeta.
  rewrite firstn_app, app_nth1 by exact Hk.
  replace (k - length L) with 0 by lia. cbn [firstn]. rewrite app_nil_r.
  rewrite skipn_app. replace (S k - length L) with 0 by lia. cbn [skipn].
  split; [apply ll_eqb_refl|]. split; [apply eq_upto_blank_refl|].
  split; [apply is_prefix_refl|apply tail_ok_app_empty].
Qed.

(** rows removed below row [x] (logical line [length D]), which loses its wrap mark *)
Lemma text_ok_cut L n1 D P more tl k o :
  k < length L ->
  L ++ repeat [] n1 = map trimd (D ++ (P ++ more) :: tl) ->
  k <= length D -> (k = length D -> more = [] \/ o <= length P) ->
  text_ok L (map trimd (D ++ [P])) k o.
Proof.
  intros Hk E1 Hle Hcur. unfold text_ok. cbv zeta.
  assert (F1 : firstn k L = firstn k (map trimd D)).
  { transitivity (firstn k (L ++ repeat [] n1)).
    - rewrite firstn_app. replace (k - length L) with 0 by lia. cbn [firstn].
      rewrite app_nil_r. reflexivity.
    - rewrite E1, map_app, firstn_app, map_length.
      replace (k - length D) with 0 by lia. cbn [firstn]. rewrite app_nil_r. reflexivity. }
  assert (F2 : firstn k (map trimd (D ++ [P])) = firstn k (map trimd D)).
  { rewrite map_app, firstn_app, map_length.
    replace (k - length D) with 0 by lia. cbn [firstn]. rewrite app_nil_r. reflexivity. }
  assert (N1 : nth k L [] = nth k (map trimd (D ++ (P ++ more) :: tl)) []).
  { rewrite <- E1. symmetry. apply app_nth1. exact Hk. }
  assert (S1 : skipn (S k) (map trimd (D ++ (P ++ more) :: tl))
               = skipn (S k) L ++ repeat [] n1).
  { rewrite <- E1, skipn_app. replace (S k - length L) with 0 by lia. reflexivity. }
  rewrite F1, F2, N1. split; [apply ll_eqb_refl|].
  destruct (Nat.eq_dec k (length D)) as [e|n].
  - (* the cursor's own line is the one that is cut *)
    rewrite !(nth_map_trimd_mid D _ _ k (eq_sym e)).
    split; [|split; [apply trimd_prefix_app|]].
    + destruct (Hcur e) as [->|Ho].
      * rewrite app_nil_r. apply eq_upto_blank_refl.
      * set (t := Nat.min o (length (trimd (P ++ more)))).
        assert (Ht : firstn t (trimd (P ++ more)) = firstn t P).
        { rewrite (trimd_firstn (P ++ more)), firstn_firstn.
          replace (Nat.min t (length (trimd (P ++ more)))) with t by (unfold t; lia).
          rewrite firstn_app. replace (t - length P) with 0 by (unfold t; lia).
          cbn [firstn]. apply app_nil_r. }
        rewrite Ht. apply eq_upto_blank_trim.
    + rewrite map_app, skipn_app, map_length. cbn [map].
      rewrite skipn_all2 by (rewrite map_length; lia).
      replace (S k - length D) with 1 by lia. reflexivity.
  - (* the cut is in a later line *)
    assert (Hlt : k < length D) by lia.
    assert (NA : forall Z, nth k (map trimd (D ++ Z)) [] = nth k (map trimd D) []).
    { intros Z. rewrite map_app. apply app_nth1. rewrite map_length. exact Hlt. }
    rewrite !NA.
    split; [apply eq_upto_blank_refl|]. split; [apply is_prefix_refl|].
    apply (tail_ok_drop_empty _ _ n1). rewrite <- S1.
    rewrite !map_app, !skipn_app, map_length.
    replace (S k - length D) with 0 by lia. cbn [skipn map].
    apply tail_ok_common. apply trimd_prefix_app.
Qed.

(** * 6. [buf_resize] as a whole *)

Lemma firstn_app_le {A} R (l X : list A) : R <= length l -> firstn R (l ++ X) = firstn R l.
Proof.
  intros H. rewrite firstn_app. replace (R - length l) with 0 by lia.
  cbn [firstn]. apply app_nil_r.
Qed.

(** Everything about one resize: with [(k, off)] the cursor's logical line and the offset of
    its row in it, the new cursor [(k, off1 + cc')] and the new text [text_ok]. *)
Lemma resize_struct b nc nr cc cr b' cc' cr' k off :
  BInv b -> 1 <= nc -> 1 <= nr -> cr < brows b ->
  curs_go (lines b) (sb_len b + cr) 0 0 (bcols b) = (k, off) ->
  buf_resize b nc nr cc cr = Ok (b', (cc', cr')) ->
  exists off1,
    curs_go (lines b') (sb_len b' + cr') 0 0 (bcols b') = (k, off1) /\
    k < length (logical_t (lines b)) /\
    (off + cc < length (nth k (logical_t (lines b)) []) -> off1 + cc' = off + cc) /\
    ((nc = bcols b -> nr < brows b -> cc <= bcols b) ->
     text_ok (logical_t (lines b)) (logical_t (lines b')) k (off + cc)).
Proof.
  intros HI Hnc Hnr Hcr E. rewrite buf_resize_eq.
  pose proof HI as ((_ & _ & Hlen & _) & _).
  rewrite (logical_position_curs b cc cr k off Hlen Hcr E). cbn [bind].
  destruct (resize_phase2 b nc cc cr (cc + off) k) as [[[[ls1 cc1] cr1] r1]|p] eqn:E2;
    cbn [bind]; [|discriminate].
  destruct (phase2_text b nc cc cr k off ls1 cc1 cr1 r1 HI Hnc Hcr E E2)
    as (n1 & off1 & Tl & Hk & Fl & Ll & Hr1 & Hcr1 & Hcc1 & C1 & Ho & Hex).
  destruct (resize_phase3 nc nr ls1 cr1 r1) as [[ls2 cr2]|p] eqn:E3; cbn [bind]; [|discriminate].
  destruct (phase3_text nc nr ls1 cr1 r1 ls2 cr2 Hnr Hr1 Hcr1 E3) as (Hge & HR & Hshape).
  intros [= <- <- <-].
  set (R := length ls1 - r1 + cr1) in *.
  assert (HRlt : R < length ls1) by (unfold R; lia).
  assert (Eb : lines (b <| lines := ls2 |> <| bcols := nc |> <| brows := nr |>
                        <| trim_needed := true |>) = ls2
               /\ bcols (b <| lines := ls2 |> <| bcols := nc |> <| brows := nr |>
                           <| trim_needed := true |>) = nc
               /\ sb_len (b <| lines := ls2 |> <| bcols := nc |> <| brows := nr |>
                            <| trim_needed := true |>) = length ls2 - nr).
  { destruct b; repeat split; reflexivity. }
  destruct Eb as (-> & -> & ->). rewrite HR.
  exists off1.
  destruct Hshape as [(n & ->)|(A & x & B & E1 & -> & HA & Hnr1)].
  - (* rows added (or nothing) *)
    split.
    { rewrite <- C1. apply curs_go_same_prefix. apply firstn_app_le. lia. }
    split; [exact Hk|]. split; [exact Ho|]. intros _.
    rewrite logical_t_pad by exact Ll. rewrite Tl, <- app_assoc, <- repeat_app.
    apply text_ok_ext. exact Hk.
  - (* rows below the cursor removed *)
    subst ls1.
    assert (FA : Forall (LineInv nc) A) by (apply Forall_app in Fl; apply Fl).
    split.
    { rewrite <- C1. apply curs_go_same_prefix. rewrite !firstn_app_le by exact HA.
      reflexivity. }
    split; [exact Hk|]. split; [exact Ho|]. intros Hcc.
    assert (Hcc1' : cc1 <= nc).
    { destruct Hcc1 as [Hlt|(e1 & e2 & e3)]; [lia|]. subst cc1 r1. rewrite e1. apply Hcc; assumption. }
    destruct (curs_go (A ++ x :: B) (length A) 0 0 nc) as [j offx] eqn:Cx.
    destruct (row_in_logical_split A x B nc j offx FA Ll Cx)
      as (D & pre & more & tl & EL & EL' & HD & Hpre & Hm).
    destruct (curs_go_mono (A ++ x :: B) nc R (length A - R) k off1 j offx) as (M1 & M2).
    { rewrite app_length. cbn [length]. lia. }
    { exact C1. }
    { replace (R + (length A - R)) with (length A) by lia. exact Cx. }
    unfold logical_t at 2. rewrite EL'.
    apply (text_ok_cut _ n1 D (pre ++ cells x) more tl).
    + exact Hk.
    + rewrite <- Tl. unfold logical_t. rewrite EL, <- app_assoc. reflexivity.
    + lia.
    + intros e. destruct Hex as [Hoo|(y & Ny & Wy)].
      * right. rewrite <- Hoo, app_length, Hpre.
        assert (length (cells x) = nc).
        { rewrite Forall_forall in Fl. apply Fl. apply in_or_app. right. left. reflexivity. }
        lia.
      * left. destruct (Nat.eq_dec R (length A)) as [eR|nR].
        -- apply Hm. rewrite eR, nth_error_app2, Nat.sub_diag in Ny by lia.
           injection Ny as <-. exact Wy.
        -- specialize (M2 ltac:(lia) y Ny Wy). lia.
Qed.

(** ** C10, cursor: the cursor stays on the same logical line; when it sits on a character
    of the (trimmed) text of that line, it stays on the same character.  Nothing is required
    of the cursor column (in particular the wrap-pending column [cc = bcols b] is fine). *)
Theorem resize_cursor_line' : forall b nc nr cc cr b' cc' cr',
  BInv b -> 1 <= nc -> 1 <= nr -> cr < brows b ->
  buf_resize b nc nr cc cr = Ok (b', (cc', cr')) ->
  fst (curs b' cc' cr') = fst (curs b cc cr) /\
  (snd (curs b cc cr) < length (nth (fst (curs b cc cr)) (logical_t (lines b)) []) ->
   snd (curs b' cc' cr') = snd (curs b cc cr)).
Proof.
  intros b nc nr cc cr b' cc' cr' HI Hnc Hnr Hcr E. unfold curs.
  destruct (curs_go (lines b) (sb_len b + cr) 0 0 (bcols b)) as [k off] eqn:C.
  destruct (resize_struct _ _ _ _ _ _ _ _ k off HI Hnc Hnr Hcr C E)
    as (off1 & C' & _ & Ho & _).
  rewrite C'. cbn [fst snd]. split; [reflexivity|exact Ho].
Qed.

Print Assumptions resize_cursor_line'.

(** the statement as requested (the hypothesis on [cc] is not used) *)
Theorem resize_cursor_line : forall b nc nr cc cr b' cc' cr',
  BInv b -> 1 <= nc -> 1 <= nr -> cr < brows b -> cc <= bcols b ->
  buf_resize b nc nr cc cr = Ok (b', (cc', cr')) ->
  fst (curs b' cc' cr') = fst (curs b cc cr) /\
  (snd (curs b cc cr) < length (nth (fst (curs b cc cr)) (logical_t (lines b)) []) ->
   snd (curs b' cc' cr') = snd (curs b cc cr)).
Proof.
  intros b nc nr cc cr b' cc' cr' HI Hnc Hnr Hcr _. apply resize_cursor_line'; assumption.
Qed.

Print Assumptions resize_cursor_line.

(** ** C10, the executable statement of [Spec/Logical.v].  The cursor column only matters
    when the width is unchanged and the height shrinks (rows below the cursor are cut): a
    column beyond the width would point past the cut (see the counterexample in the header
    of this section). *)
Theorem resize_text' : forall b nc nr cc cr b' cc' cr',
  BInv b -> 1 <= nc -> 1 <= nr -> cr < brows b ->
  (nc = bcols b -> nr < brows b -> cc <= bcols b) ->
  buf_resize b nc nr cc cr = Ok (b', (cc', cr')) ->
  resize_preserves b cc cr b' cc' cr' = true.
Proof.
  intros b nc nr cc cr b' cc' cr' HI Hnc Hnr Hcr Hcc E. unfold resize_preserves, curs.
  destruct (curs_go (lines b) (sb_len b + cr) 0 0 (bcols b)) as [k off] eqn:C.
  destruct (resize_struct _ _ _ _ _ _ _ _ k off HI Hnc Hnr Hcr C E)
    as (off1 & C' & _ & Ho & T).
  destruct (T Hcc) as (T1 & T2 & T3 & T4).
  rewrite C'. rewrite Nat.eqb_refl, T1, T2, T3, T4. cbn [andb].
  destruct (off + cc <? length (nth k (logical_t (lines b)) [])) eqn:Lt; [|reflexivity].
  apply Nat.ltb_lt in Lt. rewrite (Ho Lt), Nat.eqb_refl. reflexivity.
Qed.

Print Assumptions resize_text'.

Theorem resize_text : forall b nc nr cc cr b' cc' cr',
  BInv b -> 1 <= nc -> 1 <= nr -> cr < brows b -> cc <= bcols b ->
  buf_resize b nc nr cc cr = Ok (b', (cc', cr')) ->
  resize_preserves b cc cr b' cc' cr' = true.
Proof.
  intros b nc nr cc cr b' cc' cr' HI Hnc Hnr Hcr Hcc. apply resize_text'; auto.
Qed.

Print Assumptions resize_text.

(** The individual conjuncts, as propositions. *)
Theorem resize_text_conjuncts : forall b nc nr cc cr b' cc' cr',
  BInv b -> 1 <= nc -> 1 <= nr -> cr < brows b ->
  (nc = bcols b -> nr < brows b -> cc <= bcols b) ->
  buf_resize b nc nr cc cr = Ok (b', (cc', cr')) ->
  let L := logical_t (lines b) in
  let L' := logical_t (lines b') in
  let k := fst (curs b cc cr) in
  k < length L /\
  firstn k L' = firstn k L /\
  is_prefix (nth k L' []) (nth k L []) = true /\
  tail_ok (skipn (S k) L') (skipn (S k) L) = true.
Proof.
  intros b nc nr cc cr b' cc' cr' HI Hnc Hnr Hcr Hcc E. unfold curs. cbv zeta.
  destruct (curs_go (lines b) (sb_len b + cr) 0 0 (bcols b)) as [k off] eqn:C.
  destruct (resize_struct _ _ _ _ _ _ _ _ k off HI Hnc Hnr Hcr C E)
    as (off1 & C' & Hk & Ho & T).
  destruct (T Hcc) as (T1 & T2 & T3 & T4). cbn [fst].
  split; [exact Hk|]. split; [|split; [exact T3|exact T4]].
  apply (list_eqb_eq cells_eqb); [|exact T1].
  intros x y. apply list_eqb_eq. exact cell_eqb_eq.
Qed.

Print Assumptions resize_text_conjuncts.

(** ** Necessity of the cursor hypotheses (computed counterexamples) *)

Definition Xc : cell := mkCell 120 default_pen.

(** three rows "xx" forming ONE logical line "xxxxxx", 2 columns, view of 2 rows *)
Definition cex_buf (r : nat) : buffer :=
  mkBuffer [mkLine [Xc; Xc] true; mkLine [Xc; Xc] true; mkLine [Xc; Xc] false] 2 r None false.

Example cex_BInv r : 1 <= r <= 3 -> BInv (cex_buf r).
Proof.
  intros H. unfold cex_buf, BInv, BGeom. cbn. repeat split; try lia. repeat constructor.
Qed.

(** [cc <= bcols b] is needed when the width is unchanged and the height shrinks: cursor
    column 3 > 2 on view row 0; the row below is cut; the cursor's offset 5 in its logical
    line now points past the cut, and "intact up to the cursor" fails. *)
Example resize_text_needs_cc :
  buf_resize (cex_buf 2) 2 1 3 0
  = Ok (mkBuffer [mkLine [Xc; Xc] true; mkLine [Xc; Xc] false] 2 1 None true, (3, 0)) /\
  resize_preserves (cex_buf 2) 3 0
    (mkBuffer [mkLine [Xc; Xc] true; mkLine [Xc; Xc] false] 2 1 None true) 3 0 = false.
Proof. vm_compute. split; reflexivity. Qed.

(** [cr < brows b] is needed: a cursor row below the view ([cr = 1] with a view of 1 row) is
    "after the last line" for [curs] ((1, 0)), but [buf_resize] clamps it into the text
    ((0, 4)): the logical line index changes. *)
Example resize_text_needs_cr :
  match buf_resize (cex_buf 1) 2 2 0 1 with
  | Ok (b', (cc', cr')) =>
    curs (cex_buf 1) 0 1 = (1, 0) /\ curs b' cc' cr' = (0, 4) /\
    resize_preserves (cex_buf 1) 0 1 b' cc' cr' = false
  | Panic _ => False
  end.
Proof. vm_compute. repeat split. Qed.

(** * 7. At the level of the terminal: [Terminal::resize] (the buffer's cursor is the
    terminal's cursor; marking dirty lines and clamping the saved cursor do not touch the
    buffer or the cursor) *)

Lemma reflow_text t t' :
  BInv (buf t) -> 1 <= cols t -> 1 <= rows t ->
  cur_row t < brows (buf t) -> cur_col t <= bcols (buf t) ->
  reflow t = Ok t' ->
  resize_preserves (buf t) (cur_col t) (cur_row t) (buf t') (cur_col t') (cur_row t') = true.
Proof.
  intros HI Hc Hr Hrow Hcol. unfold reflow.
  set (t1 := if negb (cols t =? bcols (buf t)) then t <| Types.pend := false |> else t).
  assert (P : buf t1 = buf t /\ cur_col t1 = cur_col t /\ cur_row t1 = cur_row t
              /\ cols t1 = cols t /\ rows t1 = rows t).
  { unfold t1. destruct (negb (cols t =? bcols (buf t))); destruct t; repeat split; reflexivity. }
  clearbody t1. destruct P as (P1 & P2 & P3 & P4 & P5). rewrite P1, P2, P3, P4, P5.
  destruct (buf_resize (buf t) (cols t) (rows t) (cur_col t) (cur_row t))
    as [[b [c r]]|p] eqn:E; cbn [bind]; [|discriminate].
  pose proof (resize_text _ _ _ _ _ _ _ _ HI Hc Hr Hrow Hcol E) as T.
  unfold mark_range.
  match goal with |- context [dirty_extend ?d ?a ?z] => destruct (dirty_extend d a z) as [dd|p] end;
    cbn [bind]; [|discriminate].
  intros [= <-].
  match goal with |- context [if ?c then _ else _] => destruct c end;
  match goal with |- context [if ?c then _ else _] => destruct c end;
  destruct t1; exact T.
Qed.

Theorem term_resize_text : forall t c r t',
  BInv (buf t) -> bcols (buf t) = cols t -> brows (buf t) = rows t ->
  cur_row t < rows t -> cur_col t <= cols t -> 1 <= c -> 1 <= r ->
  term_resize t c r = Ok t' ->
  resize_preserves (buf t) (cur_col t) (cur_row t) (buf t') (cur_col t') (cur_row t') = true.
Proof.
  intros t c r t' HI Hbc Hbr Hrow Hcol Hc Hr. unfold term_resize.
  set (t1 := match Nat.compare c (cols t) with Lt => _ | Eq => t | Gt => _ end).
  assert (P1 : buf t1 = buf t /\ cur_col t1 = cur_col t /\ cur_row t1 = cur_row t).
  { unfold t1. destruct (Nat.compare c (cols t)); destruct t; repeat split; reflexivity. }
  clearbody t1.
  set (t2 := match Nat.compare r (rows t1) with Eq => t1 | _ => _ end).
  assert (P2 : buf t2 = buf t /\ cur_col t2 = cur_col t /\ cur_row t2 = cur_row t).
  { unfold t2. destruct P1 as (A & B & C).
    destruct (Nat.compare r (rows t1)); destruct t1; cbn in *; repeat split; assumption. }
  clearbody t2. clear P1 t1.
  set (t3 := t2 <| cols := c |> <| rows := r |>).
  assert (P3 : buf t3 = buf t /\ cur_col t3 = cur_col t /\ cur_row t3 = cur_row t
               /\ cols t3 = c /\ rows t3 = r).
  { unfold t3. destruct P2 as (A & B & C). destruct t2; cbn in *. repeat split; assumption. }
  clearbody t3. destruct P3 as (A & B & C & D & F). intros E.
  rewrite <- A, <- B, <- C. apply reflow_text; rewrite ?A, ?B, ?C, ?D, ?F; try assumption; lia.
Qed.

Print Assumptions term_resize_text.

(** * 8. At the level of [Vt]: one [Resize] step satisfies the oracle [holds_C10] *)

From Avt Require Import Oracles.Rel.

Lemma reflow_buf t t' :
  reflow t = Ok t' ->
  exists b c r,
    buf_resize (buf t) (cols t) (rows t) (cur_col t) (cur_row t) = Ok (b, (c, r)) /\
    buf t' = b /\ cur_col t' = c /\ cur_row t' = r /\ active t' = active t.
Proof.
  unfold reflow.
  set (t1 := if negb (cols t =? bcols (buf t)) then t <| Types.pend := false |> else t).
  assert (P : buf t1 = buf t /\ cur_col t1 = cur_col t /\ cur_row t1 = cur_row t
              /\ cols t1 = cols t /\ rows t1 = rows t /\ active t1 = active t).
  { unfold t1. destruct (negb (cols t =? bcols (buf t))); destruct t; repeat split; reflexivity. }
  clearbody t1. destruct P as (P1 & P2 & P3 & P4 & P5 & P6). rewrite P1, P2, P3, P4, P5.
  destruct (buf_resize (buf t) (cols t) (rows t) (cur_col t) (cur_row t))
    as [[b [c r]]|p] eqn:E; cbn [bind]; [|discriminate].
  unfold mark_range.
  match goal with |- context [dirty_extend ?d ?a ?z] => destruct (dirty_extend d a z) as [dd|p] end;
    cbn [bind]; [|discriminate].
  intros [= <-]. exists b, c, r. split; [reflexivity|]. rewrite <- P6.
  match goal with |- context [if ?c then _ else _] => destruct c end;
  match goal with |- context [if ?c then _ else _] => destruct c end;
  destruct t1; repeat split; reflexivity.
Qed.

Lemma term_resize_buf t c r t' :
  term_resize t c r = Ok t' ->
  exists b cc cr,
    buf_resize (buf t) c r (cur_col t) (cur_row t) = Ok (b, (cc, cr)) /\
    buf t' = b /\ cur_col t' = cc /\ cur_row t' = cr /\ active t' = active t.
Proof.
  unfold term_resize.
  set (t1 := match Nat.compare c (cols t) with Lt => _ | Eq => t | Gt => _ end).
  assert (P1 : buf t1 = buf t /\ cur_col t1 = cur_col t /\ cur_row t1 = cur_row t
               /\ active t1 = active t).
  { unfold t1. destruct (Nat.compare c (cols t)); destruct t; repeat split; reflexivity. }
  clearbody t1.
  set (t2 := match Nat.compare r (rows t1) with Eq => t1 | _ => _ end).
  assert (P2 : buf t2 = buf t /\ cur_col t2 = cur_col t /\ cur_row t2 = cur_row t
               /\ active t2 = active t).
  { unfold t2. destruct P1 as (A & B & C & D).
    destruct (Nat.compare r (rows t1)); destruct t1; cbn in *; repeat split; assumption. }
  clearbody t2. clear P1 t1.
  set (t3 := t2 <| cols := c |> <| rows := r |>).
  assert (P3 : buf t3 = buf t /\ cur_col t3 = cur_col t /\ cur_row t3 = cur_row t
               /\ cols t3 = c /\ rows t3 = r /\ active t3 = active t).
  { unfold t3. destruct P2 as (A & B & C & D). destruct t2; cbn in *. repeat split; assumption. }
  clearbody t3. destruct P3 as (A & B & C & D & F & G). intros E.
  destruct (reflow_buf t3 t' E) as (b & cc & cr & E1 & R).
  rewrite A, B, C, D, F, G in *. exists b, cc, cr. split; [exact E1|exact R].
Qed.

Lemma buf_resize_blimit b nc nr cc cr b' p :
  buf_resize b nc nr cc cr = Ok (b', p) -> blimit b' = blimit b.
Proof.
  rewrite buf_resize_eq.
  destruct (logical_position b cc cr (bcols b) (brows b)) as [[lc lr]|s]; cbn [bind]; [|discriminate].
  destruct (resize_phase2 b nc cc cr lc lr) as [[[[ls1 cc1] cr1] r1]|s]; cbn [bind]; [|discriminate].
  destruct (resize_phase3 nc nr ls1 cr1 r1) as [[ls2 cr2]|s]; cbn [bind]; [|discriminate].
  intros [= <- _]. destruct b; reflexivity.
Qed.

Lemma resize_preserves_ext b c r b1 b2 c' r' :
  lines b1 = lines b2 -> bcols b1 = bcols b2 -> brows b1 = brows b2 ->
  resize_preserves b c r b1 c' r' = resize_preserves b c r b2 c' r'.
Proof.
  intros E1 E2 E3. unfold resize_preserves, curs, sb_len. rewrite E1, E2, E3. reflexivity.
Qed.

Lemma buf_gc_unlimited b b' d :
  blimit b = None -> buf_gc b = Ok (b', d) ->
  lines b' = lines b /\ bcols b' = bcols b /\ brows b' = brows b.
Proof.
  intros Hl. unfold buf_gc. destruct (trim_needed b).
  - replace (blimit (b <| trim_needed := false |>)) with (blimit b) by (destruct b; reflexivity).
    rewrite Hl. intros [= <- _]. destruct b; repeat split; reflexivity.
  - intros [= <- _]. repeat split; reflexivity.
Qed.

(** ** C10 for one [Resize] step of the virtual terminal *)
Theorem C10_resize_step : forall v c r v' o,
  Inv v -> 1 <= c -> 1 <= r ->
  stepM v (Resize c r) = Ok (v', o) -> holds_C10 v v' = true.
Proof.
  intros v c r v' o (_ & HT) Hc Hr. cbn [stepM].
  destruct (term_resize (vterm v) c r) as [t1|s] eqn:E; cbn [bind]; [|discriminate].
  unfold vt_flush, changes.
  replace (vterm (v <| vterm := t1 |>)) with t1 by (destruct v; reflexivity).
  unfold term_gc.
  replace (buf (t1 <| dirty := dirty_clear (dirty t1) |>)) with (buf t1) by (destruct t1; reflexivity).
  destruct (buf_gc (buf t1)) as [[b2 dr]|s] eqn:G; cbn [bind]; [|discriminate].
  unfold holds_C10.
  destruct (active (vterm v)) eqn:Ea; [|reflexivity].
  destruct (sb_limit (vterm v)) eqn:Es; [reflexivity|].
  destruct (term_resize_buf _ _ _ _ E) as (b & cc & cr & E1 & B1 & B2 & B3 & B4).
  pose proof (ti_limit _ HT) as Hlim. rewrite Ea, Es in Hlim. destruct Hlim as (Hlim & _).
  cbn [limit_of] in Hlim.
  assert (Hb : blimit (buf t1) = None).
  { rewrite B1, (buf_resize_blimit _ _ _ _ _ _ _ E1). exact Hlim. }
  destruct (buf_gc_unlimited _ _ _ Hb G) as (L1 & L2 & L3).
  assert (T : resize_preserves (buf (vterm v)) (cur_col (vterm v)) (cur_row (vterm v))
                (buf t1) (cur_col t1) (cur_row t1) = true).
  { rewrite B1, B2, B3. apply (resize_text _ c r _ _ _ _ _ (ti_buf _ HT) Hc Hr); [| |exact E1].
    - rewrite (ti_brows _ HT). apply (ti_row _ HT).
    - rewrite (ti_bcols _ HT). apply (ti_col _ HT). }
  replace (active (t1 <| dirty := dirty_clear (dirty t1) |> <| buf := b2 |>)) with Primary
    by (rewrite <- Ea, <- B4; destruct t1; reflexivity).
  cbn [bind]. intros [= <- _].
  match goal with
  | |- resize_preserves ?b0 ?c0 ?r0 ?bb ?cc0 ?rr0 = true =>
    replace bb with b2 by (destruct v, t1; reflexivity);
    replace cc0 with (cur_col t1) by (destruct v, t1; reflexivity);
    replace rr0 with (cur_row t1) by (destruct v, t1; reflexivity)
  end.
  rewrite (resize_preserves_ext _ _ _ b2 (buf t1) _ _ L1 L2 L3). exact T.
Qed.

Print Assumptions C10_resize_step.
