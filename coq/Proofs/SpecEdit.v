(** C07: the erase / insert / delete commands (ED, EL, ECH, ICH, DCH, DECALN) refine the
    view-level specification [spec_edit] of [Spec/Screen.v]. *)

From Coq Require Import Lia ZArith ZifyBool ZifyNat ZifyN.
From Avt Require Import Oracles.Step Proofs.Inv Proofs.VisEq Proofs.ListLemmas Proofs.BufRow
     Proofs.BufScroll Proofs.TermEasy Proofs.SpecScroll.
Ltac Zify.zify_post_hook ::= Z.div_mod_to_equations.

(** * the geometric part of the invariant, enough for every row-level command *)

Definition TGeom (t : term) : Prop :=
  BGeom (buf t) /\ bcols (buf t) = cols t /\ brows (buf t) = rows t /\ length (dirty t) = rows t.

Lemma TInv_TGeom t : TInv t -> TGeom t.
Proof.
  intros H. split; [|split; [|split]];
    [apply (ti_buf t H)|apply (ti_bcols t H)|apply (ti_brows t H)|apply (ti_dirty t H)].
Qed.

Lemma on_buf_set_view t f v : f (buf t) = Ok (bset (buf t) v) -> on_buf t f = Ok (set_view t v).
Proof. intros H. unfold on_buf. rewrite H. reflexivity. Qed.

Lemma mark_set_view t v n :
  n < length (dirty t) ->
  mark (set_view t v) n = Ok ((set_view t v) <| dirty := upd n (fun _ => true) (dirty t) |>).
Proof. intros H. exact (mark_ok (set_view t v) n H). Qed.

Lemma mark_range_set_view t v a z :
  a <= z -> z <= length (dirty t) ->
  mark_range (set_view t v) a z = Ok ((set_view t v) <| dirty := fill_range a z true (dirty t) |>).
Proof. intros H1 H2. exact (mark_range_ok (set_view t v) a z H1 H2). Qed.

Lemma set_view_dirty_norm t v d : vis_norm ((set_view t v) <| dirty := d |>) = vis_norm (set_view t v).
Proof. reflexivity. Qed.

Lemma set_view_TGeom t v d :
  TGeom t -> length v = rows t -> Forall (LineInv (cols t)) v -> length d = rows t ->
  TGeom ((set_view t v) <| dirty := d |>).
Proof.
  intros (HG & Hc & Hr & Hd) Hv HF Hd'. unfold TGeom.
  change (buf ((set_view t v) <| dirty := d |>)) with (bset (buf t) v).
  change (cols ((set_view t v) <| dirty := d |>)) with (cols t).
  change (rows ((set_view t v) <| dirty := d |>)) with (rows t).
  change (dirty ((set_view t v) <| dirty := d |>)) with d.
  rewrite bset_bcols, bset_brows. split; [|split; [|split]]; try assumption.
  apply bset_BGeom; [exact HG|lia|rewrite Hc; exact HF].
Qed.

Lemma set_view_set_view t w v d d' :
  BGeom (buf t) -> length w = brows (buf t) ->
  (set_view ((set_view t w) <| dirty := d |>) v) <| dirty := d' |> = (set_view t v) <| dirty := d' |>.
Proof.
  intros HG Hw. rewrite !set_view_bset.
  change (buf ((t <| buf := bset (buf t) w |>) <| dirty := d |>)) with (bset (buf t) w).
  rewrite (bset_bset (buf t) w v HG Hw). reflexivity.
Qed.

Lemma tview_set_view t v d :
  BGeom (buf t) -> length v = brows (buf t) -> tview ((set_view t v) <| dirty := d |>) = v.
Proof.
  intros HG Hv. change (tview ((set_view t v) <| dirty := d |>)) with (view (bset (buf t) v)).
  apply (bset_view (buf t) v HG Hv).
Qed.

(** * DECALN *)

Definition cellE : cell := mkCell 69 default_pen.

(** the inner loop on the cells of one row *)
Fixpoint fillE (n col : nat) (cs : list cell) : list cell :=
  match n with
  | O => cs
  | S k => fillE k (S col) (upd col (fun _ => cellE) cs)
  end.

Lemma fillE_eq n : forall col cs,
  col + n = length cs -> fillE n col cs = firstn col cs ++ repeat cellE n.
Proof.
  induction n as [|k IH]; intros col cs H; cbn [fillE repeat].
  - rewrite app_nil_r. symmetry. apply firstn_all2. lia.
  - rewrite IH by (rewrite upd_length; lia).
    assert (Hc : col < length cs) by lia.
    destruct (nth_error cs col) as [x|] eqn:E; [|apply nth_error_None in E; lia].
    assert (E' : nth_error (upd col (fun _ => cellE) cs) col = Some cellE)
      by (rewrite nth_error_upd_same, E; reflexivity).
    rewrite (firstn_succ_nth_error _ _ _ E'), firstn_upd_le by lia.
    rewrite <- app_assoc. reflexivity.
Qed.

Lemma upd_row_upd_row r (g h : line -> line) v :
  upd_row r g (upd_row r h v) = upd_row r (fun l => g (h l)) v.
Proof.
  unfold upd_row. destruct (nth_error v r) as [x|] eqn:E.
  - assert (E' : nth_error (upd r h v) r = Some (h x)) by (rewrite nth_error_upd_same, E; reflexivity).
    rewrite (upd_eq (upd r h v) r g (h x) E').
    rewrite firstn_upd_le by lia. rewrite skipn_upd_gt by lia.
    rewrite (upd_eq v r (fun l => g (h l)) x E). reflexivity.
  - apply nth_error_None in E. rewrite !upd_ge; try reflexivity; try rewrite upd_length; lia.
Qed.

Lemma upd_row_id r (g : line -> line) v : (forall l, g l = l) -> upd_row r g v = v.
Proof.
  intros Hg. unfold upd_row. destruct (nth_error v r) as [x|] eqn:E.
  - rewrite (upd_eq _ _ _ _ E), Hg. symmetry. apply firstn_skipn_nth_error; exact E.
  - apply nth_error_None in E. apply upd_ge; exact E.
Qed.

Lemma set_cells_self (l : line) : l <| cells := cells l |> = l.
Proof. destruct l; reflexivity. Qed.

Lemma decaln_cols_spec n : forall b row col,
  BGeom b -> row < brows b -> col + n <= bcols b ->
  decaln_cols b row n col
  = Ok (bset b (upd_row row (fun l => l <| cells := fillE n col (cells l) |>) (view b))).
Proof.
  induction n as [|k IH]; intros b row col HG Hr Hc; cbn [decaln_cols fillE].
  - rewrite upd_row_id by (intros l; apply set_cells_self). rewrite bset_self by exact HG. reflexivity.
  - destruct (buf_print_spec b col row cellE HG Hr ltac:(lia)) as [E HG1].
    change (mkCell 69 default_pen) with cellE. rewrite E. cbn [bind].
    assert (Hlen : length (upd_row row (set_cell col cellE) (view b)) = brows b)
      by (rewrite upd_row_length; apply view_length; exact HG).
    rewrite IH; [|exact HG1|rewrite bset_brows; exact Hr|rewrite bset_bcols; lia].
    rewrite (proj1 (bset_view b _ HG Hlen)), (bset_bset b _ _ HG Hlen), upd_row_upd_row.
    reflexivity.
Qed.

(** one row of the alignment pattern: the cells replaced, [wrapped] untouched *)
Definition rowE (nc : nat) (l : line) : line := l <| cells := repeat cellE nc |>.

Lemma rowE_LineInv nc l : LineInv nc (rowE nc l).
Proof. apply LineInv_set_cells. apply repeat_length. Qed.

Lemma decaln_row_spec b row :
  BGeom b -> row < brows b ->
  decaln_cols b row (bcols b) 0 = Ok (bset b (upd_row row (rowE (bcols b)) (view b))).
Proof.
  intros HG Hr. rewrite decaln_cols_spec by (try assumption; lia). f_equal. f_equal.
  apply (upd_row_ext_inv (bcols b)); [apply view_Forall; exact HG|].
  intros l Hl. unfold rowE. rewrite fillE_eq by (rewrite Hl; lia). reflexivity.
Qed.

(** the outer loop on the rows of the view *)
Fixpoint rowsE (nc n row : nat) (v : list line) : list line :=
  match n with
  | O => v
  | S k => rowsE nc k (S row) (upd_row row (rowE nc) v)
  end.

Lemma rowsE_length nc n : forall row v, length (rowsE nc n row v) = length v.
Proof.
  induction n as [|k IH]; intros row v; cbn [rowsE]; [reflexivity|].
  rewrite IH. apply upd_row_length.
Qed.

Lemma rowsE_eq nc n : forall row v,
  row + n = length v -> rowsE nc n row v = firstn row v ++ map (rowE nc) (skipn row v).
Proof.
  induction n as [|k IH]; intros row v H; cbn [rowsE].
  - rewrite skipn_all2 by lia. cbn [map]. rewrite app_nil_r. symmetry. apply firstn_all2. lia.
  - rewrite IH by (rewrite upd_row_length; lia).
    destruct (nth_error v row) as [x|] eqn:E; [|apply nth_error_None in E; lia].
    unfold upd_row.
    assert (E' : nth_error (upd row (rowE nc) v) row = Some (rowE nc x))
      by (rewrite nth_error_upd_same, E; reflexivity).
    rewrite (firstn_succ_nth_error _ _ _ E'), firstn_upd_le by lia.
    rewrite skipn_upd_gt by lia.
    rewrite (skipn_nth_error_cons _ _ _ E). cbn [map]. rewrite <- app_assoc. reflexivity.
Qed.

Lemma rowsE_Forall nc n : forall row v,
  Forall (LineInv nc) v -> Forall (LineInv nc) (rowsE nc n row v).
Proof.
  induction n as [|k IH]; intros row v H; cbn [rowsE]; [exact H|].
  apply IH. apply upd_row_Forall; [|exact H]. intros l _. apply rowE_LineInv.
Qed.

Lemma decaln_rows_spec n : forall t row,
  TGeom t -> row + n <= rows t ->
  exists d, length d = rows t
    /\ decaln_rows t n row = Ok ((set_view t (rowsE (cols t) n row (tview t))) <| dirty := d |>).
Proof.
  induction n as [|k IH]; intros t row HTG Hrow; cbn [decaln_rows rowsE].
  - exists (dirty t). destruct HTG as (HG & Hc & Hr & Hd). split; [exact Hd|].
    rewrite set_view_bset. unfold tview. rewrite bset_self by exact HG.
    destruct t; reflexivity.
  - pose proof HTG as (HG & Hc & Hr & Hd).
    assert (Hlen : length (upd_row row (rowE (cols t)) (tview t)) = brows (buf t))
      by (rewrite upd_row_length; apply view_length; exact HG).
    rewrite (on_buf_set_view t _ (upd_row row (rowE (cols t)) (tview t)))
      by (rewrite <- Hc; apply decaln_row_spec; [exact HG|lia]).
    cbn [bind]. rewrite mark_set_view by lia. cbn [bind].
    set (d1 := upd row (fun _ => true) (dirty t)).
    set (t1 := (set_view t (upd_row row (rowE (cols t)) (tview t))) <| dirty := d1 |>).
    assert (HTG1 : TGeom t1).
    { apply set_view_TGeom; [exact HTG|lia| |unfold d1; rewrite upd_length; exact Hd].
      apply upd_row_Forall; [intros l _; apply rowE_LineInv|].
      rewrite <- Hc. apply view_Forall; exact HG. }
    destruct (IH t1 (S row) HTG1) as (d & Hdl & E).
    { change (rows t1) with (rows t). lia. }
    exists d. split; [exact Hdl|]. rewrite E.
    change (cols t1) with (cols t).
    unfold t1 at 2. rewrite (tview_set_view t _ d1 HG Hlen).
    unfold t1. rewrite (set_view_set_view t _ _ d1 d HG Hlen). reflexivity.
Qed.

Lemma decaln_spec t :
  TGeom t ->
  exists d, decaln t = Ok ((set_view t (map (rowE (cols t)) (tview t))) <| dirty := d |>).
Proof.
  intros HTG. destruct (decaln_rows_spec (rows t) t 0 HTG ltac:(lia)) as (d & _ & E).
  exists d. unfold decaln. rewrite E. destruct HTG as (HG & Hc & Hr & Hd).
  rewrite rowsE_eq by (unfold tview; rewrite (view_length _ HG); lia).
  reflexivity.
Qed.

(** * the theorem *)

Ltac sv_scalars :=
  repeat match goal with
         | |- context [cur_row (set_view ?a ?v)] => change (cur_row (set_view a v)) with (cur_row a)
         | |- context [rows (set_view ?a ?v)] => change (rows (set_view a v)) with (rows a)
         end.

Section Edit.
  Variable t : term.
  Hypothesis HT : TInv t.

  Let HG : BGeom (buf t) := TInv_BGeom t HT.
  Let Hc : bcols (buf t) = cols t := ti_bcols t HT.
  Let Hr : brows (buf t) = rows t := ti_brows t HT.

  Lemma on_buf_erase m :
    on_buf t (fun b => buf_erase b (cur_col t) (cur_row t) m (tpen t))
    = Ok (set_view t (erase_view (buf t) (cur_col t) (cur_row t) m (tpen t))).
  Proof.
    apply on_buf_set_view. apply buf_erase_spec; [exact HG| |].
    - rewrite Hr. apply (ti_row t HT).
    - rewrite Hc. apply (ti_col t HT).
  Qed.

  Lemma on_buf_insert n x :
    on_buf t (fun b => buf_insert b (cur_col t) (cur_row t) n x)
    = Ok (set_view t (upd_row (cur_row t) (fun l : line =>
            l <| cells := firstn (cur_col t) (cells l)
                          ++ repeat x (Nat.min n (cols t - cur_col t))
                          ++ firstn (cols t - cur_col t - Nat.min n (cols t - cur_col t))
                                    (skipn (cur_col t) (cells l)) |>) (tview t))).
  Proof.
    apply on_buf_set_view. rewrite <- Hc. apply buf_insert_spec; [exact HG| |].
    - rewrite Hr. apply (ti_row t HT).
    - rewrite Hc. apply (ti_col t HT).
  Qed.

  Lemma on_buf_delete col n :
    col <= cols t ->
    buf_delete (buf t) col (cur_row t) n (tpen t)
    = Ok (bset (buf t) (upd_row (cur_row t) (fun l : line =>
            unwrap (l <| cells := firstn col (cells l)
                          ++ skipn (col + Nat.min n (cols t - col)) (cells l)
                          ++ blanks (Nat.min n (cols t - col)) (tpen t) |>)) (tview t))).
  Proof.
    intros Hcol. rewrite <- Hc. apply buf_delete_spec; [exact HG| |].
    - rewrite Hr. apply (ti_row t HT).
    - rewrite Hc. exact Hcol.
  Qed.

  Theorem C07_edit_sec f e :
    spec_edit t f = Some e -> exists t', execute t f = Ok t' /\ vis_norm e = vis_norm t'.
  Proof.
    pose proof (ti_row t HT) as Hrow. pose proof (ti_col t HT) as Hcol.
    pose proof (ti_dirty t HT) as Hd. pose proof (ti_cols t HT) as Hcols.
    destruct f; try discriminate.
    - (* Dch *)
      cbn [spec_edit execute]. intros H; injection H as <-. unfold dch.
      destruct (Nat.leb_spec (cols t) (cur_col t)) as [Hle|Hlt].
      + (* leaving the wrap-pending column *)
        assert (Em : move_cursor_to_col t (cols t - 1) = set_cursor t (cols t - 1) (cur_row t) false).
        { unfold move_cursor_to_col. destruct (cols t <=? cols t - 1); destruct t; reflexivity. }
        rewrite Em.
        replace (Nat.min (cur_col t) (cols t - 1)) with (cols t - 1) by lia.
        set (t0 := set_cursor t (cols t - 1) (cur_row t) false).
        unfold on_buf. change (buf t0) with (buf t). change (cur_col t0) with (cols t - 1).
        change (cur_row t0) with (cur_row t). change (tpen t0) with (tpen t).
        rewrite on_buf_delete by lia. cbn [bind].
        rewrite mark_ok by (cbn; lia). eexists; split; [reflexivity|]. reflexivity.
      + replace (Nat.min (cur_col t) (cols t - 1)) with (cur_col t) by lia.
        unfold on_buf. rewrite on_buf_delete by lia. cbn [bind].
        rewrite mark_ok by (cbn; lia). eexists; split; [reflexivity|]. reflexivity.
    - (* Decaln *)
      cbn [spec_edit execute]. intros H; injection H as <-.
      destruct (decaln_spec t (TInv_TGeom t HT)) as (d & E). rewrite E.
      eexists; split; [reflexivity|]. reflexivity.
    - (* Ech *)
      cbn [spec_edit execute]. intros H; injection H as <-. unfold ech.
      rewrite on_buf_erase. cbn [bind]. sv_scalars; rewrite mark_set_view by lia.
      eexists; split; [reflexivity|]. cbn [erase_view]. rewrite Hc. reflexivity.
    - (* Ed *)
      destruct s; cbn [spec_edit execute]; intros H; injection H as <-; unfold ed.
      + rewrite on_buf_erase. cbn [bind]. sv_scalars; rewrite mark_range_set_view by lia.
        eexists; split; [reflexivity|]. cbn [erase_view]. rewrite Hc, Hr. reflexivity.
      + rewrite on_buf_erase. cbn [bind]. sv_scalars; rewrite mark_range_set_view by lia.
        eexists; split; [reflexivity|]. cbn [erase_view]. rewrite Hc. reflexivity.
      + rewrite on_buf_erase. cbn [bind]. sv_scalars; rewrite mark_range_set_view by lia.
        eexists; split; [reflexivity|]. cbn [erase_view]. rewrite Hc, Hr. reflexivity.
      + eexists; split; reflexivity.
    - (* El *)
      destruct s; cbn [spec_edit execute]; intros H; injection H as <-; unfold el;
        rewrite on_buf_erase; cbn [bind]; sv_scalars; rewrite mark_set_view by lia;
        (eexists; split; [reflexivity|]); cbn [erase_view]; rewrite Hc; reflexivity.
    - (* Ich *)
      cbn [spec_edit execute]. intros H; injection H as <-. unfold ich.
      rewrite on_buf_insert. cbn [bind]. sv_scalars; rewrite mark_set_view by lia.
      eexists; split; [reflexivity|]. reflexivity.
  Qed.
End Edit.

Theorem C07_edit : forall t f e,
  TInv t -> spec_edit t f = Some e ->
  exists t', execute t f = Ok t' /\ vis_norm e = vis_norm t'.
Proof. intros t f e HT H. exact (C07_edit_sec t HT f e H). Qed.
Print Assumptions C07_edit.

Corollary C07_edit_holds : forall p p' t f t',
  TInv t -> execute t f = Ok t' -> holds_C07 (mkVt p t) f (mkVt p' t') = true.
Proof.
  intros p p' t f t' HT Hx. unfold holds_C07. cbn [vterm].
  destruct (spec_edit t f) as [e|] eqn:E; [|reflexivity].
  destruct (C07_edit t f e HT E) as (t'' & Hx' & Hn).
  rewrite Hx in Hx'. injection Hx' as <-. apply visible_eqb_norm; exact Hn.
Qed.
Print Assumptions C07_edit_holds.
