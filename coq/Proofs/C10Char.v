(** C10 / C16 / C17: "on that same character" (AUDIT2, section 2, new gaps 1 and 2).

    Part 1 (C10).  [resize_preserves] (Spec/Logical.v) concludes [o < m -> o' = o] and compares
    only the [o] cells BEFORE the cursor; it does not say that the cell UNDER the cursor
    survives.  Here: the cursor's logical line is never cut at or before the cursor (only rows
    BELOW the row holding the cursor are dropped), so the cell under the cursor is the same cell
    (character and pen) after the resize.

    The clause literally requested,

      [o < m -> o' = o /\ o < length new_k /\ nth o new_k d = nth o old_k d]   (for [cc <= bcols b])

    with [new_k], [old_k] the TRIMMED logical lines of [resize_preserves], is FALSE of the model
    in two ways (both computed below on reachable states):
    - ([C10_same_character_refuted_blank]) [o < length new_k] fails when the cell under the
      cursor is a default blank in the middle of its logical line and the rest of the line is
      cut: [abc___def] in 6 columns, cursor on the second blank, rows 2 -> 1.  The blank is still
      there on the grid, but the TRIMMED line is now [abc].  What is true: the cell is equal
      (with the default cell as the default of [nth]), it is a cell of the UNTRIMMED logical line
      ([o < length new_raw]), and [o < length new_k] whenever the cell is not a default blank.
    - ([C10_same_character_refuted_pending]) with the cursor in the wrap-pending column
      ([cc = bcols b]) [curs] places it on the first cell of the NEXT row; when the width is
      unchanged and the height shrinks, that row may be dropped: the cell at [o] is gone.  The
      cell under the VISIBLE cursor (column [bcols b - 1]) survives
      ([C10_visible_character]).  So the hypothesis of the positive theorem is
      [nc = bcols b -> nr < brows b -> cc < bcols b].

    Index.  Part 1: [C10_same_character_partial] (= [C10_same_character_prop] with the
    proposition [same_character]), [C10_visible_character], [C10_same_grid_cell] for
    [buf_resize]; [C10_same_character_step] (primary, unlimited) and
    [C10_same_character_step_any_limit] (every limit: "unlimited" is not needed) for one
    [Resize] step of the [Vt].  Part 2 (C16 x C17, section 5): [alt_run_asctx],
    [C16_excursion_1049_resized], [C16_excursion_1049_resized_vt], [C16_excursion_47_resized]. *)

From Avt Require Import Spec.Logical Spec.Eqb Proofs.Inv Proofs.ReflowCore Proofs.Resize
  Proofs.ReflowText Proofs.ResizeText Oracles.Rel.
Require Import Lia ZArith ZifyBool ZifyNat.
Import ListNotations.

(** * 1. Cells, [trimd] and [nth] *)

Lemma cell_is_default_eq c : cell_is_default c = true -> c = default_cell.
Proof.
  unfold cell_is_default, pen_is_default. intros H. apply andb_prop in H. destruct H as (H1 & H2).
  apply N.eqb_eq in H1. apply pen_eqb_eq in H2. destruct c as [h p]. cbn in H1, H2. subst.
  reflexivity.
Qed.

Lemma default_cell_is_default : cell_is_default default_cell = true.
Proof. reflexivity. Qed.

Lemma nth_all_default d j :
  forallb cell_is_default d = true -> nth j d default_cell = default_cell.
Proof.
  intros H. destruct (Nat.lt_ge_cases j (length d)) as [Hlt|Hge].
  - apply cell_is_default_eq. rewrite forallb_forall in H. apply H. apply nth_In. exact Hlt.
  - apply nth_overflow. exact Hge.
Qed.

(** trimming removes only default cells: reading with the default cell as default sees no
    difference, at any index *)
Lemma nth_trimd j l : nth j (trimd l) default_cell = nth j l default_cell.
Proof.
  destruct (trimd_split l) as (d & E & D & _). rewrite E at 2.
  destruct (Nat.lt_ge_cases j (length (trimd l))) as [Hlt|Hge].
  - rewrite app_nth1 by exact Hlt. reflexivity.
  - rewrite app_nth2 by exact Hge. rewrite nth_overflow by exact Hge.
    symmetry. apply nth_all_default. exact D.
Qed.

Lemma nth_nondefault_lt j l :
  cell_is_default (nth j l default_cell) = false -> j < length l.
Proof.
  intros H. destruct (Nat.lt_ge_cases j (length l)) as [Hlt|Hge]; [exact Hlt|].
  rewrite nth_overflow in H by exact Hge. discriminate H.
Qed.

Lemma nth_map_trimd k L : nth k (map trimd L) [] = trimd (nth k L []).
Proof. change (@nil cell) with (trimd []) at 1. apply map_nth. Qed.

Lemma nth_firstn_lt {A} (d : A) : forall n l j, j < n -> nth j (firstn n l) d = nth j l d.
Proof.
  induction n as [|n IH]; intros l j H; [lia|].
  destruct l as [|x l]; [reflexivity|]. destruct j as [|j]; [reflexivity|].
  cbn [firstn nth]. apply IH. lia.
Qed.

Lemma is_prefix_nth a : forall b j,
  is_prefix a b = true -> j < length a -> nth j a default_cell = nth j b default_cell.
Proof.
  induction a as [|x a IH]; intros b j H Hj; [cbn [length] in Hj; lia|].
  destruct b as [|y b]; [discriminate H|]. cbn [is_prefix] in H.
  apply andb_prop in H. destruct H as (H1 & H2). apply cell_eqb_eq in H1. subst y.
  destruct j as [|j]; [reflexivity|]. cbn [nth]. apply IH; [exact H2|cbn [length] in Hj; lia].
Qed.

Lemma is_prefix_length a : forall b, is_prefix a b = true -> length a <= length b.
Proof.
  induction a as [|x a IH]; intros b H; [cbn [length]; lia|].
  destruct b as [|y b]; [discriminate H|]. cbn [is_prefix] in H.
  apply andb_prop in H. destruct H as (_ & H2). specialize (IH b H2). cbn [length]. lia.
Qed.

(** [eq_upto_blank a b]: reading with the default cell as default sees no difference *)
Lemma eq_upto_blank_nth a b j :
  eq_upto_blank a b = true -> nth j a default_cell = nth j b default_cell.
Proof.
  unfold eq_upto_blank. intros H. apply andb_prop in H. destruct H as (H1 & H2).
  destruct (Nat.lt_ge_cases j (length a)) as [Hlt|Hge].
  - apply is_prefix_nth; assumption.
  - rewrite nth_overflow by exact Hge.
    rewrite <- (firstn_skipn (length a) b).
    pose proof (is_prefix_length a b H1) as Hl.
    rewrite app_nth2 by (rewrite firstn_length; lia).
    symmetry. apply nth_all_default. exact H2.
Qed.

(** * 2. The shape of the cursor's logical line after [buf_resize]

    Either the (trimmed) line is unchanged, or the untrimmed new line is [P], the old trimmed
    line is [trimd (P ++ more)], and the cursor's offset lies INSIDE [P]: the line is cut
    strictly after the cursor. *)
Lemma resize_char_struct b nc nr cc cr b' cc' cr' k off :
  BInv b -> 1 <= nc -> 1 <= nr -> cr < brows b ->
  (nc = bcols b -> nr < brows b -> cc < bcols b) ->
  curs_go (lines b) (sb_len b + cr) 0 0 (bcols b) = (k, off) ->
  buf_resize b nc nr cc cr = Ok (b', (cc', cr')) ->
  off + cc < length (nth k (logical_t (lines b)) []) ->
  nth k (logical_t (lines b')) [] = nth k (logical_t (lines b)) [] \/
  exists P more,
    nth k (logical (lines b')) [] = P /\
    nth k (logical_t (lines b)) [] = trimd (P ++ more) /\
    off + cc < length P.
Proof.
  intros HI Hnc Hnr Hcr Hcc E. rewrite buf_resize_eq.
  pose proof HI as ((_ & _ & Hlen & _) & _).
  rewrite (logical_position_curs b cc cr k off Hlen Hcr E). cbn [bind].
  destruct (resize_phase2 b nc cc cr (cc + off) k) as [[[[ls1 cc1] cr1] r1]|p] eqn:E2;
    cbn [bind]; [|discriminate].
  destruct (phase2_text b nc cc cr k off ls1 cc1 cr1 r1 HI Hnc Hcr E E2)
    as (n1 & off1 & Tl & Hk & Fl & Ll & Hr1 & Hcr1 & Hcc1 & C1 & Ho & _).
  destruct (resize_phase3 nc nr ls1 cr1 r1) as [[ls2 cr2]|p] eqn:E3; cbn [bind]; [|discriminate].
  destruct (phase3_text nc nr ls1 cr1 r1 ls2 cr2 Hnr Hr1 Hcr1 E3) as (Hge & HR & Hshape).
  intros [= <- <- <-] Hom. specialize (Ho Hom).
  set (R := length ls1 - r1 + cr1) in *.
  assert (Eb : lines (b <| lines := ls2 |> <| bcols := nc |> <| brows := nr |>
                        <| trim_needed := true |>) = ls2).
  { destruct b; reflexivity. }
  rewrite Eb. clear Eb.
  destruct Hshape as [(n & ->)|(A & x & B & E1 & -> & HA & Hnr1)].
  - (* rows added (or nothing) *)
    left. rewrite logical_t_pad by exact Ll. rewrite Tl, <- app_assoc.
    apply app_nth1. exact Hk.
  - (* rows below the cursor removed *)
    subst ls1.
    assert (FA : Forall (LineInv nc) A) by (apply Forall_app in Fl; apply Fl).
    assert (Hcc1' : cc1 < nc).
    { destruct Hcc1 as [Hlt|(e1 & e2 & e3)]; [exact Hlt|]. subst cc1 r1. rewrite e1.
      apply Hcc; assumption. }
    destruct (curs_go (A ++ x :: B) (length A) 0 0 nc) as [j offx] eqn:Cx.
    destruct (row_in_logical_split A x B nc j offx FA Ll Cx)
      as (D & pre & more & tl & EL & EL' & HD & Hpre & Hm).
    destruct (curs_go_mono (A ++ x :: B) nc R (length A - R) k off1 j offx) as (M1 & _).
    { rewrite app_length. cbn [length]. lia. }
    { exact C1. }
    { replace (R + (length A - R)) with (length A) by lia. exact Cx. }
    assert (Told : nth k (logical_t (lines b)) []
                   = nth k (map trimd (D ++ (pre ++ cells x ++ more) :: tl)) []).
    { rewrite <- EL. change (map trimd (logical (A ++ x :: B))) with (logical_t (A ++ x :: B)).
      rewrite Tl. symmetry. apply app_nth1. exact Hk. }
    destruct M1 as [Hlt|(<- & Hoff)].
    + (* the cut is in a later logical line *)
      left. unfold logical_t at 1. rewrite EL', Told, !map_app.
      rewrite !app_nth1 by (rewrite map_length; lia). reflexivity.
    + (* the cursor's own line is cut, after the row [x] *)
      right. exists (pre ++ cells x), more.
      split; [|split].
      * rewrite EL'. rewrite app_nth2 by lia. rewrite HD, Nat.sub_diag. reflexivity.
      * rewrite Told, nth_map_trimd_mid by exact HD. rewrite <- app_assoc. reflexivity.
      * rewrite app_length, Hpre.
        assert (length (cells x) = nc).
        { rewrite Forall_forall in Fl. apply Fl. apply in_or_app. right. left. reflexivity. }
        lia.
Qed.

(** * 3. C10, "on that same character", for [buf_resize] *)

(** The clause, as a proposition.  [d] = [default_cell]. *)
Definition same_character (b : buffer) (c r : nat) (b' : buffer) (c' r' : nat) : Prop :=
  let '(k, o) := curs b c r in
  let '(k', o') := curs b' c' r' in
  let old_k := nth k (logical_t (lines b)) [] in
  let new_k := nth k' (logical_t (lines b')) [] in
  let new_raw := nth k' (logical (lines b')) [] in
  o < length old_k ->
  k' = k /\ o' = o /\
  nth o new_k default_cell = nth o old_k default_cell /\
  o < length new_raw /\ nth o new_raw default_cell = nth o old_k default_cell /\
  (cell_is_default (nth o old_k default_cell) = false -> o < length new_k).

(** ... and as an executable test (used for the examples) *)
Definition same_character_b (b : buffer) (c r : nat) (b' : buffer) (c' r' : nat) : bool :=
  let '(k, o) := curs b c r in
  let '(k', o') := curs b' c' r' in
  let old_k := nth k (logical_t (lines b)) [] in
  let new_k := nth k' (logical_t (lines b')) [] in
  let new_raw := nth k' (logical (lines b')) [] in
  if o <? length old_k then
    (k' =? k) && (o' =? o)
    && cell_eqb (nth o new_k default_cell) (nth o old_k default_cell)
    && (o <? length new_raw)
    && cell_eqb (nth o new_raw default_cell) (nth o old_k default_cell)
    && (cell_is_default (nth o old_k default_cell) || (o <? length new_k))
  else true.

(** the clause literally requested (with [o < length new_k] unconditionally) *)
Definition same_character_full_b (b : buffer) (c r : nat) (b' : buffer) (c' r' : nat) : bool :=
  let '(k, o) := curs b c r in
  let '(k', o') := curs b' c' r' in
  let old_k := nth k (logical_t (lines b)) [] in
  let new_k := nth k' (logical_t (lines b')) [] in
  if o <? length old_k then
    (o' =? o) && (o <? length new_k)
    && cell_eqb (nth o new_k default_cell) (nth o old_k default_cell)
  else true.

Lemma cell_eqb_refl x : cell_eqb x x = true.
Proof.
  assert (H : cells_eqb [x] [x] = true) by apply cells_eqb_refl.
  unfold cells_eqb in H. cbn [list_eqb] in H. apply andb_prop in H. apply H.
Qed.

Lemma same_character_b_true b c r b' c' r' :
  same_character b c r b' c' r' -> same_character_b b c r b' c' r' = true.
Proof.
  unfold same_character, same_character_b.
  destruct (curs b c r) as [k o]. destruct (curs b' c' r') as [k' o']. cbv zeta.
  intros H. destruct (o <? _) eqn:Lt; [|reflexivity]. apply Nat.ltb_lt in Lt.
  destruct (H Lt) as (-> & -> & H3 & H4 & H5 & H6).
  rewrite !Nat.eqb_refl, H3, H5, !cell_eqb_refl. cbn [andb].
  replace (o <? length (nth k (logical (lines b')) [])) with true by (symmetry; lia).
  cbn [andb].
  destruct (cell_is_default _) eqn:Dc; [reflexivity|]. specialize (H6 eq_refl).
  cbn [orb]. apply Nat.ltb_lt. exact H6.
Qed.

Lemma same_character_b_spec b c r b' c' r' :
  same_character_b b c r b' c' r' = true -> same_character b c r b' c' r'.
Proof.
  unfold same_character, same_character_b.
  destruct (curs b c r) as [k o]. destruct (curs b' c' r') as [k' o']. cbv zeta.
  intros H Lt. replace (o <? _) with true in H by (symmetry; apply Nat.ltb_lt; exact Lt).
  repeat (apply andb_prop in H; let H' := fresh "H" in destruct H as (H & H')).
  apply Nat.eqb_eq in H. apply Nat.eqb_eq in H4. apply cell_eqb_eq in H3, H1.
  apply Nat.ltb_lt in H2. subst k' o'.
  repeat split; try assumption.
  intros Dc. rewrite Dc in H0. cbn [orb] in H0. apply Nat.ltb_lt. exact H0.
Qed.

(** FULL STATEMENT AS REQUESTED (false, see the two [..._refuted] examples below):

    forall b nc nr cc cr b' cc' cr', BInv b -> 1 <= nc -> 1 <= nr -> cr < brows b ->
      cc <= bcols b -> buf_resize b nc nr cc cr = Ok (b', (cc', cr')) ->
      let '(k, o) := curs b cc cr in let '(k', o') := curs b' cc' cr' in
      let old_k := nth k (logical_t (lines b)) [] in
      let new_k := nth k' (logical_t (lines b')) [] in
      o < length old_k ->
      o' = o /\ o < length new_k /\ nth o new_k default_cell = nth o old_k default_cell.

    The strongest true variant: the hypothesis [cc <= bcols b] becomes "not wrap-pending when
    only the height shrinks"; [o < length new_k] holds for the UNTRIMMED line always, and for
    the trimmed line whenever the cell under the cursor is not a default blank. *)
Theorem C10_same_character_partial : forall b nc nr cc cr b' cc' cr',
  BInv b -> 1 <= nc -> 1 <= nr -> cr < brows b ->
  (nc = bcols b -> nr < brows b -> cc < bcols b) ->
  buf_resize b nc nr cc cr = Ok (b', (cc', cr')) ->
  let '(k, o) := curs b cc cr in
  let '(k', o') := curs b' cc' cr' in
  let old_k := nth k (logical_t (lines b)) [] in
  let new_k := nth k' (logical_t (lines b')) [] in
  let new_raw := nth k' (logical (lines b')) [] in
  o < length old_k ->
  k' = k /\ o' = o /\
  nth o new_k default_cell = nth o old_k default_cell /\
  o < length new_raw /\ nth o new_raw default_cell = nth o old_k default_cell /\
  (cell_is_default (nth o old_k default_cell) = false -> o < length new_k).
Proof.
  intros b nc nr cc cr b' cc' cr' HI Hnc Hnr Hcr Hcc E. unfold curs.
  destruct (curs_go (lines b) (sb_len b + cr) 0 0 (bcols b)) as [k off] eqn:C.
  destruct (resize_struct _ _ _ _ _ _ _ _ k off HI Hnc Hnr Hcr C E)
    as (off1 & C' & _ & Ho & _).
  rewrite C'. cbv zeta. intros Hom.
  pose proof (resize_char_struct _ _ _ _ _ _ _ _ k off HI Hnc Hnr Hcr Hcc C E Hom) as S.
  split; [reflexivity|]. split; [apply Ho; exact Hom|].
  set (o := off + cc) in *.
  set (old_k := nth k (logical_t (lines b)) []) in *.
  assert (Hraw : nth k (logical_t (lines b')) [] = trimd (nth k (logical (lines b')) [])).
  { apply nth_map_trimd. }
  assert (Core : nth o (nth k (logical_t (lines b')) []) default_cell = nth o old_k default_cell
                 /\ o < length (nth k (logical (lines b')) [])).
  { destruct S as [Eq|(P & more & EP & Eold & HP)].
    - split; [rewrite Eq; reflexivity|].
      pose proof (trimd_length_le (nth k (logical (lines b')) [])) as Le.
      rewrite <- Hraw, Eq in Le. lia.
    - split; [|rewrite EP; exact HP].
      rewrite Hraw, EP, Eold, !nth_trimd. symmetry. apply app_nth1. exact HP. }
  destruct Core as (Ceq & Clt).
  split; [exact Ceq|]. split; [exact Clt|]. split.
  - rewrite <- Ceq, Hraw. symmetry. apply nth_trimd.
  - intros Dc. rewrite <- Ceq in Dc. apply nth_nondefault_lt in Dc. exact Dc.
Qed.

Print Assumptions C10_same_character_partial.

(** the same as the proposition [same_character] *)
Corollary C10_same_character_prop : forall b nc nr cc cr b' cc' cr',
  BInv b -> 1 <= nc -> 1 <= nr -> cr < brows b ->
  (nc = bcols b -> nr < brows b -> cc < bcols b) ->
  buf_resize b nc nr cc cr = Ok (b', (cc', cr')) ->
  same_character b cc cr b' cc' cr'.
Proof.
  intros b nc nr cc cr b' cc' cr' HI Hnc Hnr Hcr Hcc E.
  pose proof (C10_same_character_partial _ _ _ _ _ _ _ _ HI Hnc Hnr Hcr Hcc E) as H.
  unfold same_character. destruct (curs b cc cr) as [k o].
  destruct (curs b' cc' cr') as [k' o']. exact H.
Qed.

(** ** The two refutations of the clause as literally requested (reachable states) *)

Local Open Scope N_scope.
(** 6 x 2, [abc___def] (one logical line over two rows), CUP 1;5: cursor on the second blank *)
Definition st_blank : res (vt * out) :=
  feed_str (vt_new 6 2 None) [97;98;99;32;32;32;100;101;102; 27;91;49;59;53;72].
(** 6 x 2, [abcdefghijkl], CUP 1;6, [F]: cursor wrap-pending ([cur_col = 6]) on the soft-wrapped
    row 0; [curs] = offset 6 = the [g] of row 1 *)
Definition st_pending : res (vt * out) :=
  feed_str (vt_new 6 2 None) [97;98;99;100;101;102;103;104;105;106;107;108; 27;91;49;59;54;72; 70].
Local Close Scope N_scope.

Definition on_resize (s : res (vt * out)) (nc nr : nat)
  (k : buffer -> nat -> nat -> buffer -> nat -> nat -> Prop) : Prop :=
  match s with
  | Ok (v, _) =>
    let t := vterm v in
    match buf_resize (buf t) nc nr (cur_col t) (cur_row t) with
    | Ok (b', (cc', cr')) =>
      active t = Primary /\ cur_col t <= bcols (buf t) /\ cur_row t < brows (buf t) /\
      k (buf t) (cur_col t) (cur_row t) b' cc' cr'
    | Panic _ => False
    end
  | Panic _ => False
  end.

(** rows 2 -> 1: the trimmed line becomes [abc]; offset 4 is beyond it, yet every conjunct of
    the true variant holds (the blank cell is still a cell of the row) *)
Example C10_same_character_refuted_blank :
  on_resize st_blank 6 1 (fun b c r b' c' r' =>
    curs b c r = (0, 4) /\ curs b' c' r' = (0, 4) /\
    length (nth 0 (logical_t (lines b)) []) = 9 /\ length (nth 0 (logical_t (lines b')) []) = 3 /\
    resize_preserves b c r b' c' r' = true /\
    same_character_full_b b c r b' c' r' = false /\
    same_character_b b c r b' c' r' = true).
Proof. vm_compute. repeat split; try reflexivity; lia. Qed.

(** rows 2 -> 1 with the cursor wrap-pending: [curs] says "on g" (offset 6 of 12); row 1 is
    dropped, the line is now [abcdeF], the cell at offset 6 is gone: even the cell equality
    fails, while [resize_preserves] holds *)
Example C10_same_character_refuted_pending :
  on_resize st_pending 6 1 (fun b c r b' c' r' =>
    c = bcols b /\ curs b c r = (0, 6) /\ curs b' c' r' = (0, 6) /\
    length (nth 0 (logical_t (lines b)) []) = 12 /\ length (nth 0 (logical_t (lines b')) []) = 6 /\
    resize_preserves b c r b' c' r' = true /\
    same_character_full_b b c r b' c' r' = false /\
    same_character_b b c r b' c' r' = false /\
    cell_eqb (nth 6 (nth 0 (logical_t (lines b')) []) default_cell)
             (nth 6 (nth 0 (logical_t (lines b)) []) default_cell) = false).
Proof. vm_compute. repeat split; try reflexivity; lia. Qed.

(** non-vacuity of the positive theorem: 6 x 3, [abcdefghijklmno] (three rows, one logical
    line), cursor on [i] (row 1, column 2); to 4 x 2: the line is cut after [l], the cursor is
    still on [i] *)
Local Open Scope N_scope.
Definition st_char : res (vt * out) :=
  feed_str (vt_new 6 3 None)
    [97;98;99;100;101;102;103;104;105;106;107;108;109;110;111; 27;91;50;59;51;72].
Local Close Scope N_scope.

Example C10_same_character_example :
  on_resize st_char 4 2 (fun b c r b' c' r' =>
    (4 = bcols b -> 2 < brows b -> c < bcols b) /\
    curs b c r = (0, 8) /\ curs b' c' r' = (0, 8) /\
    map ch (nth 0 (logical_t (lines b)) []) = [97;98;99;100;101;102;103;104;105;106;107;108;109;110;111]%N /\
    map ch (nth 0 (logical_t (lines b')) []) = [97;98;99;100;101;102;103;104;105;106;107;108]%N /\
    ch (nth 8 (nth 0 (logical_t (lines b')) []) default_cell) = 105%N /\
    same_character_b b c r b' c' r' = true /\ same_character_full_b b c r b' c' r' = true).
Proof. vm_compute. repeat split; try reflexivity; try lia. Qed.

(** ** The wrap-pending column: the cell under the VISIBLE cursor survives.

    For every cursor column [cc <= bcols b] (wrap-pending included) the cell at the visible
    column [min cc (bcols b - 1)] of the cursor's row is the same after the resize.  (When
    [cc < bcols b] this is [C10_same_character_partial]; in the wrap-pending column the visible
    cell lies strictly before the offset [curs] computes and is covered by the
    "everything before the cursor intact" conjunct of [resize_preserves].) *)
Theorem C10_visible_character : forall b nc nr cc cr b' cc' cr',
  BInv b -> 1 <= nc -> 1 <= nr -> cr < brows b -> cc <= bcols b ->
  buf_resize b nc nr cc cr = Ok (b', (cc', cr')) ->
  let '(k, o) := curs b (Nat.min cc (bcols b - 1)) cr in
  let old_k := nth k (logical_t (lines b)) [] in
  let new_k := nth k (logical_t (lines b')) [] in
  o < length old_k ->
  nth o new_k default_cell = nth o old_k default_cell /\
  (cell_is_default (nth o old_k default_cell) = false -> o < length new_k).
Proof.
  intros b nc nr cc cr b' cc' cr' HI Hnc Hnr Hcr Hcc E.
  pose proof HI as ((Hbc & _) & _).
  assert (Fin : forall (old_k new_k : list cell) (o : nat),
            nth o new_k default_cell = nth o old_k default_cell ->
            nth o new_k default_cell = nth o old_k default_cell /\
            (cell_is_default (nth o old_k default_cell) = false -> o < length new_k)).
  { intros old_k new_k o Ceq. split; [exact Ceq|]. intros Dc. rewrite <- Ceq in Dc.
    apply nth_nondefault_lt in Dc. exact Dc. }
  destruct (Nat.eq_dec cc (bcols b)) as [Epend|Hlt].
  - (* wrap-pending *)
    unfold curs.
    destruct (curs_go (lines b) (sb_len b + cr) 0 0 (bcols b)) as [k off] eqn:C.
    destruct (resize_struct _ _ _ _ _ _ _ _ k off HI Hnc Hnr Hcr C E)
      as (off1 & _ & _ & _ & T).
    destruct (T ltac:(intros; lia)) as (_ & T2 & _ & _). cbv zeta. intros Hom.
    apply Fin.
    set (o := off + Nat.min cc (bcols b - 1)) in *.
    set (old_k := nth k (logical_t (lines b)) []) in *.
    set (new_k := nth k (logical_t (lines b')) []) in *.
    set (n := Nat.min (off + cc) (length old_k)) in *.
    assert (Hn : o < n) by (unfold o, n; lia).
    rewrite <- (nth_firstn_lt default_cell n new_k o Hn).
    rewrite <- (nth_firstn_lt default_cell n old_k o Hn).
    apply eq_upto_blank_nth. exact T2.
  - replace (Nat.min cc (bcols b - 1)) with cc by lia.
    pose proof (C10_same_character_partial b nc nr cc cr b' cc' cr' HI Hnc Hnr Hcr ltac:(intros; lia) E) as H.
    destruct (curs b cc cr) as [k o]. destruct (curs b' cc' cr') as [k' o']. cbv zeta in *.
    intros Hom. destruct (H Hom) as (-> & _ & Ceq & _). apply Fin. exact Ceq.
Qed.

Print Assumptions C10_visible_character.

(** the pending example again: the visible cursor is on [F] (offset 5), and [F] survives *)
Example C10_visible_character_example :
  on_resize st_pending 6 1 (fun b c r b' c' r' =>
    curs b (Nat.min c (bcols b - 1)) r = (0, 5) /\
    ch (nth 5 (nth 0 (logical_t (lines b)) []) default_cell) = 70%N /\
    ch (nth 5 (nth 0 (logical_t (lines b')) []) default_cell) = 70%N).
Proof. vm_compute. repeat split; try reflexivity; lia. Qed.

(** ** The same statement on the grid: the cell under the cursor, read in the view *)

Definition grid_cell (b : buffer) (c r : nat) : cell :=
  nth c (cells (row_at (view b) r)) default_cell.

Lemma nth_skipn' {A} (d : A) : forall n l j, nth j (skipn n l) d = nth (n + j) l d.
Proof.
  induction n as [|n IH]; intros l j; [reflexivity|].
  destruct l as [|x l]; [destruct j; reflexivity|]. cbn [skipn Nat.add nth]. apply IH.
Qed.

Lemma grid_cell_logical b c r :
  BInv b -> r < brows b -> c < bcols b ->
  let '(k, o) := curs b c r in
  nth o (nth k (logical (lines b)) []) default_cell = grid_cell b c r.
Proof.
  intros ((Hbc & Hbr & Hlen & Hall) & Hlnw) Hr Hc. unfold curs.
  destruct (curs_go (lines b) (sb_len b + r) 0 0 (bcols b)) as [k off] eqn:C.
  destruct (nth_error (lines b) (sb_len b + r)) as [x|] eqn:N.
  2: { apply nth_error_None in N. unfold sb_len in N. lia. }
  destruct (row_in_logical _ _ _ _ _ _ Hall Hlnw N C) as (D & pre & more & tl & EL & HD & Hpre & _).
  assert (Hx : length (cells x) = bcols b).
  { rewrite Forall_forall in Hall. apply Hall. eapply nth_error_In. exact N. }
  rewrite EL, app_nth2 by lia. rewrite HD, Nat.sub_diag. cbn [nth].
  rewrite app_nth2 by lia. replace (off + c - length pre) with c by lia.
  rewrite app_nth1 by lia.
  unfold grid_cell, row_at, view. rewrite nth_skipn'.
  rewrite (nth_error_nth _ _ _ N). reflexivity.
Qed.

(** When the cursor is on a cell of its row ([cc < bcols b]) that belongs to the text, the cell
    under the cursor - in the view, as [Vt::view] / [Vt::cursor] show it - is the same cell
    after the resize, and the cursor is on the grid. *)
Theorem C10_same_grid_cell : forall b nc nr cc cr b' cc' cr',
  BInv b -> 1 <= nc -> 1 <= nr -> cr < brows b -> cc < bcols b ->
  buf_resize b nc nr cc cr = Ok (b', (cc', cr')) ->
  let '(k, o) := curs b cc cr in
  o < length (nth k (logical_t (lines b)) []) ->
  cc' < nc /\ cr' < nr /\ grid_cell b' cc' cr' = grid_cell b cc cr.
Proof.
  intros b nc nr cc cr b' cc' cr' HI Hnc Hnr Hcr Hcc E.
  destruct (buf_resize_ok' b nc nr cc cr HI Hnc Hnr ltac:(intros; lia))
    as (b2 & cc2 & cr2 & E' & HI' & Hbc' & Hbr' & _ & _ & Hcr' & Hne & Heq).
  rewrite E in E'. injection E' as <- <- <-.
  assert (Hcc' : cc' < nc).
  { destruct (Nat.eq_dec nc (bcols b)) as [e|n]; [rewrite (Heq e); lia|exact (Hne n)]. }
  pose proof (C10_same_character_partial b nc nr cc cr b' cc' cr' HI Hnc Hnr Hcr ltac:(intros; lia) E) as H.
  pose proof (grid_cell_logical b cc cr HI Hcr Hcc) as G.
  pose proof (grid_cell_logical b' cc' cr' HI' ltac:(lia) ltac:(lia)) as G'.
  destruct (curs b cc cr) as [k o]. destruct (curs b' cc' cr') as [k' o']. cbv zeta in H.
  intros Hom. destruct (H Hom) as (-> & -> & _ & _ & Craw & _).
  split; [exact Hcc'|]. split; [exact Hcr'|].
  rewrite <- G, <- G', Craw. unfold logical_t. rewrite nth_map_trimd. apply nth_trimd.
Qed.

Print Assumptions C10_same_grid_cell.

Example C10_same_grid_cell_example :
  on_resize st_char 4 2 (fun b c r b' c' r' =>
    (c, r) = (2, 1) /\ (c', r') = (0, 1) /\
    ch (grid_cell b c r) = 105%N /\ ch (grid_cell b' c' r') = 105%N).
Proof. vm_compute. repeat split; try reflexivity; lia. Qed.

(** * 4. At the level of [Vt]: one [Resize] step *)

From Avt Require Import Proofs.BufScroll Proofs.InvStep.

Lemma buf_gc_lines b b' d :
  buf_gc b = Ok (b', d) ->
  lines b = d ++ lines b' /\ bcols b' = bcols b /\ brows b' = brows b.
Proof.
  unfold buf_gc. destruct (trim_needed b).
  - change (blimit (b <| trim_needed := false |>)) with (blimit b).
    destruct (blimit b) as [[soft hard]|].
    + destruct (view_ok _); cbn [guard bind]; [|discriminate].
      destruct (hard <? _)%N.
      * destruct (soft <=? _)%N; cbn [guard bind]; [|discriminate].
        intros [= <- <-]. destruct b; cbn. rewrite firstn_skipn. repeat split; reflexivity.
      * intros [= <- <-]. destruct b; repeat split; reflexivity.
    + intros [= <- <-]. destruct b; repeat split; reflexivity.
  - intros [= <- <-]. repeat split; reflexivity.
Qed.

(** What one [Resize] call does to the buffer and the cursor: [buf_resize] on the shown buffer
    with the terminal's cursor, then the end-of-call trim, which only removes rows [dr] from the
    TOP of the scrollback ([dr] is what the call hands out as drained lines on the primary
    screen). *)
Lemma resize_step_shape v c r v' o :
  stepM v (Resize c r) = Ok (v', o) ->
  exists b1 dr,
    buf_resize (buf (vterm v)) c r (cur_col (vterm v)) (cur_row (vterm v))
      = Ok (b1, (cur_col (vterm v'), cur_row (vterm v'))) /\
    lines b1 = dr ++ lines (buf (vterm v')) /\
    bcols (buf (vterm v')) = bcols b1 /\ brows (buf (vterm v')) = brows b1 /\
    active (vterm v') = active (vterm v) /\
    (active (vterm v) = Primary -> o_drained o = dr) /\
    (blimit b1 = None -> dr = []).
Proof.
  cbn [stepM].
  destruct (term_resize (vterm v) c r) as [t1|s] eqn:E; cbn [bind]; [|discriminate].
  unfold vt_flush, changes.
  replace (vterm (v <| vterm := t1 |>)) with t1 by (destruct v; reflexivity).
  unfold term_gc.
  replace (buf (t1 <| dirty := dirty_clear (dirty t1) |>)) with (buf t1) by (destruct t1; reflexivity).
  destruct (buf_gc (buf t1)) as [[b2 dr]|s] eqn:G; cbn [bind]; [|discriminate].
  destruct (term_resize_buf _ _ _ _ E) as (b & cc & cr & E1 & B1 & B2 & B3 & B4).
  destruct (buf_gc_lines _ _ _ G) as (L1 & L2 & L3).
  assert (Hnone : blimit b = None -> dr = []).
  { intros Hb. rewrite <- B1 in Hb. destruct (buf_gc_noop _ _ _ (or_intror Hb) G) as (-> & _).
    reflexivity. }
  replace (active (t1 <| dirty := dirty_clear (dirty t1) |> <| buf := b2 |>)) with (active t1)
    by (destruct t1; reflexivity).
  rewrite B1 in L1, L2, L3.
  destruct (active t1) eqn:Ea; cbn [bind]; intros [= <- <-]; exists b, dr;
    (replace (vterm (v <| vterm := t1 |> <| vterm := t1 <| dirty := dirty_clear (dirty t1) |> <| buf := b2 |> |>))
       with (t1 <| dirty := dirty_clear (dirty t1) |> <| buf := b2 |>) by (destruct v; reflexivity));
    (replace (buf (t1 <| dirty := dirty_clear (dirty t1) |> <| buf := b2 |>)) with b2
       by (destruct t1; reflexivity));
    (replace (cur_col (t1 <| dirty := dirty_clear (dirty t1) |> <| buf := b2 |>)) with (cur_col t1)
       by (destruct t1; reflexivity));
    (replace (cur_row (t1 <| dirty := dirty_clear (dirty t1) |> <| buf := b2 |>)) with (cur_row t1)
       by (destruct t1; reflexivity));
    (replace (active (t1 <| dirty := dirty_clear (dirty t1) |> <| buf := b2 |>)) with (active t1)
       by (destruct t1; reflexivity));
    rewrite B2, B3, Ea; (split; [exact E1|]); (split; [exact L1|]); (split; [exact L2|]);
    (split; [exact L3|]); (split; [exact B4|]); (split; [|exact Hnone]).
  - intros _. reflexivity.
  - intros Hp. rewrite Hp in B4. discriminate B4.
Qed.

Lemma same_character_ext b c r b1 b2 c' r' :
  lines b1 = lines b2 -> bcols b1 = bcols b2 -> brows b1 = brows b2 ->
  same_character b c r b1 c' r' -> same_character b c r b2 c' r'.
Proof.
  intros E1 E2 E3. unfold same_character, curs, sb_len. rewrite E1, E2, E3. exact (fun H => H).
Qed.

(** ** C10 "same character" for one [Resize] step: primary screen, unlimited scrollback (the
    scope of [holds_C10]).  The side condition excludes exactly the refuted case: cursor
    wrap-pending while the width is unchanged and the height shrinks. *)
Theorem C10_same_character_step : forall v c r v' o,
  Inv v -> 1 <= c -> 1 <= r ->
  stepM v (Resize c r) = Ok (v', o) ->
  active (vterm v) = Primary -> sb_limit (vterm v) = None ->
  (c = cols (vterm v) -> r < rows (vterm v) -> cur_col (vterm v) < cols (vterm v)) ->
  same_character (buf (vterm v)) (cur_col (vterm v)) (cur_row (vterm v))
                 (buf (vterm v')) (cur_col (vterm v')) (cur_row (vterm v')).
Proof.
  intros v c r v' o (_ & HT) Hc Hr E Ea Es Hside.
  destruct (resize_step_shape v c r v' o E) as (b1 & dr & E1 & L1 & L2 & L3 & _ & _ & Hnone).
  pose proof (ti_limit _ HT) as Hlim. rewrite Ea, Es in Hlim. destruct Hlim as (Hlim & _).
  cbn [limit_of] in Hlim.
  rewrite (Hnone ltac:(rewrite (buf_resize_blimit _ _ _ _ _ _ _ E1); exact Hlim)) in L1.
  cbn [app] in L1.
  apply (same_character_ext _ _ _ b1); [exact L1|symmetry; exact L2|symmetry; exact L3|].
  apply (C10_same_character_prop _ c r _ _ _ _ _ (ti_buf _ HT) Hc Hr); [| |exact E1].
  - rewrite (ti_brows _ HT). apply (ti_row _ HT).
  - rewrite (ti_bcols _ HT), (ti_brows _ HT). exact Hside.
Qed.

Print Assumptions C10_same_character_step.

(** ** Every scrollback limit.

    "Unlimited" is NOT needed for this clause: the end-of-call trim ([vt_flush] -> [term_gc] ->
    [buf_gc]) runs after the reflow, does not touch the cursor, and only removes the rows
    [o_drained o] from the TOP of the scrollback.  So (a) with these rows put back on top the
    clause holds verbatim for every limit, and (b) it holds for the state as it is after the
    call whenever the cursor's logical line is not among the trimmed ones - the logical line
    index then drops by the number [jd] of logical lines that were drained. *)

Lemma curs_go_app_len A B c : forall R k off,
  curs_go (A ++ B) (length A + R) k off c =
  let '(j, oj) := curs_go A (length A) k off c in curs_go B R j oj c.
Proof.
  induction A as [|a A IH]; intros R k off.
  - cbn [app length Nat.add]. rewrite curs_go_0. reflexivity.
  - cbn [app length Nat.add curs_go]. destruct (wrapped a); apply IH.
Qed.

Lemma curs_go_k_ge B c : forall R k off, k <= fst (curs_go B R k off c).
Proof.
  induction B as [|l B IH]; intros R k off.
  - destruct R; cbn [curs_go fst]; lia.
  - destruct R as [|R]; [cbn [curs_go fst]; lia|]. cbn [curs_go].
    destruct (wrapped l); [apply IH|]. specialize (IH R (S k) 0). lia.
Qed.

Lemma curs_go_shift_gen B c : forall R j oj a e,
  curs_go B R (j + a) (oj + e) c =
  let '(k2, o2) := curs_go B R j oj c in (k2 + a, if k2 =? j then o2 + e else o2).
Proof.
  induction B as [|l B IH]; intros R j oj a e.
  - destruct R; cbn [curs_go]; rewrite Nat.eqb_refl; reflexivity.
  - destruct R as [|R]; [cbn [curs_go]; rewrite Nat.eqb_refl; reflexivity|].
    cbn [curs_go]. destruct (wrapped l).
    + replace (oj + e + c) with (oj + c + e) by lia. apply IH.
    + pose proof (curs_go_k_ge B c R (S j) 0) as Hge.
      change (S (j + a)) with (S j + a). rewrite <- (Nat.add_0_r 0) at 1.
      rewrite (IH R (S j) 0 a 0).
      destruct (curs_go B R (S j) 0 c) as [k2 o2]. cbn [fst] in Hge.
      replace (k2 =? j) with false by (symmetry; lia).
      destruct (k2 =? S j); f_equal; lia.
Qed.

Lemma curs_go_shift B c R a e :
  curs_go B R a e c =
  let '(k2, o2) := curs_go B R 0 0 c in (k2 + a, if k2 =? 0 then o2 + e else o2).
Proof. exact (curs_go_shift_gen B c R 0 0 a e). Qed.

(** the first logical line of [ls] absorbs the pending cells; the others do not depend on them *)
Lemma logical_go_cur ls :
  ls <> [] -> last_not_wrapped ls -> exists h tl, forall cur, logical_go ls cur = (cur ++ h) :: tl.
Proof.
  induction ls as [|l r IH]; intros Hne L; [contradiction|].
  apply lnw_tail in L. destruct L as (L1 & L2).
  destruct (wrapped l) eqn:W.
  - assert (Hr : r <> []) by (intros ->; specialize (L2 eq_refl); congruence).
    destruct (IH Hr L1) as (h & tl & H). exists (cells l ++ h), tl. intros cur.
    rewrite logical_go_cons, W, H, <- app_assoc. reflexivity.
  - exists (cells l), (logical_go r []). intros cur. rewrite logical_go_cons, W. reflexivity.
Qed.

(** dropping the rows [dr] from the top: position and content of a logical line that begins
    after them *)
Lemma drop_top dr ls' nc nr r' k1 o1 jd od :
  Forall (LineInv nc) dr -> last_not_wrapped ls' -> 1 <= nr -> nr <= length ls' ->
  curs_go dr (length dr) 0 0 nc = (jd, od) ->
  curs_go (dr ++ ls') (length (dr ++ ls') - nr + r') 0 0 nc = (k1, o1) ->
  (jd < k1 \/ (jd = k1 /\ od = 0)) ->
  curs_go ls' (length ls' - nr + r') 0 0 nc = (k1 - jd, o1) /\
  nth (k1 - jd) (logical ls') [] = nth k1 (logical (dr ++ ls')) [].
Proof.
  intros F L Hnr Hlen Ed.
  replace (length (dr ++ ls') - nr + r') with (length dr + (length ls' - nr + r'))
    by (rewrite app_length; lia).
  rewrite curs_go_app_len, Ed, curs_go_shift.
  destruct (curs_go ls' (length ls' - nr + r') 0 0 nc) as [k2 o2].
  intros [= <- <-] Hside.
  pose proof (curs_go_app0 dr [] nc F) as Ed'. rewrite app_nil_r, Ed in Ed'.
  injection Ed' as Hjd Hod.
  replace (k2 + jd - jd) with k2 by lia.
  split.
  - f_equal. destruct (k2 =? 0) eqn:Z; [|reflexivity]. lia.
  - unfold logical. rewrite logical_go_app.
    rewrite app_nth2 by lia. replace (k2 + jd - length (fst (lg_pre dr []))) with k2 by lia.
    destruct (logical_go_cur ls' ltac:(intros ->; cbn [length] in Hlen; lia) L) as (h & tl & H).
    rewrite !H. destruct k2 as [|k2]; [|reflexivity].
    cbn [nth]. f_equal. symmetry. apply length_zero_iff_nil. lia.
Qed.

Definition same_character_from (j : nat) (b : buffer) (c r : nat) (b' : buffer) (c' r' : nat) : Prop :=
  let '(k, o) := curs b c r in
  let '(k', o') := curs b' c' r' in
  let old_k := nth k (logical_t (lines b)) [] in
  let new_k := nth k' (logical_t (lines b')) [] in
  let new_raw := nth k' (logical (lines b')) [] in
  o < length old_k ->
  k' + j = k /\ o' = o /\
  nth o new_k default_cell = nth o old_k default_cell /\
  o < length new_raw /\ nth o new_raw default_cell = nth o old_k default_cell /\
  (cell_is_default (nth o old_k default_cell) = false -> o < length new_k).

Lemma same_character_from_0 b c r b' c' r' :
  same_character_from 0 b c r b' c' r' <-> same_character b c r b' c' r'.
Proof.
  unfold same_character_from, same_character.
  destruct (curs b c r) as [k o]. destruct (curs b' c' r') as [k' o']. cbv zeta.
  rewrite Nat.add_0_r. reflexivity.
Qed.

Theorem C10_same_character_step_any_limit : forall v c r v' o,
  Inv v -> 1 <= c -> 1 <= r ->
  stepM v (Resize c r) = Ok (v', o) ->
  active (vterm v) = Primary ->
  (c = cols (vterm v) -> r < rows (vterm v) -> cur_col (vterm v) < cols (vterm v)) ->
  let t := vterm v in
  let t' := vterm v' in
  let dr := o_drained o in
  (* (a) right after the reflow = with the drained rows put back on top *)
  same_character (buf t) (cur_col t) (cur_row t)
                 (buf t' <| lines := dr ++ lines (buf t') |>) (cur_col t') (cur_row t')
  /\
  (* (b) after the trim: [jd] whole logical lines were drained, [od] cells of a further one *)
  (let '(jd, od) := curs_go dr (length dr) 0 0 c in
   let k := fst (curs (buf t) (cur_col t) (cur_row t)) in
   (jd < k \/ (jd = k /\ od = 0)) ->
   same_character_from jd (buf t) (cur_col t) (cur_row t) (buf t') (cur_col t') (cur_row t')).
Proof.
  intros v c r v' o HI Hc Hr E Ea Hside. cbv zeta.
  destruct (stepM_Inv v (Resize c r) HI (conj Hc Hr)) as (v1 & o1 & E' & HI').
  rewrite E in E'. injection E' as <- <-.
  destruct HI as (_ & HT). destruct HI' as (_ & HT').
  destruct (resize_step_shape v c r v' o E) as (b1 & dr & E1 & L1 & L2 & L3 & _ & Hdr & _).
  rewrite (Hdr Ea).
  assert (Hcr : cur_row (vterm v) < brows (buf (vterm v))).
  { rewrite (ti_brows _ HT). apply (ti_row _ HT). }
  destruct (buf_resize_ok' (buf (vterm v)) c r (cur_col (vterm v)) (cur_row (vterm v))
              (ti_buf _ HT) Hc Hr ltac:(intros; lia))
    as (b2 & cc2 & cr2 & E1' & HI1 & Hbc1 & Hbr1 & _).
  rewrite E1 in E1'. injection E1' as <- _ _.
  assert (A : same_character (buf (vterm v)) (cur_col (vterm v)) (cur_row (vterm v))
                b1 (cur_col (vterm v')) (cur_row (vterm v'))).
  { apply (C10_same_character_prop _ c r _ _ _ _ _ (ti_buf _ HT) Hc Hr); [exact Hcr| |exact E1].
    rewrite (ti_bcols _ HT), (ti_brows _ HT). exact Hside. }
  split.
  - apply (same_character_ext _ _ _ b1); [| | |exact A].
    + rewrite L1. destruct (buf (vterm v')); reflexivity.
    + rewrite <- L2. destruct (buf (vterm v')); reflexivity.
    + rewrite <- L3. destruct (buf (vterm v')); reflexivity.
  - destruct (curs_go dr (length dr) 0 0 c) as [jd od] eqn:Ed.
    intros Hk. revert A. unfold same_character, same_character_from.
    destruct (curs (buf (vterm v)) (cur_col (vterm v)) (cur_row (vterm v))) as [k o0] eqn:C0.
    cbn [fst] in Hk.
    unfold curs.
    destruct (curs_go (lines b1) (sb_len b1 + cur_row (vterm v')) 0 0 (bcols b1)) as [k1 off1] eqn:C1.
    destruct (curs_go (lines (buf (vterm v'))) (sb_len (buf (vterm v')) + cur_row (vterm v')) 0 0
                (bcols (buf (vterm v')))) as [k2 off2] eqn:C2.
    cbv beta iota zeta. intros A Hom. destruct (A Hom) as (-> & A2 & A3 & A4 & A5 & A6).
    pose proof HI1 as ((_ & _ & _ & F1) & Lnw1).
    pose proof (ti_buf _ HT') as ((_ & Hr2 & Hlen2 & _) & Lnw2).
    rewrite L1, Hbc1 in F1. apply Forall_app in F1. destruct F1 as (Fdr & _).
    unfold sb_len in C1. rewrite L1, Hbr1, Hbc1 in C1. rewrite L3, Hbr1 in Hlen2, Hr2.
    destruct (drop_top dr (lines (buf (vterm v'))) c r (cur_row (vterm v')) k off1 jd od
                Fdr Lnw2 Hr Hlen2 Ed C1 Hk) as (D1 & D2).
    unfold sb_len in C2. rewrite L2, L3, Hbc1, Hbr1, D1 in C2. injection C2 as <- <-.
    assert (Er : nth (k - jd) (logical (lines (buf (vterm v')))) [] = nth k (logical (lines b1)) []).
    { rewrite D2, L1. reflexivity. }
    assert (Et : nth (k - jd) (logical_t (lines (buf (vterm v')))) [] = nth k (logical_t (lines b1)) []).
    { unfold logical_t. rewrite !nth_map_trimd, Er. reflexivity. }
    rewrite Et, Er.
    split; [lia|]. split; [exact A2|]. split; [exact A3|]. split; [exact A4|].
    split; [exact A5|exact A6].
Qed.

Print Assumptions C10_same_character_step_any_limit.

(** ** Non-vacuity of the step theorems *)

Definition on_step (s : res (vt * out)) (nc nr : nat) (k : vt -> vt -> out -> Prop) : Prop :=
  match s with
  | Ok (v, _) =>
    match stepM v (Resize nc nr) with
    | Ok (v', o) =>
      active (vterm v) = Primary /\
      (nc = cols (vterm v) -> nr < rows (vterm v) -> cur_col (vterm v) < cols (vterm v)) /\ k v v' o
    | Panic _ => False
    end
  | Panic _ => False
  end.

(** unlimited scrollback: [st_char] (cursor on [i]), 6 x 3 -> 4 x 2 *)
Example C10_same_character_step_example :
  on_step st_char 4 2 (fun v v' o =>
    let t := vterm v in let t' := vterm v' in
    sb_limit t = None /\
    same_character_b (buf t) (cur_col t) (cur_row t) (buf t') (cur_col t') (cur_row t') = true /\
    ch (grid_cell (buf t') (cur_col t') (cur_row t')) = 105%N).
Proof. vm_compute. repeat split; try reflexivity; lia. Qed.

Local Open Scope N_scope.
(** 8 x 3, scrollback limit 0: [xy] CR LF [abcdefghijkl], cursor on [c] (row 1, column 2) *)
Definition st_lim : res (vt * out) :=
  feed_str (vt_new 8 3 (Some 0))
    [120;121;13;10; 97;98;99;100;101;102;103;104;105;106;107;108; 27;91;50;59;51;72].
(** 8 x 3, scrollback limit 0: 24 letters on three rows (one logical line), cursor on [s] *)
Definition st_lim2 : res (vt * out) :=
  feed_str (vt_new 8 3 (Some 0))
    [97;98;99;100;101;102;103;104;105;106;107;108;109;110;111;112;113;114;115;116;117;118;119;120;
     27;91;51;59;51;72].
Local Close Scope N_scope.

(** to 4 x 3: the row [xy] scrolls off and is drained (one whole logical line, [jd = 1],
    [od = 0]); the cursor's logical line 1 becomes line 0, the cursor is still on [c] *)
Example C10_same_character_step_any_limit_example :
  on_step st_lim 4 3 (fun v v' o =>
    let t := vterm v in let t' := vterm v' in
    length (o_drained o) = 1 /\
    curs_go (o_drained o) (length (o_drained o)) 0 0 4 = (1, 0) /\
    curs (buf t) (cur_col t) (cur_row t) = (1, 2) /\
    curs (buf t') (cur_col t') (cur_row t') = (0, 2) /\
    ch (nth 2 (nth 1 (logical_t (lines (buf t))) []) default_cell) = 99%N /\
    ch (nth 2 (nth 0 (logical_t (lines (buf t'))) []) default_cell) = 99%N /\
    ch (grid_cell (buf t') (cur_col t') (cur_row t')) = 99%N).
Proof. vm_compute. repeat split; try reflexivity; lia. Qed.

(** the side condition of (b) is needed: to 4 x 3 the first three rows of the cursor's OWN
    logical line are drained ([jd = 0 = k], [od = 12]); what is left of the line is
    [mnopqrstuvwx] and the cursor ([s]) is at offset 6 of it instead of 18; with the drained rows
    put back (a) everything is in place *)
Example C10_same_character_step_trimmed_line :
  on_step st_lim2 4 3 (fun v v' o =>
    let t := vterm v in let t' := vterm v' in
    curs_go (o_drained o) (length (o_drained o)) 0 0 4 = (0, 12) /\
    curs (buf t) (cur_col t) (cur_row t) = (0, 18) /\
    curs (buf t') (cur_col t') (cur_row t') = (0, 6) /\
    same_character_b (buf t) (cur_col t) (cur_row t) (buf t') (cur_col t') (cur_row t') = false /\
    same_character_b (buf t) (cur_col t) (cur_row t)
      (buf t' <| lines := o_drained o ++ lines (buf t') |>) (cur_col t') (cur_row t') = true /\
    ch (grid_cell (buf t') (cur_col t') (cur_row t')) = 115%N).
Proof. vm_compute. repeat split; try reflexivity; lia. Qed.

(** * 5. C16 x C17: the resized ?1049 excursion as a whole, from ENTRY to EXIT

    [C16_whole_excursion] concludes only a cursor-free statement when the size changed,
    [C17_round_trip_1049] has no resizes.  Here: enter with ?1049h from the primary screen, then
    ANY run of characters, flushes and resizes that keeps the alternate screen showing
    ([alt_run]), then ?1049l: the cursor is back in the same logical line of the primary's text,
    on the same character, with everything above and before it intact ([resize_preserves]
    against the buffer and the visible cursor AT ENTRY), and pen / origin mode / auto-wrap mode
    are those at entry.

    Which functions executed on the alternate screen can change the parked primary context
    [asctx]?  NONE that keeps the alternate screen showing: DECSC / SCOSC / ?1048h and a nested
    ?1049h save on the ALTERNATE screen ([sctx]); DECSTR resets the alternate screen's context;
    a resize clamps only the shown screen's context; only RIS touches [asctx], and RIS leaves
    the alternate screen (it is not a step of [alt_run]).  So there is NO hypothesis on [ops]
    ([alt_run_asctx]). *)

From Avt Require Import Oracles.Step Oracles.C16Text Proofs.TermEasy Proofs.Frames Proofs.StepC17
  Proofs.StepC16 Proofs.StepC16R Proofs.InvTerm Proofs.C17Run Proofs.C16Text Proofs.ParserInv.

Lemma term_gc_asctx t t2 dr : term_gc t = Ok (t2, dr) -> asctx t2 = asctx t.
Proof.
  unfold term_gc. destruct (buf_gc (buf t)) as [[b d]|s]; cbn [bind]; [|discriminate].
  intros E. assert (t2 = t <| buf := b |>) as ->.
  { destruct (active (t <| buf := b |>)); injection E as <- _; reflexivity. }
  destruct t; reflexivity.
Qed.

Lemma vt_flush_asctx v v1 out : vt_flush v = Ok (v1, out) -> asctx (vterm v1) = asctx (vterm v).
Proof.
  unfold vt_flush. destruct (changes (vterm v)) as [t1 ls] eqn:Ec.
  destruct (term_gc t1) as [[t2 dr]|s] eqn:Eg; cbn [bind]; [|discriminate].
  intros [= <- _]. rewrite vterm_set_vterm. rewrite (term_gc_asctx _ _ _ Eg).
  unfold changes in Ec. injection Ec as <- _. destruct (vterm v); reflexivity.
Qed.

(** one executed function that stays on the alternate screen keeps the primary's parked context *)
Lemma exec_alt_asctx t f t' :
  TInv t -> active t = Alternate -> execute t f = Ok t' -> active t' = Alternate ->
  asctx t' = asctx t.
Proof.
  intros HT Ea H Ea'.
  assert (Hd : forall ms, decset_safe Primary Alternate ms = true).
  { induction ms as [|m ms IH]; [reflexivity|]. cbn [decset_safe].
    replace (decset_active1 Alternate m) with Alternate
      by (unfold decset_active1; destruct (C17Run.is_switch m); reflexivity).
    rewrite IH. destruct m; reflexivity. }
  assert (Hs : step_safe false Primary (active t) f = true).
  { rewrite Ea. destruct f; try reflexivity. cbn [step_safe]. apply Hd. }
  destruct (step_saved false Primary t f t' HT Hs H) as (A & _ & _ & K).
  rewrite (saved_of_inactive t' Primary) in K by (rewrite Ea'; discriminate).
  rewrite (saved_of_inactive t Primary) in K by (rewrite Ea; discriminate).
  rewrite K. rewrite Ea in *. rewrite Ea' in A.
  destruct f; cbn [step_ctx]; try (unfold ctx_after; rewrite <- A; reflexivity).
  - (* Decstr *) reflexivity.
  - (* Ris leaves the alternate screen *) cbn [active_after] in A. discriminate A.
Qed.

Lemma step_alt_asctx v o v1 out :
  Inv v -> active (vterm v) = Alternate -> op_ok o ->
  stepM v o = Ok (v1, out) -> active (vterm v1) = Alternate ->
  asctx (vterm v1) = asctx (vterm v).
Proof.
  intros (_ & HT) Ea Ho E Ea1. revert E. destruct o as [c| |c r]; cbn [stepM].
  - destruct (vt_feed v c) as [v'|s] eqn:F; cbn [bind]; [|discriminate]. intros [= <- _].
    destruct (InvStep.vt_feed_inv v c v' F) as [->|(f & Ef)]; [reflexivity|].
    exact (exec_alt_asctx (vterm v) f (vterm v') HT Ea Ef Ea1).
  - intros E. apply (vt_flush_asctx v v1 out E).
  - destruct (term_resize (vterm v) c r) as [t|s] eqn:Er; cbn [bind]; [|discriminate]. intros E.
    rewrite (vt_flush_asctx _ _ _ E), vterm_set_vterm.
    destruct (resize_saved Primary _ _ _ _ Er) as (A & _ & _ & K).
    rewrite (saved_of_inactive t Primary) in K by (rewrite A, Ea; discriminate).
    rewrite (saved_of_inactive (vterm v) Primary) in K by (rewrite Ea; discriminate).
    rewrite K. unfold ctx_after. rewrite Ea. reflexivity.
Qed.

(** ** no hypothesis on the run: the parked primary context survives every excursion *)
Lemma alt_run_asctx v ops v' :
  alt_run v ops v' -> Inv v -> active (vterm v) = Alternate ->
  asctx (vterm v') = asctx (vterm v).
Proof.
  induction 1 as [v|v o v1 out ops v' Ho E Ea1 R IH]; intros HI Ea; [reflexivity|].
  destruct (step_alt_other v o v1 out HI Ea Ho E Ea1) as (HI1 & _).
  rewrite (IH HI1 Ea1). exact (step_alt_asctx v o v1 out HI Ea Ho E Ea1).
Qed.

(** ?1049l from the alternate screen IS [buf_resize] of the parked buffer to the current size
    with the parked (saved) cursor *)
Lemma decrst_scasb_buf_resize t t' :
  active t = Alternate -> execute t (Decrst [SaveCursorAltScreenBuffer]) = Ok t' ->
  buf_resize (other t) (cols t) (rows t) (sc_col (asctx t)) (sc_row (asctx t))
    = Ok (buf t', (cur_col t', cur_row t')).
Proof.
  intros Ea H. rewrite exec_decrst_one, decrst_scasb_eq in H.
  apply bind_ok in H as (t1 & H1 & H).
  apply switch_prim_inv in H1 as [[Ea' _]|[_ [d ->]]]; [rewrite Ea in Ea'; discriminate|].
  apply reflow_inv in H as (b & c & r & d' & Hb & ->).
  destruct (restore_cursor_fields_eq (to_prim t d)) as (R1 & _ & R3 & R4 & R5 & R6 & _).
  destruct (to_prim_fields t d) as (_ & P2 & _ & _ & P5 & P6 & P7 & _).
  rewrite R1, R3, R4, R5, R6, P2, P5, P6, P7 in Hb.
  rewrite reflowed_buf.
  destruct (reflowed_cur (restore_cursor (to_prim t d)) b c r d') as [-> ->]. exact Hb.
Qed.

Theorem C16_excursion_1049_resized : forall v0 v1 ops v2 t3,
  Inv v0 -> active (vterm v0) = Primary ->
  (* [v1]: the machine right after the step that executed ?1049h (its parser is the parser after
     the final [h]; any parser satisfying the parser invariant) *)
  PInv (vparser v1) -> execute (vterm v0) (Decset [SaveCursorAltScreenBuffer]) = Ok (vterm v1) ->
  alt_run v1 ops v2 ->
  execute (vterm v2) (Decrst [SaveCursorAltScreenBuffer]) = Ok t3 ->
  let t0 := vterm v0 in
  resize_preserves (buf t0) (viscol t0) (cur_row t0) (buf t3) (cur_col t3) (cur_row t3) = true
  /\ same_character (buf t0) (viscol t0) (cur_row t0) (buf t3) (cur_col t3) (cur_row t3)
  /\ active t3 = Primary
  /\ tpen t3 = tpen t0 /\ org t3 = org t0 /\ awm t3 = awm t0 /\ Types.pend t3 = false
  /\ cur_col t3 < cols t3 /\ cur_row t3 < rows t3
  /\ cols t3 = cols (vterm v2) /\ rows t3 = rows (vterm v2)
  /\ (cols (vterm v2) = cols t0 -> rows (vterm v2) = rows t0 ->
      cur_col t3 = viscol t0 /\ cur_row t3 = cur_row t0 /\ lines (buf t3) = lines (buf t0))
  /\ (forall p, holds_C02_state (mkVt p t3) = true).
Proof.
  intros v0 v1 ops v2 t3 HI Ea HP1 H1 R H3. cbv zeta.
  pose proof HI as (_ & HT0).
  destruct (execute_ok (vterm v0) (Decset [SaveCursorAltScreenBuffer]) HT0) as (t1 & E1 & HT1). rewrite H1 in E1.
  apply Ok_inj in E1. subst t1.
  destruct (C17_1049h _ _ HT0 H1) as (Ea1 & _ & _ & S1 & _). rewrite Ea in S1.
  rewrite (saved_of_inactive _ Primary) in S1 by (rewrite Ea1; discriminate).
  assert (O1 : other (vterm v1) = buf (vterm v0)).
  { destruct (decset_PB _ _ _ Ea H1) as (_ & _ & _ & HPB). rewrite Ea1 in HPB. apply HPB. }
  assert (HI1 : Inv v1) by (split; assumption).
  destruct (alt_run_other v1 ops v2 R HI1 Ea1) as ((_ & HT2) & Ea2 & O2).
  pose proof (alt_run_asctx v1 ops v2 R HI1 Ea1) as K2.
  assert (Ectx : asctx (vterm v2) = spec_saved_now (vterm v0)) by congruence.
  assert (Eoth : other (vterm v2) = buf (vterm v0)) by congruence.
  pose proof (decrst_scasb_buf_resize _ _ Ea2 H3) as Hb.
  pose proof (decrst_scasb_resized _ _ HT2 Ea2 H3) as RP.
  rewrite Ectx, Eoth in Hb, RP. cbn [spec_saved_now sc_col sc_row] in Hb, RP.
  destruct (C17_decrst_scasb _ _ HT2 H3) as (B1 & B2 & B3 & B4 & B5 & B6 & B7). cbv zeta in *.
  rewrite (saved_of_inactive _ Primary) in B1, B2, B3, B7 by (rewrite Ea2; discriminate).
  rewrite Ectx in B1, B2, B3, B7. cbn [spec_saved_now sc_col sc_row sc_pen sc_origin sc_awm] in B1, B2, B3, B7.
  destruct (C17_1049l _ _ HT2 H3) as (Ea3 & Ec3 & Er3 & _).
  split; [exact RP|]. split.
  { apply (C10_same_character_prop _ (cols (vterm v2)) (rows (vterm v2)) _ _ _ _ _
             (ti_buf _ HT0) (ti_cols _ HT2) (ti_rows _ HT2)); [| |exact Hb].
    - rewrite (ti_brows _ HT0). apply (ti_row _ HT0).
    - intros _ _. rewrite (ti_bcols _ HT0). unfold viscol. pose proof (ti_cols _ HT0). lia. }
  split; [exact Ea3|]. split; [exact B1|]. split; [exact B2|]. split; [exact B3|].
  split; [exact B4|]. split; [exact B5|]. split; [exact B6|]. split; [exact Ec3|].
  split; [exact Er3|]. split.
  - intros Gc Gr. unfold primary_buffer in B7. rewrite Ea2, Eoth in B7.
    destruct (B7 ltac:(rewrite (ti_bcols _ HT0); symmetry; exact Gc)
                 ltac:(rewrite (ti_brows _ HT0); symmetry; exact Gr)) as (C1 & C2).
    split; [exact C1|]. split; [exact C2|].
    rewrite <- Eoth. apply (alt_prim _ [SaveCursorAltScreenBuffer] t3 HT2 H3 Ea2 Ea3).
    + rewrite Eoth, (ti_bcols _ HT0). symmetry. exact Gc.
    + rewrite Eoth, (ti_brows _ HT0). symmetry. exact Gr.
  - intros p. exact (C02_state_after p _ _ t3 HT2 H3).
Qed.

Print Assumptions C16_excursion_1049_resized.

(** the same with entry and exit as characters of the public machine: the character [c0]
    completes ?1049h, the character [c3] completes ?1049l *)
Corollary C16_excursion_1049_resized_vt : forall v0 c0 p1 v1 ops v2 c3 p3 v3,
  Inv v0 -> active (vterm v0) = Primary ->
  feedM (vparser v0) c0 = Ok (p1, Some (Decset [SaveCursorAltScreenBuffer])) ->
  vt_feed v0 c0 = Ok v1 ->
  alt_run v1 ops v2 ->
  feedM (vparser v2) c3 = Ok (p3, Some (Decrst [SaveCursorAltScreenBuffer])) ->
  vt_feed v2 c3 = Ok v3 ->
  let t0 := vterm v0 in
  let t3 := vterm v3 in
  resize_preserves (buf t0) (viscol t0) (cur_row t0) (buf t3) (cur_col t3) (cur_row t3) = true
  /\ same_character (buf t0) (viscol t0) (cur_row t0) (buf t3) (cur_col t3) (cur_row t3)
  /\ active t3 = Primary
  /\ tpen t3 = tpen t0 /\ org t3 = org t0 /\ awm t3 = awm t0 /\ Types.pend t3 = false
  /\ cur_col t3 < cols t3 /\ cur_row t3 < rows t3
  /\ holds_C02_state v3 = true.
Proof.
  intros v0 c0 p1 v1 ops v2 c3 p3 v3 HI Ea F0 E0 R F2 E2. cbv zeta.
  pose proof HI as (HP0 & _).
  assert (A1 : PInv (vparser v1) /\ execute (vterm v0) (Decset [SaveCursorAltScreenBuffer]) = Ok (vterm v1)).
  { revert E0. unfold vt_feed. rewrite F0. cbn [bind].
    destruct (execute (vterm v0) (Decset [SaveCursorAltScreenBuffer])) as [t|s]; cbn [bind]; [|discriminate].
    intros [= <-]. cbn [vparser vterm]. split; [exact (feedM_PInv _ _ _ _ HP0 F0)|reflexivity]. }
  destruct A1 as (HP1 & H1).
  assert (A3 : execute (vterm v2) (Decrst [SaveCursorAltScreenBuffer]) = Ok (vterm v3)).
  { revert E2. unfold vt_feed. rewrite F2. cbn [bind].
    destruct (execute (vterm v2) (Decrst [SaveCursorAltScreenBuffer])) as [t|s]; cbn [bind]; [|discriminate].
    intros [= <-]. reflexivity. }
  destruct (C16_excursion_1049_resized v0 v1 ops v2 (vterm v3) HI Ea HP1 H1 R A3)
    as (C1 & C2 & C3 & C4 & C5 & C6 & C7 & C8 & C9 & _ & _ & _ & C13).
  repeat (split; [assumption|]).
  specialize (C13 (vparser v3)). destruct v3; exact C13.
Qed.

Print Assumptions C16_excursion_1049_resized_vt.

(** ** the plain excursions (?47 / ?1047 and every other way in): leaving with ?47l / ?1047l hands
    the ALTERNATE screen's cursor to the re-wrap; the text clauses are against the primary
    buffer AT ENTRY, from entry to exit, with any feeds, flushes and resizes in between *)
Theorem C16_excursion_47_resized : forall v0 c0 v1 ops v2 t3,
  Inv v0 -> active (vterm v0) = Primary ->
  vt_feed v0 c0 = Ok v1 -> active (vterm v1) = Alternate ->
  alt_run v1 ops v2 ->
  execute (vterm v2) (Decrst [AltScreenBuffer]) = Ok t3 ->
  let t0 := vterm v0 in
  let t2 := vterm v2 in
  (let '(k, o) := curs (buf t0) (cur_col t2) (cur_row t2) in
   text_upto (logical_t (lines (buf t0))) (logical_t (lines (buf t3))) k o) = true
  /\ (cur_row t2 < rows t0 ->
      resize_preserves (buf t0) (cur_col t2) (cur_row t2) (buf t3) (cur_col t3) (cur_row t3) = true
      /\ ((cols t2 = cols t0 -> rows t2 < rows t0 -> cur_col t2 < cols t0) ->
          same_character (buf t0) (cur_col t2) (cur_row t2) (buf t3) (cur_col t3) (cur_row t3))).
Proof.
  intros v0 c0 v1 ops v2 t3 HI Ea F Ea1 R H3. cbv zeta.
  destruct (C16_throughout v0 c0 v1 ops v2 HI Ea F Ea1 R) as ((_ & HT2) & Ea2 & O2 & _).
  destruct HI as (_ & HT0).
  pose proof (decrst_asb_resize _ _ Ea2 H3) as Hb. rewrite O2 in Hb.
  destruct (resize_return_text _ _ _ _ _ _ _ _ (ti_buf _ HT0) (ti_cols _ HT2) (ti_rows _ HT2)
              (ti_row _ HT2) (ti_col _ HT2) Hb) as (T1 & T2).
  split; [exact T1|]. intros Hrow. rewrite <- (ti_brows _ HT0) in Hrow.
  split; [exact (T2 Hrow)|]. intros Hside.
  apply (C10_same_character_prop _ _ _ _ _ _ _ _ (ti_buf _ HT0) (ti_cols _ HT2) (ti_rows _ HT2) Hrow);
    [|exact Hb].
  rewrite (ti_bcols _ HT0), (ti_brows _ HT0). exact Hside.
Qed.

Print Assumptions C16_excursion_47_resized.

(** ** Non-vacuity: 6 x 3, scrollback limit 1, [abcdefghijklmno] on three rows (one logical line),
    cursor on [i]; ?1049h; on the alternate screen: text, a resize to 4 x 2, DECSC, DECSTR, a nested
    ?1049h, a flush, another pair of resizes; ?1049l.  The primary comes back re-wrapped to 4
    columns, cut after [l], with the cursor on [i]. *)
Local Open Scope N_scope.
Definition ex1049_text : list N :=
  [97;98;99;100;101;102;103;104;105;106;107;108;109;110;111; 27;91;50;59;51;72].
Definition ex1049_ops : list op :=
  map Feed [120;121;122] ++ [Resize 4 2] ++ map Feed [27;55] ++ map Feed [27;91;33;112]
  ++ map Feed [27;91;63;49;48;52;57;104] ++ [Flush; Resize 9 5; Resize 4 2]
  ++ map Feed [27;91;63;49;48;52;57].
Local Close Scope N_scope.

Example C16_excursion_1049_resized_example :
  match feed_chars (vt_new 6 3 (Some 1%N)) (ex1049_text ++ [27;91;63;49;48;52;57]%N) with
  | Ok v0 =>
    match vt_feed v0 104%N with
    | Ok v1 =>
      match C16Text.Examples.alt_run_exec v1 ex1049_ops with
      | Some v2 =>
        match execute (vterm v2) (Decrst [SaveCursorAltScreenBuffer]) with
        | Ok t3 =>
          let t0 := vterm v0 in
          active t0 = Primary
          /\ execute t0 (Decset [SaveCursorAltScreenBuffer]) = Ok (vterm v1)
          /\ (cols t0, rows t0) = (6, 3) /\ (cols (vterm v2), rows (vterm v2)) = (4, 2)
          /\ (viscol t0, cur_row t0) = (2, 1) /\ (cur_col t3, cur_row t3) = (0, 1)
          /\ curs (buf t0) (viscol t0) (cur_row t0) = (0, 8)
          /\ curs (buf t3) (cur_col t3) (cur_row t3) = (0, 8)
          /\ ch (grid_cell (buf t0) (viscol t0) (cur_row t0)) = 105%N
          /\ ch (grid_cell (buf t3) (cur_col t3) (cur_row t3)) = 105%N
          /\ map ch (nth 0 (logical_t (lines (buf t3))) [])
             = [97;98;99;100;101;102;103;104;105;106;107;108]%N
          /\ resize_preserves (buf t0) (viscol t0) (cur_row t0) (buf t3) (cur_col t3) (cur_row t3) = true
          /\ same_character_b (buf t0) (viscol t0) (cur_row t0) (buf t3) (cur_col t3) (cur_row t3) = true
          /\ sc_col (sctx (vterm v2)) <> sc_col (asctx (vterm v2))
        | Panic _ => False
        end
      | None => False
      end
    | Panic _ => False
    end
  | Panic _ => False
  end.
Proof. vm_compute. repeat split; try reflexivity; try lia. Qed.
