(** Property C11: the statement of [C11_dump] evaluated on concrete states (validation done
    before the proof; kept as regression examples).  Each state is built from [Vt::new] by
    feeds / flushes / resizes; [rt] dumps it, feeds the dump into a fresh terminal of the same
    size and evaluates [holds_C11] together with the three known-finding classifiers. *)

From Coq Require Import String Ascii List NArith.
From Avt Require Import Model.Vt Oracles.Rel Proofs.Inv.
Import ListNotations.
Local Open Scope N_scope.

Definition E (s : string) : list N := 27 :: str s.
Definition C (s : string) : list N := 155 :: str s.
Definition F (s : list N) : list op := map Feed s ++ [Flush].

(** (holds_C11, kf1, kf2, kf3) *)
Definition rt (c r : nat) (ops : list op) : res (bool * bool * bool * bool) :=
  v <- runM (vt_new c r None) ops ;;
  d <- vt_dump v ;;
  '(w, _) <- feed_str (vt_new (cols (vterm v)) (rows (vterm v)) None) d ;;
  Ok (holds_C11 v w, kf1_C11 (vterm v), kf2_C11 (vterm v), kf3_C11 (vterm v)).

Definition good : res (bool * bool * bool * bool) := Ok (true, false, false, false).

(* tabs customised, text, colours *)
Example t01 : rt 20 5 (F (str "hello" ++ C "5W" ++ C "4`" ++ E "H" ++ C "11`" ++ E "H" ++ E "[1;31;44m"
                          ++ str "world" ++ [13;10] ++ str "xx")) = good.
Proof. vm_compute. reflexivity. Qed.
(* both saved contexts set (origin, no auto-wrap, colours), back on the primary screen *)
Example t02 : rt 20 5 (F (C "3;4H" ++ E "[38;5;100m" ++ C "?6h" ++ C "?7l" ++ E "7" ++ C "?1047h" ++ C "2;2H"
                          ++ E "[4m" ++ E "7" ++ str "alt" ++ C "?1047l" ++ str "prim")) = good.
Proof. vm_compute. reflexivity. Qed.
(* alternate screen active, both contexts saved *)
Example t03 : rt 20 5 (F (str "primary text" ++ C "2;3H" ++ E "7" ++ C "?1047h" ++ str "on alt" ++ C "3;3H"
                          ++ E "[7m" ++ E "7" ++ C "1;5H" ++ str "zz")) = good.
Proof. vm_compute. reflexivity. Qed.
(* origin mode with a region, cursor inside *)
Example t04 : rt 20 6 (F (C "2;4r" ++ C "?6h" ++ C "2;5H" ++ str "ab")) = good.
Proof. vm_compute. reflexivity. Qed.
(* wrap-pending cursor, coloured last cell *)
Example t05 : rt 10 3 (F (E "[32m" ++ str "0123456789")) = good.
Proof. vm_compute. reflexivity. Qed.
(* wrap pending, then auto-wrap off, insert / LNM / application cursor keys *)
Example t06 : rt 10 3 (F (str "0123456789" ++ C "?7l" ++ C "4h" ++ C "20h" ++ C "?1h")) = good.
Proof. vm_compute. reflexivity. Qed.
(* drawing charsets, SO, invisible cursor *)
Example t07 : rt 10 3 (F (E "(0" ++ E ")0" ++ [14] ++ str "lqqk" ++ C "?25l")) = good.
Proof. vm_compute. reflexivity. Qed.
(* everything at once, parser left in the middle of a CSI sequence *)
Example t08 : rt 10 4 (F (str "prim" ++ C "5W" ++ C "3`" ++ E "H" ++ C "2;2H" ++ E "[33m" ++ E "7" ++ C "?1047h"
   ++ C "2;3r" ++ C "?6h" ++ E "[38;2;1;2;3;48;5;20;1;3;4;5;7;9m" ++ C "2;1H" ++ str "0123456789" ++ E "7"
   ++ E "(0" ++ E ")0" ++ [14] ++ C "4h" ++ C "?7l" ++ C "20h" ++ C "?1h" ++ C "?25l" ++ E "[3;4:5")) = good.
Proof. vm_compute. reflexivity. Qed.
(* region without origin mode, cursor outside the region *)
Example t09 : rt 10 6 (F (C "2;3r" ++ C "5;5H" ++ str "q")) = good.
Proof. vm_compute. reflexivity. Qed.
(* soft-wrapped lines and scrolling *)
Example t10 : rt 10 3 (F (str "0123456789abcdefghijABCDEFGHIJKLMNOPQRSTUVWXYZ" ++ [13;10] ++ str "tail")) = good.
Proof. vm_compute. reflexivity. Qed.
(* STALE alternate context: saved at (8,30) on the alternate screen, then the terminal shrinks;
   the dump writes it unclamped, CUP clamps it: equal up to [clamp_ctx] *)
Example t11 : rt 40 10 (F (str "abc" ++ C "?1047h" ++ C "?6h" ++ C "9;31H" ++ E "[35m" ++ E "7" ++ C "?6l" ++ C "?1047l")
                        ++ [Resize 10 4] ++ F (str "x")) = good.
Proof. vm_compute. reflexivity. Qed.
(* alternate screen active, resized there and back: the parked primary has the current geometry again *)
Example t12 : rt 40 10 (F (str "abcdefghijklmnopqrstuvwxyz" ++ C "3;7H" ++ E "7" ++ C "?1047h" ++ str "alt")
                        ++ [Resize 10 4; Resize 40 10] ++ F (str "x")) = good.
Proof. vm_compute. reflexivity. Qed.
(* margins reset by a resize to one row *)
Example t13 : rt 20 8 (F (C "2;3r" ++ str "abc") ++ [Resize 10 1] ++ F (str "x")) = good.
Proof. vm_compute. reflexivity. Qed.
(* one column, wrap pending; one cell *)
Example t14 : rt 1 3 (F (str "a")) = good.
Proof. vm_compute. reflexivity. Qed.
Example t15 : rt 1 1 (F (str "ab" ++ E "7")) = good.
Proof. vm_compute. reflexivity. Qed.
(* stale alternate context with origin mode, saved through 1049 *)
Example t16 : rt 20 8 (F (C "?1049h" ++ C "2;5r" ++ C "?6h" ++ C "3;4H" ++ E "7" ++ C "?1049l") ++ [Resize 5 3]) = good.
Proof. vm_compute. reflexivity. Qed.
(* soft reset, tab, DECALN *)
Example t17 : rt 20 8 (F (str "abc" ++ C "?7l" ++ C "4h" ++ E "7" ++ C "!p" ++ str "zz" ++ [9] ++ str "q")) = good.
Proof. vm_compute. reflexivity. Qed.
Example t18 : rt 20 4 (F (E "#8" ++ C "2;20H" ++ E "[1;4m" ++ str "X" ++ E "[m")) = good.
Proof. vm_compute. reflexivity. Qed.

(** KF-C11-2 (excluded by [kf2_C11 = false]): resized while the alternate screen is showing *)
Example k2 : rt 40 10 (F (str "abc" ++ C "?1047h" ++ str "alt") ++ [Resize 10 4] ++ F (str "x"))
             = Ok (false, false, true, false).
Proof. vm_compute. reflexivity. Qed.

(** a KF-C11-1 state (origin mode, cursor outside the region; excluded by [kf1_C11 = false]):
    the dump falls back to [CSI u] + relative moves, which happens to succeed here *)
Example k1 : rt 10 8 (F (C "?6h" ++ C "6;3H" ++ E "7" ++ C "2;3r" ++ E "8" ++ str "x"))
             = Ok (true, true, false, false).
Proof. vm_compute. reflexivity. Qed.
